import PPLV.Conv.ProofsCompleteAbs4
import Mathlib.LinearAlgebra.FiniteDimensional.Lemmas
import Mathlib.LinearAlgebra.Dimension.Constructions
/-!
# C01 stage 4 — the dimension counting of `conversion`, abstractly

* `finrank_le_of_ker_le_span` — pure linear algebra (rank–nullity): if the common kernel of `k` functionals
  inside `U` lies in the span of `m` vectors then `dim U ≤ k + m`;
* `cone_lines_iff_span` — `Cone L ∅` is the span of `L`;
* `quick_nonadjacent_sound` — the quick non-adjacency test (`Polyhedron_conversion_templates.hh:755-799`)
  never rejects an adjacent pair;
* `pair_dim`, `line_step_rank` — the rank bookkeeping of the ray and line cases.
-/
namespace PPLV.Conv.Abs
open Module Submodule

variable {V : Type*} [AddCommGroup V] [Module ℚ V]

/-- the span of a list of vectors has dimension at most its length. -/
theorem finrank_span_list_le (vs : List V) :
    finrank ℚ (Submodule.span ℚ {v | v ∈ vs}) ≤ vs.length := by
  classical
  have : {v | v ∈ vs} = ((vs.toFinset : Finset V) : Set V) := by ext; simp
  rw [this]
  exact (finrank_span_finset_le_card _).trans (List.toFinset_card_le _)

/-- if the common kernel (inside the finite-dimensional subspace `U`) of the functionals `fs` is contained
in the span of the vectors `vs`, then `dim U ≤ #fs + #vs` (rank–nullity). -/
theorem finrank_le_of_ker_le_span (U : Submodule ℚ V) [FiniteDimensional ℚ U]
    (fs : List (V →ₗ[ℚ] ℚ)) (vs : List V)
    (h : ∀ w ∈ U, (∀ f ∈ fs, f w = 0) → w ∈ Submodule.span ℚ {v | v ∈ vs}) :
    Module.finrank ℚ U ≤ fs.length + vs.length := by
  classical
  let F : U →ₗ[ℚ] (Fin fs.length → ℚ) := LinearMap.pi (fun i => (fs.get i).comp U.subtype)
  have hrn := LinearMap.finrank_range_add_finrank_ker F
  have h1 : finrank ℚ (LinearMap.range F) ≤ fs.length := by
    have := Submodule.finrank_le (LinearMap.range F)
    simpa using this
  have hspanfd : FiniteDimensional ℚ (Submodule.span ℚ {v | v ∈ vs}) :=
    FiniteDimensional.span_of_finite ℚ (List.finite_toSet vs)
  have h2 : finrank ℚ (LinearMap.ker F) ≤ vs.length := by
    have hle : Submodule.map U.subtype (LinearMap.ker F) ≤ Submodule.span ℚ {v | v ∈ vs} := by
      rintro _ ⟨w, hw, rfl⟩
      apply h w w.2
      intro f hf
      obtain ⟨i, rfl⟩ := List.mem_iff_get.1 hf
      have := congrFun (LinearMap.mem_ker.1 hw) i
      simpa [F] using this
    have := Submodule.finrank_mono hle
    rw [Submodule.finrank_map_subtype_eq] at this
    exact this.trans (finrank_span_list_le vs)
  omega

private theorem cone_lines_add' {L : Set V} {x y : V} (hx : Cone L ∅ x) (hy : Cone L ∅ y) :
    Cone L ∅ (x + y) := by
  induction hy with
  | zero => simpa using hx
  | line t hl _ ih => rw [← add_assoc]; exact Cone.line t hl ih
  | ray t hr _ _ _ => exact absurd hr (Set.notMem_empty _)

private theorem cone_lines_smul' {L : Set V} {x : V} (c : ℚ) (hx : Cone L ∅ x) :
    Cone L ∅ (c • x) := by
  induction hx with
  | zero => simpa using Cone.zero
  | line t hl _ ih => rw [smul_add, smul_smul]; exact Cone.line _ hl ih
  | ray t hr _ _ _ => exact absurd hr (Set.notMem_empty _)

/-- `Cone L ∅ x` is membership in the span. -/
theorem cone_lines_iff_span (L : Set V) (x : V) : Cone L ∅ x ↔ x ∈ Submodule.span ℚ L := by
  constructor
  · intro h
    induction h with
    | zero => exact zero_mem _
    | line t hl _ ih => exact add_mem ih (smul_mem _ _ (subset_span hl))
    | ray t hr _ _ _ => exact absurd hr (Set.notMem_empty _)
  · intro h
    induction h using Submodule.span_induction with
    | mem x hx => simpa using Cone.line (R := ∅) 1 hx Cone.zero
    | zero => exact Cone.zero
    | add x y _ _ hx hy => exact cone_lines_add' hx hy
    | smul t x _ hx => exact cone_lines_smul' t hx

/-- two rays on opposite sides of a hyperplane that contains the lines are independent modulo the lines. -/
theorem pair_dim {U : Submodule ℚ V} [FiniteDimensional ℚ U] {A : List (ACon V)} {L R : Set V}
    (inv : DDInv U A L R) (n : ℕ)
    (hn : n ≤ Module.finrank ℚ (Submodule.span ℚ L)) (r s : V) (hr : r ∈ R) (hs : s ∈ R)
    (c : V →ₗ[ℚ] ℚ) (hcL : ∀ l ∈ L, c l = 0)
    (hcr : 0 < c r) (hcs : c s < 0) : n + 2 ≤ Module.finrank ℚ U := by
  have hA0 : ∀ x ∈ Submodule.span ℚ L, ∀ a ∈ A, a.f x = 0 := by
    intro x hx a ha
    induction hx using Submodule.span_induction with
    | mem x h => exact inv.lineSat x h a ha
    | zero => simp
    | add x y _ _ hx hy => simp [hx, hy]
    | smul t x _ hx => simp [hx]
  have hc0 : ∀ x ∈ Submodule.span ℚ L, c x = 0 := by
    intro x hx
    induction hx using Submodule.span_induction with
    | mem x h => exact hcL x h
    | zero => simp
    | add x y _ _ hx hy => simp [hx, hy]
    | smul t x _ hx => simp [hx]
  have hrL : r ∉ Submodule.span ℚ L := fun h => by
    obtain ⟨a, ha, hne⟩ := inv.proper r hr
    exact hne (hA0 r h a ha)
  have hsn : s ∉ Submodule.span ℚ (insert r L) := by
    intro h
    obtain ⟨β, z, hz, hsz⟩ := Submodule.mem_span_insert.1 h
    have hβ : β < 0 := by
      have : c s = β * c r := by rw [hsz]; simp [hc0 z hz]
      rw [this] at hcs
      by_contra hb
      have : 0 ≤ β * c r := mul_nonneg (not_lt.1 hb) hcr.le
      linarith
    obtain ⟨a, ha, hne⟩ := inv.proper r hr
    have h1 := inv.raySound r hr a ha
    have h2 := inv.raySound s hs a ha
    rw [ACon.holds_iff] at h1 h2
    have hev : a.f s = β * a.f r := by rw [hsz]; simp [hA0 z hz a ha]
    cases hb : a.eq
    · have e1 := h1.2 hb
      have e2 := h2.2 hb
      rw [hev] at e2
      apply hne
      nlinarith
    · exact hne (h1.1 hb)
  have hU1 : Submodule.span ℚ (insert s (insert r L)) ≤ U := by
    apply Submodule.span_le.2
    intro x hx
    rcases hx with rfl | rfl | hx
    · exact inv.rayU _ hs
    · exact inv.rayU _ hr
    · exact inv.lineU _ hx
  have := Submodule.finiteDimensional_of_le hU1
  have hle2 : Submodule.span ℚ (insert r L) ≤ Submodule.span ℚ (insert s (insert r L)) :=
    Submodule.span_mono (Set.subset_insert _ _)
  have := Submodule.finiteDimensional_of_le hle2
  have hlt1 : Submodule.span ℚ L < Submodule.span ℚ (insert r L) :=
    SetLike.lt_iff_le_and_exists.2
      ⟨Submodule.span_mono (Set.subset_insert _ _), r, Submodule.subset_span (Set.mem_insert _ _), hrL⟩
  have hlt2 : Submodule.span ℚ (insert r L) < Submodule.span ℚ (insert s (insert r L)) :=
    SetLike.lt_iff_le_and_exists.2
      ⟨hle2, s, Submodule.subset_span (Set.mem_insert _ _), hsn⟩
  have f1 := Submodule.finrank_lt_finrank_of_lt hlt1
  have f2 := Submodule.finrank_lt_finrank_of_lt hlt2
  have f3 := Submodule.finrank_mono hU1
  omega

/-- the line case of `conversion` keeps the lines independent: each old line other than `l₀` is replaced by a
combination with `l₀`, so at most one dimension is lost. -/
theorem line_step_rank (L L' : Set V) (hfin : L.Finite) (l₀ : V) (n : ℕ)
    (hn : n ≤ Module.finrank ℚ (Submodule.span ℚ L))
    (hline : ∀ l ∈ L, l ≠ l₀ → ∃ l' ∈ L', ∃ s t : ℚ, s ≠ 0 ∧ l' = s • l + t • l₀)
    (hfin' : L'.Finite) : n - 1 ≤ Module.finrank ℚ (Submodule.span ℚ L') := by
  have _ := hfin
  have := FiniteDimensional.span_of_finite ℚ hfin'
  have : FiniteDimensional ℚ (Submodule.span ℚ (insert l₀ L')) :=
    FiniteDimensional.span_of_finite ℚ (hfin'.insert _)
  have hle : Submodule.span ℚ L ≤ Submodule.span ℚ (insert l₀ L') := by
    apply Submodule.span_le.2
    intro l hl
    by_cases h0 : l = l₀
    · subst h0; exact Submodule.subset_span (Set.mem_insert _ _)
    · obtain ⟨l', hl', s, t, hs, rfl⟩ := hline l hl h0
      have e : l = s⁻¹ • ((s • l + t • l₀) - t • l₀) := by
        simp [smul_smul, inv_mul_cancel₀ hs]
      rw [e]
      exact Submodule.smul_mem _ _ (Submodule.sub_mem _
        (Submodule.subset_span (Set.mem_insert_of_mem _ hl'))
        (Submodule.smul_mem _ _ (Submodule.subset_span (Set.mem_insert _ _))))
  have h1 := Submodule.finrank_mono hle
  have h2 : finrank ℚ (Submodule.span ℚ (insert l₀ L')) ≤ 1 + finrank ℚ (Submodule.span ℚ L') := by
    rw [Submodule.span_insert]
    refine (Submodule.finrank_add_le_finrank_add_finrank _ _).trans ?_
    have : finrank ℚ (Submodule.span ℚ ({l₀} : Set V)) ≤ 1 :=
      (finrank_span_le_card ({l₀} : Set V)).trans (by simp)
    omega
  omega

/-- the quick NON-adjacency test (`Polyhedron_conversion_templates.hh:755-799`) never rejects an adjacent
pair: an adjacent pair has at least `dim − #lines − 2` common saturators. -/
theorem quick_nonadjacent_sound {U : Submodule ℚ V} [FiniteDimensional ℚ U] {A : List (ACon V)}
    {L R : Set V} (inv : DDInv U A L R)
    (Ll : List V) (hL : L = {x | x ∈ Ll}) (r s : V) (hr : r ∈ R) (hs : s ∈ R)
    (hadj : Adjacent A R r s)
    (Zc : List (ACon V)) (hZc : ∀ a ∈ A, a.f r = 0 → a.f s = 0 → a ∈ Zc) :
    Module.finrank ℚ U ≤ Zc.length + Ll.length + 2 := by
  subst hL
  have key := finrank_le_of_ker_le_span U (Zc.map (·.f)) (r :: s :: Ll) ?_
  · simpa [add_assoc] using key
  · intro w hwU hw
    obtain ⟨α, β, l, hl, rfl⟩ := adjacent_ker inv r s hr hs hadj w hwU
      (fun a ha h1 h2 => hw a.f (List.mem_map.2 ⟨a, hZc a ha h1 h2, rfl⟩))
    have hl' := (cone_lines_iff_span _ l).1 hl
    have hmono : Submodule.span ℚ {x | x ∈ Ll} ≤ Submodule.span ℚ {v | v ∈ r :: s :: Ll} :=
      Submodule.span_mono (fun x hx => List.mem_cons_of_mem _ (List.mem_cons_of_mem _ hx))
    exact Submodule.add_mem _ (Submodule.add_mem _
      (Submodule.smul_mem _ _ (Submodule.subset_span (by simp)))
      (Submodule.smul_mem _ _ (Submodule.subset_span (by simp)))) (hmono hl')

end PPLV.Conv.Abs
