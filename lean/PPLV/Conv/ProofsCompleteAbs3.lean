import PPLV.Conv.ProofsCompleteAbs1
/-!
# C01 stage 4 — the line case of conversion, and the classical Double Description lemma

* `line_step_complete`: a line `l₀` that does not saturate the new constraint is used as a pivot: every other
  generator is combined with it to land on the hyperplane, and `l₀` itself becomes a ray (inequality) or
  disappears (equality).
* `dd_step_all_pairs`, `dd_step_all_pairs_eq`: the Double Description lemma where *all* pairs of rays on
  opposite sides are combined; no hypothesis on `R` is needed.
-/
namespace PPLV.Conv.Abs

variable {V : Type*} [AddCommGroup V] [Module ℚ V]

/-! ### the line case -/

theorem line_step_decomp (L R L' R' : Set V) (c : V →ₗ[ℚ] ℚ) (l₀ : V)
    (hline : ∀ l ∈ L, l ≠ l₀ → ∃ l' ∈ L', ∃ s t : ℚ, s ≠ 0 ∧ l' = s • l + t • l₀ ∧ c l' = 0)
    (hray : ∀ r ∈ R, ∃ r' ∈ R', ∃ s t : ℚ, 0 < s ∧ r' = s • r + t • l₀ ∧ c r' = 0)
    {y : V} (h : Cone L R y) : ∃ (τ : ℚ) (z : V), Cone L' R' z ∧ c z = 0 ∧ y = z + τ • l₀ := by
  induction h with
  | zero => exact ⟨0, 0, Cone.zero, map_zero c, by rw [zero_smul, add_zero]⟩
  | @line l y t hl _ ih =>
    obtain ⟨τ, z, hz, hcz, e⟩ := ih
    by_cases hl0 : l = l₀
    · exact ⟨τ + t, z, hz, hcz, by rw [e, hl0]; module⟩
    · obtain ⟨l', hl', s, t', hs, hl'e, hcl'⟩ := hline l hl hl0
      have hμ : t / s * s = t := div_mul_cancel₀ _ hs
      generalize t / s = μ at hμ
      refine ⟨τ - μ * t', z + μ • l', Cone.line μ hl' hz, ?_, ?_⟩
      · rw [map_add, map_smul, hcz, hcl', smul_zero, add_zero]
      · rw [e, hl'e, ← hμ]; module
  | @ray r y t hr ht _ ih =>
    obtain ⟨τ, z, hz, hcz, e⟩ := ih
    obtain ⟨r', hr', s, t', hs, hr'e, hcr'⟩ := hray r hr
    have hμ : t / s * s = t := div_mul_cancel₀ _ hs.ne'
    have hμ0 : 0 ≤ t / s := div_nonneg ht hs.le
    generalize t / s = μ at hμ hμ0
    refine ⟨τ - μ * t', z + μ • r', Cone.ray μ hr' hμ0 hz, ?_, ?_⟩
    · rw [map_add, map_smul, hcz, hcr', smul_zero, add_zero]
    · rw [e, hr'e, ← hμ]; module

/-- the line case of conversion -/
theorem line_step_complete (U : Submodule ℚ V) (A : List (ACon V)) (L R L' R' : Set V) (c : ACon V)
    (l₀ : V) (hcomplete : ∀ x ∈ U, InP A x → Cone L R x) (hc : c.f l₀ ≠ 0)
    (hline : ∀ l ∈ L, l ≠ l₀ → ∃ l' ∈ L', ∃ s t : ℚ, s ≠ 0 ∧ l' = s • l + t • l₀ ∧ c.f l' = 0)
    (hray : ∀ r ∈ R, ∃ r' ∈ R', ∃ s t : ℚ, 0 < s ∧ r' = s • r + t • l₀ ∧ c.f r' = 0)
    (hpiv : c.eq = false → ∃ r₀ ∈ R', ∃ s : ℚ, r₀ = s • l₀ ∧ 0 < c.f r₀) :
    ∀ x ∈ U, InP A x → c.holds x → Cone L' R' x := by
  intro x hxU hxA hcx
  obtain ⟨τ, z, hz, hcz, e⟩ := line_step_decomp L R L' R' c.f l₀ hline hray (hcomplete x hxU hxA)
  have hval : c.f x = τ * c.f l₀ := by
    rw [e, map_add, map_smul, hcz, zero_add, smul_eq_mul]
  rw [ACon.holds_iff] at hcx
  cases he : c.eq
  · have h0 : 0 ≤ τ * c.f l₀ := hval ▸ hcx.2 he
    obtain ⟨r₀, hr₀, s₀, hr₀e, hcr₀⟩ := hpiv he
    rw [hr₀e, map_smul, smul_eq_mul] at hcr₀
    have hs₀ : s₀ ≠ 0 := by
      intro h; rw [h, zero_mul] at hcr₀; exact lt_irrefl _ hcr₀
    have hμ : τ / s₀ * s₀ = τ := div_mul_cancel₀ _ hs₀
    generalize τ / s₀ = μ at hμ
    have hμ0 : 0 ≤ μ := by
      by_contra hneg
      have h1 := mul_neg_of_neg_of_pos (not_le.1 hneg) hcr₀
      rw [← hμ] at h0
      linarith
    have e2 : x = z + μ • r₀ := by rw [e, hr₀e, ← hμ]; module
    rw [e2]
    exact Cone.ray μ hr₀ hμ0 hz
  · have h0 : τ * c.f l₀ = 0 := hval ▸ hcx.1 he
    have hτ : τ = 0 := (mul_eq_zero.1 h0).resolve_right hc
    rw [e, hτ, zero_smul, add_zero]
    exact hz

/-! ### all pairs -/

/-- the working generating set: the old rays strictly inside, and the new rays on the hyperplane. -/
def ddW (R R' : Set V) (c : V →ₗ[ℚ] ℚ) : Set V := {g | (g ∈ R ∧ 0 < c g) ∨ (g ∈ R' ∧ c g = 0)}

theorem mem_ddW {R R' : Set V} {c : V →ₗ[ℚ] ℚ} {g : V} :
    g ∈ ddW R R' c ↔ (g ∈ R ∧ 0 < c g) ∨ (g ∈ R' ∧ c g = 0) := Iff.rfl

theorem ddW_nonneg {L R R' : Set V} (c : V →ₗ[ℚ] ℚ) (hcL : ∀ l ∈ L, c l = 0) {u : V}
    (h : Cone L (ddW R R' c) u) : 0 ≤ c u := by
  induction h with
  | zero => exact (map_zero c).ge
  | @line l y t hl _ ih => rw [map_add, map_smul, hcL l hl, smul_zero, add_zero]; exact ih
  | @ray g y t hg ht _ ih =>
    rw [map_add, map_smul, smul_eq_mul]
    have h1 : 0 ≤ c g := by
      rcases mem_ddW.1 hg with ⟨_, h⟩ | ⟨_, h⟩
      · exact h.le
      · exact h.ge
    exact add_nonneg ih (mul_nonneg ht h1)

/-- a non-negative combination of a positive ray `g` and a negative ray `s` with non-negative value is a
non-negative combination of `g` and the hyperplane combination `p`. -/
theorem pair_split {L W : Set V} (c : V →ₗ[ℚ] ℚ) {g s p : V} {a b : ℚ} (hgW : g ∈ W) (hpW : p ∈ W)
    (hb : 0 < b) (hp : p = a • g + b • s) (hcp : c p = 0) (hcg : 0 < c g)
    {τ t : ℚ} (ht : 0 ≤ t) (h : 0 ≤ τ * c g + t * c s) : Cone L W (τ • g + t • s) := by
  have hμ : t / b * b = t := div_mul_cancel₀ _ hb.ne'
  have hμ0 : 0 ≤ t / b := div_nonneg ht hb.le
  generalize t / b = μ at hμ hμ0
  have hcp' : a * c g + b * c s = 0 := by
    rw [hp, map_add, map_smul, map_smul, smul_eq_mul, smul_eq_mul] at hcp; exact hcp
  have hρ : 0 ≤ τ - μ * a := by
    by_contra hneg
    have h2 := mul_neg_of_neg_of_pos (not_le.1 hneg) hcg
    have h1 : μ * (a * c g + b * c s) = 0 := by rw [hcp', mul_zero]
    rw [← hμ] at h
    linarith
  have e : τ • g + t • s = μ • p + (τ - μ * a) • g := by rw [hp, ← hμ]; module
  rw [e]
  exact Cone.ray _ hgW hρ (Cone.of_ray hpW μ hμ0)

/-- Lemma A: adding a negative ray to a point of the working cone, as long as the value stays `≥ 0`. -/
theorem ddW_add_neg {L R R' : Set V} (c : V →ₗ[ℚ] ℚ) (hcL : ∀ l ∈ L, c l = 0)
    (hnew : ∀ r ∈ R, ∀ s ∈ R, 0 < c r → c s < 0 →
      ∃ p ∈ R', ∃ a b : ℚ, 0 < a ∧ 0 < b ∧ p = a • r + b • s ∧ c p = 0)
    {s : V} (hs : s ∈ R) (hcs : c s < 0) {u : V} (hu : Cone L (ddW R R' c) u) :
    ∀ t : ℚ, 0 ≤ t → 0 ≤ c u + t * c s → Cone L (ddW R R' c) (u + t • s) := by
  induction hu with
  | zero =>
    intro t ht h
    rw [map_zero, zero_add] at h
    have h1 : t * c s ≤ 0 := mul_nonpos_of_nonneg_of_nonpos ht hcs.le
    have h2 : t * c s = 0 := le_antisymm h1 h
    have h3 : t = 0 := (mul_eq_zero.1 h2).resolve_right hcs.ne
    rw [h3, zero_smul, add_zero]
    exact Cone.zero
  | @line l y τ hl hy ih =>
    intro t ht h
    rw [map_add, map_smul, hcL l hl, smul_zero, add_zero] at h
    have h1 := Cone.line τ hl (ih t ht h)
    have e : y + τ • l + t • s = y + t • s + τ • l := by abel
    rw [e]
    exact h1
  | @ray g y τ hg hτ hy ih =>
    intro t ht h
    rw [map_add, map_smul, smul_eq_mul] at h
    have e : y + τ • g + t • s = y + t • s + τ • g := by abel
    by_cases h0 : 0 ≤ c y + t * c s
    · rw [e]
      exact Cone.ray τ hg hτ (ih t ht h0)
    · rcases mem_ddW.1 hg with ⟨hgR, hcg⟩ | ⟨hgR', hcg⟩
      · have hcy := ddW_nonneg c hcL hy
        have hneg : 0 < -c s := neg_pos.2 hcs
        have ht1 : c y / (-c s) * (-c s) = c y := div_mul_cancel₀ _ hneg.ne'
        have ht1' : 0 ≤ c y / (-c s) := div_nonneg hcy hneg.le
        generalize c y / (-c s) = t1 at ht1 ht1'
        have h1 : Cone L (ddW R R' c) (y + t1 • s) := ih t1 ht1' (by linarith)
        have ht2 : 0 ≤ t - t1 := by
          by_contra hlt
          have h3 : 0 < t1 - t := by linarith [not_le.1 hlt]
          have h4 := mul_pos h3 hneg
          have h5 := not_le.1 h0
          linarith
        obtain ⟨p, hpR', a, b, _, hb, hp, hcp⟩ := hnew g hgR s hs hcg hcs
        have hsplit : Cone L (ddW R R' c) (τ • g + (t - t1) • s) :=
          pair_split c (mem_ddW.2 (Or.inl ⟨hgR, hcg⟩)) (mem_ddW.2 (Or.inr ⟨hpR', hcp⟩)) hb hp hcp hcg
            ht2 (by linarith)
        have e2 : y + τ • g + t • s = (y + t1 • s) + (τ • g + (t - t1) • s) := by module
        rw [e2]
        exact Cone.add h1 hsplit
      · rw [hcg, mul_zero, add_zero] at h
        exact absurd h h0

/-- the core of the Double Description lemma: everything with value `≥ 0` lies in the working cone. -/
theorem dd_step_core (L R R' : Set V) (c : V →ₗ[ℚ] ℚ) (hcL : ∀ l ∈ L, c l = 0)
    (hkeep : ∀ r ∈ R, c r = 0 → r ∈ R')
    (hnew : ∀ r ∈ R, ∀ s ∈ R, 0 < c r → c s < 0 →
      ∃ p ∈ R', ∃ a b : ℚ, 0 < a ∧ 0 < b ∧ p = a • r + b • s ∧ c p = 0)
    {x : V} (h : Cone L R x) :
    ∀ u, Cone L (ddW R R' c) u → 0 ≤ c (u + x) → Cone L (ddW R R' c) (u + x) := by
  induction h with
  | zero => intro u hu _; rw [add_zero]; exact hu
  | @line l y t hl _ ih =>
    intro u hu h
    have e : u + (y + t • l) = (u + t • l) + y := by abel
    rw [e] at h ⊢
    exact ih _ (Cone.line t hl hu) h
  | @ray r y t hr ht _ ih =>
    intro u hu h
    rcases lt_or_ge (c r) 0 with hcr | hcr
    · have e : u + (y + t • r) = (u + y) + t • r := by abel
      rw [e] at h ⊢
      rw [map_add (f := c) (u + y), map_smul, smul_eq_mul] at h
      have h1 : t * c r ≤ 0 := mul_nonpos_of_nonneg_of_nonpos ht hcr.le
      exact ddW_add_neg c hcL hnew hr hcr (ih u hu (by linarith)) t ht h
    · have hrW : r ∈ ddW R R' c := by
        rcases hcr.eq_or_lt with h0 | hpos
        · exact mem_ddW.2 (Or.inr ⟨hkeep r hr h0.symm, h0.symm⟩)
        · exact mem_ddW.2 (Or.inl ⟨hr, hpos⟩)
      have e : u + (y + t • r) = (u + t • r) + y := by abel
      rw [e] at h ⊢
      exact ih _ (Cone.ray t hrW ht hu) h

/-- the classical Double Description lemma: ALL opposite-side pairs combined, no hypothesis on R -/
theorem dd_step_all_pairs (L R R' : Set V) (c : V →ₗ[ℚ] ℚ) (hcL : ∀ l ∈ L, c l = 0)
    (hkeep : ∀ r ∈ R, 0 ≤ c r → r ∈ R')
    (hnew : ∀ r ∈ R, ∀ s ∈ R, 0 < c r → c s < 0 →
      ∃ p ∈ R', ∃ a b : ℚ, 0 < a ∧ 0 < b ∧ p = a • r + b • s ∧ c p = 0) :
    ∀ x, Cone L R x → 0 ≤ c x → Cone L R' x := by
  intro x hx hcx
  have h := dd_step_core L R R' c hcL (fun r hr h0 => hkeep r hr h0.ge) hnew hx 0 Cone.zero
    (by rw [zero_add]; exact hcx)
  rw [zero_add] at h
  refine Cone.mono (fun _ h => h) ?_ h
  intro g hg
  rcases mem_ddW.1 hg with ⟨hgR, hpos⟩ | ⟨hgR', _⟩
  · exact hkeep g hgR hpos.le
  · exact hgR'

theorem dd_step_all_pairs_eq (L R R' : Set V) (c : V →ₗ[ℚ] ℚ) (hcL : ∀ l ∈ L, c l = 0)
    (hkeep : ∀ r ∈ R, c r = 0 → r ∈ R')
    (hnew : ∀ r ∈ R, ∀ s ∈ R, 0 < c r → c s < 0 →
      ∃ p ∈ R', ∃ a b : ℚ, 0 < a ∧ 0 < b ∧ p = a • r + b • s ∧ c p = 0) :
    ∀ x, Cone L R x → c x = 0 → Cone L R' x := by
  intro x hx hcx
  have h := dd_step_core L R R' c hcL hkeep hnew hx 0 Cone.zero (by rw [zero_add, hcx])
  rw [zero_add] at h
  have hnn : ∀ g ∈ ddW R R' c, 0 ≤ c g := by
    intro g hg
    rcases mem_ddW.1 hg with ⟨_, hpos⟩ | ⟨_, h0⟩
    · exact hpos.le
    · exact h0.ge
  have hface := Cone.face [(⟨false, c⟩ : ACon V)] (L := L) (R := ddW R R' c)
    (fun l hl a ha => by rw [List.mem_singleton.1 ha]; exact hcL l hl)
    (fun g hg a ha => by
      rw [List.mem_singleton.1 ha]; exact ACon.holds_of_nonneg rfl (hnn g hg)) h
  refine Cone.mono (fun _ h => h) ?_ hface
  intro g hg
  obtain ⟨hgW, hsat⟩ := hg
  have hcg : c g = 0 := hsat ⟨false, c⟩ List.mem_cons_self hcx
  rcases mem_ddW.1 hgW with ⟨_, hpos⟩ | ⟨hgR', _⟩
  · exact absurd hcg hpos.ne'
  · exact hgR'

end PPLV.Conv.Abs
