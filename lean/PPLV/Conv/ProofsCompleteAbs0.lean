import Mathlib.Algebra.Module.LinearMap.Defs
import Mathlib.Algebra.Module.Submodule.Defs
import Mathlib.Algebra.Order.Field.Rat
import Mathlib.Tactic.Linarith
/-!
# C01 stage 4 — the Double Description lemma, abstractly (definitions)

The setting in which completeness of `Polyhedron::conversion` is proved: a `ℚ`-vector space `V`,
constraints = linear functionals with a kind bit, generators = vectors (lines and rays).  The model rows
(`List Int`) are embedded by `PPLV.Conv.emb` (`ProofsCompleteEmb.lean`).

* `Cone L R x` — `x` is a linear combination of the lines `L` plus a non-negative combination of the rays `R`
  (inductive, so no index bookkeeping);
* `InP A x` — `x` satisfies every constraint of `A`;
* `SatSub A x y` — every constraint of `A` saturated by `x` is saturated by `y`;
* `Adjacent A R r s` — the combinatorial adjacency test of `conversion` (:820-828): no third ray saturates
  all the constraints saturated by both;
* `DDInv U A L R` — the invariant of the main loop: `(A, L ∪ R)` is a double description pair inside the
  ambient subspace `U`, no ray's saturator set is contained in another's, no ray is in the lineality space.
-/
namespace PPLV.Conv.Abs

variable {V : Type*} [AddCommGroup V] [Module ℚ V]

/-- a constraint: the functional `f` must vanish (`eq = true`) or be non-negative. -/
structure ACon (V : Type*) [AddCommGroup V] [Module ℚ V] where
  eq : Bool
  f : V →ₗ[ℚ] ℚ

/-- `x` satisfies the constraint. -/
def ACon.holds (a : ACon V) (x : V) : Prop := if a.eq then a.f x = 0 else 0 ≤ a.f x

/-- `x` satisfies every constraint of `A`. -/
def InP (A : List (ACon V)) (x : V) : Prop := ∀ a ∈ A, a.holds x

/-- linear combinations of `L` plus non-negative combinations of `R`. -/
inductive Cone (L R : Set V) : V → Prop
  | zero : Cone L R 0
  | line {l y : V} (t : ℚ) : l ∈ L → Cone L R y → Cone L R (y + t • l)
  | ray {r y : V} (t : ℚ) : r ∈ R → 0 ≤ t → Cone L R y → Cone L R (y + t • r)

/-- the saturators of `x` are saturators of `y`. -/
def SatSub (A : List (ACon V)) (x y : V) : Prop := ∀ a ∈ A, a.f x = 0 → a.f y = 0

/-- no third ray of `R` saturates every constraint saturated by both `r` and `s`
(the full adjacency test, `Polyhedron_conversion_templates.hh:820-828`). -/
def Adjacent (A : List (ACon V)) (R : Set V) (r s : V) : Prop :=
  ∀ q ∈ R, (∀ a ∈ A, a.f r = 0 → a.f s = 0 → a.f q = 0) → q = r ∨ q = s

/-- the invariant of the main loop of `conversion`, inside the ambient subspace `U`. -/
structure DDInv (U : Submodule ℚ V) (A : List (ACon V)) (L R : Set V) : Prop where
  lineU : ∀ l ∈ L, l ∈ U
  rayU : ∀ r ∈ R, r ∈ U
  /-- the lines saturate every constraint. -/
  lineSat : ∀ l ∈ L, ∀ a ∈ A, a.f l = 0
  /-- the rays satisfy every constraint. -/
  raySound : ∀ r ∈ R, InP A r
  /-- every point of the ambient space that satisfies the constraints is generated. -/
  complete : ∀ x ∈ U, InP A x → Cone L R x
  /-- minimality, combinatorially: no ray's saturators are all saturators of another ray. -/
  antichain : ∀ r ∈ R, ∀ r' ∈ R, SatSub A r r' → r = r'
  /-- no ray lies in the lineality space. -/
  proper : ∀ r ∈ R, ∃ a ∈ A, a.f r ≠ 0

/-- `survives c x`: what `conversion` keeps (`= 0` for an equality, `≥ 0` for an inequality). -/
theorem ACon.holds_iff (a : ACon V) (x : V) :
    a.holds x ↔ (a.eq = true → a.f x = 0) ∧ (a.eq = false → 0 ≤ a.f x) := by
  unfold ACon.holds
  cases a.eq <;> simp

end PPLV.Conv.Abs
