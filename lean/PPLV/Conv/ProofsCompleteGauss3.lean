import PPLV.Conv.ProofsCompleteGauss2
/-!
# C01 stage 4 — `back_substitute` meets no zero pivot row (`hpiv` of `simplify_drops_only_redundant_partial`)

`BSInv n rows piv`: row `p < n` is non-zero at `piv p`, and the rows `(p, n)` are zero at `piv p`.
The echelon form left by `gauss` has it for its first `rank` rows; `dropPhase`, the saturation rule and the
independence rule keep the first `rank` rows; a step of `back_substitute` keeps it (a row `i < k` that is
rewritten becomes `(ny • row_i − nx • row_k) / g` with `ny ≠ 0`, and `row_k` is zero at `piv i` and at the
`piv p`, `p < i`); a row with a non-zero coefficient has a non-zero coefficient at `lastNonzero`.
-/
namespace PPLV.Conv

theorem lastNonzero_append (w : Vec) (a : Int) :
    lastNonzero (w ++ [a]) = if a ≠ 0 then w.length else lastNonzero w := by
  unfold lastNonzero
  rw [List.zipIdx_append, List.foldl_append]
  by_cases h : a = 0 <;> simp [h]

theorem getD_ne_lt (v : Vec) (c : Nat) (h : v.getD c 0 ≠ 0) : c < v.length := by
  by_contra hc
  apply h
  rw [List.getD_eq_getElem?_getD, List.getElem?_eq_none (by omega)]; rfl

theorem getD_snoc_lt_int (w : Vec) (a : Int) (c : Nat) (h : c < w.length) :
    (w ++ [a]).getD c 0 = w.getD c 0 := by
  simp [List.getD_eq_getElem?_getD, List.getElem?_append_left h]

/-- `expr.last_nonzero()` of a non-zero row points at a non-zero coefficient. -/
theorem lastNonzero_ne (v : Vec) : (∃ c, v.getD c 0 ≠ 0) → v.getD (lastNonzero v) 0 ≠ 0 := by
  induction v using List.reverseRecOn with
  | nil => rintro ⟨c, hc⟩; simp at hc
  | append_singleton w a ih =>
    rintro ⟨c, hc⟩
    rw [lastNonzero_append]
    by_cases ha : a = 0
    · rw [if_neg (by simpa using ha)]
      have hcl : c < w.length := by
        by_contra hcl
        apply hc
        subst ha
        have h1 := getD_ne_lt _ c hc
        have : c = w.length := by simp at h1; omega
        subst this
        simp [List.getD_eq_getElem?_getD]
      rw [getD_snoc_lt_int w a c hcl] at hc
      have h1 := ih ⟨c, hc⟩
      rw [getD_snoc_lt_int w a _ (getD_ne_lt _ _ h1)]
      exact h1
    · rw [if_pos ha]
      simpa [List.getD_eq_getElem?_getD] using ha

/-- the pivots of the first `n` rows. -/
structure BSInv (n : Nat) (rows : List SRow) (piv : Nat → Nat) : Prop where
  nz : ∀ p, p < n → (rows.getD p default).row.v.getD (piv p) 0 ≠ 0
  zp : ∀ p m, p < m → m < n → (rows.getD m default).row.v.getD (piv p) 0 = 0

theorem backSubstituteStep_bsinv (nle : Nat) (rows : List SRow) (piv : Nat → Nat) (k : Nat)
    (hI : GInv nle rows) (hk : k < nle) (hB : BSInv nle rows piv) :
    (rows.getD k default).row.v.getD (lastNonzero (rows.getD k default).row.v) 0 ≠ 0 ∧
    BSInv nle (backSubstituteStep nle rows k) piv := by
  have hjk : (rows.getD k default).row.v.getD (bsCol rows k) 0 ≠ 0 :=
    lastNonzero_ne _ ⟨piv k, hB.nz k hk⟩
  refine ⟨hjk, ?_⟩
  have hnl : nle ≤ rows.length := hI.1
  have hlA : (bsA rows k).length = rows.length := by unfold bsA; exact List.length_mapIdx
  have hrow : ∀ m, m < nle → (backSubstituteStep nle rows k).getD m default = (bsA rows k).getD m default := by
    intro m hm
    rw [backSubstituteStep_eq]
    exact mapIdx_combF_of_not _ _ _ _ m (by omega) (fun h => by have := h.1; omega)
  constructor
  · intro p hp
    rw [hrow p hp]
    unfold bsA
    rw [getD_mapIdx rows _ p (by omega)]
    unfold combF
    split
    · rename_i hP
      obtain ⟨g, hg, e⟩ := rowLinearCombine_col (rows.getD p default).row (rows.getD k default).row
        (bsCol rows k) (piv p)
      rw [hB.zp p k hP.1 hk, mul_zero, sub_zero] at e
      have hny := normalize2_snd_ne ((rows.getD p default).row.v.getD (bsCol rows k) 0) _ hjk
      have h1 := mul_ne_zero hny (hB.nz p hp)
      rw [e] at h1
      exact right_ne_zero_of_mul h1
    · exact hB.nz p hp
  · intro p m hpm hm
    rw [hrow m hm]
    by_cases hmk : m < k
    · unfold bsA
      exact mapIdx_combF_col_zero rows _ _ _ m (piv p) (by omega) (hB.zp p m hpm hm)
        (hB.zp p k (by omega) hk)
    · unfold bsA
      rw [mapIdx_combF_of_not rows _ _ _ m (by omega) (fun h => hmk h.1)]
      exact hB.zp p m hpm hm

/-- **no zero pivot row** in any sequence of steps of `back_substitute` from a state with `BSInv`. -/
theorem backSub_pivots (nle : Nat) (piv : Nat → Nat) : ∀ (ks : List Nat) (rows : List SRow), GInv nle rows →
    (∀ k ∈ ks, k < nle) → BSInv nle rows piv → BackSubPivots nle ks rows
  | [], _, _, _, _ => trivial
  | k :: ks, rows, hI, hks, hB => by
    obtain ⟨h1, h2⟩ := backSubstituteStep_bsinv nle rows piv k hI (hks k List.mem_cons_self) hB
    exact ⟨h1, backSub_pivots nle piv ks _
      (backSubstituteStep_keeps nle rows k hI (hks k List.mem_cons_self)).2.1
      (fun k' hk' => hks k' (List.mem_cons_of_mem _ hk')) h2⟩

theorem getD_of_take_eq (a b : List SRow) (n p : Nat) (h : a.take n = b.take n) (hp : p < n) :
    a.getD p default = b.getD p default := by
  have e : a[p]? = b[p]? := by
    have := congrArg (fun l => l[p]?) h
    simp only [List.getElem?_take, hp, if_true] at this
    exact this
  rw [List.getD_eq_getElem?_getD, e, ← List.getD_eq_getElem?_getD]

/-- `dropPhase` keeps the rows before the new number of equalities. -/
theorem dropPhase_take (nle numRows : Nat) (rows : List SRow) (rank : Nat) (hI : GInv nle rows)
    (hlen : numRows = rows.length) :
    (dropPhase nle numRows rows rank).1.take (dropPhase nle numRows rows rank).2
      = rows.take (dropPhase nle numRows rows rank).2 := by
  unfold dropPhase
  split
  · obtain ⟨h1, _⟩ := dropRedundantEqLoop_spec (nle - rank) rows nle rank numRows rank (Nat.le_refl _) hlen
    show (List.take (numRows - (nle - rank)) _).take rank = _
    rw [List.take_take, (by have := hI.1; omega : min rank (numRows - (nle - rank)) = rank), h1]
  · rfl

/-- the list handed to `back_substitute`: its first `nle` rows are equalities, and they are the first rows
of the output of `gauss`. -/
theorem simpT_take (ncols numColsSat : Nat) (sys : List SRow) :
    GInv (simpP ncols sys).2 (simpT ncols numColsSat sys) ∧
    (simpT ncols numColsSat sys).take (simpP ncols sys).2 = (simpG ncols sys).1.take (simpP ncols sys).2 := by
  obtain ⟨el, eI⟩ := simpE_ginv sys
  have gK := gauss_keeps ncols (simpE sys).2 (simpE sys).1 eI.2 eI.1
  have hlen : sys.length = (simpG ncols sys).1.length := by
    show sys.length = (gauss ncols _ _).1.length
    rw [gK.1, el]
  have pI : GInv (simpP ncols sys).2 (simpP ncols sys).1 :=
    (dropPhase_spec (simpE sys).2 sys.length (simpG ncols sys).1 (simpG ncols sys).2 gK.2.1 hlen).1
  have pT : (simpP ncols sys).1.take (simpP ncols sys).2 = (simpG ncols sys).1.take (simpP ncols sys).2 :=
    dropPhase_take (simpE sys).2 sys.length (simpG ncols sys).1 (simpG ncols sys).2 gK.2.1 hlen
  have sT : (simpS ncols numColsSat sys).take (simpP ncols sys).2 = (simpP ncols sys).1.take (simpP ncols sys).2 :=
    satRuleLoop_take _ numColsSat _ (simpP ncols sys).1 (simpP ncols sys).2 (simpP ncols sys).2 (Nat.le_refl _)
  have tT : (simpT ncols numColsSat sys).take (simpP ncols sys).2
      = (simpS ncols numColsSat sys).take (simpP ncols sys).2 :=
    indepLoop_take (simpS ncols numColsSat sys).length (simpP ncols sys).2 (simpS ncols numColsSat sys)
      (Nat.le_refl _)
  exact ⟨GInv_of_take _ _ _ tT (GInv_of_take _ _ _ sT pI), tT.trans (sT.trans pT)⟩

/-- **`hpiv`**: `back_substitute`, as `simplify` calls it, meets no zero pivot row.  Unconditional. -/
theorem simplify_backSubPivots (ncols numColsSat : Nat) (sys : List SRow) :
    BackSubPivots (simpP ncols sys).2 (List.range (simpP ncols sys).2).reverse
      (simpT ncols numColsSat sys) := by
  obtain ⟨tI, tT⟩ := simpT_take ncols numColsSat sys
  obtain ⟨_, eI⟩ := simpE_ginv sys
  obtain ⟨piv, hE⟩ := gauss_echelon ncols (simpE sys).2 (simpE sys).1 eI
  have hn : (simpP ncols sys).2 = (gauss ncols (simpE sys).2 (simpE sys).1).2 := simpP_snd ncols sys
  have hrk := hE.rk
  apply backSub_pivots _ piv _ _ tI (range_reverse_lt _)
  constructor
  · intro p hp
    rw [getD_of_take_eq _ _ _ p tT hp]
    exact hE.nz p (by omega)
  · intro p m hpm hm
    rw [getD_of_take_eq _ _ _ m tT hm]
    exact hE.zp p m (by omega) hpm (by omega)

end PPLV.Conv
