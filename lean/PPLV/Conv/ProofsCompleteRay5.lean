import PPLV.Conv.ProofsCompleteRay4
/-!
# C01 stage 4 — `rayCase` keeps the generator system minimal (the saturation rows stay an antichain)
-/
namespace PPLV.Conv
open PPLV.Conv.Abs

theorem bit_keepImage (setb : Bool) (newK : Nat) (d : DRow) (k : Nat) :
    bit (keepImage setb newK d).sat k = ((setb && decide (0 < d.sp) && decide (k = newK)) || bit d.sat k) := by
  unfold keepImage
  split
  · rename_i h
    show bit (setBit d.sat newK) k = _
    rw [bit_setBit, h]; simp
  · rename_i h
    have : (setb && decide (0 < d.sp)) = false := by simpa using h
    rw [this]; simp

theorem bit_keepImage_ge (setb : Bool) (newK : Nat) (d : DRow) (k : Nat) (h : bit d.sat k = true) :
    bit (keepImage setb newK d).sat k = true := by
  rw [bit_keepImage, h]; simp

theorem bit_keepImage_ne (setb : Bool) (newK : Nat) (d : DRow) (k : Nat) (h : k ≠ newK) :
    bit (keepImage setb newK d).sat k = bit d.sat k := by
  rw [bit_keepImage]; simp [h]

theorem satProper_iff (nle : Nat) (rows : List DRow) :
    SatProper nle rows ↔ ∀ d ∈ rows.drop nle, bitsEmpty d.sat = false := by
  constructor
  · intro h d hd
    obtain ⟨m, hm1, hm2⟩ := (mem_drop_iff_getElem? _ _ _).mp hd
    exact h m d hm1 hm2
  · intro h m d hm hd
    exact h d ((mem_drop_iff_getElem? _ _ _).mpr ⟨m, hm, hd⟩)

theorem newRay_sat (ri rj : DRow) (s : BRow) : (newRay ri rj s).sat = s := rfl

namespace RayCtx
variable {ncols : Nat} {srcK : LRow} {kept : List LRow} {st : CState} {R : List DRow} {leb sup : Nat}

theorem sub_bor_left (a b : BRow) : subsetOrEqual a (bor a b) = true := by
  rw [subsetOrEqual_iff]; intro k hk; rw [bit_bor, hk]; rfl

theorem sub_bor_right (a b : BRow) : subsetOrEqual b (bor a b) = true := by
  rw [subsetOrEqual_iff]; intro k hk; rw [bit_bor, hk]; simp

/-- one half of the new-new case. -/
theorem nn_half (C : RayCtx ncols srcK kept st R leb sup) {i1 j1 i2 j2 : Nat} {di1 dj1 di2 dj2 : DRow}
    (hi1 : leb ≤ i1 ∧ i1 < sup) (hj1 : sup ≤ j1) (hi2 : leb ≤ i2 ∧ i2 < sup) (hj2 : sup ≤ j2)
    (ei1 : R[i1]? = some di1) (ej1 : R[j1]? = some dj1) (ei2 : R[i2]? = some di2) (ej2 : R[j2]? = some dj2)
    (h2 : adjacent ncols st.nle kept.length st.rows.length R i2 j2 = some (bor di2.sat dj2.sat))
    (hne : ¬ (i1 = i2 ∧ j1 = j2)) :
    subsetOrEqual (bor di1.sat dj1.sat) (bor di2.sat dj2.sat) = false := by
  have hnl := C.P.h1
  cases hsub : subsetOrEqual (bor di1.sat dj1.sat) (bor di2.sat dj2.sat)
  · rfl
  · exfalso
    have nt := C.adjacent_some_no_third (i := i2) (j := j2) (by omega) (by omega) ei2 ej2 h2
    have s1 := subsetOrEqual_trans _ _ _ (sub_bor_left di1.sat dj1.sat) hsub
    have s2 := subsetOrEqual_trans _ _ _ (sub_bor_right di1.sat dj1.sat) hsub
    have e1 : i1 = i2 := by
      by_contra hc
      have := nt i1 di1 (by omega) hc (by omega) ei1
      rw [s1] at this; cases this
    have e2 : j1 = j2 := by
      by_contra hc
      have := nt j1 dj1 (by omega) (by omega) hc ej1
      rw [s2] at this; cases this
    exact hne ⟨e1, e2⟩

/-- the new rays are pairwise incomparable. -/
theorem newRays_pairwise (C : RayCtx ncols srcK kept st R leb sup) :
    (newRays ncols st.nle kept.length leb sup st.rows.length R).Pairwise SatRel := by
  have core : ∀ i1 j1 i2 j2 x1 x2, leb ≤ i1 → i1 < sup → sup ≤ j1 → j1 < st.rows.length →
      leb ≤ i2 → i2 < sup → sup ≤ j2 → j2 < st.rows.length → ¬ (i1 = i2 ∧ j1 = j2) →
      (∃ s, adjacent ncols st.nle kept.length st.rows.length R i1 j1 = some s ∧
        x1 = newRay (R.getD i1 default) (R.getD j1 default) s) →
      (∃ s, adjacent ncols st.nle kept.length st.rows.length R i2 j2 = some s ∧
        x2 = newRay (R.getD i2 default) (R.getD j2 default) s) →
      SatRel x1 x2 := by
    intro i1 j1 i2 j2 x1 x2 a1 a2 a3 a4 b1 b2 b3 b4 hne h1 h2
    have hlen := C.P.hlen
    have hs3 := C.P.h3
    have ei1 := getElem?_of_lt_getD R i1 default (by omega)
    have ej1 := getElem?_of_lt_getD R j1 default (by omega)
    have ei2 := getElem?_of_lt_getD R i2 default (by omega)
    have ej2 := getElem?_of_lt_getD R j2 default (by omega)
    obtain ⟨s1, hs1, rfl⟩ := h1
    obtain ⟨s2, hs2, rfl⟩ := h2
    have q1 := adjacent_some _ _ _ _ _ _ _ _ hs1
    have q2 := adjacent_some _ _ _ _ _ _ _ _ hs2
    subst q1 q2
    exact ⟨C.nn_half ⟨a1, a2⟩ a3 ⟨b1, b2⟩ b3 ei1 ej1 ei2 ej2 hs2 hne,
           C.nn_half ⟨b1, b2⟩ b3 ⟨a1, a2⟩ a3 ei2 ej2 ei1 ej1 hs1 (fun h => hne ⟨h.1.symm, h.2.symm⟩)⟩
  unfold newRays
  rw [List.pairwise_flatMap]
  constructor
  · intro i hi
    rw [List.mem_range'_1] at hi
    rw [List.pairwise_filterMap]
    refine (List.pairwise_lt_range' (s := sup) (n := st.rows.length - sup)).imp_of_mem ?_
    intro j j' hj hj' hlt x1 h1 x2 h2
    rw [List.mem_range'_1] at hj hj'
    have hlt' : j < j' := hlt
    have hne : ¬ (i = i ∧ j = j') := fun h => absurd h.2 (Nat.ne_of_lt hlt')
    have q1 : ∃ s, adjacent ncols st.nle kept.length st.rows.length R i j = some s ∧
        x1 = newRay (R.getD i default) (R.getD j default) s := by
      split at h1
      · cases h1
      · rename_i s hs; exact ⟨s, hs, (Option.some.inj h1).symm⟩
    have q2 : ∃ s, adjacent ncols st.nle kept.length st.rows.length R i j' = some s ∧
        x2 = newRay (R.getD i default) (R.getD j' default) s := by
      split at h2
      · cases h2
      · rename_i s hs; exact ⟨s, hs, (Option.some.inj h2).symm⟩
    exact core i j i j' x1 x2 hi.1 (by omega) hj.1 (by omega) hi.1 (by omega) hj'.1 (by omega) hne q1 q2
  · refine (List.pairwise_lt_range' (s := leb) (n := sup - leb)).imp_of_mem ?_
    intro i i' hi hi' hlt x1 hx1 x2 hx2
    rw [List.mem_range'_1] at hi hi'
    rw [List.mem_filterMap] at hx1 hx2
    obtain ⟨j, hj, h1⟩ := hx1
    obtain ⟨j', hj', h2⟩ := hx2
    rw [List.mem_range'_1] at hj hj'
    have hlt' : i < i' := hlt
    have hne : ¬ (i = i' ∧ j = j') := fun h => absurd h.1 (Nat.ne_of_lt hlt')
    have q1 : ∃ s, adjacent ncols st.nle kept.length st.rows.length R i j = some s ∧
        x1 = newRay (R.getD i default) (R.getD j default) s := by
      split at h1
      · cases h1
      · rename_i s hs; exact ⟨s, hs, (Option.some.inj h1).symm⟩
    have q2 : ∃ s, adjacent ncols st.nle kept.length st.rows.length R i' j' = some s ∧
        x2 = newRay (R.getD i' default) (R.getD j' default) s := by
      split at h2
      · cases h2
      · rename_i s hs; exact ⟨s, hs, (Option.some.inj h2).symm⟩
    exact core i j i' j' x1 x2 hi.1 (by omega) hj.1 (by omega) hi'.1 (by omega) hj'.1 (by omega) hne q1 q2

/-- the kept rays stay pairwise incomparable. -/
theorem kept_pairwise (C : RayCtx ncols srcK kept st R leb sup) (setb : Bool) (j0 : Nat) :
    (((R.take j0).drop st.nle).map (keepImage setb kept.length)).Pairwise SatRel := by
  rw [List.pairwise_map]
  have hR : (R.drop st.nle).Pairwise SatRel := (satAntichain_iff_pairwise _ _).mp C.antichainR
  have hsub : ((R.take j0).drop st.nle).Sublist (R.drop st.nle) := (List.take_sublist j0 R).drop st.nle
  refine (hR.sublist hsub).imp_of_mem ?_
  intro a b ha hb hab
  have ma : a ∈ st.rows := List.mem_of_mem_drop (C.P.hperm.mem_iff.mp (hsub.mem ha))
  have mb : b ∈ st.rows := List.mem_of_mem_drop (C.P.hperm.mem_iff.mp (hsub.mem hb))
  have key : ∀ (x y : DRow), x ∈ st.rows → subsetOrEqual x.sat y.sat = false →
      subsetOrEqual (keepImage setb kept.length x).sat (keepImage setb kept.length y).sat = false := by
    intro x y mx hxy
    cases hs : subsetOrEqual (keepImage setb kept.length x).sat (keepImage setb kept.length y).sat
    · rfl
    · exfalso
      rw [subsetOrEqual_iff] at hs
      have : subsetOrEqual x.sat y.sat = true := by
        rw [subsetOrEqual_iff]
        intro k hk
        have hkl := C.bit_lt mx k hk
        have := hs k (bit_keepImage_ge _ _ _ _ hk)
        rwa [bit_keepImage_ne _ _ _ _ (by omega)] at this
      rw [hxy] at this; cases this
  exact ⟨key a b ma hab.1, key b a mb hab.2⟩

/-- a kept ray and a new ray are incomparable. -/
theorem kept_new (C : RayCtx ncols srcK kept st R leb sup) {d x : DRow}
    (hd : d ∈ (R.take (if srcK.le then leb else sup)).drop st.nle)
    (hx : x ∈ newRays ncols st.nle kept.length leb sup st.rows.length R) :
    SatRel (keepImage (!srcK.le && st.rows.any (fun d => decide (d.sp < 0))) kept.length d) x := by
  obtain ⟨m, hm1, hm2, em, hdm, _⟩ := C.kept_part hd
  obtain ⟨i, j, di, dj, hi1, hi2, hj1, hj2, ei, ej, hpos, hneg, hv, rfl⟩ := C.newRay_mem hx
  have hnl := C.P.h1
  have hls := C.P.h2
  have md := List.mem_of_mem_drop hdm
  obtain ⟨mi, _, _⟩ := C.ray (by omega : st.nle ≤ i) ei
  obtain ⟨mj, _, _⟩ := C.ray (by omega : st.nle ≤ j) ej
  have hmj : m ≠ j := by
    have : (if srcK.le then leb else sup) ≤ sup := by split <;> omega
    omega
  rw [SatRel, newRay_sat]
  constructor
  · cases hs : subsetOrEqual (keepImage (!srcK.le && st.rows.any (fun d => decide (d.sp < 0))) kept.length d).sat
        (bor di.sat dj.sat)
    · rfl
    · exfalso
      rw [subsetOrEqual_iff] at hs
      have hsub : subsetOrEqual d.sat (bor di.sat dj.sat) = true := by
        rw [subsetOrEqual_iff]
        intro k hk
        exact hs k (bit_keepImage_ge _ _ _ _ hk)
      have hmi : m = i := by
        by_contra hc
        have := C.adjacent_some_no_third (by omega) (by omega) ei ej hv m d hm1 hc hmj em
        rw [hsub] at this; cases this
      subst hmi
      have hdd : d = di := by rw [em] at ei; exact Option.some.inj ei
      subst hdd
      cases hle : srcK.le
      · -- inequality: the bit `kept.length` is set in the image, but in neither old row
        have hany : st.rows.any (fun d => decide (d.sp < 0)) = true := by
          rw [List.any_eq_true]; exact ⟨dj, mj, by simpa using hneg⟩
        have hb : bit (keepImage (!srcK.le && st.rows.any (fun d => decide (d.sp < 0))) kept.length d).sat kept.length = true := by
          rw [bit_keepImage, hle, hany]; simp [hpos]
        have := hs _ hb
        rw [bit_bor] at this
        rcases (Bool.or_eq_true _ _).mp this with h | h
        · have := C.bit_lt mi _ h; omega
        · have := C.bit_lt mj _ h; omega
      · simp only [hle, if_true] at hm2; omega
  · cases hs : subsetOrEqual (bor di.sat dj.sat)
        (keepImage (!srcK.le && st.rows.any (fun d => decide (d.sp < 0))) kept.length d).sat
    · rfl
    · exfalso
      rw [subsetOrEqual_iff] at hs
      have hsubi : subsetOrEqual di.sat d.sat = true := by
        rw [subsetOrEqual_iff]
        intro k hk
        have hkl := C.bit_lt mi k hk
        have := hs k (by rw [bit_bor, hk]; rfl)
        rwa [bit_keepImage_ne _ _ _ _ (by omega)] at this
      have hsubj : subsetOrEqual dj.sat d.sat = true := by
        rw [subsetOrEqual_iff]
        intro k hk
        have hkl := C.bit_lt mj k hk
        have := hs k (by rw [bit_bor, hk]; simp)
        rwa [bit_keepImage_ne _ _ _ _ (by omega)] at this
      have e1 : i = m := by
        by_contra hc
        have := C.antichainR i m di d (by omega) hm1 hc ei em
        rw [hsubi] at this; cases this
      have e2 : j = m := by
        by_contra hc
        have := C.antichainR j m dj d (by omega) hm1 hc ej em
        rw [hsubj] at this; cases this
      omega

end RayCtx
end PPLV.Conv
