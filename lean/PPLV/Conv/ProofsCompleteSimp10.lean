import PPLV.Conv.ProofsCompleteSimp8
/-!
# C01 stage 4 — the rows `Polyhedron::simplify` drops are redundant

The converse of `simplify_sound`.  `rows` beside an exact saturation matrix `sat` against `gens`
(`SatCorrect gens rows sat`), `gens` sound and complete for `rows` on the vectors of length `≤ ncols`
(a double description pair), the generators have at most `ncols` columns, `numColsSat = gens.length`,
`ncols < 2^64`.  No layout of `rows` is needed (an equality anywhere has an empty saturation row and is
picked up by the detection loop).

* `simplify_phases_drop_only_redundant` — every `x` (`x.length ≤ ncols`) satisfying the list `simplify` hands
  to `back_substitute` satisfies `rows`: the detection of the implicit equalities, `gauss`, the removal of the
  redundant equalities (zero rows of the echelon form), the saturation rule and the independence rule drop
  only redundant rows.  One hypothesis is left: `hrank`, the returned number of equalities is `< ncols`.
* `simplify_drops_only_redundant_partial` — the same for the result of `simplify`; one more hypothesis:
  `hpiv`, `back_substitute` meets no zero pivot row (`BackSubPivots`).
* `simplify_same_set_partial` — with `simplify_sound`: the same solution set.

What is missing for the unconditional statement are two facts about the echelon form `gauss` produces that
stage 3 did not prove: the first `rank` rows left by `gauss` are non-zero with pairwise different pivot columns
and `back_substitute` keeps them so (this is `hpiv`); and no pivot is in column 0 when the system has a point
(`minimize` returns before `simplify` otherwise), hence `rank < ncols` (this is `hrank`).
-/
namespace PPLV.Conv

theorem zipSys_eq (rows : List LRow) (sat : List BRow) :
    List.zipWith (fun a s => ({ row := a, sat := s } : SRow)) rows sat = zipSys rows sat := rfl

/-- everything before `back_substitute` drops only redundant rows. -/
theorem simplify_phases_drop_only_redundant (ncols numColsSat : Nat) (rows : List LRow) (sat : List BRow)
    (gens : List LRow) (hsat : SatCorrect gens rows sat) (hsound : Sound rows gens)
    (hcomp : ∀ x : Vec, x.length ≤ ncols → holdsAll rows x → Generated gens x)
    (hncs : numColsSat = gens.length) (hglen : ∀ g ∈ gens, g.v.length ≤ ncols) (hsz : ncols < 2 ^ 64)
    (hrank : (simplify ncols numColsSat (zipSys rows sat)).2 + 1 ≤ ncols) :
    ∀ x : Vec, x.length ≤ ncols →
      holdsAll ((simpT ncols numColsSat (zipSys rows sat)).map (·.row)) x → holdsAll rows x := by
  have hrows := zipSys_map_row rows sat hsat.1
  have h := (simpT_redundant ncols numColsSat (zipSys rows sat) gens hncs
    (zipSys_rowOK rows sat gens hsat hsound) (by rw [hrows]; exact hcomp) hglen hsz hrank).2
  rw [hrows] at h
  exact h

/-- **`simplify_drops_only_redundant_partial`** — every vector (of length `≤ ncols`) that satisfies the
system `simplify` returns satisfies the system it was given: the rows dropped are redundant.
Hypotheses left explicit: `hrank` (the returned number of equalities is `< ncols`, so that
`num_columns - num_equalities - 1` does not wrap) and `hpiv` (no zero pivot row in `back_substitute`). -/
theorem simplify_drops_only_redundant_partial (ncols numColsSat : Nat) (rows : List LRow) (sat : List BRow)
    (gens : List LRow) (hsat : SatCorrect gens rows sat) (hsound : Sound rows gens)
    (hcomp : ∀ x : Vec, x.length ≤ ncols → holdsAll rows x → Generated gens x)
    (hncs : numColsSat = gens.length) (hglen : ∀ g ∈ gens, g.v.length ≤ ncols) (hsz : ncols < 2 ^ 64)
    (hrank : (simplify ncols numColsSat (zipSys rows sat)).2 + 1 ≤ ncols)
    (hpiv : BackSubPivots (simpP ncols (zipSys rows sat)).2
      (List.range (simpP ncols (zipSys rows sat)).2).reverse (simpT ncols numColsSat (zipSys rows sat))) :
    ∀ x : Vec, x.length ≤ ncols →
      holdsAll ((simplify ncols numColsSat
        (List.zipWith (fun a s => ({ row := a, sat := s } : SRow)) rows sat)).1.map (·.row)) x →
      holdsAll rows x := by
  rw [zipSys_eq]
  have hrows := zipSys_map_row rows sat hsat.1
  have h := simplify_redundant_core ncols numColsSat (zipSys rows sat) gens hncs
    (zipSys_rowOK rows sat gens hsat hsound) (by rw [hrows]; exact hcomp) hglen hsz hrank hpiv
  rw [hrows] at h
  exact h

/-- with `simplify_sound`: `simplify` keeps the solution set. -/
theorem simplify_same_set_partial (ncols numColsSat : Nat) (rows : List LRow) (sat : List BRow)
    (gens : List LRow) (hsat : SatCorrect gens rows sat) (hsound : Sound rows gens)
    (hcomp : ∀ x : Vec, x.length ≤ ncols → holdsAll rows x → Generated gens x)
    (hncs : numColsSat = gens.length) (hglen : ∀ g ∈ gens, g.v.length ≤ ncols) (hsz : ncols < 2 ^ 64)
    (hrank : (simplify ncols numColsSat (zipSys rows sat)).2 + 1 ≤ ncols)
    (hpiv : BackSubPivots (simpP ncols (zipSys rows sat)).2
      (List.range (simpP ncols (zipSys rows sat)).2).reverse (simpT ncols numColsSat (zipSys rows sat))) :
    ∀ x : Vec, x.length ≤ ncols →
      (holdsAll ((simplify ncols numColsSat (zipSys rows sat)).1.map (·.row)) x ↔ holdsAll rows x) := by
  intro x hx
  refine ⟨simplify_drops_only_redundant_partial ncols numColsSat rows sat gens hsat hsound hcomp hncs
    hglen hsz hrank hpiv x hx, fun h => ?_⟩
  have hrows := zipSys_map_row rows sat hsat.1
  have hOK := zipSys_rowOK rows sat gens hsat hsound
  apply simplify_sound ncols numColsSat (zipSys rows sat) gens
    (fun r hr hb => (hOK r hr).1.saturated_of_empty hb) x (hcomp x hx h)
  rw [hrows]; exact h

/-- non-vacuity: the square `0 ≤ x ≤ 1, 0 ≤ y ≤ 1` with the redundant `x + y ≤ 3` (the instance next to
`simplify_sound` in `Props/C01Conv.lean`): the generators are sound, `hrank` and `hpiv` hold, and
`simplify` drops exactly the redundant row. -/
example :
    let rows : List LRow := [⟨false, [0, 1, 0]⟩, ⟨false, [1, -1, 0]⟩, ⟨false, [0, 0, 1]⟩, ⟨false, [1, 0, -1]⟩, ⟨false, [3, -1, -1]⟩]
    let gens : List LRow := [⟨false, [1, 0, 0]⟩, ⟨false, [1, 1, 0]⟩, ⟨false, [1, 0, 1]⟩, ⟨false, [1, 1, 1]⟩]
    let sat : List BRow := [[false, true, false, true], [true, false, true, false], [false, false, true, true],
                            [true, true, false, false], [true, true, true, true]]
    SatCorrect gens rows sat ∧ Sound rows gens ∧ (∀ g ∈ gens, g.v.length ≤ 3) ∧
    (simplify 3 4 (zipSys rows sat)).2 + 1 ≤ 3 ∧
    BackSubPivots (simpP 3 (zipSys rows sat)).2 (List.range (simpP 3 (zipSys rows sat)).2).reverse
      (simpT 3 4 (zipSys rows sat)) ∧
    (simplify 3 4 (zipSys rows sat)).1.map (·.row)
      = [⟨false, [0, 1, 0]⟩, ⟨false, [1, -1, 0]⟩, ⟨false, [0, 0, 1]⟩, ⟨false, [1, 0, -1]⟩] := by
  intro rows gens sat
  refine ⟨⟨by decide, ?_⟩, by unfold Sound; decide, by decide, by decide, ?_, by decide⟩
  · have key : ∀ i (h : i < rows.length), ∀ j, j < 4 → bit (sat.getD i []) j =
        (decide (j < gens.length) && decide (scalarProduct (gens.getD j default).v rows[i].v ≠ 0)) := by
      decide
    have k2 : ∀ i, i < rows.length → (sat.getD i []).length ≤ 4 := by decide
    intro i hi j
    by_cases hj : j < 4
    · exact key i hi j hj
    · have hg : gens.length = 4 := rfl
      rw [bit_ge_length _ j (by have := k2 i hi; omega), hg]
      simp [hj]
  have e : (simpP 3 (zipSys rows sat)).2 = 0 := by decide
  rw [e]
  exact trivial

end PPLV.Conv
