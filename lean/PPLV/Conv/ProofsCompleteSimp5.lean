import PPLV.Conv.ProofsCompleteSimp4
/-!
# C01 stage 4 — `simplify` drops only redundant rows: the saturation rule `satRuleLoop`

An inequality `d` with `num_saturators < num_columns - num_equalities - 1` (:235-246) is implied by the
other rows: otherwise (`Abs.satrule_rank`) `ncols = dim (ambient ncols) ≤ (nle + 1) + numSaturators d`.
One removed row at a time, so the invariant `PhaseInv` is carried along the loop.

The unsigned subtraction must not wrap: `nle + 1 ≤ ncols` (the equalities after `gauss` are independent and
do not force the zero vector) is a hypothesis here.
-/
namespace PPLV.Conv
open PPLV.Conv.Abs

theorem PhaseInv.removeRowAt {ncols : Nat} {gens : List LRow} {nle : Nat} {rows : List SRow}
    (hI : PhaseInv ncols gens nle rows) (i : Nat) (hi : nle ≤ i) (hil : i < rows.length)
    (hred : ∀ x : Vec, x.length ≤ ncols → holdsAll ((removeRowAt rows i).map (·.row)) x →
      holdsAll (rows.map (·.row)) x) :
    PhaseInv ncols gens nle (removeRowAt rows i) := by
  refine ⟨GInv_of_take nle _ rows (take_removeRowAt rows i nle hil hi) hI.ginv,
    fun r hr => hI.ineq r (mem_drop_removeRowAt rows i nle hi r hr), ?_,
    fun x hx h => hI.complete x hx (hred x hx h)⟩
  intro g hg s hs
  obtain ⟨s', hs', rfl⟩ := List.mem_map.1 hs
  exact hI.sound g hg s'.row (List.mem_map.2 ⟨s', mem_removeRowAt rows i s' hs', rfl⟩)

/-- one removal of the saturation rule. -/
theorem satRule_step (ncols : Nat) (gens : List LRow) (nle : Nat) (rows : List SRow) (i : Nat)
    (hglen : ∀ g ∈ gens, g.v.length ≤ ncols) (hI : PhaseInv ncols gens nle rows)
    (hi : nle ≤ i) (hil : i < rows.length) (hnc : nle + 1 ≤ ncols) (hsz : ncols < 2 ^ 64)
    (htest : numSaturators gens.length (rows.getD i default) < usub (usub ncols nle) 1) :
    ∀ x : Vec, x.length ≤ ncols → holdsAll ((removeRowAt rows i).map (·.row)) x →
      holdsAll (rows.map (·.row)) x := by
  have dd := ddpair_of_rows ncols (rows.map (·.row)) gens hglen hI.sound hI.complete
  obtain ⟨p, hpC, hpos⟩ := exists_interior_rows (rows.map (·.row)) gens hI.sound
  have hdr : rows.getD i default ∈ rows := getD_mem rows i hil
  have hdm : rows.getD i default ∈ rows.drop nle :=
    (mem_drop_iff_getElem? _ _ _).2 ⟨i, hi, getElem?_of_lt_getD rows i default hil⟩
  obtain ⟨d, hdef⟩ : ∃ d, d = rows.getD i default := ⟨_, rfl⟩
  rw [← hdef] at htest hdr hdm
  obtain ⟨hle, _, hex⟩ := hI.ineq d hdm
  intro x hx hout
  have hd : holds d.row x := by
    by_contra hnot
    rw [holds_iff_abs] at hnot
    rw [holdsAll_iff_abs] at hout
    have key := satrule_rank dd (conOf d.row) hle ((mem_conRows _ _).2 ⟨d, hdr, rfl⟩)
      (A' := ((removeRowAt rows i).map (·.row)).map conOf) ?_ p hpC ?_
      (((rows.take nle).map (·.row)).map conOf) ?_ (satList gens d) ?_ ?_
      (emb x) (emb_mem_ambient ncols x hx) hout hnot
    · rw [finrank_ambient, length_satList hex] at key
      have hlen : (((rows.take nle).map (·.row)).map conOf).length = nle := by
        simp only [List.length_map, List.length_take]
        exact Nat.min_eq_left hI.ginv.1
      rw [hlen] at key
      have e1 : usub ncols nle = ncols - nle := usub_eq ncols nle hsz (by omega)
      have e2 : usub (ncols - nle) 1 = ncols - nle - 1 :=
        usub_eq (ncols - nle) 1 (lt_of_le_of_lt (Nat.sub_le _ _) hsz) (by omega)
      rw [e1, e2] at htest
      omega
    · -- every row is `d` or is still there
      intro a ha
      obtain ⟨s, hs, rfl⟩ := (mem_conRows _ a).1 ha
      rcases mem_removeRowAt_or rows i hil s hs with h1 | h1
      · exact Or.inr ((mem_conRows _ _).2 ⟨s, h1, rfl⟩)
      · left; rw [h1, ← hdef]
    · -- every inequality is positive at `p`
      intro a ha he
      obtain ⟨s, hs, rfl⟩ := (mem_conRows _ a).1 ha
      rcases mem_take_or_drop rows nle s hs with h1 | h1
      · have := hI.ginv.le_of_mem_take s h1
        rw [conOf_eq, this] at he; cases he
      · exact hpos _ ha (hI.ray s h1)
    · -- the equalities are the first `nle` rows
      intro a ha he
      obtain ⟨s, hs, rfl⟩ := (mem_conRows _ a).1 ha
      rcases mem_take_or_drop rows nle s hs with h1 | h1
      · exact (mem_conRows _ _).2 ⟨s, h1, rfl⟩
      · rw [conOf_eq, (hI.ineq s h1).1] at he; cases he
    · rintro l ⟨g, hg, hgl, rfl⟩
      exact mem_satList hex g hg
        ((satisfies_abs d.row g (hI.sound g hg d.row (List.mem_map.2 ⟨d, hdr, rfl⟩))).2 (Or.inr hgl))
    · rintro r ⟨g, hg, _, rfl⟩ h0
      exact mem_satList hex g hg h0
  rw [holdsAll_map_iff] at hout ⊢
  intro s hs
  rcases mem_removeRowAt_or rows i hil s hs with h1 | h1
  · exact hout s h1
  · rw [h1, ← hdef]; exact hd

theorem satRuleLoop_succ (n a b : Nat) (rows : List SRow) (i : Nat) :
    satRuleLoop (n + 1) a b rows i =
      if i < rows.length then
        if numSaturators a (rows.getD i default) < b then satRuleLoop n a b (removeRowAt rows i) i
        else satRuleLoop n a b rows (i + 1)
      else rows := by
  rw [satRuleLoop]

/-- the saturation rule, the whole loop: the invariant is kept and only redundant rows go. -/
theorem satRuleLoop_inv (ncols : Nat) (gens : List LRow) (nle : Nat)
    (hglen : ∀ g ∈ gens, g.v.length ≤ ncols) (hnc : nle + 1 ≤ ncols) (hsz : ncols < 2 ^ 64) :
    ∀ (fuel : Nat) (rows : List SRow) (i : Nat), nle ≤ i → PhaseInv ncols gens nle rows →
      PhaseInv ncols gens nle (satRuleLoop fuel gens.length (usub (usub ncols nle) 1) rows i) ∧
      ∀ x : Vec, x.length ≤ ncols →
        holdsAll ((satRuleLoop fuel gens.length (usub (usub ncols nle) 1) rows i).map (·.row)) x →
        holdsAll (rows.map (·.row)) x
  | 0, rows, i => fun _ hI => ⟨hI, fun _ _ h => h⟩
  | n + 1, rows, i => fun hi hI => by
    rw [satRuleLoop_succ]
    split
    · rename_i hil
      split
      · rename_i htest
        have hstep := satRule_step ncols gens nle rows i hglen hI hi hil hnc hsz htest
        obtain ⟨h1, h2⟩ := satRuleLoop_inv ncols gens nle hglen hnc hsz n (removeRowAt rows i) i hi
          (hI.removeRowAt i hi hil hstep)
        exact ⟨h1, fun x hx h => hstep x hx (h2 x hx h)⟩
      · exact satRuleLoop_inv ncols gens nle hglen hnc hsz n rows (i + 1) (by omega) hI
    · exact ⟨hI, fun _ _ h => h⟩

/-- **the saturation rule keeps the set**: `holdsAll (output) x ↔ holdsAll (input) x` for `x.length ≤ ncols`
(`numColsSat = gens.length`, `minSat = usub (usub ncols nle) 1` as in `simplify`). -/
theorem satRuleLoop_same_set (ncols : Nat) (gens : List LRow) (nle : Nat) (rows : List SRow) (fuel : Nat)
    (hglen : ∀ g ∈ gens, g.v.length ≤ ncols) (hI : PhaseInv ncols gens nle rows)
    (hnc : nle + 1 ≤ ncols) (hsz : ncols < 2 ^ 64) :
    ∀ x : Vec, x.length ≤ ncols →
      (holdsAll ((satRuleLoop fuel gens.length (usub (usub ncols nle) 1) rows nle).map (·.row)) x ↔
        holdsAll (rows.map (·.row)) x) := by
  intro x hx
  refine ⟨(satRuleLoop_inv ncols gens nle hglen hnc hsz fuel rows nle (Nat.le_refl _) hI).2 x hx,
    fun h => ?_⟩
  rw [holdsAll_map_iff] at h ⊢
  exact fun s hs => h s (satRuleLoop_mem fuel _ _ rows nle s hs)

end PPLV.Conv
