import PPLV.Conv.ProofsCompleteSimp3
import Mathlib.Tactic.LinearCombination
/-!
# C01 stage 4 — `gauss` leaves zero rows in `[rank, nle)`

`Linear_System::gauss` (`Linear_System_templates.hh:568-627`) processes the columns from the last to the
first; after a column has been processed, every row in `[rank, nle)` has a zero there (`ZeroBelow`): either
no row of `[rank, nle)` had a non-zero coefficient, or the pivot row was moved to `rank` and the column was
eliminated from the rows after it (the rows between `rank` and the pivot had a zero already).  Hence the rows
`[rank, nle)` of the result vanish on every vector of length `≤ ncols`: `dropPhase` drops zero rows.
-/
namespace PPLV.Conv

/-- column `c` of the combined row. -/
theorem rowLinearCombine_col (r y : LRow) (j c : Nat) :
    ∃ g : Int, g ≠ 0 ∧
      (normalize2 (r.v.getD j 0) (y.v.getD j 0)).2 * r.v.getD c 0
        - (normalize2 (r.v.getD j 0) (y.v.getD j 0)).1 * y.v.getD c 0
        = g * (rowLinearCombine r y j).v.getD c 0 := by
  rw [rowLinearCombine_eq]
  generalize (normalize2 (r.v.getD j 0) (y.v.getD j 0)).2 = ny
  generalize (normalize2 (r.v.getD j 0) (y.v.getD j 0)).1 = nx
  obtain ⟨g, hg, hs⟩ := sp_strongNormalize { r with v := linearCombine ny (-nx) r.v y.v }
  refine ⟨g, hg, ?_⟩
  have := hs (colVec c)
  rw [sp_linearCombine, sp_colVec, sp_colVec, sp_colVec] at this
  rw [← this]; ring

theorem rowLinearCombine_col_zero (r y : LRow) (j c : Nat) (hr : r.v.getD c 0 = 0) (hy : y.v.getD c 0 = 0) :
    (rowLinearCombine r y j).v.getD c 0 = 0 := by
  obtain ⟨g, hg, e⟩ := rowLinearCombine_col r y j c
  rw [hr, hy, mul_zero, mul_zero, sub_zero] at e
  rcases mul_eq_zero.1 e.symm with h | h
  · exact absurd h hg
  · exact h

theorem rowLinearCombine_pivot_zero (r y : LRow) (j : Nat) (h : r.v.getD j 0 ≠ 0 ∨ y.v.getD j 0 ≠ 0) :
    (rowLinearCombine r y j).v.getD j 0 = 0 := by
  obtain ⟨g', _, h1, h2⟩ := normalize2_spec _ _ h
  obtain ⟨g, hg, e⟩ := rowLinearCombine_col r y j j
  generalize (normalize2 (r.v.getD j 0) (y.v.getD j 0)).2 = ny at h2 e
  generalize (normalize2 (r.v.getD j 0) (y.v.getD j 0)).1 = nx at h1 e
  have : g * (rowLinearCombine r y j).v.getD j 0 = 0 := by
    linear_combination (-1 : Int) * e + ny * h1 - nx * h2
  rcases mul_eq_zero.1 this with h | h
  · exact absurd h hg
  · exact h

/-- the rows `[rank, nle)` have a zero in every column already processed. -/
def ZeroBelow (nle : Nat) (done : Nat → Prop) (st : List SRow × Nat) : Prop :=
  ∀ m, st.2 ≤ m → m < nle → ∀ c, done c → (st.1.getD m default).row.v.getD c 0 = 0

theorem gaussSwap_row (rows : List SRow) (i rank m : Nat) (hr : rank ≤ i) (hil : i < rows.length) :
    ((gaussSwap rows i rank).getD m default).row =
      if m = rank then (rows.getD i default).row
      else if m = i then (rows.getD rank default).row else (rows.getD m default).row := by
  unfold gaussSwap
  split
  · exact getD_row_swapRowOnly rows i rank m hil (by omega)
  · have e : i = rank := by omega
    subst e
    by_cases hm : m = i
    · simp [hm]
    · simp [hm]

theorem length_gaussSwap (rows : List SRow) (i rank : Nat) : (gaussSwap rows i rank).length = rows.length := by
  unfold gaussSwap
  split
  · exact length_swapRowOnly _ _ _
  · rfl

theorem gaussColumn_zeroBelow (nle j : Nat) (done : Nat → Prop) (rows : List SRow) (rank : Nat)
    (hI : GInv nle rows) (hZ : ZeroBelow nle done (rows, rank)) :
    ZeroBelow nle (fun c => done c ∨ c = j) (gaussColumn nle j (rows, rank)) := by
  cases hf : (List.range' rank (nle - rank)).find? (fun i => (rows.getD i default).row.v.getD j 0 != 0) with
  | none =>
    rw [gaussColumn_none nle j rows rank hf]
    rw [List.find?_range'_eq_none] at hf
    intro m hm1 hm2 c hc
    have hm1' : rank ≤ m := hm1
    rcases hc with hc | hc
    · exact hZ m hm1 hm2 c hc
    · have := hf m hm1' (by omega)
      rw [hc]
      simpa using this
  | some i =>
    rw [gaussColumn_some nle j rows rank i hf]
    rw [List.find?_range'_eq_some] at hf
    obtain ⟨hp, hmem, hfirst⟩ := hf
    rw [List.mem_range'_1] at hmem
    have hp' : (rows.getD i default).row.v.getD j 0 ≠ 0 := by simpa using hp
    have hfirst' : ∀ m, rank ≤ m → m < i → (rows.getD m default).row.v.getD j 0 = 0 := by
      intro m h1 h2
      simpa using hfirst m h1 h2
    have hil : i < rows.length := by have := hI.1; omega
    intro m hm1 hm2 c hc
    have hm1' : rank + 1 ≤ m := hm1
    show (SRow.row (List.getD (List.mapIdx _ (gaussSwap rows i rank)) m default)).v.getD c 0 = 0
    rw [getD_mapIdx _ _ m (by rw [length_gaussSwap]; have := hI.1; omega)]
    have hpiv : ((gaussSwap rows i rank).getD rank default).row = (rows.getD i default).row := by
      rw [gaussSwap_row rows i rank rank hmem.1 hil, if_pos rfl]
    rw [hpiv]
    have hrow := gaussSwap_row rows i rank m hmem.1 hil
    rw [if_neg (by omega)] at hrow
    have hdone : ∀ c, done c → ((gaussSwap rows i rank).getD m default).row.v.getD c 0 = 0 := by
      intro c hc
      rw [hrow]
      split
      · exact hZ rank (Nat.le_refl _) (by omega) c hc
      · exact hZ m (by show rank ≤ m; omega) hm2 c hc
    have hpdone : ∀ c, done c → (rows.getD i default).row.v.getD c 0 = 0 :=
      fun c hc => hZ i hmem.1 (by omega) c hc
    unfold combF
    split
    · rcases hc with hc | hc
      · exact rowLinearCombine_col_zero _ _ j c (hdone c hc) (hpdone c hc)
      · rw [hc]; exact rowLinearCombine_pivot_zero _ _ j (Or.inr hp')
    · rename_i hP
      rcases hc with hc | hc
      · exact hdone c hc
      · rw [hc]
        by_cases hmi : i + 1 ≤ m
        · by_contra hne; exact hP ⟨hmi, hm2, hne⟩
        · rw [hrow]
          split
          · exact hfirst' rank (Nat.le_refl _) (by omega)
          · exact hfirst' m (by omega) (by omega)

theorem gauss_fold_zeroBelow (nle : Nat) : ∀ (cols : List Nat) (rows : List SRow) (rank : Nat)
    (done : Nat → Prop), GInv nle rows → ZeroBelow nle done (rows, rank) →
    ZeroBelow nle (fun c => done c ∨ c ∈ cols) (cols.foldl (fun st j => gaussColumn nle j st) (rows, rank))
  | [], rows, rank, done, _, hZ => by
    intro m h1 h2 c hc
    rcases hc with hc | hc
    · exact hZ m h1 h2 c hc
    · cases hc
  | j :: cols, rows, rank, done, hI, hZ => by
    rw [List.foldl_cons]
    have h1 := gaussColumn_zeroBelow nle j done rows rank hI hZ
    have hI1 := (gaussColumn_keeps nle j rows rank hI).2.1
    have h2 := gauss_fold_zeroBelow nle cols (gaussColumn nle j (rows, rank)).1
      (gaussColumn nle j (rows, rank)).2 _ hI1 h1
    intro m hm1 hm2 c hc
    apply h2 m hm1 hm2 c
    rcases hc with hc | hc
    · exact Or.inl (Or.inl hc)
    · rcases List.mem_cons.1 hc with e | hc'
      · exact Or.inl (Or.inr e)
      · exact Or.inr hc'

/-- **the rows `[rank, nle)` left by `gauss` are zero in the first `ncols` columns.** -/
theorem gauss_zero_rows (ncols nle : Nat) (rows : List SRow) (hI : GInv nle rows) :
    ∀ m, (gauss ncols nle rows).2 ≤ m → m < nle → ∀ c, c < ncols →
      ((gauss ncols nle rows).1.getD m default).row.v.getD c 0 = 0 := by
  intro m hm1 hm2 c hc
  have h := gauss_fold_zeroBelow nle (List.range ncols).reverse rows 0 (fun _ => False) hI
    (fun _ _ _ _ h => h.elim)
  exact h m hm1 hm2 c (Or.inr (by rw [List.mem_reverse, List.mem_range]; exact hc))

/-- a row that is zero in the first `n` columns vanishes on the vectors of length `≤ n`. -/
theorem sp_zero_of_prefix_zero : ∀ (x v : Vec) (n : Nat), x.length ≤ n → (∀ c, c < n → v.getD c 0 = 0) →
    scalarProduct v x = 0
  | [], v, _, _, _ => sp_nil_right v
  | b :: bs, [], _, _, _ => sp_nil_left _
  | b :: bs, a :: as, n, hx, hz => by
    have hn : 1 ≤ n := by simp at hx; omega
    have ha : a = 0 := by simpa using hz 0 (by omega)
    have ih := sp_zero_of_prefix_zero bs as (n - 1) (by simp at hx; omega) (fun c hc => by
      have := hz (c + 1) (by omega)
      simpa using this)
    show a * b + scalarProduct as bs = 0
    rw [ha, ih]; ring

theorem gauss_zero_rows_sp (ncols nle : Nat) (rows : List SRow) (hI : GInv nle rows) :
    ∀ m, (gauss ncols nle rows).2 ≤ m → m < nle → ∀ x : Vec, x.length ≤ ncols →
      scalarProduct ((gauss ncols nle rows).1.getD m default).row.v x = 0 :=
  fun m hm1 hm2 x hx =>
    sp_zero_of_prefix_zero x _ ncols hx (gauss_zero_rows ncols nle rows hI m hm1 hm2)

end PPLV.Conv
