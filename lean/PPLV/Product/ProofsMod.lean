import PPLV.Product.Model
import Mathlib.Tactic.Linarith
import Mathlib.Tactic.Ring
import Mathlib.Tactic.Push

/-!
# C10 — the modular arithmetic of `shrink_to_congruence_no_check`

`max_numer - shrinkMax …` is the largest multiple of `mod` below the upper bound (strictly below
when the bound is not attained), `min_numer - shrinkMin …` the least multiple above the lower
bound; C++ `%` is `Int.tmod`.
-/
namespace PPLV.Product

theorem tmod_cases (N m : Int) (hm : 0 < m) :
    (N.tmod m = N % m ∧ (0 ≤ N ∨ N % m = 0)) ∨ (N.tmod m = N % m - m ∧ N < 0 ∧ N % m ≠ 0) := by
  rw [Int.tmod_eq_emod]
  have hd : m ∣ N ↔ N % m = 0 := Int.dvd_iff_emod_eq_zero
  have hn : (m.natAbs : Int) = m := by
    rw [Int.natCast_natAbs]; exact abs_of_pos hm
  by_cases h : 0 ≤ N ∨ m ∣ N
  · left
    simp only [h, if_true]
    refine ⟨by simp, ?_⟩
    rcases h with h | h
    · exact Or.inl h
    · exact Or.inr (hd.mp h)
  · right
    simp only [h, if_false]
    rw [hn]
    push Not at h
    exact ⟨rfl, h.1, fun h0 => h.2 (hd.mpr h0)⟩

/-- what `shrinkMax` returns -/
theorem shrinkMax_spec (N m : Int) (incl : Bool) (hm : 0 < m) :
    m ∣ (N - shrinkMax N m incl) ∧
    (incl = true → 0 ≤ shrinkMax N m incl ∧ shrinkMax N m incl < m) ∧
    (incl = false → 0 < shrinkMax N m incl ∧ shrinkMax N m incl ≤ m) := by
  have hr0 : 0 ≤ N % m := Int.emod_nonneg N (ne_of_gt hm)
  have hr1 : N % m < m := Int.emod_lt_of_pos N hm
  have hdvd : m ∣ N - N % m := Int.dvd_self_sub_emod
  unfold shrinkMax
  rcases tmod_cases N m hm with ⟨ht, _⟩ | ⟨ht, _, hne⟩
  · rw [ht]
    by_cases hz : N % m = 0
    · have hmN : m ∣ N := Int.dvd_iff_emod_eq_zero.mpr hz
      cases incl with
      | true =>
        simp only [hz, Bool.not_true, Bool.false_and, Bool.false_eq_true, if_false]
        have : ¬ (0 : Int) < 0 := lt_irrefl 0
        simp only [this, if_false, sub_zero]
        refine ⟨hmN, fun _ => ⟨le_refl 0, hm⟩, ?_⟩
        intro h; simp at h
      | false =>
        simp only [hz, Bool.not_false, beq_self_eq_true, Bool.and_self, if_true]
        have : ¬ m < 0 := not_lt.mpr (le_of_lt hm)
        simp only [this, if_false]
        refine ⟨Int.dvd_sub hmN (Int.dvd_refl m), ?_, ?_⟩
        · intro h; simp at h
        · intro _; exact ⟨hm, le_refl m⟩
    · have hbeq : (N % m == 0) = false := by simpa using hz
      simp only [hbeq, Bool.and_false, Bool.false_eq_true, if_false]
      have : ¬ N % m < 0 := not_lt.mpr hr0
      simp only [this, if_false]
      have hpos : 0 < N % m := lt_of_le_of_ne hr0 (Ne.symm hz)
      exact ⟨hdvd, fun _ => ⟨hr0, hr1⟩, fun _ => ⟨hpos, le_of_lt hr1⟩⟩
  · rw [ht]
    have hpos : 0 < N % m := lt_of_le_of_ne hr0 (Ne.symm hne)
    have hneg : N % m - m < 0 := by linarith
    have hbeq : (N % m - m == 0) = false := by
      simp only [beq_eq_false_iff_ne]; intro h; linarith
    simp only [hbeq, Bool.and_false, Bool.false_eq_true, if_false, hneg, if_true, sub_add_cancel]
    exact ⟨hdvd, fun _ => ⟨hr0, hr1⟩, fun _ => ⟨hpos, le_of_lt hr1⟩⟩

/-- every multiple of `m` below the bound is below the decreased bound -/
theorem shrinkMax_floor (N m z : Int) (incl : Bool) (hm : 0 < m)
    (hle : z * m ≤ N) (hlt : incl = false → z * m < N) : z * m ≤ N - shrinkMax N m incl := by
  obtain ⟨⟨q, hq⟩, h1, h2⟩ := shrinkMax_spec N m incl hm
  rw [hq]
  have : z ≤ q := by
    by_contra hc
    push Not at hc
    have hq1 : q + 1 ≤ z := hc
    have : m * (q + 1) ≤ z * m := by nlinarith
    cases incl with
    | true =>
      obtain ⟨_, hs⟩ := h1 rfl
      nlinarith
    | false =>
      obtain ⟨_, hs⟩ := h2 rfl
      have := hlt rfl
      nlinarith
  nlinarith

theorem shrinkMin_spec (N m : Int) (incl : Bool) (hm : 0 < m) :
    m ∣ (N - shrinkMin N m incl) ∧
    (incl = true → -m < shrinkMin N m incl ∧ shrinkMin N m incl ≤ 0) ∧
    (incl = false → -m ≤ shrinkMin N m incl ∧ shrinkMin N m incl < 0) := by
  have hr0 : 0 ≤ N % m := Int.emod_nonneg N (ne_of_gt hm)
  have hr1 : N % m < m := Int.emod_lt_of_pos N hm
  have hdvd : m ∣ N - N % m := Int.dvd_self_sub_emod
  unfold shrinkMin
  rcases tmod_cases N m hm with ⟨ht, _⟩ | ⟨ht, _, hne⟩
  · rw [ht]
    by_cases hz : N % m = 0
    · have hmN : m ∣ N := Int.dvd_iff_emod_eq_zero.mpr hz
      cases incl with
      | true =>
        simp only [hz, Bool.not_true, Bool.false_and, Bool.false_eq_true, if_false]
        have : ¬ (0 : Int) > 0 := lt_irrefl 0
        simp only [this, if_false, sub_zero]
        refine ⟨hmN, fun _ => ⟨by linarith, le_refl 0⟩, ?_⟩
        intro h; simp at h
      | false =>
        simp only [hz, Bool.not_false, beq_self_eq_true, Bool.and_self, if_true]
        have : ¬ -m > 0 := by intro h; linarith
        simp only [this, if_false]
        refine ⟨?_, ?_, ?_⟩
        · have : N - -m = N + m := by ring
          rw [this]
          exact Int.dvd_add hmN (Int.dvd_refl m)
        · intro h; simp at h
        · intro _; exact ⟨le_refl _, by linarith⟩
    · have hbeq : (N % m == 0) = false := by simpa using hz
      have hpos : 0 < N % m := lt_of_le_of_ne hr0 (Ne.symm hz)
      simp only [hbeq, Bool.and_false, Bool.false_eq_true, if_false]
      have : N % m > 0 := hpos
      simp only [this, if_true]
      refine ⟨?_, fun _ => ⟨by linarith, by linarith⟩, fun _ => ⟨by linarith, by linarith⟩⟩
      have : N - (N % m - m) = (N - N % m) + m := by ring
      rw [this]
      exact Int.dvd_add hdvd (Int.dvd_refl m)
  · rw [ht]
    have hpos : 0 < N % m := lt_of_le_of_ne hr0 (Ne.symm hne)
    have hneg : ¬ N % m - m > 0 := by intro h; linarith
    have hbeq : (N % m - m == 0) = false := by
      simp only [beq_eq_false_iff_ne]; intro h; linarith
    simp only [hbeq, Bool.and_false, Bool.false_eq_true, if_false, hneg]
    refine ⟨?_, fun _ => ⟨by linarith, by linarith⟩, fun _ => ⟨by linarith, by linarith⟩⟩
    have : N - (N % m - m) = (N - N % m) + m := by ring
    rw [this]
    exact Int.dvd_add hdvd (Int.dvd_refl m)

theorem shrinkMin_ceil (N m z : Int) (incl : Bool) (hm : 0 < m)
    (hle : N ≤ z * m) (hlt : incl = false → N < z * m) : N - shrinkMin N m incl ≤ z * m := by
  obtain ⟨⟨q, hq⟩, h1, h2⟩ := shrinkMin_spec N m incl hm
  rw [hq]
  have : q ≤ z := by
    by_contra hc
    push Not at hc
    have hq1 : z + 1 ≤ q := hc
    have : z * m + m ≤ m * q := by nlinarith
    cases incl with
    | true =>
      obtain ⟨hs, _⟩ := h1 rfl
      nlinarith
    | false =>
      obtain ⟨hs, _⟩ := h2 rfl
      have := hlt rfl
      nlinarith
  nlinarith

end PPLV.Product
