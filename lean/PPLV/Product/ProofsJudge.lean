import PPLV.Product.Judge
import PPLV.Lin.Proofs

/-!
# C10 — the point evaluators of the sampling judge compute membership
-/
namespace PPLV.Product
open PPLV.Lin

/-- a finite rational vector as a valuation (zero beyond its length) -/
def toPt (x : List Rat) : Val := fun i => x.getD i 0

theorem toPt_nil : toPt [] = Val.zero := by funext i; simp [toPt, Val.zero]
theorem toPt_cons_tail (a : Rat) (x : List Rat) : (toPt (a :: x)).tail = toPt x := by
  funext i; simp [toPt, Val.tail]

theorem dotQ_eq (cs : List Int) (x : List Rat) : dotQ cs x = dot cs (toPt x) := by
  induction cs generalizing x with
  | nil => cases x <;> simp [dotQ]
  | cons a as ih =>
    cases x with
    | nil => rw [toPt_nil, dot_zero]; simp [dotQ]
    | cons b bs =>
      simp only [dotQ, dot_cons, toPt_cons_tail, ih]
      simp [toPt]

/-- evaluating a constraint row at a rational point decides its satisfaction -/
theorem conHolds_iff (c : Con) (x : List Rat) : conHolds c x = true ↔ c.sat (toPt x) := by
  unfold conHolds Con.sat Con.eval
  rw [dotQ_eq]
  cases c.strict <;> simp

theorem allHold_iff (cs : List Con) (x : List Rat) : allHold cs x = true ↔ Sat cs (toPt x) := by
  simp only [allHold, List.all_eq_true, conHolds_iff, Sat]

theorem isIntQ_iff (q : Rat) : isIntQ q = true ↔ ∃ z : Int, q = (z : Rat) := by
  unfold isIntQ
  simp only [beq_iff_eq]
  constructor
  · intro h
    exact ⟨q.num, by
      have := Rat.num_div_den q
      rw [h] at this
      simpa using this.symm⟩
  · rintro ⟨z, rfl⟩
    simp

/-- evaluating a congruence at a rational point decides its satisfaction -/
theorem cgrHolds_iff (c : Cgr) (x : List Rat) :
    cgrHolds c x = true ↔ ∃ z : Int, dot c.coeffs (toPt x) + (c.k : Rat) = (z : Rat) * (c.m : Rat) := by
  unfold cgrHolds
  rw [dotQ_eq]
  by_cases hm : c.m = 0
  · simp only [hm, beq_self_eq_true, if_true, beq_iff_eq, Int.cast_zero, mul_zero]
    exact ⟨fun h => ⟨0, h⟩, fun ⟨_, h⟩ => h⟩
  · have hbeq : (c.m == 0) = false := by simpa using hm
    have hmq : (c.m : Rat) ≠ 0 := by exact_mod_cast hm
    simp only [hbeq, Bool.false_eq_true, if_false, isIntQ_iff]
    constructor
    · rintro ⟨z, hz⟩
      exact ⟨z, by rw [div_eq_iff hmq] at hz; exact hz⟩
    · rintro ⟨z, hz⟩
      exact ⟨z, by rw [div_eq_iff hmq]; exact hz⟩

end PPLV.Product
