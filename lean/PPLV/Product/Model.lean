import PPLV.Base.Dom

/-!
# C10 — code-shaped model of `Partially_Reduced_Product<D1, D2, R>` (no Mathlib)

Transliteration of `src/Partially_Reduced_Product_templates.hh` (`Smash_Reduction`,
`Constraints_Reduction`, `shrink_to_congruence_no_check`, `Congruences_Reduction`,
`Shape_Preserving_Reduction`) and of the lazy `reduce()` / component-wise part of
`Partially_Reduced_Product_inlines.hh`, over two component domains given as K5 structures with
the oracles the reductions call (`maximize`, `minimize`, `frequency`, `minimized_constraints`,
`minimized_congruences`, `refine_with_*`) as hypothesis-carrying fields.
Coefficients are `Int` (GMP), C++ `%` on them is truncated: `Int.tmod`.
-/
namespace PPLV.Product
open PPLV

/-- linear expression `coeffs · x + k` -/
structure LE where
  coeffs : List Int
  k : Int
deriving Repr, DecidableEq, Inhabited

def LE.eval (e : LE) (x : Pt) : Rat := Lin.dot e.coeffs x + (e.k : Rat)

/-- congruence `coeffs · x + k ≡ 0 (mod modulus)`; `modulus = 0` is an equality -/
structure Cg where
  coeffs : List Int
  k : Int
  modulus : Int
deriving Repr, DecidableEq, Inhabited

def Cg.expr (c : Cg) : LE := ⟨c.coeffs, c.k⟩
def Cg.sat (c : Cg) (x : Pt) : Prop := ∃ z : Int, c.expr.eval x = (z : Rat) * (c.modulus : Rat)

def _root_.PPLV.LCon.expr (c : LCon) : LE := ⟨c.coeffs, c.k⟩

/-- a component domain of a product: a sound domain with the services the reductions use -/
structure RDom extends Dom where
  /-- `D(space_dim, EMPTY)` -/
  empty : D
  /-- `refine_with_constraint` -/
  refineCon : D → LCon → D
  /-- `refine_with_congruence` -/
  refineCg : D → Cg → D
  /-- `maximize(e, num, den, included)`: `none` = returned `false` -/
  maximize : D → LE → Option (Int × Int × Bool)
  minimize : D → LE → Option (Int × Int × Bool)
  /-- `frequency(e, freq_n, freq_d, val_n, val_d)` -/
  frequency : D → LE → Option (Int × Int × Int × Int)
  /-- `minimized_constraints()` -/
  constraints : D → List LCon
  /-- `minimized_congruences()` -/
  congruences : D → List Cg
  empty_spec : ∀ p, ¬ γ empty p
  refineCon_sub : ∀ a c p, γ (refineCon a c) p → γ a p
  refineCon_keep : ∀ a c p, γ a p → c.sat p → γ (refineCon a c) p
  refineCg_sub : ∀ a c p, γ (refineCg a c) p → γ a p
  refineCg_keep : ∀ a c p, γ a p → c.sat p → γ (refineCg a c) p
  /-- the reported maximum is an upper bound, strict if not `included` -/
  maximize_spec : ∀ a e n dn incl, maximize a e = some (n, dn, incl) →
    0 < dn ∧ ∀ p, γ a p → (e.eval p * (dn : Rat) ≤ (n : Rat) ∧ (incl = false → e.eval p * (dn : Rat) < (n : Rat)))
  minimize_spec : ∀ a e n dn incl, minimize a e = some (n, dn, incl) →
    0 < dn ∧ ∀ p, γ a p → ((n : Rat) ≤ e.eval p * (dn : Rat) ∧ (incl = false → (n : Rat) < e.eval p * (dn : Rat)))
  /-- all values of `e` lie in `val + freq·ℤ`; `freq = 0` (constant) or `|val| < freq` -/
  frequency_spec : ∀ a e fn fd vn vd, frequency a e = some (fn, fd, vn, vd) →
    0 < fd ∧ 0 < vd ∧ 0 ≤ fn ∧ (fn = 0 ∨ (-(fn * vd) < vn * fd ∧ vn * fd < fn * vd)) ∧
    ∀ p, γ a p → ∃ z : Int, e.eval p * ((vd : Rat) * (fd : Rat)) = (vn : Rat) * (fd : Rat) + (z : Rat) * ((fn : Rat) * (vd : Rat))
  constraints_sound : ∀ a p, γ a p → ∀ c ∈ constraints a, c.sat p
  congruences_sound : ∀ a p, γ a p → ∀ c ∈ congruences a, c.sat p
  /-- moduli are non-negative (class invariant of `Congruence`) -/
  congruences_nonneg : ∀ a, ∀ c ∈ congruences a, 0 ≤ c.modulus

variable (A B : RDom)

/-! ### `Smash_Reduction::product_reduce` -/
def smashReduce (d1 : A.D) (d2 : B.D) : A.D × B.D :=
  if B.isBottom d2 then
    (if !A.isBottom d1 then (A.empty, d2) else (d1, d2))
  else if A.isBottom d1 then (d1, B.empty)
  else (d1, d2)

/-- `refine_with_constraints(cs)` -/
def refineCons (X : RDom) (d : X.D) (cs : List LCon) : X.D := cs.foldl X.refineCon d

/-! ### `Constraints_Reduction::product_reduce` -/
def constraintsReduce (d1 : A.D) (d2 : B.D) : A.D × B.D :=
  if A.isBottom d1 || B.isBottom d2 then smashReduce A B d1 d2
  else
    let d1' := refineCons A d1 (B.constraints d2)
    if A.isBottom d1' then (d1', B.empty)
    else
      let d2' := refineCons B d2 (A.constraints d1')
      if B.isBottom d2' then (A.empty, d2') else (d1', d2')

/-! ### `shrink_to_congruence_no_check(d1, d2, cg)` -/

/-- "the amount by which the maximum may be decreased": `max_numer - result` is the largest
    multiple of `mod` that is `≤ max_numer` (`<` when the bound is not attained) -/
def shrinkMax (maxN mod : Int) (incl : Bool) : Int :=
  let s := Int.tmod maxN mod
  let s := if !incl && s == 0 then mod else s
  if s < 0 then s + mod else s

/-- dually for the minimum -/
def shrinkMin (minN mod : Int) (incl : Bool) : Int :=
  let s := Int.tmod minN mod
  let s := if !incl && s == 0 then -mod else s
  if s > 0 then s - mod else s

def shrinkStep (d1 : A.D) (d2 : B.D) (cg : Cg) : (A.D × B.D) × Bool :=
  match B.maximize d2 cg.expr with
  | none => ((d1, d2), true)
  | some (maxN0, maxD, maxIncl) =>
    match B.minimize d2 cg.expr with
    | none => ((d1, d2), true)
    | some (minN0, minD, minIncl) =>
      let maxN := maxN0 * minD
      let minN := minN0 * maxD
      let denom := maxD * minD
      let mod := cg.modulus * denom
      let mod2 := 2 * mod
      if maxN - minN < mod2 || (maxN - minN == mod2 && (!maxIncl || !minIncl)) then
        let maxDec := maxN - shrinkMax maxN mod maxIncl
        let minInc := minN - shrinkMin minN mod minIncl
        if maxDec == minInc then
          -- `Constraint new_c(denom * e == min_increased)`
          let newC : LCon := ⟨cg.coeffs.map (denom * ·), denom * cg.k - minInc, .eq⟩
          ((A.refineCon d1 newC, B.refineCon d2 newC), true)
        else if maxDec < minInc then ((A.empty, B.empty), false)
        else ((d1, d2), true)
      else ((d1, d2), true)

/-! ### `Congruences_Reduction::product_reduce` -/

/-- one of the two `for` loops: the congruences of the first component shrink both -/
def cgLoop (X Y : RDom) : List Cg → X.D → Y.D → (X.D × Y.D) × Bool
  | [], d1, d2 => ((d1, d2), true)
  | cg :: rest, d1, d2 =>
    if cg.modulus == 0 then cgLoop X Y rest d1 (Y.refineCg d2 cg)
    else
      let r := shrinkStep X Y d1 d2 cg
      if !r.2 then (r.1, false) else cgLoop X Y rest r.1.1 r.1.2

def congruencesReduce (d1 : A.D) (d2 : B.D) : A.D × B.D :=
  if A.isBottom d1 || B.isBottom d2 then smashReduce A B d1 d2
  else
    let r1 := cgLoop A B (A.congruences d1) d1 d2
    if !r1.2 then r1.1
    else
      let r2 := cgLoop B A (B.congruences r1.1.2) r1.1.2 r1.1.1
      (r2.1.2, r2.1.1)

/-! ### `Shape_Preserving_Reduction::product_reduce` -/

/-- `refining_cs`: for every non-equality constraint `le ≥ 0` of the other component whose
    expression has a frequency in `d`, the tightened constraint `val_d·le - val_n ≥ 0` -/
def freqRefine (X : RDom) (d : X.D) (cs : List LCon) : List LCon :=
  cs.filterMap fun c =>
    if c.rel = .eq then none
    else match X.frequency d c.expr with
      | none => none
      | some (fn, fd, vn, vd) =>
        if vn = 0 then none
        else
          let vn' := if vn < 0 then vn * fd + vd * fn else vn
          let vd' := if vn < 0 then vd * fd else vd
          some ⟨c.coeffs.map (vd' * ·), vd' * c.k - vn', .ge⟩

def shapeReduce (d1 : A.D) (d2 : B.D) : A.D × B.D :=
  let r := congruencesReduce A B d1 d2
  if A.isBottom r.1 then r
  else
    let d2' := refineCons B r.2 (freqRefine A r.1 (B.constraints r.2))
    let d1' := refineCons A r.1 (freqRefine B d2' (A.constraints r.1))
    constraintsReduce A B d1' d2'

/-! ### the product: two components and the `reduced` flag -/

inductive Policy | none | smash | constraints | congruences | shape
deriving Repr, DecidableEq

def productReduce (R : Policy) (d1 : A.D) (d2 : B.D) : A.D × B.D :=
  match R with
  | .none => (d1, d2)
  | .smash => smashReduce A B d1 d2
  | .constraints => constraintsReduce A B d1 d2
  | .congruences => congruencesReduce A B d1 d2
  | .shape => shapeReduce A B d1 d2

structure Prod where
  d1 : A.D
  d2 : B.D
  reduced : Bool

/-- `reduce()` -/
def reduce (R : Policy) (x : Prod A B) : Prod A B :=
  if x.reduced then x
  else
    let r := productReduce A B R x.d1 x.d2
    ⟨r.1, r.2, true⟩

/-- component-wise transformer that clears the flag (`affine_image`, `add_constraint`,
    `intersection_assign` with fixed argument, …) -/
def mapBoth (f1 : A.D → A.D) (f2 : B.D → B.D) (x : Prod A B) : Prod A B := ⟨f1 x.d1, f2 x.d2, false⟩

/-- component-wise transformer that reduces first (`unconstrain`, `upper_bound_assign`, …) -/
def mapBothReduced (R : Policy) (f1 : A.D → A.D) (f2 : B.D → B.D) (x : Prod A B) : Prod A B :=
  let x' := reduce A B R x
  ⟨f1 x'.d1, f2 x'.d2, x'.reduced⟩

/-- `is_empty()` -/
def isEmpty (R : Policy) (x : Prod A B) : Bool :=
  let x' := reduce A B R x
  A.isBottom x'.d1 || B.isBottom x'.d2

/-- `contains(y)` with the component predicates `c1`, `c2` -/
def contains (R : Policy) (c1 : A.D → A.D → Bool) (c2 : B.D → B.D → Bool) (x y : Prod A B) : Bool :=
  let x' := reduce A B R x
  let y' := reduce A B R y
  c1 x'.d1 y'.d1 && c2 x'.d2 y'.d2

/-- `is_disjoint_from(y)`, `is_bounded()`, `bounds_from_above(e)`, `constrains(v)` …:
    a disjunction of component predicates evaluated after `reduce()` -/
def anyComponent (R : Policy) (q1 : A.D → Bool) (q2 : B.D → Bool) (x : Prod A B) : Bool :=
  let x' := reduce A B R x
  q1 x'.d1 || q2 x'.d2

/-! ### `relation_with(c)` and `maximize` / `minimize` -/

/-- the three definite facts of a `Poly_Con_Relation` -/
structure Rel3 where
  included : Bool
  disjoint : Bool
  saturates : Bool
deriving Repr, DecidableEq

/-- the rule of `Partially_Reduced_Product::relation_with`: a fact is reported as soon as one
    component reports it (`if (relation1.implies(…)) … else if (relation2.implies(…)) …`) -/
def relCombine (a b : Rel3) : Rel3 :=
  ⟨a.included || b.included, a.disjoint || b.disjoint, a.saturates || b.saturates⟩

def relationWith (R : Policy) (q1 : A.D → Rel3) (q2 : B.D → Rel3) (x : Prod A B) : Rel3 :=
  let x' := reduce A B R x
  relCombine (q1 x'.d1) (q2 x'.d2)

/-- `maximize(e, n, d, max)`: `none` if neither component is bounded; the value of the only
    bounded one; otherwise the value of `d1` when `sup1 ≥ sup2`, else that of `d2`
    (`if (sup2_d * sup1_n >= sup1_d * sup2_n)`) -/
def prodMaximize (R : Policy) (x : Prod A B) (e : LE) : Option (Int × Int × Bool) :=
  let x' := reduce A B R x
  match A.maximize x'.d1 e, B.maximize x'.d2 e with
  | none, none => none
  | some a, none => some a
  | none, some b => some b
  | some a, some b => if b.2.1 * a.1 ≥ a.2.1 * b.1 then some a else some b

def prodMinimize (R : Policy) (x : Prod A B) (e : LE) : Option (Int × Int × Bool) :=
  let x' := reduce A B R x
  match A.minimize x'.d1 e, B.minimize x'.d2 e with
  | none, none => none
  | some a, none => some a
  | none, some b => some b
  | some a, some b => if b.2.1 * a.1 ≤ a.2.1 * b.1 then some a else some b

end PPLV.Product
