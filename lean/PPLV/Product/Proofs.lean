import PPLV.Product.ProofsMod
import PPLV.Lin.Proofs
import Mathlib.Tactic.FieldSimp

/-!
# C10 — every reduction policy shrinks the components and keeps their intersection
-/
namespace PPLV.Product
open PPLV

/-- `(x', y')` is a reduction of `(x, y)`: both components shrink, no common point is lost -/
structure Red (A B : RDom) (x : A.D) (y : B.D) (x' : A.D) (y' : B.D) : Prop where
  sub1 : ∀ p, A.γ x' p → A.γ x p
  sub2 : ∀ p, B.γ y' p → B.γ y p
  keep : ∀ p, A.γ x p → B.γ y p → (A.γ x' p ∧ B.γ y' p)

variable (A B : RDom)

theorem Red.refl (x : A.D) (y : B.D) : Red A B x y x y :=
  ⟨fun _ h => h, fun _ h => h, fun _ h1 h2 => ⟨h1, h2⟩⟩

theorem Red.trans {x x' x'' : A.D} {y y' y'' : B.D} (h1 : Red A B x y x' y') (h2 : Red A B x' y' x'' y'') :
    Red A B x y x'' y'' :=
  ⟨fun p h => h1.sub1 p (h2.sub1 p h), fun p h => h1.sub2 p (h2.sub2 p h),
   fun p ha hb => let ⟨a, b⟩ := h1.keep p ha hb; h2.keep p a b⟩

theorem Red.swap {x x' : A.D} {y y' : B.D} (h : Red A B x y x' y') : Red B A y x y' x' :=
  ⟨h.sub2, h.sub1, fun p hb ha => let ⟨a, b⟩ := h.keep p ha hb; ⟨b, a⟩⟩

/-- the intersection is unchanged -/
theorem Red.meet_eq {x x' : A.D} {y y' : B.D} (h : Red A B x y x' y') (p : Pt) :
    (A.γ x' p ∧ B.γ y' p) ↔ (A.γ x p ∧ B.γ y p) :=
  ⟨fun ⟨a, b⟩ => ⟨h.sub1 p a, h.sub2 p b⟩, fun ⟨a, b⟩ => h.keep p a b⟩

/-! ### smash -/

theorem smash_red (d1 : A.D) (d2 : B.D) :
    Red A B d1 d2 (smashReduce A B d1 d2).1 (smashReduce A B d1 d2).2 := by
  unfold smashReduce
  cases h2 : B.isBottom d2 with
  | true =>
    have e2 := B.isBottom_sound d2 h2
    cases h1 : A.isBottom d1 with
    | true =>
      simp only [if_true, Bool.not_true, Bool.false_eq_true, if_false]
      exact Red.refl A B d1 d2
    | false =>
      simp only [if_true, Bool.not_false]
      exact ⟨fun p h => absurd h (A.empty_spec p), fun _ h => h, fun p _ hb => absurd hb (e2 p)⟩
  | false =>
    cases h1 : A.isBottom d1 with
    | true =>
      have e1 := A.isBottom_sound d1 h1
      simp only [if_true, if_false, Bool.false_eq_true]
      exact ⟨fun _ h => h, fun p h => absurd h (B.empty_spec p), fun p ha _ => absurd ha (e1 p)⟩
    | false =>
      simp only [if_false, Bool.false_eq_true]
      exact Red.refl A B d1 d2

/-! ### refining with constraints that hold on the other component -/

theorem refineCons_sub (X : RDom) (d : X.D) (cs : List LCon) (p : Pt) :
    X.γ (refineCons X d cs) p → X.γ d p := by
  induction cs generalizing d with
  | nil => exact id
  | cons c cs ih =>
    intro h
    exact X.refineCon_sub d c p (ih (X.refineCon d c) h)

theorem refineCons_keep (X : RDom) (d : X.D) (cs : List LCon) (p : Pt)
    (hp : X.γ d p) (hc : ∀ c ∈ cs, c.sat p) : X.γ (refineCons X d cs) p := by
  induction cs generalizing d with
  | nil => exact hp
  | cons c cs ih =>
    exact ih (X.refineCon d c) (X.refineCon_keep d c p hp (hc c List.mem_cons_self))
      (fun e he => hc e (List.mem_cons_of_mem _ he))

/-- refining the first component with constraints valid on the second is a reduction -/
theorem refine_left_red (d1 : A.D) (d2 : B.D) (cs : List LCon)
    (hcs : ∀ p, A.γ d1 p → B.γ d2 p → ∀ c ∈ cs, c.sat p) : Red A B d1 d2 (refineCons A d1 cs) d2 :=
  ⟨refineCons_sub A d1 cs, fun _ h => h,
   fun p ha hb => ⟨refineCons_keep A d1 cs p ha (hcs p ha hb), hb⟩⟩

theorem refine_right_red (d1 : A.D) (d2 : B.D) (cs : List LCon)
    (hcs : ∀ p, A.γ d1 p → B.γ d2 p → ∀ c ∈ cs, c.sat p) : Red A B d1 d2 d1 (refineCons B d2 cs) :=
  ⟨fun _ h => h, refineCons_sub B d2 cs,
   fun p ha hb => ⟨ha, refineCons_keep B d2 cs p hb (hcs p ha hb)⟩⟩

/-- emptying the second component when the first is (detected) empty -/
theorem empty_right_red (d1 : A.D) (d2 : B.D) (h : A.isBottom d1 = true) : Red A B d1 d2 d1 B.empty :=
  ⟨fun _ h => h, fun p h => absurd h (B.empty_spec p), fun p ha _ => absurd ha (A.isBottom_sound d1 h p)⟩

theorem empty_left_red (d1 : A.D) (d2 : B.D) (h : B.isBottom d2 = true) : Red A B d1 d2 A.empty d2 :=
  ⟨fun p h => absurd h (A.empty_spec p), fun _ h => h, fun p _ hb => absurd hb (B.isBottom_sound d2 h p)⟩

/-! ### constraints reduction -/

theorem constraints_red (d1 : A.D) (d2 : B.D) :
    Red A B d1 d2 (constraintsReduce A B d1 d2).1 (constraintsReduce A B d1 d2).2 := by
  unfold constraintsReduce
  by_cases h0 : (A.isBottom d1 || B.isBottom d2) = true
  · simp only [h0, if_true]; exact smash_red A B d1 d2
  · simp only [h0, if_false, Bool.false_eq_true]
    have r1 : Red A B d1 d2 (refineCons A d1 (B.constraints d2)) d2 :=
      refine_left_red A B d1 d2 _ (fun p _ hb => B.constraints_sound d2 p hb)
    by_cases h1 : A.isBottom (refineCons A d1 (B.constraints d2)) = true
    · simp only [h1, if_true]
      exact r1.trans A B (empty_right_red A B _ d2 h1)
    · simp only [h1, if_false, Bool.false_eq_true]
      have r2 : Red A B (refineCons A d1 (B.constraints d2)) d2 (refineCons A d1 (B.constraints d2))
          (refineCons B d2 (A.constraints (refineCons A d1 (B.constraints d2)))) :=
        refine_right_red A B _ d2 _ (fun p ha _ => A.constraints_sound _ p ha)
      by_cases h2 : B.isBottom (refineCons B d2 (A.constraints (refineCons A d1 (B.constraints d2)))) = true
      · simp only [h2, if_true]
        exact (r1.trans A B r2).trans A B (empty_left_red A B _ _ h2)
      · simp only [h2, if_false, Bool.false_eq_true]
        exact r1.trans A B r2

/-! ### `shrink_to_congruence_no_check` -/

theorem dot_map_mul' (a : Int) (xs : List Int) (x : Pt) :
    Lin.dot (xs.map (a * ·)) x = (a : Rat) * Lin.dot xs x := Lin.dot_map_mul a xs x

/-- **the shrink step is a reduction**, provided `cg` is a proper congruence satisfied by every
    point of the first component -/
theorem shrinkStep_red (X Y : RDom) (d1 : X.D) (d2 : Y.D) (cg : Cg) (hm : 0 < cg.modulus)
    (hcg : ∀ p, X.γ d1 p → cg.sat p) :
    Red X Y d1 d2 (shrinkStep X Y d1 d2 cg).1.1 (shrinkStep X Y d1 d2 cg).1.2 := by
  unfold shrinkStep
  cases hmax : Y.maximize d2 cg.expr with
  | none => exact Red.refl X Y d1 d2
  | some mx =>
    obtain ⟨maxN0, maxD, maxIncl⟩ := mx
    cases hmin : Y.minimize d2 cg.expr with
    | none => exact Red.refl X Y d1 d2
    | some mn =>
      obtain ⟨minN0, minD, minIncl⟩ := mn
      simp only
      obtain ⟨hmaxD, hmaxS⟩ := Y.maximize_spec d2 cg.expr maxN0 maxD maxIncl hmax
      obtain ⟨hminD, hminS⟩ := Y.minimize_spec d2 cg.expr minN0 minD minIncl hmin
      have hden : 0 < maxD * minD := Int.mul_pos hmaxD hminD
      have hmod : 0 < cg.modulus * (maxD * minD) := Int.mul_pos hm hden
      -- the integer facts about a common point
      have key : ∀ p, X.γ d1 p → Y.γ d2 p → ∃ z : Int,
          cg.expr.eval p * ((maxD * minD : Int) : Rat) = ((z * (cg.modulus * (maxD * minD)) : Int) : Rat) ∧
          z * (cg.modulus * (maxD * minD)) ≤ maxN0 * minD ∧
          (maxIncl = false → z * (cg.modulus * (maxD * minD)) < maxN0 * minD) ∧
          minN0 * maxD ≤ z * (cg.modulus * (maxD * minD)) ∧
          (minIncl = false → minN0 * maxD < z * (cg.modulus * (maxD * minD))) := by
        intro p h1 h2
        obtain ⟨z, hz⟩ := hcg p h1
        obtain ⟨hu, hus⟩ := hmaxS p h2
        obtain ⟨hl, hls⟩ := hminS p h2
        have hmaxDq : (0 : Rat) < (maxD : Rat) := by exact_mod_cast hmaxD
        have hminDq : (0 : Rat) < (minD : Rat) := by exact_mod_cast hminD
        refine ⟨z, ?_, ?_, ?_, ?_, ?_⟩
        · rw [hz]; push_cast; ring
        · have : ((z * (cg.modulus * (maxD * minD)) : Int) : Rat) ≤ ((maxN0 * minD : Int) : Rat) := by
            push_cast
            have : (z : Rat) * ((cg.modulus : Rat) * ((maxD : Rat) * (minD : Rat))) = (cg.expr.eval p * (maxD : Rat)) * (minD : Rat) := by
              rw [hz]; ring
            rw [this]
            exact mul_le_mul_of_nonneg_right hu (le_of_lt hminDq)
          exact_mod_cast this
        · intro hi
          have hlt := hus hi
          have : ((z * (cg.modulus * (maxD * minD)) : Int) : Rat) < ((maxN0 * minD : Int) : Rat) := by
            push_cast
            have : (z : Rat) * ((cg.modulus : Rat) * ((maxD : Rat) * (minD : Rat))) = (cg.expr.eval p * (maxD : Rat)) * (minD : Rat) := by
              rw [hz]; ring
            rw [this]
            exact mul_lt_mul_of_pos_right hlt hminDq
          exact_mod_cast this
        · have : ((minN0 * maxD : Int) : Rat) ≤ ((z * (cg.modulus * (maxD * minD)) : Int) : Rat) := by
            push_cast
            have : (z : Rat) * ((cg.modulus : Rat) * ((maxD : Rat) * (minD : Rat))) = (cg.expr.eval p * (minD : Rat)) * (maxD : Rat) := by
              rw [hz]; ring
            rw [this]
            exact mul_le_mul_of_nonneg_right hl (le_of_lt hmaxDq)
          exact_mod_cast this
        · intro hi
          have hlt := hls hi
          have : ((minN0 * maxD : Int) : Rat) < ((z * (cg.modulus * (maxD * minD)) : Int) : Rat) := by
            push_cast
            have : (z : Rat) * ((cg.modulus : Rat) * ((maxD : Rat) * (minD : Rat))) = (cg.expr.eval p * (minD : Rat)) * (maxD : Rat) := by
              rw [hz]; ring
            rw [this]
            exact mul_lt_mul_of_pos_right hlt hmaxDq
          exact_mod_cast this
      split
      · -- the range is narrow enough
        split
        · -- exactly one hyperplane
          rename_i heq
          have heq' : maxN0 * minD - shrinkMax (maxN0 * minD) (cg.modulus * (maxD * minD)) maxIncl
              = minN0 * maxD - shrinkMin (minN0 * maxD) (cg.modulus * (maxD * minD)) minIncl := by
            simpa using heq
          refine ⟨X.refineCon_sub d1 _, Y.refineCon_sub d2 _, fun p h1 h2 => ?_⟩
          obtain ⟨z, hE, hu, hus, hl, hls⟩ := key p h1 h2
          have hfl := shrinkMax_floor _ _ z maxIncl hmod hu hus
          have hce := shrinkMin_ceil _ _ z minIncl hmod hl hls
          have hzeq : z * (cg.modulus * (maxD * minD)) = minN0 * maxD - shrinkMin (minN0 * maxD) (cg.modulus * (maxD * minD)) minIncl := by
            apply le_antisymm
            · rw [← heq']; exact hfl
            · exact hce
          have hsat : LCon.sat ⟨cg.coeffs.map ((maxD * minD) * ·),
              (maxD * minD) * cg.k - (minN0 * maxD - shrinkMin (minN0 * maxD) (cg.modulus * (maxD * minD)) minIncl), .eq⟩ p := by
            simp only [LCon.sat, LCon.eval, dot_map_mul']
            have hE' : cg.expr.eval p * ((maxD * minD : Int) : Rat) =
                ((minN0 * maxD - shrinkMin (minN0 * maxD) (cg.modulus * (maxD * minD)) minIncl : Int) : Rat) := by
              rw [hE, hzeq]
            simp only [Cg.expr, LE.eval] at hE'
            push_cast at hE' ⊢
            linarith
          exact ⟨X.refineCon_keep d1 _ p h1 hsat, Y.refineCon_keep d2 _ p h2 hsat⟩
        · split
          · -- no hyperplane: the product is empty
            rename_i hlt
            refine ⟨fun p h => absurd h (X.empty_spec p), fun p h => absurd h (Y.empty_spec p), fun p h1 h2 => ?_⟩
            exfalso
            obtain ⟨z, _, hu, hus, hl, hls⟩ := key p h1 h2
            have hfl := shrinkMax_floor _ _ z maxIncl hmod hu hus
            have hce := shrinkMin_ceil _ _ z minIncl hmod hl hls
            have : maxN0 * minD - shrinkMax (maxN0 * minD) (cg.modulus * (maxD * minD)) maxIncl
                < minN0 * maxD - shrinkMin (minN0 * maxD) (cg.modulus * (maxD * minD)) minIncl := hlt
            linarith
          · exact Red.refl X Y d1 d2
      · exact Red.refl X Y d1 d2

/-! ### congruences reduction -/

theorem cgLoop_red (X Y : RDom) (cgs : List Cg) (d1 : X.D) (d2 : Y.D)
    (hnn : ∀ c ∈ cgs, 0 ≤ c.modulus) (hcg : ∀ c ∈ cgs, ∀ p, X.γ d1 p → c.sat p) :
    Red X Y d1 d2 (cgLoop X Y cgs d1 d2).1.1 (cgLoop X Y cgs d1 d2).1.2 := by
  induction cgs generalizing d1 d2 with
  | nil => exact Red.refl X Y d1 d2
  | cons cg rest ih =>
    have hnn' : ∀ c ∈ rest, 0 ≤ c.modulus := fun c hc => hnn c (List.mem_cons_of_mem _ hc)
    have hcg' : ∀ c ∈ rest, ∀ p, X.γ d1 p → c.sat p := fun c hc => hcg c (List.mem_cons_of_mem _ hc)
    have hcg0 := hcg cg List.mem_cons_self
    unfold cgLoop
    by_cases hz : (cg.modulus == 0) = true
    · simp only [hz, if_true]
      have r1 : Red X Y d1 d2 d1 (Y.refineCg d2 cg) :=
        ⟨fun _ h => h, Y.refineCg_sub d2 cg, fun p h1 h2 => ⟨h1, Y.refineCg_keep d2 cg p h2 (hcg0 p h1)⟩⟩
      exact r1.trans X Y (ih d1 (Y.refineCg d2 cg) hnn' hcg')
    · simp only [hz, if_false, Bool.false_eq_true]
      have hpos : 0 < cg.modulus := by
        have h0 := hnn cg List.mem_cons_self
        have hne : cg.modulus ≠ 0 := by simpa using hz
        exact lt_of_le_of_ne h0 (Ne.symm hne)
      have r1 := shrinkStep_red X Y d1 d2 cg hpos hcg0
      cases hb : (shrinkStep X Y d1 d2 cg).2 with
      | true =>
        simp only [Bool.not_true, Bool.false_eq_true, if_false]
        refine r1.trans X Y (ih _ _ hnn' ?_)
        intro c hc p hp
        exact hcg' c hc p (r1.sub1 p hp)
      | false =>
        simp only [Bool.not_false, if_true]
        exact r1

theorem congruences_red (d1 : A.D) (d2 : B.D) :
    Red A B d1 d2 (congruencesReduce A B d1 d2).1 (congruencesReduce A B d1 d2).2 := by
  unfold congruencesReduce
  by_cases h0 : (A.isBottom d1 || B.isBottom d2) = true
  · simp only [h0, if_true]; exact smash_red A B d1 d2
  · simp only [h0, if_false, Bool.false_eq_true]
    have r1 := cgLoop_red A B (A.congruences d1) d1 d2 (A.congruences_nonneg d1)
      (fun c hc p hp => A.congruences_sound d1 p hp c hc)
    cases hb : (cgLoop A B (A.congruences d1) d1 d2).2 with
    | true =>
      simp only [Bool.not_true, Bool.false_eq_true, if_false]
      have r2 := cgLoop_red B A (B.congruences (cgLoop A B (A.congruences d1) d1 d2).1.2)
        (cgLoop A B (A.congruences d1) d1 d2).1.2 (cgLoop A B (A.congruences d1) d1 d2).1.1
        (B.congruences_nonneg _) (fun c hc p hp => B.congruences_sound _ p hp c hc)
      exact r1.trans A B (Red.swap B A r2)
    | false =>
      simp only [Bool.not_false, if_true]
      exact r1

/-! ### shape-preserving reduction -/

/-- every tightened constraint holds on the common points -/
theorem freqRefine_sound (X : RDom) (d : X.D) (cs : List LCon) (p : Pt)
    (hd : X.γ d p) (hcs : ∀ c ∈ cs, c.sat p) : ∀ c' ∈ freqRefine X d cs, c'.sat p := by
  intro c' hc'
  unfold freqRefine at hc'
  obtain ⟨c, hc, hf⟩ := List.mem_filterMap.mp hc'
  by_cases hrel : c.rel = .eq
  · simp [hrel] at hf
  · simp only [hrel, if_false] at hf
    cases hfr : X.frequency d c.expr with
    | none => simp [hfr] at hf
    | some q =>
      obtain ⟨fn, fd, vn, vd⟩ := q
      simp only [hfr] at hf
      by_cases hv0 : vn = 0
      · simp [hv0] at hf
      · simp only [hv0, if_false, Option.some.injEq] at hf
        obtain ⟨hfd, hvd, hfn, hsmall, hall⟩ := X.frequency_spec d c.expr fn fd vn vd hfr
        obtain ⟨z, hz⟩ := hall p hd
        -- `c` is `le ≥ 0` or `le > 0`
        have hge : 0 ≤ c.expr.eval p := by
          have := hcs c hc
          unfold LCon.sat at this
          cases hr : c.rel with
          | eq => exact absurd hr hrel
          | ge => simp only [hr] at this; exact this
          | gt => simp only [hr] at this; exact le_of_lt this
        have hfdq : (0 : Rat) < (fd : Rat) := by exact_mod_cast hfd
        have hvdq : (0 : Rat) < (vd : Rat) := by exact_mod_cast hvd
        have hfnq : (0 : Rat) ≤ (fn : Rat) := by exact_mod_cast hfn
        have hEv : c.expr.eval p = Lin.dot c.coeffs p + (c.k : Rat) := rfl
        subst hf
        simp only [LCon.sat, LCon.eval, dot_map_mul']
        by_cases hneg : vn < 0
        · -- val + freq
          simp only [hneg, if_true]
          push_cast
          -- goal: 0 ≤ vd*fd*dot + (vd*fd*k - (vn*fd + vd*fn))
          have goal' : (vn : Rat) * (fd : Rat) + (vd : Rat) * (fn : Rat) ≤ c.expr.eval p * ((vd : Rat) * (fd : Rat)) := by
            rw [hz]
            rcases hsmall with h0 | ⟨hlo, hhi⟩
            · have : (fn : Rat) = 0 := by exact_mod_cast h0
              rw [this]; simp
            · -- z ≥ 1
              have hloq : -((fn : Rat) * (vd : Rat)) < (vn : Rat) * (fd : Rat) := by exact_mod_cast hlo
              have hz1 : 1 ≤ z := by
                by_contra hc
                push Not at hc
                have hz0 : z ≤ 0 := by omega
                have hzq : (z : Rat) ≤ 0 := by exact_mod_cast hz0
                have hvnq : (vn : Rat) < 0 := by exact_mod_cast hneg
                have hpos : 0 ≤ c.expr.eval p * ((vd : Rat) * (fd : Rat)) :=
                  mul_nonneg hge (le_of_lt (mul_pos hvdq hfdq))
                rw [hz] at hpos
                have : (z : Rat) * ((fn : Rat) * (vd : Rat)) ≤ 0 :=
                  mul_nonpos_of_nonpos_of_nonneg hzq (mul_nonneg hfnq (le_of_lt hvdq))
                have : (vn : Rat) * (fd : Rat) < 0 := mul_neg_of_neg_of_pos hvnq hfdq
                linarith
              have hzq : (1 : Rat) ≤ (z : Rat) := by exact_mod_cast hz1
              have : (fn : Rat) * (vd : Rat) ≤ (z : Rat) * ((fn : Rat) * (vd : Rat)) := by
                have := mul_le_mul_of_nonneg_right hzq (mul_nonneg hfnq (le_of_lt hvdq))
                linarith
              linarith
          rw [hEv] at goal'
          linarith
        · simp only [hneg, if_false]
          have hpos : 0 < vn := lt_of_le_of_ne (not_lt.mp hneg) (Ne.symm hv0)
          have hvnq : (0 : Rat) < (vn : Rat) := by exact_mod_cast hpos
          push_cast
          have goal' : (vn : Rat) * (fd : Rat) ≤ c.expr.eval p * ((vd : Rat) * (fd : Rat)) := by
            rw [hz]
            rcases hsmall with h0 | ⟨hlo, hhi⟩
            · have : (fn : Rat) = 0 := by exact_mod_cast h0
              rw [this]; simp
            · have hhiq : (vn : Rat) * (fd : Rat) < (fn : Rat) * (vd : Rat) := by exact_mod_cast hhi
              have hz0 : 0 ≤ z := by
                by_contra hc
                push Not at hc
                have hz1 : z ≤ -1 := by omega
                have hzq : (z : Rat) ≤ -1 := by exact_mod_cast hz1
                have hposE : 0 ≤ c.expr.eval p * ((vd : Rat) * (fd : Rat)) :=
                  mul_nonneg hge (le_of_lt (mul_pos hvdq hfdq))
                rw [hz] at hposE
                have : (z : Rat) * ((fn : Rat) * (vd : Rat)) ≤ -((fn : Rat) * (vd : Rat)) := by
                  have := mul_le_mul_of_nonneg_right hzq (mul_nonneg hfnq (le_of_lt hvdq))
                  linarith
                linarith
              have hzq : (0 : Rat) ≤ (z : Rat) := by exact_mod_cast hz0
              have : 0 ≤ (z : Rat) * ((fn : Rat) * (vd : Rat)) :=
                mul_nonneg hzq (mul_nonneg hfnq (le_of_lt hvdq))
              linarith
          rw [hEv] at goal'
          -- divide by fd > 0
          have : (vn : Rat) ≤ (Lin.dot c.coeffs p + (c.k : Rat)) * (vd : Rat) := by
            have h' : (vn : Rat) * (fd : Rat) ≤ ((Lin.dot c.coeffs p + (c.k : Rat)) * (vd : Rat)) * (fd : Rat) := by
              linarith
            exact le_of_mul_le_mul_right h' hfdq
          linarith

theorem shape_red (d1 : A.D) (d2 : B.D) :
    Red A B d1 d2 (shapeReduce A B d1 d2).1 (shapeReduce A B d1 d2).2 := by
  unfold shapeReduce
  have r0 := congruences_red A B d1 d2
  simp only
  by_cases h1 : A.isBottom (congruencesReduce A B d1 d2).1 = true
  · simp only [h1, if_true]; exact r0
  · simp only [h1, if_false, Bool.false_eq_true]
    generalize (congruencesReduce A B d1 d2).1 = e1 at r0 ⊢
    generalize (congruencesReduce A B d1 d2).2 = e2 at r0 ⊢
    have r1 : Red A B e1 e2 e1 (refineCons B e2 (freqRefine A e1 (B.constraints e2))) :=
      refine_right_red A B e1 e2 _ (fun p ha hb =>
        freqRefine_sound A e1 (B.constraints e2) p ha (B.constraints_sound e2 p hb))
    have r2 : Red A B e1 (refineCons B e2 (freqRefine A e1 (B.constraints e2)))
        (refineCons A e1 (freqRefine B (refineCons B e2 (freqRefine A e1 (B.constraints e2))) (A.constraints e1)))
        (refineCons B e2 (freqRefine A e1 (B.constraints e2))) :=
      refine_left_red A B e1 _ _ (fun p ha hb =>
        freqRefine_sound B _ (A.constraints e1) p hb (A.constraints_sound e1 p ha))
    exact ((r0.trans A B r1).trans A B r2).trans A B (constraints_red A B _ _)

/-- **every policy**: the components shrink and the intersection is unchanged -/
theorem productReduce_red (R : Policy) (d1 : A.D) (d2 : B.D) :
    Red A B d1 d2 (productReduce A B R d1 d2).1 (productReduce A B R d1 d2).2 := by
  cases R with
  | none => exact Red.refl A B d1 d2
  | smash => exact smash_red A B d1 d2
  | constraints => exact constraints_red A B d1 d2
  | congruences => exact congruences_red A B d1 d2
  | shape => exact shape_red A B d1 d2

/-- the lazy `reduce()` — whatever the flag says -/
theorem reduce_red (R : Policy) (x : Prod A B) :
    Red A B x.d1 x.d2 (reduce A B R x).d1 (reduce A B R x).d2 := by
  unfold reduce
  by_cases h : x.reduced = true
  · simp only [h, if_true]; exact Red.refl A B _ _
  · simp only [h, if_false, Bool.false_eq_true]; exact productReduce_red A B R x.d1 x.d2

/-! ### transformers and predicates -/

/-- component-wise transformers: the image of the intersection is contained in the intersection
    of the images -/
theorem mapBoth_sound (f1 : A.D → A.D) (f2 : B.D → B.D) (Rel : Pt → Pt → Prop)
    (h1 : ∀ a p q, A.γ a p → Rel p q → A.γ (f1 a) q) (h2 : ∀ b p q, B.γ b p → Rel p q → B.γ (f2 b) q)
    (x : Prod A B) (p q : Pt) (hp : A.γ x.d1 p ∧ B.γ x.d2 p) (hr : Rel p q) :
    A.γ (mapBoth A B f1 f2 x).d1 q ∧ B.γ (mapBoth A B f1 f2 x).d2 q :=
  ⟨h1 _ p q hp.1 hr, h2 _ p q hp.2 hr⟩

theorem mapBothReduced_sound (R : Policy) (f1 : A.D → A.D) (f2 : B.D → B.D) (Rel : Pt → Pt → Prop)
    (h1 : ∀ a p q, A.γ a p → Rel p q → A.γ (f1 a) q) (h2 : ∀ b p q, B.γ b p → Rel p q → B.γ (f2 b) q)
    (x : Prod A B) (p q : Pt) (hp : A.γ x.d1 p ∧ B.γ x.d2 p) (hr : Rel p q) :
    A.γ (mapBothReduced A B R f1 f2 x).d1 q ∧ B.γ (mapBothReduced A B R f1 f2 x).d2 q := by
  obtain ⟨a, b⟩ := (reduce_red A B R x).keep p hp.1 hp.2
  exact ⟨h1 _ p q a hr, h2 _ p q b hr⟩

/-- `is_empty()` answers `true` only for an empty intersection -/
theorem isEmpty_sound (R : Policy) (x : Prod A B) (h : isEmpty A B R x = true) (p : Pt) :
    ¬ (A.γ x.d1 p ∧ B.γ x.d2 p) := by
  rintro ⟨h1, h2⟩
  obtain ⟨a, b⟩ := (reduce_red A B R x).keep p h1 h2
  unfold isEmpty at h
  simp only [Bool.or_eq_true] at h
  rcases h with h | h
  · exact A.isBottom_sound _ h p a
  · exact B.isBottom_sound _ h p b

/-- `contains(y)` answers `true` only if the intersection of `y` lies in that of `x` -/
theorem contains_sound (R : Policy) (c1 : A.D → A.D → Bool) (c2 : B.D → B.D → Bool)
    (hc1 : ∀ a b, c1 a b = true → ∀ p, A.γ b p → A.γ a p) (hc2 : ∀ a b, c2 a b = true → ∀ p, B.γ b p → B.γ a p)
    (x y : Prod A B) (h : contains A B R c1 c2 x y = true) (p : Pt) :
    (A.γ y.d1 p ∧ B.γ y.d2 p) → (A.γ x.d1 p ∧ B.γ x.d2 p) := by
  rintro ⟨h1, h2⟩
  obtain ⟨a, b⟩ := (reduce_red A B R y).keep p h1 h2
  unfold contains at h
  simp only [Bool.and_eq_true] at h
  exact ⟨(reduce_red A B R x).sub1 p (hc1 _ _ h.1 p a), (reduce_red A B R x).sub2 p (hc2 _ _ h.2 p b)⟩

/-- predicates of the form "some component has the (downward closed) property `P`"
    (`is_bounded`, `bounds_from_above`, `is_disjoint_from`, inclusion in a constraint …) are true
    of the intersection -/
theorem anyComponent_sound (R : Policy) (q1 : A.D → Bool) (q2 : B.D → Bool) (P : (Pt → Prop) → Prop)
    (hP : ∀ S T : Pt → Prop, (∀ p, S p → T p) → P T → P S)
    (h1 : ∀ a, q1 a = true → P (A.γ a)) (h2 : ∀ b, q2 b = true → P (B.γ b))
    (x : Prod A B) (h : anyComponent A B R q1 q2 x = true) :
    P (fun p => A.γ x.d1 p ∧ B.γ x.d2 p) := by
  have r := reduce_red A B R x
  unfold anyComponent at h
  simp only [Bool.or_eq_true] at h
  rcases h with h | h
  · exact hP _ _ (fun p hp => (r.keep p hp.1 hp.2).1) (h1 _ h)
  · exact hP _ _ (fun p hp => (r.keep p hp.1 hp.2).2) (h2 _ h)

/-! ### `relation_with`, `maximize`, `minimize` -/

/-- every fact reported by `relation_with(c)` is true of the intersection, provided the component
    answers are sound (`sat` = the point set of the constraint / congruence, `hyp` = its hyperplane) -/
theorem relationWith_sound (R : Policy) (q1 : A.D → Rel3) (q2 : B.D → Rel3) (sat hyp : Pt → Prop)
    (h1 : ∀ a, ((q1 a).included = true → ∀ p, A.γ a p → sat p) ∧ ((q1 a).disjoint = true → ∀ p, A.γ a p → ¬ sat p) ∧
               ((q1 a).saturates = true → ∀ p, A.γ a p → hyp p))
    (h2 : ∀ b, ((q2 b).included = true → ∀ p, B.γ b p → sat p) ∧ ((q2 b).disjoint = true → ∀ p, B.γ b p → ¬ sat p) ∧
               ((q2 b).saturates = true → ∀ p, B.γ b p → hyp p))
    (x : Prod A B) (p : Pt) (hp : A.γ x.d1 p ∧ B.γ x.d2 p) :
    ((relationWith A B R q1 q2 x).included = true → sat p) ∧
    ((relationWith A B R q1 q2 x).disjoint = true → ¬ sat p) ∧
    ((relationWith A B R q1 q2 x).saturates = true → hyp p) := by
  obtain ⟨a, b⟩ := (reduce_red A B R x).keep p hp.1 hp.2
  unfold relationWith relCombine
  simp only [Bool.or_eq_true]
  refine ⟨?_, ?_, ?_⟩
  · rintro (h | h)
    · exact (h1 _).1 h p a
    · exact (h2 _).1 h p b
  · rintro (h | h)
    · exact (h1 _).2.1 h p a
    · exact (h2 _).2.1 h p b
  · rintro (h | h)
    · exact (h1 _).2.2 h p a
    · exact (h2 _).2.2 h p b

/-- the value reported by `maximize` is an upper bound of the expression on the intersection
    (whichever component it is taken from) -/
theorem prodMaximize_sound (R : Policy) (x : Prod A B) (e : LE) (n dn : Int) (incl : Bool)
    (h : prodMaximize A B R x e = some (n, dn, incl)) (p : Pt) (hp : A.γ x.d1 p ∧ B.γ x.d2 p) :
    0 < dn ∧ e.eval p * (dn : Rat) ≤ (n : Rat) := by
  obtain ⟨a, b⟩ := (reduce_red A B R x).keep p hp.1 hp.2
  unfold prodMaximize at h
  simp only at h
  have fromA : ∀ r, A.maximize (reduce A B R x).d1 e = some r → r = (n, dn, incl) → 0 < dn ∧ e.eval p * (dn : Rat) ≤ (n : Rat) := by
    intro r hr he; subst he
    obtain ⟨h0, hs⟩ := A.maximize_spec _ e n dn incl hr
    exact ⟨h0, (hs p a).1⟩
  have fromB : ∀ r, B.maximize (reduce A B R x).d2 e = some r → r = (n, dn, incl) → 0 < dn ∧ e.eval p * (dn : Rat) ≤ (n : Rat) := by
    intro r hr he; subst he
    obtain ⟨h0, hs⟩ := B.maximize_spec _ e n dn incl hr
    exact ⟨h0, (hs p b).1⟩
  cases hA : A.maximize (reduce A B R x).d1 e with
  | none =>
    cases hB : B.maximize (reduce A B R x).d2 e with
    | none => simp [hA, hB] at h
    | some rb => simp only [hA, hB, Option.some.injEq] at h; exact fromB rb hB h
  | some ra =>
    cases hB : B.maximize (reduce A B R x).d2 e with
    | none => simp only [hA, hB, Option.some.injEq] at h; exact fromA ra hA h
    | some rb =>
      simp only [hA, hB] at h
      split at h
      · simp only [Option.some.injEq] at h; exact fromA ra hA h
      · simp only [Option.some.injEq] at h; exact fromB rb hB h

theorem prodMinimize_sound (R : Policy) (x : Prod A B) (e : LE) (n dn : Int) (incl : Bool)
    (h : prodMinimize A B R x e = some (n, dn, incl)) (p : Pt) (hp : A.γ x.d1 p ∧ B.γ x.d2 p) :
    0 < dn ∧ (n : Rat) ≤ e.eval p * (dn : Rat) := by
  obtain ⟨a, b⟩ := (reduce_red A B R x).keep p hp.1 hp.2
  unfold prodMinimize at h
  simp only at h
  have fromA : ∀ r, A.minimize (reduce A B R x).d1 e = some r → r = (n, dn, incl) → 0 < dn ∧ (n : Rat) ≤ e.eval p * (dn : Rat) := by
    intro r hr he; subst he
    obtain ⟨h0, hs⟩ := A.minimize_spec _ e n dn incl hr
    exact ⟨h0, (hs p a).1⟩
  have fromB : ∀ r, B.minimize (reduce A B R x).d2 e = some r → r = (n, dn, incl) → 0 < dn ∧ (n : Rat) ≤ e.eval p * (dn : Rat) := by
    intro r hr he; subst he
    obtain ⟨h0, hs⟩ := B.minimize_spec _ e n dn incl hr
    exact ⟨h0, (hs p b).1⟩
  cases hA : A.minimize (reduce A B R x).d1 e with
  | none =>
    cases hB : B.minimize (reduce A B R x).d2 e with
    | none => simp [hA, hB] at h
    | some rb => simp only [hA, hB, Option.some.injEq] at h; exact fromB rb hB h
  | some ra =>
    cases hB : B.minimize (reduce A B R x).d2 e with
    | none => simp only [hA, hB, Option.some.injEq] at h; exact fromA ra hA h
    | some rb =>
      simp only [hA, hB] at h
      split at h
      · simp only [Option.some.injEq] at h; exact fromA ra hA h
      · simp only [Option.some.injEq] at h; exact fromB rb hB h

end PPLV.Product
