import PPLV.Watchdog.ProofsClock8

/-! Statement-level invariant for runs in which time may pass ANYWHERE (also between the
statements of a critical section) but no timer expiry lands inside a critical section (no signal
is deferred): the reconstructed clock never runs ahead of real time, so no action runs early. -/
namespace PPLV.Watchdog

/-- pc-independent part -/
structure Base (σ : St) : Prop where
  noErr : σ.err = false
  cfg : σ.reschedBug = false
  normT : σ.tsf.Norm
  normL : σ.ltr.Norm
  normP : AllNorm σ.pending
  sorted : Sorted σ.pending
  remNonneg : 0 ≤ σ.remaining
  fired : ∀ id t b cs, Event.fired id t b cs ∈ σ.log → b + cs * 10000 ≤ t

/-- the clock runs, the timer is armed for the first pending deadline, and the reconstructed clock
`time_so_far + last_time_requested - remaining` does not run ahead: for every pending element,
birth + delay + (reconstructed clock) ≤ recorded deadline + real time -/
def Armed (σ : St) : Prop :=
  σ.running = true ∧ 0 ≤ σ.remaining ∧ σ.remaining ≤ σ.ltr.toUs ∧
  (∃ e r, σ.pending = e :: r ∧ e.deadline.toUs = σ.tsf.toUs + σ.ltr.toUs) ∧
  ∀ e ∈ σ.pending, e.gBirth + e.gCs * 10000 + (σ.tsf.toUs + σ.ltr.toUs - σ.remaining) ≤ e.deadline.toUs + σ.now

def Stopped (σ : St) : Prop := σ.running = false ∧ σ.remaining = 0 ∧ σ.pending = []

def Stable (σ : St) : Prop := Armed σ ∨ Stopped σ

/-- inside `set_timer`, before `setitimer`: once the call is made (and `pend` is the pending list)
the state is `Armed` -/
def PreArmed (σ : St) (pend : List Ev) : Prop :=
  σ.running = true ∧ σ.sigOnce = σ.ltr ∧ 0 < σ.ltr.toUs ∧
  (∃ e r, pend = e :: r ∧ e.deadline.toUs = σ.tsf.toUs + σ.ltr.toUs) ∧
  ∀ e ∈ pend, e.gBirth + e.gCs * 10000 + σ.tsf.toUs ≤ e.deadline.toUs + σ.now

def PcInvAt (σ : St) (pc : PC) : Prop :=
  match pc with
  | .idle => σ.inCrit = false ∧ Stable σ
  | .d1 _ => σ.inCrit = false ∧ Stable σ
  | .a1 _ cs b d => σ.inCrit = true ∧ Stopped σ ∧ d = Time.ofCs cs ∧ 0 < cs ∧ b ≤ σ.now
  | .a2 id => σ.inCrit = true ∧ σ.running = false ∧ σ.remaining = 0 ∧ σ.tsf = Time.zero ∧ σ.sigOnce = σ.ltr ∧
      ∃ b cs, σ.pending = [⟨σ.ltr, id, b, cs⟩] ∧ σ.ltr = Time.ofCs cs ∧ 0 < cs ∧ b ≤ σ.now
  | .b1 _ cs b d => σ.inCrit = true ∧ Armed σ ∧ d = Time.ofCs cs ∧ 0 < cs ∧ b ≤ σ.now
  | .b2 _ cs b d tts => σ.inCrit = true ∧ Armed σ ∧ d = Time.ofCs cs ∧ 0 < cs ∧ tts.Norm ∧
      σ.remaining ≤ tts.toUs ∧ tts.toUs ≤ σ.ltr.toUs ∧ b + tts.toUs ≤ σ.now + σ.remaining
  | .b3 _ => σ.inCrit = true ∧ PreArmed σ σ.pending
  | .cEnd _ => σ.inCrit = true ∧ Stable σ
  | .r1 id f n => σ.inCrit = true ∧ Armed σ ∧ ∃ e n' rest, σ.pending = e :: n' :: rest ∧ e.id = id ∧
      f = e.deadline ∧ n = n'.deadline ∧ f.toUs < n.toUs
  | .r2 id f n tts => σ.inCrit = true ∧ Armed σ ∧ (∃ e n' rest, σ.pending = e :: n' :: rest ∧ e.id = id ∧
      f = e.deadline ∧ n = n'.deadline ∧ f.toUs < n.toUs) ∧ tts.Norm ∧ σ.remaining ≤ tts.toUs ∧ tts.toUs ≤ σ.ltr.toUs
  | .r3 id => σ.inCrit = true ∧ ∃ e rest, σ.pending = e :: rest ∧ e.id = id ∧ PreArmed σ rest
  | .s1 id => σ.inCrit = true ∧ Armed σ ∧ ∃ e, σ.pending = [e] ∧ e.id = id
  | .s2 id => σ.inCrit = true ∧ Armed σ ∧ (∃ e, σ.pending = [e] ∧ e.id = id) ∧ σ.sigOnce = Time.zero
  | .dEnd _ => σ.inCrit = true ∧ Stable σ
  | .l2 _ => σ.inCrit = false ∧ Stable σ
  | .l3 _ tts => σ.inCrit = false ∧ Stable σ ∧ (tts.isZero = true → σ.remaining = 0)
  | .l4 _ => σ.inCrit = false ∧ σ.remaining = 0 ∧ PreArmed σ σ.pending
  | .l5 _ => σ.inCrit = false ∧ Stable σ

def PcInv (σ : St) : Prop := PcInvAt σ σ.pc

structure LagInv (σ : St) : Prop where
  base : Base σ
  pcInv : PcInv σ

theorem pcInv_of {σ : St} {pc : PC} (h : σ.pc = pc) : PcInv σ ↔ PcInvAt σ pc := by
  unfold PcInv; rw [h]

theorem lag_init : LagInv {} := by
  refine ⟨⟨rfl, rfl, Time.norm_zero, Time.norm_zero, ?_, ?_, Int.le_refl 0, ?_⟩, ?_⟩
  · intro e he; simp at he
  · simp [Sorted]
  · intro id t b cs hh; simp at hh
  · show PcInvAt {} PC.idle
    exact ⟨rfl, Or.inr ⟨rfl, rfl, rfl⟩⟩

/-- outside a critical section, with the timer armed: the state is `Stable`, and the pc assertion
survives any change that keeps pc, stays outside the critical section and ends `Stable` -/
theorem pcInv_async {σ : St} (h : PcInv σ) (hc : σ.inCrit = false) (hr : 0 < σ.remaining) :
    Stable σ ∧ ∀ σ' : St, σ'.pc = σ.pc → σ'.inCrit = false → Stable σ' → PcInv σ' := by
  unfold PcInv at h
  cases hpc : σ.pc <;> rw [hpc] at h <;> simp only [PcInvAt] at h
  case idle => exact ⟨h.2, fun σ' h1 h2 h3 => by unfold PcInv; rw [h1]; exact ⟨h2, h3⟩⟩
  case d1 => exact ⟨h.2, fun σ' h1 h2 h3 => by unfold PcInv; rw [h1]; exact ⟨h2, h3⟩⟩
  case l2 => exact ⟨h.2, fun σ' h1 h2 h3 => by unfold PcInv; rw [h1]; exact ⟨h2, h3⟩⟩
  case l5 => exact ⟨h.2, fun σ' h1 h2 h3 => by unfold PcInv; rw [h1]; exact ⟨h2, h3⟩⟩
  case l3 fin tts =>
    have hnz : tts.isZero = false := by
      cases hz : tts.isZero
      · rfl
      · have := h.2.2 hz; omega
    exact ⟨h.2.1, fun σ' h1 h2 h3 => by
      unfold PcInv; rw [h1]; exact ⟨h2, h3, fun hz => by rw [hnz] at hz; exact absurd hz (by simp)⟩⟩
  case l4 => have := h.2.1; omega
  all_goals (have := h.1; rw [hc] at this; exact absurd this (by simp))

/-! ### time passes without the timer expiring -/

theorem Armed.advance {σ σ' : St} (h : Armed σ) (d : Int) (hd : 0 ≤ d)
    (hcase : (d ≤ σ.remaining ∧ σ'.remaining = σ.remaining - d) ∨
             (σ.remaining = 0 ∧ σ'.remaining = σ.remaining))
    (hnow : σ'.now = σ.now + d)
    (hpend : σ'.pending = σ.pending) (htsf : σ'.tsf = σ.tsf) (hltr : σ'.ltr = σ.ltr)
    (hrun : σ'.running = σ.running) : Armed σ' := by
  obtain ⟨a1, a2, a3, a4, a5⟩ := h
  unfold Armed
  rw [hrun, hltr, htsf, hpend, hnow]
  refine ⟨a1, by rcases hcase with ⟨c1, c2⟩ | ⟨c1, c2⟩ <;> omega,
    by rcases hcase with ⟨c1, c2⟩ | ⟨c1, c2⟩ <;> omega, a4, ?_⟩
  intro e he
  have := a5 e he
  rcases hcase with ⟨c1, c2⟩ | ⟨c1, c2⟩ <;> omega

theorem PreArmed.advance {σ σ' : St} {pend : List Ev} (h : PreArmed σ pend) (d : Int) (hd : 0 ≤ d)
    (hnow : σ'.now = σ.now + d) (htsf : σ'.tsf = σ.tsf) (hltr : σ'.ltr = σ.ltr)
    (hso : σ'.sigOnce = σ.sigOnce) (hrun : σ'.running = σ.running) : PreArmed σ' pend := by
  obtain ⟨a1, a2, a3, a4, a5⟩ := h
  unfold PreArmed
  rw [hrun, hltr, htsf, hnow, hso]
  refine ⟨a1, a2, a3, a4, ?_⟩
  intro e he
  have := a5 e he
  omega

/-- time passes, the timer (if armed) does not expire: every pc assertion is kept -/
theorem PcInv.advance {σ σ' : St} (h : PcInv σ) (d : Int) (hd : 0 ≤ d)
    (hcase : (d ≤ σ.remaining ∧ σ'.remaining = σ.remaining - d) ∨
             (σ.remaining = 0 ∧ σ'.remaining = σ.remaining))
    (hnow : σ'.now = σ.now + d) (hpend : σ'.pending = σ.pending) (htsf : σ'.tsf = σ.tsf)
    (hltr : σ'.ltr = σ.ltr) (hso : σ'.sigOnce = σ.sigOnce) (hrun : σ'.running = σ.running)
    (hcrit : σ'.inCrit = σ.inCrit) (hpc : σ'.pc = σ.pc) : PcInv σ' := by
  have armed' : Armed σ → Armed σ' := fun ha => ha.advance d hd hcase hnow hpend htsf hltr hrun
  have stopped' : Stopped σ → Stopped σ' := by
    rintro ⟨s1, s2, s3⟩
    refine ⟨by rw [hrun]; exact s1, ?_, by rw [hpend]; exact s3⟩
    rcases hcase with ⟨h1, h2⟩ | ⟨_, h2⟩
    · omega
    · rw [h2]; exact s2
  have stable' : Stable σ → Stable σ' := fun hs => hs.elim (fun x => Or.inl (armed' x)) (fun x => Or.inr (stopped' x))
  have pre' : ∀ pend, PreArmed σ pend → PreArmed σ' pend :=
    fun pend hp => hp.advance d hd hnow htsf hltr hso hrun
  have rem' : σ'.remaining ≤ σ.remaining ∧ σ.now + σ.remaining ≤ σ'.now + σ'.remaining := by
    rcases hcase with ⟨h1, h2⟩ | ⟨h1, h2⟩ <;> omega
  unfold PcInv at h ⊢
  rw [hpc]
  cases hc : σ.pc <;> rw [hc] at h <;> simp only [PcInvAt] at h ⊢ <;> rw [hcrit]
  · exact ⟨h.1, stable' h.2⟩
  · obtain ⟨h1, h2, h3, h4, h5⟩ := h
    exact ⟨h1, stopped' h2, h3, h4, by omega⟩
  · obtain ⟨h1, h2, h3, h4, h5, b, cs, h6, h7, h8, h9⟩ := h
    have hr : σ'.remaining = 0 := by
      rcases hcase with ⟨c1, c2⟩ | ⟨_, c2⟩
      · omega
      · rw [c2]; exact h3
    exact ⟨h1, by rw [hrun]; exact h2, hr, by rw [htsf]; exact h4, by rw [hso, hltr]; exact h5,
      b, cs, by rw [hpend, hltr]; exact h6, by rw [hltr]; exact h7, h8, by omega⟩
  · obtain ⟨h1, h2, h3, h4, h5⟩ := h
    exact ⟨h1, armed' h2, h3, h4, by omega⟩
  · obtain ⟨h1, h2, h3, h4, h5, h6, h7, h8⟩ := h
    exact ⟨h1, armed' h2, h3, h4, h5, by omega, by rw [hltr]; exact h7, by omega⟩
  · exact ⟨h.1, by rw [hpend]; exact pre' _ h.2⟩
  · exact ⟨h.1, stable' h.2⟩
  · exact ⟨h.1, stable' h.2⟩
  · obtain ⟨h1, h2, h3⟩ := h
    exact ⟨h1, armed' h2, by rw [hpend]; exact h3⟩
  · obtain ⟨h1, h2, h3, h4, h5, h6⟩ := h
    exact ⟨h1, armed' h2, by rw [hpend]; exact h3, h4, by omega, by rw [hltr]; exact h6⟩
  · obtain ⟨h1, e, rest, h2, h3, h4⟩ := h
    exact ⟨h1, e, rest, by rw [hpend]; exact h2, h3, pre' _ h4⟩
  · obtain ⟨h1, h2, h3⟩ := h
    exact ⟨h1, armed' h2, by rw [hpend]; exact h3⟩
  · obtain ⟨h1, h2, h3, h4⟩ := h
    exact ⟨h1, armed' h2, by rw [hpend]; exact h3, by rw [hso]; exact h4⟩
  · exact ⟨h.1, stable' h.2⟩
  · exact ⟨h.1, stable' h.2⟩
  · obtain ⟨h1, h2, h3⟩ := h
    refine ⟨h1, stable' h2, fun hz => ?_⟩
    have := h3 hz
    rcases hcase with ⟨c1, c2⟩ | ⟨c1, c2⟩ <;> omega
  · obtain ⟨h1, h2, h3⟩ := h
    refine ⟨h1, ?_, by rw [hpend]; exact pre' _ h3⟩
    rcases hcase with ⟨c1, c2⟩ | ⟨c1, c2⟩ <;> omega
  · exact ⟨h.1, stable' h.2⟩

theorem Base.advance {σ σ' : St} (h : Base σ) (hrem : 0 ≤ σ'.remaining)
    (hpend : σ'.pending = σ.pending) (htsf : σ'.tsf = σ.tsf) (hltr : σ'.ltr = σ.ltr)
    (herr : σ'.err = σ.err) (hlog : σ'.log = σ.log) (hcfg : σ'.reschedBug = σ.reschedBug) : Base σ' := by
  constructor
  · rw [herr]; exact h.noErr
  · rw [hcfg]; exact h.cfg
  · rw [htsf]; exact h.normT
  · rw [hltr]; exact h.normL
  · rw [hpend]; exact h.normP
  · rw [hpend]; exact h.sorted
  · exact hrem
  · rw [hlog]; exact h.fired

end PPLV.Watchdog
