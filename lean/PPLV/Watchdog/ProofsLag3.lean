import PPLV.Watchdog.ProofsLag2

/-! `LagInv` is preserved by the statement groups of the destructor. -/
namespace PPLV.Watchdog

/-- erasing an element that is not the head, or a head whose successor carries the same deadline,
keeps `Armed` -/
theorem Armed.erase {σ σ' : St} (h : Armed σ) (id : Nat)
    (hpend : σ'.pending = eraseId id σ.pending)
    (hhead : ∃ e r, eraseId id σ.pending = e :: r ∧ e.deadline.toUs = σ.tsf.toUs + σ.ltr.toUs)
    (htsf : σ'.tsf = σ.tsf) (hltr : σ'.ltr = σ.ltr) (hrem : σ'.remaining = σ.remaining)
    (hrun : σ'.running = σ.running) (hnow : σ'.now = σ.now) : Armed σ' := by
  obtain ⟨a1, a2, a3, _, a5⟩ := h
  unfold Armed
  rw [hrun, hrem, hltr, htsf, hpend, hnow]
  exact ⟨a1, a2, a3, hhead, fun e he => a5 e (mem_of_mem_eraseId he)⟩

theorem Base.erase {σ σ' : St} (h : Base σ) (id : Nat) (hpend : σ'.pending = eraseId id σ.pending)
    (htsf : σ'.tsf = σ.tsf) (hltr : σ'.ltr = σ.ltr) (hrem : σ'.remaining = σ.remaining)
    (herr : σ'.err = σ.err) (hlog : σ'.log = σ.log) (hcfg : σ'.reschedBug = σ.reschedBug) : Base σ' := by
  constructor
  · rw [herr]; exact h.noErr
  · rw [hcfg]; exact h.cfg
  · rw [htsf]; exact h.normT
  · rw [hltr]; exact h.normL
  · rw [hpend]; intro x hx; exact h.normP x (mem_of_mem_eraseId hx)
  · rw [hpend]; exact sorted_eraseId h.sorted
  · rw [hrem]; exact h.remNonneg
  · rw [hlog]; exact h.fired

theorem lag_step_d1 {σ : St} (h : LagInv σ) (id : Nat) (hpc : σ.pc = .d1 id) :
    LagInv (step false σ) := by
  have hp := (pcInv_of hpc).mp h.pcInv
  simp only [PcInvAt] at hp
  obtain ⟨h1, hst⟩ := hp
  cases hpd : σ.pending with
  | nil =>
    have hstep : step false σ = { σ with
        inCrit := true
        pc := .dEnd id } := by
      unfold step; simp [hpc, hpd]
    rw [hstep]
    refine ⟨⟨h.base.noErr, h.base.cfg, h.base.normT, h.base.normL, h.base.normP, h.base.sorted, h.base.remNonneg, h.base.fired⟩, ?_⟩
    refine (pcInv_of (pc := .dEnd id) rfl).mpr ?_
    simp only [PcInvAt]
    refine ⟨trivial, ?_⟩
    rcases hst with ha | hs
    · exact Or.inl ha
    · exact Or.inr hs
  | cons e rest =>
    have harmed : Armed σ := by
      rcases hst with ha | ⟨_, _, s3⟩
      · exact ha
      · rw [hpd] at s3; exact absurd s3 (by simp)
    obtain ⟨a1, a2, a3, ⟨e0, r0, hp0, hhead0⟩, a5⟩ := harmed
    have he0 : e0 = e ∧ r0 = rest := by
      rw [hpd] at hp0; injection hp0 with x y; exact ⟨x.symm, y.symm⟩
    obtain ⟨he0a, he0b⟩ := he0
    subst he0a he0b
    have eraseCase : ∀ (hd : ∃ x r, eraseId id σ.pending = x :: r ∧ x.deadline.toUs = σ.tsf.toUs + σ.ltr.toUs),
        LagInv { σ with inCrit := true, pending := eraseId id σ.pending, pc := .dEnd id } := by
      intro hd
      refine ⟨h.base.erase id rfl rfl rfl rfl rfl rfl rfl, ?_⟩
      refine (pcInv_of (pc := .dEnd id) rfl).mpr ?_
      simp only [PcInvAt]
      exact ⟨trivial, Or.inl (Armed.erase ⟨a1, a2, a3, ⟨e0, r0, hp0, hhead0⟩, a5⟩ id rfl hd rfl rfl rfl rfl rfl)⟩
    by_cases heid : e0.id = id
    · cases hrest : r0 with
      | nil =>
        have hstep : step false σ = { σ with
        inCrit := true
        pc := .s1 id } := by
          unfold step; simp [hpc, hpd, heid, hrest]
        rw [hstep]
        refine ⟨⟨h.base.noErr, h.base.cfg, h.base.normT, h.base.normL, h.base.normP, h.base.sorted, h.base.remNonneg, h.base.fired⟩, ?_⟩
        refine (pcInv_of (pc := .s1 id) rfl).mpr ?_
        simp only [PcInvAt]
        exact ⟨trivial, ⟨a1, a2, a3, ⟨e0, r0, hp0, hhead0⟩, a5⟩, e0, by rw [hpd, hrest], heid⟩
      | cons n r' =>
        have hen : e0.deadline.Norm := h.base.normP e0 (by rw [hpd]; simp)
        have hnn : n.deadline.Norm := h.base.normP n (by rw [hpd, hrest]; simp)
        have hle : e0.deadline.toUs ≤ n.deadline.toUs := by
          have := h.base.sorted; rw [hpd, hrest] at this
          unfold Sorted at this; rw [List.pairwise_cons] at this
          exact this.1 n (by simp)
        cases hne : Time.ne false e0.deadline n.deadline
        · -- equal deadlines: nothing to re-arm
          have heq : e0.deadline.toUs = n.deadline.toUs := by
            have := Time.ne_false_iff hen hnn
            by_cases hh : e0.deadline.toUs = n.deadline.toUs
            · exact hh
            · have := this.mpr hh; rw [hne] at this; exact absurd this (by simp)
          have hstep : step false σ = { σ with
        inCrit := true
        pending := eraseId id σ.pending
        pc := .dEnd id } := by
            unfold step; simp [hpc, hpd, heid, hrest, hne]
          rw [hstep]
          refine eraseCase ⟨n, r', by rw [hpd, hrest]; simp [eraseId, heid], by omega⟩
        · have hneq : e0.deadline.toUs ≠ n.deadline.toUs := (Time.ne_false_iff hen hnn).mp hne
          have hstep : step false σ = { σ with
        inCrit := true
        pc := .r1 id e0.deadline n.deadline } := by
            unfold step; simp [hpc, hpd, heid, hrest, hne]
          rw [hstep]
          refine ⟨⟨h.base.noErr, h.base.cfg, h.base.normT, h.base.normL, h.base.normP, h.base.sorted, h.base.remNonneg, h.base.fired⟩, ?_⟩
          refine (pcInv_of (pc := .r1 id e0.deadline n.deadline) rfl).mpr ?_
          simp only [PcInvAt]
          exact ⟨trivial, ⟨a1, a2, a3, ⟨e0, r0, hp0, hhead0⟩, a5⟩, e0, n, r', by rw [hpd, hrest], heid, rfl, rfl, by omega⟩
    · have hstep : step false σ = { σ with
        inCrit := true
        pending := eraseId id σ.pending
        pc := .dEnd id } := by
        unfold step; simp [hpc, hpd, heid]
      rw [hstep]
      exact eraseCase ⟨e0, eraseId id r0, by rw [hpd]; simp [eraseId, heid], hhead0⟩

theorem lag_step_r1 {σ : St} (h : LagInv σ) (id : Nat) (f n : Time) (hpc : σ.pc = .r1 id f n) :
    LagInv (step false σ) := by
  have hp := (pcInv_of hpc).mp h.pcInv
  simp only [PcInvAt] at hp
  obtain ⟨h1, ha, h3⟩ := hp
  have hstep : step false σ = { σ with
        log := .getitimer σ.remaining :: σ.log
        pc := .r2 id f n (getTimer σ) } := by
    unfold step; simp [hpc]
  rw [hstep]
  have ttsN : (getTimer σ).Norm := Time.mk2_timer_norm h.base.remNonneg
  have ttsU : (getTimer σ).toUs = σ.remaining := Time.mk2_timer_toUs h.base.remNonneg
  refine ⟨⟨h.base.noErr, h.base.cfg, h.base.normT, h.base.normL, h.base.normP, h.base.sorted, h.base.remNonneg,
    base_fired_cons (by intros; simp) h.base.fired⟩, ?_⟩
  refine (pcInv_of (pc := .r2 id f n (getTimer σ)) rfl).mpr ?_
  simp only [PcInvAt]
  have := ha.2.2.1
  exact ⟨h1, ha, h3, ttsN, by rw [ttsU]; exact Int.le_refl _, by rw [ttsU]; exact this⟩

theorem lag_step_r2 {σ : St} (h : LagInv σ) (id : Nat) (f n tts : Time) (hpc : σ.pc = .r2 id f n tts) :
    LagInv (step false σ) := by
  have hp := (pcInv_of hpc).mp h.pcInv
  simp only [PcInvAt] at hp
  obtain ⟨h1, ⟨a1, a2, a3, ⟨e0, r0, hp0, hhead0⟩, a5⟩, ⟨e, n', rest, hpd, heid, hf, hn, hfn⟩, ttsN, h6, h7⟩ := hp
  have hee : e0 = e := by rw [hpd] at hp0; injection hp0 with x y; exact x.symm
  subst hee
  subst hf hn
  have hen : e0.deadline.Norm := h.base.normP e0 (by rw [hpd]; simp)
  have hnn : n'.deadline.Norm := h.base.normP n' (by rw [hpd]; simp)
  have elN := Time.sub_norm h.base.normL ttsN
  have elU : (σ.ltr.sub tts).toUs = σ.ltr.toUs - tts.toUs := Time.sub_toUs_ge h.base.normL ttsN h7
  have curN := Time.add_norm h.base.normT elN
  have curU : (σ.tsf.add (σ.ltr.sub tts)).toUs = σ.tsf.toUs + σ.ltr.toUs - tts.toUs := by
    rw [Time.add_toUs h.base.normT elN, elU]; omega
  have ndN := Time.sub_norm hnn hen
  have ndU : (n'.deadline.sub e0.deadline).toUs = n'.deadline.toUs - e0.deadline.toUs :=
    Time.sub_toUs_ge hnn hen (by omega)
  have rN : (tts.add (n'.deadline.sub e0.deadline)).Norm := Time.add_norm ttsN ndN
  have rU : (tts.add (n'.deadline.sub e0.deadline)).toUs = tts.toUs + (n'.deadline.toUs - e0.deadline.toUs) := by
    rw [Time.add_toUs ttsN ndN, ndU]
  have hnz : (tts.add (n'.deadline.sub e0.deadline)).isZero = false := by
    cases hz : (tts.add (n'.deadline.sub e0.deadline)).isZero
    · rfl
    · have := (Time.isZero_iff rN).mp hz; omega
  have hstep : step false σ = { σ with
        tsf := σ.tsf.add (σ.ltr.sub tts)
        ltr := tts.add (n'.deadline.sub e0.deadline)
        sigOnce := tts.add (n'.deadline.sub e0.deadline)
        pc := .r3 id } := by
    unfold step; simp [hpc, hnz]
  rw [hstep]
  refine ⟨⟨h.base.noErr, h.base.cfg, curN, rN, h.base.normP, h.base.sorted, h.base.remNonneg, h.base.fired⟩, ?_⟩
  refine (pcInv_of (pc := .r3 id) rfl).mpr ?_
  simp only [PcInvAt]
  refine ⟨h1, e0, n' :: rest, hpd, heid, a1, rfl, ?_, ⟨n', rest, rfl, ?_⟩, ?_⟩
  · show 0 < (tts.add (n'.deadline.sub e0.deadline)).toUs
    omega
  · show n'.deadline.toUs = (σ.tsf.add (σ.ltr.sub tts)).toUs + (tts.add (n'.deadline.sub e0.deadline)).toUs
    omega
  · intro x hx
    have := a5 x (by rw [hpd]; exact List.mem_cons_of_mem _ hx)
    show x.gBirth + x.gCs * 10000 + (σ.tsf.add (σ.ltr.sub tts)).toUs ≤ x.deadline.toUs + σ.now
    omega

theorem lag_step_r3 {σ : St} (h : LagInv σ) (id : Nat) (hpc : σ.pc = .r3 id) :
    LagInv (step false σ) := by
  have hp := (pcInv_of hpc).mp h.pcInv
  simp only [PcInvAt] at hp
  obtain ⟨h1, e, rest, hpd, heid, p1, p2, p3, p4, p5⟩ := hp
  have hok' : σ.sigOnce.timevalOK = true := by rw [p2]; exact Time.timevalOK_of_norm h.base.normL
  have her : eraseId id σ.pending = rest := by rw [hpd]; simp [eraseId, heid]
  have hstep : step false σ = { σ with
        remaining := σ.sigOnce.toUs
        log := .setitimer σ.sigOnce.toUs :: σ.log
        pending := eraseId id σ.pending
        pc := .dEnd id } := by
    unfold step; simp [hpc, hok']
  rw [hstep]
  refine ⟨⟨h.base.noErr, h.base.cfg, h.base.normT, h.base.normL, ?_, ?_, ?_,
    base_fired_cons (by intros; simp) h.base.fired⟩, ?_⟩
  · intro x hx; exact h.base.normP x (mem_of_mem_eraseId hx)
  · exact sorted_eraseId h.base.sorted
  · show 0 ≤ σ.sigOnce.toUs
    rw [p2]; omega
  · refine (pcInv_of (pc := .dEnd id) rfl).mpr ?_
    simp only [PcInvAt]
    refine ⟨h1, Or.inl ⟨p1, ?_, ?_, ?_, ?_⟩⟩
    · show 0 ≤ σ.sigOnce.toUs
      rw [p2]; exact Int.le_of_lt p3
    · show σ.sigOnce.toUs ≤ σ.ltr.toUs
      rw [p2]; exact Int.le_refl _
    · show ∃ x r, eraseId id σ.pending = x :: r ∧ _
      rw [her]; exact p4
    · show ∀ x ∈ eraseId id σ.pending, _
      rw [her]
      intro x hx
      have := p5 x hx
      show x.gBirth + x.gCs * 10000 + (σ.tsf.toUs + σ.ltr.toUs - σ.sigOnce.toUs) ≤ x.deadline.toUs + σ.now
      rw [p2]; omega

theorem lag_step_s1 {σ : St} (h : LagInv σ) (id : Nat) (hpc : σ.pc = .s1 id) :
    LagInv (step false σ) := by
  have hp := (pcInv_of hpc).mp h.pcInv
  simp only [PcInvAt] at hp
  obtain ⟨h1, ha, h3⟩ := hp
  have hstep : step false σ = { σ with
        sigOnce := Time.zero
        pc := .s2 id } := by
    unfold step; simp [hpc]
  rw [hstep]
  refine ⟨⟨h.base.noErr, h.base.cfg, h.base.normT, h.base.normL, h.base.normP, h.base.sorted, h.base.remNonneg, h.base.fired⟩, ?_⟩
  refine (pcInv_of (pc := .s2 id) rfl).mpr ?_
  simp only [PcInvAt]
  exact ⟨h1, ha, h3, trivial⟩

theorem lag_step_s2 {σ : St} (h : LagInv σ) (id : Nat) (hpc : σ.pc = .s2 id) :
    LagInv (step false σ) := by
  have hp := (pcInv_of hpc).mp h.pcInv
  simp only [PcInvAt] at hp
  obtain ⟨h1, ha, ⟨e, hpd, heid⟩, h4⟩ := hp
  have hok' : σ.sigOnce.timevalOK = true := by rw [h4]; decide
  have her : eraseId id σ.pending = [] := by rw [hpd]; simp [eraseId, heid]
  have hstep : step false σ = { σ with
        remaining := σ.sigOnce.toUs
        running := false
        log := .setitimer σ.sigOnce.toUs :: σ.log
        pending := eraseId id σ.pending
        pc := .dEnd id } := by
    unfold step; simp [hpc, hok']
  rw [hstep]
  have hz : σ.sigOnce.toUs = 0 := by rw [h4]; exact Time.toUs_zero
  refine ⟨⟨h.base.noErr, h.base.cfg, h.base.normT, h.base.normL, ?_, ?_, ?_,
    base_fired_cons (by intros; simp) h.base.fired⟩, ?_⟩
  · intro x hx; exact h.base.normP x (mem_of_mem_eraseId hx)
  · exact sorted_eraseId h.base.sorted
  · show 0 ≤ σ.sigOnce.toUs
    omega
  · refine (pcInv_of (pc := .dEnd id) rfl).mpr ?_
    simp only [PcInvAt]
    exact ⟨h1, Or.inr ⟨rfl, hz, her⟩⟩

theorem lag_step_dEnd {σ : St} (h : LagInv σ) (id : Nat) (hpc : σ.pc = .dEnd id) :
    LagInv (step false σ) := by
  have hp := (pcInv_of hpc).mp h.pcInv
  simp only [PcInvAt] at hp
  have hstep : step false σ = leave σ (.dtor id) := by
    unfold step; simp [hpc]
  rw [hstep]
  exact lag_leave h.base hp.2 _

/-- the body of `handle_timeout` run at an instant at which the timer has expired (`remaining = 0`)
outside a critical section — from the signal handler (`sync = none`) or from
`leave_critical_section`: no action runs early, and the timer is (about to be) re-armed for the
next deadline -/
theorem lag_body (τ : St) (hb : Base τ) (ha : Armed τ) (hR : τ.remaining = 0) (sync : Option Fin) :
    Base (handlerBody false sync τ) ∧ (handlerBody false sync τ).inCrit = τ.inCrit ∧
    (((handlerBody false sync τ).pc = τ.pc ∧ Stable (handlerBody false sync τ)) ∨
     (∃ fin, sync = some fin ∧ (handlerBody false sync τ).pc = .l4 fin ∧
        (handlerBody false sync τ).remaining = 0 ∧
        PreArmed (handlerBody false sync τ) (handlerBody false sync τ).pending)) := by
  obtain ⟨a1, a2, a3, ⟨e, r, hp, hhead⟩, a5⟩ := ha
  have hnT' : (τ.tsf.add τ.ltr).Norm := Time.add_norm hb.normT hb.normL
  have hT' : (τ.tsf.add τ.ltr).toUs = τ.tsf.toUs + τ.ltr.toUs := Time.add_toUs hb.normT hb.normL
  have hnormP : AllNorm (e :: r) := hp ▸ hb.normP
  have hrestSub : (takeDue false (τ.tsf.add τ.ltr) r).2.Sublist τ.pending := by
    rw [hp]; exact (takeDue_sublist_snd _ _ _).trans (List.sublist_cons_self e r)
  have hdue : ∀ x ∈ e :: (takeDue false (τ.tsf.add τ.ltr) r).1,
      x ∈ τ.pending ∧ x.deadline.toUs ≤ τ.tsf.toUs + τ.ltr.toUs := by
    intro x hx
    rcases List.mem_cons.mp hx with hh | hh
    · subst hh; exact ⟨by rw [hp]; simp, by omega⟩
    · have hxr : x ∈ r := (takeDue_sublist_fst _ _ _).subset hh
      have h1 := (Time.le_false_iff (hnormP x (List.mem_cons_of_mem _ hxr)) hnT').mp (takeDue_due _ _ _ x hh)
      exact ⟨by rw [hp]; exact List.mem_cons_of_mem _ hxr, by omega⟩
  have hfired : ∀ id t b cs, Event.fired id t b cs ∈
      (firedEvents τ.now (e :: (takeDue false (τ.tsf.add τ.ltr) r).1)).reverse ++ τ.log →
      b + cs * 10000 ≤ t := by
    intro id t b cs hh
    rcases mem_fired_block.mp hh with ⟨x, hx, _, e2, e3, e4⟩ | hh
    · obtain ⟨hxm, hxd⟩ := hdue x hx
      have := a5 x hxm
      subst e3 e4
      omega
    · exact hb.fired id t b cs hh
  unfold handlerBody
  simp only [hp]
  split
  · rename_i hrest
    refine ⟨⟨hb.noErr, hb.cfg, hnT', hb.normL, ?_, ?_, hb.remNonneg, hfired⟩, rfl, Or.inl ⟨rfl, Or.inr ⟨rfl, hR, hrest⟩⟩⟩
    · show AllNorm (takeDue false (τ.tsf.add τ.ltr) r).2
      rw [hrest]; intro x hx; simp at hx
    · show Sorted (takeDue false (τ.tsf.add τ.ltr) r).2
      rw [hrest]; simp [Sorted]
  · rename_i n rest' hrest
    have hnrest : n ∈ (takeDue false (τ.tsf.add τ.ltr) r).2 := by rw [hrest]; simp
    have hnmem : n ∈ τ.pending := hrestSub.subset hnrest
    have hnn : n.deadline.Norm := hb.normP n hnmem
    have hgt : τ.tsf.toUs + τ.ltr.toUs < n.deadline.toUs := by
      have h1 := takeDue_rest_head false (τ.tsf.add τ.ltr) r n rest' hrest
      have h2 := Time.le_false_iff hnn hnT'
      cases hle : Time.le false n.deadline (τ.tsf.add τ.ltr)
      · have : ¬ (n.deadline.toUs ≤ (τ.tsf.add τ.ltr).toUs) := fun hh => by
          have := h2.mpr hh; rw [hle] at this; exact absurd this (by simp)
        omega
      · rw [hle] at h1; exact absurd h1 (by simp)
    have hsubN : (n.deadline.sub (τ.tsf.add τ.ltr)).Norm := Time.sub_norm hnn hnT'
    have hsubU : (n.deadline.sub (τ.tsf.add τ.ltr)).toUs = n.deadline.toUs - (τ.tsf.toUs + τ.ltr.toUs) := by
      rw [Time.sub_toUs_ge hnn hnT' (by omega), hT']
    have hnz : (n.deadline.sub (τ.tsf.add τ.ltr)).isZero = false := by
      cases hz : (n.deadline.sub (τ.tsf.add τ.ltr)).isZero
      · rfl
      · have := (Time.isZero_iff hsubN).mp hz; omega
    have hok := Time.timevalOK_of_norm hsubN
    have hnormRest : AllNorm (takeDue false (τ.tsf.add τ.ltr) r).2 :=
      fun x hx => hb.normP x (hrestSub.subset hx)
    have hsortRest : Sorted (takeDue false (τ.tsf.add τ.ltr) r).2 :=
      List.Pairwise.sublist hrestSub hb.sorted
    have hbirthRest : ∀ x ∈ (takeDue false (τ.tsf.add τ.ltr) r).2,
        x.gBirth + x.gCs * 10000 + (τ.tsf.toUs + τ.ltr.toUs) ≤ x.deadline.toUs + τ.now := by
      intro x hx
      have := a5 x (hrestSub.subset hx)
      omega
    cases sync with
    | none =>
      simp only
      unfold setTimerH
      simp only [hnz, Bool.false_eq_true, if_false, hok, if_true]
      refine ⟨⟨hb.noErr, hb.cfg, hnT', hsubN, hnormRest, hsortRest, ?_, base_fired_cons (by intros; simp) hfired⟩,
        trivial, Or.inl ⟨trivial, Or.inl ⟨a1, ?_, Int.le_refl _, ⟨n, rest', hrest, ?_⟩, ?_⟩⟩⟩
      · show 0 ≤ (n.deadline.sub (τ.tsf.add τ.ltr)).toUs
        omega
      · show 0 ≤ (n.deadline.sub (τ.tsf.add τ.ltr)).toUs
        omega
      · show n.deadline.toUs = (τ.tsf.add τ.ltr).toUs + (n.deadline.sub (τ.tsf.add τ.ltr)).toUs
        omega
      · intro x hx
        have := hbirthRest x hx
        show x.gBirth + x.gCs * 10000 + ((τ.tsf.add τ.ltr).toUs + (n.deadline.sub (τ.tsf.add τ.ltr)).toUs
          - (n.deadline.sub (τ.tsf.add τ.ltr)).toUs) ≤ x.deadline.toUs + τ.now
        omega
    | some fin =>
      simp only [hnz, Bool.false_eq_true, if_false]
      refine ⟨⟨hb.noErr, hb.cfg, hnT', hsubN, hnormRest, hsortRest, hb.remNonneg, hfired⟩,
        trivial, Or.inr ⟨fin, rfl, rfl, hR, a1, rfl, ?_, ⟨n, rest', hrest, ?_⟩, ?_⟩⟩
      · show 0 < (n.deadline.sub (τ.tsf.add τ.ltr)).toUs
        omega
      · show n.deadline.toUs = (τ.tsf.add τ.ltr).toUs + (n.deadline.sub (τ.tsf.add τ.ltr)).toUs
        omega
      · intro x hx
        have := hbirthRest x hx
        show x.gBirth + x.gCs * 10000 + (τ.tsf.add τ.ltr).toUs ≤ x.deadline.toUs + τ.now
        omega

/-- the same body when the clock is stopped (a stale `timeout_deferred`): it only clears
`alarm_clock_running` again -/
theorem lag_body_stopped (τ : St) (hb : Base τ) (hs : Stopped τ) (sync : Option Fin) :
    Base (handlerBody false sync τ) ∧ (handlerBody false sync τ).inCrit = τ.inCrit ∧
    (handlerBody false sync τ).pc = τ.pc ∧ Stable (handlerBody false sync τ) := by
  obtain ⟨s1, s2, s3⟩ := hs
  unfold handlerBody
  simp only
  split
  · exact ⟨⟨hb.noErr, hb.cfg, Time.add_norm hb.normT hb.normL, hb.normL, hb.normP,
      hb.sorted, hb.remNonneg, hb.fired⟩, rfl, rfl, Or.inr ⟨rfl, s2, s3⟩⟩
  · rename_i e r hp
    rw [s3] at hp; exact absurd hp (by simp)

theorem lag_step_l2 {σ : St} (h : LagInv σ) (fin : Fin) (hpc : σ.pc = .l2 fin) :
    LagInv (step false σ) := by
  have hp := (pcInv_of hpc).mp h.pcInv
  simp only [PcInvAt] at hp
  have hstep : step false σ = { σ with
        log := .getitimer σ.remaining :: σ.log
        pc := .l3 fin (getTimer σ) } := by
    unfold step; simp [hpc]
  rw [hstep]
  have ttsN : (getTimer σ).Norm := Time.mk2_timer_norm h.base.remNonneg
  have ttsU : (getTimer σ).toUs = σ.remaining := Time.mk2_timer_toUs h.base.remNonneg
  refine ⟨⟨h.base.noErr, h.base.cfg, h.base.normT, h.base.normL, h.base.normP, h.base.sorted, h.base.remNonneg,
    base_fired_cons (by intros; simp) h.base.fired⟩, ?_⟩
  refine (pcInv_of (pc := .l3 fin (getTimer σ)) rfl).mpr ?_
  simp only [PcInvAt]
  refine ⟨hp.1, ?_, fun hz => ?_⟩
  · rcases hp.2 with ha | hs
    · exact Or.inl ha
    · exact Or.inr hs
  · have := (Time.isZero_iff ttsN).mp hz
    show σ.remaining = 0
    omega

theorem lag_step_l3 {σ : St} (h : LagInv σ) (fin : Fin) (tts : Time) (hpc : σ.pc = .l3 fin tts) :
    LagInv (step false σ) := by
  have hp := (pcInv_of hpc).mp h.pcInv
  simp only [PcInvAt] at hp
  obtain ⟨hc, hst, hz⟩ := hp
  cases hzz : tts.isZero
  · have hstep : step false σ = finish σ fin := by unfold step; simp [hpc, hzz]
    rw [hstep]; exact lag_finish h.base hc hst fin
  · have hR := hz hzz
    have hstep : step false σ =
        if (handlerBody false (some fin) σ).pc = σ.pc then finish (handlerBody false (some fin) σ) fin
        else handlerBody false (some fin) σ := by
      unfold step; simp [hpc, hzz]
    rw [hstep]
    rcases hst with ha | hs
    · obtain ⟨b1, b2, b3⟩ := lag_body σ h.base ha hR (some fin)
      rcases b3 with ⟨q1, q2⟩ | ⟨f, hf, q1, q2, q3⟩
      · simp only [q1, if_true]
        exact lag_finish b1 (b2.trans hc) q2 fin
      · have hne : (handlerBody false (some fin) σ).pc ≠ σ.pc := by rw [q1, hpc]; simp
        simp only [hne, if_false]
        refine ⟨b1, ?_⟩
        injection hf with hf
        subst hf
        refine (pcInv_of q1).mpr ?_
        simp only [PcInvAt]
        exact ⟨b2.trans hc, q2, q3⟩
    · obtain ⟨b1, b2, b3, b4⟩ := lag_body_stopped σ h.base hs (some fin)
      simp only [b3, if_true]
      exact lag_finish b1 (b2.trans hc) b4 fin

theorem lag_step_l4 {σ : St} (h : LagInv σ) (fin : Fin) (hpc : σ.pc = .l4 fin) :
    LagInv (step false σ) := by
  have hp := (pcInv_of hpc).mp h.pcInv
  simp only [PcInvAt] at hp
  obtain ⟨hc, hR, p1, p2, p3, p4, p5⟩ := hp
  have hok' : σ.sigOnce.timevalOK = true := by rw [p2]; exact Time.timevalOK_of_norm h.base.normL
  have hstep : step false σ = { σ with
        remaining := σ.sigOnce.toUs
        log := .setitimer σ.sigOnce.toUs :: σ.log
        pc := .l5 fin } := by
    unfold step; simp [hpc, hok']
  rw [hstep]
  refine ⟨⟨h.base.noErr, h.base.cfg, h.base.normT, h.base.normL, h.base.normP, h.base.sorted, ?_,
    base_fired_cons (by intros; simp) h.base.fired⟩, ?_⟩
  · show 0 ≤ σ.sigOnce.toUs
    rw [p2]; omega
  · refine (pcInv_of (pc := .l5 fin) rfl).mpr ?_
    simp only [PcInvAt]
    refine ⟨hc, Or.inl ⟨p1, ?_, ?_, p4, ?_⟩⟩
    · show 0 ≤ σ.sigOnce.toUs
      rw [p2]; exact Int.le_of_lt p3
    · show σ.sigOnce.toUs ≤ σ.ltr.toUs
      rw [p2]; exact Int.le_refl _
    · intro e he
      have := p5 e he
      show e.gBirth + e.gCs * 10000 + (σ.tsf.toUs + σ.ltr.toUs - σ.sigOnce.toUs) ≤ e.deadline.toUs + σ.now
      rw [p2]; omega

theorem lag_step_l5 {σ : St} (h : LagInv σ) (fin : Fin) (hpc : σ.pc = .l5 fin) :
    LagInv (step false σ) := by
  have hp := (pcInv_of hpc).mp h.pcInv
  simp only [PcInvAt] at hp
  have hstep : step false σ = finish σ fin := by unfold step; simp [hpc]
  rw [hstep]; exact lag_finish h.base hp.1 hp.2 fin

theorem lag_step {σ : St} (h : LagInv σ) : LagInv (step false σ) := by
  cases hpc : σ.pc with
  | idle =>
    have : step false σ = σ := by unfold step; simp [hpc]
    rw [this]; exact h
  | a1 id cs b d => exact lag_step_a1 h id cs b d hpc
  | a2 id => exact lag_step_a2 h id hpc
  | b1 id cs b d => exact lag_step_b1 h id cs b d hpc
  | b2 id cs b d tts => exact lag_step_b2 h id cs b d tts hpc
  | b3 id => exact lag_step_b3 h id hpc
  | cEnd id => exact lag_step_cEnd h id hpc
  | d1 id => exact lag_step_d1 h id hpc
  | r1 id f n => exact lag_step_r1 h id f n hpc
  | r2 id f n tts => exact lag_step_r2 h id f n tts hpc
  | r3 id => exact lag_step_r3 h id hpc
  | s1 id => exact lag_step_s1 h id hpc
  | s2 id => exact lag_step_s2 h id hpc
  | dEnd id => exact lag_step_dEnd h id hpc
  | l2 fin => exact lag_step_l2 h fin hpc
  | l3 fin tts => exact lag_step_l3 h fin tts hpc
  | l4 fin => exact lag_step_l4 h fin hpc
  | l5 fin => exact lag_step_l5 h fin hpc

end PPLV.Watchdog
