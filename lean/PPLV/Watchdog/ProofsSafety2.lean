import PPLV.Watchdog.ProofsSafety

/-! Preservation of `Safe` by every step of the system. -/
namespace PPLV.Watchdog

theorem FinOK.mono {σ σ' : St} {fin : Fin} (h : FinOK σ fin)
    (hp : ∀ i, i ∈ ids σ'.pending → i ∈ ids σ.pending) (hu : ∀ i, i ∈ σ.used → i ∈ σ'.used) :
    FinOK σ' fin := by
  cases fin <;> simp only [FinOK] at h ⊢
  · exact hu _ h
  · exact ⟨hu _ h.1, fun x => h.2 (hp _ x)⟩

/-- `PcOK` transfers to a state with the same program counter whose pending ids shrink, whose new
expired ids were pending, whose `used`/births grow and which has no new destruction -/
theorem PcOK.mono {σ σ' : St} (h : PcOK σ) (hs : Safe σ) (hpc : σ'.pc = σ.pc)
    (hp : ∀ i, i ∈ ids σ'.pending → i ∈ ids σ.pending)
    (he : ∀ i, i ∈ σ'.expired → i ∈ σ.expired ∨ i ∈ ids σ.pending)
    (hu : ∀ i, i ∈ σ.used → i ∈ σ'.used)
    (hb : ∀ id b cs, Event.born id b cs ∈ σ.log → Event.born id b cs ∈ σ'.log)
    (hd : ∀ id, destroyedIn σ'.log id → destroyedIn σ.log id) : PcOK σ' := by
  have _ := hs
  unfold PcOK PcOKAt at h ⊢
  rw [hpc]
  cases hc : σ.pc <;> rw [hc] at h <;> simp only at h ⊢
  · obtain ⟨h1, h2, h3, h4, h5⟩ := h
    exact ⟨fun x => h1 (hp _ x), hu _ h2, hb _ _ _ h3,
      fun x => (he _ x).elim h4 h1, fun x => h5 (hd _ x)⟩
  · exact hu _ h
  · obtain ⟨h1, h2, h3, h4, h5⟩ := h
    exact ⟨fun x => h1 (hp _ x), hu _ h2, hb _ _ _ h3,
      fun x => (he _ x).elim h4 h1, fun x => h5 (hd _ x)⟩
  · obtain ⟨h1, h2, h3, h4, h5⟩ := h
    exact ⟨fun x => h1 (hp _ x), hu _ h2, hb _ _ _ h3,
      fun x => (he _ x).elim h4 h1, fun x => h5 (hd _ x)⟩
  · exact hu _ h
  · exact hu _ h
  · exact hu _ h
  · exact hu _ h
  · exact hu _ h
  · exact hu _ h
  · exact hu _ h
  · exact hu _ h
  · exact ⟨hu _ h.1, fun x => h.2 (hp _ x)⟩
  all_goals exact FinOK.mono h hp hu

def Event.neutral (e : Event) : Prop :=
  (∀ id t b cs, e ≠ Event.fired id t b cs) ∧ (∀ id t, e ≠ Event.destroyed id t) ∧
    (∀ id b cs, e ≠ Event.born id b cs)

/-- same pending/expired/used/live/pc, one neutral event more (or the same log) -/
theorem Safe.same {σ σ' : St} (h : Safe σ) (hp : σ'.pending = σ.pending) (he : σ'.expired = σ.expired)
    (hu : σ'.used = σ.used) (hl : σ'.live = σ.live) (hpc : σ'.pc = σ.pc)
    (hlog : σ'.log = σ.log ∨ ∃ e, σ'.log = e :: σ.log ∧ e.neutral) : Safe σ' := by
  refine h.frame hp he hu hl ?_ ?_
  · rcases hlog with h1 | ⟨e, h1, h2⟩
    · exact Or.inl h1
    · exact Or.inr ⟨e, h1, h2.1, h2.2.1, h2.2.2⟩
  · refine h.pcOK.mono h hpc (by rw [hp]; exact fun _ x => x) (by rw [he]; exact fun _ x => Or.inl x)
      (by rw [hu]; exact fun _ x => x) ?_ ?_
    · rcases hlog with h1 | ⟨e, h1, _⟩
      · rw [h1]; exact fun _ _ _ x => x
      · rw [h1]; exact fun _ _ _ x => List.mem_cons_of_mem _ x
    · rcases hlog with h1 | ⟨e, h1, h2⟩
      · rw [h1]; exact fun _ x => x
      · rw [h1]; rintro id ⟨t, ht⟩
        rcases List.mem_cons.mp ht with hh | hh
        · exact absurd hh.symm (h2.2.1 id t)
        · exact ⟨t, hh⟩

/-- same, but the program counter moves to one whose `PcOK` is supplied -/
theorem Safe.move {σ σ' : St} (h : Safe σ) (hp : σ'.pending = σ.pending) (he : σ'.expired = σ.expired)
    (hu : σ'.used = σ.used) (hl : ∀ i ∈ σ'.live, i ∈ σ'.used)
    (hlog : σ'.log = σ.log ∨ ∃ e, σ'.log = e :: σ.log ∧ e.neutral) (hpc : PcOK σ') : Safe σ' := by
  -- via an intermediate state with the old `live`
  have h1 : Safe { σ' with live := σ.live } := by
    refine h.frame hp he hu rfl ?_ ?_
    · rcases hlog with h1 | ⟨e, h1, h2⟩
      · exact Or.inl h1
      · exact Or.inr ⟨e, h1, h2.1, h2.2.1, h2.2.2⟩
    · unfold PcOK PcOKAt at hpc ⊢; exact hpc
  exact { h1 with liveUsed := hl, pcOK := hpc }

theorem neutral_simple :
    (∀ us, (Event.setitimer us).neutral) ∧ Event.setfail.neutral ∧ (∀ us, (Event.getitimer us).neutral) ∧
    (∀ us, (Event.hset us).neutral) ∧ (∀ t, (Event.deferred t).neutral) ∧ Event.internalError.neutral ∧
    (∀ id, (Event.threw id).neutral) ∧ (∀ id t, (Event.constructed id t).neutral) ∧
    (∀ id cs, (Event.rejected id cs).neutral) := by
  simp [Event.neutral]

/-- an element for a fresh id is inserted into the pending list -/
theorem Safe.insert {σ σ' : St} (h : Safe σ) (x : Ev)
    (hx1 : x.id ∉ ids σ.pending) (hx2 : x.id ∈ σ.used) (hx3 : Event.born x.id x.gBirth x.gCs ∈ σ.log)
    (hx4 : x.id ∉ σ.expired) (hx5 : ¬ destroyedIn σ.log x.id)
    (hp : σ'.pending = insertEv x σ.pending) (he : σ'.expired = σ.expired)
    (hu : σ'.used = σ.used) (hl : σ'.live = σ.live) (hlog : σ'.log = σ.log) (hpc : PcOK σ') : Safe σ' := by
  constructor
  · rw [hp]; exact nodup_ids_insertEv hx1 h.nodup
  · rw [hp, he, hu, hlog]
    intro e hemem
    rcases mem_insertEv.mp hemem with hh | hh
    · subst hh; exact ⟨hx4, hx5, hx2, hx3⟩
    · exact h.pend e hh
  · rw [he, hlog]; exact h.firedExp
  · rw [he, hu]; exact h.expUsed
  · rw [hu, hlog]; exact h.bornUsed
  · rw [hlog]; exact h.bornUniq
  · rw [hu, hlog]; exact h.destUsed
  · rw [hu, hl]; exact h.liveUsed
  · rw [hlog]; exact h.once
  · rw [hlog]; exact h.nad
  · exact hpc

/-- an element is erased from the pending list -/
theorem Safe.erase {σ σ' : St} (h : Safe σ) (id : Nat)
    (hp : σ'.pending = eraseId id σ.pending) (he : σ'.expired = σ.expired)
    (hu : σ'.used = σ.used) (hl : σ'.live = σ.live) (hlog : σ'.log = σ.log) (hpc : PcOK σ') : Safe σ' := by
  constructor
  · rw [hp]; exact List.Nodup.sublist (ids_sublist (eraseId_sublist id _)) h.nodup
  · rw [hp, he, hu, hlog]
    intro e hemem
    exact h.pend e (mem_of_mem_eraseId hemem)
  · rw [he, hlog]; exact h.firedExp
  · rw [he, hu]; exact h.expUsed
  · rw [hu, hlog]; exact h.bornUsed
  · rw [hlog]; exact h.bornUniq
  · rw [hu, hlog]; exact h.destUsed
  · rw [hu, hl]; exact h.liveUsed
  · rw [hlog]; exact h.once
  · rw [hlog]; exact h.nad
  · exact hpc

/-- the destruction of a watchdog that is not pending is logged -/
theorem Safe.logDestroyed {σ σ' : St} (h : Safe σ) (id : Nat) (t : Int)
    (hx1 : id ∉ ids σ.pending) (hx2 : id ∈ σ.used)
    (hp : σ'.pending = σ.pending) (he : σ'.expired = σ.expired)
    (hu : σ'.used = σ.used) (hl : ∀ i ∈ σ'.live, i ∈ σ'.used)
    (hlog : σ'.log = Event.destroyed id t :: σ.log) (hpc : PcOK σ') : Safe σ' := by
  have memf : ∀ i t' b cs, Event.fired i t' b cs ∈ σ'.log ↔ Event.fired i t' b cs ∈ σ.log := by
    intro i t' b cs; rw [hlog]; simp
  have memb : ∀ i b cs, Event.born i b cs ∈ σ'.log ↔ Event.born i b cs ∈ σ.log := by
    intro i b cs; rw [hlog]; simp
  constructor
  · rw [hp]; exact h.nodup
  · rw [hp, he, hu]
    intro e hemem
    have := h.pend e hemem
    refine ⟨this.1, ?_, this.2.2.1, (memb _ _ _).mpr this.2.2.2⟩
    rintro ⟨t', ht'⟩
    rw [hlog] at ht'
    rcases List.mem_cons.mp ht' with hh | hh
    · have : e.id = id := by injection hh
      exact hx1 (mem_ids.mpr ⟨e, hemem, this⟩)
    · exact this.2.1 ⟨t', hh⟩
  · rw [he]; intro i t' b cs hh
    have := h.firedExp i t' b cs ((memf _ _ _ _).mp hh)
    exact ⟨this.1, (memb _ _ _).mpr this.2⟩
  · rw [he, hu]; exact h.expUsed
  · rw [hu]; intro i b cs hh; exact h.bornUsed i b cs ((memb _ _ _).mp hh)
  · intro i b cs b' cs' h1 h2
    exact h.bornUniq i b cs b' cs' ((memb _ _ _).mp h1) ((memb _ _ _).mp h2)
  · rw [hu, hlog]; intro i t' hh
    rcases List.mem_cons.mp hh with hh | hh
    · have : i = id := by injection hh
      rw [this]; exact hx2
    · exact h.destUsed i t' hh
  · exact hl
  · rw [hlog]; exact firedOnce_cons_other h.once (by intros; simp)
  · rw [hlog]; exact nad_cons_other h.nad (by intros; simp)
  · exact hpc

end PPLV.Watchdog
