import PPLV.Watchdog.ProofsLag1

/-! `LagInv` is preserved by the statement groups of the constructor. -/
namespace PPLV.Watchdog

theorem base_fired_cons {l : List Event} {e : Event} (he : ∀ id t b cs, e ≠ Event.fired id t b cs)
    (h : ∀ id t b cs, Event.fired id t b cs ∈ l → b + cs * 10000 ≤ t) :
    ∀ id t b cs, Event.fired id t b cs ∈ e :: l → b + cs * 10000 ≤ t := by
  intro id t b cs hh
  rcases List.mem_cons.mp hh with h1 | h1
  · exact absurd h1.symm (he id t b cs)
  · exact h id t b cs h1

theorem lag_step_a1 {σ : St} (h : LagInv σ) (id : Nat) (cs b : Int) (d : Time) (hpc : σ.pc = .a1 id cs b d) :
    LagInv (step false σ) := by
  have hp := (pcInv_of hpc).mp h.pcInv
  simp only [PcInvAt] at hp
  obtain ⟨h1, ⟨s1, s2, s3⟩, h3, h4, h5⟩ := hp
  obtain ⟨hn, hu, hnz, hok⟩ := ofCs_facts h4
  subst h3
  have hstep : step false σ = { σ with
        pending := [⟨Time.ofCs cs, id, b, cs⟩]
        tsf := Time.zero
        ltr := Time.ofCs cs
        sigOnce := Time.ofCs cs
        pc := .a2 id } := by
    unfold step; simp [hpc, hnz, s3, insertEv]
  rw [hstep]
  refine ⟨⟨h.base.noErr, h.base.cfg, Time.norm_zero, hn, ?_, ?_, h.base.remNonneg, h.base.fired⟩, ?_⟩
  · intro e he; simp at he; subst he; exact hn
  · simp [Sorted]
  · refine (pcInv_of (pc := .a2 id) rfl).mpr ?_
    simp only [PcInvAt]
    exact ⟨h1, s1, s2, trivial, trivial, b, cs, rfl, rfl, h4, h5⟩

theorem lag_step_a2 {σ : St} (h : LagInv σ) (id : Nat) (hpc : σ.pc = .a2 id) :
    LagInv (step false σ) := by
  have hp := (pcInv_of hpc).mp h.pcInv
  simp only [PcInvAt] at hp
  obtain ⟨h1, h2, h3, h4, h5, b, cs, h6, h7, h8, h9⟩ := hp
  obtain ⟨hn, hu, hnz, hok⟩ := ofCs_facts h8
  have hok' : σ.sigOnce.timevalOK = true := by rw [h5, h7]; exact hok
  have hstep : step false σ = { σ with
        remaining := σ.sigOnce.toUs
        epoch := σ.now
        running := true
        log := .setitimer σ.sigOnce.toUs :: σ.log
        pc := .cEnd id } := by
    unfold step; simp [hpc, hok']
  rw [hstep]
  have hL : σ.ltr.toUs = cs * 10000 := by rw [h7]; exact hu
  refine ⟨⟨h.base.noErr, h.base.cfg, h.base.normT, h.base.normL, h.base.normP, h.base.sorted, ?_,
    base_fired_cons (by intros; simp) h.base.fired⟩, ?_⟩
  · show 0 ≤ σ.sigOnce.toUs
    rw [h5, hL]; omega
  · refine (pcInv_of (pc := .cEnd id) rfl).mpr ?_
    simp only [PcInvAt]
    refine ⟨h1, Or.inl ⟨rfl, ?_, ?_, ⟨_, [], h6, ?_⟩, ?_⟩⟩
    · show 0 ≤ σ.sigOnce.toUs
      rw [h5, hL]; omega
    · show σ.sigOnce.toUs ≤ σ.ltr.toUs
      rw [h5]; exact Int.le_refl _
    · show σ.ltr.toUs = σ.tsf.toUs + σ.ltr.toUs
      rw [h4, Time.toUs_zero]; omega
    · intro e he
      have he' : e ∈ σ.pending := he
      rw [h6] at he'
      simp at he'
      subst he'
      show b + cs * 10000 + (σ.tsf.toUs + σ.ltr.toUs - σ.sigOnce.toUs) ≤ σ.ltr.toUs + σ.now
      rw [h4, Time.toUs_zero, h5, hL]; omega

theorem lag_step_b1 {σ : St} (h : LagInv σ) (id : Nat) (cs b : Int) (d : Time) (hpc : σ.pc = .b1 id cs b d) :
    LagInv (step false σ) := by
  have hp := (pcInv_of hpc).mp h.pcInv
  simp only [PcInvAt] at hp
  obtain ⟨h1, ha, h3, h4, h5⟩ := hp
  have hstep : step false σ = { σ with
        log := .getitimer σ.remaining :: σ.log
        pc := .b2 id cs b d (getTimer σ) } := by
    unfold step; simp [hpc]
  rw [hstep]
  have ttsN : (getTimer σ).Norm := Time.mk2_timer_norm h.base.remNonneg
  have ttsU : (getTimer σ).toUs = σ.remaining := Time.mk2_timer_toUs h.base.remNonneg
  refine ⟨⟨h.base.noErr, h.base.cfg, h.base.normT, h.base.normL, h.base.normP, h.base.sorted, h.base.remNonneg,
    base_fired_cons (by intros; simp) h.base.fired⟩, ?_⟩
  refine (pcInv_of (pc := .b2 id cs b d (getTimer σ)) rfl).mpr ?_
  simp only [PcInvAt]
  have := ha.2.2.1
  exact ⟨h1, ha, h3, h4, ttsN, by rw [ttsU]; exact Int.le_refl _, by rw [ttsU]; exact this, by rw [ttsU]; omega⟩

theorem lag_step_b2 {σ : St} (h : LagInv σ) (id : Nat) (cs b : Int) (d tts : Time)
    (hpc : σ.pc = .b2 id cs b d tts) : LagInv (step false σ) := by
  have hp := (pcInv_of hpc).mp h.pcInv
  simp only [PcInvAt] at hp
  obtain ⟨h1, ⟨a1, a2, a3, ⟨e0, r0, hpd, hhead⟩, a5⟩, h3, h4, ttsN, h6, h7, h8⟩ := hp
  obtain ⟨hn, hu, hnz, hok⟩ := ofCs_facts h4
  subst h3
  have elN := Time.sub_norm h.base.normL ttsN
  have elU : (σ.ltr.sub tts).toUs = σ.ltr.toUs - tts.toUs := Time.sub_toUs_ge h.base.normL ttsN h7
  have curN := Time.add_norm h.base.normT elN
  have curU : (σ.tsf.add (σ.ltr.sub tts)).toUs = σ.tsf.toUs + σ.ltr.toUs - tts.toUs := by
    rw [Time.add_toUs h.base.normT elN, elU]; omega
  have realN := Time.add_norm hn curN
  have realU : ((Time.ofCs cs).add (σ.tsf.add (σ.ltr.sub tts))).toUs =
      cs * 10000 + σ.tsf.toUs + σ.ltr.toUs - tts.toUs := by
    rw [Time.add_toUs hn curN, curU, hu]; omega
  have he0 : e0.deadline.Norm := h.base.normP e0 (by rw [hpd]; simp)
  obtain ⟨hd, tl, hins, hmin, _⟩ := head_insertEv
    (x := ⟨(Time.ofCs cs).add (σ.tsf.add (σ.ltr.sub tts)), id, b, cs⟩) (r := r0) realN he0
  have hnormP' := allNorm_insertEv (x := ⟨(Time.ofCs cs).add (σ.tsf.add (σ.ltr.sub tts)), id, b, cs⟩)
    realN h.base.normP
  have hsorted' := sorted_insertEv (x := ⟨(Time.ofCs cs).add (σ.tsf.add (σ.ltr.sub tts)), id, b, cs⟩)
    realN h.base.normP h.base.sorted
  cases hlt : (Time.ofCs cs).lt tts
  · -- the timer stays as it is
    have hge : tts.toUs ≤ cs * 10000 := by
      have := (Time.lt_false_iff hn ttsN).mp hlt; rw [hu] at this; exact this
    have hstep : step false σ = { σ with
        pending := insertEv ⟨(Time.ofCs cs).add (σ.tsf.add (σ.ltr.sub tts)), id, b, cs⟩ σ.pending
        pc := .cEnd id } := by
      unfold step; simp [hpc, hlt]
    rw [hstep]
    refine ⟨⟨h.base.noErr, h.base.cfg, h.base.normT, h.base.normL, hnormP', hsorted', h.base.remNonneg, h.base.fired⟩, ?_⟩
    refine (pcInv_of (pc := .cEnd id) rfl).mpr ?_
    simp only [PcInvAt]
    refine ⟨h1, Or.inl ⟨a1, a2, a3, ⟨hd, tl, by rw [hpd]; exact hins, ?_⟩, ?_⟩⟩
    · show hd.deadline.toUs = σ.tsf.toUs + σ.ltr.toUs
      rw [hmin]
      show min ((Time.ofCs cs).add (σ.tsf.add (σ.ltr.sub tts))).toUs e0.deadline.toUs = _
      rw [realU, hhead]; omega
    · intro e he
      rcases mem_insertEv.mp he with hh | hh
      · subst hh
        show b + cs * 10000 + (σ.tsf.toUs + σ.ltr.toUs - σ.remaining) ≤
          ((Time.ofCs cs).add (σ.tsf.add (σ.ltr.sub tts))).toUs + σ.now
        rw [realU]; omega
      · exact a5 e hh
  · -- re-arm for the new, earlier deadline
    have hlt' : cs * 10000 < tts.toUs := by
      have := (Time.lt_iff hn ttsN).mp hlt; rw [hu] at this; exact this
    have hstep : step false σ = { σ with
        pending := insertEv ⟨(Time.ofCs cs).add (σ.tsf.add (σ.ltr.sub tts)), id, b, cs⟩ σ.pending
        tsf := σ.tsf.add (σ.ltr.sub tts)
        ltr := Time.ofCs cs
        sigOnce := Time.ofCs cs
        pc := .b3 id } := by
      unfold step; simp [hpc, hlt, hnz]
    rw [hstep]
    refine ⟨⟨h.base.noErr, h.base.cfg, curN, hn, hnormP', hsorted', h.base.remNonneg, h.base.fired⟩, ?_⟩
    refine (pcInv_of (pc := .b3 id) rfl).mpr ?_
    simp only [PcInvAt]
    refine ⟨h1, a1, rfl, ?_, ⟨hd, tl, by rw [hpd]; exact hins, ?_⟩, ?_⟩
    · show 0 < (Time.ofCs cs).toUs
      omega
    · show hd.deadline.toUs = (σ.tsf.add (σ.ltr.sub tts)).toUs + (Time.ofCs cs).toUs
      rw [hmin]
      show min ((Time.ofCs cs).add (σ.tsf.add (σ.ltr.sub tts))).toUs e0.deadline.toUs = _
      rw [realU, hhead, curU, hu]; omega
    · intro e he
      rcases mem_insertEv.mp he with hh | hh
      · subst hh
        show b + cs * 10000 + (σ.tsf.add (σ.ltr.sub tts)).toUs ≤
          ((Time.ofCs cs).add (σ.tsf.add (σ.ltr.sub tts))).toUs + σ.now
        rw [realU, curU]; omega
      · have := a5 e hh
        show e.gBirth + e.gCs * 10000 + (σ.tsf.add (σ.ltr.sub tts)).toUs ≤ e.deadline.toUs + σ.now
        rw [curU]; omega

theorem lag_step_b3 {σ : St} (h : LagInv σ) (id : Nat) (hpc : σ.pc = .b3 id) :
    LagInv (step false σ) := by
  have hp := (pcInv_of hpc).mp h.pcInv
  simp only [PcInvAt] at hp
  obtain ⟨h1, p1, p2, p3, p4, p5⟩ := hp
  have hok' : σ.sigOnce.timevalOK = true := by rw [p2]; exact Time.timevalOK_of_norm h.base.normL
  have hstep : step false σ = { σ with
        remaining := σ.sigOnce.toUs
        log := .setitimer σ.sigOnce.toUs :: σ.log
        pc := .cEnd id } := by
    unfold step; simp [hpc, hok']
  rw [hstep]
  refine ⟨⟨h.base.noErr, h.base.cfg, h.base.normT, h.base.normL, h.base.normP, h.base.sorted, ?_,
    base_fired_cons (by intros; simp) h.base.fired⟩, ?_⟩
  · show 0 ≤ σ.sigOnce.toUs
    rw [p2]; omega
  · refine (pcInv_of (pc := .cEnd id) rfl).mpr ?_
    simp only [PcInvAt]
    refine ⟨h1, Or.inl ⟨p1, ?_, ?_, p4, ?_⟩⟩
    · show 0 ≤ σ.sigOnce.toUs
      rw [p2]; exact Int.le_of_lt p3
    · show σ.sigOnce.toUs ≤ σ.ltr.toUs
      rw [p2]; exact Int.le_refl _
    · intro e he
      have := p5 e he
      show e.gBirth + e.gCs * 10000 + (σ.tsf.toUs + σ.ltr.toUs - σ.sigOnce.toUs) ≤ e.deadline.toUs + σ.now
      rw [p2]; omega

/-- the operation returns to its caller -/
theorem lag_finish {σ : St} (hb : Base σ) (hc : σ.inCrit = false) (hst : Stable σ) (fin : Fin) :
    LagInv (finish σ fin) := by
  cases fin with
  | ctor id =>
    refine ⟨⟨hb.noErr, hb.cfg, hb.normT, hb.normL, hb.normP, hb.sorted, hb.remNonneg,
      base_fired_cons (by intros; simp) hb.fired⟩, ?_⟩
    refine (pcInv_of (pc := .idle) rfl).mpr ?_
    simp only [PcInvAt]
    exact ⟨hc, hst⟩
  | dtor id =>
    refine ⟨⟨hb.noErr, hb.cfg, hb.normT, hb.normL, hb.normP, hb.sorted, hb.remNonneg,
      base_fired_cons (by intros; simp) hb.fired⟩, ?_⟩
    refine (pcInv_of (pc := .idle) rfl).mpr ?_
    simp only [PcInvAt]
    exact ⟨hc, hst⟩

/-- `leave_critical_section` up to the test of `timeout_deferred` -/
theorem lag_leave {σ : St} (hb : Base σ) (hst : Stable σ) (fin : Fin) : LagInv (leave σ fin) := by
  unfold leave
  split
  · refine ⟨⟨hb.noErr, hb.cfg, hb.normT, hb.normL, hb.normP, hb.sorted, hb.remNonneg, hb.fired⟩, ?_⟩
    refine (pcInv_of (pc := .l2 fin) rfl).mpr ?_
    simp only [PcInvAt]
    exact ⟨trivial, hst⟩
  · have hb' : Base { σ with inCrit := false } :=
      ⟨hb.noErr, hb.cfg, hb.normT, hb.normL, hb.normP, hb.sorted, hb.remNonneg, hb.fired⟩
    exact lag_finish hb' rfl hst fin

theorem lag_step_cEnd {σ : St} (h : LagInv σ) (id : Nat) (hpc : σ.pc = .cEnd id) :
    LagInv (step false σ) := by
  have hp := (pcInv_of hpc).mp h.pcInv
  simp only [PcInvAt] at hp
  have hstep : step false σ = leave σ (.ctor id) := by
    unfold step; simp [hpc]
  rw [hstep]
  exact lag_leave h.base hp.2 _

end PPLV.Watchdog
