import PPLV.Watchdog.ProofsSafety2

/-! `Safe` is preserved by `create`, `destroy`, every statement group, the handler and `tick`. -/
namespace PPLV.Watchdog

theorem safe_create {σ : St} (h : Safe σ) (id : Nat) (cs : Int) : Safe (create σ id cs) := by
  unfold create
  split
  · exact h
  · rename_i hc
    have hidle : σ.pc = .idle := by
      by_cases hh : σ.pc = .idle
      · exact hh
      · exact absurd (Or.inl hh) hc
    have hfresh : id ∉ σ.used := fun hh => hc (Or.inr hh)
    split
    · -- rejected
      refine { h with pend := ?_, expUsed := ?_, bornUsed := ?_, bornUniq := ?_, destUsed := ?_, liveUsed := ?_,
                      firedExp := ?_, once := ?_, nad := ?_, pcOK := ?_ }
      · intro e he
        have := h.pend e he
        exact ⟨this.1, by
          rintro ⟨t, ht⟩; simp at ht; exact this.2.1 ⟨t, ht⟩, List.mem_cons_of_mem _ this.2.2.1,
          List.mem_cons_of_mem _ this.2.2.2⟩
      · intro i b' cs' t hh; simp at hh
        have := h.firedExp i b' cs' t hh
        exact ⟨this.1, List.mem_cons_of_mem _ this.2⟩
      · exact fun i hi => List.mem_cons_of_mem _ (h.expUsed i hi)
      · intro i b' cs' hh; simp at hh; exact List.mem_cons_of_mem _ (h.bornUsed i b' cs' hh)
      · intro i b1 c1 b2 c2 h1 h2; simp at h1 h2; exact h.bornUniq i b1 c1 b2 c2 h1 h2
      · intro i t hh; simp at hh; exact List.mem_cons_of_mem _ (h.destUsed i t hh)
      · exact fun i hi => List.mem_cons_of_mem _ (h.liveUsed i hi)
      · exact firedOnce_cons_other h.once (by intros; simp)
      · exact nad_cons_other h.nad (by intros; simp)
      · show PcOK _
        unfold PcOK PcOKAt; simp only [hidle]
    · -- accepted
      have hnp : id ∉ ids σ.pending := fun hh => by
        obtain ⟨e, he, hid⟩ := mem_ids.mp hh
        exact hfresh (hid ▸ (h.pend e he).2.2.1)
      have hne : id ∉ σ.expired := fun hh => hfresh (h.expUsed id hh)
      have hnd : ¬ destroyedIn σ.log id := fun ⟨t, ht⟩ => hfresh (h.destUsed id t ht)
      refine { h with pend := ?_, expUsed := ?_, bornUsed := ?_, bornUniq := ?_, destUsed := ?_, liveUsed := ?_,
                      firedExp := ?_, once := ?_, nad := ?_, pcOK := ?_ }
      · intro e he
        have := h.pend e he
        exact ⟨this.1, by
          rintro ⟨t, ht⟩; simp at ht; exact this.2.1 ⟨t, ht⟩, List.mem_cons_of_mem _ this.2.2.1,
          List.mem_cons_of_mem _ this.2.2.2⟩
      · intro i b' cs' t hh; simp at hh
        have := h.firedExp i b' cs' t hh
        exact ⟨this.1, List.mem_cons_of_mem _ this.2⟩
      · exact fun i hi => List.mem_cons_of_mem _ (h.expUsed i hi)
      · intro i b' cs' hh
        rcases List.mem_cons.mp hh with hh | hh
        · have : i = id := by injection hh
          rw [this]; exact List.mem_cons_self
        · exact List.mem_cons_of_mem _ (h.bornUsed i b' cs' hh)
      · intro i b1 c1 b2 c2 h1 h2
        rcases List.mem_cons.mp h1 with h1 | h1 <;> rcases List.mem_cons.mp h2 with h2 | h2
        · injection h1 with e1 e2 e3; injection h2 with f1 f2 f3
          exact ⟨e2.trans f2.symm, e3.trans f3.symm⟩
        · injection h1 with e1 e2 e3
          exact absurd (e1 ▸ h.bornUsed i b2 c2 h2) hfresh
        · injection h2 with e1 e2 e3
          exact absurd (e1 ▸ h.bornUsed i b1 c1 h1) hfresh
        · exact h.bornUniq i b1 c1 b2 c2 h1 h2
      · intro i t hh; simp at hh; exact List.mem_cons_of_mem _ (h.destUsed i t hh)
      · exact fun i hi => List.mem_cons_of_mem _ (h.liveUsed i hi)
      · exact firedOnce_cons_other h.once (by intros; simp)
      · exact nad_cons_other h.nad (by intros; simp)
      · show PcOK _
        have hd' : ¬ destroyedIn (Event.born id σ.now cs :: σ.log) id := by
          rintro ⟨t, ht⟩; simp at ht; exact hnd ⟨t, ht⟩
        unfold PcOK PcOKAt
        by_cases hr : σ.running = true
        · simp only [hr, if_true]
          exact ⟨hnp, List.mem_cons_self, List.mem_cons_self, hne, hd'⟩
        · simp only [hr]
          exact ⟨hnp, List.mem_cons_self, List.mem_cons_self, hne, hd'⟩

theorem safe_destroy {σ : St} (h : Safe σ) (id : Nat) : Safe (destroy σ id) := by
  unfold destroy
  split
  · exact h
  · rename_i hc
    have hidle : σ.pc = .idle := by
      by_cases hh : σ.pc = .idle
      · exact hh
      · exact absurd (Or.inl hh) hc
    have hlive : id ∈ σ.live := by
      by_cases hh : id ∈ σ.live
      · exact hh
      · exact absurd (Or.inr hh) hc
    have hused := h.liveUsed id hlive
    have hl' : ∀ i ∈ σ.live.erase id, i ∈ σ.used := fun i hi => h.liveUsed i (List.mem_of_mem_erase hi)
    split
    · rename_i hexp
      have hnp : id ∉ ids σ.pending := fun hh => by
        obtain ⟨e, he, hid⟩ := mem_ids.mp hh
        exact (h.pend e he).1 (hid ▸ hexp)
      refine h.logDestroyed id σ.now hnp hused rfl rfl rfl hl' rfl ?_
      unfold PcOK PcOKAt; simp only [hidle]
    · refine h.move rfl rfl rfl hl' (Or.inl rfl) ?_
      unfold PcOK PcOKAt; simp only; exact hused

theorem safe_setTimerH {σ : St} (h : Safe σ) (t : Time) : Safe (setTimerH σ t) := by
  unfold setTimerH
  split
  · exact h.same rfl rfl rfl rfl rfl (Or.inr ⟨_, rfl, neutral_simple.2.2.2.2.2.1⟩)
  · split
    · exact h.same rfl rfl rfl rfl rfl (Or.inr ⟨_, rfl, neutral_simple.2.2.2.1 _⟩)
    · exact h.same rfl rfl rfl rfl rfl (Or.inr ⟨_, rfl, neutral_simple.2.2.2.2.2.1⟩)

end PPLV.Watchdog
