import PPLV.Watchdog.Model

/-! The weight watcher: within the 2^63 comparison window the wrap-around `less_than` is the true
comparison, the pending list is sorted by true threshold, and `check` fires exactly the watchers
whose threshold is EXCEEDED by the accumulated weight. -/
namespace PPLV.Watchdog

/-- `Weightwatch_Traits::less_than` is `<` on values less than 2^63 apart -/
theorem wLess_iff (a b : Nat) (h1 : a < b + H63) (h2 : b < a + H63) :
    wLess (a % W64) (b % W64) = true ↔ a < b := by
  unfold wLess W64 H63 at *
  simp only [Bool.and_eq_true, decide_eq_true_eq]
  omega

theorem wLess_false_iff (a b : Nat) (h1 : a < b + H63) (h2 : b < a + H63) :
    wLess (a % W64) (b % W64) = false ↔ b ≤ a := by
  have := wLess_iff a b h1 h2
  cases h : wLess (a % W64) (b % W64)
  · simp only [true_iff]
    rw [h] at this
    have : ¬ a < b := fun hh => by simpa using this.mpr hh
    omega
  · simp only [Bool.true_eq_false, false_iff]
    have := this.mp h; omega

def WSorted (l : List WEv) : Prop := l.Pairwise (fun a b => a.gThr ≤ b.gThr)

/-- the set of values `xs` lies in a window narrower than 2^63 -/
def InWindow (xs : List Nat) : Prop := ∀ x ∈ xs, ∀ y ∈ xs, x < y + H63

theorem windowedB_iff (σ : WSt) (extra : List Nat) :
    windowedB σ extra = true ↔ InWindow (σ.gWeight :: (extra ++ σ.pending.map (·.gThr))) := by
  unfold windowedB InWindow
  simp only [List.all_eq_true, decide_eq_true_eq]

theorem mem_wInsert {x y : WEv} {l : List WEv} : y ∈ wInsert x l ↔ y = x ∨ y ∈ l := by
  induction l with
  | nil => simp [wInsert]
  | cons e r ih =>
    unfold wInsert
    split
    · simp only [List.mem_cons, ih]
      constructor
      · rintro (h | h | h) <;> simp [h]
      · rintro (h | h | h) <;> simp [h]
    · simp [List.mem_cons]

theorem wSorted_insert {x : WEv} {l : List WEv} (hx : x.thr = x.gThr % W64)
    (hl : ∀ e ∈ l, e.thr = e.gThr % W64)
    (hw : ∀ e ∈ l, e.gThr < x.gThr + H63 ∧ x.gThr < e.gThr + H63)
    (hs : WSorted l) : WSorted (wInsert x l) := by
  induction l with
  | nil => simp [wInsert, WSorted]
  | cons e r ih =>
    have he := hl e (by simp)
    have hwe := hw e (by simp)
    unfold WSorted at hs
    rw [List.pairwise_cons] at hs
    have ih' := ih (fun a ha => hl a (by simp [ha])) (fun a ha => hw a (by simp [ha])) hs.2
    unfold wInsert
    rw [he, hx]
    split
    · rename_i hlt
      have := (wLess_iff e.gThr x.gThr hwe.1 hwe.2).mp hlt
      unfold WSorted
      rw [List.pairwise_cons]
      refine ⟨?_, ih'⟩
      intro a ha
      rcases mem_wInsert.mp ha with h | h
      · subst h; omega
      · exact hs.1 a h
    · rename_i hlt
      have := (wLess_false_iff e.gThr x.gThr hwe.1 hwe.2).mp (by simpa using hlt)
      unfold WSorted
      rw [List.pairwise_cons, List.pairwise_cons]
      refine ⟨?_, hs.1, hs.2⟩
      intro a ha
      rcases List.mem_cons.mp ha with h | h
      · subst h; exact this
      · have := hs.1 a h; omega

theorem wErase_sublist (id : Nat) (l : List WEv) : (wErase id l).Sublist l := by
  induction l with
  | nil => simp [wErase]
  | cons e r ih =>
    unfold wErase
    split
    · exact List.sublist_cons_self e r
    · exact ih.cons_cons e

theorem wTakeDue_append (cur : Nat) (l : List WEv) : (wTakeDue cur l).1 ++ (wTakeDue cur l).2 = l := by
  induction l with
  | nil => simp [wTakeDue]
  | cons e r ih =>
    unfold wTakeDue
    split
    · simp [ih]
    · simp

/-- in the window, on a sorted list: the fired prefix is exactly the reached thresholds -/
theorem wTakeDue_spec (gW : Nat) (l : List WEv) (hl : ∀ e ∈ l, e.thr = e.gThr % W64)
    (hw : ∀ e ∈ l, e.gThr < gW + H63 ∧ gW < e.gThr + H63) (hs : WSorted l) :
    (∀ e ∈ (wTakeDue (gW % W64) l).1, e.gThr ≤ gW) ∧ (∀ e ∈ (wTakeDue (gW % W64) l).2, gW < e.gThr) := by
  induction l with
  | nil => simp [wTakeDue]
  | cons e r ih =>
    have he := hl e (by simp)
    have hwe := hw e (by simp)
    unfold WSorted at hs
    rw [List.pairwise_cons] at hs
    have ih' := ih (fun a ha => hl a (by simp [ha])) (fun a ha => hw a (by simp [ha])) hs.2
    unfold wTakeDue
    rw [he]
    split
    · rename_i hc
      have := (wLess_false_iff gW e.gThr hwe.2 hwe.1).mp (by simpa using hc)
      refine ⟨?_, ih'.2⟩
      intro a ha
      rcases List.mem_cons.mp ha with h | h
      · subst h; exact this
      · exact ih'.1 a h
    · rename_i hc
      have hc' : wLess (gW % W64) (e.gThr % W64) = true := by simpa using hc
      have := (wLess_iff gW e.gThr hwe.2 hwe.1).mp hc'
      refine ⟨by simp, ?_⟩
      intro a ha
      rcases List.mem_cons.mp ha with h | h
      · subst h; exact this
      · have := hs.1 a h; omega

structure WInv (σ : WSt) : Prop where
  wq : σ.weight = σ.gWeight % W64
  thr : ∀ e ∈ σ.pending, e.thr = e.gThr % W64 ∧ σ.gLast < e.gThr
  last : σ.gLast ≤ σ.gWeight
  sorted : WSorted σ.pending
  fn : σ.checkFn = false → σ.pending = []
  fired : ∀ id g p c, WEvent.fired id g p c ∈ σ.log → p < g ∧ g ≤ c

theorem winv_init (w0 : Nat) : WInv (wInit w0) := by
  constructor <;> simp [wInit, WSorted]

theorem winv_exec {σ : WSt} (h : σ.lapped = true ∨ WInv σ) (op : WOp) :
    (wExec σ op).lapped = true ∨ WInv (wExec σ op) := by
  rcases h with hl | h
  · left
    cases op <;> simp only [wExec]
    · exact hl
    · split
      · exact hl
      · split <;> simp [hl]
    · split
      · exact hl
      · split <;> exact hl
    · split
      · exact hl
      · simp [hl]
  · cases op with
    | add d =>
      right
      simp only [wExec]
      constructor
      · show (σ.weight + d) % W64 = (σ.gWeight + d) % W64
        rw [h.wq]; unfold W64; omega
      · exact h.thr
      · have := h.last; show σ.gLast ≤ σ.gWeight + d; omega
      · exact h.sorted
      · exact h.fn
      · exact h.fired
    | create id delta =>
      simp only [wExec]
      split
      · exact Or.inr h
      · by_cases hwin : windowedB σ [σ.gWeight + delta % W64] = true
        · right
          have hW := (windowedB_iff σ _).mp hwin
          have hg1 : σ.gWeight + delta % W64 < σ.gWeight + H63 :=
            hW _ (by simp) _ (by simp)
          have hthr : (σ.weight + delta % W64) % W64 = (σ.gWeight + delta % W64) % W64 := by
            rw [h.wq]; unfold W64; omega
          have hacc : wLess σ.weight ((σ.weight + delta % W64) % W64) = true ↔ 0 < delta % W64 := by
            rw [hthr, h.wq]
            rw [wLess_iff σ.gWeight (σ.gWeight + delta % W64) (by unfold H63; omega) hg1]
            omega
          split
          · -- "threshold already reached": a zero delta
            constructor
            · exact h.wq
            · exact h.thr
            · exact h.last
            · exact h.sorted
            · exact h.fn
            · intro i g p c hh
              have : WEvent.fired i g p c ∈ σ.log := by simpa using hh
              exact h.fired i g p c this
          · rename_i hrej
            have hpos : 0 < delta % W64 := by
              apply hacc.mp
              cases hw : wLess σ.weight ((σ.weight + delta % W64) % W64)
              · rw [hw] at hrej; simp at hrej
              · rfl
            constructor
            · exact h.wq
            · intro e he
              rcases mem_wInsert.mp he with hh | hh
              · subst hh
                exact ⟨hthr, by have := h.last; show σ.gLast < σ.gWeight + delta % W64; omega⟩
              · exact h.thr e hh
            · exact h.last
            · refine wSorted_insert hthr (fun e he => (h.thr e he).1) ?_ h.sorted
              intro e he
              have hm : e.gThr ∈ σ.gWeight :: ([σ.gWeight + delta % W64] ++ σ.pending.map (·.gThr)) := by
                simp only [List.mem_cons, List.mem_append, List.mem_map]
                exact Or.inr (Or.inr ⟨e, he, rfl⟩)
              exact ⟨hW _ hm _ (by simp), hW _ (by simp) _ hm⟩
            · intro hh; simp at hh
            · intro i g p c hh
              have : WEvent.fired i g p c ∈ σ.log := by simpa using hh
              exact h.fired i g p c this
        · left
          have : windowedB σ [σ.gWeight + delta % W64] = false := by simpa using hwin
          split <;> simp [this]
    | destroy id =>
      right
      simp only [wExec]
      split
      · exact h
      · split
        · exact { h with fired := fun i g p c hh => h.fired i g p c (by simpa using hh) }
        · constructor
          · exact h.wq
          · intro e he; exact h.thr e ((wErase_sublist id _).subset he)
          · exact h.last
          · exact List.Pairwise.sublist (wErase_sublist id _) h.sorted
          · intro hh
            show wErase id σ.pending = []
            cases hp : (wErase id σ.pending).isEmpty
            · simp only [hp, Bool.false_eq_true, if_false] at hh
              have := h.fn hh
              rw [this]; rfl
            · exact List.isEmpty_iff.mp hp
          · intro i g p c hh
            exact h.fired i g p c (by simpa using hh)
    | check =>
      simp only [wExec]
      split
      · rename_i hfn
        right
        have hp := h.fn (by simpa using hfn)
        constructor
        · exact h.wq
        · show ∀ e ∈ σ.pending, _
          rw [hp]; intro e he; simp at he
        · exact Nat.le_refl _
        · exact h.sorted
        · intro _; exact hp
        · intro i g p c hh
          exact h.fired i g p c (by simpa using hh)
      · by_cases hwin : windowedB σ [] = true
        · right
          have hW := (windowedB_iff σ _).mp hwin
          have hw : ∀ e ∈ σ.pending, e.gThr < σ.gWeight + H63 ∧ σ.gWeight < e.gThr + H63 := by
            intro e he
            have hm : e.gThr ∈ σ.gWeight :: ([] ++ σ.pending.map (·.gThr)) := by
              simp only [List.nil_append, List.mem_cons, List.mem_map]
              exact Or.inr ⟨e, he, rfl⟩
            exact ⟨hW _ hm _ (by simp), hW _ (by simp) _ hm⟩
          have hspec := wTakeDue_spec σ.gWeight σ.pending (fun e he => (h.thr e he).1) hw h.sorted
          rw [← h.wq] at hspec
          have happ := wTakeDue_append σ.weight σ.pending
          have hsub2 : (wTakeDue σ.weight σ.pending).2.Sublist σ.pending := by
            conv => rhs; rw [← happ]
            exact List.sublist_append_right _ _
          have hsub1 : (wTakeDue σ.weight σ.pending).1.Sublist σ.pending := by
            conv => rhs; rw [← happ]
            exact List.sublist_append_left _ _
          constructor
          · exact h.wq
          · intro e he
            exact ⟨(h.thr e (hsub2.subset he)).1, hspec.2 e he⟩
          · exact Nat.le_refl _
          · exact List.Pairwise.sublist hsub2 h.sorted
          · intro hh
            show (wTakeDue σ.weight σ.pending).2 = []
            cases hp : (wTakeDue σ.weight σ.pending).2.isEmpty
            · simp only [hp, Bool.false_eq_true, if_false] at hh
              rename_i hfn
              rw [hh] at hfn; simp at hfn
            · exact List.isEmpty_iff.mp hp
          · intro i g p c hh
            simp only [List.mem_cons, List.mem_append, List.mem_reverse, List.mem_map] at hh
            rcases hh with hh | ⟨e, he, heq⟩ | hh
            · exact absurd hh (by simp)
            · injection heq with e1 e2 e3 e4
              subst e2 e3 e4
              exact ⟨(h.thr e (hsub1.subset he)).2, hspec.1 e he⟩
            · exact h.fired i g p c hh
        · left
          have : windowedB σ [] = false := by simpa using hwin
          simp [this]

theorem winv_run (w0 : Nat) (ops : List WOp) : (wRun w0 ops).lapped = true ∨ WInv (wRun w0 ops) := by
  unfold wRun
  have : ∀ (l : List WOp) (σ : WSt), (σ.lapped = true ∨ WInv σ) →
      ((l.foldl wExec σ).lapped = true ∨ WInv (l.foldl wExec σ)) := by
    intro l
    induction l with
    | nil => intro σ h; exact h
    | cons a as ih => intro σ h; exact ih _ (winv_exec h a)
  exact this ops _ (Or.inr (winv_init w0))

end PPLV.Watchdog
