import PPLV.Watchdog.ProofsClock3

/-! `Clock` across a constructor while the clock is running (`new_watchdog_event`, else branch). -/
namespace PPLV.Watchdog

/-- the deadline recorded by `new_watchdog_event` when the clock runs -/
def realDeadline (σ : St) (cs : Int) : Time :=
  (Time.ofCs cs).add (σ.tsf.add (σ.ltr.sub (getTimer σ)))

theorem create_B1_eq (b : Bool) (σ : St) (id : Nat) (cs : Int) (hcs : 0 < cs) (hpc : σ.pc = .idle)
    (hf : id ∉ σ.used) (hr : σ.running = true) (hlt : (Time.ofCs cs).lt (getTimer σ) = true)
    (hdf : σ.deferredFlag = false) :
    steps b 4 (create σ id cs) = { σ with
       pending := insertEv ⟨realDeadline σ cs, id, σ.now, cs⟩ σ.pending
       tsf := σ.tsf.add (σ.ltr.sub (getTimer σ))
       ltr := Time.ofCs cs
       sigOnce := Time.ofCs cs
       remaining := (Time.ofCs cs).toUs
       used := id :: σ.used
       live := id :: σ.live
       inCrit := false
       pc := .idle
       log := .constructed id σ.now :: .setitimer (Time.ofCs cs).toUs :: .getitimer σ.remaining ::
                .born id σ.now cs :: σ.log } := by
  obtain ⟨_, _, hnz, hok⟩ := ofCs_facts hcs
  have hne : ¬ cs ≤ 0 := by omega
  have hlt' : (Time.ofCs cs).lt (getTimer σ) = true := hlt
  simp [steps, create, step, leave, finish, hdf, hpc, hf, hr, hnz, hok, hne, realDeadline]
  simp [getTimer] at hlt'
  simp [getTimer, hlt', hnz, hok]

theorem create_B2_eq (b : Bool) (σ : St) (id : Nat) (cs : Int) (hcs : 0 < cs) (hpc : σ.pc = .idle)
    (hf : id ∉ σ.used) (hr : σ.running = true) (hlt : (Time.ofCs cs).lt (getTimer σ) = false)
    (hdf : σ.deferredFlag = false) :
    steps b 3 (create σ id cs) = { σ with
       pending := insertEv ⟨realDeadline σ cs, id, σ.now, cs⟩ σ.pending
       used := id :: σ.used
       live := id :: σ.live
       inCrit := false
       pc := .idle
       log := .constructed id σ.now :: .getitimer σ.remaining :: .born id σ.now cs :: σ.log } := by
  have hne : ¬ cs ≤ 0 := by omega
  have hlt' : (Time.ofCs cs).lt (getTimer σ) = false := hlt
  simp [steps, create, step, leave, finish, hdf, hpc, hf, hr, hne, realDeadline]
  simp [getTimer] at hlt'
  simp [getTimer, hlt']

end PPLV.Watchdog

namespace PPLV.Watchdog

structure BFacts (σ : St) (cs : Int) : Prop where
  ttsN : (getTimer σ).Norm
  ttsU : (getTimer σ).toUs = σ.remaining
  curN : (σ.tsf.add (σ.ltr.sub (getTimer σ))).Norm
  curU : (σ.tsf.add (σ.ltr.sub (getTimer σ))).toUs = σ.tsf.toUs + σ.ltr.toUs - σ.remaining
  realN : (realDeadline σ cs).Norm
  realU : (realDeadline σ cs).toUs = cs * 10000 + σ.tsf.toUs + σ.ltr.toUs - σ.remaining

theorem bfacts {σ : St} (h : Clock σ) (hr : σ.running = true) {cs : Int} (hcs : 0 < cs) : BFacts σ cs := by
  obtain ⟨a1, a2, a3, a4⟩ := h.armed hr
  obtain ⟨hn, hu, _, _⟩ := ofCs_facts hcs
  have ttsN : (getTimer σ).Norm := Time.mk2_timer_norm h.remNonneg
  have ttsU : (getTimer σ).toUs = σ.remaining := Time.mk2_timer_toUs h.remNonneg
  have elN := Time.sub_norm h.normL ttsN
  have elU : (σ.ltr.sub (getTimer σ)).toUs = σ.ltr.toUs - σ.remaining := by
    rw [Time.sub_toUs_ge h.normL ttsN (by omega), ttsU]
  have curN := Time.add_norm h.normT elN
  have curU : (σ.tsf.add (σ.ltr.sub (getTimer σ))).toUs = σ.tsf.toUs + σ.ltr.toUs - σ.remaining := by
    rw [Time.add_toUs h.normT elN, elU]; omega
  refine ⟨ttsN, ttsU, curN, curU, Time.add_norm hn curN, ?_⟩
  unfold realDeadline
  rw [Time.add_toUs hn curN, curU, hu]; omega

/-- the shared part of the two running-clock cases: pending list, births, cover after insertion -/
theorem clock_insert_parts {σ : St} (h : Clock σ) (hr : σ.running = true) (id : Nat) {cs : Int}
    (hcs : 0 < cs) (F : BFacts σ cs) :
    AllNorm (insertEv ⟨realDeadline σ cs, id, σ.now, cs⟩ σ.pending) ∧
    Sorted (insertEv ⟨realDeadline σ cs, id, σ.now, cs⟩ σ.pending) ∧
    (∀ e ∈ insertEv ⟨realDeadline σ cs, id, σ.now, cs⟩ σ.pending,
        σ.epoch + e.deadline.toUs = e.gBirth + e.gCs * 10000 ∧ 0 < e.gCs) ∧
    (∀ x r, insertEv ⟨realDeadline σ cs, id, σ.now, cs⟩ σ.pending = x :: r →
        x.deadline.toUs = min (realDeadline σ cs).toUs (σ.tsf.toUs + σ.ltr.toUs)) := by
  obtain ⟨a1, a2, a3, a4⟩ := h.armed hr
  refine ⟨allNorm_insertEv F.realN h.normP, sorted_insertEv F.realN h.normP h.sorted, ?_, ?_⟩
  · intro e he
    rcases mem_insertEv.mp he with hh | hh
    · subst hh
      refine ⟨?_, hcs⟩
      show σ.epoch + (realDeadline σ cs).toUs = σ.now + cs * 10000
      rw [F.realU]; omega
    · exact h.birth e hh
  · intro x r hx
    have hne : σ.pending ≠ [] := h.run.mp hr
    cases hpd : σ.pending with
    | nil => exact absurd hpd hne
    | cons e0 r0 =>
      rw [hpd] at hx
      have he0 : e0.deadline.Norm := h.normP e0 (by rw [hpd]; simp)
      obtain ⟨hd, tl, heq, hmin, _⟩ := head_insertEv (x := ⟨realDeadline σ cs, id, σ.now, cs⟩) (r := r0) F.realN he0
      rw [heq] at hx
      injection hx with e1 e2
      subst e1
      rw [hmin, a4 e0 r0 hpd]

theorem clock_create_B1 {σ : St} (h : Clock σ) (id : Nat) (cs : Int) (hcs : 0 < cs) (hpc : σ.pc = .idle)
    (hf : id ∉ σ.used) (hr : σ.running = true) (hlt : (Time.ofCs cs).lt (getTimer σ) = true)
    (hdf : σ.deferredFlag = false) : Clock (steps false 4 (create σ id cs)) := by
  rw [create_B1_eq false σ id cs hcs hpc hf hr hlt hdf]
  obtain ⟨hn, hu, _, _⟩ := ofCs_facts hcs
  obtain ⟨a1, a2, a3, a4⟩ := h.armed hr
  have F := bfacts h hr hcs
  have hlt' : cs * 10000 < σ.remaining := by
    have := (Time.lt_iff hn F.ttsN).mp hlt
    rw [hu, F.ttsU] at this; exact this
  obtain ⟨p1, p2, p3, p4⟩ := clock_insert_parts h hr id hcs F
  constructor
  · exact Or.inl rfl
  · rfl
  · exact h.noErr
  · exact F.curN
  · exact hn
  · exact p1
  · exact p2
  · show 0 ≤ (Time.ofCs cs).toUs
    omega
  · show σ.running = true ↔ insertEv _ σ.pending ≠ []
    simp only [hr, true_iff]
    intro hh
    have : (⟨realDeadline σ cs, id, σ.now, cs⟩ : Ev) ∈ insertEv ⟨realDeadline σ cs, id, σ.now, cs⟩ σ.pending :=
      mem_insertEv.mpr (Or.inl rfl)
    rw [hh] at this; simp at this
  · intro _
    refine ⟨?_, Int.le_refl _, ?_, ?_⟩
    · show 0 < (Time.ofCs cs).toUs
      omega
    · show σ.now - σ.epoch = (σ.tsf.add (σ.ltr.sub (getTimer σ))).toUs + (Time.ofCs cs).toUs - (Time.ofCs cs).toUs
      rw [F.curU]; omega
    · intro x r hx
      have h1 := p4 x r hx
      have h2 := F.realU
      have h3 := F.curU
      show x.deadline.toUs = (σ.tsf.add (σ.ltr.sub (getTimer σ))).toUs + (Time.ofCs cs).toUs
      omega
  · intro hh
    have : σ.running = false := hh
    rw [hr] at this; exact absurd this (by simp)
  · exact p3
  · intro i t b' cs' hh
    have : Event.fired i t b' cs' ∈ σ.log := by simpa using hh
    exact h.exact i t b' cs' this
  · exact ordered_cons_other (ordered_cons_other (ordered_cons_other (ordered_cons_other h.ordered
      (by intros; simp)) (by intros; simp)) (by intros; simp)) (by intros; simp)
  · intro i b' cs' hh
    have hh' : (i = id ∧ b' = σ.now ∧ cs' = cs) ∨ Event.born i b' cs' ∈ σ.log := by simpa using hh
    rcases hh' with ⟨e1, e2, e3⟩ | hh'
    · left; exact ⟨_, mem_insertEv.mpr (Or.inl rfl), e1.symm, e2.symm, e3.symm⟩
    · rcases h.cover i b' cs' hh' with ⟨e, he, he2⟩ | ⟨t, ht⟩ | ⟨t, ht⟩
      · left; exact ⟨e, mem_insertEv.mpr (Or.inr he), he2⟩
      · right; left; exact ⟨t, by simp [ht]⟩
      · right; right; exact ⟨t, by simp [ht]⟩

theorem clock_create_B2 {σ : St} (h : Clock σ) (id : Nat) (cs : Int) (hcs : 0 < cs) (hpc : σ.pc = .idle)
    (hf : id ∉ σ.used) (hr : σ.running = true) (hlt : (Time.ofCs cs).lt (getTimer σ) = false)
    (hdf : σ.deferredFlag = false) : Clock (steps false 3 (create σ id cs)) := by
  rw [create_B2_eq false σ id cs hcs hpc hf hr hlt hdf]
  obtain ⟨hn, hu, _, _⟩ := ofCs_facts hcs
  obtain ⟨a1, a2, a3, a4⟩ := h.armed hr
  have F := bfacts h hr hcs
  have hlt' : σ.remaining ≤ cs * 10000 := by
    have := (Time.lt_false_iff hn F.ttsN).mp hlt
    rw [hu, F.ttsU] at this; exact this
  obtain ⟨p1, p2, p3, p4⟩ := clock_insert_parts h hr id hcs F
  constructor
  · exact Or.inl rfl
  · rfl
  · exact h.noErr
  · exact h.normT
  · exact h.normL
  · exact p1
  · exact p2
  · exact h.remNonneg
  · show σ.running = true ↔ insertEv _ σ.pending ≠ []
    simp only [hr, true_iff]
    intro hh
    have : (⟨realDeadline σ cs, id, σ.now, cs⟩ : Ev) ∈ insertEv ⟨realDeadline σ cs, id, σ.now, cs⟩ σ.pending :=
      mem_insertEv.mpr (Or.inl rfl)
    rw [hh] at this; simp at this
  · intro _
    refine ⟨a1, a2, a3, ?_⟩
    intro x r hx
    have h1 := p4 x r hx
    have h2 := F.realU
    show x.deadline.toUs = σ.tsf.toUs + σ.ltr.toUs
    omega
  · exact h.idleT
  · exact p3
  · intro i t b' cs' hh
    have : Event.fired i t b' cs' ∈ σ.log := by simpa using hh
    exact h.exact i t b' cs' this
  · exact ordered_cons_other (ordered_cons_other (ordered_cons_other h.ordered
      (by intros; simp)) (by intros; simp)) (by intros; simp)
  · intro i b' cs' hh
    have hh' : (i = id ∧ b' = σ.now ∧ cs' = cs) ∨ Event.born i b' cs' ∈ σ.log := by simpa using hh
    rcases hh' with ⟨e1, e2, e3⟩ | hh'
    · left; exact ⟨_, mem_insertEv.mpr (Or.inl rfl), e1.symm, e2.symm, e3.symm⟩
    · rcases h.cover i b' cs' hh' with ⟨e, he, he2⟩ | ⟨t, ht⟩ | ⟨t, ht⟩
      · left; exact ⟨e, mem_insertEv.mpr (Or.inr he), he2⟩
      · right; left; exact ⟨t, by simp [ht]⟩
      · right; right; exact ⟨t, by simp [ht]⟩

end PPLV.Watchdog
