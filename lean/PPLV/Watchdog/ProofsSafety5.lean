import PPLV.Watchdog.ProofsSafety4

/-! `Safe` is preserved by the signal handler and by `tick`; hence by every schedule. -/
namespace PPLV.Watchdog

theorem safe_handler (b : Bool) {σ : St} (h : Safe σ) : Safe (handler b σ) := by
  unfold handler
  split
  · have h1 : Safe { σ with log := Event.deferred σ.now :: σ.log } :=
      h.same rfl rfl rfl rfl rfl (Or.inr ⟨_, rfl, neutral_simple.2.2.2.2.1 _⟩)
    split
    · exact safe_setTimerH h1 _
    · exact h.same rfl rfl rfl rfl rfl (Or.inr ⟨_, rfl, neutral_simple.2.2.2.2.1 _⟩)
  · exact safe_handlerBody b none h (by intro fin hh; cases hh)

theorem safe_tick (b : Bool) {σ : St} (h : Safe σ) (dt : Int) : Safe (tick b σ dt) := by
  unfold tick
  split
  · exact h
  · split
    · exact h.same rfl rfl rfl rfl rfl (Or.inl rfl)
    · split
      · exact h.same rfl rfl rfl rfl rfl (Or.inl rfl)
      · exact safe_handler b (h.same rfl rfl rfl rfl rfl (Or.inl rfl))

theorem safe_exec (b : Bool) {σ : St} (h : Safe σ) (s : Step) : Safe (exec b σ s) := by
  cases s with
  | create id cs => exact safe_create h id cs
  | destroy id => exact safe_destroy h id
  | step => exact safe_step b h
  | tick d => exact safe_tick b h d

theorem safe_runFrom (b : Bool) (sched : List Step) : ∀ σ, Safe σ → Safe (runFrom b σ sched) := by
  induction sched with
  | nil => intro σ h; exact h
  | cons s l ih => intro σ h; exact ih _ (safe_exec b h s)

theorem safe_run (b : Bool) (sched : List Step) : Safe (run b sched) :=
  safe_runFrom b sched {} safe_init

end PPLV.Watchdog
