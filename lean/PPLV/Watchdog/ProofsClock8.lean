import PPLV.Watchdog.ProofsClock7

/-! Consequences of the invariants, in the form used by `PPLV/Props/C19.lean`. -/
namespace PPLV.Watchdog

theorem setTimerH_log_suffix (τ : St) (t : Time) (base : List Event) (h : ∃ es, τ.log = es ++ base) :
    ∃ es, (setTimerH τ t).log = es ++ base := by
  obtain ⟨es, hes⟩ := h
  unfold setTimerH
  split
  · exact ⟨Event.internalError :: es, by simp [hes]⟩
  · split
    · exact ⟨Event.hset t.toUs :: es, by simp [hes]⟩
    · exact ⟨Event.internalError :: es, by simp [hes]⟩

theorem handlerBody_log_suffix (b : Bool) (sync : Option Fin) (τ : St) :
    ∃ es, (handlerBody b sync τ).log = es ++ τ.log := by
  unfold handlerBody
  simp only
  split
  · exact ⟨[], rfl⟩
  · split
    · exact ⟨_, rfl⟩
    · split
      · exact setTimerH_log_suffix _ _ _ ⟨_, rfl⟩
      · split
        · exact ⟨Event.internalError :: _, rfl⟩
        · exact ⟨_, rfl⟩

theorem finish_log_suffix (τ : St) (fin : Fin) : ∃ es, (finish τ fin).log = es ++ τ.log := by
  cases fin <;> exact ⟨[_], rfl⟩

theorem leave_log_suffix (τ : St) (fin : Fin) : ∃ es, (leave τ fin).log = es ++ τ.log := by
  unfold leave
  split
  · exact ⟨[], rfl⟩
  · exact finish_log_suffix { τ with inCrit := false } fin

theorem step_log_suffix (b : Bool) (σ : St) : ∃ es, (step b σ).log = es ++ σ.log := by
  unfold step
  split
  case h_7 => exact leave_log_suffix σ _
  case h_14 => exact leave_log_suffix σ _
  case h_16 =>
    split
    · simp only
      split
      · obtain ⟨e1, h1⟩ := handlerBody_log_suffix b (some _) σ
        obtain ⟨e2, h2⟩ := finish_log_suffix (handlerBody b (some _) σ) _
        exact ⟨e2 ++ e1, by rw [h2, h1]; simp⟩
      · exact handlerBody_log_suffix b (some _) σ
    · exact finish_log_suffix σ _
  case h_18 => exact finish_log_suffix σ _
  all_goals
    (repeat' split) <;>
    (first
      | exact ⟨[], rfl⟩
      | exact ⟨[_], rfl⟩
      | exact ⟨[_, _], rfl⟩
      | (simp only [throwCtor]; exact ⟨[_, _], rfl⟩)
      | (simp only [apply_ite St.log]; split <;> first | exact ⟨[], rfl⟩ | exact ⟨[_], rfl⟩))

theorem steps_log_suffix (b : Bool) (n : Nat) : ∀ σ, ∃ es, (steps b n σ).log = es ++ σ.log := by
  induction n with
  | zero => intro σ; exact ⟨[], rfl⟩
  | succ k ih =>
    intro σ
    obtain ⟨es1, h1⟩ := step_log_suffix b σ
    obtain ⟨es2, h2⟩ := ih (step b σ)
    exact ⟨es2 ++ es1, by show (steps b k (step b σ)).log = _; rw [h2, h1]; simp⟩

/-- what the clock invariant yields for the log of ANY reachable state (inside or outside a
critical section) of a quiet run of the repaired code -/
theorem quiet_log_facts {σ : St} (h : Inv σ) (hd : σ.dirty = false) :
    ∃ l, (∃ es, l = es ++ σ.log) ∧
      (∀ id t b cs, Event.fired id t b cs ∈ l → t = b + cs * 10000) ∧ Ordered l := by
  rcases h with h1 | hc | ⟨_, n, hn⟩
  · rw [hd] at h1; exact absurd h1 (by simp)
  · exact ⟨σ.log, ⟨[], rfl⟩, fun id t b cs hh => (hc.exact id t b cs hh).1, hc.ordered⟩
  · obtain ⟨es, hes⟩ := steps_log_suffix false n σ
    exact ⟨(steps false n σ).log, ⟨es, hes⟩, fun id t b cs hh => (hn.exact id t b cs hh).1, hn.ordered⟩

theorem ordered_suffix : ∀ (es l : List Event), Ordered (es ++ l) → Ordered l := by
  intro es
  induction es with
  | nil => intro l h; exact h
  | cons a as ih => intro l h; exact ih l h.1

theorem clock_of_quiet {σ : St} (h : Inv σ) (hd : σ.dirty = false)
    (hc : σ.inCrit = false) : Clock σ := by
  rcases h with h1 | h1 | ⟨h1, _⟩
  · rw [hd] at h1; exact absurd h1 (by simp)
  · exact h1
  · rw [hc] at h1; exact absurd h1 (by simp)

/-- outside critical sections no pending watchdog is overdue -/
theorem Clock.prompt {σ : St} (h : Clock σ) (id : Nat) (b cs : Int)
    (hborn : Event.born id b cs ∈ σ.log) (hdue : b + cs * 10000 ≤ σ.now) :
    (Event.fired id (b + cs * 10000) b cs ∈ σ.log) ∨ destroyedIn σ.log id := by
  rcases h.cover id b cs hborn with ⟨e, he, e1, e2, e3⟩ | ⟨t, ht⟩ | hd
  · exfalso
    have hne : σ.pending ≠ [] := fun hh => by rw [hh] at he; simp at he
    have hr := h.run.mpr hne
    obtain ⟨a1, a2, a3, a4⟩ := h.armed hr
    have hb := (h.birth e he).1
    cases hp : σ.pending with
    | nil => exact hne hp
    | cons e0 r0 =>
      have h0 := a4 e0 r0 hp
      have hle : e0.deadline.toUs ≤ e.deadline.toUs := by
        rw [hp] at he
        rcases List.mem_cons.mp he with hh | hh
        · rw [hh]; exact Int.le_refl _
        · have := h.sorted; rw [hp] at this
          unfold Sorted at this; rw [List.pairwise_cons] at this
          exact this.1 e hh
      rw [e2, e3] at hb
      omega
  · left
    have := (h.exact id t b cs ht).1
    rw [this] at ht; exact ht
  · exact Or.inr hd

/-- the list form of `NAD` -/
theorem nad_split : ∀ (pre post : List Event) (id : Nat) (t b cs : Int),
    NAD (pre ++ Event.fired id t b cs :: post) → ¬ destroyedIn post id := by
  intro pre
  induction pre with
  | nil => intro post id t b cs h; exact h.2 id t b cs rfl
  | cons a as ih => intro post id t b cs h; exact ih post id t b cs h.1

theorem ordered_split : ∀ (pre post : List Event) (id : Nat) (t b cs : Int),
    Ordered (pre ++ Event.fired id t b cs :: post) →
    ∀ id' t' b' cs', Event.fired id' t' b' cs' ∈ post → b' + cs' * 10000 ≤ b + cs * 10000 := by
  intro pre
  induction pre with
  | nil => intro post id t b cs h; exact h.2 id t b cs rfl
  | cons a as ih => intro post id t b cs h; exact ih post id t b cs h.1

theorem firedOnce_split : ∀ (pre post : List Event) (id : Nat) (t b cs : Int),
    FiredOnce (pre ++ Event.fired id t b cs :: post) → ¬ firedIn post id := by
  intro pre
  induction pre with
  | nil => intro post id t b cs h; exact h.2 id t b cs rfl
  | cons a as ih => intro post id t b cs h; exact ih post id t b cs h.1

/-- number of firings of `id` in a log -/
def firedCount (log : List Event) (id : Nat) : Nat := (log.filter (Event.isFiredOf id)).length

theorem firedCount_zero_of_not_firedIn {l : List Event} {id : Nat} (h : ¬ firedIn l id) :
    firedCount l id = 0 := by
  unfold firedCount
  rw [List.length_eq_zero_iff, List.filter_eq_nil_iff]
  intro e he hf
  cases e <;> simp [Event.isFiredOf] at hf
  rename_i i t b cs
  subst hf
  exact h ⟨t, b, cs, he⟩

theorem firedCount_le_one {l : List Event} (h : FiredOnce l) (id : Nat) : firedCount l id ≤ 1 := by
  induction l with
  | nil => simp [firedCount]
  | cons e r ih =>
    have ih' := ih h.1
    unfold firedCount at ih' ⊢
    rw [List.filter_cons]
    split
    · rename_i hf
      cases e <;> simp [Event.isFiredOf] at hf
      rename_i i t b cs
      subst hf
      have := firedCount_zero_of_not_firedIn (h.2 i t b cs rfl)
      unfold firedCount at this
      simp [this]
    · exact ih'

end PPLV.Watchdog
