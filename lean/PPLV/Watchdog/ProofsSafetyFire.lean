import PPLV.Watchdog.ProofsSafety3

/-! `Safe` is preserved when handler actions run (`handlerBody`), from the signal handler or from
`leave_critical_section`. -/
namespace PPLV.Watchdog

/-- the handler action of the first pending element runs -/
def fireHead (now : Int) (σ : St) (a : Ev) : St :=
  { σ with pending := σ.pending.tail, expired := a.id :: σ.expired,
           log := Event.fired a.id now a.gBirth a.gCs :: σ.log }

def fireList (now : Int) : List Ev → St → St
  | [], σ => σ
  | a :: l, σ => fireList now l (fireHead now σ a)

theorem safe_fireHead {σ : St} (h : Safe σ) {a : Ev} {tl : List Ev} (now : Int)
    (hp : σ.pending = a :: tl) : Safe (fireHead now σ a) := by
  have ha := h.pend a (by rw [hp]; simp)
  have hnd : a.id ∉ ids tl ∧ (ids tl).Nodup := by
    have := h.nodup; rw [hp] at this; simpa [ids] using this
  have memb : ∀ i b cs, Event.born i b cs ∈ (fireHead now σ a).log ↔ Event.born i b cs ∈ σ.log := by
    intro i b cs; simp [fireHead]
  have memd : ∀ i, destroyedIn (fireHead now σ a).log i ↔ destroyedIn σ.log i := by
    intro i; simp [fireHead, destroyedIn]
  constructor
  · show (ids σ.pending.tail).Nodup
    rw [hp]; exact hnd.2
  · show ∀ e ∈ σ.pending.tail, _
    rw [hp]
    intro e he
    have hmem : e ∈ σ.pending := by rw [hp]; exact List.mem_cons_of_mem _ he
    have := h.pend e hmem
    refine ⟨?_, fun hd => this.2.1 ((memd _).mp hd), this.2.2.1, (memb _ _ _).mpr this.2.2.2⟩
    show e.id ∉ a.id :: σ.expired
    intro hh
    rcases List.mem_cons.mp hh with hh | hh
    · exact hnd.1 (mem_ids.mpr ⟨e, he, hh⟩)
    · exact this.1 hh
  · intro i t b cs hh
    rcases List.mem_cons.mp hh with hh | hh
    · injection hh with e1 e2 e3 e4
      subst e1 e3 e4
      exact ⟨List.mem_cons_self, (memb _ _ _).mpr ha.2.2.2⟩
    · have := h.firedExp i t b cs hh
      exact ⟨List.mem_cons_of_mem _ this.1, (memb _ _ _).mpr this.2⟩
  · intro i hi
    rcases List.mem_cons.mp hi with hh | hh
    · rw [hh]; exact ha.2.2.1
    · exact h.expUsed i hh
  · intro i b cs hh; exact h.bornUsed i b cs ((memb _ _ _).mp hh)
  · intro i b cs b' cs' h1 h2
    exact h.bornUniq i b cs b' cs' ((memb _ _ _).mp h1) ((memb _ _ _).mp h2)
  · intro i t hh
    have : Event.destroyed i t ∈ σ.log := by simpa [fireHead] using hh
    exact h.destUsed i t this
  · exact h.liveUsed
  · refine ⟨h.once, ?_⟩
    intro i t b cs heq ⟨t', b', cs', hf⟩
    injection heq with e1 e2 e3 e4
    subst e1
    exact ha.1 (h.firedExp _ _ _ _ hf).1
  · refine ⟨h.nad, ?_⟩
    intro i t b cs heq hd
    injection heq with e1 e2 e3 e4
    subst e1
    exact ha.2.1 hd
  · refine h.pcOK.mono h rfl ?_ ?_ (fun _ x => x) (fun i b cs x => (memb i b cs).mpr x) (fun i x => (memd i).mp x)
    · intro i hi
      have : i ∈ ids σ.pending.tail := hi
      rw [hp] at this ⊢
      simp only [ids, List.map_cons, List.mem_cons]
      exact Or.inr this
    · intro i hi
      rcases List.mem_cons.mp hi with hh | hh
      · right; rw [hh, hp]; simp [ids]
      · exact Or.inl hh

theorem safe_fireList (now : Int) : ∀ (due : List Ev) (σ : St) (rest : List Ev), Safe σ →
    σ.pending = due ++ rest →
    Safe (fireList now due σ) ∧ (fireList now due σ).pending = rest ∧
    (fireList now due σ).expired = (due.map (·.id)).reverse ++ σ.expired ∧
    (fireList now due σ).log = (firedEvents now due).reverse ++ σ.log ∧
    (fireList now due σ).used = σ.used ∧ (fireList now due σ).live = σ.live ∧
    (fireList now due σ).pc = σ.pc := by
  intro due
  induction due with
  | nil => intro σ rest h hp; simp [fireList, firedEvents, hp, h]
  | cons a l ih =>
    intro σ rest h hp
    have h1 := safe_fireHead h now (tl := l ++ rest) (by simpa using hp)
    have hp1 : (fireHead now σ a).pending = l ++ rest := by
      show σ.pending.tail = _
      rw [hp]; simp
    obtain ⟨i1, i2, i3, i4, i5, i6, i7⟩ := ih (fireHead now σ a) rest h1 hp1
    refine ⟨i1, i2, ?_, ?_, i5, i6, i7⟩
    · show (fireList now l (fireHead now σ a)).expired = _
      rw [i3]; simp [fireHead]
    · show (fireList now l (fireHead now σ a)).log = _
      rw [i4]; simp [fireHead, firedEvents]

theorem safe_handlerBody (b : Bool) (sync : Option Fin) {σ : St} (h : Safe σ)
    (hs : ∀ fin, sync = some fin → FinOK σ fin) : Safe (handlerBody b sync σ) := by
  unfold handlerBody
  simp only
  split
  · exact h.same rfl rfl rfl rfl rfl (Or.inl rfl)
  · rename_i e r hp
    have happ : σ.pending = (e :: (takeDue b (σ.tsf.add σ.ltr) r).1) ++ (takeDue b (σ.tsf.add σ.ltr) r).2 := by
      rw [hp]; simp [takeDue_append]
    obtain ⟨i1, i2, i3, i4, i5, i6, i7⟩ := safe_fireList σ.now _ σ _ h happ
    have h2 : Safe { σ with
        tsf := σ.tsf.add σ.ltr
        pending := (takeDue b (σ.tsf.add σ.ltr) r).2
        expired := ((e :: (takeDue b (σ.tsf.add σ.ltr) r).1).map (·.id)).reverse ++ σ.expired
        log := (firedEvents σ.now (e :: (takeDue b (σ.tsf.add σ.ltr) r).1)).reverse ++ σ.log } :=
      i1.same i2.symm i3.symm i5.symm i6.symm i7.symm (Or.inl i4.symm)
    split
    · exact h2.same rfl rfl rfl rfl rfl (Or.inl rfl)
    · split
      · exact safe_setTimerH h2 _
      · rename_i fin
        have hfin : FinOK σ fin := hs fin rfl
        have hsub : ∀ i, i ∈ ids (takeDue b (σ.tsf.add σ.ltr) r).2 → i ∈ ids σ.pending := by
          intro i hi
          have hsl : (takeDue b (σ.tsf.add σ.ltr) r).2.Sublist σ.pending := by
            rw [hp]; exact (takeDue_sublist_snd _ _ _).trans (List.sublist_cons_self e r)
          exact (ids_sublist hsl).subset hi
        split
        · refine h2.move rfl rfl rfl h2.liveUsed (Or.inr ⟨_, rfl, neutral_simple.2.2.2.2.2.1⟩) ?_
          unfold PcOK PcOKAt; simp
        · refine h2.move rfl rfl rfl h2.liveUsed (Or.inl rfl) ?_
          show PcOKAt _ (PC.l4 fin)
          simp only [PcOKAt]
          exact FinOK.mono hfin hsub (fun _ x => x)

end PPLV.Watchdog
