import PPLV.Watchdog.ProofsClock5

/-! `Clock` after each of the five paths through the destructor. -/
namespace PPLV.Watchdog

theorem clock_destroy_general {σ σ' : St} (h : Clock σ) (id : Nat)
    (hpend : σ'.pending = eraseId id σ.pending) (hpc : σ'.pc = .idle) (hcrit : σ'.inCrit = false)
    (herr : σ'.err = σ.err) (hnow : σ'.now = σ.now) (hep : σ'.epoch = σ.epoch)
    (hlog : ∃ es, σ'.log = Event.destroyed id σ.now :: (es ++ σ.log) ∧ ∀ e ∈ es, e.neutral)
    (hT : σ'.tsf.Norm) (hL : σ'.ltr.Norm) (hR : 0 ≤ σ'.remaining)
    (hrun : σ'.running = true ↔ σ'.pending ≠ [])
    (harmed : σ'.running = true → 0 < σ'.remaining ∧ σ'.remaining ≤ σ'.ltr.toUs ∧
      σ'.now - σ'.epoch = σ'.tsf.toUs + σ'.ltr.toUs - σ'.remaining ∧
      ∀ e r, σ'.pending = e :: r → e.deadline.toUs = σ'.tsf.toUs + σ'.ltr.toUs)
    (hidle : σ'.running = false → σ'.remaining = 0) : Clock σ' := by
  obtain ⟨es, hl, hes⟩ := hlog
  obtain ⟨q1, q2, q3⟩ := log_parts_destroy h id σ.now es hes (eraseId id σ.pending)
    (fun x hx hne => mem_eraseId_of_ne hx hne)
  constructor
  · exact Or.inl hpc
  · exact hcrit
  · rw [herr]; exact h.noErr
  · exact hT
  · exact hL
  · rw [hpend]; intro x hx; exact h.normP x (mem_of_mem_eraseId hx)
  · rw [hpend]; exact sorted_eraseId h.sorted
  · exact hR
  · exact hrun
  · exact harmed
  · exact hidle
  · rw [hpend, hep]; intro x hx; exact h.birth x (mem_of_mem_eraseId hx)
  · rw [hl, hnow]; exact q1
  · rw [hl]; exact q2
  · rw [hl, hpend]; exact q3

theorem clock_destroy_nil {σ : St} (h : Clock σ) (id : Nat) (hpc : σ.pc = .d1 id) (hp : σ.pending = [])
    (hdf : σ.deferredFlag = false) : Clock (steps false 2 σ) := by
  rw [destroy_nil_eq false σ id hpc hp hdf]
  have hnr : σ.running = false := by
    cases hr : σ.running
    · rfl
    · exact absurd hp (h.run.mp hr)
  refine clock_destroy_general h id (by show σ.pending = _; rw [hp]; rfl) rfl rfl rfl rfl rfl
    ⟨[], rfl, by simp⟩ h.normT h.normL h.remNonneg h.run ?_ h.idleT
  intro hr; have : σ.running = true := hr; rw [hnr] at this; exact absurd this (by simp)

theorem clock_destroy_other {σ : St} (h : Clock σ) (id : Nat) (hpc : σ.pc = .d1 id) (e : Ev) (rest : List Ev)
    (hp : σ.pending = e :: rest) (hne : e.id ≠ id) (hdf : σ.deferredFlag = false) :
    Clock (steps false 2 σ) := by
  rw [destroy_other_eq false σ id hpc e rest hp hne hdf]
  have hr : σ.running = true := h.run.mpr (by rw [hp]; simp)
  obtain ⟨a1, a2, a3, a4⟩ := h.armed hr
  have her : eraseId id σ.pending = e :: eraseId id rest := by rw [hp]; simp [eraseId, hne]
  refine clock_destroy_general h id rfl rfl rfl rfl rfl rfl ⟨[], rfl, by simp⟩ h.normT h.normL h.remNonneg ?_ ?_ h.idleT
  · show σ.running = true ↔ eraseId id σ.pending ≠ []
    rw [her]; simp [hr]
  · intro _
    refine ⟨a1, a2, a3, ?_⟩
    intro x r hx
    have hx' : eraseId id σ.pending = x :: r := hx
    rw [her] at hx'
    injection hx' with e1 e2
    subst e1
    exact a4 e rest hp

theorem clock_destroy_eqdl {σ : St} (h : Clock σ) (id : Nat) (hpc : σ.pc = .d1 id) (e n : Ev) (rest : List Ev)
    (hp : σ.pending = e :: n :: rest) (he : e.id = id)
    (hne : Time.ne false e.deadline n.deadline = false) (hdf : σ.deferredFlag = false) :
    Clock (steps false 2 σ) := by
  rw [destroy_eqdl_eq σ id hpc e n rest hp he hne hdf]
  have hr : σ.running = true := h.run.mpr (by rw [hp]; simp)
  obtain ⟨a1, a2, a3, a4⟩ := h.armed hr
  have her : eraseId id σ.pending = n :: rest := by rw [hp]; simp [eraseId, he]
  have hen : e.deadline.Norm := h.normP e (by rw [hp]; simp)
  have hnn : n.deadline.Norm := h.normP n (by rw [hp]; simp)
  have heq : e.deadline.toUs = n.deadline.toUs := by
    have := Time.ne_false_iff hen hnn
    by_cases hh : e.deadline.toUs = n.deadline.toUs
    · exact hh
    · have := this.mpr hh; rw [hne] at this; exact absurd this (by simp)
  refine clock_destroy_general h id rfl rfl rfl rfl rfl rfl ⟨[], rfl, by simp⟩ h.normT h.normL h.remNonneg ?_ ?_ h.idleT
  · show σ.running = true ↔ eraseId id σ.pending ≠ []
    rw [her]; simp [hr]
  · intro _
    refine ⟨a1, a2, a3, ?_⟩
    intro x r hx
    have hx' : eraseId id σ.pending = x :: r := hx
    rw [her] at hx'
    injection hx' with e1 e2
    subst e1
    have := a4 e (n :: rest) hp
    show n.deadline.toUs = σ.tsf.toUs + σ.ltr.toUs
    omega

theorem clock_destroy_last {σ : St} (h : Clock σ) (id : Nat) (hpc : σ.pc = .d1 id) (e : Ev)
    (hp : σ.pending = [e]) (he : e.id = id) (hdf : σ.deferredFlag = false) : Clock (steps false 4 σ) := by
  rw [destroy_last_eq false σ id hpc e hp he hdf]
  have her : eraseId id σ.pending = [] := by rw [hp]; simp [eraseId, he]
  refine clock_destroy_general h id rfl rfl rfl rfl rfl rfl ⟨[Event.setitimer Time.zero.toUs], rfl, ?_⟩
    h.normT h.normL ?_ ?_ ?_ ?_
  · intro x hx; simp at hx; subst hx; exact neutral_simple.1 _
  · show 0 ≤ Time.zero.toUs
    rw [Time.toUs_zero]; exact Int.le_refl 0
  · show false = true ↔ eraseId id σ.pending ≠ []
    rw [her]; simp
  · intro hh; exact absurd hh (by simp)
  · intro _; exact Time.toUs_zero

theorem clock_destroy_rearm {σ : St} (h : Clock σ) (id : Nat) (hpc : σ.pc = .d1 id) (e n : Ev) (rest : List Ev)
    (hp : σ.pending = e :: n :: rest) (he : e.id = id)
    (hne : Time.ne false e.deadline n.deadline = true) (hdf : σ.deferredFlag = false) :
    Clock (steps false 5 σ) := by
  have hr : σ.running = true := h.run.mpr (by rw [hp]; simp)
  obtain ⟨a1, a2, a3, a4⟩ := h.armed hr
  have hen : e.deadline.Norm := h.normP e (by rw [hp]; simp)
  have hnn : n.deadline.Norm := h.normP n (by rw [hp]; simp)
  have hneq : e.deadline.toUs ≠ n.deadline.toUs := (Time.ne_false_iff hen hnn).mp hne
  have hle : e.deadline.toUs ≤ n.deadline.toUs := by
    have := h.sorted; rw [hp] at this
    unfold Sorted at this; rw [List.pairwise_cons] at this
    exact this.1 n (by simp)
  have ttsN : (getTimer σ).Norm := Time.mk2_timer_norm h.remNonneg
  have ttsU : (getTimer σ).toUs = σ.remaining := Time.mk2_timer_toUs h.remNonneg
  have ndN := Time.sub_norm hnn hen
  have ndU : (n.deadline.sub e.deadline).toUs = n.deadline.toUs - e.deadline.toUs :=
    Time.sub_toUs_ge hnn hen hle
  have rN : (rearmTime σ e n).Norm := Time.add_norm ttsN ndN
  have rU : (rearmTime σ e n).toUs = σ.remaining + (n.deadline.toUs - e.deadline.toUs) := by
    unfold rearmTime; rw [Time.add_toUs ttsN ndN, ttsU, ndU]
  have hnz : (rearmTime σ e n).isZero = false := by
    cases hz : (rearmTime σ e n).isZero
    · rfl
    · have := (Time.isZero_iff rN).mp hz; omega
  have hok := Time.timevalOK_of_norm rN
  have elN := Time.sub_norm h.normL ttsN
  have elU : (σ.ltr.sub (getTimer σ)).toUs = σ.ltr.toUs - σ.remaining := by
    rw [Time.sub_toUs_ge h.normL ttsN (by omega), ttsU]
  have curN := Time.add_norm h.normT elN
  have curU : (σ.tsf.add (σ.ltr.sub (getTimer σ))).toUs = σ.tsf.toUs + σ.ltr.toUs - σ.remaining := by
    rw [Time.add_toUs h.normT elN, elU]; omega
  rw [destroy_rearm_eq σ id hpc e n rest hp he hne hnz hok hdf]
  have her : eraseId id σ.pending = n :: rest := by rw [hp]; simp [eraseId, he]
  have hehead := a4 e (n :: rest) hp
  refine clock_destroy_general h id rfl rfl rfl rfl rfl rfl
    ⟨[Event.setitimer (rearmTime σ e n).toUs, Event.getitimer σ.remaining], rfl, ?_⟩ curN rN ?_ ?_ ?_ ?_
  · intro x hx
    simp at hx
    rcases hx with hx | hx
    · subst hx; exact neutral_simple.1 _
    · subst hx; exact neutral_simple.2.2.1 _
  · show 0 ≤ (rearmTime σ e n).toUs
    omega
  · show σ.running = true ↔ eraseId id σ.pending ≠ []
    rw [her]; simp [hr]
  · intro _
    refine ⟨?_, Int.le_refl _, ?_, ?_⟩
    · show 0 < (rearmTime σ e n).toUs
      omega
    · show σ.now - σ.epoch = (σ.tsf.add (σ.ltr.sub (getTimer σ))).toUs + (rearmTime σ e n).toUs
          - (rearmTime σ e n).toUs
      omega
    · intro x r hx
      have hx' : eraseId id σ.pending = x :: r := hx
      rw [her] at hx'
      injection hx' with e1 e2
      subst e1
      show n.deadline.toUs = (σ.tsf.add (σ.ltr.sub (getTimer σ))).toUs + (rearmTime σ e n).toUs
      omega
  · intro hh
    have : σ.running = false := hh
    rw [hr] at this; exact absurd this (by simp)

end PPLV.Watchdog
