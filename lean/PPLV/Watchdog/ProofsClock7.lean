import PPLV.Watchdog.ProofsClock6

/-! The induction over schedules: as long as no time has passed inside a critical section and no
negative delay was given, every reachable state outside critical sections satisfies `Clock`, and
every state inside one reaches a `Clock` state by finishing the operation. -/
namespace PPLV.Watchdog

theorem steps_idle (b : Bool) (n : Nat) (σ : St) (h : σ.pc = .idle) : steps b n σ = σ := by
  induction n with
  | zero => rfl
  | succ k ih =>
    have : step b σ = σ := by unfold step; simp [h]
    show steps b k (step b σ) = σ
    rw [this]; exact ih

theorem setTimerH_dirty (σ : St) (t : Time) : (setTimerH σ t).dirty = σ.dirty := by
  unfold setTimerH; split
  · rfl
  · split <;> rfl

theorem handler_dirty (b : Bool) (σ : St) : (handler b σ).dirty = σ.dirty := by
  unfold handler
  split
  · exact setTimerH_dirty _ _
  · simp only
    split
    · rfl
    · split
      · rfl
      · exact setTimerH_dirty _ _

theorem tick_flags (b : Bool) (σ : St) (d : Int) :
    (σ.dirty = true → (tick b σ d).dirty = true) ∧
    (σ.inCrit = true → 0 < d → (tick b σ d).dirty = true) := by
  unfold tick
  split
  · rename_i hd; exact ⟨fun h => h, fun _ h => absurd h (by omega)⟩
  · split
    · exact ⟨fun h => by simp [h], fun h _ => by simp [h]⟩
    · split
      · exact ⟨fun h => by simp [h], fun h _ => by simp [h]⟩
      · refine ⟨fun h => ?_, fun h _ => ?_⟩
        · rw [handler_dirty b _]; simp [h]
        · rw [handler_dirty b _]; simp [h]

theorem step_flags (b : Bool) (σ : St) : (step b σ).dirty = σ.dirty := by
  unfold step
  split <;> (repeat' split) <;>
    (first | rfl | (simp only [apply_ite St.dirty, ite_self]) | simp [throwCtor])

theorem create_flags (σ : St) (id : Nat) (cs : Int) : (create σ id cs).dirty = σ.dirty := by
  unfold create
  split
  · rfl
  · split <;> rfl

theorem destroy_flags (σ : St) (id : Nat) : (destroy σ id).dirty = σ.dirty := by
  unfold destroy
  split
  · rfl
  · split <;> rfl

theorem exec_flags (b : Bool) (σ : St) (s : Step) : σ.dirty = true → (exec b σ s).dirty = true := by
  intro h
  cases s with
  | create id cs => show (create σ id cs).dirty = true; rw [create_flags σ id cs]; exact h
  | destroy id => show (destroy σ id).dirty = true; rw [destroy_flags σ id]; exact h
  | step => show (step b σ).dirty = true; rw [step_flags b σ]; exact h
  | tick d => exact (tick_flags b σ d).1 h

/-- a statement group that leaves the critical section ends the operation -/
theorem step_leaves_crit (b : Bool) (σ : St) (h : σ.inCrit = true) (h' : (step b σ).inCrit = false) :
    (step b σ).pc = .idle := by
  revert h'
  unfold step
  split <;> (try simp only [throwCtor]) <;> (repeat' split) <;> simp [h]

def Inv (σ : St) : Prop :=
  σ.dirty = true ∨ Clock σ ∨ (σ.inCrit = true ∧ ∃ n, Clock (steps false n σ))

theorem Clock.logDestroyed {σ σ' : St} (h : Clock σ) (id : Nat)
    (hpc : σ'.pc = σ.pc) (hcrit : σ'.inCrit = σ.inCrit) (herr : σ'.err = σ.err) (htsf : σ'.tsf = σ.tsf)
    (hltr : σ'.ltr = σ.ltr) (hpend : σ'.pending = σ.pending) (hrem : σ'.remaining = σ.remaining)
    (hrun : σ'.running = σ.running) (hnow : σ'.now = σ.now) (hep : σ'.epoch = σ.epoch)
    (hlog : σ'.log = Event.destroyed id σ.now :: σ.log) : Clock σ' := by
  obtain ⟨q1, q2, q3⟩ := log_parts_destroy h id σ.now [] (by simp) σ.pending (fun x hx _ => hx)
  simp only [List.nil_append] at q1 q2 q3
  constructor
  · rw [hpc]; exact h.pcOut
  · rw [hcrit]; exact h.notCrit
  · rw [herr]; exact h.noErr
  · rw [htsf]; exact h.normT
  · rw [hltr]; exact h.normL
  · rw [hpend]; exact h.normP
  · rw [hpend]; exact h.sorted
  · rw [hrem]; exact h.remNonneg
  · rw [hrun, hpend]; exact h.run
  · rw [hrun, hrem, hltr, htsf, hnow, hep, hpend]; exact h.armed
  · rw [hrun, hrem]; exact h.idleT
  · rw [hpend, hep]; exact h.birth
  · rw [hlog, hnow]; exact q1
  · rw [hlog]; exact q2
  · rw [hlog, hpend]; exact q3

theorem inv_create {σ : St} (h : Clock σ) (id : Nat) (cs : Int) : Inv (create σ id cs) := by
  by_cases hg : σ.pc ≠ .idle ∨ id ∈ σ.used
  · have : create σ id cs = σ := by unfold create; simp [hg]
    rw [this]; exact Or.inr (Or.inl h)
  · have hpc : σ.pc = .idle := by
      by_cases hh : σ.pc = .idle
      · exact hh
      · exact absurd (Or.inl hh) hg
    have hf : id ∉ σ.used := fun hh => hg (Or.inr hh)
    by_cases h0 : cs ≤ 0
    · right; left
      have : create σ id cs = { σ with used := id :: σ.used, log := .rejected id cs :: σ.log } := by
        unfold create; simp [hg, h0]
      rw [this]
      exact h.frame (Or.inl hpc) h.notCrit h.noErr rfl rfl rfl rfl rfl rfl rfl
        ⟨[Event.rejected id cs], rfl, by intro e he; simp at he; subst he; exact neutral_simple.2.2.2.2.2.2.2.2 _ _⟩
    · have hcs : 0 < cs := by omega
      have hcrit : (create σ id cs).inCrit = true := by unfold create; simp [hg, h0]
      right; right
      refine ⟨hcrit, ?_⟩
      cases hr : σ.running
      · exact ⟨3, clock_create_A h id cs hcs hpc hf hr⟩
      · cases hlt : (Time.ofCs cs).lt (getTimer σ)
        · exact ⟨3, clock_create_B2 h id cs hcs hpc hf hr hlt⟩
        · exact ⟨4, clock_create_B1 h id cs hcs hpc hf hr hlt⟩

theorem inv_destroy {σ : St} (h : Clock σ) (id : Nat) : Inv (destroy σ id) := by
  right; left
  unfold destroy
  split
  · exact h
  · rename_i hg
    have hpc : σ.pc = .idle := by
      by_cases hh : σ.pc = .idle
      · exact hh
      · exact absurd (Or.inl hh) hg
    split
    · exact h.logDestroyed id rfl rfl rfl rfl rfl rfl rfl rfl rfl rfl rfl
    · exact h.frame (Or.inr ⟨id, rfl⟩) h.notCrit h.noErr rfl rfl rfl rfl rfl rfl rfl ⟨[], rfl, by simp⟩

theorem inv_step_d1 {σ : St} (h : Clock σ) (id : Nat) (hpc : σ.pc = .d1 id) : Inv (step false σ) := by
  right; right
  have hcrit : (step false σ).inCrit = true := by
    unfold step; simp only [hpc]
    split
    · rfl
    · split
      · split
        · rfl
        · split <;> rfl
      · rfl
  refine ⟨hcrit, ?_⟩
  cases hp : σ.pending with
  | nil => exact ⟨1, clock_destroy_nil h id hpc hp⟩
  | cons e rest =>
    by_cases he : e.id = id
    · cases hrest : rest with
      | nil => exact ⟨3, clock_destroy_last h id hpc e (by rw [hp, hrest]) he⟩
      | cons n r' =>
        cases hne : Time.ne false e.deadline n.deadline
        · exact ⟨1, clock_destroy_eqdl h id hpc e n r' (by rw [hp, hrest]) he hne⟩
        · exact ⟨4, clock_destroy_rearm h id hpc e n r' (by rw [hp, hrest]) he hne⟩
    · exact ⟨1, clock_destroy_other h id hpc e rest hp he⟩

theorem inv_exec {σ : St} (h : Inv σ) (s : Step) : Inv (exec false σ s) := by
  rcases h with hd | hc | ⟨hcrit, n, hn⟩
  · exact Or.inl (exec_flags false σ s hd)
  · cases s with
    | create id cs => exact inv_create hc id cs
    | destroy id => exact inv_destroy hc id
    | step =>
      rcases hc.pcOut with hpc | ⟨id, hpc⟩
      · have : step false σ = σ := by unfold step; simp [hpc]
        show Inv (step false σ)
        rw [this]; exact Or.inr (Or.inl hc)
      · exact inv_step_d1 hc id hpc
    | tick d => exact Or.inr (Or.inl (clock_tick hc d))
  · cases n with
    | zero =>
      have := hn.notCrit
      have hn' : (steps false 0 σ).inCrit = σ.inCrit := rfl
      rw [hn', hcrit] at this; exact absurd this (by simp)
    | succ k =>
      have hnotidle : σ.pc ≠ .idle := by
        intro hidle
        rw [steps_idle false (k+1) σ hidle] at hn
        have := hn.notCrit; rw [hcrit] at this; exact absurd this (by simp)
      cases s with
      | create id cs =>
        have : create σ id cs = σ := by unfold create; simp [hnotidle]
        show Inv (create σ id cs)
        rw [this]; exact Or.inr (Or.inr ⟨hcrit, k+1, hn⟩)
      | destroy id =>
        have : destroy σ id = σ := by unfold destroy; simp [hnotidle]
        show Inv (destroy σ id)
        rw [this]; exact Or.inr (Or.inr ⟨hcrit, k+1, hn⟩)
      | step =>
        have hn' : Clock (steps false k (step false σ)) := hn
        show Inv (step false σ)
        cases hc' : (step false σ).inCrit
        · have hidle := step_leaves_crit false σ hcrit hc'
          rw [steps_idle false k _ hidle] at hn'
          exact Or.inr (Or.inl hn')
        · exact Or.inr (Or.inr ⟨hc', k, hn'⟩)
      | tick d =>
        show Inv (tick false σ d)
        by_cases hd : 0 < d
        · exact Or.inl ((tick_flags false σ d).2 hcrit hd)
        · have : tick false σ d = σ := by unfold tick; simp [show d ≤ 0 by omega]
          rw [this]; exact Or.inr (Or.inr ⟨hcrit, k+1, hn⟩)

theorem inv_runFrom (sched : List Step) : ∀ σ, Inv σ → Inv (runFrom false σ sched) := by
  induction sched with
  | nil => intro σ h; exact h
  | cons s l ih => intro σ h; exact ih _ (inv_exec h s)

theorem inv_run (sched : List Step) : Inv (run false sched) :=
  inv_runFrom sched {} (Or.inr (Or.inl clock_init))

end PPLV.Watchdog
