import PPLV.Watchdog.ProofsClock6

/-! The induction over schedules: as long as no time has passed inside a critical section and no
negative delay was given, every reachable state outside critical sections satisfies `Clock`, and
every state inside one reaches a `Clock` state by finishing the operation. -/
namespace PPLV.Watchdog

theorem steps_idle (b : Bool) (n : Nat) (σ : St) (h : σ.pc = .idle) : steps b n σ = σ := by
  induction n with
  | zero => rfl
  | succ k ih =>
    have : step b σ = σ := by unfold step; simp [h]
    show steps b k (step b σ) = σ
    rw [this]; exact ih

/-- the three configuration/ghost fields `dirty`, `deferredFlag`, `reschedBug` as a triple -/
def flags (σ : St) : Bool × Bool × Bool := (σ.dirty, σ.deferredFlag, σ.reschedBug)

theorem flags_eq {a b : St} (h : flags a = flags b) :
    a.dirty = b.dirty ∧ a.deferredFlag = b.deferredFlag ∧ a.reschedBug = b.reschedBug := by
  unfold flags at h; simpa using h

theorem setTimerH_flags (σ : St) (t : Time) : flags (setTimerH σ t) = flags σ := by
  unfold setTimerH; split
  · rfl
  · split <;> rfl

theorem handlerBody_flags (b : Bool) (sync : Option Fin) (σ : St) :
    flags (handlerBody b sync σ) = flags σ := by
  unfold handlerBody
  simp only
  split
  · rfl
  · split
    · rfl
    · split
      · exact setTimerH_flags _ _
      · split <;> rfl

theorem finish_flags (σ : St) (fin : Fin) : flags (finish σ fin) = flags σ := by
  cases fin <;> rfl

theorem handler_dirty (b : Bool) (σ : St) : (handler b σ).dirty = σ.dirty := by
  unfold handler
  split
  · split
    · exact (flags_eq (setTimerH_flags _ _)).1
    · rfl
  · exact (flags_eq (handlerBody_flags b none σ)).1

theorem tick_flags (b : Bool) (σ : St) (d : Int) :
    (σ.dirty = true → (tick b σ d).dirty = true) ∧
    (σ.inCrit = true → 0 < d → (tick b σ d).dirty = true) := by
  unfold tick
  split
  · rename_i hd; exact ⟨fun h => h, fun _ h => absurd h (by omega)⟩
  · split
    · exact ⟨fun h => by simp [h], fun h _ => by simp [h]⟩
    · split
      · exact ⟨fun h => by simp [h], fun h _ => by simp [h]⟩
      · refine ⟨fun h => ?_, fun h _ => ?_⟩
        · rw [handler_dirty b _]; simp [h]
        · rw [handler_dirty b _]; simp [h]

/-- a statement group changes none of the flags, except that leaving a critical section consumes
`timeout_deferred` -/
theorem step_flags' (b : Bool) (σ : St) :
    (step b σ).dirty = σ.dirty ∧ (step b σ).reschedBug = σ.reschedBug ∧
    ((step b σ).deferredFlag = true → σ.deferredFlag = true) := by
  have hfin : ∀ (τ : St) (fin : Fin), (finish τ fin).dirty = τ.dirty ∧ (finish τ fin).reschedBug = τ.reschedBug ∧
      (finish τ fin).deferredFlag = τ.deferredFlag := by
    intro τ fin; cases fin <;> exact ⟨rfl, rfl, rfl⟩
  have hleave : ∀ (fin : Fin), (leave σ fin).dirty = σ.dirty ∧ (leave σ fin).reschedBug = σ.reschedBug ∧
      ((leave σ fin).deferredFlag = true → σ.deferredFlag = true) := by
    intro fin; unfold leave
    split
    · rename_i h; exact ⟨rfl, rfl, fun _ => h⟩
    · obtain ⟨f1, f2, f3⟩ := hfin { σ with inCrit := false } fin
      exact ⟨f1, f2, fun hh => by rw [f3] at hh; exact hh⟩
  have hbody : ∀ (sync : Option Fin), (handlerBody b sync σ).dirty = σ.dirty ∧
      (handlerBody b sync σ).reschedBug = σ.reschedBug ∧ (handlerBody b sync σ).deferredFlag = σ.deferredFlag := by
    intro sync
    obtain ⟨g1, g2, g3⟩ := flags_eq (handlerBody_flags b sync σ)
    exact ⟨g1, g3, g2⟩
  unfold step
  split
  case h_7 => exact hleave _
  case h_14 => exact hleave _
  case h_16 =>
    split
    · simp only
      split
      · obtain ⟨f1, f2, f3⟩ := hfin (handlerBody b (some _) σ) _
        obtain ⟨g1, g2, g3⟩ := hbody (some _)
        exact ⟨f1.trans g1, f2.trans g2, fun hh => by rw [f3, g3] at hh; exact hh⟩
      · obtain ⟨g1, g2, g3⟩ := hbody (some _)
        exact ⟨g1, g2, fun hh => by rw [g3] at hh; exact hh⟩
    · obtain ⟨f1, f2, f3⟩ := hfin σ _
      exact ⟨f1, f2, fun hh => by rw [f3] at hh; exact hh⟩
  case h_18 =>
    obtain ⟨f1, f2, f3⟩ := hfin σ _
    exact ⟨f1, f2, fun hh => by rw [f3] at hh; exact hh⟩
  all_goals
    (repeat' split) <;>
    (first | exact ⟨rfl, rfl, fun h => h⟩
           | (simp only [apply_ite St.dirty, apply_ite St.reschedBug, apply_ite St.deferredFlag, ite_self]; exact ⟨trivial, trivial, fun h => h⟩)
           | simp [throwCtor])

theorem step_flags (b : Bool) (σ : St) : (step b σ).dirty = σ.dirty := (step_flags' b σ).1

theorem create_flags (σ : St) (id : Nat) (cs : Int) : flags (create σ id cs) = flags σ := by
  unfold create
  split
  · rfl
  · split <;> rfl

theorem destroy_flags (σ : St) (id : Nat) : flags (destroy σ id) = flags σ := by
  unfold destroy
  split
  · rfl
  · split <;> rfl

theorem exec_flags (b : Bool) (σ : St) (s : Step) : σ.dirty = true → (exec b σ s).dirty = true := by
  intro h
  cases s with
  | create id cs =>
    show (create σ id cs).dirty = true
    rw [(flags_eq (create_flags σ id cs)).1]; exact h
  | destroy id =>
    show (destroy σ id).dirty = true
    rw [(flags_eq (destroy_flags σ id)).1]; exact h
  | step => show (step b σ).dirty = true; rw [step_flags b σ]; exact h
  | tick d => exact (tick_flags b σ d).1 h

/-- the run is of the repaired code, and `timeout_deferred` can only have been set by a timer
expiry inside a critical section — for which time must have passed there -/
structure Cfg (σ : St) : Prop where
  flag : σ.deferredFlag = true → σ.dirty = true
  fixed : σ.reschedBug = false

theorem cfg_init : Cfg {} := ⟨fun h => by simp at h, rfl⟩

theorem cfg_exec (b : Bool) {σ : St} (h : Cfg σ) (s : Step) : Cfg (exec b σ s) := by
  cases s with
  | create id cs =>
    have := flags_eq (create_flags σ id cs)
    exact ⟨fun hh => by show (create σ id cs).dirty = true; rw [this.1]; exact h.flag (by rw [← this.2.1]; exact hh),
           by show (create σ id cs).reschedBug = false; rw [this.2.2]; exact h.fixed⟩
  | destroy id =>
    have := flags_eq (destroy_flags σ id)
    exact ⟨fun hh => by show (destroy σ id).dirty = true; rw [this.1]; exact h.flag (by rw [← this.2.1]; exact hh),
           by show (destroy σ id).reschedBug = false; rw [this.2.2]; exact h.fixed⟩
  | step =>
    obtain ⟨f1, f2, f3⟩ := step_flags' b σ
    exact ⟨fun hh => by show (step b σ).dirty = true; rw [f1]; exact h.flag (f3 hh),
           by show (step b σ).reschedBug = false; rw [f2]; exact h.fixed⟩
  | tick d =>
    show Cfg (tick b σ d)
    unfold tick
    split
    · exact h
    · split
      · exact ⟨fun hh => by simp [h.flag hh], h.fixed⟩
      · split
        · exact ⟨fun hh => by simp [h.flag hh], h.fixed⟩
        · -- the handler runs
          have key := fun τ => flags_eq (handlerBody_flags b none τ)
          unfold handler
          split
          · rename_i hc
            have hc' : σ.inCrit = true := hc
            split
            · rename_i hb
              have : σ.reschedBug = true := hb
              rw [h.fixed] at this; exact absurd this (by simp)
            · exact ⟨fun _ => by simp [hc'], h.fixed⟩
          · refine ⟨fun hh => ?_, ?_⟩
            · rw [(key _).1]; rw [(key _).2.1] at hh; simp [h.flag hh]
            · rw [(key _).2.2]; exact h.fixed

/-- a statement group that leaves the critical section ends the operation (no deferred timeout) -/
theorem step_leaves_crit (b : Bool) (σ : St) (h : σ.inCrit = true) (hdf : σ.deferredFlag = false)
    (h' : (step b σ).inCrit = false) : (step b σ).pc = .idle := by
  have hbody : ∀ sync, (handlerBody b sync σ).inCrit = σ.inCrit := by
    intro sync
    unfold handlerBody
    simp only
    split
    · rfl
    · split
      · rfl
      · split
        · unfold setTimerH; split
          · rfl
          · split <;> rfl
        · split <;> rfl
  have hfin : ∀ (τ : St) (fin : Fin), (finish τ fin).pc = .idle ∧ (finish τ fin).inCrit = τ.inCrit := by
    intro τ fin; cases fin <;> exact ⟨rfl, rfl⟩
  revert h'
  unfold step
  split
  case h_7 => intro _; unfold leave; simp only [hdf, Bool.false_eq_true, if_false]; exact (hfin _ _).1
  case h_14 => intro _; unfold leave; simp only [hdf, Bool.false_eq_true, if_false]; exact (hfin _ _).1
  case h_16 =>
    split
    · simp only
      split
      · intro _; exact (hfin _ _).1
      · intro hh; rw [hbody, h] at hh; exact absurd hh (by simp)
    · intro _; exact (hfin _ _).1
  case h_18 => intro _; exact (hfin _ _).1
  all_goals (try simp only [throwCtor]) <;> (repeat' split) <;> simp [h]

def Inv (σ : St) : Prop :=
  σ.dirty = true ∨ Clock σ ∨ (σ.inCrit = true ∧ ∃ n, Clock (steps false n σ))

theorem Clock.logDestroyed {σ σ' : St} (h : Clock σ) (id : Nat)
    (hpc : σ'.pc = σ.pc) (hcrit : σ'.inCrit = σ.inCrit) (herr : σ'.err = σ.err) (htsf : σ'.tsf = σ.tsf)
    (hltr : σ'.ltr = σ.ltr) (hpend : σ'.pending = σ.pending) (hrem : σ'.remaining = σ.remaining)
    (hrun : σ'.running = σ.running) (hnow : σ'.now = σ.now) (hep : σ'.epoch = σ.epoch)
    (hlog : σ'.log = Event.destroyed id σ.now :: σ.log) : Clock σ' := by
  obtain ⟨q1, q2, q3⟩ := log_parts_destroy h id σ.now [] (by simp) σ.pending (fun x hx _ => hx)
  simp only [List.nil_append] at q1 q2 q3
  constructor
  · rw [hpc]; exact h.pcOut
  · rw [hcrit]; exact h.notCrit
  · rw [herr]; exact h.noErr
  · rw [htsf]; exact h.normT
  · rw [hltr]; exact h.normL
  · rw [hpend]; exact h.normP
  · rw [hpend]; exact h.sorted
  · rw [hrem]; exact h.remNonneg
  · rw [hrun, hpend]; exact h.run
  · rw [hrun, hrem, hltr, htsf, hnow, hep, hpend]; exact h.armed
  · rw [hrun, hrem]; exact h.idleT
  · rw [hpend, hep]; exact h.birth
  · rw [hlog, hnow]; exact q1
  · rw [hlog]; exact q2
  · rw [hlog, hpend]; exact q3

theorem inv_create {σ : St} (h : Clock σ) (hdf : σ.deferredFlag = false) (id : Nat) (cs : Int) :
    Inv (create σ id cs) := by
  by_cases hg : σ.pc ≠ .idle ∨ id ∈ σ.used
  · have : create σ id cs = σ := by unfold create; simp [hg]
    rw [this]; exact Or.inr (Or.inl h)
  · have hpc : σ.pc = .idle := by
      by_cases hh : σ.pc = .idle
      · exact hh
      · exact absurd (Or.inl hh) hg
    have hf : id ∉ σ.used := fun hh => hg (Or.inr hh)
    by_cases h0 : cs ≤ 0
    · right; left
      have : create σ id cs = { σ with used := id :: σ.used, log := .rejected id cs :: σ.log } := by
        unfold create; simp [hg, h0]
      rw [this]
      exact h.frame (Or.inl hpc) h.notCrit h.noErr rfl rfl rfl rfl rfl rfl rfl
        ⟨[Event.rejected id cs], rfl, by intro e he; simp at he; subst he; exact neutral_simple.2.2.2.2.2.2.2.2 _ _⟩
    · have hcs : 0 < cs := by omega
      have hcrit : (create σ id cs).inCrit = true := by unfold create; simp [hg, h0]
      right; right
      refine ⟨hcrit, ?_⟩
      cases hr : σ.running
      · exact ⟨3, clock_create_A h id cs hcs hpc hf hr hdf⟩
      · cases hlt : (Time.ofCs cs).lt (getTimer σ)
        · exact ⟨3, clock_create_B2 h id cs hcs hpc hf hr hlt hdf⟩
        · exact ⟨4, clock_create_B1 h id cs hcs hpc hf hr hlt hdf⟩

theorem inv_destroy {σ : St} (h : Clock σ) (id : Nat) : Inv (destroy σ id) := by
  right; left
  unfold destroy
  split
  · exact h
  · rename_i hg
    have hpc : σ.pc = .idle := by
      by_cases hh : σ.pc = .idle
      · exact hh
      · exact absurd (Or.inl hh) hg
    split
    · exact h.logDestroyed id rfl rfl rfl rfl rfl rfl rfl rfl rfl rfl rfl
    · exact h.frame (Or.inr ⟨id, rfl⟩) h.notCrit h.noErr rfl rfl rfl rfl rfl rfl rfl ⟨[], rfl, by simp⟩

theorem inv_step_d1 {σ : St} (h : Clock σ) (hdf : σ.deferredFlag = false) (id : Nat) (hpc : σ.pc = .d1 id) :
    Inv (step false σ) := by
  right; right
  have hcrit : (step false σ).inCrit = true := by
    unfold step; simp only [hpc]
    split
    · rfl
    · split
      · split
        · rfl
        · split <;> rfl
      · rfl
  refine ⟨hcrit, ?_⟩
  cases hp : σ.pending with
  | nil => exact ⟨1, clock_destroy_nil h id hpc hp hdf⟩
  | cons e rest =>
    by_cases he : e.id = id
    · cases hrest : rest with
      | nil => exact ⟨3, clock_destroy_last h id hpc e (by rw [hp, hrest]) he hdf⟩
      | cons n r' =>
        cases hne : Time.ne false e.deadline n.deadline
        · exact ⟨1, clock_destroy_eqdl h id hpc e n r' (by rw [hp, hrest]) he hne hdf⟩
        · exact ⟨4, clock_destroy_rearm h id hpc e n r' (by rw [hp, hrest]) he hne hdf⟩
    · exact ⟨1, clock_destroy_other h id hpc e rest hp he hdf⟩

theorem inv_exec {σ : St} (hcfg : Cfg σ) (h : Inv σ) (s : Step) : Inv (exec false σ s) := by
  by_cases hdirty : σ.dirty = true
  · exact Or.inl (exec_flags false σ s hdirty)
  have hdf : σ.deferredFlag = false := by
    cases hh : σ.deferredFlag
    · rfl
    · exact absurd (hcfg.flag hh) hdirty
  rcases h with hd | hc | ⟨hcrit, n, hn⟩
  · exact absurd hd hdirty
  · cases s with
    | create id cs => exact inv_create hc hdf id cs
    | destroy id => exact inv_destroy hc id
    | step =>
      rcases hc.pcOut with hpc | ⟨id, hpc⟩
      · have : step false σ = σ := by unfold step; simp [hpc]
        show Inv (step false σ)
        rw [this]; exact Or.inr (Or.inl hc)
      · exact inv_step_d1 hc hdf id hpc
    | tick d => exact Or.inr (Or.inl (clock_tick hc d))
  · cases n with
    | zero =>
      have := hn.notCrit
      have hn' : (steps false 0 σ).inCrit = σ.inCrit := rfl
      rw [hn', hcrit] at this; exact absurd this (by simp)
    | succ k =>
      have hnotidle : σ.pc ≠ .idle := by
        intro hidle
        rw [steps_idle false (k+1) σ hidle] at hn
        have := hn.notCrit; rw [hcrit] at this; exact absurd this (by simp)
      cases s with
      | create id cs =>
        have : create σ id cs = σ := by unfold create; simp [hnotidle]
        show Inv (create σ id cs)
        rw [this]; exact Or.inr (Or.inr ⟨hcrit, k+1, hn⟩)
      | destroy id =>
        have : destroy σ id = σ := by unfold destroy; simp [hnotidle]
        show Inv (destroy σ id)
        rw [this]; exact Or.inr (Or.inr ⟨hcrit, k+1, hn⟩)
      | step =>
        have hn' : Clock (steps false k (step false σ)) := hn
        show Inv (step false σ)
        cases hc' : (step false σ).inCrit
        · have hidle := step_leaves_crit false σ hcrit hdf hc'
          rw [steps_idle false k _ hidle] at hn'
          exact Or.inr (Or.inl hn')
        · exact Or.inr (Or.inr ⟨hc', k, hn'⟩)
      | tick d =>
        show Inv (tick false σ d)
        by_cases hd : 0 < d
        · exact Or.inl ((tick_flags false σ d).2 hcrit hd)
        · have : tick false σ d = σ := by unfold tick; simp [show d ≤ 0 by omega]
          rw [this]; exact Or.inr (Or.inr ⟨hcrit, k+1, hn⟩)

theorem inv_runFrom (sched : List Step) : ∀ σ, Cfg σ → Inv σ → Cfg (runFrom false σ sched) ∧ Inv (runFrom false σ sched) := by
  induction sched with
  | nil => intro σ hc h; exact ⟨hc, h⟩
  | cons s l ih => intro σ hc h; exact ih _ (cfg_exec false hc s) (inv_exec hc h s)

theorem inv_run (sched : List Step) : Inv (run false sched) :=
  (inv_runFrom sched {} cfg_init (Or.inr (Or.inl clock_init))).2

theorem cfg_run (sched : List Step) : Cfg (run false sched) :=
  (inv_runFrom sched {} cfg_init (Or.inr (Or.inl clock_init))).1

end PPLV.Watchdog
