import PPLV.Watchdog.ProofsClock8

/-! Schedules at the granularity of public operations (`atomicSched`): every constructor and
destructor runs to completion before time passes again.  Such runs are quiet, so the
`Quiet` theorems apply to them unconditionally. -/
namespace PPLV.Watchdog

theorem steps_add (b : Bool) (m n : Nat) (σ : St) : steps b (m + n) σ = steps b n (steps b m σ) := by
  induction m generalizing σ with
  | zero => simp [steps]
  | succ k ih =>
    have : k + 1 + n = (k + n) + 1 := by omega
    rw [this]
    show steps b (k + n) (step b σ) = steps b n (steps b k (step b σ))
    exact ih (step b σ)

/-- once an operation is complete further statement steps do nothing -/
theorem steps_extend (b : Bool) (m k : Nat) (σ : St) (h : (steps b m σ).pc = .idle) :
    steps b (m + k) σ = steps b m σ := by
  rw [steps_add, steps_idle b k _ h]

theorem runFrom_append (b : Bool) (σ : St) (l1 l2 : List Step) :
    runFrom b σ (l1 ++ l2) = runFrom b (runFrom b σ l1) l2 := by
  simp [runFrom, List.foldl_append]

theorem runFrom_steps (b : Bool) (n : Nat) (σ : St) :
    runFrom b σ (List.replicate n Step.step) = steps b n σ := by
  induction n generalizing σ with
  | zero => rfl
  | succ k ih =>
    show runFrom b (exec b σ .step) (List.replicate k Step.step) = steps b k (step b σ)
    exact ih (step b σ)

/-- the signal handler outside a critical section keeps pc, `in_critical_section`, `timeout_deferred` -/
theorem handler_pc (b : Bool) (σ : St) (hc : σ.inCrit = false) :
    (handler b σ).pc = σ.pc ∧ (handler b σ).inCrit = σ.inCrit ∧ (handler b σ).deferredFlag = σ.deferredFlag := by
  unfold handler handlerBody
  simp only [hc, Bool.false_eq_true, if_false]
  split
  · exact ⟨rfl, rfl, rfl⟩
  · split
    · exact ⟨rfl, rfl, rfl⟩
    · unfold setTimerH; split
      · exact ⟨rfl, rfl, rfl⟩
      · split <;> exact ⟨rfl, rfl, rfl⟩

theorem tick_pc (b : Bool) (σ : St) (d : Int) (hc : σ.inCrit = false) :
    (tick b σ d).pc = σ.pc ∧ (tick b σ d).inCrit = σ.inCrit ∧
    (tick b σ d).dirty = σ.dirty ∧ (tick b σ d).deferredFlag = σ.deferredFlag := by
  unfold tick
  split
  · exact ⟨rfl, rfl, rfl, rfl⟩
  · split
    · exact ⟨rfl, rfl, by simp [hc], rfl⟩
    · split
      · exact ⟨rfl, rfl, by simp [hc], rfl⟩
      · obtain ⟨p1, p2, p3⟩ := handler_pc b { σ with
            now := σ.now + σ.remaining
            remaining := 0
            dirty := σ.dirty || σ.inCrit } hc
        refine ⟨p1, p2, ?_, p3⟩
        rw [handler_dirty b _]; simp [hc]

/-- the state between two public operations of a quiet run -/
structure Rest (σ : St) : Prop where
  idle : σ.pc = .idle
  clean : σ.dirty = false
  noDef : σ.deferredFlag = false
  clock : Clock σ

theorem steps_flags (b : Bool) (n : Nat) (σ : St) :
    (steps b n σ).dirty = σ.dirty ∧ (σ.deferredFlag = false → (steps b n σ).deferredFlag = false) := by
  induction n generalizing σ with
  | zero => exact ⟨rfl, fun h => h⟩
  | succ k ih =>
    obtain ⟨i1, i2⟩ := ih (step b σ)
    obtain ⟨f1, _, f3⟩ := step_flags' b σ
    refine ⟨i1.trans f1, fun h => i2 ?_⟩
    cases hh : (step b σ).deferredFlag
    · rfl
    · have := f3 hh; rw [h] at this; exact absurd this (by simp)

theorem rest_create {σ : St} (h : Rest σ) (id : Nat) (cs : Int) :
    Rest (steps false 4 (create σ id cs)) := by
  have hc := h.clock
  by_cases hg : σ.pc ≠ .idle ∨ id ∈ σ.used
  · have : create σ id cs = σ := by unfold create; simp [hg]
    rw [this, steps_idle false 4 σ h.idle]; exact h
  · have hf : id ∉ σ.used := fun hh => hg (Or.inr hh)
    by_cases h0 : cs ≤ 0
    · have heq : create σ id cs = { σ with used := id :: σ.used, log := .rejected id cs :: σ.log } := by
        unfold create; simp [hg, h0]
      have hidle : (create σ id cs).pc = .idle := by rw [heq]; exact h.idle
      rw [steps_idle false 4 _ hidle, heq]
      exact ⟨h.idle, h.clean, h.noDef,
        hc.frame (Or.inl h.idle) hc.notCrit hc.noErr rfl rfl rfl rfl rfl rfl rfl
          ⟨[Event.rejected id cs], rfl, by intro e he; simp at he; subst he; exact neutral_simple.2.2.2.2.2.2.2.2 _ _⟩⟩
    · have hpos : 0 < cs := by omega
      have hcf := flags_eq (create_flags σ id cs)
      have hflags : ∀ n, (steps false n (create σ id cs)).dirty = false ∧
          (steps false n (create σ id cs)).deferredFlag = false := by
        intro n
        obtain ⟨s1, s2⟩ := steps_flags false n (create σ id cs)
        exact ⟨by rw [s1, hcf.1, h.clean], s2 (by rw [hcf.2.1, h.noDef])⟩
      cases hr : σ.running
      · have hp : σ.pending = [] := by
          cases hpd : σ.pending with
          | nil => rfl
          | cons e r => have := hc.run.mpr (by rw [hpd]; simp); rw [hr] at this; exact absurd this (by simp)
        have hidle : (steps false 3 (create σ id cs)).pc = .idle := by
          rw [create_A_eq false σ id cs hpos h.idle hf hr hp h.noDef]
        have hext := steps_extend false 3 1 (create σ id cs) hidle
        rw [show (4 : Nat) = 3 + 1 from rfl, hext]
        exact ⟨hidle, (hflags 3).1, (hflags 3).2, clock_create_A hc id cs hpos h.idle hf hr h.noDef⟩
      · cases hlt : (Time.ofCs cs).lt (getTimer σ)
        · have hidle : (steps false 3 (create σ id cs)).pc = .idle := by
            rw [create_B2_eq false σ id cs hpos h.idle hf hr hlt h.noDef]
          have hext := steps_extend false 3 1 (create σ id cs) hidle
          rw [show (4 : Nat) = 3 + 1 from rfl, hext]
          exact ⟨hidle, (hflags 3).1, (hflags 3).2, clock_create_B2 hc id cs hpos h.idle hf hr hlt h.noDef⟩
        · have hidle : (steps false 4 (create σ id cs)).pc = .idle := by
            rw [create_B1_eq false σ id cs hpos h.idle hf hr hlt h.noDef]
          exact ⟨hidle, (hflags 4).1, (hflags 4).2, clock_create_B1 hc id cs hpos h.idle hf hr hlt h.noDef⟩

theorem rearm_ok {σ : St} (h : Clock σ) (e n : Ev) (rest : List Ev)
    (hp : σ.pending = e :: n :: rest) (hne : Time.ne false e.deadline n.deadline = true) :
    (rearmTime σ e n).isZero = false ∧ (rearmTime σ e n).timevalOK = true := by
  have hr : σ.running = true := h.run.mpr (by rw [hp]; simp)
  obtain ⟨a1, a2, a3, a4⟩ := h.armed hr
  have hen : e.deadline.Norm := h.normP e (by rw [hp]; simp)
  have hnn : n.deadline.Norm := h.normP n (by rw [hp]; simp)
  have hneq : e.deadline.toUs ≠ n.deadline.toUs := (Time.ne_false_iff hen hnn).mp hne
  have hle : e.deadline.toUs ≤ n.deadline.toUs := by
    have := h.sorted; rw [hp] at this
    unfold Sorted at this; rw [List.pairwise_cons] at this
    exact this.1 n (by simp)
  have ttsN : (getTimer σ).Norm := Time.mk2_timer_norm h.remNonneg
  have ttsU : (getTimer σ).toUs = σ.remaining := Time.mk2_timer_toUs h.remNonneg
  have ndN := Time.sub_norm hnn hen
  have ndU : (n.deadline.sub e.deadline).toUs = n.deadline.toUs - e.deadline.toUs :=
    Time.sub_toUs_ge hnn hen hle
  have rN : (rearmTime σ e n).Norm := Time.add_norm ttsN ndN
  have rU : (rearmTime σ e n).toUs = σ.remaining + (n.deadline.toUs - e.deadline.toUs) := by
    unfold rearmTime; rw [Time.add_toUs ttsN ndN, ttsU, ndU]
  refine ⟨?_, Time.timevalOK_of_norm rN⟩
  cases hz : (rearmTime σ e n).isZero
  · rfl
  · have := (Time.isZero_iff rN).mp hz; omega

theorem rest_destroy {σ : St} (h : Rest σ) (id : Nat) : Rest (steps false 5 (destroy σ id)) := by
  have hc := h.clock
  have hdf := flags_eq (destroy_flags σ id)
  have hnd : (destroy σ id).deferredFlag = false := by rw [hdf.2.1, h.noDef]
  have hflags : ∀ n, (steps false n (destroy σ id)).dirty = false ∧
      (steps false n (destroy σ id)).deferredFlag = false := by
    intro n
    obtain ⟨s1, s2⟩ := steps_flags false n (destroy σ id)
    exact ⟨by rw [s1, hdf.1, h.clean], s2 hnd⟩
  by_cases hg : σ.pc ≠ .idle ∨ id ∉ σ.live
  · have : destroy σ id = σ := by unfold destroy; simp [hg]
    rw [this, steps_idle false 5 σ h.idle]; exact h
  · by_cases hexp : id ∈ σ.expired
    · have heq : destroy σ id = { σ with live := σ.live.erase id, log := .destroyed id σ.now :: σ.log } := by
        unfold destroy; simp [hg, hexp]
      have hidle : (destroy σ id).pc = .idle := by rw [heq]; exact h.idle
      rw [steps_idle false 5 _ hidle]
      refine ⟨hidle, ?_, hnd, ?_⟩
      · rw [hdf.1]; exact h.clean
      · rw [heq]; exact hc.logDestroyed id rfl rfl rfl rfl rfl rfl rfl rfl rfl rfl rfl
    · have heq : destroy σ id = { σ with live := σ.live.erase id, pc := .d1 id } := by
        unfold destroy; simp [hg, hexp]
      have hpc : (destroy σ id).pc = .d1 id := by rw [heq]
      have hc' : Clock (destroy σ id) := by
        rw [heq]
        exact hc.frame (Or.inr ⟨id, rfl⟩) hc.notCrit hc.noErr rfl rfl rfl rfl rfl rfl rfl ⟨[], rfl, by simp⟩
      have fin : ∀ m, m ≤ 5 → (steps false m (destroy σ id)).pc = .idle → Clock (steps false m (destroy σ id)) →
          Rest (steps false 5 (destroy σ id)) := by
        intro m hm hidle hcl
        have hext := steps_extend false m (5 - m) (destroy σ id) hidle
        rw [show m + (5 - m) = 5 by omega] at hext
        rw [hext]
        exact ⟨hidle, (hflags m).1, (hflags m).2, hcl⟩
      cases hp : (destroy σ id).pending with
      | nil =>
        exact fin 2 (by omega) (by rw [destroy_nil_eq false _ id hpc hp hnd]) (clock_destroy_nil hc' id hpc hp hnd)
      | cons e rest =>
        by_cases he : e.id = id
        · cases hrest : rest with
          | nil =>
            have hp' : (destroy σ id).pending = [e] := by rw [hp, hrest]
            exact fin 4 (by omega) (by rw [destroy_last_eq false _ id hpc e hp' he hnd])
              (clock_destroy_last hc' id hpc e hp' he hnd)
          | cons n r' =>
            have hp' : (destroy σ id).pending = e :: n :: r' := by rw [hp, hrest]
            cases hne : Time.ne false e.deadline n.deadline
            · exact fin 2 (by omega) (by rw [destroy_eqdl_eq _ id hpc e n r' hp' he hne hnd])
                (clock_destroy_eqdl hc' id hpc e n r' hp' he hne hnd)
            · obtain ⟨hnz, hok⟩ := rearm_ok hc' e n r' hp' hne
              exact fin 5 (by omega) (by rw [destroy_rearm_eq _ id hpc e n r' hp' he hne hnz hok hnd])
                (clock_destroy_rearm hc' id hpc e n r' hp' he hne hnd)
        · exact fin 2 (by omega) (by rw [destroy_other_eq false _ id hpc e rest hp he hnd])
            (clock_destroy_other hc' id hpc e rest hp he hnd)

end PPLV.Watchdog

namespace PPLV.Watchdog

theorem rest_tick {σ : St} (h : Rest σ) (d : Int) : Rest (tick false σ d) := by
  obtain ⟨t1, t2, t3, t4⟩ := tick_pc false σ d h.clock.notCrit
  exact ⟨t1.trans h.idle, t3.trans h.clean, t4.trans h.noDef, clock_tick h.clock d⟩

theorem rest_init : Rest {} := ⟨rfl, rfl, rfl, clock_init⟩

theorem rest_atomic (ops : List Step) :
    ∀ σ, Rest σ → Rest (runFrom false σ (atomicSched ops)) := by
  induction ops with
  | nil => intro σ h; exact h
  | cons op rest ih =>
    intro σ h
    have : atomicSched (op :: rest) = op.atomic ++ atomicSched rest := by
      simp [atomicSched]
    rw [this, runFrom_append]
    apply ih
    cases op with
    | create id cs =>
      have : runFrom false σ (Step.create id cs).atomic = steps false 4 (create σ id cs) := by
        show runFrom false (exec false σ (.create id cs)) (List.replicate 4 Step.step) = _
        rw [runFrom_steps]; rfl
      rw [this]; exact rest_create h id cs
    | destroy id =>
      have : runFrom false σ (Step.destroy id).atomic = steps false 5 (destroy σ id) := by
        show runFrom false (exec false σ (.destroy id)) (List.replicate 5 Step.step) = _
        rw [runFrom_steps]; rfl
      rw [this]; exact rest_destroy h id
    | step => exact h
    | tick d => exact rest_tick h d

end PPLV.Watchdog
