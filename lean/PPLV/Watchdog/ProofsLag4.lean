import PPLV.Watchdog.ProofsLag3

/-! `LagInv` under `create`, `destroy`, `tick` (with the handler); the induction over schedules. -/
namespace PPLV.Watchdog

theorem lag_create {σ : St} (h : LagInv σ) (id : Nat) (cs : Int) : LagInv (create σ id cs) := by
  by_cases hg : σ.pc ≠ .idle ∨ id ∈ σ.used
  · have : create σ id cs = σ := by unfold create; simp [hg]
    rw [this]; exact h
  · have hpc : σ.pc = .idle := by
      by_cases hh : σ.pc = .idle
      · exact hh
      · exact absurd (Or.inl hh) hg
    have hp := (pcInv_of hpc).mp h.pcInv
    simp only [PcInvAt] at hp
    by_cases h0 : cs ≤ 0
    · have heq : create σ id cs = { σ with used := id :: σ.used, log := .rejected id cs :: σ.log } := by
        unfold create; simp [hg, h0]
      rw [heq]
      refine ⟨⟨h.base.noErr, h.base.cfg, h.base.normT, h.base.normL, h.base.normP, h.base.sorted, h.base.remNonneg,
        base_fired_cons (by intros; simp) h.base.fired⟩, ?_⟩
      refine (pcInv_of (σ := { σ with used := id :: σ.used, log := .rejected id cs :: σ.log }) hpc).mpr ?_
      simp only [PcInvAt]
      rcases hp.2 with ha | hs
      · exact ⟨hp.1, Or.inl ha⟩
      · exact ⟨hp.1, Or.inr hs⟩
    · have hcs : 0 < cs := by omega
      have heq : create σ id cs = { σ with
          used := id :: σ.used
          inCrit := true
          log := .born id σ.now cs :: σ.log
          pc := if σ.running then .b1 id cs σ.now (Time.ofCs cs) else .a1 id cs σ.now (Time.ofCs cs) } := by
        unfold create; simp [hg, h0]
      rw [heq]
      refine ⟨⟨h.base.noErr, h.base.cfg, h.base.normT, h.base.normL, h.base.normP, h.base.sorted, h.base.remNonneg,
        base_fired_cons (by intros; simp) h.base.fired⟩, ?_⟩
      rcases Bool.eq_false_or_eq_true σ.running with hr | hr
      rotate_left
      · refine (pcInv_of (pc := .a1 id cs σ.now (Time.ofCs cs)) (by simp [hr])).mpr ?_
        simp only [PcInvAt]
        rcases hp.2 with ha | hs
        · have := ha.1; rw [hr] at this; exact absurd this (by simp)
        · exact ⟨trivial, hs, trivial, hcs, Int.le_refl _⟩
      · refine (pcInv_of (pc := .b1 id cs σ.now (Time.ofCs cs)) (by simp [hr])).mpr ?_
        simp only [PcInvAt]
        rcases hp.2 with ha | hs
        · exact ⟨trivial, ha, trivial, hcs, Int.le_refl _⟩
        · have := hs.1; rw [hr] at this; exact absurd this (by simp)

theorem lag_destroy {σ : St} (h : LagInv σ) (id : Nat) : LagInv (destroy σ id) := by
  unfold destroy
  split
  · exact h
  · rename_i hg
    have hpc : σ.pc = .idle := by
      by_cases hh : σ.pc = .idle
      · exact hh
      · exact absurd (Or.inl hh) hg
    have hp := (pcInv_of hpc).mp h.pcInv
    simp only [PcInvAt] at hp
    split
    · refine ⟨⟨h.base.noErr, h.base.cfg, h.base.normT, h.base.normL, h.base.normP, h.base.sorted, h.base.remNonneg,
        base_fired_cons (by intros; simp) h.base.fired⟩, ?_⟩
      refine (pcInv_of (σ := { σ with live := σ.live.erase id, log := .destroyed id σ.now :: σ.log }) hpc).mpr ?_
      simp only [PcInvAt]
      rcases hp.2 with ha | hs
      · exact ⟨hp.1, Or.inl ha⟩
      · exact ⟨hp.1, Or.inr hs⟩
    · refine ⟨⟨h.base.noErr, h.base.cfg, h.base.normT, h.base.normL, h.base.normP, h.base.sorted, h.base.remNonneg,
        h.base.fired⟩, ?_⟩
      refine (pcInv_of (pc := .d1 id) rfl).mpr ?_
      simp only [PcInvAt]
      rcases hp.2 with ha | hs
      · exact ⟨hp.1, Or.inl ha⟩
      · exact ⟨hp.1, Or.inr hs⟩

/-- the state at the instant the timer expires -/
theorem lag_expire {σ : St} (h : LagInv σ) (hrem : 0 < σ.remaining) :
    LagInv { σ with now := σ.now + σ.remaining, remaining := 0, dirty := σ.dirty || σ.inCrit } :=
  ⟨h.base.advance (Int.le_refl 0) rfl rfl rfl rfl rfl rfl,
   h.pcInv.advance σ.remaining (by omega) (Or.inl ⟨Int.le_refl _, by show (0 : Int) = σ.remaining - σ.remaining; omega⟩)
     rfl rfl rfl rfl rfl rfl rfl rfl⟩

/-- the signal handler at the instant the timer expires -/
theorem lag_handler (σ : St) (h : LagInv σ) (hrem : 0 < σ.remaining) :
    LagInv (handler false { σ with now := σ.now + σ.remaining, remaining := 0,
                                   dirty := σ.dirty || σ.inCrit }) := by
  have hτ := lag_expire h hrem
  rcases Bool.eq_false_or_eq_true σ.inCrit with hc | hc
  · -- inside a critical section: only `timeout_deferred` is set
    have heq : handler false { σ with now := σ.now + σ.remaining, remaining := 0, dirty := σ.dirty || σ.inCrit } =
        { σ with now := σ.now + σ.remaining, remaining := 0, dirty := σ.dirty || σ.inCrit,
                 deferredFlag := true, log := Event.deferred (σ.now + σ.remaining) :: σ.log } := by
      unfold handler; simp [hc, h.base.cfg]
    rw [heq]
    refine ⟨⟨hτ.base.noErr, hτ.base.cfg, hτ.base.normT, hτ.base.normL, hτ.base.normP, hτ.base.sorted,
      hτ.base.remNonneg, base_fired_cons (by intros; simp) hτ.base.fired⟩, ?_⟩
    exact hτ.pcInv.advance 0 (Int.le_refl 0) (Or.inr ⟨rfl, rfl⟩) (by simp) rfl rfl rfl rfl rfl rfl rfl
  · -- outside: the handler body runs
    obtain ⟨hst, hkeep⟩ := pcInv_async h.pcInv hc hrem
    have harmed : Armed σ := by
      rcases hst with ha | hs
      · exact ha
      · have := hs.2.1; omega
    have haτ : Armed { σ with now := σ.now + σ.remaining, remaining := 0, dirty := σ.dirty || σ.inCrit } :=
      harmed.advance σ.remaining (by omega)
        (Or.inl ⟨Int.le_refl _, by show (0 : Int) = σ.remaining - σ.remaining; omega⟩) rfl rfl rfl rfl rfl
    obtain ⟨b1, b2, b3⟩ := lag_body _ hτ.base haτ rfl none
    have heq : handler false { σ with now := σ.now + σ.remaining, remaining := 0, dirty := σ.dirty || σ.inCrit } =
        handlerBody false none { σ with now := σ.now + σ.remaining, remaining := 0, dirty := σ.dirty || σ.inCrit } := by
      unfold handler
      rw [if_neg (by show ¬ (σ.inCrit = true); simp [hc])]
    rw [heq]
    rcases b3 with ⟨q1, q2⟩ | ⟨f, hf, _⟩
    · exact ⟨b1, hkeep _ q1 (b2.trans hc) q2⟩
    · exact absurd hf (by simp)

/-- the invariant of all runs of the repaired code -/
def NInv (σ : St) : Prop := LagInv σ

theorem lag_tick {σ : St} (h : LagInv σ) (dt : Int) : LagInv (tick false σ dt) := by
  unfold tick
  split
  · exact h
  · rename_i hdt
    split
    · rename_i hrem
      have hz : σ.remaining = 0 := by have := h.base.remNonneg; omega
      exact ⟨h.base.advance h.base.remNonneg rfl rfl rfl rfl rfl rfl,
        h.pcInv.advance dt (by omega) (Or.inr ⟨hz, rfl⟩) rfl rfl rfl rfl rfl rfl rfl rfl⟩
    · rename_i hrem
      split
      · rename_i hlt
        exact ⟨h.base.advance (by show 0 ≤ σ.remaining - dt; omega) rfl rfl rfl rfl rfl rfl,
          h.pcInv.advance dt (by omega) (Or.inl ⟨by omega, rfl⟩) rfl rfl rfl rfl rfl rfl rfl rfl⟩
      · exact lag_handler σ h (by omega)

theorem ninv_exec {σ : St} (h : LagInv σ) (s : Step) : LagInv (exec false σ s) := by
  cases s with
  | create id cs => exact lag_create h id cs
  | destroy id => exact lag_destroy h id
  | step => exact lag_step h
  | tick d => exact lag_tick h d

theorem ninv_run (sched : List Step) : LagInv (run false sched) := by
  have : ∀ (l : List Step) (σ : St), LagInv σ → LagInv (runFrom false σ l) := by
    intro l
    induction l with
    | nil => intro σ h; exact h
    | cons s l ih => intro σ h; exact ih _ (ninv_exec h s)
  exact this sched {} lag_init

end PPLV.Watchdog
