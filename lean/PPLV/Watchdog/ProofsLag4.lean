import PPLV.Watchdog.ProofsLag3

/-! `LagInv` under `create`, `destroy`, `tick` (with the handler); the induction over schedules. -/
namespace PPLV.Watchdog

theorem lag_create {σ : St} (h : LagInv σ) (id : Nat) (cs : Int) : LagInv (create σ id cs) := by
  by_cases hg : σ.pc ≠ .idle ∨ id ∈ σ.used
  · have : create σ id cs = σ := by unfold create; simp [hg]
    rw [this]; exact h
  · have hpc : σ.pc = .idle := by
      by_cases hh : σ.pc = .idle
      · exact hh
      · exact absurd (Or.inl hh) hg
    have hp := (pcInv_of hpc).mp h.pcInv
    simp only [PcInvAt] at hp
    by_cases h0 : cs ≤ 0
    · have heq : create σ id cs = { σ with used := id :: σ.used, log := .rejected id cs :: σ.log } := by
        unfold create; simp [hg, h0]
      rw [heq]
      refine ⟨⟨h.base.noErr, h.base.normT, h.base.normL, h.base.normP, h.base.sorted, h.base.remNonneg,
        base_fired_cons (by intros; simp) h.base.fired⟩, ?_⟩
      refine (pcInv_of (σ := { σ with used := id :: σ.used, log := .rejected id cs :: σ.log }) hpc).mpr ?_
      simp only [PcInvAt]
      rcases hp.2 with ha | hs
      · exact ⟨hp.1, Or.inl ha⟩
      · exact ⟨hp.1, Or.inr hs⟩
    · have hcs : 0 < cs := by omega
      have heq : create σ id cs = { σ with
          used := id :: σ.used
          inCrit := true
          log := .born id σ.now cs :: σ.log
          pc := if σ.running then .b1 id cs σ.now (Time.ofCs cs) else .a1 id cs σ.now (Time.ofCs cs) } := by
        unfold create; simp [hg, h0]
      rw [heq]
      refine ⟨⟨h.base.noErr, h.base.normT, h.base.normL, h.base.normP, h.base.sorted, h.base.remNonneg,
        base_fired_cons (by intros; simp) h.base.fired⟩, ?_⟩
      rcases Bool.eq_false_or_eq_true σ.running with hr | hr
      rotate_left
      · refine (pcInv_of (pc := .a1 id cs σ.now (Time.ofCs cs)) (by simp [hr])).mpr ?_
        simp only [PcInvAt]
        rcases hp.2 with ha | hs
        · have := ha.1; rw [hr] at this; exact absurd this (by simp)
        · exact ⟨trivial, hs, trivial, hcs, Int.le_refl _⟩
      · refine (pcInv_of (pc := .b1 id cs σ.now (Time.ofCs cs)) (by simp [hr])).mpr ?_
        simp only [PcInvAt]
        rcases hp.2 with ha | hs
        · exact ⟨trivial, ha, trivial, hcs, Int.le_refl _⟩
        · have := hs.1; rw [hr] at this; exact absurd this (by simp)

theorem lag_destroy {σ : St} (h : LagInv σ) (id : Nat) : LagInv (destroy σ id) := by
  unfold destroy
  split
  · exact h
  · rename_i hg
    have hpc : σ.pc = .idle := by
      by_cases hh : σ.pc = .idle
      · exact hh
      · exact absurd (Or.inl hh) hg
    have hp := (pcInv_of hpc).mp h.pcInv
    simp only [PcInvAt] at hp
    split
    · refine ⟨⟨h.base.noErr, h.base.normT, h.base.normL, h.base.normP, h.base.sorted, h.base.remNonneg,
        base_fired_cons (by intros; simp) h.base.fired⟩, ?_⟩
      refine (pcInv_of (σ := { σ with live := σ.live.erase id, log := .destroyed id σ.now :: σ.log }) hpc).mpr ?_
      simp only [PcInvAt]
      rcases hp.2 with ha | hs
      · exact ⟨hp.1, Or.inl ha⟩
      · exact ⟨hp.1, Or.inr hs⟩
    · refine ⟨⟨h.base.noErr, h.base.normT, h.base.normL, h.base.normP, h.base.sorted, h.base.remNonneg,
        h.base.fired⟩, ?_⟩
      refine (pcInv_of (pc := .d1 id) rfl).mpr ?_
      simp only [PcInvAt]
      rcases hp.2 with ha | hs
      · exact ⟨hp.1, Or.inl ha⟩
      · exact ⟨hp.1, Or.inr hs⟩

/-- the handler at the instant the timer expires, outside critical sections -/
theorem lag_handler (σ : St) (h : LagInv σ) (hc : σ.inCrit = false) (hrem : 0 < σ.remaining) :
    LagInv (handler false { σ with now := σ.now + σ.remaining, remaining := 0,
                                   dirty := σ.dirty || σ.inCrit }) := by
  obtain ⟨hpcs, hst⟩ := pcInv_notCrit h.pcInv hc
  have harmed : Armed σ := by
    rcases hst with ha | hs
    · exact ha
    · have := hs.2.1; omega
  obtain ⟨a1, a2, a3, ⟨e, r, hp, hhead⟩, a5⟩ := harmed
  have hnT' : (σ.tsf.add σ.ltr).Norm := Time.add_norm h.base.normT h.base.normL
  have hT' : (σ.tsf.add σ.ltr).toUs = σ.tsf.toUs + σ.ltr.toUs := Time.add_toUs h.base.normT h.base.normL
  have hnormP : AllNorm (e :: r) := hp ▸ h.base.normP
  have hrestSub : (takeDue false (σ.tsf.add σ.ltr) r).2.Sublist σ.pending := by
    rw [hp]; exact (takeDue_sublist_snd _ _ _).trans (List.sublist_cons_self e r)
  -- every element that fires now is due: its recorded deadline is ≤ the new `time_so_far`
  have hdue : ∀ x ∈ e :: (takeDue false (σ.tsf.add σ.ltr) r).1,
      x ∈ σ.pending ∧ x.deadline.toUs ≤ σ.tsf.toUs + σ.ltr.toUs := by
    intro x hx
    rcases List.mem_cons.mp hx with hh | hh
    · subst hh; exact ⟨by rw [hp]; simp, by omega⟩
    · have hxr : x ∈ r := (takeDue_sublist_fst _ _ _).subset hh
      have h1 := (Time.le_false_iff (hnormP x (List.mem_cons_of_mem _ hxr)) hnT').mp (takeDue_due _ _ _ x hh)
      exact ⟨by rw [hp]; exact List.mem_cons_of_mem _ hxr, by omega⟩
  have hfired : ∀ id t b cs, Event.fired id t b cs ∈
      (firedEvents (σ.now + σ.remaining) (e :: (takeDue false (σ.tsf.add σ.ltr) r).1)).reverse ++ σ.log →
      b + cs * 10000 ≤ t := by
    intro id t b cs hh
    rcases mem_fired_block.mp hh with ⟨x, hx, _, e2, e3, e4⟩ | hh
    · obtain ⟨hxm, hxd⟩ := hdue x hx
      have := a5 x hxm
      subst e3 e4
      omega
    · exact h.base.fired id t b cs hh
  have pcSame : ∀ (σ' : St), σ'.pc = σ.pc → σ'.inCrit = false → Stable σ' → PcInv σ' := by
    intro σ' hpc' hc' hs'
    unfold PcInv; rw [hpc']
    rcases hpcs with hi | ⟨j, hj⟩
    · rw [hi]; exact ⟨hc', hs'⟩
    · rw [hj]; exact ⟨hc', hs'⟩
  unfold handler
  simp only [hc, Bool.false_eq_true, if_false, hp]
  split
  · rename_i hrest
    refine ⟨⟨h.base.noErr, hnT', h.base.normL, ?_, ?_, Int.le_refl 0, hfired⟩, ?_⟩
    · show AllNorm (takeDue false (σ.tsf.add σ.ltr) r).2
      rw [hrest]; intro x hx; simp at hx
    · show Sorted (takeDue false (σ.tsf.add σ.ltr) r).2
      rw [hrest]; simp [Sorted]
    · exact pcSame _ rfl rfl (Or.inr ⟨rfl, rfl, hrest⟩)
  · rename_i n rest' hrest
    have hnrest : n ∈ (takeDue false (σ.tsf.add σ.ltr) r).2 := by rw [hrest]; simp
    have hnmem : n ∈ σ.pending := hrestSub.subset hnrest
    have hnn : n.deadline.Norm := h.base.normP n hnmem
    have hgt : σ.tsf.toUs + σ.ltr.toUs < n.deadline.toUs := by
      have h1 := takeDue_rest_head false (σ.tsf.add σ.ltr) r n rest' hrest
      have h2 := Time.le_false_iff hnn hnT'
      cases hle : Time.le false n.deadline (σ.tsf.add σ.ltr)
      · have : ¬ (n.deadline.toUs ≤ (σ.tsf.add σ.ltr).toUs) := fun hh => by
          have := h2.mpr hh; rw [hle] at this; exact absurd this (by simp)
        omega
      · rw [hle] at h1; exact absurd h1 (by simp)
    have hsubN : (n.deadline.sub (σ.tsf.add σ.ltr)).Norm := Time.sub_norm hnn hnT'
    have hsubU : (n.deadline.sub (σ.tsf.add σ.ltr)).toUs = n.deadline.toUs - (σ.tsf.toUs + σ.ltr.toUs) := by
      rw [Time.sub_toUs_ge hnn hnT' (by omega), hT']
    have hnz : (n.deadline.sub (σ.tsf.add σ.ltr)).isZero = false := by
      cases hz : (n.deadline.sub (σ.tsf.add σ.ltr)).isZero
      · rfl
      · have := (Time.isZero_iff hsubN).mp hz; omega
    have hok := Time.timevalOK_of_norm hsubN
    unfold setTimerH
    simp only [hnz, Bool.false_eq_true, if_false, hok, if_true]
    refine ⟨⟨h.base.noErr, hnT', hsubN, ?_, ?_, ?_, ?_⟩, ?_⟩
    · show AllNorm (takeDue false (σ.tsf.add σ.ltr) r).2
      intro x hx; exact h.base.normP x (hrestSub.subset hx)
    · show Sorted (takeDue false (σ.tsf.add σ.ltr) r).2
      exact List.Pairwise.sublist hrestSub h.base.sorted
    · show 0 ≤ (n.deadline.sub (σ.tsf.add σ.ltr)).toUs
      omega
    · exact base_fired_cons (by intros; simp) hfired
    · refine pcSame _ rfl rfl (Or.inl ⟨a1, ?_, Int.le_refl _, ⟨n, rest', hrest, ?_⟩, ?_⟩)
      · show 0 < (n.deadline.sub (σ.tsf.add σ.ltr)).toUs
        omega
      · show n.deadline.toUs = (σ.tsf.add σ.ltr).toUs + (n.deadline.sub (σ.tsf.add σ.ltr)).toUs
        omega
      · intro x hx
        have hx' : x ∈ (takeDue false (σ.tsf.add σ.ltr) r).2 := hx
        have := a5 x (hrestSub.subset hx')
        show x.gBirth + x.gCs * 10000 + ((σ.tsf.add σ.ltr).toUs + (n.deadline.sub (σ.tsf.add σ.ltr)).toUs
          - (n.deadline.sub (σ.tsf.add σ.ltr)).toUs) ≤ x.deadline.toUs + (σ.now + σ.remaining)
        omega

theorem handler_deferred_log (b : Bool) (σ : St) (hc : σ.inCrit = true) :
    ∃ t, Event.deferred t ∈ (handler b σ).log := by
  unfold handler
  simp only [hc, if_true]
  unfold setTimerH
  split
  · exact ⟨σ.now, by simp⟩
  · split <;> exact ⟨σ.now, by simp⟩

/-- the invariant of all runs, as long as no signal has been deferred -/
def NInv (σ : St) : Prop := (∃ t, Event.deferred t ∈ σ.log) ∨ LagInv σ

theorem lag_tick {σ : St} (h : LagInv σ) (dt : Int) :
    (∃ t, Event.deferred t ∈ (tick false σ dt).log) ∨ LagInv (tick false σ dt) := by
  unfold tick
  split
  · exact Or.inr h
  · rename_i hdt
    split
    · rename_i hrem
      right
      have hz : σ.remaining = 0 := by have := h.base.remNonneg; omega
      exact ⟨h.base.advance h.base.remNonneg rfl rfl rfl rfl rfl,
        h.pcInv.advance dt (by omega) (Or.inr ⟨hz, rfl⟩) rfl rfl rfl rfl rfl rfl rfl rfl⟩
    · rename_i hrem
      split
      · rename_i hlt
        right
        exact ⟨h.base.advance (by show 0 ≤ σ.remaining - dt; omega) rfl rfl rfl rfl rfl,
          h.pcInv.advance dt (by omega) (Or.inl ⟨hlt, rfl⟩) rfl rfl rfl rfl rfl rfl rfl rfl⟩
      · rcases Bool.eq_false_or_eq_true σ.inCrit with hc | hc
        · left; exact handler_deferred_log false _ hc
        · right; exact lag_handler σ h hc (by omega)

theorem exec_log_suffix (b : Bool) (σ : St) (s : Step) : ∃ es, (exec b σ s).log = es ++ σ.log := by
  cases s with
  | create id cs =>
    show ∃ es, (create σ id cs).log = es ++ σ.log
    unfold create
    split
    · exact ⟨[], rfl⟩
    · split
      · exact ⟨[_], rfl⟩
      · exact ⟨[_], rfl⟩
  | destroy id =>
    show ∃ es, (destroy σ id).log = es ++ σ.log
    unfold destroy
    split
    · exact ⟨[], rfl⟩
    · split
      · exact ⟨[_], rfl⟩
      · exact ⟨[], rfl⟩
  | step => exact step_log_suffix b σ
  | tick d =>
    show ∃ es, (tick b σ d).log = es ++ σ.log
    have hset : ∀ (τ : St) (t : Time) (base : List Event), (∃ es, τ.log = es ++ base) →
        ∃ es, (setTimerH τ t).log = es ++ base := by
      intro τ t base ⟨es, hes⟩; unfold setTimerH
      split
      · exact ⟨Event.internalError :: es, by simp [hes]⟩
      · split
        · exact ⟨Event.hset t.toUs :: es, by simp [hes]⟩
        · exact ⟨Event.internalError :: es, by simp [hes]⟩
    have hh : ∀ (τ : St), ∃ es, (handler b τ).log = es ++ τ.log := by
      intro τ
      unfold handler
      split
      · exact hset _ _ _ ⟨[_], rfl⟩
      · simp only
        split
        · exact ⟨[], rfl⟩
        · split
          · exact ⟨_, rfl⟩
          · exact hset _ _ _ ⟨_, rfl⟩
    unfold tick
    split
    · exact ⟨[], rfl⟩
    · split
      · exact ⟨[], rfl⟩
      · split
        · exact ⟨[], rfl⟩
        · exact hh _

theorem ninv_exec {σ : St} (h : NInv σ) (s : Step) : NInv (exec false σ s) := by
  rcases h with ⟨t, ht⟩ | hl
  · left
    obtain ⟨es, hes⟩ := exec_log_suffix false σ s
    exact ⟨t, by rw [hes]; exact List.mem_append_right _ ht⟩
  · cases s with
    | create id cs => exact Or.inr (lag_create hl id cs)
    | destroy id => exact Or.inr (lag_destroy hl id)
    | step => exact Or.inr (lag_step hl)
    | tick d => exact lag_tick hl d

theorem ninv_run (sched : List Step) : NInv (run false sched) := by
  have : ∀ (l : List Step) (σ : St), NInv σ → NInv (runFrom false σ l) := by
    intro l
    induction l with
    | nil => intro σ h; exact h
    | cons s l ih => intro σ h; exact ih _ (ninv_exec h s)
  exact this sched {} (Or.inr lag_init)

end PPLV.Watchdog
