import PPLV.Watchdog.ProofsSafetyFire

/-! `Safe` is preserved by every statement group (`step`). -/
namespace PPLV.Watchdog

theorem pcOK_of {σ : St} {pc : PC} (h : σ.pc = pc) : PcOK σ ↔ PcOKAt σ pc := by
  unfold PcOK; rw [h]

theorem safe_throwCtor {σ : St} (h : Safe σ) (id : Nat) : Safe (throwCtor σ id) := by
  have h1 : Safe { σ with log := Event.setfail :: σ.log } :=
    h.same rfl rfl rfl rfl rfl (Or.inr ⟨_, rfl, neutral_simple.2.1⟩)
  unfold throwCtor
  refine h1.move rfl rfl rfl h1.liveUsed (Or.inr ⟨_, rfl, neutral_simple.2.2.2.2.2.2.1 id⟩) ?_
  exact (pcOK_of (pc := .idle) rfl).mpr (by simp [PcOKAt])

theorem safe_finish {σ : St} (h : Safe σ) (fin : Fin) (hfin : FinOK σ fin) : Safe (finish σ fin) := by
  cases fin with
  | ctor id =>
    simp only [FinOK] at hfin
    unfold finish
    refine h.move rfl rfl rfl ?_ (Or.inr ⟨_, rfl, neutral_simple.2.2.2.2.2.2.2.1 _ _⟩) ?_
    · intro i hi
      rcases List.mem_cons.mp hi with hh | hh
      · rw [hh]; exact hfin
      · exact h.liveUsed i hh
    · exact (pcOK_of (pc := .idle) rfl).mpr (by simp [PcOKAt])
  | dtor id =>
    simp only [FinOK] at hfin
    unfold finish
    refine h.logDestroyed id σ.now hfin.2 hfin.1 rfl rfl rfl h.liveUsed rfl ?_
    exact (pcOK_of (pc := .idle) rfl).mpr (by simp [PcOKAt])

theorem safe_leave {σ : St} (h : Safe σ) (fin : Fin) (hfin : FinOK σ fin) : Safe (leave σ fin) := by
  unfold leave
  split
  · refine h.move rfl rfl rfl h.liveUsed (Or.inl rfl) ?_
    exact (pcOK_of (pc := .l2 fin) rfl).mpr (by simp only [PcOKAt]; exact FinOK.mono hfin (fun _ x => x) (fun _ x => x))
  · have h1 : Safe { σ with inCrit := false } := h.same rfl rfl rfl rfl rfl (Or.inl rfl)
    exact safe_finish h1 fin (FinOK.mono hfin (fun _ x => x) (fun _ x => x))

theorem safe_step (b : Bool) {σ : St} (h : Safe σ) : Safe (step b σ) := by
  have hpcok := h.pcOK
  unfold step
  split
  · exact h
  · -- a1
    rename_i id cs bb d hpc
    have hp := (pcOK_of hpc).mp hpcok
    simp only [PcOKAt] at hp
    split
    · refine h.move rfl rfl rfl h.liveUsed (Or.inr ⟨_, rfl, neutral_simple.2.2.2.2.2.1⟩) ?_
      exact (pcOK_of (pc := .idle) rfl).mpr (by simp [PcOKAt])
    · refine h.insert ⟨d, id, bb, cs⟩ hp.1 hp.2.1 hp.2.2.1 hp.2.2.2.1 hp.2.2.2.2 rfl rfl rfl rfl rfl ?_
      exact (pcOK_of (pc := .a2 id) rfl).mpr hp.2.1
  · -- a2
    rename_i id hpc
    have hp := (pcOK_of hpc).mp hpcok
    simp only [PcOKAt] at hp
    split
    · refine h.move rfl rfl rfl h.liveUsed (Or.inr ⟨_, rfl, neutral_simple.1 _⟩) ?_
      exact (pcOK_of (pc := .cEnd id) rfl).mpr hp
    · exact safe_throwCtor h id
  · -- b1
    rename_i id cs bb d hpc
    have hp := (pcOK_of hpc).mp hpcok
    simp only [PcOKAt] at hp
    refine h.move rfl rfl rfl h.liveUsed (Or.inr ⟨_, rfl, neutral_simple.2.2.1 _⟩) ?_
    refine (pcOK_of (pc := .b2 id cs bb d (getTimer σ)) rfl).mpr ?_
    simp only [PcOKAt]
    refine ⟨hp.1, hp.2.1, List.mem_cons_of_mem _ hp.2.2.1, hp.2.2.2.1, ?_⟩
    rintro ⟨t, ht⟩; simp at ht; exact hp.2.2.2.2 ⟨t, ht⟩
  · -- b2
    rename_i id cs bb d tts hpc
    have hp := (pcOK_of hpc).mp hpcok
    simp only [PcOKAt] at hp
    -- the state right after the insertion
    have h1 : Safe { σ with pending := insertEv ⟨d.add (σ.tsf.add (σ.ltr.sub tts)), id, bb, cs⟩ σ.pending,
                            pc := .cEnd id } := by
      refine h.insert ⟨_, id, bb, cs⟩ hp.1 hp.2.1 hp.2.2.1 hp.2.2.2.1 hp.2.2.2.2 rfl rfl rfl rfl rfl ?_
      exact (pcOK_of (pc := .cEnd id) rfl).mpr hp.2.1
    simp only
    split
    · split
      · refine h1.move rfl rfl rfl h1.liveUsed (Or.inr ⟨_, rfl, neutral_simple.2.2.2.2.2.1⟩) ?_
        exact (pcOK_of (pc := .idle) rfl).mpr (by simp [PcOKAt])
      · refine h1.move rfl rfl rfl h1.liveUsed (Or.inl rfl) ?_
        exact (pcOK_of (pc := .b3 id) rfl).mpr hp.2.1
    · exact h1
  · -- b3
    rename_i id hpc
    have hp := (pcOK_of hpc).mp hpcok
    simp only [PcOKAt] at hp
    split
    · refine h.move rfl rfl rfl h.liveUsed (Or.inr ⟨_, rfl, neutral_simple.1 _⟩) ?_
      exact (pcOK_of (pc := .cEnd id) rfl).mpr hp
    · exact safe_throwCtor h id
  · -- cEnd
    rename_i id hpc
    have hp := (pcOK_of hpc).mp hpcok
    simp only [PcOKAt] at hp
    exact safe_leave h (.ctor id) hp
  · -- d1
    rename_i id hpc
    have hp := (pcOK_of hpc).mp hpcok
    simp only [PcOKAt] at hp
    have herase : Safe { σ with inCrit := true, pending := eraseId id σ.pending, pc := .dEnd id } := by
      refine h.erase id rfl rfl rfl rfl rfl ?_
      exact (pcOK_of (pc := .dEnd id) rfl).mpr ⟨hp, not_mem_ids_eraseId h.nodup⟩
    split
    · rename_i hnil
      refine h.move rfl rfl rfl h.liveUsed (Or.inl rfl) ?_
      refine (pcOK_of (pc := .dEnd id) rfl).mpr ⟨hp, ?_⟩
      show id ∉ ids σ.pending
      rw [hnil]; simp [ids]
    · rename_i e rest hcons
      split
      · split
        · refine h.move rfl rfl rfl h.liveUsed (Or.inl rfl) ?_
          exact (pcOK_of (pc := .s1 id) rfl).mpr hp
        · split
          · refine h.move rfl rfl rfl h.liveUsed (Or.inl rfl) ?_
            exact (pcOK_of (pc := .r1 id _ _) rfl).mpr hp
          · exact herase
      · exact herase
  · -- r1
    rename_i id f n hpc
    have hp := (pcOK_of hpc).mp hpcok
    simp only [PcOKAt] at hp
    refine h.move rfl rfl rfl h.liveUsed (Or.inr ⟨_, rfl, neutral_simple.2.2.1 _⟩) ?_
    exact (pcOK_of (pc := .r2 id f n (getTimer σ)) rfl).mpr hp
  · -- r2
    rename_i id f n tts hpc
    have hp := (pcOK_of hpc).mp hpcok
    simp only [PcOKAt] at hp
    simp only
    split
    · refine h.move rfl rfl rfl h.liveUsed (Or.inr ⟨_, rfl, neutral_simple.2.2.2.2.2.1⟩) ?_
      exact (pcOK_of (pc := .idle) rfl).mpr (by simp [PcOKAt])
    · refine h.move rfl rfl rfl h.liveUsed (Or.inl rfl) ?_
      exact (pcOK_of (pc := .r3 id) rfl).mpr hp
  · -- r3
    rename_i id hpc
    have hp := (pcOK_of hpc).mp hpcok
    simp only [PcOKAt] at hp
    split
    · have h1 : Safe { σ with pending := eraseId id σ.pending, pc := .dEnd id } := by
        refine h.erase id rfl rfl rfl rfl rfl ?_
        exact (pcOK_of (pc := .dEnd id) rfl).mpr ⟨hp, not_mem_ids_eraseId h.nodup⟩
      exact h1.same rfl rfl rfl rfl rfl (Or.inr ⟨_, rfl, neutral_simple.1 _⟩)
    · have h1 : Safe { σ with log := Event.setfail :: σ.log } :=
        h.same rfl rfl rfl rfl rfl (Or.inr ⟨_, rfl, neutral_simple.2.1⟩)
      refine h1.move rfl rfl rfl h1.liveUsed (Or.inr ⟨_, rfl, neutral_simple.2.2.2.2.2.1⟩) ?_
      exact (pcOK_of (pc := .idle) rfl).mpr (by simp [PcOKAt])
  · -- s1
    rename_i id hpc
    have hp := (pcOK_of hpc).mp hpcok
    simp only [PcOKAt] at hp
    refine h.move rfl rfl rfl h.liveUsed (Or.inl rfl) ?_
    exact (pcOK_of (pc := .s2 id) rfl).mpr hp
  · -- s2
    rename_i id hpc
    have hp := (pcOK_of hpc).mp hpcok
    simp only [PcOKAt] at hp
    split
    · have h1 : Safe { σ with pending := eraseId id σ.pending, pc := .dEnd id } := by
        refine h.erase id rfl rfl rfl rfl rfl ?_
        exact (pcOK_of (pc := .dEnd id) rfl).mpr ⟨hp, not_mem_ids_eraseId h.nodup⟩
      exact h1.same rfl rfl rfl rfl rfl (Or.inr ⟨_, rfl, neutral_simple.1 _⟩)
    · have h1 : Safe { σ with log := Event.setfail :: σ.log } :=
        h.same rfl rfl rfl rfl rfl (Or.inr ⟨_, rfl, neutral_simple.2.1⟩)
      refine h1.move rfl rfl rfl h1.liveUsed (Or.inr ⟨_, rfl, neutral_simple.2.2.2.2.2.1⟩) ?_
      exact (pcOK_of (pc := .idle) rfl).mpr (by simp [PcOKAt])
  · -- dEnd
    rename_i id hpc
    have hp := (pcOK_of hpc).mp hpcok
    simp only [PcOKAt] at hp
    exact safe_leave h (.dtor id) hp
  · -- l2
    rename_i fin hpc
    have hp := (pcOK_of hpc).mp hpcok
    simp only [PcOKAt] at hp
    refine h.move rfl rfl rfl h.liveUsed (Or.inr ⟨_, rfl, neutral_simple.2.2.1 _⟩) ?_
    exact (pcOK_of (pc := .l3 fin (getTimer σ)) rfl).mpr
      (by simp only [PcOKAt]; exact FinOK.mono hp (fun _ x => x) (fun _ x => x))
  · -- l3
    rename_i fin tts hpc
    have hp := (pcOK_of hpc).mp hpcok
    simp only [PcOKAt] at hp
    split
    · have hb := safe_handlerBody b (some fin) h (by intro f hf; injection hf with hf; subst hf; exact hp)
      simp only
      split
      · rename_i hsame
        refine safe_finish hb fin ?_
        have := hb.pcOK
        unfold PcOK at this
        rw [hsame, hpc] at this
        simpa [PcOKAt] using this
      · exact hb
    · exact safe_finish h fin hp
  · -- l4
    rename_i fin hpc
    have hp := (pcOK_of hpc).mp hpcok
    simp only [PcOKAt] at hp
    split
    · refine h.move rfl rfl rfl h.liveUsed (Or.inr ⟨_, rfl, neutral_simple.1 _⟩) ?_
      exact (pcOK_of (pc := .l5 fin) rfl).mpr
        (by simp only [PcOKAt]; exact FinOK.mono hp (fun _ x => x) (fun _ x => x))
    · have h1 : Safe { σ with log := Event.setfail :: σ.log } :=
        h.same rfl rfl rfl rfl rfl (Or.inr ⟨_, rfl, neutral_simple.2.1⟩)
      refine h1.move rfl rfl rfl h1.liveUsed (Or.inr ⟨_, rfl, neutral_simple.2.2.2.2.2.1⟩) ?_
      exact (pcOK_of (pc := .idle) rfl).mpr (by simp [PcOKAt])
  · -- l5
    rename_i fin hpc
    have hp := (pcOK_of hpc).mp hpcok
    simp only [PcOKAt] at hp
    exact safe_finish h fin hp

end PPLV.Watchdog
