import PPLV.Watchdog.ProofsSafety5

/-! The clock invariant: outside critical sections, and as long as no time has passed inside one,
the reconstructed clock `time_so_far + (last_time_requested - remaining)` IS real time since the
epoch, the pending list is sorted and the timer is armed for its first deadline. -/
namespace PPLV.Watchdog

def steps (b : Bool) : Nat → St → St
  | 0, σ => σ
  | n+1, σ => steps b n (step b σ)

/-- successive firings have non-decreasing real deadlines (log is newest first) -/
def Ordered : List Event → Prop
  | [] => True
  | e :: l => Ordered l ∧ ∀ id t b cs, e = Event.fired id t b cs →
      ∀ id' t' b' cs', Event.fired id' t' b' cs' ∈ l → b' + cs' * 10000 ≤ b + cs * 10000

structure Clock (σ : St) : Prop where
  pcOut : σ.pc = .idle ∨ ∃ id, σ.pc = .d1 id
  notCrit : σ.inCrit = false
  noErr : σ.err = false
  normT : σ.tsf.Norm
  normL : σ.ltr.Norm
  normP : AllNorm σ.pending
  sorted : Sorted σ.pending
  remNonneg : 0 ≤ σ.remaining
  run : σ.running = true ↔ σ.pending ≠ []
  armed : σ.running = true → 0 < σ.remaining ∧ σ.remaining ≤ σ.ltr.toUs ∧
      σ.now - σ.epoch = σ.tsf.toUs + σ.ltr.toUs - σ.remaining ∧
      ∀ e r, σ.pending = e :: r → e.deadline.toUs = σ.tsf.toUs + σ.ltr.toUs
  idleT : σ.running = false → σ.remaining = 0
  birth : ∀ e ∈ σ.pending, σ.epoch + e.deadline.toUs = e.gBirth + e.gCs * 10000 ∧ 0 < e.gCs
  exact : ∀ id t b cs, Event.fired id t b cs ∈ σ.log → t = b + cs * 10000 ∧ t ≤ σ.now
  ordered : Ordered σ.log
  cover : ∀ id b cs, Event.born id b cs ∈ σ.log →
      (∃ e ∈ σ.pending, e.id = id ∧ e.gBirth = b ∧ e.gCs = cs) ∨ (∃ t, Event.fired id t b cs ∈ σ.log) ∨
      destroyedIn σ.log id

theorem clock_init : Clock {} := by
  constructor <;> simp [Time.norm_zero, AllNorm, Sorted, Ordered, Time.zero, Time.Norm]

theorem ordered_cons_other {e : Event} {l : List Event} (h : Ordered l)
    (he : ∀ id t b cs, e ≠ Event.fired id t b cs) : Ordered (e :: l) :=
  ⟨h, fun id t b cs hh => absurd hh (he id t b cs)⟩

/-- a block of firings, all with real deadline `now`, on top of a log whose firings have deadlines
`≤ now` -/
theorem ordered_fired_block (now : Int) : ∀ (due : List Ev) (l : List Event), Ordered l →
    (∀ id t b cs, Event.fired id t b cs ∈ l → b + cs * 10000 ≤ now) →
    (∀ e ∈ due, e.gBirth + e.gCs * 10000 = now) →
      Ordered ((firedEvents now due).reverse ++ l) := by
  intro due
  induction due with
  | nil => intro l hl _ _; simpa [firedEvents] using hl
  | cons a ds ih =>
    intro l hl hold hd
    have ha := hd a (by simp)
    have : (firedEvents now (a :: ds)).reverse ++ l =
        (firedEvents now ds).reverse ++ (Event.fired a.id now a.gBirth a.gCs :: l) := by
      simp [firedEvents]
    rw [this]
    refine ih _ ⟨hl, ?_⟩ ?_ (fun e he => hd e (by simp [he]))
    · intro id t b cs heq id' t' b' cs' hmem
      injection heq with e1 e2 e3 e4
      subst e3 e4
      have := hold id' t' b' cs' hmem
      omega
    · intro id t b cs hmem
      rcases List.mem_cons.mp hmem with hh | hh
      · injection hh with e1 e2 e3 e4
        subst e3 e4; omega
      · exact hold id t b cs hh

theorem mem_fired_block {now : Int} {due : List Ev} {l : List Event} {id : Nat} {t b cs : Int} :
    Event.fired id t b cs ∈ (firedEvents now due).reverse ++ l ↔
      (∃ e ∈ due, e.id = id ∧ t = now ∧ e.gBirth = b ∧ e.gCs = cs) ∨ Event.fired id t b cs ∈ l := by
  simp only [List.mem_append, List.mem_reverse, firedEvents, List.mem_map]
  constructor
  · rintro (⟨e, he, heq⟩ | h)
    · injection heq with e1 e2 e3 e4
      exact Or.inl ⟨e, he, e1, e2.symm, e3, e4⟩
    · exact Or.inr h
  · rintro (⟨e, he, e1, e2, e3, e4⟩ | h)
    · exact Or.inl ⟨e, he, by rw [e1, e2, e3, e4]⟩
    · exact Or.inr h

theorem mem_born_block {now : Int} {due : List Ev} {l : List Event} {id : Nat} {b cs : Int} :
    Event.born id b cs ∈ (firedEvents now due).reverse ++ l ↔ Event.born id b cs ∈ l := by
  simp [firedEvents]

theorem mem_destroyed_block {now : Int} {due : List Ev} {l : List Event} {id : Nat} {t : Int} :
    Event.destroyed id t ∈ (firedEvents now due).reverse ++ l ↔ Event.destroyed id t ∈ l := by
  simp [firedEvents]

end PPLV.Watchdog
