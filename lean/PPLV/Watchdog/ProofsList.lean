import PPLV.Watchdog.ProofsTime

/-! Lemmas on `Pending_List` (`insertEv`, `eraseId`) and on the firing loop (`takeDue`). -/
namespace PPLV.Watchdog

/-- pending list sorted by denoted deadline -/
def Sorted (l : List Ev) : Prop := l.Pairwise (fun a b => a.deadline.toUs ≤ b.deadline.toUs)

def AllNorm (l : List Ev) : Prop := ∀ e ∈ l, e.deadline.Norm

def ids (l : List Ev) : List Nat := l.map (·.id)

theorem mem_insertEv {x y : Ev} {l : List Ev} : y ∈ insertEv x l ↔ y = x ∨ y ∈ l := by
  induction l with
  | nil => simp [insertEv]
  | cons e r ih =>
    unfold insertEv
    split
    · simp only [List.mem_cons, ih]
      constructor
      · rintro (h | h | h) <;> simp [h]
      · rintro (h | h | h) <;> simp [h]
    · simp [List.mem_cons]

theorem allNorm_insertEv {x : Ev} {l : List Ev} (hx : x.deadline.Norm) (hl : AllNorm l) :
    AllNorm (insertEv x l) := by
  intro e he
  rcases mem_insertEv.mp he with h | h
  · subst h; exact hx
  · exact hl e h

theorem sorted_insertEv {x : Ev} {l : List Ev} (hx : x.deadline.Norm) (hn : AllNorm l)
    (hs : Sorted l) : Sorted (insertEv x l) := by
  induction l with
  | nil => simp [insertEv, Sorted]
  | cons e r ih =>
    have he : e.deadline.Norm := hn e (by simp)
    have hr : AllNorm r := fun a ha => hn a (by simp [ha])
    unfold Sorted at hs
    rw [List.pairwise_cons] at hs
    unfold insertEv
    split
    · rename_i hlt
      have hlt' := (Time.lt_iff he hx).mp hlt
      unfold Sorted
      rw [List.pairwise_cons]
      refine ⟨?_, ih hr hs.2⟩
      intro a ha
      rcases mem_insertEv.mp ha with h | h
      · subst h; omega
      · exact hs.1 a h
    · rename_i hlt
      have hge := (Time.lt_false_iff he hx).mp (by simpa using hlt)
      unfold Sorted
      rw [List.pairwise_cons, List.pairwise_cons]
      refine ⟨?_, hs.1, hs.2⟩
      intro a ha
      rcases List.mem_cons.mp ha with h | h
      · subst h; exact hge
      · have := hs.1 a h; omega

/-- the head after insertion into a sorted non-empty list carries the smaller deadline -/
theorem head_insertEv {x e : Ev} {r : List Ev} (hx : x.deadline.Norm) (he : e.deadline.Norm) :
    ∃ h t, insertEv x (e :: r) = h :: t ∧
      h.deadline.toUs = min x.deadline.toUs e.deadline.toUs ∧
      (x.deadline.toUs < e.deadline.toUs → h = x) := by
  unfold insertEv
  split
  · rename_i hlt
    have hlt' := (Time.lt_iff he hx).mp hlt
    exact ⟨e, insertEv x r, rfl, by omega, by omega⟩
  · rename_i hlt
    have hge := (Time.lt_false_iff he hx).mp (by simpa using hlt)
    exact ⟨x, e :: r, rfl, by omega, fun _ => rfl⟩

theorem ids_insertEv_perm {x : Ev} {l : List Ev} : ∀ i, i ∈ ids (insertEv x l) ↔ i = x.id ∨ i ∈ ids l := by
  intro i
  simp only [ids, List.mem_map]
  constructor
  · rintro ⟨a, ha, rfl⟩
    rcases mem_insertEv.mp ha with h | h
    · subst h; exact Or.inl rfl
    · exact Or.inr ⟨a, h, rfl⟩
  · rintro (h | ⟨a, ha, rfl⟩)
    · exact ⟨x, mem_insertEv.mpr (Or.inl rfl), h.symm⟩
    · exact ⟨a, mem_insertEv.mpr (Or.inr ha), rfl⟩

theorem nodup_ids_insertEv {x : Ev} {l : List Ev} (hx : x.id ∉ ids l) (hl : (ids l).Nodup) :
    (ids (insertEv x l)).Nodup := by
  induction l with
  | nil => simp [insertEv, ids]
  | cons e r ih =>
    simp only [ids, List.map_cons, List.mem_cons, not_or] at hx
    have hl' : e.id ∉ ids r ∧ (ids r).Nodup := by simpa [ids] using hl
    unfold insertEv
    split
    · simp only [ids, List.map_cons, List.nodup_cons]
      refine ⟨?_, ih hx.2 hl'.2⟩
      intro hmem
      rcases (ids_insertEv_perm e.id).mp hmem with h | h
      · exact hx.1 h.symm
      · exact hl'.1 h
    · simp only [ids, List.map_cons, List.nodup_cons, List.mem_cons, not_or]
      exact ⟨⟨hx.1, hx.2⟩, hl'.1, hl'.2⟩

theorem eraseId_sublist (id : Nat) (l : List Ev) : (eraseId id l).Sublist l := by
  induction l with
  | nil => simp [eraseId]
  | cons e r ih =>
    unfold eraseId
    split
    · exact List.sublist_cons_self e r
    · exact ih.cons_cons e

theorem mem_of_mem_eraseId {id : Nat} {l : List Ev} {y : Ev} (h : y ∈ eraseId id l) : y ∈ l :=
  (eraseId_sublist id l).subset h

theorem mem_eraseId_of_ne {id : Nat} {l : List Ev} {y : Ev} (h : y ∈ l) (hne : y.id ≠ id) :
    y ∈ eraseId id l := by
  induction l with
  | nil => simp at h
  | cons e r ih =>
    unfold eraseId
    rcases List.mem_cons.mp h with h | h
    · subst h; simp [hne]
    · split
      · exact h
      · exact List.mem_cons_of_mem _ (ih h)

theorem sorted_eraseId {id : Nat} {l : List Ev} (hs : Sorted l) : Sorted (eraseId id l) :=
  List.Pairwise.sublist (eraseId_sublist id l) hs

theorem ids_sublist {l l' : List Ev} (h : l.Sublist l') : (ids l).Sublist (ids l') :=
  h.map _

theorem not_mem_ids_eraseId {id : Nat} {l : List Ev} (hl : (ids l).Nodup) : id ∉ ids (eraseId id l) := by
  induction l with
  | nil => simp [eraseId, ids]
  | cons e r ih =>
    have hl' : e.id ∉ ids r ∧ (ids r).Nodup := by simpa [ids] using hl
    unfold eraseId
    split
    · rename_i h; subst h; exact hl'.1
    · rename_i h
      simp only [ids, List.map_cons, List.mem_cons, not_or]
      exact ⟨fun hh => h hh.symm, ih hl'.2⟩

theorem eraseId_of_not_mem {id : Nat} {l : List Ev} (h : id ∉ ids l) : eraseId id l = l := by
  induction l with
  | nil => simp [eraseId]
  | cons e r ih =>
    simp only [ids, List.map_cons, List.mem_cons, not_or] at h
    unfold eraseId
    have : ¬ e.id = id := fun hh => h.1 hh.symm
    simp only [this, if_false]
    rw [ih h.2]

theorem takeDue_append (b : Bool) (t : Time) (l : List Ev) :
    (takeDue b t l).1 ++ (takeDue b t l).2 = l := by
  induction l with
  | nil => simp [takeDue]
  | cons e r ih =>
    unfold takeDue
    split
    · simp [ih]
    · simp

theorem takeDue_due (b : Bool) (t : Time) (l : List Ev) :
    ∀ e ∈ (takeDue b t l).1, Time.le b e.deadline t = true := by
  induction l with
  | nil => simp [takeDue]
  | cons e r ih =>
    unfold takeDue
    split
    · rename_i h
      intro a ha
      rcases List.mem_cons.mp ha with h' | h'
      · subst h'; exact h
      · exact ih a h'
    · simp

theorem takeDue_rest_head (b : Bool) (t : Time) (l : List Ev) :
    ∀ n r, (takeDue b t l).2 = n :: r → Time.le b n.deadline t = false := by
  induction l with
  | nil => simp [takeDue]
  | cons e r ih =>
    unfold takeDue
    split
    · exact ih
    · rename_i h
      intro n r' hh
      simp only [List.cons.injEq] at hh
      rw [← hh.1]; simpa using h

theorem takeDue_sublist_fst (b : Bool) (t : Time) (l : List Ev) : (takeDue b t l).1.Sublist l := by
  have := takeDue_append b t l
  conv => rhs; rw [← this]
  exact List.sublist_append_left _ _

theorem takeDue_sublist_snd (b : Bool) (t : Time) (l : List Ev) : (takeDue b t l).2.Sublist l := by
  have := takeDue_append b t l
  conv => rhs; rw [← this]
  exact List.sublist_append_right _ _

end PPLV.Watchdog
