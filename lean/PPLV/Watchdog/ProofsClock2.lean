import PPLV.Watchdog.ProofsClock1

/-! `Clock` is preserved by time passing outside critical sections (including the handler). -/
namespace PPLV.Watchdog

theorem Clock.running_of_rem {σ : St} (h : Clock σ) (hr : σ.remaining ≠ 0) : σ.running = true := by
  cases hrun : σ.running
  · exact absurd (h.idleT hrun) hr
  · rfl

/-- time passes, nothing else changes -/
theorem Clock.advance {σ σ' : St} (h : Clock σ) (d : Int) (hd : 0 ≤ d)
    (hnow : σ'.now = σ.now + d) (hrem : σ'.remaining = σ.remaining - d)
    (hle : σ.running = true → d < σ.remaining) (hz : σ.running = false → σ'.remaining = 0)
    (hpend : σ'.pending = σ.pending) (htsf : σ'.tsf = σ.tsf) (hltr : σ'.ltr = σ.ltr)
    (hrun : σ'.running = σ.running) (hcrit : σ'.inCrit = σ.inCrit) (hpc : σ'.pc = σ.pc)
    (hep : σ'.epoch = σ.epoch) (hlog : σ'.log = σ.log) (herr : σ'.err = σ.err) : Clock σ' := by
  constructor
  · rw [hpc]; exact h.pcOut
  · rw [hcrit]; exact h.notCrit
  · rw [herr]; exact h.noErr
  · rw [htsf]; exact h.normT
  · rw [hltr]; exact h.normL
  · rw [hpend]; exact h.normP
  · rw [hpend]; exact h.sorted
  · cases hr : σ.running
    · rw [hz hr]; exact Int.le_refl 0
    · have := hle hr; rw [hrem]; omega
  · rw [hrun, hpend]; exact h.run
  · rw [hrun, hpend, htsf, hltr, hnow, hrem, hep]
    intro hr
    obtain ⟨a1, a2, a3, a4⟩ := h.armed hr
    have := hle hr
    exact ⟨by omega, by omega, by omega, a4⟩
  · rw [hrun]; exact hz
  · rw [hpend, hep]; exact h.birth
  · rw [hlog, hnow]; intro id t b cs hh
    have := h.exact id t b cs hh
    exact ⟨this.1, by omega⟩
  · rw [hlog]; exact h.ordered
  · rw [hlog, hpend]; exact h.cover

/-- time passes while the clock is stopped -/
theorem Clock.advanceIdle {σ σ' : St} (h : Clock σ) (d : Int) (hd : 0 ≤ d) (hnr : σ.running = false)
    (hnow : σ'.now = σ.now + d) (hrem : σ'.remaining = σ.remaining)
    (hpend : σ'.pending = σ.pending) (htsf : σ'.tsf = σ.tsf) (hltr : σ'.ltr = σ.ltr)
    (hrun : σ'.running = σ.running) (hcrit : σ'.inCrit = σ.inCrit) (hpc : σ'.pc = σ.pc)
    (hep : σ'.epoch = σ.epoch) (hlog : σ'.log = σ.log) (herr : σ'.err = σ.err) : Clock σ' := by
  constructor
  · rw [hpc]; exact h.pcOut
  · rw [hcrit]; exact h.notCrit
  · rw [herr]; exact h.noErr
  · rw [htsf]; exact h.normT
  · rw [hltr]; exact h.normL
  · rw [hpend]; exact h.normP
  · rw [hpend]; exact h.sorted
  · rw [hrem]; exact h.remNonneg
  · rw [hrun, hpend]; exact h.run
  · rw [hrun]; intro hr; rw [hnr] at hr; exact absurd hr (by simp)
  · rw [hrun, hrem]; exact h.idleT
  · rw [hpend, hep]; exact h.birth
  · rw [hlog, hnow]; intro id t b cs hh
    have := h.exact id t b cs hh
    exact ⟨this.1, by omega⟩
  · rw [hlog]; exact h.ordered
  · rw [hlog, hpend]; exact h.cover

theorem clock_handler (σ : St) (h : Clock σ) (hr : σ.running = true) :
    Clock (handler false { σ with now := σ.now + σ.remaining, remaining := 0,
                                  dirty := σ.dirty || σ.inCrit }) := by
  obtain ⟨a1, a2, a3, a4⟩ := h.armed hr
  have hne : σ.pending ≠ [] := h.run.mp hr
  obtain ⟨e, r, hp⟩ : ∃ e r, σ.pending = e :: r := by
    cases hpd : σ.pending with
    | nil => exact absurd hpd hne
    | cons e r => exact ⟨e, r, rfl⟩
  have hhead := a4 e r hp
  have hnT' : (σ.tsf.add σ.ltr).Norm := Time.add_norm h.normT h.normL
  have hT' : (σ.tsf.add σ.ltr).toUs = σ.tsf.toUs + σ.ltr.toUs := Time.add_toUs h.normT h.normL
  have hnormP : AllNorm (e :: r) := hp ▸ h.normP
  have hsorted : Sorted (e :: r) := hp ▸ h.sorted
  have hsr : ∀ x ∈ r, e.deadline.toUs ≤ x.deadline.toUs := by
    unfold Sorted at hsorted; rw [List.pairwise_cons] at hsorted; exact hsorted.1
  have hbirth : ∀ x ∈ e :: r, σ.epoch + x.deadline.toUs = x.gBirth + x.gCs * 10000 ∧ 0 < x.gCs :=
    hp ▸ h.birth
  -- the elements that fire together with the head are due exactly now
  have hdue : ∀ x ∈ (takeDue false (σ.tsf.add σ.ltr) r).1, x.deadline.toUs = σ.tsf.toUs + σ.ltr.toUs := by
    intro x hx
    have hxr : x ∈ r := (takeDue_sublist_fst _ _ _).subset hx
    have h1 := (Time.le_false_iff (hnormP x (List.mem_cons_of_mem _ hxr)) hnT').mp (takeDue_due _ _ _ x hx)
    have h2 := hsr x hxr
    omega
  have hdueNow : ∀ x ∈ e :: (takeDue false (σ.tsf.add σ.ltr) r).1,
      x.gBirth + x.gCs * 10000 = σ.now + σ.remaining := by
    intro x hx
    rcases List.mem_cons.mp hx with hh | hh
    · subst hh
      have := (hbirth x (by simp)).1
      omega
    · have hxr : x ∈ r := (takeDue_sublist_fst _ _ _).subset hh
      have := (hbirth x (List.mem_cons_of_mem _ hxr)).1
      have := hdue x hh
      omega
  have hrestSub : (takeDue false (σ.tsf.add σ.ltr) r).2.Sublist σ.pending := by
    rw [hp]; exact (takeDue_sublist_snd _ _ _).trans (List.sublist_cons_self e r)
  have happ := takeDue_append false (σ.tsf.add σ.ltr) r
  have hold : ∀ id t b cs, Event.fired id t b cs ∈ σ.log → b + cs * 10000 ≤ σ.now + σ.remaining := by
    intro id t b cs hh
    have := h.exact id t b cs hh
    omega
  -- facts shared by both outcomes (pending := rest, log := block ++ log)
  have hexact : ∀ id t b cs, Event.fired id t b cs ∈
      (firedEvents (σ.now + σ.remaining) (e :: (takeDue false (σ.tsf.add σ.ltr) r).1)).reverse ++ σ.log →
      t = b + cs * 10000 ∧ t ≤ σ.now + σ.remaining := by
    intro id t b cs hh
    rcases mem_fired_block.mp hh with ⟨x, hx, _, e2, e3, e4⟩ | hh
    · have := hdueNow x hx
      subst e3 e4
      exact ⟨by omega, by omega⟩
    · have := h.exact id t b cs hh
      exact ⟨this.1, by omega⟩
  have hcover : ∀ id b cs, Event.born id b cs ∈
      (firedEvents (σ.now + σ.remaining) (e :: (takeDue false (σ.tsf.add σ.ltr) r).1)).reverse ++ σ.log →
      (∃ x ∈ (takeDue false (σ.tsf.add σ.ltr) r).2, x.id = id ∧ x.gBirth = b ∧ x.gCs = cs) ∨
      (∃ t, Event.fired id t b cs ∈
        (firedEvents (σ.now + σ.remaining) (e :: (takeDue false (σ.tsf.add σ.ltr) r).1)).reverse ++ σ.log) ∨
      destroyedIn ((firedEvents (σ.now + σ.remaining) (e :: (takeDue false (σ.tsf.add σ.ltr) r).1)).reverse ++ σ.log) id := by
    intro id b cs hh
    rcases h.cover id b cs (mem_born_block.mp hh) with ⟨x, hx, e1, e2, e3⟩ | ⟨t, ht⟩ | ⟨t, ht⟩
    · rw [hp, ← happ] at hx
      rcases List.mem_cons.mp hx with hx | hx
      · right; left
        exact ⟨σ.now + σ.remaining, mem_fired_block.mpr (Or.inl ⟨x, by rw [hx]; simp, e1, rfl, e2, e3⟩)⟩
      · rcases List.mem_append.mp hx with hx | hx
        · right; left
          exact ⟨σ.now + σ.remaining, mem_fired_block.mpr (Or.inl ⟨x, by simp [hx], e1, rfl, e2, e3⟩)⟩
        · exact Or.inl ⟨x, hx, e1, e2, e3⟩
    · right; left; exact ⟨t, mem_fired_block.mpr (Or.inr ht)⟩
    · right; right; exact ⟨t, mem_destroyed_block.mpr ht⟩
  have hord := ordered_fired_block (σ.now + σ.remaining) _ σ.log h.ordered hold hdueNow
  unfold handler handlerBody
  simp only [h.notCrit, Bool.false_eq_true, if_false, hp]
  split
  · -- nothing left: the clock stops
    rename_i hrest
    constructor
    · exact h.pcOut
    · rfl
    · exact h.noErr
    · exact hnT'
    · exact h.normL
    · show AllNorm (takeDue false (σ.tsf.add σ.ltr) r).2
      rw [hrest]; intro x hx; simp at hx
    · show Sorted (takeDue false (σ.tsf.add σ.ltr) r).2
      rw [hrest]; simp [Sorted]
    · exact Int.le_refl 0
    · show false = true ↔ (takeDue false (σ.tsf.add σ.ltr) r).2 ≠ []
      rw [hrest]; simp
    · intro hh; exact absurd hh (by simp)
    · intro _; rfl
    · show ∀ x ∈ (takeDue false (σ.tsf.add σ.ltr) r).2, _
      rw [hrest]; intro x hx; simp at hx
    · exact hexact
    · exact hord
    · intro id b cs hh
      rcases hcover id b cs hh with ⟨x, hx, _⟩ | h2
      · rw [hrest] at hx; simp at hx
      · exact Or.inr h2
  · -- re-arm for the next pending deadline
    rename_i n rest' hrest
    have hnrest : n ∈ (takeDue false (σ.tsf.add σ.ltr) r).2 := by rw [hrest]; simp
    have hnmem : n ∈ σ.pending := hrestSub.subset hnrest
    have hnn : n.deadline.Norm := h.normP n hnmem
    have hgt : σ.tsf.toUs + σ.ltr.toUs < n.deadline.toUs := by
      have h1 := takeDue_rest_head false (σ.tsf.add σ.ltr) r n rest' hrest
      have h2 := Time.le_false_iff hnn hnT'
      cases hle : Time.le false n.deadline (σ.tsf.add σ.ltr)
      · have : ¬ (n.deadline.toUs ≤ (σ.tsf.add σ.ltr).toUs) := fun hh => by
          have := h2.mpr hh; rw [hle] at this; exact absurd this (by simp)
        omega
      · rw [hle] at h1; exact absurd h1 (by simp)
    have hsubN : (n.deadline.sub (σ.tsf.add σ.ltr)).Norm := Time.sub_norm hnn hnT'
    have hsubU : (n.deadline.sub (σ.tsf.add σ.ltr)).toUs = n.deadline.toUs - (σ.tsf.toUs + σ.ltr.toUs) := by
      rw [Time.sub_toUs_ge hnn hnT' (by omega), hT']
    have hnz : (n.deadline.sub (σ.tsf.add σ.ltr)).isZero = false := by
      cases hz : (n.deadline.sub (σ.tsf.add σ.ltr)).isZero
      · rfl
      · have := (Time.isZero_iff hsubN).mp hz; omega
    have hok := Time.timevalOK_of_norm hsubN
    unfold setTimerH
    simp only [hnz, Bool.false_eq_true, if_false, hok, if_true]
    constructor
    · exact h.pcOut
    · rfl
    · exact h.noErr
    · exact hnT'
    · exact hsubN
    · show AllNorm (takeDue false (σ.tsf.add σ.ltr) r).2
      intro x hx; exact h.normP x (hrestSub.subset hx)
    · show Sorted (takeDue false (σ.tsf.add σ.ltr) r).2
      exact List.Pairwise.sublist hrestSub h.sorted
    · show 0 ≤ (n.deadline.sub (σ.tsf.add σ.ltr)).toUs
      omega
    · show σ.running = true ↔ (takeDue false (σ.tsf.add σ.ltr) r).2 ≠ []
      rw [hrest]; simp [hr]
    · intro _
      refine ⟨?_, ?_, ?_, ?_⟩
      · show 0 < (n.deadline.sub (σ.tsf.add σ.ltr)).toUs
        omega
      · exact Int.le_refl _
      · show σ.now + σ.remaining - σ.epoch = (σ.tsf.add σ.ltr).toUs + (n.deadline.sub (σ.tsf.add σ.ltr)).toUs
            - (n.deadline.sub (σ.tsf.add σ.ltr)).toUs
        omega
      · intro x r' hx
        have hx' : n :: rest' = x :: r' := by rw [← hrest]; exact hx
        injection hx' with e1 e2
        subst e1
        show n.deadline.toUs = (σ.tsf.add σ.ltr).toUs + (n.deadline.sub (σ.tsf.add σ.ltr)).toUs
        omega
    · intro hh
      have : σ.running = false := hh
      rw [hr] at this; exact absurd this (by simp)
    · show ∀ x ∈ (takeDue false (σ.tsf.add σ.ltr) r).2, _
      intro x hx; exact h.birth x (hrestSub.subset hx)
    · intro id t b cs hh
      have hh' : Event.fired id t b cs ∈
          (firedEvents (σ.now + σ.remaining) (e :: (takeDue false (σ.tsf.add σ.ltr) r).1)).reverse ++ σ.log := by
        rcases List.mem_cons.mp hh with h1 | h1
        · exact absurd h1 (by simp)
        · exact h1
      exact hexact id t b cs hh'
    · exact ordered_cons_other hord (by intros; simp)
    · intro id b cs hh
      have hh' : Event.born id b cs ∈
          (firedEvents (σ.now + σ.remaining) (e :: (takeDue false (σ.tsf.add σ.ltr) r).1)).reverse ++ σ.log := by
        simpa using hh
      rcases hcover id b cs hh' with ⟨x, hx, hx2⟩ | ⟨t, ht⟩ | ⟨t, ht⟩
      · left; exact ⟨x, hx, hx2⟩
      · right; left; exact ⟨t, List.mem_cons_of_mem _ ht⟩
      · right; right; exact ⟨t, List.mem_cons_of_mem _ ht⟩

theorem clock_tick {σ : St} (h : Clock σ) (dt : Int) : Clock (tick false σ dt) := by
  unfold tick
  split
  · exact h
  · rename_i hdt
    split
    · rename_i hrem
      have hz : σ.remaining = 0 := by have := h.remNonneg; omega
      have hnr : σ.running = false := by
        cases hr : σ.running
        · rfl
        · have := (h.armed hr).1; omega
      exact h.advanceIdle dt (by omega) hnr rfl rfl rfl rfl rfl rfl rfl rfl rfl rfl rfl
    · rename_i hrem
      have hrun : σ.running = true := h.running_of_rem (by omega)
      split
      · rename_i hlt
        exact h.advance dt (by omega) rfl rfl (fun _ => hlt)
          (fun hr => by rw [hrun] at hr; exact absurd hr (by simp)) rfl rfl rfl rfl rfl rfl rfl rfl rfl
      · exact clock_handler σ h hrun

end PPLV.Watchdog
