import PPLV.Watchdog.ProofsClock8

/-! The Boolean judges agree with the propositions they decide (direction used for the concrete
counter-schedules). -/
namespace PPLV.Watchdog

def NeverEarly (log : List Event) : Prop :=
  ∀ id t b cs, Event.fired id t b cs ∈ log → b + cs * 10000 ≤ t

theorem neverEarlyB_of {log : List Event} (h : NeverEarly log) : neverEarlyB log = true := by
  unfold neverEarlyB
  rw [List.all_eq_true]
  intro e he
  cases e <;> simp only []
  rename_i id t b cs
  exact decide_eq_true (h id t b cs he)

/-- every watchdog whose deadline has passed has fired exactly then, or has been destroyed -/
def Prompt (σ : St) : Prop :=
  ∀ id b cs, Event.born id b cs ∈ σ.log → b + cs * 10000 ≤ σ.now →
    Event.fired id (b + cs * 10000) b cs ∈ σ.log ∨ destroyedIn σ.log id

theorem promptB_of {σ : St} (h : Prompt σ) : promptB σ = true := by
  unfold promptB
  rw [List.all_eq_true]
  intro e he
  cases e <;> simp only []
  rename_i id b cs
  by_cases hd : b + cs * 10000 ≤ σ.now
  · rcases h id b cs he hd with hf | ⟨t, ht⟩
    · simp [hf]
    · have : σ.log.any (Event.isDestroyedOf id) = true := by
        rw [List.any_eq_true]
        exact ⟨_, ht, by simp [Event.isDestroyedOf]⟩
      simp [this]
  · have : decide (σ.now < b + cs * 10000) = true := decide_eq_true (by omega)
    simp [this]

end PPLV.Watchdog
