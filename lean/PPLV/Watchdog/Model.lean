/-!
# C19 — `Watchdog` / `Pending_List` / `Time` bookkeeping as a transition system (no Mathlib)

Code-shaped model of `src/Watchdog.cc`, `Watchdog_inlines.hh`, `Time_inlines.hh`,
`Pending_List_templates.hh` and of the weight watcher `Threshold_Watcher` with
`Weightwatch_Traits` (`globals_inlines.hh`).

* `Time` = (seconds, microseconds) as two `Int`s (the code uses `long`; overflow of `long` is
  outside the model) with the code's `+=`, `-=`, `<`, `==` **as written**: `operator==` of
  `Time_inlines.hh` compares `y.microseconds()` with itself.  The Boolean parameter `eqBug`
  selects the code as written (`true`) or the repaired comparison (`false`).
* Program steps ("statement groups") are delimited at every timer system call (before and after),
  at the first read of `last_time_requested` after `get_timer`, at the statements that set / clear
  `in_critical_section`, and between the destructor's test of `expired` and its critical
  section.  Every group contains at most one access to the clock, so time passing between two
  statements of a group is the same as time passing before or after the group: for the passage of
  time the granularity is that of single statements.  What the grouping does not represent is a
  DEFERRED signal (a timer expiry inside a critical section) landing strictly inside a group,
  between two of its accesses to `last_time_requested` / `signal_once` (e.g. between
  `last_time_requested = time` and `signal_once.it_value… = …` in `set_timer`); deferred signals at
  the group boundaries — in particular right after `getitimer` returns and right before
  `setitimer` is entered, where the real harness delivers them — are represented.  All runs with a
  deferred signal belong to the class in which the clauses fail anyway (`…_fails_deferred_signal`),
  and the theorems that hold for all schedules do not depend on these variables.
  The statement `in_critical_section = true` of the constructor is merged with the constructor's
  entry (time passing before it is time passing before the call).
* Environment steps: `tick d` lets `d` microseconds pass (clipped at the expiry of the
  interval timer); when the timer reaches 0 the signal handler `handle_timeout` runs at that
  instant, whatever the program counter is: between two public operations, between reading
  `expired` and entering the critical section in the destructor, and between any two steps
  inside the critical section, where it only sets `timeout_deferred`; `leave_critical_section`
  then reads the timer and, if it is expired, calls `handle_timeout(0)` synchronously (its
  `setitimer` is then a step of the main program).  The signal handler's body is atomic (the
  signal is blocked while its handler runs) and takes no time.  The state field `reschedBug`
  (a constant of a run; `runBeforeFix`) selects the handler as written before commit 9ac8059,
  which called `reschedule()` = `set_timer(reschedule_time)` inside a critical section; it is
  used only by the `…_before_fix_fails` witnesses.
* Ghost state: real time `now`, the instant `epoch` at which `time_so_far` was last reset, the
  event log (births, firings, destructions, timer calls), `dirty` (time has passed inside a
  critical section).
* The constructors reject `csecs <= 0` with `invalid_argument` before anything is changed.  The
  failure branches of `set_timer` (null interval: "PPL internal error"; `setitimer` failing with
  `EINVAL`) are kept as in the code; they are proved unreachable in runs without a deferred
  signal (`C19.no_internal_error_partial`).
-/
namespace PPLV.Watchdog

/-! ## `Time` -/

structure Time where
  s : Int
  us : Int
deriving Repr, DecidableEq, Inhabited

namespace Time

def zero : Time := ⟨0, 0⟩

/-- `Time::Time(long centisecs)`; C++ `/` and `%` truncate towards zero. -/
def ofCs (c : Int) : Time := ⟨Int.tdiv c 100, Int.tmod c 100 * 10000⟩

/-- `Time::Time(long s, long m)` -/
def mk2 (s m : Int) : Time :=
  if m ≥ 1000000 then ⟨s + Int.tdiv m 1000000, Int.tmod m 1000000⟩ else ⟨s, m⟩

/-- `operator+=` -/
def add (x y : Time) : Time :=
  let rs := x.s + y.s
  let ru := x.us + y.us
  if ru ≥ 1000000 then ⟨rs + 1, Int.tmod ru 1000000⟩ else ⟨rs, ru⟩

/-- `operator-=` (saturating at the null interval) -/
def sub (x y : Time) : Time :=
  let rs := x.s - y.s
  let ru := x.us - y.us
  let rs' := if ru < 0 then rs - 1 else rs
  let ru' := if ru < 0 then ru + 1000000 else ru
  if rs' < 0 then ⟨0, 0⟩ else ⟨rs', ru'⟩

/-- `operator<` -/
def lt (x y : Time) : Bool := decide (x.s < y.s) || (decide (x.s = y.s) && decide (x.us < y.us))

/-- `operator==`; with `eqBug` AS WRITTEN: `x.seconds() == y.seconds() &&
    y.microseconds() == y.microseconds()`. -/
def eq (eqBug : Bool) (x y : Time) : Bool :=
  decide (x.s = y.s) && (if eqBug then decide (y.us = y.us) else decide (x.us = y.us))

/-- `operator!=` -/
def ne (eqBug : Bool) (x y : Time) : Bool := !(eq eqBug x y)

/-- `operator<=` : `x < y || x == y` -/
def le (eqBug : Bool) (x y : Time) : Bool := lt x y || eq eqBug x y

def isZero (t : Time) : Bool := decide (t.s = 0) && decide (t.us = 0)

/-- microseconds denoted (ghost) -/
def toUs (t : Time) : Int := t.s * 1000000 + t.us

/-- what the kernel accepts in `setitimer` (`EINVAL` otherwise) -/
def timevalOK (t : Time) : Bool := decide (0 ≤ t.s) && decide (0 ≤ t.us) && decide (t.us < 1000000)

/-- `reschedule_time(1)` -/
def reschedule : Time := ofCs 1

end Time

/-! ## State -/

/-- an element of `Watchdog::pending`; `gBirth`, `gCs` are ghost copies of the creation instant
    and of the requested delay -/
structure Ev where
  deadline : Time
  id : Nat
  gBirth : Int
  gCs : Int
deriving Repr, DecidableEq, Inhabited

inductive Event
  | born (id : Nat) (t : Int) (cs : Int)          -- constructor entered, delay accepted
  | rejected (id : Nat) (cs : Int)                -- `invalid_argument` (csecs <= 0)
  | threw (id : Nat)                              -- `runtime_error` out of the constructor
  | constructed (id : Nat) (t : Int)              -- constructor returned
  | fired (id : Nat) (t : Int) (b : Int) (cs : Int) -- handler action ran at real time `t`
  | destroyed (id : Nat) (t : Int)                -- destructor returned
  | setitimer (us : Int)                          -- timer call of the main program
  | setfail
  | getitimer (us : Int)
  | hset (us : Int)                               -- `setitimer` from inside the handler
  | deferred (t : Int)                            -- handler ran inside a critical section
  | internalError                                 -- `set_timer(0)` / failing call in handler or dtor
deriving Repr, DecidableEq, Inhabited

/-- which operation `leave_critical_section` is finishing -/
inductive Fin
  | ctor (id : Nat)
  | dtor (id : Nat)
deriving Repr, DecidableEq, Inhabited

/-- program counter of the (single-threaded) main program -/
inductive PC
  | idle
  | a1 (id : Nat) (cs : Int) (b : Int) (d : Time)      -- clock not running: before `pending.insert`
  | a2 (id : Nat)                                      -- inside `set_timer`: before `setitimer`
  | b1 (id : Nat) (cs : Int) (b : Int) (d : Time)      -- clock running: before `get_timer`
  | b2 (id : Nat) (cs : Int) (b : Int) (d tts : Time)  -- before reading `last_time_requested`
  | b3 (id : Nat)                                      -- inside `set_timer`: before `setitimer`
  | cEnd (id : Nat)                                    -- before `in_critical_section = false`
  | d1 (id : Nat)                                      -- dtor: `expired` read, before crit. section
  | r1 (id : Nat) (first next : Time)                  -- before `get_timer`
  | r2 (id : Nat) (first next tts : Time)              -- before reading `last_time_requested`
  | r3 (id : Nat)                                      -- inside `set_timer`: before `setitimer`
  | s1 (id : Nat)                                      -- before `stop_timer`
  | s2 (id : Nat)                                      -- inside `stop_timer`: before `setitimer`
  | dEnd (id : Nat)                                    -- before `in_critical_section = false`
  | l2 (fin : Fin)                                     -- leave_critical_section: before `get_timer`
  | l3 (fin : Fin) (tts : Time)                        -- … before the test of `time_to_shoot`
  | l4 (fin : Fin)                                     -- … inside `handle_timeout(0)`'s `set_timer`: before `setitimer`
  | l5 (fin : Fin)                                     -- … after it: before returning to the caller
deriving Repr, DecidableEq, Inhabited

structure St where
  pending : List Ev := []
  tsf : Time := Time.zero              -- time_so_far
  ltr : Time := Time.zero              -- last_time_requested
  sigOnce : Time := Time.zero          -- signal_once.it_value (static buffer passed to setitimer)
  running : Bool := false              -- alarm_clock_running
  inCrit : Bool := false               -- in_critical_section
  deferredFlag : Bool := false         -- timeout_deferred
  remaining : Int := 0                 -- environment: µs until the timer expires; 0 = disarmed
  pc : PC := .idle
  expired : List Nat := []             -- the `expired` members that are true
  live : List Nat := []                -- constructed, not yet destroyed objects
  used : List Nat := []                -- ids ever passed to a constructor
  -- ghost
  now : Int := 0
  epoch : Int := 0
  log : List Event := []               -- newest first
  dirty : Bool := false
  err : Bool := false
  reschedBug : Bool := false           -- configuration: the handler as written BEFORE commit 9ac8059
deriving Repr, Inhabited

/-! ## `Pending_List` -/

/-- `Pending_List::insert`: before the first element that is not `less_than` the new deadline -/
def insertEv (x : Ev) : List Ev → List Ev
  | [] => [x]
  | e :: r => if e.deadline.lt x.deadline then e :: insertEv x r else x :: e :: r

/-- `Pending_List::erase(position)` (positions are identified by watchdog ids) -/
def eraseId (id : Nat) : List Ev → List Ev
  | [] => []
  | e :: r => if e.id = id then r else e :: eraseId id r

/-- the `while (i != end && i->deadline() <= time_so_far)` part of `handle_timeout` -/
def takeDue (eqBug : Bool) (tsf : Time) : List Ev → List Ev × List Ev
  | [] => ([], [])
  | e :: r =>
    if Time.le eqBug e.deadline tsf then
      ((e :: (takeDue eqBug tsf r).1), (takeDue eqBug tsf r).2)
    else ([], e :: r)

/-! ## The signal handler -/

/-- `set_timer` called from the handler -/
def setTimerH (σ : St) (t : Time) : St :=
  if t.isZero then { σ with err := true, log := .internalError :: σ.log }
  else if t.timevalOK then
    { σ with ltr := t, sigOnce := t, remaining := t.toUs, log := .hset t.toUs :: σ.log }
  else { σ with ltr := t, sigOnce := t, err := true, log := .internalError :: σ.log }

def firedEvents (now : Int) (l : List Ev) : List Event :=
  l.map fun e => Event.fired e.id now e.gBirth e.gCs

/-- the body of `handle_timeout` outside a critical section; `sync`: called from
    `leave_critical_section` (its final `setitimer` is then a step of the main program, `pc := .l4`),
    otherwise from the signal handler (atomic) -/
def handlerBody (eqBug : Bool) (sync : Option Fin) (σ : St) : St :=
  let tsf := σ.tsf.add σ.ltr
  match σ.pending with
  | [] => { σ with tsf := tsf, running := false }
  | e :: r =>
    let due := e :: (takeDue eqBug tsf r).1
    let rest := (takeDue eqBug tsf r).2
    let σ' := { σ with tsf := tsf, pending := rest,
                       expired := (due.map (·.id)).reverse ++ σ.expired,
                       log := (firedEvents σ.now due).reverse ++ σ.log }
    match rest with
    | [] => { σ' with running := false }
    | n :: _ =>
      match sync with
      | none => setTimerH σ' (n.deadline.sub tsf)
      | some fin =>
        let t := n.deadline.sub tsf
        if t.isZero then { σ' with err := true, pc := .idle, log := .internalError :: σ'.log }
        else { σ' with ltr := t, sigOnce := t, pc := .l4 fin }

/-- `Watchdog::handle_timeout` as a signal handler.  Inside a critical section it only records
    `timeout_deferred` (before commit 9ac8059 — `reschedBug` — it called `reschedule()` =
    `set_timer(reschedule_time)`). -/
def handler (eqBug : Bool) (σ : St) : St :=
  if σ.inCrit then
    if σ.reschedBug then setTimerH { σ with log := .deferred σ.now :: σ.log } Time.reschedule
    else { σ with deferredFlag := true, log := .deferred σ.now :: σ.log }
  else handlerBody eqBug none σ

/-- `d` microseconds pass (clipped at the expiry of the timer, at which the handler runs) -/
def tick (eqBug : Bool) (σ : St) (dt : Int) : St :=
  if dt ≤ 0 then σ
  else if σ.remaining ≤ 0 then
    { σ with now := σ.now + dt, dirty := σ.dirty || σ.inCrit }
  else if dt < σ.remaining then
    { σ with now := σ.now + dt, remaining := σ.remaining - dt, dirty := σ.dirty || σ.inCrit }
  else
    handler eqBug { σ with now := σ.now + σ.remaining, remaining := 0,
                           dirty := σ.dirty || σ.inCrit }

/-! ## The main program -/

/-- `get_timer`: `Time(it_value.tv_sec, it_value.tv_usec)` -/
def getTimer (σ : St) : Time := Time.mk2 (σ.remaining / 1000000) (σ.remaining % 1000000)

/-- `Watchdog::Watchdog(csecs, …)` up to and including `in_critical_section = true` and the
    test of `alarm_clock_running` -/
def create (σ : St) (id : Nat) (cs : Int) : St :=
  if σ.pc ≠ .idle ∨ id ∈ σ.used then σ
  else if cs ≤ 0 then { σ with used := id :: σ.used, log := .rejected id cs :: σ.log }
  else
    { σ with used := id :: σ.used, inCrit := true, log := .born id σ.now cs :: σ.log,
             pc := if σ.running then .b1 id cs σ.now (Time.ofCs cs)
                   else .a1 id cs σ.now (Time.ofCs cs) }

/-- `Watchdog::~Watchdog()`: the test `if (!expired)` -/
def destroy (σ : St) (id : Nat) : St :=
  if σ.pc ≠ .idle ∨ id ∉ σ.live then σ
  else if id ∈ σ.expired then
    { σ with live := σ.live.erase id, log := .destroyed id σ.now :: σ.log }
  else { σ with live := σ.live.erase id, pc := .d1 id }

/-- an exception leaves the constructor: `in_critical_section` stays as it is -/
def throwCtor (σ : St) (id : Nat) : St :=
  { σ with pc := .idle, log := .threw id :: .setfail :: σ.log }

/-- the operation returns to its caller -/
def finish (σ : St) : Fin → St
  | .ctor id => { σ with live := id :: σ.live, log := .constructed id σ.now :: σ.log, pc := .idle }
  | .dtor id => { σ with log := .destroyed id σ.now :: σ.log, pc := .idle }

/-- `leave_critical_section` up to the test of `timeout_deferred` (a signal between
    `in_critical_section = false` and that test does not touch the flag) -/
def leave (σ : St) (fin : Fin) : St :=
  if σ.deferredFlag then { σ with inCrit := false, deferredFlag := false, pc := .l2 fin }
  else finish { σ with inCrit := false } fin

/-- next statement (group) of the operation in progress -/
def step (eqBug : Bool) (σ : St) : St :=
  match σ.pc with
  | .idle => σ
  | .a1 id cs b d =>
    -- position = pending.insert(deadline, …); time_so_far = Time(0); set_timer: zero test,
    -- last_time_requested = time
    if d.isZero then { σ with pc := .idle, err := true, log := .internalError :: σ.log }
    else { σ with pending := insertEv ⟨d, id, b, cs⟩ σ.pending, tsf := Time.zero, ltr := d,
                  sigOnce := d, pc := .a2 id }
  | .a2 id =>
    -- setitimer(&signal_once); alarm_clock_running = true
    if σ.sigOnce.timevalOK then
      { σ with remaining := σ.sigOnce.toUs, epoch := σ.now, running := true,
               log := .setitimer σ.sigOnce.toUs :: σ.log, pc := .cEnd id }
    else throwCtor σ id
  | .b1 id cs b d =>
    { σ with log := .getitimer σ.remaining :: σ.log, pc := .b2 id cs b d (getTimer σ) }
  | .b2 id cs b d tts =>
    let elapsed := σ.ltr.sub tts
    let current := σ.tsf.add elapsed
    let real := d.add current
    let σ' := { σ with pending := insertEv ⟨real, id, b, cs⟩ σ.pending }
    if d.lt tts then
      if d.isZero then { σ' with tsf := current, pc := .idle, err := true,
                                 log := .internalError :: σ.log }
      else { σ' with tsf := current, ltr := d, sigOnce := d, pc := .b3 id }
    else { σ' with pc := .cEnd id }
  | .b3 id =>
    if σ.sigOnce.timevalOK then
      { σ with remaining := σ.sigOnce.toUs, log := .setitimer σ.sigOnce.toUs :: σ.log,
               pc := .cEnd id }
    else throwCtor σ id
  | .cEnd id => leave σ (.ctor id)
  | .d1 id =>
    -- in_critical_section = true; remove_watchdog_event up to the first timer access
    match σ.pending with
    | [] => { σ with inCrit := true, pc := .dEnd id }
    | e :: rest =>
      if e.id = id then
        match rest with
        | [] => { σ with inCrit := true, pc := .s1 id }
        | n :: _ =>
          if Time.ne eqBug e.deadline n.deadline then
            { σ with inCrit := true, pc := .r1 id e.deadline n.deadline }
          else { σ with inCrit := true, pending := eraseId id σ.pending, pc := .dEnd id }
      else { σ with inCrit := true, pending := eraseId id σ.pending, pc := .dEnd id }
  | .r1 id f n =>
    { σ with log := .getitimer σ.remaining :: σ.log, pc := .r2 id f n (getTimer σ) }
  | .r2 id f n tts =>
    let elapsed := σ.ltr.sub tts
    let tts' := tts.add (n.sub f)
    if tts'.isZero then { σ with tsf := σ.tsf.add elapsed, err := true, pc := .idle,
                                 log := .internalError :: σ.log }
    else { σ with tsf := σ.tsf.add elapsed, ltr := tts', sigOnce := tts', pc := .r3 id }
  | .r3 id =>
    if σ.sigOnce.timevalOK then
      { σ with remaining := σ.sigOnce.toUs, log := .setitimer σ.sigOnce.toUs :: σ.log,
               pending := eraseId id σ.pending, pc := .dEnd id }
    else { σ with err := true, pc := .idle, log := .internalError :: .setfail :: σ.log }
  | .s1 id =>
    -- stop_timer: signal_once.it_value = 0
    { σ with sigOnce := Time.zero, pc := .s2 id }
  | .s2 id =>
    -- setitimer(&signal_once); alarm_clock_running = false; pending.erase(position)
    if σ.sigOnce.timevalOK then
      { σ with remaining := σ.sigOnce.toUs, running := false,
               log := .setitimer σ.sigOnce.toUs :: σ.log,
               pending := eraseId id σ.pending, pc := .dEnd id }
    else { σ with err := true, pc := .idle, log := .internalError :: .setfail :: σ.log }
  | .dEnd id => leave σ (.dtor id)
  | .l2 fin =>
    { σ with log := .getitimer σ.remaining :: σ.log, pc := .l3 fin (getTimer σ) }
  | .l3 fin tts =>
    -- if (time_to_shoot == 0) handle_timeout(0)
    if tts.isZero then
      let σ' := handlerBody eqBug (some fin) σ
      if σ'.pc = σ.pc then finish σ' fin else σ'
    else finish σ fin
  | .l4 fin =>
    if σ.sigOnce.timevalOK then
      { σ with remaining := σ.sigOnce.toUs, log := .setitimer σ.sigOnce.toUs :: σ.log, pc := .l5 fin }
    else { σ with err := true, pc := .idle, log := .internalError :: .setfail :: σ.log }
  | .l5 fin => finish σ fin

/-- schedule steps -/
inductive Step
  | create (id : Nat) (cs : Int)
  | destroy (id : Nat)
  | step
  | tick (d : Int)
deriving Repr, DecidableEq, Inhabited

def exec (eqBug : Bool) (σ : St) : Step → St
  | .create id cs => create σ id cs
  | .destroy id => destroy σ id
  | .step => step eqBug σ
  | .tick d => tick eqBug σ d

def runFrom (eqBug : Bool) (σ : St) (sched : List Step) : St := sched.foldl (exec eqBug) σ

def run (eqBug : Bool) (sched : List Step) : St := runFrom eqBug {} sched

/-- the code before commit 9ac8059: a timeout inside a critical section calls `reschedule()` -/
def runBeforeFix (eqBug : Bool) (sched : List Step) : St := runFrom eqBug { reschedBug := true } sched

/-- a public operation run to completion (no time passes inside): at most 5 statement groups -/
def Step.atomic : Step → List Step
  | .create id cs => [.create id cs, .step, .step, .step, .step]
  | .destroy id => [.destroy id, .step, .step, .step, .step, .step]
  | .step => []
  | .tick d => [.tick d]

/-- schedule at the granularity of public operations -/
def atomicSched (ops : List Step) : List Step := ops.flatMap Step.atomic

/-! ## Boolean judges of the clauses (used by the driver and by the concrete witnesses) -/

def Event.isFiredOf (id : Nat) : Event → Bool
  | .fired i _ _ _ => i == id
  | _ => false

def Event.isDestroyedOf (id : Nat) : Event → Bool
  | .destroyed i _ => i == id
  | _ => false

/-- every firing is at or after birth + delay -/
def neverEarlyB (log : List Event) : Bool :=
  log.all fun
    | .fired _ t b cs => decide (b + cs * 10000 ≤ t)
    | _ => true

/-- no id fires twice -/
def atMostOnceB : List Event → Bool
  | [] => true
  | .fired id _ _ _ :: l => !(l.any (Event.isFiredOf id)) && atMostOnceB l
  | _ :: l => atMostOnceB l

/-- no firing after the destructor has returned (log is newest first) -/
def notAfterDestroyB : List Event → Bool
  | [] => true
  | .fired id _ _ _ :: l => !(l.any (Event.isDestroyedOf id)) && notAfterDestroyB l
  | _ :: l => notAfterDestroyB l

/-- firings (newest first) as (id, time, real deadline) -/
def firedList : List Event → List (Nat × Int × Int)
  | [] => []
  | .fired id t b cs :: l => (id, t, b + cs * 10000) :: firedList l
  | _ :: l => firedList l

/-- deadlines of successive firings never decrease -/
def orderB (log : List Event) : Bool :=
  let rec go : List (Nat × Int × Int) → Bool
    | [] => true
    | (_, _, d) :: l => l.all (fun x => decide (x.2.2 ≤ d)) && go l
  go (firedList log)

/-- every firing is exactly at birth + delay -/
def exactB (log : List Event) : Bool :=
  log.all fun
    | .fired _ t b cs => decide (t = b + cs * 10000)
    | _ => true

/-- outside critical sections: every watchdog whose deadline has passed has fired exactly at its
    deadline or has been destroyed -/
def promptB (σ : St) : Bool :=
  σ.log.all fun
    | .born id b cs =>
      decide (σ.now < b + cs * 10000) || σ.log.contains (.fired id (b + cs * 10000) b cs)
        || σ.log.any (Event.isDestroyedOf id)
    | _ => true

/-! ## The weight watcher: `Threshold_Watcher<Weightwatch_Traits>` -/

def W64 : Nat := 18446744073709551616      -- 2^64
def H63 : Nat := 9223372036854775808       -- 2^63

/-- `Weightwatch_Traits::less_than(a, b)`: `a != b && b - a < 2^63` in `unsigned long long`
    arithmetic.  (`a`, `b` < 2^64.) -/
def wLess (a b : Nat) : Bool := decide (a ≠ b) && decide ((b + W64 - a % W64) % W64 < H63)

structure WEv where
  thr : Nat            -- the stored threshold (mod 2^64)
  id : Nat
  gThr : Nat           -- ghost: the threshold in unbounded arithmetic
deriving Repr, DecidableEq, Inhabited

inductive WEvent
  | born (id : Nat) (gThr : Nat)
  | rejected (id : Nat)                             -- "threshold already reached"
  | fired (id : Nat) (gThr prev cur : Nat)          -- prev/cur: weight at the previous/this check
  | destroyed (id : Nat)
  | check (cur : Nat)
deriving Repr, DecidableEq, Inhabited

structure WSt where
  weight : Nat := 0                -- Weightwatch_Traits::weight (mod 2^64)
  pending : List WEv := []
  checkFn : Bool := false          -- Weightwatch_Traits::check_function != nullptr
  expired : List Nat := []
  live : List Nat := []
  used : List Nat := []
  -- ghost
  gWeight : Nat := 0               -- weight in unbounded arithmetic
  gLast : Nat := 0                 -- unbounded weight at the latest check
  lapped : Bool := false           -- a comparison was made outside the 2^63 window
  log : List WEvent := []
deriving Repr, Inhabited

def wInsert (x : WEv) : List WEv → List WEv
  | [] => [x]
  | e :: r => if wLess e.thr x.thr then e :: wInsert x r else x :: e :: r

def wErase (id : Nat) : List WEv → List WEv
  | [] => []
  | e :: r => if e.id = id then r else e :: wErase id r

/-- the loop of `Threshold_Watcher::check`: fire while `!less_than(current, deadline)` -/
def wTakeDue (cur : Nat) : List WEv → List WEv × List WEv
  | [] => ([], [])
  | e :: r => if !(wLess cur e.thr) then ((e :: (wTakeDue cur r).1), (wTakeDue cur r).2)
              else ([], e :: r)

/-- all pending (unbounded) thresholds and the current weight lie in a window narrower than 2^63:
    the side condition under which the wrap-around comparison is the true comparison -/
def windowedB (σ : WSt) (extra : List Nat) : Bool :=
  let xs := σ.gWeight :: (extra ++ σ.pending.map (·.gThr))
  xs.all fun x => xs.all fun y => decide (x < y + H63)

inductive WOp
  | add (d : Nat)                   -- WEIGHT_ADD
  | create (id : Nat) (delta : Nat) -- Threshold_Watcher ctor; delta < 2^64
  | destroy (id : Nat)
  | check                           -- maybe_abandon()
deriving Repr, DecidableEq, Inhabited

def wExec (σ : WSt) : WOp → WSt
  | .add d => { σ with weight := (σ.weight + d) % W64, gWeight := σ.gWeight + d }
  | .create id delta =>
    if id ∈ σ.used then σ else
    let thr := (σ.weight + delta % W64) % W64
    let g := σ.gWeight + delta % W64
    let σ := { σ with used := id :: σ.used, lapped := σ.lapped || !(windowedB σ [g]) }
    if !(wLess σ.weight thr) then { σ with log := .rejected id :: σ.log }
    else { σ with pending := wInsert ⟨thr, id, g⟩ σ.pending, checkFn := true, live := id :: σ.live,
                  log := .born id g :: σ.log }
  | .destroy id =>
    if id ∉ σ.live then σ else
    let σ := { σ with live := σ.live.erase id, log := .destroyed id :: σ.log }
    if id ∈ σ.expired then σ
    else
      let p := wErase id σ.pending
      { σ with pending := p, checkFn := if p.isEmpty then false else σ.checkFn }
  | .check =>
    if !σ.checkFn then { σ with gLast := σ.gWeight, log := .check σ.gWeight :: σ.log }
    else
      let due := (wTakeDue σ.weight σ.pending).1
      let rest := (wTakeDue σ.weight σ.pending).2
      { σ with lapped := σ.lapped || !(windowedB σ []),
               pending := rest, checkFn := if rest.isEmpty then false else σ.checkFn,
               expired := (due.map (·.id)).reverse ++ σ.expired,
               gLast := σ.gWeight,
               log := .check σ.gWeight ::
                 ((due.map fun e => WEvent.fired e.id e.gThr σ.gLast σ.gWeight).reverse ++ σ.log) }

/-- initial state: the global counter `Weightwatch_Traits::weight` holds `w0` -/
def wInit (w0 : Nat) : WSt := { weight := w0 % W64, gWeight := w0 % W64, gLast := w0 % W64 }

def wRun (w0 : Nat) (ops : List WOp) : WSt := ops.foldl wExec (wInit w0)

end PPLV.Watchdog
