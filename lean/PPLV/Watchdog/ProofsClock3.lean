import PPLV.Watchdog.ProofsClock2

/-! `Clock` across a whole constructor: the statement groups of `Watchdog::Watchdog` /
`new_watchdog_event` executed without time passing in between. -/
namespace PPLV.Watchdog

theorem ofCs_facts {cs : Int} (hcs : 0 < cs) :
    (Time.ofCs cs).Norm ∧ (Time.ofCs cs).toUs = cs * 10000 ∧ (Time.ofCs cs).isZero = false ∧
    (Time.ofCs cs).timevalOK = true := by
  have hn := Time.ofCs_norm (Int.le_of_lt hcs)
  have hu := Time.ofCs_toUs (Int.le_of_lt hcs)
  refine ⟨hn, hu, ?_, Time.timevalOK_of_norm hn⟩
  cases h : (Time.ofCs cs).isZero
  · rfl
  · have := (Time.isZero_iff hn).mp h; omega

/-- events that are not firings, births or destructions may be consed onto the log of a `Clock`
state, and `used`/`live`/`sigOnce`/`dirty`… may change freely -/
theorem Clock.frame {σ σ' : St} (h : Clock σ) (hpc : σ'.pc = .idle ∨ ∃ id, σ'.pc = .d1 id)
    (hcrit : σ'.inCrit = false) (herr : σ'.err = false) (htsf : σ'.tsf = σ.tsf) (hltr : σ'.ltr = σ.ltr)
    (hpend : σ'.pending = σ.pending) (hrem : σ'.remaining = σ.remaining) (hrun : σ'.running = σ.running)
    (hnow : σ'.now = σ.now) (hep : σ'.epoch = σ.epoch)
    (hlog : ∃ es, σ'.log = es ++ σ.log ∧ ∀ e ∈ es, e.neutral) : Clock σ' := by
  obtain ⟨es, hl, hes⟩ := hlog
  have memf : ∀ id t b cs, Event.fired id t b cs ∈ es ++ σ.log ↔ Event.fired id t b cs ∈ σ.log := by
    intro id t b cs; simp only [List.mem_append]
    exact ⟨fun hh => hh.elim (fun h1 => absurd rfl ((hes _ h1).1 id t b cs)) (fun x => x), Or.inr⟩
  have memb : ∀ id b cs, Event.born id b cs ∈ es ++ σ.log ↔ Event.born id b cs ∈ σ.log := by
    intro id b cs; simp only [List.mem_append]
    exact ⟨fun hh => hh.elim (fun h1 => absurd rfl ((hes _ h1).2.2 id b cs)) (fun x => x), Or.inr⟩
  constructor
  · exact hpc
  · exact hcrit
  · exact herr
  · rw [htsf]; exact h.normT
  · rw [hltr]; exact h.normL
  · rw [hpend]; exact h.normP
  · rw [hpend]; exact h.sorted
  · rw [hrem]; exact h.remNonneg
  · rw [hrun, hpend]; exact h.run
  · rw [hrun, hrem, hltr, htsf, hnow, hep, hpend]; exact h.armed
  · rw [hrun, hrem]; exact h.idleT
  · rw [hpend, hep]; exact h.birth
  · rw [hl, hnow]; intro id t b cs hh; exact h.exact id t b cs ((memf _ _ _ _).mp hh)
  · rw [hl]
    clear memf memb hl
    induction es with
    | nil => simpa using h.ordered
    | cons a as ih =>
      have ha := hes a (by simp)
      exact ordered_cons_other (ih (fun e he => hes e (by simp [he]))) ha.1
  · rw [hl, hpend]; intro id b cs hh
    rcases h.cover id b cs ((memb _ _ _).mp hh) with h1 | ⟨t, ht⟩ | ⟨t, ht⟩
    · exact Or.inl h1
    · exact Or.inr (Or.inl ⟨t, (memf _ _ _ _).mpr ht⟩)
    · exact Or.inr (Or.inr ⟨t, List.mem_append_right _ ht⟩)

/-- constructor, clock not running -/
theorem create_A_eq (b : Bool) (σ : St) (id : Nat) (cs : Int) (hcs : 0 < cs) (hpc : σ.pc = .idle)
    (hf : id ∉ σ.used) (hr : σ.running = false) (hp : σ.pending = []) (hdf : σ.deferredFlag = false) :
    steps b 3 (create σ id cs) = { σ with
       pending := [⟨Time.ofCs cs, id, σ.now, cs⟩]
       tsf := Time.zero
       ltr := Time.ofCs cs
       sigOnce := Time.ofCs cs
       running := true
       remaining := (Time.ofCs cs).toUs
       epoch := σ.now
       used := id :: σ.used
       live := id :: σ.live
       inCrit := false
       pc := .idle
       log := .constructed id σ.now :: .setitimer (Time.ofCs cs).toUs :: .born id σ.now cs :: σ.log } := by
  obtain ⟨_, _, hnz, hok⟩ := ofCs_facts hcs
  have hne : ¬ cs ≤ 0 := by omega
  simp [steps, create, step, leave, finish, hdf, hpc, hf, hr, hp, hnz, hok, hne, insertEv]

theorem clock_create_A {σ : St} (h : Clock σ) (id : Nat) (cs : Int) (hcs : 0 < cs) (hpc : σ.pc = .idle)
    (hf : id ∉ σ.used) (hr : σ.running = false) (hdf : σ.deferredFlag = false) :
    Clock (steps false 3 (create σ id cs)) := by
  have hp : σ.pending = [] := by
    cases hpd : σ.pending with
    | nil => rfl
    | cons e r => have := h.run.mpr (by rw [hpd]; simp); rw [hr] at this; exact absurd this (by simp)
  rw [create_A_eq false σ id cs hcs hpc hf hr hp hdf]
  obtain ⟨hn, hu, _, _⟩ := ofCs_facts hcs
  constructor
  · exact Or.inl rfl
  · rfl
  · exact h.noErr
  · exact Time.norm_zero
  · exact hn
  · intro e he; simp at he; subst he; exact hn
  · simp [Sorted]
  · show 0 ≤ (Time.ofCs cs).toUs
    omega
  · simp
  · intro _
    refine ⟨?_, Int.le_refl _, ?_, ?_⟩
    · show 0 < (Time.ofCs cs).toUs
      omega
    · show σ.now - σ.now = Time.zero.toUs + (Time.ofCs cs).toUs - (Time.ofCs cs).toUs
      rw [Time.toUs_zero]; omega
    · intro e r he
      have he' : [(⟨Time.ofCs cs, id, σ.now, cs⟩ : Ev)] = e :: r := he
      injection he' with e1 e2
      subst e1
      show (Time.ofCs cs).toUs = Time.zero.toUs + (Time.ofCs cs).toUs
      rw [Time.toUs_zero]; omega
  · intro hh; exact absurd hh (by simp)
  · intro e he; simp at he; subst he
    show σ.now + (Time.ofCs cs).toUs = σ.now + cs * 10000 ∧ 0 < cs
    exact ⟨by omega, hcs⟩
  · intro i t b' cs' hh
    have : Event.fired i t b' cs' ∈ σ.log := by simpa using hh
    exact h.exact i t b' cs' this
  · exact ordered_cons_other (ordered_cons_other (ordered_cons_other h.ordered (by intros; simp))
      (by intros; simp)) (by intros; simp)
  · intro i b' cs' hh
    have hh' : (i = id ∧ b' = σ.now ∧ cs' = cs) ∨ Event.born i b' cs' ∈ σ.log := by simpa using hh
    rcases hh' with ⟨e1, e2, e3⟩ | hh'
    · left; exact ⟨_, List.mem_singleton.mpr rfl, e1.symm, e2.symm, e3.symm⟩
    · rcases h.cover i b' cs' hh' with ⟨e, he, _⟩ | ⟨t, ht⟩ | ⟨t, ht⟩
      · rw [hp] at he; simp at he
      · right; left; exact ⟨t, by simp [ht]⟩
      · right; right; exact ⟨t, by simp [ht]⟩

end PPLV.Watchdog
