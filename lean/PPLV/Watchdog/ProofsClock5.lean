import PPLV.Watchdog.ProofsClock4

/-! `Clock` across a whole destructor (`~Watchdog` / `remove_watchdog_event`). -/
namespace PPLV.Watchdog

/-- log-dependent parts of `Clock` after a destructor: the log gains neutral events and
`destroyed id`, the pending list loses at most elements with that id -/
theorem log_parts_destroy {σ : St} (h : Clock σ) (id : Nat) (t : Int) (es : List Event)
    (hes : ∀ e ∈ es, e.neutral) (pending' : List Ev)
    (hp : ∀ x ∈ σ.pending, x.id ≠ id → x ∈ pending') :
    (∀ i t' b cs, Event.fired i t' b cs ∈ Event.destroyed id t :: (es ++ σ.log) →
        t' = b + cs * 10000 ∧ t' ≤ σ.now) ∧
    Ordered (Event.destroyed id t :: (es ++ σ.log)) ∧
    (∀ i b cs, Event.born i b cs ∈ Event.destroyed id t :: (es ++ σ.log) →
      (∃ e ∈ pending', e.id = i ∧ e.gBirth = b ∧ e.gCs = cs) ∨
      (∃ t', Event.fired i t' b cs ∈ Event.destroyed id t :: (es ++ σ.log)) ∨
      destroyedIn (Event.destroyed id t :: (es ++ σ.log)) i) := by
  have memf : ∀ i t' b cs, Event.fired i t' b cs ∈ Event.destroyed id t :: (es ++ σ.log) ↔
      Event.fired i t' b cs ∈ σ.log := by
    intro i t' b cs; simp only [List.mem_cons, List.mem_append]
    constructor
    · rintro (hh | hh | hh)
      · exact absurd hh (by simp)
      · exact absurd rfl ((hes _ hh).1 i t' b cs)
      · exact hh
    · exact fun hh => Or.inr (Or.inr hh)
  have memb : ∀ i b cs, Event.born i b cs ∈ Event.destroyed id t :: (es ++ σ.log) ↔
      Event.born i b cs ∈ σ.log := by
    intro i b cs; simp only [List.mem_cons, List.mem_append]
    constructor
    · rintro (hh | hh | hh)
      · exact absurd hh (by simp)
      · exact absurd rfl ((hes _ hh).2.2 i b cs)
      · exact hh
    · exact fun hh => Or.inr (Or.inr hh)
  refine ⟨fun i t' b cs hh => h.exact i t' b cs ((memf _ _ _ _).mp hh), ?_, ?_⟩
  · refine ordered_cons_other ?_ (by intros; simp)
    clear memf memb
    induction es with
    | nil => simpa using h.ordered
    | cons a as ih =>
      have ha := hes a (by simp)
      exact ordered_cons_other (ih (fun e he => hes e (by simp [he]))) ha.1
  · intro i b cs hh
    by_cases hi : i = id
    · right; right; exact ⟨t, by rw [hi]; simp⟩
    · rcases h.cover i b cs ((memb _ _ _).mp hh) with ⟨e, he, e1, e2⟩ | ⟨t', ht⟩ | ⟨t', ht⟩
      · left; exact ⟨e, hp e he (by rw [e1]; exact hi), e1, e2⟩
      · right; left; exact ⟨t', (memf _ _ _ _).mpr ht⟩
      · right; right; exact ⟨t', by simp [ht]⟩

theorem destroy_nil_eq (b : Bool) (σ : St) (id : Nat) (hpc : σ.pc = .d1 id) (hp : σ.pending = [])
    (hdf : σ.deferredFlag = false) :
    steps b 2 σ = { σ with inCrit := false, pc := .idle, log := .destroyed id σ.now :: σ.log } := by
  simp [steps, step, leave, finish, hdf, hpc, hp]

theorem destroy_other_eq (b : Bool) (σ : St) (id : Nat) (hpc : σ.pc = .d1 id) (e : Ev) (rest : List Ev)
    (hp : σ.pending = e :: rest) (hne : e.id ≠ id) (hdf : σ.deferredFlag = false) :
    steps b 2 σ = { σ with pending := eraseId id σ.pending, inCrit := false, pc := .idle,
                           log := .destroyed id σ.now :: σ.log } := by
  simp [steps, step, leave, finish, hdf, hpc, hp, hne]

theorem destroy_eqdl_eq (σ : St) (id : Nat) (hpc : σ.pc = .d1 id) (e n : Ev) (rest : List Ev)
    (hp : σ.pending = e :: n :: rest) (he : e.id = id) (hne : Time.ne false e.deadline n.deadline = false)
    (hdf : σ.deferredFlag = false) :
    steps false 2 σ = { σ with pending := eraseId id σ.pending, inCrit := false, pc := .idle,
                               log := .destroyed id σ.now :: σ.log } := by
  simp [steps, step, leave, finish, hdf, hpc, hp, he, hne]

theorem destroy_last_eq (b : Bool) (σ : St) (id : Nat) (hpc : σ.pc = .d1 id) (e : Ev)
    (hp : σ.pending = [e]) (he : e.id = id) (hdf : σ.deferredFlag = false) :
    steps b 4 σ = { σ with pending := eraseId id σ.pending, sigOnce := Time.zero, remaining := Time.zero.toUs,
                           running := false, inCrit := false, pc := .idle,
                           log := .destroyed id σ.now :: .setitimer Time.zero.toUs :: σ.log } := by
  have hok : Time.zero.timevalOK = true := by decide
  simp [steps, step, leave, finish, hdf, hpc, hp, he, hok]

/-- the value `remove_watchdog_event` re-arms the timer with -/
def rearmTime (σ : St) (e n : Ev) : Time := (getTimer σ).add (n.deadline.sub e.deadline)

theorem destroy_rearm_eq (σ : St) (id : Nat) (hpc : σ.pc = .d1 id) (e n : Ev) (rest : List Ev)
    (hp : σ.pending = e :: n :: rest) (he : e.id = id) (hne : Time.ne false e.deadline n.deadline = true)
    (hnz : (rearmTime σ e n).isZero = false) (hok : (rearmTime σ e n).timevalOK = true)
    (hdf : σ.deferredFlag = false) :
    steps false 5 σ = { σ with
      pending := eraseId id σ.pending
      tsf := σ.tsf.add (σ.ltr.sub (getTimer σ))
      ltr := rearmTime σ e n
      sigOnce := rearmTime σ e n
      remaining := (rearmTime σ e n).toUs
      inCrit := false
      pc := .idle
      log := .destroyed id σ.now :: .setitimer (rearmTime σ e n).toUs :: .getitimer σ.remaining :: σ.log } := by
  unfold rearmTime at hnz hok ⊢
  simp [steps, step, leave, finish, hdf, hpc, hp, he, hne]
  simp [getTimer] at hnz hok
  simp [getTimer, hnz, hok]

end PPLV.Watchdog
