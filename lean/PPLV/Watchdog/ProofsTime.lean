import PPLV.Watchdog.Model

/-! Lemmas on the code's `Time` arithmetic: on normalised values (`0 ≤ s`, `0 ≤ us < 10^6`)
`+=`, `-=`, `<` and the repaired `==` agree with the arithmetic of microsecond counts. -/
namespace PPLV.Watchdog
namespace Time

/-- class invariant of `Time` (`OK()`), plus non-negativity -/
def Norm (t : Time) : Prop := 0 ≤ t.s ∧ 0 ≤ t.us ∧ t.us < 1000000

theorem norm_zero : Norm zero := by simp [Norm, zero]

theorem toUs_zero : zero.toUs = 0 := by simp [toUs, zero]

theorem toUs_nonneg {t : Time} (h : Norm t) : 0 ≤ t.toUs := by
  obtain ⟨h1, h2, _⟩ := h; unfold toUs; omega

theorem toUs_inj {x y : Time} (hx : Norm x) (hy : Norm y) (h : x.toUs = y.toUs) : x = y := by
  obtain ⟨_, hx2, hx3⟩ := hx; obtain ⟨_, hy2, hy3⟩ := hy
  cases x with | mk xs xu => cases y with | mk ys yu =>
  simp only [toUs] at *
  have : xs = ys := by omega
  subst this
  have : xu = yu := by omega
  subst this; rfl

theorem ofCs_norm {c : Int} (h : 0 ≤ c) : Norm (ofCs c) := by
  unfold ofCs Norm
  rw [Int.tdiv_eq_ediv_of_nonneg h, Int.tmod_eq_emod_of_nonneg h]
  simp only; omega

theorem ofCs_toUs {c : Int} (h : 0 ≤ c) : (ofCs c).toUs = c * 10000 := by
  unfold ofCs toUs
  rw [Int.tdiv_eq_ediv_of_nonneg h, Int.tmod_eq_emod_of_nonneg h]
  simp only; omega

theorem reschedule_norm : Norm reschedule := ofCs_norm (by decide)
theorem reschedule_toUs : reschedule.toUs = 10000 := by decide

theorem mk2_timer_norm {r : Int} (h : 0 ≤ r) : Norm (mk2 (r / 1000000) (r % 1000000)) := by
  unfold mk2
  have : ¬ (r % 1000000 ≥ 1000000) := by omega
  simp only [this, if_false, Norm]; omega

theorem mk2_timer_toUs {r : Int} (h : 0 ≤ r) : (mk2 (r / 1000000) (r % 1000000)).toUs = r := by
  unfold mk2
  have : ¬ (r % 1000000 ≥ 1000000) := by omega
  simp only [this, if_false, toUs]; omega

theorem add_norm {x y : Time} (hx : Norm x) (hy : Norm y) : Norm (add x y) := by
  obtain ⟨hx1, hx2, hx3⟩ := hx; obtain ⟨hy1, hy2, hy3⟩ := hy
  unfold add Norm
  simp only
  split
  · rename_i h
    rw [Int.tmod_eq_emod_of_nonneg (by omega)]
    simp only; omega
  · simp only; omega

theorem add_toUs {x y : Time} (hx : Norm x) (hy : Norm y) : (add x y).toUs = x.toUs + y.toUs := by
  obtain ⟨hx1, hx2, hx3⟩ := hx; obtain ⟨hy1, hy2, hy3⟩ := hy
  unfold add toUs
  simp only
  split
  · rename_i h
    rw [Int.tmod_eq_emod_of_nonneg (by omega)]
    simp only; omega
  · simp only; omega

theorem sub_norm {x y : Time} (hx : Norm x) (hy : Norm y) : Norm (sub x y) := by
  obtain ⟨hx1, hx2, hx3⟩ := hx; obtain ⟨hy1, hy2, hy3⟩ := hy
  unfold sub Norm
  simp only
  split <;> split <;> simp only <;> omega

theorem sub_toUs_ge {x y : Time} (hx : Norm x) (hy : Norm y) (h : y.toUs ≤ x.toUs) :
    (sub x y).toUs = x.toUs - y.toUs := by
  obtain ⟨hx1, hx2, hx3⟩ := hx; obtain ⟨hy1, hy2, hy3⟩ := hy
  unfold toUs at h
  unfold sub toUs
  simp only
  split <;> split <;> simp only <;> omega

theorem sub_toUs_le {x y : Time} (hx : Norm x) (hy : Norm y) (h : x.toUs ≤ y.toUs) :
    (sub x y).toUs = 0 := by
  obtain ⟨hx1, hx2, hx3⟩ := hx; obtain ⟨hy1, hy2, hy3⟩ := hy
  unfold toUs at h
  unfold sub toUs
  simp only
  split <;> split <;> simp only <;> omega

theorem lt_iff {x y : Time} (hx : Norm x) (hy : Norm y) : lt x y = true ↔ x.toUs < y.toUs := by
  obtain ⟨hx1, hx2, hx3⟩ := hx; obtain ⟨hy1, hy2, hy3⟩ := hy
  unfold lt toUs
  simp only [Bool.or_eq_true, Bool.and_eq_true, decide_eq_true_eq]
  omega

theorem lt_false_iff {x y : Time} (hx : Norm x) (hy : Norm y) : lt x y = false ↔ y.toUs ≤ x.toUs := by
  have := lt_iff hx hy
  cases h : lt x y
  · simp only [true_iff]
    rw [h] at this
    have h2 : ¬ (x.toUs < y.toUs) := fun hh => by simpa using this.mpr hh
    omega
  · simp only [Bool.true_eq_false, false_iff]
    have := this.mp h
    omega

/-- the repaired `operator==` is equality of the denoted durations -/
theorem eq_false_iff {x y : Time} (hx : Norm x) (hy : Norm y) :
    eq false x y = true ↔ x.toUs = y.toUs := by
  obtain ⟨hx1, hx2, hx3⟩ := hx; obtain ⟨hy1, hy2, hy3⟩ := hy
  unfold eq toUs
  simp only [Bool.and_eq_true, decide_eq_true_eq, Bool.false_eq_true, if_false]
  omega

theorem ne_false_iff {x y : Time} (hx : Norm x) (hy : Norm y) :
    ne false x y = true ↔ x.toUs ≠ y.toUs := by
  unfold ne
  have := eq_false_iff hx hy
  cases h : eq false x y <;> simp_all

theorem le_false_iff {x y : Time} (hx : Norm x) (hy : Norm y) :
    le false x y = true ↔ x.toUs ≤ y.toUs := by
  unfold le
  have h1 := lt_iff hx hy
  have h2 := eq_false_iff hx hy
  simp only [Bool.or_eq_true, h1, h2]
  omega

theorem isZero_iff {t : Time} (h : Norm t) : isZero t = true ↔ t.toUs = 0 := by
  obtain ⟨h1, h2, h3⟩ := h
  unfold isZero toUs
  simp only [Bool.and_eq_true, decide_eq_true_eq]
  omega

theorem timevalOK_of_norm {t : Time} (h : Norm t) : timevalOK t = true := by
  obtain ⟨h1, h2, h3⟩ := h
  simp [timevalOK, h1, h2, h3]

end Time
end PPLV.Watchdog
