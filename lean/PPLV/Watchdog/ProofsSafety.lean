import PPLV.Watchdog.ProofsList

/-! Safety invariant of the statement-level system, for ALL schedules (signals anywhere, either
variant of `operator==`, any arguments): a watchdog fires at most once and never after its
destructor has returned; every firing belongs to a creation. -/
namespace PPLV.Watchdog

def destroyedIn (log : List Event) (id : Nat) : Prop := ∃ t, Event.destroyed id t ∈ log
def firedIn (log : List Event) (id : Nat) : Prop := ∃ t b cs, Event.fired id t b cs ∈ log

/-- no firing of `id` after (i.e. nearer the head than) a `destroyed id`; the log is newest first -/
def NAD : List Event → Prop
  | [] => True
  | e :: l => NAD l ∧ ∀ id t b cs, e = Event.fired id t b cs → ¬ destroyedIn l id

def FiredOnce : List Event → Prop
  | [] => True
  | e :: l => FiredOnce l ∧ ∀ id t b cs, e = Event.fired id t b cs → ¬ firedIn l id

theorem mem_ids {l : List Ev} {i : Nat} : i ∈ ids l ↔ ∃ e ∈ l, e.id = i := by
  simp [ids]

/-- what the end of an operation needs: a destructor's id is no longer pending -/
def FinOK (σ : St) : Fin → Prop
  | .ctor id => id ∈ σ.used
  | .dtor id => id ∈ σ.used ∧ id ∉ ids σ.pending

def PcOKAt (σ : St) (pc : PC) : Prop :=
  match pc with
  | .idle => True
  | .a1 id cs b _ => id ∉ ids σ.pending ∧ id ∈ σ.used ∧ Event.born id b cs ∈ σ.log ∧ id ∉ σ.expired ∧ ¬ destroyedIn σ.log id
  | .b1 id cs b _ => id ∉ ids σ.pending ∧ id ∈ σ.used ∧ Event.born id b cs ∈ σ.log ∧ id ∉ σ.expired ∧ ¬ destroyedIn σ.log id
  | .b2 id cs b _ _ => id ∉ ids σ.pending ∧ id ∈ σ.used ∧ Event.born id b cs ∈ σ.log ∧ id ∉ σ.expired ∧ ¬ destroyedIn σ.log id
  | .a2 id => id ∈ σ.used
  | .b3 id => id ∈ σ.used
  | .cEnd id => id ∈ σ.used
  | .d1 id => id ∈ σ.used
  | .r1 id _ _ => id ∈ σ.used
  | .r2 id _ _ _ => id ∈ σ.used
  | .r3 id => id ∈ σ.used
  | .s1 id => id ∈ σ.used
  | .s2 id => id ∈ σ.used
  | .dEnd id => id ∈ σ.used ∧ id ∉ ids σ.pending
  | .l2 fin => FinOK σ fin
  | .l3 fin _ => FinOK σ fin
  | .l4 fin => FinOK σ fin
  | .l5 fin => FinOK σ fin

def PcOK (σ : St) : Prop := PcOKAt σ σ.pc

structure Safe (σ : St) : Prop where
  nodup : (ids σ.pending).Nodup
  pend : ∀ e ∈ σ.pending, e.id ∉ σ.expired ∧ ¬ destroyedIn σ.log e.id ∧ e.id ∈ σ.used ∧
          Event.born e.id e.gBirth e.gCs ∈ σ.log
  firedExp : ∀ id t b cs, Event.fired id t b cs ∈ σ.log → id ∈ σ.expired ∧ Event.born id b cs ∈ σ.log
  expUsed : ∀ i ∈ σ.expired, i ∈ σ.used
  bornUsed : ∀ id b cs, Event.born id b cs ∈ σ.log → id ∈ σ.used
  bornUniq : ∀ id b cs b' cs', Event.born id b cs ∈ σ.log → Event.born id b' cs' ∈ σ.log → b = b' ∧ cs = cs'
  destUsed : ∀ id t, Event.destroyed id t ∈ σ.log → id ∈ σ.used
  liveUsed : ∀ i ∈ σ.live, i ∈ σ.used
  once : FiredOnce σ.log
  nad : NAD σ.log
  pcOK : PcOK σ

theorem safe_init : Safe {} := by
  constructor <;> simp [ids, FiredOnce, NAD, PcOK, PcOKAt]

/-- consing an event that is neither a firing nor a destruction keeps the two trace predicates -/
theorem firedOnce_cons_other {e : Event} {l : List Event} (h : FiredOnce l)
    (he : ∀ id t b cs, e ≠ Event.fired id t b cs) : FiredOnce (e :: l) :=
  ⟨h, fun id t b cs hh => absurd hh (he id t b cs)⟩

theorem nad_cons_other {e : Event} {l : List Event} (h : NAD l)
    (he : ∀ id t b cs, e ≠ Event.fired id t b cs) : NAD (e :: l) :=
  ⟨h, fun id t b cs hh => absurd hh (he id t b cs)⟩

/-- frame lemma: a step that keeps `pending`, `expired`, `used`, `live` and conses one event that
is not a birth, firing or destruction onto the log (or nothing) keeps everything but `pcOK` -/
theorem Safe.frame {σ σ' : St} (h : Safe σ) (hp : σ'.pending = σ.pending) (he : σ'.expired = σ.expired)
    (hu : σ'.used = σ.used) (hl : σ'.live = σ.live)
    (hlog : σ'.log = σ.log ∨ ∃ e, σ'.log = e :: σ.log ∧ (∀ id t b cs, e ≠ Event.fired id t b cs) ∧
       (∀ id t, e ≠ Event.destroyed id t) ∧ (∀ id b cs, e ≠ Event.born id b cs))
    (hpc : PcOK σ') : Safe σ' := by
  rcases hlog with hlog | ⟨e, hlog, hf, hd, hb⟩
  · constructor
    · rw [hp]; exact h.nodup
    · rw [hp, he, hu, hlog]; exact h.pend
    · rw [he, hlog]; exact h.firedExp
    · rw [he, hu]; exact h.expUsed
    · rw [hu, hlog]; exact h.bornUsed
    · rw [hlog]; exact h.bornUniq
    · rw [hu, hlog]; exact h.destUsed
    · rw [hu, hl]; exact h.liveUsed
    · rw [hlog]; exact h.once
    · rw [hlog]; exact h.nad
    · exact hpc
  · have memf : ∀ id t b cs, Event.fired id t b cs ∈ e :: σ.log ↔ Event.fired id t b cs ∈ σ.log := by
      intro id t b cs; simp only [List.mem_cons]
      constructor
      · rintro (hh | hh)
        · exact absurd hh.symm (hf id t b cs)
        · exact hh
      · exact Or.inr
    have memd : ∀ id t, Event.destroyed id t ∈ e :: σ.log ↔ Event.destroyed id t ∈ σ.log := by
      intro id t; simp only [List.mem_cons]
      constructor
      · rintro (hh | hh)
        · exact absurd hh.symm (hd id t)
        · exact hh
      · exact Or.inr
    have memb : ∀ id b cs, Event.born id b cs ∈ e :: σ.log ↔ Event.born id b cs ∈ σ.log := by
      intro id b cs; simp only [List.mem_cons]
      constructor
      · rintro (hh | hh)
        · exact absurd hh.symm (hb id b cs)
        · exact hh
      · exact Or.inr
    have dIn : ∀ id, destroyedIn (e :: σ.log) id ↔ destroyedIn σ.log id := by
      intro id; simp only [destroyedIn, memd]
    constructor
    · rw [hp]; exact h.nodup
    · rw [hp, he, hu, hlog]
      intro x hx
      have := h.pend x hx
      exact ⟨this.1, fun hd' => this.2.1 ((dIn _).mp hd'), this.2.2.1, (memb _ _ _).mpr this.2.2.2⟩
    · rw [he, hlog]
      intro id t b cs hh
      have := h.firedExp id t b cs ((memf _ _ _ _).mp hh)
      exact ⟨this.1, (memb _ _ _).mpr this.2⟩
    · rw [he, hu]; exact h.expUsed
    · rw [hu, hlog]; intro id b cs hh; exact h.bornUsed id b cs ((memb _ _ _).mp hh)
    · rw [hlog]; intro id b cs b' cs' h1 h2
      exact h.bornUniq id b cs b' cs' ((memb _ _ _).mp h1) ((memb _ _ _).mp h2)
    · rw [hu, hlog]; intro id t hh; exact h.destUsed id t ((memd _ _).mp hh)
    · rw [hu, hl]; exact h.liveUsed
    · rw [hlog]; exact firedOnce_cons_other h.once hf
    · rw [hlog]; exact nad_cons_other h.nad hf
    · exact hpc

end PPLV.Watchdog
