import PPLV.Gen.StatusTables

/-!
# C15 — code-shaped models of PPL's `ascii_dump` / `ascii_load` pairs

Every `ascii_load` of PPL reads its stream with `s >> str` / `s >> n` only, i.e. it sees the text as the
sequence of its whitespace-separated words; every `ascii_dump` writes words and separators.  The model
therefore has three layers, each of them executable (they are linked into the driver `pplv_c15`):

* `words : List Char → List Word` — what `operator>>` makes of a text;
* a *layout* per grammar (`List (Word × separator)`), rendered byte for byte by `render` — this is
  `ascii_dump`, compared with the real text by the driver;
* a word-level loader per grammar — the transliteration of `ascii_load`, statement by statement.

Grammars: the five status classes (interpreted over the tables that `gen/c15_tables.py` regenerates from the
current sources: `PPLV.Gen.StatusTables`), `Box` (status + `space_dim` + interval lines) with its loader
exactly as written (it loads the flags *into the receiver's status*), the `Linear_System` header,
`Bit_Matrix`, `DB_Matrix`, `OR_Matrix` (numbers are an abstract `Codec` with a round-trip law; concrete
codecs for `dimension_type`, `mpz` and "`mpz` or `+inf`"), and the keyword enumerations of `MIP_Problem` /
`PIP_Problem` status fields.  No Mathlib.

Deviation from the C++ (irrelevant on dumped text): `s >> n` stops at the first character that cannot
continue a number, the model parses the whole word.
-/
namespace PPLV.Dump

abbrev Word := List Char

/-! ## Lexical layer -/

/-- `isspace` in the "C" locale -/
def isWs (c : Char) : Bool :=
  c == ' ' || c == '\n' || c == '\t' || c == '\r' || c == '\x0b' || c == '\x0c'

/-- the automaton of repeated `s >> str`: `cur` is the current word, reversed -/
def wordsAux : List Char → List Char → List Word
  | [], cur => if cur.isEmpty then [] else [cur.reverse]
  | c :: cs, cur =>
    if isWs c then (if cur.isEmpty then wordsAux cs [] else cur.reverse :: wordsAux cs [])
    else wordsAux cs (c :: cur)

/-- the words successive `s >> str` extract from a text -/
def words (s : List Char) : List Word := wordsAux s []

/-- a printed word together with the separator text written after it -/
abbrev Item := Word × List Char

/-- `ascii_dump`: write the words and separators in order -/
def render : List Item → List Char
  | [] => []
  | it :: r => it.1 ++ (it.2 ++ render r)

def isWordB (w : Word) : Bool := !w.isEmpty && w.all (fun c => !isWs c)
def sepOkB (s : List Char) : Bool := !s.isEmpty && s.all isWs
def itemOk (it : Item) : Bool := isWordB it.1 && sepOkB it.2

/-! ## Numbers -/

def digitChar (d : Nat) : Char := Char.ofNat (48 + d)

/-- decimal digits, least significant first (`fuel > n` suffices) -/
def natRevDigits : Nat → Nat → List Char
  | 0, _ => []
  | fuel + 1, n => digitChar (n % 10) :: (if n / 10 = 0 then [] else natRevDigits fuel (n / 10))

/-- `s << n` for `dimension_type` -/
def printNat (n : Nat) : Word := (natRevDigits (n + 1) n).reverse

def digitVal (c : Char) : Option Nat :=
  if 48 ≤ c.toNat ∧ c.toNat ≤ 57 then some (c.toNat - 48) else none

def parseRevDigits : List Char → Option Nat
  | [] => some 0
  | c :: cs =>
    match digitVal c, parseRevDigits cs with
    | some d, some r => some (d + 10 * r)
    | _, _ => none

/-- `s >> n` for `dimension_type` (whole word) -/
def parseNat (w : Word) : Option Nat := if w.isEmpty then none else parseRevDigits w.reverse

/-- `s << z` for `mpz_class` -/
def printInt (i : Int) : Word := if i < 0 then '-' :: printNat i.natAbs else printNat i.natAbs

def parseInt (w : Word) : Option Int :=
  match w with
  | '-' :: r => (parseNat r).map (fun (n : Nat) => - (Int.ofNat n))
  | _ => (parseNat w).map (fun (n : Nat) => Int.ofNat n)

/-- a number language: one word per value, and reading back what was printed gives the value -/
structure Codec where
  α : Type
  print : α → Word
  parse : Word → Option α
  word : ∀ a, isWordB (print a) = true
  rt : ∀ a, parse (print a) = some a

/-! ## Word-level readers (the statements `ascii_load` functions are made of) -/

/-- `if (!(s >> str) || str != kw) return false;` -/
def expect (kw : Word) : List Word → Option (List Word)
  | [] => none
  | w :: r => if w = kw then some r else none

/-- `if (!(s >> x)) return false;` -/
def readTok (C : Codec) : List Word → Option (C.α × List Word)
  | [] => none
  | w :: r => (C.parse w).map (fun a => (a, r))

def readNat : List Word → Option (Nat × List Word)
  | [] => none
  | w :: r => (parseNat w).map (fun a => (a, r))

/-- `for (j = 0; j < n; ++j) if (!(s >> x[j])) return false;` -/
def readN (C : Codec) : Nat → List Word → Option (List C.α × List Word)
  | 0, ws => some ([], ws)
  | n + 1, ws =>
    match readTok C ws with
    | none => none
    | some (a, r) =>
      match readN C n r with
      | none => none
      | some (as, r') => some (a :: as, r')

/-- rows of prescribed lengths -/
def readRows (C : Codec) : List Nat → List Word → Option (List (List C.α) × List Word)
  | [], ws => some ([], ws)
  | n :: ns, ws =>
    match readN C n ws with
    | none => none
    | some (row, r) =>
      match readRows C ns r with
      | none => none
      | some (rows, r') => some (row :: rows, r')

/-- `for j: s << x[i][j] << separator;  s << "\n"` : every element is followed by a blank, the row by a newline
(attached here to the last element's separator; the shaped matrices below have no empty rows). -/
def rowItems (C : Codec) : List C.α → List Item
  | [] => []
  | a :: as => (C.print a, if as.isEmpty then [' ', '\n'] else [' ']) :: rowItems C as

/-! ## Status flags (`*_Status.cc`, `*_Status_inlines.hh`) -/

/-- a mask given by its bit positions -/
def maskOf : List Nat → Nat
  | [] => 0
  | b :: bs => (1 <<< b) ||| maskOf bs

inductive Test where
  | eqMask (bits : List Nat)      -- `flags == MASK`
  | anyMask (bits : List Nat)     -- `test_any(MASK)`
  deriving DecidableEq, Repr

inductive Act where
  | nop                            -- no statement
  | assign (bits : List Nat)      -- `flags = MASK`
  | or (bits : List Nat)          -- `set(MASK)`     : `flags |= MASK`
  | andNot (bits : List Nat)      -- `reset(MASK)`   : `flags &= ~MASK`
  deriving DecidableEq, Repr

def Test.run : Test → Nat → Bool
  | .eqMask bs, f => f == maskOf bs
  | .anyMask bs, f => (f &&& maskOf bs) != 0

/-- `flags &= ~m` on naturals -/
def clearBits (f m : Nat) : Nat := f ^^^ (f &&& m)

def Act.run : Act → Nat → Nat
  | .nop, f => f
  | .assign bs, _ => maskOf bs
  | .or bs, f => f ||| maskOf bs
  | .andNot bs, f => clearBits f (maskOf bs)

structure Field where
  tok : Word        -- keyword
  sep : List Char   -- text `ascii_dump` writes after the keyword
  test : Test       -- how `ascii_dump` chooses the sign
  plus : Act        -- what `ascii_load` does on '+'
  minus : Act       -- what `ascii_load` does on '-'
  deriving DecidableEq, Repr

abbrev Table := List Field

def decodeTest : Nat → List Nat → Option Test
  | 0, bs => some (.eqMask bs)
  | 1, bs => some (.anyMask bs)
  | _, _ => none

def decodeAct : Nat → List Nat → Option Act
  | 0, _ => some .nop
  | 1, bs => some (.assign bs)
  | 2, bs => some (.or bs)
  | 3, bs => some (.andNot bs)
  | _, _ => none

def decodeRow (r : Gen.StatusTables.Row) : Option Field :=
  match r with
  | (tok, sep, tk, tb, pk, pb, mk, mb) =>
    match decodeTest tk tb, decodeAct pk pb, decodeAct mk mb with
    | some t, some p, some m => some ⟨tok.toList, sep.toList, t, p, m⟩
    | _, _, _ => none

def decodeRows : List Gen.StatusTables.Row → Option Table
  | [] => some []
  | r :: rs =>
    match decodeRow r, decodeRows rs with
    | some f, some t => some (f :: t)
    | _, _ => none

inductive StatusClass where
  | ph | grid | bds | og | box
  deriving DecidableEq, Repr

open Gen.StatusTables in
/-- the table of a class as regenerated from the current sources (empty if a row does not decode) -/
def StatusClass.table : StatusClass → Table
  | .ph => (decodeRows phRows).getD []
  | .grid => (decodeRows gridRows).getD []
  | .bds => (decodeRows bdsRows).getD []
  | .og => (decodeRows ogRows).getD []
  | .box => (decodeRows boxRows).getD []

open Gen.StatusTables in
/-- `flags` of a default-constructed `Status()` -/
def StatusClass.init : StatusClass → Nat
  | .ph => phInit | .grid => gridInit | .bds => bdsInit | .og => ogInit | .box => boxInit

open Gen.StatusTables in
def StatusClass.yesNo : StatusClass → Char × Char
  | .ph => (phYes, phNo) | .grid => (gridYes, gridNo) | .bds => (bdsYes, bdsNo)
  | .og => (ogYes, ogNo) | .box => (boxYes, boxNo)

open Gen.StatusTables in
def StatusClass.getFieldStandard : StatusClass → Bool
  | .ph => phGetFieldStandard | .grid => gridGetFieldStandard | .bds => bdsGetFieldStandard
  | .og => ogGetFieldStandard | .box => boxGetFieldStandard

def StatusClass.name : StatusClass → String
  | .ph => "ph" | .grid => "grid" | .bds => "bds" | .og => "og" | .box => "box"

def StatusClass.all : List StatusClass := [.ph, .grid, .bds, .og, .box]

def StatusClass.ofName (s : String) : Option StatusClass :=
  StatusClass.all.find? (fun c => c.name == s)

/-- `Status::ascii_dump`: for every field the sign chosen by its test, the keyword, the separator -/
def statusLayout (t : Table) (f : Nat) : List Item :=
  t.map fun fd => ((if fd.test.run f then '+' else '-') :: fd.tok, fd.sep)

def dumpStatus (t : Table) (f : Nat) : List Char := render (statusLayout t f)

/-- `get_field(s, keyword, positive)` applied to the word just read -/
def getField (kw : Word) (w : Word) : Option Bool :=
  match w with
  | [] => none
  | c :: r => if (c == '+' || c == '-') && r == kw then some (c == '+') else none

/-- `Status::ascii_load` starting from the receiver's current `flags` -/
def loadStatus : Table → Nat → List Word → Option (Nat × List Word)
  | [], f, ws => some (f, ws)
  | _ :: _, _, [] => none
  | fd :: t, f, w :: ws =>
    match getField fd.tok w with
    | none => none
    | some pos => loadStatus t ((if pos then fd.plus else fd.minus).run f) ws

/-- the signs `ascii_dump` writes for `flags = f` -/
def signs (t : Table) (f : Nat) : List Bool := t.map (fun fd => fd.test.run f)

/-- the flag updates `ascii_load` performs for a list of signs -/
def applySigns : Table → List Bool → Nat → Nat
  | fd :: t, b :: bs, f => applySigns t bs ((if b then fd.plus else fd.minus).run f)
  | _, _, f => f

/-! ### Which tables are understood (decidable; checked on the regenerated tables by `decide`) -/

def Test.bits : Test → List Nat
  | .eqMask bs => bs
  | .anyMask bs => bs

/-- all flag bits a table can show -/
def bitsOf : Table → List Nat
  | [] => []
  | fd :: t => fd.test.bits ++ bitsOf t

/-- an ordinary flag: test one bit, set it on '+', on '-' either nothing or `reset(mask ∋ bit)` -/
def plainView (fd : Field) : Option (Nat × Option (List Nat)) :=
  match fd.test, fd.plus, fd.minus with
  | .anyMask [b], .or [b'], .nop => if b = b' then some (b, none) else none
  | .anyMask [b], .or [b'], .andNot r => if b = b' ∧ b ∈ r then some (b, some r) else none
  | _, _, _ => none

/-- ordinary flags with pairwise distinct bits; a `reset` may also clear bits of *later* fields only
(`reset_shortest_path_closed` clears the reduced bit too) -/
def plainOk : Table → Bool
  | [] => true
  | fd :: t =>
    (match plainView fd with
     | none => false
     | some (b, none) => !(bitsOf t).contains b
     | some (b, some r) => !(bitsOf t).contains b && r.all (fun x => x == b || (bitsOf t).contains x))
    && plainOk t

/-- `+ZE`: `flags == 0` / `flags = 0`; `+EM`: `flags = EMPTY`; then ordinary flags on other bits -/
def zeStyleOk : Table → Bool
  | ze :: em :: t =>
    decide (ze.test = .eqMask [] ∧ ze.plus = .assign [] ∧ ze.minus = .nop) &&
    (match em.test, em.plus, em.minus with
     | .anyMask [e], .assign [e'], .nop => e == e' && !(bitsOf t).contains e
     | .anyMask [e], .assign [e'], .andNot [e''] => e == e' && e == e'' && !(bitsOf t).contains e
     | _, _, _ => false) && plainOk t
  | _ => false

def shapeOk (t : Table) : Bool := zeStyleOk t || plainOk t

/-- the dump of the table is lexically sound: keywords are words, separators are non-empty blanks -/
def lexOk (t : Table) : Bool := t.all fun fd => isWordB ('+' :: fd.tok) && sepOkB fd.sep

def tokensDistinct : Table → Bool
  | [] => true
  | fd :: t => !(t.map (·.tok)).contains fd.tok && tokensDistinct t

def WF (t : Table) : Bool := lexOk t && shapeOk t && tokensDistinct t && !t.isEmpty

/-- `flags` has no bit outside the table's masks (what a `Status` object can hold) -/
def validFlags (t : Table) (f : Nat) : Bool := (f ||| maskOf (bitsOf t)) == maskOf (bitsOf t)

/-- the fields whose '-' branch in `ascii_load` is empty -/
def noClearBits : Table → List Nat
  | [] => []
  | fd :: t => (if fd.minus = .nop then fd.test.bits else []) ++ noClearBits t

/-- sufficient condition on the receiver `p` for loading the dump of `s` into it: a flag that `ascii_load`
never clears is set in the receiver only if it is set in the dumped state -/
def compat (t : Table) (p s : Nat) : Bool :=
  (noClearBits t).all fun b => !p.testBit b || s.testBit b

/-! ## `Box<ITV>` (`Box_templates.hh: ascii_dump / ascii_load`) -/

/-- the hand copy of `Box::Status::ascii_load`'s table with the behaviour of defect 21 behind a switch:
`asWritten = true` is the round-0 source (`+` sets, `-` does nothing for EUP and EM),
`asWritten = false` has the missing `else reset_…()` branches. -/
def boxTable (asWritten : Bool) : Table :=
  [⟨"EUP".toList, " ".toList, .anyMask [0], .or [0], if asWritten then .nop else .andNot [0]⟩,
   ⟨"EM".toList, " ".toList, .anyMask [1], .or [1], if asWritten then .nop else .andNot [1]⟩,
   ⟨"UN".toList, " ".toList, .anyMask [2], .or [2], .andNot [2]⟩]

/-- round-0 tables of the four `ZE`/`EM` classes, `EM` never cleared on '-' (switch as for the box) -/
def zeEmPrefix (asWritten : Bool) : Table :=
  [⟨"ZE".toList, " ".toList, .eqMask [], .assign [], .nop⟩,
   ⟨"EM".toList, "  ".toList, .anyMask [0], .assign [0], if asWritten then .nop else .andNot [0]⟩]

def plainField (tok sep : String) (b : Nat) : Field := ⟨tok.toList, sep.toList, .anyMask [b], .or [b], .andNot [b]⟩

def phTable (asWritten : Bool) (lastSep : String := " ") : Table :=
  zeEmPrefix asWritten ++
  [plainField "CM" " " 3, plainField "GM" "  " 4, plainField "CS" " " 1, plainField "GS" "  " 2,
   plainField "CP" " " 7, plainField "GP" "  " 8, plainField "SC" " " 5, plainField "SG" lastSep 6]

def bdsTable (asWritten : Bool) : Table :=
  zeEmPrefix asWritten ++
  [⟨"SPC".toList, " ".toList, .anyMask [1], .or [1], .andNot [1, 2]⟩, plainField "SPR" " " 2]

def ogTable (asWritten : Bool) : Table := zeEmPrefix asWritten ++ [plainField "SC" " " 1]

/-- which hand copy (if any) the regenerated table of a class coincides with -/
def StatusClass.switch (c : StatusClass) : Option Bool :=
  let cand : Bool → Table := match c with
    | .ph => fun b => phTable b | .grid => fun b => phTable b "\n" | .bds => bdsTable | .og => ogTable | .box => boxTable
  if c.table = cand true then some true else if c.table = cand false then some false else none

/-- abstract state of a box: status flags and one (info, lower, upper) triple per dimension -/
structure BoxSt (C : Codec) where
  flags : Nat
  seq : List (C.α × C.α × C.α)

def intervalItems (C : Codec) (iv : C.α × C.α × C.α) : List Item :=
  [("info".toList, [' ']), (C.print iv.1, [' ']), ("lower".toList, [' ']), (C.print iv.2.1, [' ']),
   ("upper".toList, [' ']), (C.print iv.2.2, ['\n'])]

/-- `Box::ascii_dump` -/
def boxLayout (C : Codec) (t : Table) (b : BoxSt C) : List Item :=
  statusLayout t b.flags ++ [("space_dim".toList, [' ']), (printNat b.seq.length, ['\n'])]
    ++ (b.seq.map (intervalItems C)).flatten

def dumpBox (C : Codec) (t : Table) (b : BoxSt C) : List Char := render (boxLayout C t b)

/-- `Interval::ascii_load` -/
def loadInterval (C : Codec) (ws : List Word) : Option ((C.α × C.α × C.α) × List Word) :=
  match expect "info".toList ws with
  | none => none
  | some ws =>
  match readTok C ws with
  | none => none
  | some (i, ws) =>
  match expect "lower".toList ws with
  | none => none
  | some ws =>
  match readTok C ws with
  | none => none
  | some (l, ws) =>
  match expect "upper".toList ws with
  | none => none
  | some ws =>
  match readTok C ws with
  | none => none
  | some (u, ws) => some ((i, l, u), ws)

/-- `for (i < space_dim) { if (seq_i.ascii_load(s)) seq.push_back(seq_i); else return false; }` -/
def loadIntervals (C : Codec) : Nat → List Word → Option (List (C.α × C.α × C.α) × List Word)
  | 0, ws => some ([], ws)
  | n + 1, ws =>
    match loadInterval C ws with
    | none => none
    | some (iv, r) =>
      match loadIntervals C n r with
      | none => none
      | some (ivs, r') => some (iv :: ivs, r')

/-- `Box::ascii_load` as written: the status is loaded *into the receiver's status* (`recv.flags`),
`seq.clear()` precedes the interval loop, so nothing else of the receiver survives. -/
def loadBoxW (C : Codec) (t : Table) (recv : BoxSt C) (ws : List Word) : Option (BoxSt C × List Word) :=
  match loadStatus t recv.flags ws with
  | none => none
  | some (f, ws) =>
  match expect "space_dim".toList ws with
  | none => none
  | some ws =>
  match readNat ws with
  | none => none
  | some (n, ws) =>
  match loadIntervals C n ws with
  | none => none
  | some (seq, ws) => some (⟨f, seq⟩, ws)

def loadBox (C : Codec) (t : Table) (recv : BoxSt C) (s : List Char) : Option (BoxSt C) :=
  (loadBoxW C t recv (words s)).map (·.1)

/-- `Box()` = `Box(0, UNIVERSE)`: `status()` then `set_empty_up_to_date()` -/
def defaultBox (C : Codec) : BoxSt C := ⟨1, []⟩

/-! ## `Linear_System` header (`Linear_System_templates.hh`) -/

structure LinSysHeader where
  nnc : Bool
  nrows : Nat
  dims : Nat
  sparse : Bool
  sorted : Bool
  firstPending : Nat
  deriving DecidableEq, Repr

def LinSysHeader.layout (h : LinSysHeader) : List Item :=
  [("topology".toList, [' ']),
   ((if h.nnc then "NOT_NECESSARILY_CLOSED" else "NECESSARILY_CLOSED").toList, ['\n']),
   (printNat h.nrows, [' ']), ("x".toList, [' ']), (printNat h.dims, [' ']),
   ((if h.sparse then "SPARSE" else "DENSE").toList, [' ']),
   ((if h.sorted then "(sorted)" else "(not_sorted)").toList, ['\n']),
   ("index_first_pending".toList, [' ']), (printNat h.firstPending, ['\n'])]

def LinSysHeader.dump (h : LinSysHeader) : List Char := render h.layout

/-- the header part of `Linear_System<Row>::ascii_load`, statement by statement -/
def LinSysHeader.loadW (ws : List Word) : Option (LinSysHeader × List Word) :=
  match expect "topology".toList ws with
  | none => none
  | some ws =>
  match ws with
  | [] => none
  | str :: ws =>
  -- `if (str == "NECESSARILY_CLOSED") t = NC; else { if (str != "NOT_NECESSARILY_CLOSED") return false; t = NNC; }`
  match (if str = "NECESSARILY_CLOSED".toList then some false
         else if str = "NOT_NECESSARILY_CLOSED".toList then some true else none) with
  | none => none
  | some nnc =>
  match readNat ws with
  | none => none
  | some (nrows, ws) =>
  match expect "x".toList ws with
  | none => none
  | some ws =>
  match readNat ws with
  | none => none
  | some (dims, ws) =>
  match ws with
  | [] => none
  | rep :: ws =>
  match (if rep = "DENSE".toList then some false else if rep = "SPARSE".toList then some true else none) with
  | none => none
  | some sparse =>
  match ws with
  | [] => none
  | so :: ws =>
  if so ≠ "(sorted)".toList ∧ so ≠ "(not_sorted)".toList then none else
  let sorted := decide (so = "(sorted)".toList)
  match expect "index_first_pending".toList ws with
  | none => none
  | some ws =>
  match readNat ws with
  | none => none
  | some (idx, ws) => some (⟨nnc, nrows, dims, sparse, sorted, idx⟩, ws)

def LinSysHeader.load (s : List Char) : Option LinSysHeader := (LinSysHeader.loadW (words s)).map (·.1)

/-! ## `Bit_Matrix` (`Bit_Matrix.cc`) -/

structure BitMatrix where
  ncols : Nat
  rows : List (List Bool)
  deriving DecidableEq, Repr

def BitMatrix.valid (m : BitMatrix) : Bool := m.rows.all (fun r => r.length == m.ncols)

def bitWord (b : Bool) : Word := [if b then '1' else '0']

/-- elements are followed by a blank, rows by a newline -/
def bitRowItems : List Bool → List Item
  | [] => []
  | b :: bs => (bitWord b, if bs.isEmpty then [' ', '\n'] else [' ']) :: bitRowItems bs

/-- `Bit_Matrix::ascii_dump`.  (A matrix without columns prints its row newlines after the header.) -/
def BitMatrix.layout (m : BitMatrix) : List Item :=
  [(printNat m.rows.length, [' ']), ("x".toList, [' ']),
   (printNat m.ncols, '\n' :: (if m.ncols = 0 then m.rows.map (fun _ => '\n') else []))]
  ++ (m.rows.map bitRowItems).flatten

def BitMatrix.dump (m : BitMatrix) : List Char := render m.layout

/-- `int bit; if (!(s >> bit)) return false; if (bit != 0) set else clear` -/
def readBit : List Word → Option (Bool × List Word)
  | [] => none
  | w :: r => (parseInt w).map (fun i => (i != 0, r))

def readBits : Nat → List Word → Option (List Bool × List Word)
  | 0, ws => some ([], ws)
  | n + 1, ws =>
    match readBit ws with
    | none => none
    | some (a, r) =>
      match readBits n r with
      | none => none
      | some (as, r') => some (a :: as, r')

def readBitRows (ncols : Nat) : Nat → List Word → Option (List (List Bool) × List Word)
  | 0, ws => some ([], ws)
  | n + 1, ws =>
    match readBits ncols ws with
    | none => none
    | some (row, r) =>
      match readBitRows ncols n r with
      | none => none
      | some (rows, r') => some (row :: rows, r')

def BitMatrix.loadW (ws : List Word) : Option (BitMatrix × List Word) :=
  match readNat ws with
  | none => none
  | some (nrows, ws) =>
  match expect "x".toList ws with
  | none => none
  | some ws =>
  match readNat ws with
  | none => none
  | some (ncols, ws) =>
  match readBitRows ncols nrows ws with
  | none => none
  | some (rows, ws) => some (⟨ncols, rows⟩, ws)

def BitMatrix.load (s : List Char) : Option BitMatrix := (BitMatrix.loadW (words s)).map (·.1)

/-! ## `DB_Matrix<T>` and `OR_Matrix<T>` (`DB_Matrix_templates.hh`, `OR_Matrix_templates.hh`) -/

/-- shape of a matrix dump that starts with one size word -/
structure Shape where
  numRows : Nat → Nat
  rowLen : Nat → Nat → Nat        -- size → row index → row length

/-- `DB_Matrix`: `n` rows of `n` entries -/
def dbShape : Shape := ⟨fun n => n, fun n _ => n⟩
/-- `OR_Matrix`: `2n` rows, row `i` has `2*(i/2) + 2` entries (`OR_Matrix::row_size`) -/
def orShape : Shape := ⟨fun n => 2 * n, fun _ i => 2 * (i / 2) + 2⟩

def Shape.lens (sh : Shape) (n : Nat) : List Nat := (List.range (sh.numRows n)).map (sh.rowLen n)

structure ShapedMatrix (C : Codec) where
  size : Nat
  rows : List (List C.α)

def ShapedMatrix.valid {C : Codec} (sh : Shape) (m : ShapedMatrix C) : Bool :=
  m.rows.map List.length == sh.lens m.size

/-- `s << n << separator << "\n"; for rows: for j: s << x[i][j] << separator; s << "\n"` -/
def ShapedMatrix.layout {C : Codec} (m : ShapedMatrix C) : List Item :=
  (printNat m.size, [' ', '\n']) :: (m.rows.map (rowItems C)).flatten

def ShapedMatrix.dump {C : Codec} (m : ShapedMatrix C) : List Char := render m.layout

/-- `DB_Matrix::ascii_load` / `OR_Matrix::ascii_load`: the size, then every row in order.  (The C++ also
rejects `-inf` and inexact input; that is the codec's business: such values are not in `C.α`.) -/
def ShapedMatrix.loadW (C : Codec) (sh : Shape) (ws : List Word) : Option (ShapedMatrix C × List Word) :=
  match readNat ws with
  | none => none
  | some (n, ws) =>
  match readRows C (sh.lens n) ws with
  | none => none
  | some (rows, ws) => some (⟨n, rows⟩, ws)

def ShapedMatrix.load (C : Codec) (sh : Shape) (s : List Char) : Option (ShapedMatrix C) :=
  (ShapedMatrix.loadW C sh (words s)).map (·.1)

/-! ## Keyword enumerations (`MIP_Problem::status`, `pricing`, `opt_mode`, `initialized`; `PIP_Problem::status`,
control parameter values) -/

structure EnumGrammar where
  keywords : List Word

/-- `if (str == K0) v = 0; else if (str == K1) v = 1; … else return false;` -/
def enumLoad : List Word → Word → Option Nat
  | [], _ => none
  | k :: ks, w => if w = k then some 0 else (enumLoad ks w).map (· + 1)

def enumDump (ks : List Word) (v : Nat) : Word := ks.getD v []

def mipStatusKw : List Word :=
  ["UNSATISFIABLE", "SATISFIABLE", "UNBOUNDED", "OPTIMIZED", "PARTIALLY_SATISFIABLE"].map String.toList
def mipPricingKw : List Word :=
  ["PRICING_STEEPEST_EDGE_FLOAT", "PRICING_STEEPEST_EDGE_EXACT", "PRICING_TEXTBOOK"].map String.toList
def optModeKw : List Word := ["MINIMIZATION", "MAXIMIZATION"].map String.toList
def yesNoKw : List Word := ["NO", "YES"].map String.toList
def pipStatusKw : List Word := ["UNSATISFIABLE", "OPTIMIZED", "PARTIALLY_SATISFIABLE"].map String.toList
def pipControlKw : List Word :=
  ["CUTTING_STRATEGY_FIRST", "CUTTING_STRATEGY_DEEPEST", "CUTTING_STRATEGY_ALL", "PIVOT_ROW_STRATEGY_FIRST",
   "PIVOT_ROW_STRATEGY_MAX_COLUMN"].map String.toList

def kwDistinct : List Word → Bool
  | [] => true
  | k :: ks => !ks.contains k && kwDistinct ks

end PPLV.Dump
