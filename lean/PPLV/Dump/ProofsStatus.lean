import PPLV.Dump.ProofsLex

/-! Status-flag grammars of C15: for every table of the recognised shapes (`shapeOk`), loading the dump of a
flag state `s` into a receiver `p` gives back `s`, provided the flags the loader never clears are not set in
`p` without being set in `s` (`compat`).  Generic in the table: the regenerated tables are instances. -/
namespace PPLV.Dump

/-! ## bits -/

theorem testBit_maskOf (bs : List Nat) (i : Nat) : (maskOf bs).testBit i = decide (i ∈ bs) := by
  induction bs with
  | nil => simp [maskOf]
  | cons b bs ih =>
    simp only [maskOf, Nat.testBit_or, Nat.one_shiftLeft, Nat.testBit_two_pow, ih, List.mem_cons]
    by_cases h : i = b
    · subst h; simp
    · have h' : ¬ b = i := fun e => h e.symm
      simp [h, h']

theorem testBit_clearBits (f m i : Nat) : (clearBits f m).testBit i = (f.testBit i && !m.testBit i) := by
  simp only [clearBits, Nat.testBit_xor, Nat.testBit_and]
  cases f.testBit i <;> cases m.testBit i <;> rfl

theorem and_ne_zero_iff (f m : Nat) : ((f &&& m) != 0) = true ↔ ∃ i, f.testBit i = true ∧ m.testBit i = true := by
  constructor
  · intro h
    have hne : f &&& m ≠ 0 := by simpa using h
    obtain ⟨i, hi⟩ := Nat.exists_testBit_of_ne_zero hne
    rw [Nat.testBit_and, Bool.and_eq_true] at hi
    exact ⟨i, hi⟩
  · rintro ⟨i, h1, h2⟩
    have : (f &&& m).testBit i = true := by rw [Nat.testBit_and, h1, h2]; rfl
    have hne : f &&& m ≠ 0 := by
      intro h0; rw [h0, Nat.zero_testBit] at this; exact Bool.noConfusion this
    simpa using hne

theorem anyMask_single (b f : Nat) : Test.run (.anyMask [b]) f = f.testBit b := by
  unfold Test.run
  cases hb : f.testBit b
  · rw [Bool.eq_false_iff]
    intro h
    obtain ⟨i, h1, h2⟩ := (and_ne_zero_iff _ _).1 h
    rw [testBit_maskOf] at h2
    have : i = b := by simpa using h2
    subst this
    rw [hb] at h1; exact Bool.noConfusion h1
  · exact (and_ne_zero_iff _ _).2 ⟨b, hb, by simp [testBit_maskOf]⟩

theorem eqMask_nil (f : Nat) : Test.run (.eqMask []) f = decide (f = 0) := by
  unfold Test.run
  by_cases h : f = 0 <;> simp [h, maskOf]

theorem run_nop (f : Nat) : Act.run .nop f = f := rfl
theorem run_assign (bs : List Nat) (f : Nat) : Act.run (.assign bs) f = maskOf bs := rfl
theorem run_or (bs : List Nat) (f : Nat) : Act.run (.or bs) f = f ||| maskOf bs := rfl
theorem run_andNot (bs : List Nat) (f : Nat) : Act.run (.andNot bs) f = clearBits f (maskOf bs) := rfl

theorem validFlags_iff (t : Table) (f : Nat) :
    validFlags t f = true ↔ ∀ i, f.testBit i = true → i ∈ bitsOf t := by
  unfold validFlags
  rw [beq_iff_eq]
  constructor
  · intro h i hi
    have := congrArg (fun x => Nat.testBit x i) h
    simp only [Nat.testBit_or, hi, Bool.true_or, testBit_maskOf] at this
    exact of_decide_eq_true this.symm
  · intro h
    apply Nat.eq_of_testBit_eq
    intro i
    rw [Nat.testBit_or, testBit_maskOf]
    cases hi : f.testBit i
    · simp
    · simp [h i hi]

theorem compat_iff (t : Table) (p s : Nat) :
    compat t p s = true ↔ ∀ b ∈ noClearBits t, p.testBit b = true → s.testBit b = true := by
  unfold compat
  rw [List.all_eq_true]
  constructor
  · intro h b hb hp
    have := h b hb
    simpa [hp] using this
  · intro h b hb
    cases hp : p.testBit b
    · rfl
    · simp [h b hb hp]

/-! ## ordinary flags -/

theorem plainView_some {fd : Field} {b : Nat} {c : Option (List Nat)} (h : plainView fd = some (b, c)) :
    fd.test = .anyMask [b] ∧ fd.plus = .or [b] ∧
      (match c with
       | none => fd.minus = .nop
       | some r => fd.minus = .andNot r ∧ b ∈ r) := by
  unfold plainView at h
  split at h
  · rename_i b0 b1 h1 h2 h3
    split at h
    · rename_i hb
      simp only [Option.some.injEq, Prod.mk.injEq] at h
      obtain ⟨rfl, rfl⟩ := h
      subst hb
      exact ⟨h1, h2, h3⟩
    · cases h
  · rename_i b0 b1 r h1 h2 h3
    split at h
    · rename_i hb
      simp only [Option.some.injEq, Prod.mk.injEq] at h
      obtain ⟨rfl, rfl⟩ := h
      obtain ⟨rfl, hr⟩ := hb
      exact ⟨h1, h2, h3, hr⟩
    · cases h
  · cases h

/-- one `get_field` + update of `ascii_load` on an ordinary flag, bit by bit -/
theorem plain_step {fd : Field} {b : Nat} {c : Option (List Nat)} (hv : plainView fd = some (b, c))
    (s f i : Nat) :
    ((if fd.test.run s then fd.plus else fd.minus).run f).testBit i =
      if s.testBit b = true then (f.testBit i || decide (i = b))
      else (match c with
            | none => f.testBit i
            | some r => f.testBit i && !decide (i ∈ r)) := by
  obtain ⟨ht, hp, hm⟩ := plainView_some hv
  rw [ht, anyMask_single]
  cases hs : s.testBit b
  · simp only [Bool.false_eq_true, if_false]
    cases c with
    | none => simp only at hm; rw [hm]; rfl
    | some r =>
      simp only at hm
      rw [hm.1]
      simp only [run_nop, run_assign, run_or, run_andNot, testBit_clearBits, testBit_maskOf]
  · simp only [if_true, hp, run_nop, run_assign, run_or, run_andNot, Nat.testBit_or, testBit_maskOf, List.mem_singleton]

theorem noClearBits_sub_bitsOf (t : Table) : ∀ b ∈ noClearBits t, b ∈ bitsOf t := by
  induction t with
  | nil => simp [noClearBits]
  | cons fd t ih =>
    intro b hb
    simp only [noClearBits, List.mem_append] at hb
    simp only [bitsOf, List.mem_append]
    rcases hb with hb | hb
    · left
      split at hb
      · exact hb
      · simp at hb
    · exact Or.inr (ih b hb)

theorem applySigns_cons (fd : Field) (t : Table) (s f : Nat) :
    applySigns (fd :: t) (signs (fd :: t) s) f
      = applySigns t (signs t s) ((if fd.test.run s then fd.plus else fd.minus).run f) := by
  simp [signs, applySigns]

/-- ordinary flags: afterwards every flag of the table has the dumped value, every other bit is untouched -/
theorem applySigns_plain (t : Table) (h : plainOk t = true) (s : Nat) :
    ∀ f, (∀ b ∈ noClearBits t, f.testBit b = true → s.testBit b = true) →
      ∀ i, (applySigns t (signs t s) f).testBit i = if i ∈ bitsOf t then s.testBit i else f.testBit i := by
  induction t with
  | nil => intro f _ i; simp [applySigns, signs, bitsOf]
  | cons fd t ih =>
    intro f hc i
    simp only [plainOk, Bool.and_eq_true] at h
    obtain ⟨hfd, ht⟩ := h
    rw [applySigns_cons]
    cases hv : plainView fd with
    | none => rw [hv] at hfd; exact Bool.noConfusion hfd
    | some bc =>
      obtain ⟨b, c⟩ := bc
      rw [hv] at hfd
      obtain ⟨htest, _, hminus⟩ := plainView_some hv
      have hbits : bitsOf (fd :: t) = b :: bitsOf t := by simp [bitsOf, htest, Test.bits]
      -- facts about `b`, `r`
      have hbt : b ∉ bitsOf t := by
        cases c with
        | none => simpa using hfd
        | some r => simp only [Bool.and_eq_true] at hfd; simpa using hfd.1
      -- hypothesis of the induction for the updated flags
      have hc' : ∀ b' ∈ noClearBits t,
          ((if fd.test.run s then fd.plus else fd.minus).run f).testBit b' = true → s.testBit b' = true := by
        intro b' hb' hset
        have hb't : b' ∈ bitsOf t := noClearBits_sub_bitsOf t b' hb'
        have hne : b' ≠ b := fun e => hbt (e ▸ hb't)
        have hfb : f.testBit b' = true := by
          rw [plain_step hv] at hset
          split at hset
          · simpa [hne] using hset
          · cases c with
            | none => exact hset
            | some r => simp only [Bool.and_eq_true] at hset; exact hset.1
        exact hc b' (by simp only [noClearBits, List.mem_append]; exact Or.inr hb') hfb
      rw [ih ht _ hc' i, hbits]
      by_cases hit : i ∈ bitsOf t
      · simp [hit]
      · simp only [hit, if_false, List.mem_cons, or_false]
        rw [plain_step hv]
        by_cases hib : i = b
        · subst hib
          simp only [if_true]
          cases hs : s.testBit i
          · simp only [Bool.false_eq_true, if_false]
            cases c with
            | none =>
              simp only
              have hm : fd.minus = .nop := hminus
              cases hf : f.testBit i
              · rfl
              · have := hc i (by simp [noClearBits, hm, htest, Test.bits]) hf
                rw [hs] at this; exact Bool.noConfusion this
            | some r =>
              have hr : i ∈ r := hminus.2
              simp [hr]
          · simp
        · simp only [hib, if_false]
          cases hs : s.testBit b
          · simp only [Bool.false_eq_true, if_false]
            cases c with
            | none => rfl
            | some r =>
              simp only [Bool.and_eq_true] at hfd
              have hall := hfd.2
              rw [List.all_eq_true] at hall
              have hir : i ∉ r := by
                intro hir
                have := hall i hir
                simp only [Bool.or_eq_true, beq_iff_eq] at this
                rcases this with e | e
                · exact hib e
                · exact hit (by simpa using e)
              simp [hir]
          · simp [hib]

/-! ## the two table shapes -/

theorem zeStyle_cases {t : Table} (h : zeStyleOk t = true) :
    ∃ ze em tl e, t = ze :: em :: tl ∧ ze.test = .eqMask [] ∧ ze.plus = .assign [] ∧ ze.minus = .nop ∧
      em.test = .anyMask [e] ∧ em.plus = .assign [e] ∧ (em.minus = .nop ∨ em.minus = .andNot [e]) ∧
      e ∉ bitsOf tl ∧ plainOk tl = true := by
  match t, h with
  | ze :: em :: tl, h =>
    simp only [zeStyleOk, Bool.and_eq_true, decide_eq_true_eq] at h
    obtain ⟨⟨⟨h1, h2, h3⟩, hem⟩, hpl⟩ := h
    split at hem
    · rename_i e e' ht hp hm
      simp only [Bool.and_eq_true, beq_iff_eq, Bool.not_eq_true', List.contains_eq_mem,
        decide_eq_false_iff_not] at hem
      obtain ⟨rfl, hnot⟩ := hem
      exact ⟨ze, em, tl, e, rfl, h1, h2, h3, ht, hp, Or.inl hm, hnot, hpl⟩
    · rename_i e e' e'' ht hp hm
      simp only [Bool.and_eq_true, beq_iff_eq, Bool.not_eq_true', List.contains_eq_mem,
        decide_eq_false_iff_not] at hem
      obtain ⟨⟨rfl, rfl⟩, hnot⟩ := hem
      exact ⟨ze, em, tl, e, rfl, h1, h2, h3, ht, hp, Or.inr hm, hnot, hpl⟩
    · exact Bool.noConfusion hem

theorem flags_roundtrip_plain (t : Table) (h : plainOk t = true) (s p : Nat)
    (vs : validFlags t s = true) (vp : validFlags t p = true) (hc : compat t p s = true) :
    applySigns t (signs t s) p = s := by
  apply Nat.eq_of_testBit_eq
  intro i
  rw [applySigns_plain t h s p ((compat_iff t p s).1 hc) i]
  by_cases hi : i ∈ bitsOf t
  · simp [hi]
  · simp only [hi, if_false]
    have h1 : p.testBit i = false := by
      cases hp : p.testBit i
      · rfl
      · exact absurd ((validFlags_iff t p).1 vp i hp) hi
    have h2 : s.testBit i = false := by
      cases hs : s.testBit i
      · rfl
      · exact absurd ((validFlags_iff t s).1 vs i hs) hi
    rw [h1, h2]

theorem flags_roundtrip_ze (t : Table) (h : zeStyleOk t = true) (s p : Nat)
    (vs : validFlags t s = true) (vp : validFlags t p = true) (hc : compat t p s = true) :
    applySigns t (signs t s) p = s := by
  obtain ⟨ze, em, tl, e, rfl, z1, z2, z3, e1, e2, e3, hnot, hpl⟩ := zeStyle_cases h
  have hbits : bitsOf (ze :: em :: tl) = e :: bitsOf tl := by simp [bitsOf, z1, e1, Test.bits]
  have vs' := (validFlags_iff _ s).1 vs
  have vp' := (validFlags_iff _ p).1 vp
  have hc' := (compat_iff _ p s).1 hc
  rw [hbits] at vs' vp'
  have hnc : ∀ b ∈ noClearBits tl, b ∈ noClearBits (ze :: em :: tl) := by
    intro b hb; simp only [noClearBits, List.mem_append]; exact Or.inr (Or.inr hb)
  rw [applySigns_cons, applySigns_cons, z1, eqMask_nil, e1, anyMask_single]
  apply Nat.eq_of_testBit_eq
  intro i
  by_cases hs0 : s = 0
  · -- `+ZE`: flags = 0, `-EM` leaves 0, the ordinary flags are all '-'
    subst hs0
    have hf : (if (0 : Nat).testBit e = true then em.plus else em.minus).run
        ((if decide ((0 : Nat) = 0) = true then ze.plus else ze.minus).run p) = 0 := by
      simp only [Nat.zero_testBit, Bool.false_eq_true, if_false, decide_true, if_true, z2, run_nop, run_assign, run_or, run_andNot, maskOf]
      rcases e3 with e3 | e3 <;> rw [e3] <;> simp [run_nop, run_assign, run_or, run_andNot, clearBits]
    rw [hf, applySigns_plain tl hpl 0 0 (by intro b _ hb; simp at hb) i]
    simp
  · simp only [hs0, decide_false, Bool.false_eq_true, if_false, z3, run_nop, run_assign, run_or, run_andNot]
    cases hse : s.testBit e
    · -- `-ZE -EM`: the receiver's flags survive, `EM` must not be set in them
      simp only [Bool.false_eq_true, if_false]
      have hpe : (em.minus.run p).testBit e = false := by
        rcases e3 with e3 | e3
        · rw [e3]
          cases hp : p.testBit e
          · exact hp
          · have := hc' e (by simp [noClearBits, e3, e1, Test.bits]) hp
            rw [hse] at this; exact Bool.noConfusion this
        · rw [e3]; simp [run_nop, run_assign, run_or, run_andNot, testBit_clearBits, testBit_maskOf]
      have hsub : ∀ j, (em.minus.run p).testBit j = true → p.testBit j = true := by
        intro j hj
        rcases e3 with e3 | e3
        · rw [e3] at hj; exact hj
        · rw [e3] at hj
          simp only [run_nop, run_assign, run_or, run_andNot, testBit_clearBits, Bool.and_eq_true] at hj
          exact hj.1
      rw [applySigns_plain tl hpl s _ (fun b hb hset => hc' b (hnc b hb) (hsub b hset)) i]
      by_cases hi : i ∈ bitsOf tl
      · simp [hi]
      · simp only [hi, if_false]
        by_cases hie : i = e
        · subst hie; rw [hpe, hse]
        · have h1 : (em.minus.run p).testBit i = false := by
            cases hq : (em.minus.run p).testBit i
            · rfl
            · have := vp' i (hsub i hq)
              simp only [List.mem_cons] at this
              rcases this with h | h
              · exact absurd h hie
              · exact absurd h hi
          have h2 : s.testBit i = false := by
            cases hq : s.testBit i
            · rfl
            · have := vs' i hq
              simp only [List.mem_cons] at this
              rcases this with h | h
              · exact absurd h hie
              · exact absurd h hi
          rw [h1, h2]
    · -- `+EM`: flags = EMPTY, then the ordinary flags
      simp only [if_true, e2, run_nop, run_assign, run_or, run_andNot]
      rw [applySigns_plain tl hpl s _ (by
        intro b hb hset
        rw [testBit_maskOf] at hset
        have : b = e := by simpa using hset
        subst this
        exact absurd (noClearBits_sub_bitsOf tl b hb) hnot) i]
      by_cases hi : i ∈ bitsOf tl
      · simp [hi]
      · simp only [hi, if_false, testBit_maskOf, List.mem_singleton]
        by_cases hie : i = e
        · subst hie; simp [hse]
        · have h2 : s.testBit i = false := by
            cases hq : s.testBit i
            · rfl
            · have := vs' i hq
              simp only [List.mem_cons] at this
              rcases this with h | h
              · exact absurd h hie
              · exact absurd h hi
          simp [hie, h2]

/-- the flag updates of `ascii_load`, driven by the signs `ascii_dump` wrote for `s`, rebuild `s` -/
theorem flags_roundtrip (t : Table) (h : shapeOk t = true) (s p : Nat)
    (vs : validFlags t s = true) (vp : validFlags t p = true) (hc : compat t p s = true) :
    applySigns t (signs t s) p = s := by
  simp only [shapeOk, Bool.or_eq_true] at h
  rcases h with h | h
  · exact flags_roundtrip_ze t h s p vs vp hc
  · exact flags_roundtrip_plain t h s p vs vp hc

/-! ## the word-level loader -/

theorem getField_sign (kw : Word) (b : Bool) :
    getField kw ((if b then '+' else '-') :: kw) = some b := by
  cases b <;> simp [getField]

/-- `Status::ascii_load` on the words `Status::ascii_dump` wrote performs exactly `applySigns` -/
theorem loadStatus_tokens (t : Table) (s : Nat) : ∀ p more,
    loadStatus t p ((statusLayout t s).map (·.1) ++ more) = some (applySigns t (signs t s) p, more) := by
  induction t with
  | nil => intro p more; simp [statusLayout, loadStatus, applySigns, signs]
  | cons fd t ih =>
    intro p more
    rw [applySigns_cons]
    simp only [statusLayout, List.map_cons, List.cons_append, loadStatus, getField_sign]
    exact ih _ more

theorem statusLayout_ok (t : Table) (h : lexOk t = true) (f : Nat) : (statusLayout t f).all itemOk = true := by
  unfold lexOk at h
  rw [List.all_eq_true] at h ⊢
  intro it hit
  simp only [statusLayout, List.mem_map] at hit
  obtain ⟨fd, hfd, rfl⟩ := hit
  have := h fd hfd
  simp only [Bool.and_eq_true] at this
  simp only [itemOk, Bool.and_eq_true, this.2, and_true]
  have hw := (isWordB_iff _).1 this.1
  rw [isWordB_iff]
  refine ⟨by simp, ?_⟩
  simp only [List.all_cons, Bool.and_eq_true] at hw ⊢
  refine ⟨?_, hw.2.2⟩
  cases fd.test.run f <;> decide

theorem wf_parts {t : Table} (h : WF t = true) :
    lexOk t = true ∧ shapeOk t = true ∧ tokensDistinct t = true ∧ t ≠ [] := by
  simp only [WF, Bool.and_eq_true, Bool.not_eq_true'] at h
  obtain ⟨⟨⟨h1, h2⟩, h3⟩, h4⟩ := h
  refine ⟨h1, h2, h3, ?_⟩
  intro e; subst e; simp at h4

/-- text level: loading the dump of `s` (followed by any text `x`) into a receiver with flags `p` -/
theorem loadStatus_dump (t : Table) (hwf : WF t = true) (s p : Nat) (x : List Char)
    (vs : validFlags t s = true) (vp : validFlags t p = true) (hc : compat t p s = true) :
    loadStatus t p (words (dumpStatus t s ++ x)) = some (s, words x) := by
  obtain ⟨hl, hsh, _, _⟩ := wf_parts hwf
  unfold dumpStatus
  rw [words_render_append _ (statusLayout_ok t hl s), loadStatus_tokens,
    flags_roundtrip t hsh s p vs vp hc]

theorem validFlags_zero (t : Table) : validFlags t 0 = true := by
  rw [validFlags_iff]; intro i hi; simp at hi

theorem compat_zero (t : Table) (s : Nat) : compat t 0 s = true := by
  rw [compat_iff]; intro b _ hb; simp at hb

/-- when every '-' branch clears its flag the receiver does not matter -/
theorem compat_of_allClear (t : Table) (h : noClearBits t = []) (p s : Nat) : compat t p s = true := by
  simp [compat, h]

end PPLV.Dump
