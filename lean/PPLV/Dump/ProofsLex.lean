import PPLV.Dump.Model

/-! Lexical layer of C15: what `operator>>` makes of a rendered layout, and the number codecs. -/
namespace PPLV.Dump

/-! ## words / render -/

theorem wordsAux_ws (ws x : List Char) (h : ws.all isWs = true) : wordsAux (ws ++ x) [] = wordsAux x [] := by
  induction ws with
  | nil => rfl
  | cons c cs ih =>
    simp only [List.all_cons, Bool.and_eq_true] at h
    simp [wordsAux, h.1, ih h.2]

theorem wordsAux_word (w x cur : List Char) (h : w.all (fun c => !isWs c) = true) :
    wordsAux (w ++ x) cur = wordsAux x (w.reverse ++ cur) := by
  induction w generalizing cur with
  | nil => rfl
  | cons c cs ih =>
    simp only [List.all_cons, Bool.and_eq_true, Bool.not_eq_true'] at h
    simp [wordsAux, h.1, ih _ h.2]

theorem isWordB_iff (w : Word) : isWordB w = true ↔ w ≠ [] ∧ w.all (fun c => !isWs c) = true := by
  cases w <;> simp [isWordB]

theorem sepOkB_iff (s : List Char) : sepOkB s = true ↔ s ≠ [] ∧ s.all isWs = true := by
  cases s <;> simp [sepOkB]

theorem words_item (w sep x : List Char) (hw : isWordB w = true) (hs : sepOkB sep = true) :
    words (w ++ (sep ++ x)) = w :: words x := by
  obtain ⟨hne, hall⟩ := (isWordB_iff w).1 hw
  obtain ⟨sne, sall⟩ := (sepOkB_iff sep).1 hs
  unfold words
  rw [wordsAux_word _ _ _ hall]
  cases sep with
  | nil => exact absurd rfl sne
  | cons c cs =>
    simp only [List.all_cons, Bool.and_eq_true] at sall
    have hr : (w.reverse ++ []).isEmpty = false := by
      cases w with
      | nil => exact absurd rfl hne
      | cons a as => simp
    simp only [List.cons_append, wordsAux, sall.1, if_true, hr]
    simp [wordsAux_ws _ _ sall.2]

theorem render_append (a b : List Item) : render (a ++ b) = render a ++ render b := by
  induction a with
  | nil => rfl
  | cons it r ih => simp [render, ih]

/-- the words of a rendered layout are the layout's words -/
theorem words_render_append (items : List Item) (h : items.all itemOk = true) (x : List Char) :
    words (render items ++ x) = items.map (·.1) ++ words x := by
  induction items with
  | nil => rfl
  | cons it r ih =>
    simp only [List.all_cons, Bool.and_eq_true, itemOk] at h
    simp only [render, List.append_assoc, List.map_cons, List.cons_append]
    rw [words_item _ _ _ h.1.1 h.1.2, ih h.2]

theorem words_nil : words [] = [] := rfl

theorem words_render (items : List Item) (h : items.all itemOk = true) :
    words (render items) = items.map (·.1) := by
  have := words_render_append items h []
  simpa [words_nil] using this

/-! ## decimal numbers -/

theorem digit_facts : ∀ d, d < 10 → digitVal (digitChar d) = some d ∧ isWs (digitChar d) = false
    ∧ digitChar d ≠ '-' := by decide

theorem parseRev_natRevDigits (fuel n : Nat) (h : n < fuel) :
    parseRevDigits (natRevDigits fuel n) = some n := by
  induction fuel generalizing n with
  | zero => omega
  | succ k ih =>
    have hd := (digit_facts (n % 10) (Nat.mod_lt _ (by omega))).1
    by_cases h0 : n / 10 = 0
    · simp only [natRevDigits, h0, if_true, parseRevDigits, hd]
      have : n % 10 = n := by omega
      simp [this]
    · have hlt : n / 10 < k := by omega
      simp only [natRevDigits, h0, if_false, parseRevDigits, hd, ih _ hlt]
      congr 1
      omega

theorem natRevDigits_digits (fuel n : Nat) :
    ∀ c ∈ natRevDigits fuel n, ∃ d, d < 10 ∧ c = digitChar d := by
  induction fuel generalizing n with
  | zero => simp [natRevDigits]
  | succ k ih =>
    intro c hc
    simp only [natRevDigits, List.mem_cons] at hc
    rcases hc with rfl | hc
    · exact ⟨n % 10, Nat.mod_lt _ (by omega), rfl⟩
    · by_cases h0 : n / 10 = 0
      · simp [h0] at hc
      · simp only [h0, if_false] at hc
        exact ih _ c hc

theorem printNat_ne_nil (n : Nat) : printNat n ≠ [] := by
  simp [printNat, natRevDigits]

theorem printNat_digits (n : Nat) : ∀ c ∈ printNat n, ∃ d, d < 10 ∧ c = digitChar d := by
  intro c hc
  simp only [printNat, List.mem_reverse] at hc
  exact natRevDigits_digits _ _ c hc

theorem parseNat_printNat (n : Nat) : parseNat (printNat n) = some n := by
  have hne : (printNat n).isEmpty = false := by
    have := printNat_ne_nil n
    cases h : printNat n with
    | nil => exact absurd h this
    | cons a as => rfl
  simp only [parseNat, hne]
  simp [printNat, parseRev_natRevDigits (n + 1) n (by omega)]

theorem printNat_isWord (n : Nat) : isWordB (printNat n) = true := by
  rw [isWordB_iff]
  refine ⟨printNat_ne_nil n, ?_⟩
  rw [List.all_eq_true]
  intro c hc
  obtain ⟨d, hd, rfl⟩ := printNat_digits n c hc
  simp [(digit_facts d hd).2.1]

theorem printNat_head_ne_minus (n : Nat) : ∀ r, printNat n ≠ '-' :: r := by
  intro r h
  have hm : '-' ∈ printNat n := by rw [h]; simp
  obtain ⟨d, hd, he⟩ := printNat_digits n _ hm
  exact (digit_facts d hd).2.2 he.symm

theorem parseInt_printInt (i : Int) : parseInt (printInt i) = some i := by
  by_cases h : i < 0
  · simp only [printInt, h, if_true, parseInt, parseNat_printNat, Option.map_some]
    congr 1
    show -(i.natAbs : Int) = i
    rw [Int.ofNat_natAbs_of_nonpos (by omega)]
    omega
  · have hp : parseInt (printNat i.natAbs) = (parseNat (printNat i.natAbs)).map (fun (n : Nat) => Int.ofNat n) := by
      unfold parseInt
      split
      · rename_i r heq
        exact absurd heq (printNat_head_ne_minus _ r)
      · rfl
    simp only [printInt, h, if_false, hp, parseNat_printNat, Option.map_some]
    congr 1
    show (i.natAbs : Int) = i
    exact Int.natAbs_of_nonneg (by omega)

theorem printInt_isWord (i : Int) : isWordB (printInt i) = true := by
  by_cases h : i < 0
  · have := (isWordB_iff _).1 (printNat_isWord i.natAbs)
    simp only [printInt, h, if_true]
    rw [isWordB_iff]
    refine ⟨by simp, ?_⟩
    simp only [List.all_cons, this.2, Bool.and_true]
    decide
  · simp only [printInt, h, if_false]
    exact printNat_isWord _

/-- `dimension_type` -/
def natCodec : Codec := ⟨Nat, printNat, parseNat, printNat_isWord, parseNat_printNat⟩
/-- `mpz_class` -/
def intCodec : Codec := ⟨Int, printInt, parseInt, printInt_isWord, parseInt_printInt⟩

/-- entries of a `DB_Matrix<Checked_Number<mpz_class, Extended_Number_Policy>>`: an integer or `+inf`
(`-inf` and `nan` are rejected by `ascii_load`, they are no values of the carrier) -/
def printExt : Option Int → Word
  | none => "+inf".toList
  | some i => printInt i

def parseExt (w : Word) : Option (Option Int) :=
  if w = "+inf".toList then some none else (parseInt w).map some

theorem printInt_ne_pinf (i : Int) : printInt i ≠ "+inf".toList := by
  intro h
  have hl : "+inf".toList = ['+', 'i', 'n', 'f'] := by decide
  rw [hl] at h
  by_cases hi : i < 0
  · simp only [printInt, hi, if_true] at h
    exact absurd (List.cons.inj h).1 (by decide)
  · simp only [printInt, hi, if_false] at h
    have hm : '+' ∈ printNat i.natAbs := by rw [h]; simp
    obtain ⟨d, hd, he⟩ := printNat_digits _ _ hm
    revert d
    decide

theorem parseExt_printExt (a : Option Int) : parseExt (printExt a) = some a := by
  cases a with
  | none => simp [printExt, parseExt]
  | some i =>
    have := printInt_ne_pinf i
    simp only [printExt, parseExt, this, if_false, parseInt_printInt, Option.map_some]

theorem printExt_isWord (a : Option Int) : isWordB (printExt a) = true := by
  cases a with
  | none => decide
  | some i => exact printInt_isWord i

def extIntCodec : Codec := ⟨Option Int, printExt, parseExt, printExt_isWord, parseExt_printExt⟩

end PPLV.Dump

namespace PPLV.Dump

/-- opaque number tokens: any word stands for itself (used by the driver to check the *shape* grammars on
number types whose literals are not modelled: rationals, floats) -/
def wordCodec : Codec :=
  ⟨{ w : Word // isWordB w = true }, fun a => a.1,
   fun w => if h : isWordB w = true then some ⟨w, h⟩ else none,
   fun a => a.2, fun a => by simp [a.2]⟩

end PPLV.Dump
