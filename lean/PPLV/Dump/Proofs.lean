import PPLV.Dump.ProofsStatus

/-! Round trips of the structured grammars of C15: `Box`, `Linear_System` header, `Bit_Matrix`,
`DB_Matrix` / `OR_Matrix`, keyword enumerations.  Each proof has two halves: the words of the rendered
layout are the layout's words (`words_render`), and the word-level loader run on those words rebuilds the
state. -/
set_option linter.unusedSimpArgs false
namespace PPLV.Dump

/-! ## readers on printed words -/

@[simp] theorem expect_self (kw : Word) (ws : List Word) : expect kw (kw :: ws) = some ws := by
  simp [expect]

@[simp] theorem readNat_print (n : Nat) (ws : List Word) : readNat (printNat n :: ws) = some (n, ws) := by
  simp [readNat, parseNat_printNat]

@[simp] theorem readTok_print (C : Codec) (a : C.α) (ws : List Word) :
    readTok C (C.print a :: ws) = some (a, ws) := by
  simp [readTok, C.rt]

theorem readN_print (C : Codec) (row : List C.α) (more : List Word) :
    readN C row.length (row.map C.print ++ more) = some (row, more) := by
  induction row with
  | nil => rfl
  | cons a as ih => simp [readN, ih]

theorem readRows_print (C : Codec) (rows : List (List C.α)) (more : List Word) :
    readRows C (rows.map List.length) ((rows.map (fun r => r.map C.print)).flatten ++ more) = some (rows, more) := by
  induction rows with
  | nil => rfl
  | cons r rs ih =>
    simp only [List.map_cons, List.flatten_cons, List.append_assoc, readRows, readN_print, ih]

theorem rowItems_words (C : Codec) (row : List C.α) : (rowItems C row).map (·.1) = row.map C.print := by
  induction row with
  | nil => rfl
  | cons a as ih => simp [rowItems, ih]

theorem rowItems_ok (C : Codec) (row : List C.α) : (rowItems C row).all itemOk = true := by
  induction row with
  | nil => rfl
  | cons a as ih =>
    simp only [rowItems, List.all_cons, itemOk, C.word, Bool.true_and, ih, Bool.and_true]
    cases as.isEmpty <;> decide

theorem all_flatten_map {α : Type} (l : List α) (f : α → List Item) (h : ∀ a, (f a).all itemOk = true) :
    ((l.map f).flatten).all itemOk = true := by
  induction l with
  | nil => rfl
  | cons a as ih => simp only [List.map_cons, List.flatten_cons, List.all_append, h a, ih, Bool.and_self]

theorem flatten_map_words {α : Type} (l : List α) (f : α → List Item) (g : α → List Word)
    (h : ∀ a, (f a).map (·.1) = g a) :
    ((l.map f).flatten).map (·.1) = (l.map g).flatten := by
  induction l with
  | nil => rfl
  | cons a as ih => simp only [List.map_cons, List.flatten_cons, List.map_append, h a, ih]

/-! ## `Box` -/

theorem intervalItems_ok (C : Codec) (iv : C.α × C.α × C.α) : (intervalItems C iv).all itemOk = true := by
  simp only [intervalItems, List.all_cons, List.all_nil, itemOk, C.word, Bool.true_and, Bool.and_true]
  decide

theorem loadInterval_print (C : Codec) (iv : C.α × C.α × C.α) (more : List Word) :
    loadInterval C ((intervalItems C iv).map (·.1) ++ more) = some (iv, more) := by
  simp [loadInterval, intervalItems]

theorem loadIntervals_print (C : Codec) (seq : List (C.α × C.α × C.α)) (more : List Word) :
    loadIntervals C seq.length (((seq.map (intervalItems C)).flatten).map (·.1) ++ more) = some (seq, more) := by
  induction seq with
  | nil => rfl
  | cons iv ivs ih =>
    simp only [List.map_cons, List.flatten_cons, List.map_append, List.append_assoc, List.length_cons,
      loadIntervals, loadInterval_print, ih]

theorem boxLayout_ok (C : Codec) (t : Table) (hl : lexOk t = true) (b : BoxSt C) :
    (boxLayout C t b).all itemOk = true := by
  simp only [boxLayout, List.all_append, statusLayout_ok t hl, Bool.true_and,
    all_flatten_map _ _ (intervalItems_ok C), Bool.and_true]
  simp only [List.all_cons, List.all_nil, itemOk, printNat_isWord, Bool.true_and, Bool.and_true]
  decide

/-- `Box::ascii_load` on the words of `Box::ascii_dump`: the status is replayed on the receiver's flags,
the intervals are rebuilt -/
theorem loadBoxW_layout (C : Codec) (t : Table) (recv b : BoxSt C) (more : List Word) :
    loadBoxW C t recv ((boxLayout C t b).map (·.1) ++ more)
      = some (⟨applySigns t (signs t b.flags) recv.flags, b.seq⟩, more) := by
  simp only [loadBoxW, boxLayout, List.map_append, List.append_assoc, loadStatus_tokens, List.map_cons,
    List.map_nil, List.cons_append, List.nil_append, expect_self, readNat_print, loadIntervals_print]

theorem loadBox_dump (C : Codec) (t : Table) (hwf : WF t = true) (recv b : BoxSt C)
    (vs : validFlags t b.flags = true) (vp : validFlags t recv.flags = true)
    (hc : compat t recv.flags b.flags = true) :
    loadBox C t recv (dumpBox C t b) = some b := by
  obtain ⟨hl, hsh, _, _⟩ := wf_parts hwf
  unfold loadBox dumpBox
  rw [words_render _ (boxLayout_ok C t hl b)]
  have := loadBoxW_layout C t recv b []
  rw [List.append_nil] at this
  rw [this, flags_roundtrip t hsh _ _ vs vp hc]
  rfl

/-! ## `Linear_System` header -/

theorem hdr_literals_ok : ∀ nnc sparse sorted : Bool,
    (isWordB "topology".toList && sepOkB [' '] &&
      (isWordB (if nnc = true then "NOT_NECESSARILY_CLOSED" else "NECESSARILY_CLOSED").toList && sepOkB ['\n'] &&
        (sepOkB [' '] &&
          (isWordB "x".toList && sepOkB [' '] &&
            (sepOkB [' '] &&
              (isWordB (if sparse = true then "SPARSE" else "DENSE").toList && sepOkB [' '] &&
                (isWordB (if sorted = true then "(sorted)" else "(not_sorted)").toList && sepOkB ['\n'] &&
                  (isWordB "index_first_pending".toList && sepOkB [' '] && sepOkB ['\n'])))))))) = true := by
  decide

theorem LinSysHeader.layout_ok (h : LinSysHeader) : h.layout.all itemOk = true := by
  obtain ⟨nnc, nrows, dims, sparse, sorted, fp⟩ := h
  simp only [LinSysHeader.layout, List.all_cons, List.all_nil, itemOk, printNat_isWord, Bool.true_and,
    Bool.and_true]
  exact hdr_literals_ok nnc sparse sorted

theorem LinSysHeader.loadW_layout (h : LinSysHeader) (more : List Word) :
    LinSysHeader.loadW (h.layout.map (·.1) ++ more) = some (h, more) := by
  obtain ⟨nnc, nrows, dims, sparse, sorted, fp⟩ := h
  have e1 : "NOT_NECESSARILY_CLOSED".toList ≠ "NECESSARILY_CLOSED".toList := by decide
  have e2 : "SPARSE".toList ≠ "DENSE".toList := by decide
  have e3 : "(not_sorted)".toList ≠ "(sorted)".toList := by decide
  cases nnc <;> cases sparse <;> cases sorted <;>
    simp [LinSysHeader.loadW, LinSysHeader.layout, e1, e2, e3]

theorem LinSysHeader.load_dump (h : LinSysHeader) : LinSysHeader.load h.dump = some h := by
  unfold LinSysHeader.load LinSysHeader.dump
  rw [words_render _ h.layout_ok]
  have := LinSysHeader.loadW_layout h []
  rw [List.append_nil] at this
  rw [this]; rfl

/-! ## `Bit_Matrix` -/

theorem readBit_bitWord (b : Bool) (ws : List Word) : readBit (bitWord b :: ws) = some (b, ws) := by
  cases b <;> rfl

theorem readBits_print (row : List Bool) (more : List Word) :
    readBits row.length (row.map bitWord ++ more) = some (row, more) := by
  induction row with
  | nil => rfl
  | cons a as ih => simp [readBits, readBit_bitWord, ih]

theorem readBitRows_print (ncols : Nat) (rows : List (List Bool)) (more : List Word)
    (hv : ∀ r ∈ rows, r.length = ncols) :
    readBitRows ncols rows.length ((rows.map (fun r => r.map bitWord)).flatten ++ more) = some (rows, more) := by
  induction rows with
  | nil => rfl
  | cons r rs ih =>
    have hr : r.length = ncols := hv r (by simp)
    have := readBits_print r ((rs.map (fun r => r.map bitWord)).flatten ++ more)
    rw [hr] at this
    simp only [List.map_cons, List.flatten_cons, List.append_assoc, List.length_cons, readBitRows, this,
      ih (fun r' h' => hv r' (by simp [h']))]

theorem bitRowItems_words (row : List Bool) : (bitRowItems row).map (·.1) = row.map bitWord := by
  induction row with
  | nil => rfl
  | cons a as ih => simp [bitRowItems, ih]

theorem bitRowItems_ok (row : List Bool) : (bitRowItems row).all itemOk = true := by
  induction row with
  | nil => rfl
  | cons a as ih =>
    simp only [bitRowItems, List.all_cons, itemOk, ih, Bool.and_true]
    cases a <;> cases as.isEmpty <;> decide

theorem newlines_ws (l : List (List Bool)) : (l.map (fun _ => '\n')).all isWs = true := by
  induction l with
  | nil => rfl
  | cons a as ih => simp only [List.map_cons, List.all_cons, ih, Bool.and_true]; decide

theorem BitMatrix.layout_ok (m : BitMatrix) : m.layout.all itemOk = true := by
  simp only [BitMatrix.layout, List.all_append, all_flatten_map _ _ bitRowItems_ok, Bool.and_true]
  simp only [List.all_cons, List.all_nil, itemOk, printNat_isWord, Bool.true_and, Bool.and_true]
  simp only [Bool.and_eq_true]
  refine ⟨by decide, ⟨by decide, by decide⟩, ?_⟩
  rw [sepOkB_iff]
  refine ⟨by simp, ?_⟩
  simp only [List.all_cons]
  split
  · simp only [newlines_ws, Bool.and_true]; decide
  · decide

theorem BitMatrix.loadW_layout (m : BitMatrix) (hv : m.valid = true) (more : List Word) :
    BitMatrix.loadW (m.layout.map (·.1) ++ more) = some (m, more) := by
  have hv' : ∀ r ∈ m.rows, r.length = m.ncols := by
    intro r hr
    have := (List.all_eq_true.1 hv) r hr
    simpa using this
  simp only [BitMatrix.loadW, BitMatrix.layout, List.map_append, List.map_cons, List.map_nil, List.cons_append,
    List.nil_append, readNat_print, expect_self, flatten_map_words _ _ _ bitRowItems_words,
    readBitRows_print m.ncols m.rows more hv']

theorem BitMatrix.load_dump (m : BitMatrix) (hv : m.valid = true) : BitMatrix.load m.dump = some m := by
  unfold BitMatrix.load BitMatrix.dump
  rw [words_render _ m.layout_ok]
  have := BitMatrix.loadW_layout m hv []
  rw [List.append_nil] at this
  rw [this]; rfl

/-! ## `DB_Matrix`, `OR_Matrix` -/

theorem ShapedMatrix.layout_ok {C : Codec} (m : ShapedMatrix C) : m.layout.all itemOk = true := by
  simp only [ShapedMatrix.layout, List.all_cons, itemOk, printNat_isWord, Bool.true_and,
    all_flatten_map _ _ (rowItems_ok C), Bool.and_true]
  decide

theorem ShapedMatrix.loadW_layout {C : Codec} (sh : Shape) (m : ShapedMatrix C) (hv : m.valid sh = true)
    (more : List Word) : ShapedMatrix.loadW C sh (m.layout.map (·.1) ++ more) = some (m, more) := by
  have hl : sh.lens m.size = m.rows.map List.length := by
    unfold ShapedMatrix.valid at hv
    exact (beq_iff_eq.1 hv).symm
  simp only [ShapedMatrix.loadW, ShapedMatrix.layout, List.map_cons, List.cons_append, readNat_print, hl,
    flatten_map_words _ _ _ (rowItems_words C), readRows_print]

theorem ShapedMatrix.load_dump {C : Codec} (sh : Shape) (m : ShapedMatrix C) (hv : m.valid sh = true) :
    ShapedMatrix.load C sh m.dump = some m := by
  unfold ShapedMatrix.load ShapedMatrix.dump
  rw [words_render _ m.layout_ok]
  have := ShapedMatrix.loadW_layout sh m hv []
  rw [List.append_nil] at this
  rw [this]; rfl

/-! ## keyword enumerations -/

theorem enumLoad_dump (ks : List Word) (h : kwDistinct ks = true) (v : Nat) (hv : v < ks.length) :
    enumLoad ks (enumDump ks v) = some v := by
  induction ks generalizing v with
  | nil => simp at hv
  | cons k ks ih =>
    simp only [kwDistinct, Bool.and_eq_true, Bool.not_eq_true'] at h
    cases v with
    | zero => simp [enumLoad, enumDump]
    | succ v =>
      have hv' : v < ks.length := by simpa using hv
      have hmem : ks.getD v [] ∈ ks := by
        rw [List.getD_eq_getElem?_getD, List.getElem?_eq_getElem hv']
        exact List.getElem_mem hv'
      have hne : ks.getD v [] ≠ k := by
        intro e
        have : ks.contains k = true := by rw [← e]; simpa using hmem
        rw [h.1] at this; exact Bool.noConfusion this
      have := ih h.2 v hv'
      simp only [enumDump] at this
      show enumLoad (k :: ks) (ks.getD v []) = some (v + 1)
      simp only [enumLoad, hne, if_false, this, Option.map_some]

/-! ## one-word texts, clean receivers -/

/-- a one-word text -/
def loadWord (C : Codec) (s : List Char) : Option C.α :=
  match words s with
  | [w] => C.parse w
  | _ => none

theorem compat_of_clean (t : Table) (p s : Nat) (h : (noClearBits t).all (fun b => !p.testBit b) = true) :
    compat t p s = true := by
  rw [compat_iff]
  intro b hb hp
  have := (List.all_eq_true.1 h) b hb
  rw [hp] at this
  exact Bool.noConfusion this

theorem words_word (w : Word) (h : isWordB w = true) : words w = [w] := by
  obtain ⟨_, hall⟩ := (isWordB_iff w).1 h
  have := wordsAux_word w [] [] hall
  rw [List.append_nil] at this
  unfold words
  rw [this]
  cases hw : w with
  | nil => subst hw; simp [isWordB] at h
  | cons a as => simp [wordsAux]

theorem loadWord_print (C : Codec) (a : C.α) : loadWord C (C.print a) = some a := by
  unfold loadWord
  rw [words_word _ (C.word a)]
  exact C.rt a

end PPLV.Dump
