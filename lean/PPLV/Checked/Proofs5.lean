import PPLV.Checked.ProofsDiv
/-!
# C11 proofs, part 6: integer division, remainder, power-of-two scaling and modulus
-/
namespace PPLV.Checked
open Result

/-! ## idiv, rem -/

theorem idivSigned_tri {t : IntTy} {π : Policy} (w : t.WF π) (hs : t.signed = true) (hl : t.LargerOK)
    (hco : π.checkOverflow = true) (dir : Dir) {to0 x y : Int} (h0 : t.inRange to0)
    (hx : t.finite π x) (hy : t.finite π y) (hz : y ≠ 0) :
    Tri t π dir to0 (idivSigned t π to0 x y dir) (x.tdiv y) := by
  unfold idivSigned
  have hb : (y == 0) = false := by simpa using hz
  simp only [hb, Bool.and_false, Bool.false_eq_true, if_false, hco, Bool.true_and]
  by_cases hm1 : y = -1
  · subst hm1
    simp only [beq_self_eq_true, if_true]
    have e : x.tdiv (-1) = -x := by rw [Int.tdiv_neg, Int.tdiv_one]
    rw [e]
    exact negSigned_tri w hs hl hco dir h0 hx
  · have hb1 : (y == -1) = false := by simpa using hm1
    simp only [hb1, Bool.false_eq_true, if_false]
    exact tri_eq (tdiv_finite w hx hy hz hm1).1

theorem idivUnsigned_tri {t : IntTy} {π : Policy} (w : t.WF π) (hs : t.signed = false)
    (dir : Dir) {to0 x y : Int} (hx : t.finite π x) (hy : t.finite π y) (hz : y ≠ 0) :
    Tri t π dir to0 (idivUnsigned t π to0 x y dir) (x.tdiv y) := by
  unfold idivUnsigned
  have hb : (y == 0) = false := by simpa using hz
  simp only [hb, Bool.and_false, Bool.false_eq_true, if_false]
  have e0 : t.emin π = 0 := by simp [IntTy.emin, IntTy.cmin, hs]
  have : 0 ≤ y := by have := hy.1; omega
  exact tri_eq (tdiv_finite w hx hy hz (by omega)).1

/-- the truncated remainder lies between 0 and the dividend -/
theorem tmod_between (x y : Int) :
    (0 ≤ x → 0 ≤ x.tmod y ∧ x.tmod y ≤ x) ∧ (x < 0 → x ≤ x.tmod y ∧ x.tmod y ≤ 0) := by
  have hn := Int.natAbs_tmod x y
  have hle : x.natAbs % y.natAbs ≤ x.natAbs := Nat.mod_le _ _
  constructor
  · intro hx
    have := Int.tmod_nonneg y hx
    omega
  · intro hx
    have h1 : (-x).tmod y = -(x.tmod y) := Int.neg_tmod x y
    have h2 := Int.tmod_nonneg y (show 0 ≤ -x by omega)
    omega

theorem tmod_finite {t : IntTy} {π : Policy} (w : t.WF π) {x : Int} (y : Int) (hx : t.finite π x) :
    t.finite π (x.tmod y) := by
  obtain ⟨hmin, hmax⟩ := IntTy.emin_le_emax w
  obtain ⟨h1, h2⟩ := hx
  obtain ⟨p, n⟩ := tmod_between x y
  rcases (by omega : 0 ≤ x ∨ x < 0) with h | h
  · have := p h; constructor <;> omega
  · have := n h; constructor <;> omega

theorem rem_tri {t : IntTy} {π : Policy} (w : t.WF π)
    (dir : Dir) {to0 x y : Int} (hx : t.finite π x) (hz : y ≠ 0) :
    Tri t π dir to0 (rem t π to0 x y dir) (x.tmod y) := by
  unfold rem remSigned remUnsigned
  have hb : (y == 0) = false := by simpa using hz
  simp only [hb, Bool.and_false, Bool.false_eq_true, if_false]
  split
  · by_cases hm1 : y = -1
    · subst hm1
      simp only [beq_self_eq_true, if_true]
      have e : x.tmod (-1) = 0 := by rw [Int.tmod_neg, Int.tmod_one]
      rw [e]
      exact tri_eq ⟨(IntTy.emin_le_emax w).1, (IntTy.emin_le_emax w).2⟩
    · have hb1 : (y == -1) = false := by simpa using hm1
      simp only [hb1, Bool.false_eq_true, if_false]
      exact tri_eq (tmod_finite w y hx)
  · exact tri_eq (tmod_finite w y hx)

/-! ## add_2exp, sub_2exp, mul_2exp -/

theorem pow2_ge_two_half {t : IntTy} (hb : 1 ≤ t.bits) {e : Nat} (he : e ≥ t.bits) : 2 * t.half ≤ pow2 e := by
  unfold IntTy.half
  have : pow2 ((t.bits - 1) + 1) ≤ pow2 e := pow2_le_pow2 (by omega)
  rw [pow2_succ] at this
  exact this

theorem pow2_le_half {t : IntTy} {e : Nat} (he : e < t.bits) : pow2 e ≤ t.half := by
  unfold IntTy.half
  exact pow2_le_pow2 (by omega)

/-- bounds of the finite range in terms of `half` (for `omega`) -/
theorem IntTy.erange_half {t : IntTy} {π : Policy} (w : t.WF π) :
    (t.signed = true → -t.half ≤ t.emin π ∧ t.emin π ≤ -t.half + 2 ∧ t.half - 2 ≤ t.emax π ∧ t.emax π ≤ t.half - 1
        ∧ ((π.hasNan = true ∨ π.hasInfinity = true) → 4 ≤ t.half)) ∧
    (t.signed = false → t.emin π = 0 ∧ 2 * t.half - 4 ≤ t.emax π ∧ t.emax π ≤ 2 * t.half - 1
        ∧ (t.emax π < 2 * t.half - 1 → 4 ≤ t.half)) := by
  obtain ⟨hp, hr⟩ := w.half_facts
  unfold IntTy.emin IntTy.emax IntTy.cmin IntTy.cmax b2i
  generalize t.half = H at *
  layout_cases t π

theorem add2exp_tri {t : IntTy} {π : Policy} (w : t.WF π) (hl : t.LargerOK) (hb2 : t.signed = true → 2 ≤ t.bits)
    (hco : π.checkOverflow = true) (dir : Dir) {to0 x : Int} (e : Nat) (h0 : t.inRange to0)
    (hx : t.finite π x) :
    Tri t π dir to0 (add2exp t π to0 x e dir) (x + pow2 e) := by
  obtain ⟨es, eu⟩ := IntTy.erange_half w
  have hp := t.half_pos
  have pe := pow2_pos e
  unfold add2exp add2expSigned add2expUnsigned
  simp only [hco, Bool.not_true, Bool.false_eq_true, if_false]
  cases hs : t.signed <;> simp only [Bool.false_eq_true, if_false, if_true]
  · obtain ⟨e0, e1, e2, _⟩ := eu hs
    split
    · rename_i hge
      have := pow2_ge_two_half w.bits_pos hge
      exact tri_pos (by have := hx.1; omega)
    · rename_i hlt
      have := pow2_le_half (t := t) (e := e) (by omega)
      refine addUnsigned_tri w hs hl hco dir h0 hx ?_
      unfold IntTy.inRange IntTy.cmin IntTy.cmax; simp only [hs, Bool.false_eq_true, if_false]
      constructor <;> omega
  · obtain ⟨e0, e1, e2, e3, _⟩ := es hs
    split
    · rename_i hge
      have := pow2_ge_two_half w.bits_pos hge
      exact tri_pos (by have := hx.1; omega)
    · rename_i hlt
      split
      · rename_i heq
        have heq' : e = t.bits - 1 := by simpa using heq
        have hb := hb2 hs
        have hh : 2 * pow2 (e - 1) = t.half := by
          unfold IntTy.half
          have : t.bits - 1 = (e - 1) + 1 := by omega
          rw [this, pow2_succ]
        have hpe : pow2 e = t.half := by unfold IntTy.half; rw [heq']
        have hsub := subSigned_tri w hl hco dir (y := -2 * pow2 (e - 1)) h0 hx (by
          unfold IntTy.inRange IntTy.cmin IntTy.cmax; simp only [hs, if_true]
          constructor <;> omega)
        have ee : x - -2 * pow2 (e - 1) = x + pow2 e := by omega
        rw [ee] at hsub
        exact hsub
      · rename_i hne
        have hne' : e ≠ t.bits - 1 := by simpa using hne
        have hle : pow2 e ≤ pow2 (t.bits - 2) := pow2_le_pow2 (by omega)
        have hh : 2 * pow2 (t.bits - 2) = t.half := by
          unfold IntTy.half
          have : t.bits - 1 = (t.bits - 2) + 1 := by omega
          rw [this, pow2_succ]
        refine addSigned_tri w hl hco dir h0 hx ?_
        unfold IntTy.inRange IntTy.cmin IntTy.cmax; simp only [hs, if_true]
        have := pow2_pos (t.bits - 2)
        constructor <;> omega

theorem sub2exp_tri {t : IntTy} {π : Policy} (w : t.WF π) (hl : t.LargerOK) (hb2 : t.signed = true → 2 ≤ t.bits)
    (hco : π.checkOverflow = true) (dir : Dir) {to0 x : Int} (e : Nat) (h0 : t.inRange to0)
    (hx : t.finite π x) :
    Tri t π dir to0 (sub2exp t π to0 x e dir) (x - pow2 e) := by
  obtain ⟨es, eu⟩ := IntTy.erange_half w
  have hp := t.half_pos
  have pe := pow2_pos e
  unfold sub2exp sub2expSigned sub2expUnsigned
  simp only [hco, Bool.not_true, Bool.false_eq_true, if_false]
  cases hs : t.signed <;> simp only [Bool.false_eq_true, if_false, if_true]
  · obtain ⟨e0, e1, e2, _⟩ := eu hs
    split
    · rename_i hge
      have := pow2_ge_two_half w.bits_pos hge
      exact tri_neg (by have := hx.2; omega)
    · rename_i hlt
      have := pow2_le_half (t := t) (e := e) (by omega)
      refine subUnsigned_tri w hs hl hco dir h0 hx ?_
      unfold IntTy.inRange IntTy.cmin IntTy.cmax; simp only [hs, Bool.false_eq_true, if_false]
      constructor <;> omega
  · obtain ⟨e0, e1, e2, e3, _⟩ := es hs
    split
    · rename_i hge
      have := pow2_ge_two_half w.bits_pos hge
      exact tri_neg (by have := hx.2; omega)
    · rename_i hlt
      split
      · rename_i heq
        have heq' : e = t.bits - 1 := by simpa using heq
        have hb := hb2 hs
        have hh : 2 * pow2 (e - 1) = t.half := by
          unfold IntTy.half
          have : t.bits - 1 = (e - 1) + 1 := by omega
          rw [this, pow2_succ]
        have hpe : pow2 e = t.half := by unfold IntTy.half; rw [heq']
        have hadd := addSigned_tri w hl hco dir (y := -2 * pow2 (e - 1)) h0 hx (by
          unfold IntTy.inRange IntTy.cmin IntTy.cmax; simp only [hs, if_true]
          constructor <;> omega)
        have ee : x + -2 * pow2 (e - 1) = x - pow2 e := by omega
        rw [ee] at hadd
        exact hadd
      · rename_i hne
        have hne' : e ≠ t.bits - 1 := by simpa using hne
        have hle : pow2 e ≤ pow2 (t.bits - 2) := pow2_le_pow2 (by omega)
        have hh : 2 * pow2 (t.bits - 2) = t.half := by
          unfold IntTy.half
          have : t.bits - 1 = (t.bits - 2) + 1 := by omega
          rw [this, pow2_succ]
        refine subSigned_tri w hl hco dir h0 hx ?_
        unfold IntTy.inRange IntTy.cmin IntTy.cmax; simp only [hs, if_true]
        have := pow2_pos (t.bits - 2)
        constructor <;> omega

theorem mul2exp_tri {t : IntTy} {π : Policy} (w : t.WF π)
    (hco : π.checkOverflow = true) (dir : Dir) {to0 x : Int} (e : Nat)
    (hx : t.finite π x) :
    Tri t π dir to0 (mul2exp t π to0 x e dir) (x * pow2 e) := by
  obtain ⟨es, eu⟩ := IntTy.erange_half w
  obtain ⟨hmin, hmax⟩ := IntTy.emin_le_emax w
  have hp := t.half_pos
  have pe := pow2_pos e
  obtain ⟨hx1, hx2⟩ := hx
  unfold mul2exp mul2expSigned mul2expUnsigned
  simp only [hco, Bool.not_true, Bool.false_eq_true, if_false]
  have posPath : ∀ (k : Nat), 0 ≤ x → (k ≤ e → t.emax π < pow2 e) →
      Tri t π dir to0 (if e ≥ k then (if (x == 0) = true then (0, V_EQ) else setPosOverflow t π to0 dir)
        else if x > t.emax π / pow2 e then setPosOverflow t π to0 dir else (x * pow2 e, V_EQ)) (x * pow2 e) := by
    intro k hx0 hbig
    split
    · rename_i hge
      split
      · rename_i hz
        have hz : x = 0 := by simpa using hz
        subst hz
        simpa using (tri_eq (t := t) (π := π) (dir := dir) (to0 := to0) (v := 0) ⟨hmin, hmax⟩)
      · rename_i hz
        have hz : x ≠ 0 := by simpa using hz
        apply tri_pos
        have := hbig hge
        have hx1' : 1 ≤ x := by omega
        have : 1 * pow2 e ≤ x * pow2 e := Int.mul_le_mul_of_nonneg_right hx1' (by omega)
        omega
    · split
      · rename_i hgt
        apply tri_pos
        have := (@Int.le_ediv_iff_mul_le x (t.emax π) (pow2 e) (by omega)).not.mp (by omega)
        omega
      · rename_i hgt
        apply tri_eq
        have := (@Int.le_ediv_iff_mul_le x (t.emax π) (pow2 e) (by omega)).mp (by omega)
        have : 0 ≤ x * pow2 e := Int.mul_nonneg hx0 (by omega)
        constructor <;> omega
  cases hs : t.signed <;> simp only [Bool.false_eq_true, if_false, if_true]
  · obtain ⟨e0, e1, e2, _⟩ := eu hs
    exact posPath t.bits (by omega) (fun h => by have := pow2_ge_two_half w.bits_pos h; omega)
  · obtain ⟨e0, e1, e2, e3, _⟩ := es hs
    split
    · rename_i hneg
      split
      · rename_i hge
        apply tri_neg
        have := pow2_ge_two_half w.bits_pos hge
        have : x * pow2 e ≤ -1 * pow2 e := Int.mul_le_mul_of_nonneg_right (by omega) (by omega)
        omega
      · rename_i hlt
        have hlt' : e < t.bits := by omega
        have hprod : pow2 (t.bits - 1 - e) * pow2 e = t.half := by
          unfold IntTy.half
          rw [← pow2_add]
          congr 1; omega
        split
        · rename_i hsmall
          apply tri_neg
          have : x * pow2 e ≤ (-(pow2 (t.bits - 1 - e)) - 1) * pow2 e :=
            Int.mul_le_mul_of_nonneg_right (by omega) (by omega)
          have e4 : (-(pow2 (t.bits - 1 - e)) - 1) * pow2 e = -(pow2 (t.bits - 1 - e) * pow2 e) - pow2 e := by ring
          omega
        · split
          · rename_i hlo
            exact tri_neg hlo
          · rename_i hlo
            apply tri_eq
            have : x * pow2 e ≤ 0 := by nlinarith
            constructor <;> omega
    · rename_i hneg
      have hx0 : 0 ≤ x := by omega
      refine posPath (t.bits - 1) hx0 (fun h => ?_)
      have : t.half ≤ pow2 e := by unfold IntTy.half; exact pow2_le_pow2 h
      omega

end PPLV.Checked
