import PPLV.Checked.Spec
/-!
# C11 — the four primitives as they were written BEFORE the repairs (historical, no Mathlib)

/repo commits 5157d9d (div_signed_int), 295149f (sub_mul_int), f54ddd9 (umod_2exp_signed_int),
1ff2aae (isqrt_rem) repaired KF-C11-1 … KF-C11-4; `Model.lean` is the repaired code.  The old
bodies are kept here for two purposes only:
* the historical witnesses `C11.*_before_fix_fails` (what was wrong, machine-checked);
* regression identification: the harness measures on each witness whether the tree it was compiled
  against still carries the repair (`cfg fix <name> <0|1>`); if it does not, the driver compares the
  library with the as-written variant (`IntOp.runM`), so that the only mismatches reported are the
  property clauses the old code violates — with the witness — and not a flood of model differences.
-/
namespace PPLV.Checked
open Result

/-- which repairs the tree carries (all `true` = the code of `Model.lean`) -/
structure Fixes where
  div : Bool := true        -- KF-C11-1 div_signed_int
  subMul : Bool := true     -- KF-C11-2 sub_mul_int
  umod : Bool := true       -- KF-C11-3 umod_2exp_signed_int
  isqrt : Bool := true      -- KF-C11-4 isqrt_rem
  lcm : Bool := true        -- KF-C11-5 lcm_gcd_exact
deriving Repr, DecidableEq, Inhabited

/-- `div_signed_int` before 5157d9d: the fix-up keyed on the sign of `x % y` alone -/
def divSignedAsWritten (t : IntTy) (π : Policy) (to0 x y : Int) (dir : Dir) : Int × Result :=
  if π.checkDivZero && y == 0 then assignNan t π to0 V_DIV_ZERO
  else if π.checkOverflow && y == -1 then negSigned t π to0 x dir
  else
    let to := x.tdiv y
    if dir.notRequested then (to, V_LGE)
    else if y == -1 then (to, V_EQ)
    else
      let m := x.tmod y
      if m < 0 then roundLtNoOverflow to dir
      else if m > 0 then roundGtNoOverflow to dir
      else (to, V_EQ)

def divAsWritten (t : IntTy) (π : Policy) (to0 x y : Int) (dir : Dir) : Int × Result :=
  if t.signed then divSignedAsWritten t π to0 x y dir else divUnsigned t π to0 x y dir

/-- `sub_mul_int` before 295149f: `to <= 0` after a positive overflow of the product -/
def subMulAsWritten (t : IntTy) (π : Policy) (to0 x y : Int) (dir : Dir) : Int × Result :=
  let zr := mul t π 0 x y dir
  let ov := zr.2.resultOverflow
  if ov == 0 then sub t π to0 to0 (t.wrap zr.1) dir
  else if ov == -1 then
    if to0 ≥ 0 then setPosOverflow t π to0 dir else assignNan t π to0 V_UNKNOWN_NEG_OVERFLOW
  else
    if to0 ≤ 0 then setNegOverflow t π to0 dir else assignNan t π to0 V_UNKNOWN_POS_OVERFLOW

/-- `umod_2exp_signed_int` before f54ddd9: no test against `max` -/
def umod2expSignedAsWritten (t : IntTy) (π : Policy) (to0 x : Int) (e : Nat) (dir : Dir) : Int × Result :=
  if e ≥ t.bits then
    if x < 0 then setPosOverflow t π to0 dir else (x, V_EQ)
  else (x % pow2 e, V_EQ)

def umod2expAsWritten (t : IntTy) (π : Policy) (to0 x : Int) (e : Nat) (dir : Dir) : Int × Result :=
  if t.signed then umod2expSignedAsWritten t π to0 x e dir else umod2expUnsigned t π to0 x e dir

/-- `isqrt_rem` before 1ff2aae: `q = s + t; q >>= 1` (exceeds a signed type for operands `≥ 2^(bits-2)`) -/
def isqrtLoopAsWritten (ty : IntTy) : Nat → Int → Int → Int → Int × Int
  | 0, q, r, _ => (q, r)
  | fuel + 1, q, r, tt =>
    if tt == 0 then (q, r)
    else
      let s := ty.wrap (q + tt)
      if s ≤ r then isqrtLoopAsWritten ty fuel (ty.wrap (s + tt) / 2) (ty.wrap (r - s)) (tt / 4)
      else isqrtLoopAsWritten ty fuel (q / 2) r (tt / 4)

def sqrtAsWritten (t : IntTy) (π : Policy) (to0 x : Int) (dir : Dir) : Int × Result :=
  if t.signed && π.checkSqrtNeg && x < 0 then assignNan t π to0 V_SQRT_NEG
  else
    let qr := isqrtLoopAsWritten t t.bits 0 x (pow2 (t.bits - 2))
    if dir.notRequested then (qr.1, V_GE)
    else if qr.2 == 0 then (qr.1, V_EQ)
    else roundGt t π qr.1 dir

/-- the bit pattern is one of the special values of the policy -/
def IntTy.special (t : IntTy) (π : Policy) (v : Int) : Bool := t.isNan π v || t.isMinf π v || t.isPinf π v

/-- `lcm_gcd_exact` before 5d13b40: the code of an intermediate `abs` is returned, `to` is left alone -/
def lcmAsWritten (t : IntTy) (π : Policy) (to0 x y : Int) (dir : Dir) : Int × Result :=
  if x == 0 || y == 0 then (0, V_EQ)
  else
    let (ax, r1) := abs t π 0 x dir
    if r1 != V_EQ then (to0, r1)
    else
      let (ay, r2) := abs t π 0 y dir
      if r2 != V_EQ then (to0, r2)
      else
        let ax := t.wrap ax
        let ay := t.wrap ay
        let g := gcdNoAbs t π ax ay
        let (q, _) := div t π to0 ax g .notNeeded
        mul t π (t.wrap q) (t.wrap q) ay dir

/-- what the MEASURED tree runs: `IntOp.run` (the repaired code), except that an operation whose
repair was measured absent runs its as-written primitive (the extended layer reaches the native
primitive exactly when no operand is a special value) -/
def IntOp.runM (fx : Fixes) (t : IntTy) (π : Policy) (op : IntOp) (dir : Dir) (a : Operands) : Int × Result :=
  match op with
  | .div =>
    if !fx.div && !(t.special π a.x || t.special π a.y) then divAsWritten t π a.to0 a.x a.y dir
    else IntOp.run t π op dir a
  | .subMul =>
    if !fx.subMul && !(t.special π a.to0 || t.special π a.x || t.special π a.y) then subMulAsWritten t π a.to0 a.x a.y dir
    else IntOp.run t π op dir a
  | .umod2exp =>
    if !fx.umod && !(t.special π a.x) then umod2expAsWritten t π a.to0 a.x a.e dir
    else IntOp.run t π op dir a
  | .sqrt =>
    if !fx.isqrt && !(t.special π a.x) then sqrtAsWritten t π a.to0 a.x dir
    else IntOp.run t π op dir a
  | .lcm =>
    if !fx.lcm && !(t.special π a.x || t.special π a.y) then lcmAsWritten t π a.to0 a.x a.y dir
    else IntOp.run t π op dir a
  | _ => IntOp.run t π op dir a

/-- on a tree that carries all repairs the driver compares with the model of `Model.lean` -/
theorem IntOp.runM_repaired (t : IntTy) (π : Policy) (op : IntOp) (dir : Dir) (a : Operands) :
    IntOp.runM {} t π op dir a = IntOp.run t π op dir a := by
  cases op <;> rfl

end PPLV.Checked
