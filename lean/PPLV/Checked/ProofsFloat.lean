import PPLV.Checked.ProofsSpec
import PPLV.Checked.FloatJudge
/-!
# C11 proofs: the float judge decides the property clauses

`judgeFloat` brings the stored value `sn / sd` and the exact result `n / d` to the denominator of the
stored value and calls `K4.holdsFB` / `K4.directedB` on `sn` and `(n · sd) / d`.  These Booleans are the
propositions `K4.holdsF` / `K4.directed` about the unscaled rationals.
-/
namespace PPLV.Checked
open Result

def QV.toQ : QV → Ext Rat
  | .nan => .nan | .minf => .minf | .pinf => .pinf | .fin n d => .fin ((n : Rat) / (d : Rat))

def QV.WF : QV → Prop | .fin _ d => 0 < d | _ => True

/-- the integer view of a stored value and its denominator, as in `judgeFloat` -/
def QV.split : QV → Ext Int × Int
  | .nan => (.nan, 1) | .minf => (.minf, 1) | .pinf => (.pinf, 1) | .fin n d => (.fin n, d)

theorem holdsFB_iff {e : Exact} (he : e.Rational) (r : Result) (stored : Ext Int) :
    K4.holdsFB r stored e = true ↔ K4.holdsF r (stored.map (Int.cast : Int → Rat)) e.toQ := by
  unfold K4.holdsFB K4.holdsF
  cases hc : r.cls <;> simp only []
  · rw [Bool.and_eq_true, Bool.and_eq_true, relHoldsB_iff he]
    constructor
    · rintro ⟨⟨h1, h2⟩, h3⟩
      refine ⟨by simpa using h1, ?_, h3⟩
      cases stored <;> simp [Ext.map, Ext.isNan] at h2 ⊢
    · rintro ⟨h1, h2, h3⟩
      refine ⟨⟨by simpa using h1, ?_⟩, h3⟩
      cases stored <;> simp [Ext.map, Ext.isNan] at h2 ⊢
  · exact holdsB_iff he r stored
  · exact holdsB_iff he r stored
  · exact holdsB_iff he r stored

/-! ### scaling by the positive denominator of the stored value preserves every comparison -/

section scale
variable {n d sn sd : Int}

theorem scale_lt (hd : 0 < d) (hsd : 0 < sd) :
    ((n : Rat) / d < (sn : Rat) / sd) ↔ (((n * sd : Int) : Rat) / d < (sn : Rat)) := by
  have hd' : (0 : Rat) < d := by exact_mod_cast hd
  have hs' : (0 : Rat) < sd := by exact_mod_cast hsd
  rw [div_lt_div_iff₀ hd' hs', div_lt_iff₀ hd']
  push_cast
  constructor <;> intro h <;> linarith

theorem scale_gt (hd : 0 < d) (hsd : 0 < sd) :
    ((sn : Rat) / sd < (n : Rat) / d) ↔ ((sn : Rat) < ((n * sd : Int) : Rat) / d) := by
  have hd' : (0 : Rat) < d := by exact_mod_cast hd
  have hs' : (0 : Rat) < sd := by exact_mod_cast hsd
  rw [div_lt_div_iff₀ hs' hd', lt_div_iff₀ hd']
  push_cast
  constructor <;> intro h <;> linarith

theorem scale_eq (hd : 0 < d) (hsd : 0 < sd) :
    ((n : Rat) / d = (sn : Rat) / sd) ↔ (((n * sd : Int) : Rat) / d = (sn : Rat)) := by
  have hd' : (d : Rat) ≠ 0 := by exact_mod_cast (ne_of_gt hd)
  have hs' : (sd : Rat) ≠ 0 := by exact_mod_cast (ne_of_gt hsd)
  rw [div_eq_div_iff hd' hs', div_eq_iff hd']
  push_cast
  constructor <;> intro h <;> linarith

theorem relHolds_scale (hd : 0 < d) (hsd : 0 < sd) (rel : Rel) :
    K4.relHolds rel (Ext.fin ((n : Rat) / d)) (Ext.fin ((sn : Rat) / sd)) ↔
    K4.relHolds rel (Ext.fin (((n * sd : Int) : Rat) / d)) (Ext.fin (sn : Rat)) := by
  unfold K4.relHolds
  simp only [Ext.lt, Ext.eqv, scale_lt hd hsd, scale_gt hd hsd, scale_eq hd hsd]
  simp

theorem holdsF_scale (hd : 0 < d) (hsd : 0 < sd) (r : Result) :
    K4.holdsF r (Ext.fin ((sn : Rat) / sd)) (Ext.fin ((n : Rat) / d)) ↔
    K4.holdsF r (Ext.fin (sn : Rat)) (Ext.fin (((n * sd : Int) : Rat) / d)) := by
  unfold K4.holdsF K4.holds K4.nanReasonHolds
  cases hc : r.cls <;> simp only []
  · rw [relHolds_scale hd hsd]; simp
  · simp [K4.relHolds, Ext.lt, Ext.eqv]
  · simp [K4.relHolds, Ext.lt, Ext.eqv]
  · simp

theorem directed_scale (hd : 0 < d) (hsd : 0 < sd) (dir : Dir) (r : Result) :
    K4.directed dir r (Ext.fin ((sn : Rat) / sd)) (Ext.fin ((n : Rat) / d)) ↔
    K4.directed dir r (Ext.fin (sn : Rat)) (Ext.fin (((n * sd : Int) : Rat) / d)) := by
  unfold K4.directed Ext.le
  simp only [Ext.lt, Ext.eqv, scale_lt hd hsd, scale_gt hd hsd, scale_eq hd hsd]
  have e : ((sn : Rat) / sd = (n : Rat) / d) ↔ ((sn : Rat) = ((n * sd : Int) : Rat) / d) := by
    rw [eq_comm, scale_eq hd hsd, eq_comm]
  rw [e]

end scale

/-- **The float judge is sound and complete** for every exact result that is an extended rational:
what `judgeFloat` computes (`holdsFB` / `directedB` on the stored numerator and the exact result
scaled by the stored denominator) is `K4.holdsF` / `K4.directed` on the stored rational and the exact
rational.  (Square roots are compared through squares: no lemma.) -/
theorem float_judge_sound (stored ex : QV) (hs : stored.WF) (he : ex.WF) (r : Result) (dir : Dir) :
    (K4.holdsFB r stored.split.1 ((QX.val ex).scaled stored.split.2) = true ↔ K4.holdsF r stored.toQ ex.toQ) ∧
    (K4.directedB dir r stored.split.1 ((QX.val ex).scaled stored.split.2) = true ↔
      K4.directed dir r stored.toQ ex.toQ) := by
  -- the scaled exact value is rational
  have hrat : ∀ sd : Int, 0 < sd → ((QX.val ex).scaled sd).Rational := by
    intro sd _
    cases ex <;> simp [QX.scaled, Exact.Rational]
    exact he
  cases stored with
  | fin sn sd =>
    have hsd : 0 < sd := hs
    cases ex with
    | fin n d =>
      have hd : 0 < d := he
      have h1 := holdsFB_iff (hrat sd hsd) r (Ext.fin sn)
      have h2 := directedB_iff (hrat sd hsd) dir r (Ext.fin sn)
      simp only [QV.split, QX.scaled, Exact.toQ, Ext.map, QV.toQ] at h1 h2 ⊢
      exact ⟨h1.trans (holdsF_scale hd hsd r).symm, h2.trans (directed_scale hd hsd dir r).symm⟩
    | nan =>
      have h1 := holdsFB_iff (hrat sd hsd) r (Ext.fin sn)
      have h2 := directedB_iff (hrat sd hsd) dir r (Ext.fin sn)
      simp only [QV.split, QX.scaled, Exact.toQ, Ext.map, QV.toQ] at h1 h2 ⊢
      refine ⟨h1.trans ?_, h2.trans ?_⟩
      · unfold K4.holdsF K4.holds K4.nanReasonHolds K4.relHolds
        cases r.cls <;> simp [Ext.lt, Ext.eqv]
      · unfold K4.directed Ext.le; simp [Ext.lt, Ext.eqv]
    | minf =>
      have h1 := holdsFB_iff (hrat sd hsd) r (Ext.fin sn)
      have h2 := directedB_iff (hrat sd hsd) dir r (Ext.fin sn)
      simp only [QV.split, QX.scaled, Exact.toQ, Ext.map, QV.toQ] at h1 h2 ⊢
      refine ⟨h1.trans ?_, h2.trans ?_⟩
      · unfold K4.holdsF K4.holds K4.nanReasonHolds K4.relHolds
        cases r.cls <;> simp [Ext.lt, Ext.eqv]
      · unfold K4.directed Ext.le; simp [Ext.lt, Ext.eqv]
    | pinf =>
      have h1 := holdsFB_iff (hrat sd hsd) r (Ext.fin sn)
      have h2 := directedB_iff (hrat sd hsd) dir r (Ext.fin sn)
      simp only [QV.split, QX.scaled, Exact.toQ, Ext.map, QV.toQ] at h1 h2 ⊢
      refine ⟨h1.trans ?_, h2.trans ?_⟩
      · unfold K4.holdsF K4.holds K4.nanReasonHolds K4.relHolds
        cases r.cls <;> simp [Ext.lt, Ext.eqv]
      · unfold K4.directed Ext.le; simp [Ext.lt, Ext.eqv]
  | nan =>
    have h1 := holdsFB_iff (hrat 1 (by decide)) r (Ext.nan)
    have h2 := directedB_iff (hrat 1 (by decide)) dir r (Ext.nan)
    cases ex <;> simp only [QV.split, QX.scaled, Exact.toQ, Ext.map, QV.toQ, Int.mul_one] at h1 h2 ⊢ <;> exact ⟨h1, h2⟩
  | minf =>
    have h1 := holdsFB_iff (hrat 1 (by decide)) r (Ext.minf)
    have h2 := directedB_iff (hrat 1 (by decide)) dir r (Ext.minf)
    cases ex <;> simp only [QV.split, QX.scaled, Exact.toQ, Ext.map, QV.toQ, Int.mul_one] at h1 h2 ⊢ <;> exact ⟨h1, h2⟩
  | pinf =>
    have h1 := holdsFB_iff (hrat 1 (by decide)) r (Ext.pinf)
    have h2 := directedB_iff (hrat 1 (by decide)) dir r (Ext.pinf)
    cases ex <;> simp only [QV.split, QX.scaled, Exact.toQ, Ext.map, QV.toQ, Int.mul_one] at h1 h2 ⊢ <;> exact ⟨h1, h2⟩

end PPLV.Checked
