import PPLV.Checked.ConvMp
import PPLV.Checked.ProofsConv
/-!
# C11 proofs: conversions into `mpz_class` / `mpq_class`

For every kernel of `ConvMp.lean`: the relation the result code states between the exact value and the
stored number is true, and a directed rounding is honoured (`K4.holds`, `K4.directed` over `ℚ`).
-/
namespace PPLV.Checked
open Result

/-- a QV as an extended rational -/
def QV.toExtQ : QV → Ext Rat
  | .nan => .nan | .minf => .minf | .pinf => .pinf | .fin n d => .fin ((n : Rat) / (d : Rat))

/-- an integer stored with a normal-class code whose relation and direction claims are true -/
theorem mp_normal {dir : Dir} {s : Int} {r : Result} (hc : r.cls = .normal) (hu : r.unrep = false) {q : Rat}
    (hrel : (r.rel.lt = true ∧ q < s) ∨ (r.rel.eq = true ∧ q = s) ∨ (r.rel.gt = true ∧ (s : Rat) < q))
    (hup : dir = Dir.up → q ≤ s) (hdn : dir = Dir.down → (s : Rat) ≤ q) :
    K4.holds r (.fin (s : Rat)) (.fin q) ∧ K4.directed dir r (.fin (s : Rat)) (.fin q) := by
  constructor
  · simp only [K4.holds, hc, hu, true_and]
    refine ⟨⟨_, rfl⟩, ?_⟩
    unfold K4.relHolds
    rcases hrel with ⟨a, b⟩ | ⟨a, b⟩ | ⟨a, b⟩
    · exact Or.inl ⟨a, b⟩
    · exact Or.inr (Or.inl ⟨a, b⟩)
    · exact Or.inr (Or.inr (Or.inl ⟨a, b⟩))
  · simp only [K4.directed, Ext.le, Ext.lt, Ext.eqv]
    intro _ _
    exact ⟨fun h => by have := hup h; rcases lt_or_eq_of_le this with h | h; exact Or.inl h; exact Or.inr h,
           fun h => by have := hdn h; rcases lt_or_eq_of_le this with h | h; exact Or.inl h; exact Or.inr h⟩

/-- floor and ceiling of `n / d` as integer inequalities -/
theorem floor_facts (n : Int) {d : Int} (hd : 0 < d) : n / d * d ≤ n ∧ n < (n / d + 1) * d :=
  ⟨Int.ediv_mul_le n (ne_of_gt hd), Int.lt_ediv_add_one_mul_self n hd⟩

theorem ceil_facts (n : Int) {d : Int} (hd : 0 < d) : n ≤ -((-n) / d) * d ∧ (-((-n) / d) - 1) * d < n := by
  obtain ⟨h1, h2⟩ := floor_facts (-n) hd
  constructor <;> nlinarith

theorem q_le_int {x y s : Int} (hy : 0 < y) : ((x : Rat) / y ≤ s) ↔ x ≤ s * y := by
  rw [← not_lt, ← not_lt, int_lt_div hy]

theorem int_le_q {x y s : Int} (hy : 0 < y) : ((s : Rat) ≤ (x : Rat) / y) ↔ s * y ≤ x := by
  rw [← not_lt, ← not_lt, div_lt_int hy]

/-- **`assign_mpz_mpq`**: every direction (also `ROUND_STRICT_RELATION`): the code's relation between
`n / d` and the stored integer is true and the direction is honoured.  (`ROUND_NOT_NEEDED` stores the
numerator and returns `V_LGE`, which states nothing.) -/
theorem assignMpzMpq_ok (n : Int) {d : Int} (hd : 0 < d) (dir : Dir) (strict : Bool) :
    K4.holds (Mp.assignMpzMpq n d dir strict).2 (.fin ((Mp.assignMpzMpq n d dir strict).1 : Rat)) (.fin ((n : Rat) / d)) ∧
    K4.directed dir (Mp.assignMpzMpq n d dir strict).2 (.fin ((Mp.assignMpzMpq n d dir strict).1 : Rat)) (.fin ((n : Rat) / d)) := by
  have lge : ∀ s : Int, ((V_LGE.rel.lt = true ∧ (n : Rat) / d < s) ∨ (V_LGE.rel.eq = true ∧ (n : Rat) / d = s) ∨
      (V_LGE.rel.gt = true ∧ (s : Rat) < (n : Rat) / d)) := by
    intro s
    rcases lt_trichotomy ((n : Rat) / d) s with h | h | h
    · exact Or.inl ⟨rfl, h⟩
    · exact Or.inr (Or.inl ⟨rfl, h⟩)
    · exact Or.inr (Or.inr ⟨rfl, h⟩)
  obtain ⟨f1, f2⟩ := floor_facts n hd
  obtain ⟨c1, c2⟩ := ceil_facts n hd
  have hmod := Int.mul_ediv_add_emod n d
  have hm0 := Int.emod_nonneg n (ne_of_gt hd)
  cases dir
  · -- down
    simp only [Mp.assignMpzMpq]
    have hle : ((n / d : Int) : Rat) ≤ (n : Rat) / d := (int_le_q hd).mpr f1
    cases strict <;> simp only [Bool.false_eq_true, if_false, if_true]
    · refine mp_normal rfl rfl ?_ (fun h => by cases h) (fun _ => hle)
      rcases lt_or_eq_of_le hle with h | h
      · exact Or.inr (Or.inr ⟨rfl, h⟩)
      · exact Or.inr (Or.inl ⟨rfl, h.symm⟩)
    · split
      · rename_i h0
        have h0' : n % d = 0 := by simpa using h0
        have : n = n / d * d := by rw [h0'] at hmod; linarith [Int.mul_comm d (n / d)]
        have he : (n : Rat) / d = ((n / d : Int) : Rat) := (div_eq_int hd).mpr this
        exact mp_normal rfl rfl (Or.inr (Or.inl ⟨rfl, he⟩)) (fun _ => le_of_eq he) (fun _ => le_of_eq he.symm)
      · rename_i h0
        have h0' : n % d ≠ 0 := by simpa using h0
        have : n / d * d < n := by
          have : 0 < n % d := by omega
          linarith [Int.mul_comm d (n / d)]
        have hlt : ((n / d : Int) : Rat) < (n : Rat) / d := (int_lt_div hd).mpr this
        exact mp_normal rfl rfl (Or.inr (Or.inr ⟨rfl, hlt⟩)) (fun h => by cases h) (fun _ => le_of_lt hlt)
  · -- up
    simp only [Mp.assignMpzMpq]
    have hle : (n : Rat) / d ≤ ((-((-n) / d) : Int) : Rat) := (q_le_int hd).mpr c1
    cases strict <;> simp only [Bool.false_eq_true, if_false, if_true]
    · refine mp_normal rfl rfl ?_ (fun _ => hle) (fun h => by cases h)
      rcases lt_or_eq_of_le hle with h | h
      · exact Or.inl ⟨rfl, h⟩
      · exact Or.inr (Or.inl ⟨rfl, h⟩)
    · have hmod' := Int.mul_ediv_add_emod (-n) d
      have hm0' := Int.emod_nonneg (-n) (ne_of_gt hd)
      split
      · rename_i h0
        have h0' : n % d = 0 := by simpa using h0
        have hdv : d ∣ -n := (Int.dvd_neg).mpr (Int.dvd_of_emod_eq_zero h0')
        have hz : (-n) % d = 0 := Int.emod_eq_zero_of_dvd hdv
        have : n = -((-n) / d) * d := by rw [hz] at hmod'; linarith [Int.mul_comm d ((-n) / d)]
        have he : (n : Rat) / d = ((-((-n) / d) : Int) : Rat) := (div_eq_int hd).mpr this
        exact mp_normal rfl rfl (Or.inr (Or.inl ⟨rfl, he⟩)) (fun _ => le_of_eq he) (fun _ => le_of_eq he.symm)
      · rename_i h0
        have h0' : n % d ≠ 0 := by simpa using h0
        have hnz : (-n) % d ≠ 0 := by
          intro hz
          have hdv : d ∣ n := (Int.dvd_neg).mp (Int.dvd_of_emod_eq_zero hz)
          exact h0' (Int.emod_eq_zero_of_dvd hdv)
        have : n < -((-n) / d) * d := by
          have : 0 < (-n) % d := by omega
          linarith [Int.mul_comm d ((-n) / d)]
        have hlt : (n : Rat) / d < ((-((-n) / d) : Int) : Rat) := (div_lt_int hd).mpr this
        exact mp_normal rfl rfl (Or.inl ⟨rfl, hlt⟩) (fun _ => le_of_lt hlt) (fun h => by cases h)
  · -- ignore
    simp only [Mp.assignMpzMpq]
    exact mp_normal rfl rfl (lge _) (fun h => by cases h) (fun h => by cases h)
  · -- not needed
    simp only [Mp.assignMpzMpq]
    exact mp_normal rfl rfl (lge _) (fun h => by cases h) (fun h => by cases h)

/-- the special values: `assign_special_mpz/mpq` states the class of the operand -/
theorem mp_assignSpecial_ok (π : Policy) (to0 : QV) (c : Cls) (hc : c ≠ .normal) (dir : Dir) :
    K4.holds (Mp.assignSpecial π to0 c).2 (Mp.assignSpecial π to0 c).1.toExtQ (Ext.ofCls c |>.map Int.cast) ∧
    K4.directed dir (Mp.assignSpecial π to0 c).2 (Mp.assignSpecial π to0 c).1.toExtQ (Ext.ofCls c |>.map Int.cast) := by
  cases c
  · exact absurd rfl hc
  · cases hi : π.hasInfinity <;>
      simp [Mp.assignSpecial, hi, K4.holds, K4.directed, V_EQ_MINUS_INFINITY, orUnrep, K4.relHolds, Rel.EQ, Ext.eqv,
        Ext.ofCls, Ext.map, QV.toExtQ, Ext.le]
  · cases hi : π.hasInfinity <;>
      simp [Mp.assignSpecial, hi, K4.holds, K4.directed, V_EQ_PLUS_INFINITY, orUnrep, K4.relHolds, Rel.EQ, Ext.eqv,
        Ext.ofCls, Ext.map, QV.toExtQ, Ext.le]
  · simp [Mp.assignSpecial, K4.holds, K4.directed, V_NAN, K4.nanReasonHolds, Ext.ofCls, Ext.map]

theorem mp_assignSpecialQ_ok (π : Policy) (to0 : QV) (c : Cls) (hc : c ≠ .normal) (dir : Dir) :
    K4.holds (Mp.assignSpecialQ π to0 c).2 (Mp.assignSpecialQ π to0 c).1.toExtQ (Ext.ofCls c |>.map Int.cast) ∧
    K4.directed dir (Mp.assignSpecialQ π to0 c).2 (Mp.assignSpecialQ π to0 c).1.toExtQ (Ext.ofCls c |>.map Int.cast) := by
  cases c
  · exact absurd rfl hc
  · exact mp_assignSpecial_ok π to0 .minf (by decide) dir
  · exact mp_assignSpecial_ok π to0 .pinf (by decide) dir
  · cases hn : π.hasNan <;>
      simp [Mp.assignSpecialQ, hn, K4.holds, K4.directed, V_NAN, orUnrep, K4.nanReasonHolds, Ext.ofCls, Ext.map]

/-- **`assign_mpz_float`** (finite operand `n / d`, FPU rounding upward as the library maintains it):
relation true, direction honoured -/
theorem assignMpzFloat_ok (π : Policy) (to0 : QV) (n : Int) {d : Int} (hd : 0 < d) (dir : Dir) :
    K4.holds (Mp.assignMpzFloat π to0 .up (.fin n d) dir).2 (Mp.assignMpzFloat π to0 .up (.fin n d) dir).1.toExtQ (.fin ((n : Rat) / d)) ∧
    K4.directed dir (Mp.assignMpzFloat π to0 .up (.fin n d) dir).2 (Mp.assignMpzFloat π to0 .up (.fin n d) dir).1.toExtQ (.fin ((n : Rat) / d)) := by
  have cast1 : ∀ s : Int, ((s : Rat) / ((1 : Int) : Rat)) = (s : Rat) := by intro s; simp
  obtain ⟨c1, c2⟩ := ceil_facts n hd
  simp only [Mp.assignMpzFloat, Mp.rint]
  split
  · rename_i hnr
    simp only [QV.toExtQ, Int.cast_one, div_one]
    refine mp_normal rfl rfl ?_ (fun h => by rw [h] at hnr; simp [Dir.notRequested] at hnr)
      (fun h => by rw [h] at hnr; simp [Dir.notRequested] at hnr)
    rcases lt_trichotomy ((n : Rat) / d) ((n.tdiv d : Int) : Rat) with h | h | h
    · exact Or.inl ⟨rfl, h⟩
    · exact Or.inr (Or.inl ⟨rfl, h⟩)
    · exact Or.inr (Or.inr ⟨rfl, h⟩)
  · by_cases heq : (n == -((-n) / d) * d) = true
    · simp only [heq, if_true]
      have heq' : n = -((-n) / d) * d := by simpa using heq
      simp only [QV.toExtQ, Int.cast_one, div_one]
      have he : (n : Rat) / d = ((-((-n) / d) : Int) : Rat) := (div_eq_int hd).mpr heq'
      exact mp_normal rfl rfl (Or.inr (Or.inl ⟨rfl, he⟩)) (fun _ => le_of_eq he) (fun _ => le_of_eq he.symm)
    · simp only [heq, if_false]
      have hne : n ≠ -((-n) / d) * d := by simpa using heq
      have hlt' : n < -((-n) / d) * d := by omega
      have hlt : (n : Rat) / d < ((-((-n) / d) : Int) : Rat) := (div_lt_int hd).mpr hlt'
      by_cases hdn : dir.roundDown = true
      · have hdn' : dir = Dir.down := by simpa [Dir.roundDown] using hdn
        have e : Mp.roundLtMpz (-((-n) / d)) dir = (-((-n) / d) - 1, V_GT) := by simp [Mp.roundLtMpz, hdn]
        rw [e]
        have hgt : ((-((-n) / d) - 1 : Int) : Rat) < (n : Rat) / d := (int_lt_div hd).mpr c2
        have := mp_normal (dir := dir) (s := -((-n) / d) - 1) (r := V_GT) rfl rfl (Or.inr (Or.inr ⟨rfl, hgt⟩))
          (fun h => by rw [hdn'] at h; cases h) (fun _ => le_of_lt hgt)
        simpa [QV.toExtQ] using this
      · have e : Mp.roundLtMpz (-((-n) / d)) dir = (-((-n) / d), V_LT) := by simp [Mp.roundLtMpz, hdn]
        rw [e]
        have := mp_normal (dir := dir) (s := -((-n) / d)) (r := V_LT) rfl rfl (Or.inl ⟨rfl, hlt⟩)
          (fun _ => le_of_lt hlt) (fun h => by simp [Dir.roundDown, h] at hdn)
        simpa [QV.toExtQ] using this

/-- **`assign_mpz_signed_int` / `assign_mpz_unsigned_int`**: exact for every value of the source type —
including the minimum of a `long long`, whose negation wraps to itself and is read back as `2^(bits-1)` -/
theorem assignMpzInt_exact (f : IntTy) {v : Int} (h : f.inRange v) : Mp.assignMpzInt f v = (v, V_EQ) := by
  have hp := f.half_pos
  unfold Mp.assignMpzInt
  split
  · rfl
  · rename_i hneg
    have hsg : f.signed = true := by
      cases hs : f.signed
      · unfold IntTy.inRange IntTy.cmin at h; simp [hs] at h; omega
      · rfl
    unfold IntTy.inRange IntTy.cmin IntTy.cmax at h
    simp only [hsg, if_true] at h
    have key : f.wrap (-v) % (2 * f.half) = -v := by
      unfold IntTy.wrap
      simp only [hsg, if_true]
      by_cases hmin : v = -f.half
      · subst hmin
        have e1 : (- -f.half + f.half) % (2 * f.half) = 0 := by
          rw [show - -f.half + f.half = 2 * f.half by ring]; exact Int.emod_self
        rw [e1]
        have : (0 - f.half) % (2 * f.half) = f.half := by
          rw [show (0 - f.half) = f.half + (-1) * (2 * f.half) by ring, Int.add_mul_emod_self_right]
          exact Int.emod_eq_of_lt (by omega) (by omega)
        rw [this]; ring
      · have e1 : (-v + f.half) % (2 * f.half) = -v + f.half := Int.emod_eq_of_lt (by omega) (by omega)
        rw [e1, show -v + f.half - f.half = -v by ring]
        exact Int.emod_eq_of_lt (by omega) (by omega)
    rw [key]; simp

/-- `assign_mpq_float` on a finite operand is exact -/
theorem assignMpqFloat_exact (π : Policy) (to0 : QV) (n d : Int) :
    Mp.assignMpqFloat π to0 (.fin n d) = (.fin n d, V_EQ) := rfl

end PPLV.Checked
