import PPLV.Checked.Proofs1
/-!
# C11 proofs, part 2: neg, add, sub, abs — direct paths and `Larger<T>` paths
-/
namespace PPLV.Checked
open Result

/-- the `int_fast` type used by `Larger<T>` is at least twice as wide (and has 3 bits) -/
structure IntTy.LargerW (t : IntTy) : Prop where
  twice : 2 * t.bits ≤ t.lbits
  three : 3 ≤ t.lbits

/-- … whenever `Larger<T>` routes some operation through it -/
structure IntTy.LargerOK (t : IntTy) : Prop where
  ok : (t.useNeg = true ∨ t.useAdd = true ∨ t.useSub = true ∨ t.useMul = true) → t.LargerW

theorem IntTy.LargerOK.of_neg {t : IntTy} (h : t.LargerOK) (u : t.useNeg = true) : t.LargerW := h.ok (Or.inl u)
theorem IntTy.LargerOK.of_add {t : IntTy} (h : t.LargerOK) (u : t.useAdd = true) : t.LargerW := h.ok (Or.inr (Or.inl u))
theorem IntTy.LargerOK.of_sub {t : IntTy} (h : t.LargerOK) (u : t.useSub = true) : t.LargerW :=
  h.ok (Or.inr (Or.inr (Or.inl u)))
theorem IntTy.LargerOK.of_mul {t : IntTy} (h : t.LargerOK) (u : t.useMul = true) : t.LargerW :=
  h.ok (Or.inr (Or.inr (Or.inr u)))

theorem larger_wf {t : IntTy} (h : t.LargerW) (sg : Bool) (π : Policy) : (t.larger sg).WF π :=
  ⟨by have := h.three; simp [IntTy.larger]; omega, fun _ => by have := h.three; simp [IntTy.larger]; omega⟩

theorem larger_gap {t : IntTy} (h : t.LargerW) (sg : Bool) : t.GapOK (t.larger sg) := by
  have := h.twice
  left; simp [IntTy.larger]; omega

theorem larger_half {t : IntTy} (hb : 1 ≤ t.bits) (h : t.LargerW) (sg : Bool) :
    2 * t.half * t.half ≤ (t.larger sg).half ∧ 4 ≤ (t.larger sg).half
      ∧ 2 * t.half + 2 ≤ (t.larger sg).half := by
  have h2 := h.twice; have h3 := h.three
  have e : (t.larger sg).half = pow2 (t.lbits - 1) := rfl
  have hp := t.half_pos
  have m1 : pow2 ((t.bits - 1) + (t.bits - 1) + 1) ≤ pow2 (t.lbits - 1) := pow2_le_pow2 (by omega)
  rw [pow2_succ, pow2_add] at m1
  have m2 : pow2 2 ≤ pow2 (t.lbits - 1) := pow2_le_pow2 (by omega)
  have e2 : pow2 2 = 4 := rfl
  rw [e2] at m2
  rw [e]
  unfold IntTy.half at *
  generalize pow2 (t.bits - 1) = H at *
  generalize pow2 (t.lbits - 1) = L at *
  refine ⟨by nlinarith, m2, ?_⟩
  rcases (by omega : H = 1 ∨ 2 ≤ H) with h1 | h1
  · subst h1; omega
  · nlinarith

/-- a value that is small relative to the larger type is one of its finite values -/
theorem larger_finite_signed {t : IntTy} {π : Policy} (hb : 1 ≤ t.bits) (h : t.LargerW) {v : Int}
    (hv : -(t.larger true).half + 2 ≤ v ∧ v ≤ (t.larger true).half - 2) : (t.larger true).finite π v := by
  obtain ⟨_, h4, _⟩ := larger_half hb h true
  have e : (t.larger true).signed = true := rfl
  unfold IntTy.finite IntTy.emin IntTy.emax IntTy.cmin IntTy.cmax b2i
  generalize (t.larger true).half = L at *
  simp [e]
  cases π.hasNan <;> cases π.hasInfinity <;> simp <;> omega

theorem larger_finite_unsigned {t : IntTy} {π : Policy} (hb : 1 ≤ t.bits) (h : t.LargerW) {v : Int}
    (hv : 0 ≤ v ∧ v ≤ 2 * (t.larger false).half - 4) : (t.larger false).finite π v := by
  obtain ⟨_, h4, _⟩ := larger_half hb h false
  have e : (t.larger false).signed = false := rfl
  unfold IntTy.finite IntTy.emin IntTy.emax IntTy.cmin IntTy.cmax b2i
  generalize (t.larger false).half = L at *
  simp [e]
  cases π.hasNan <;> cases π.hasInfinity <;> simp <;> omega

/-- bounds of a finite operand in terms of `half` -/
theorem IntTy.finite_bounds {t : IntTy} {π : Policy} {v : Int} (h : t.finite π v) :
    (t.signed = true → -t.half ≤ v ∧ v ≤ t.half - 1) ∧ (t.signed = false → 0 ≤ v ∧ v ≤ 2 * t.half - 1) := by
  have := IntTy.finite_inRange h
  unfold IntTy.inRange IntTy.cmin IntTy.cmax at this
  constructor <;> intro hs <;> simp [hs] at this <;> omega

theorem IntTy.inRange_bounds {t : IntTy} {v : Int} (h : t.inRange v) :
    (t.signed = true → -t.half ≤ v ∧ v ≤ t.half - 1) ∧ (t.signed = false → 0 ≤ v ∧ v ≤ 2 * t.half - 1) := by
  unfold IntTy.inRange IntTy.cmin IntTy.cmax at h
  constructor <;> intro hs <;> simp [hs] at h <;> omega

/-! ## neg -/

theorem negLarger_tri {t : IntTy} {π : Policy} (w : t.WF π) (hl : t.LargerW) (hco : π.checkOverflow = true)
    (dir : Dir) {to0 x : Int} (h0 : t.inRange to0) (hx : t.finite π x) :
    Tri t π dir to0 (negLarger t π to0 x dir) (-x) := by
  unfold negLarger
  apply assignInt_tri w (larger_wf hl true π) hco (larger_gap hl true) dir h0
  apply larger_finite_signed w.bits_pos hl
  obtain ⟨_, _, h3⟩ := larger_half w.bits_pos hl true
  obtain ⟨b1, b2⟩ := IntTy.finite_bounds hx
  have hp := t.half_pos
  cases hs : t.signed
  · have := b2 hs; omega
  · have := b1 hs; omega

theorem negSigned_tri {t : IntTy} {π : Policy} (w : t.WF π) (hs : t.signed = true) (hl : t.LargerOK)
    (hco : π.checkOverflow = true) (dir : Dir) {to0 x : Int} (h0 : t.inRange to0) (hx : t.finite π x) :
    Tri t π dir to0 (negSigned t π to0 x dir) (-x) := by
  unfold negSigned
  simp only [hco, Bool.true_and, decide_eq_true_eq]
  split
  · rename_i hu; exact negLarger_tri w (hl.of_neg hu) hco dir h0 hx
  · split
    · exact tri_pos (by omega)
    · apply tri_eq
      obtain ⟨hp, hr⟩ := w.half_facts
      obtain ⟨h1, h2⟩ := hx
      rename_i hnl hno
      unfold IntTy.finite IntTy.emin IntTy.emax IntTy.cmin IntTy.cmax b2i at *
      generalize t.half = H at *
      simp [hs] at *
      cases hn : π.hasNan <;> cases hi : π.hasInfinity <;> simp [hn, hi] at * <;> omega

theorem negUnsigned_tri {t : IntTy} {π : Policy} (w : t.WF π) (hs : t.signed = false) (hl : t.LargerOK)
    (hco : π.checkOverflow = true) (dir : Dir) {to0 x : Int} (h0 : t.inRange to0) (hx : t.finite π x) :
    Tri t π dir to0 (negUnsigned t π to0 x dir) (-x) := by
  unfold negUnsigned
  simp only [hco, Bool.true_and]
  split
  · rename_i hu; exact negLarger_tri w (hl.of_neg hu) hco dir h0 hx
  · split
    · rename_i hne
      apply tri_neg
      have h1 := hx.1
      have hne' : x ≠ 0 := by simpa using hne
      unfold IntTy.emin IntTy.cmin at *
      simp [hs] at *
      omega
    · rename_i hne
      have hz : x = 0 := by simpa using hne
      subst hz
      exact tri_eq hx

theorem neg_tri {t : IntTy} {π : Policy} (w : t.WF π) (hl : t.LargerOK)
    (hco : π.checkOverflow = true) (dir : Dir) {to0 x : Int} (h0 : t.inRange to0) (hx : t.finite π x) :
    Tri t π dir to0 (neg t π to0 x dir) (-x) := by
  unfold neg
  cases hs : t.signed
  · simpa using negUnsigned_tri w hs hl hco dir h0 hx
  · simpa using negSigned_tri w hs hl hco dir h0 hx

/-! ## add -/

theorem addLarger_tri {t : IntTy} {π : Policy} (w : t.WF π) (hl : t.LargerW) (hco : π.checkOverflow = true)
    (dir : Dir) {to0 x y : Int} (h0 : t.inRange to0) (hx : t.finite π x) (hy : t.inRange y) :
    Tri t π dir to0 (addLarger t π to0 x y dir) (x + y) := by
  unfold addLarger
  apply assignInt_tri w (larger_wf hl _ π) hco (larger_gap hl _) dir h0
  obtain ⟨bx1, bx2⟩ := IntTy.finite_bounds hx
  obtain ⟨by1, by2⟩ := IntTy.inRange_bounds hy
  have hp := t.half_pos
  cases hs : t.signed
  · apply larger_finite_unsigned w.bits_pos hl
    obtain ⟨_, _, h3⟩ := larger_half w.bits_pos hl false
    have := bx2 hs; have := by2 hs; omega
  · apply larger_finite_signed w.bits_pos hl
    obtain ⟨_, _, h3⟩ := larger_half w.bits_pos hl true
    have := bx1 hs; have := by1 hs; omega

theorem addSigned_tri {t : IntTy} {π : Policy} (w : t.WF π) (hl : t.LargerOK)
    (hco : π.checkOverflow = true) (dir : Dir) {to0 x y : Int} (h0 : t.inRange to0)
    (hx : t.finite π x) (hy : t.inRange y) :
    Tri t π dir to0 (addSigned t π to0 x y dir) (x + y) := by
  unfold addSigned
  simp only [hco, Bool.true_and, Bool.and_eq_true, decide_eq_true_eq, Bool.not_eq_true', decide_eq_false_iff_not]
  split
  · rename_i hu; exact addLarger_tri w (hl.of_add hu) hco dir h0 hx hy
  · split
    · exact tri_pos (by omega)
    · split
      · exact tri_neg (by omega)
      · apply tri_eq
        obtain ⟨h1, h2⟩ := hx
        obtain ⟨h3, h4⟩ := hy
        constructor <;> omega

theorem addUnsigned_tri {t : IntTy} {π : Policy} (w : t.WF π) (hs : t.signed = false) (hl : t.LargerOK)
    (hco : π.checkOverflow = true) (dir : Dir) {to0 x y : Int} (h0 : t.inRange to0)
    (hx : t.finite π x) (hy : t.inRange y) :
    Tri t π dir to0 (addUnsigned t π to0 x y dir) (x + y) := by
  unfold addUnsigned
  simp only [hco, Bool.true_and, decide_eq_true_eq]
  split
  · rename_i hu; exact addLarger_tri w (hl.of_add hu) hco dir h0 hx hy
  · split
    · exact tri_pos (by omega)
    · apply tri_eq
      obtain ⟨h1, h2⟩ := hx
      obtain ⟨h3, h4⟩ := hy
      have e : t.emin π = 0 := by simp [IntTy.emin, IntTy.cmin, hs]
      have c0 : t.cmin = 0 := by simp [IntTy.cmin, hs]
      constructor <;> omega

theorem add_tri {t : IntTy} {π : Policy} (w : t.WF π) (hl : t.LargerOK)
    (hco : π.checkOverflow = true) (dir : Dir) {to0 x y : Int} (h0 : t.inRange to0)
    (hx : t.finite π x) (hy : t.inRange y) :
    Tri t π dir to0 (add t π to0 x y dir) (x + y) := by
  unfold add
  cases hs : t.signed
  · simpa using addUnsigned_tri w hs hl hco dir h0 hx hy
  · simpa using addSigned_tri w hl hco dir h0 hx hy

/-! ## sub -/

theorem subLarger_tri {t : IntTy} {π : Policy} (w : t.WF π) (hl : t.LargerW) (hco : π.checkOverflow = true)
    (dir : Dir) {to0 x y : Int} (h0 : t.inRange to0) (hx : t.finite π x) (hy : t.inRange y) :
    Tri t π dir to0 (subLarger t π to0 x y dir) (x - y) := by
  unfold subLarger
  apply assignInt_tri w (larger_wf hl _ π) hco (larger_gap hl _) dir h0
  obtain ⟨bx1, bx2⟩ := IntTy.finite_bounds hx
  obtain ⟨by1, by2⟩ := IntTy.inRange_bounds hy
  have hp := t.half_pos
  apply larger_finite_signed w.bits_pos hl
  obtain ⟨_, _, h3⟩ := larger_half w.bits_pos hl true
  cases hs : t.signed
  · have := bx2 hs; have := by2 hs; omega
  · have := bx1 hs; have := by1 hs; omega

theorem subSigned_tri {t : IntTy} {π : Policy} (w : t.WF π) (hl : t.LargerOK)
    (hco : π.checkOverflow = true) (dir : Dir) {to0 x y : Int} (h0 : t.inRange to0)
    (hx : t.finite π x) (hy : t.inRange y) :
    Tri t π dir to0 (subSigned t π to0 x y dir) (x - y) := by
  unfold subSigned
  simp only [hco, Bool.true_and, Bool.and_eq_true, decide_eq_true_eq, Bool.not_eq_true', decide_eq_false_iff_not]
  split
  · rename_i hu; exact subLarger_tri w (hl.of_sub hu) hco dir h0 hx hy
  · split
    · exact tri_neg (by omega)
    · split
      · exact tri_pos (by omega)
      · apply tri_eq
        obtain ⟨h1, h2⟩ := hx
        obtain ⟨h3, h4⟩ := hy
        constructor <;> omega

theorem subUnsigned_tri {t : IntTy} {π : Policy} (w : t.WF π) (hs : t.signed = false) (hl : t.LargerOK)
    (hco : π.checkOverflow = true) (dir : Dir) {to0 x y : Int} (h0 : t.inRange to0)
    (hx : t.finite π x) (hy : t.inRange y) :
    Tri t π dir to0 (subUnsigned t π to0 x y dir) (x - y) := by
  unfold subUnsigned
  simp only [hco, Bool.true_and, decide_eq_true_eq]
  split
  · rename_i hu; exact subLarger_tri w (hl.of_sub hu) hco dir h0 hx hy
  · split
    · exact tri_neg (by omega)
    · apply tri_eq
      obtain ⟨h1, h2⟩ := hx
      obtain ⟨h3, h4⟩ := hy
      have e : t.emin π = 0 := by simp [IntTy.emin, IntTy.cmin, hs]
      have c0 : t.cmin = 0 := by simp [IntTy.cmin, hs]
      constructor <;> omega

theorem sub_tri {t : IntTy} {π : Policy} (w : t.WF π) (hl : t.LargerOK)
    (hco : π.checkOverflow = true) (dir : Dir) {to0 x y : Int} (h0 : t.inRange to0)
    (hx : t.finite π x) (hy : t.inRange y) :
    Tri t π dir to0 (sub t π to0 x y dir) (x - y) := by
  unfold sub
  cases hs : t.signed
  · simpa using subUnsigned_tri w hs hl hco dir h0 hx hy
  · simpa using subSigned_tri w hl hco dir h0 hx hy

/-! ## abs -/

theorem abs_tri {t : IntTy} {π : Policy} (w : t.WF π) (hl : t.LargerOK)
    (hco : π.checkOverflow = true) (dir : Dir) {to0 x : Int} (h0 : t.inRange to0) (hx : t.finite π x) :
    Tri t π dir to0 (abs t π to0 x dir) (if x < 0 then -x else x) := by
  unfold abs
  have same : t.GapOK t := Or.inl (Nat.le_refl _)
  cases hs : t.signed
  · have hx0 : ¬ x < 0 := by
      have := hx.1; unfold IntTy.emin IntTy.cmin at this; simp [hs] at this; omega
    simp only [hx0, if_false]
    have := assignInt_tri w w hco same dir h0 hx
    unfold assignInt at this
    simpa [hs] using this
  · simp only [if_true]
    split
    · exact neg_tri w hl hco dir h0 hx
    · exact assignInt_tri w w hco same dir h0 hx

end PPLV.Checked
