import PPLV.Checked.ProofsExt2
import PPLV.Checked.Proofs7
/-!
# C11 proofs: the extended layer for `smod_2exp`
-/
namespace PPLV.Checked
open Result

theorem smod2expExt_ok {t : IntTy} {π : Policy} (w : t.WF π) (hb2 : t.signed = true → 2 ≤ t.bits)
    (dir : Dir) {to0 x : Int} (e : Nat) (he : 1 ≤ e) (h0 : t.inRange to0) (hx : t.inRange x)
    (hpre : π.checkInfMod = true ∨ (t.denote π x).isInf = false) :
    OK t π dir (modExt t π to0 x fun _ => smod2exp t π to0 x e dir)
      (match t.denote π x with | .fin v => .fin (smodInt v e) | _ => .nan) := by
  unfold modExt
  rcases IntTy.denote_cases w hx with ⟨a, d⟩ | ⟨a, b, c, d⟩ | ⟨a, b, c, d⟩ | ⟨a, b, c, d, f⟩ <;>
    (try rw [d] at hpre) <;> ext_simp
  · exact okNanSpecial w dir h0
  · rcases hpre with h | h
    · simp only [h, if_true]; exact okNanReason w dir h0 rfl
    · simp [Ext.isInf] at h
  · rcases hpre with h | h
    · simp only [h, if_true]; exact okNanReason w dir h0 rfl
    · simp [Ext.isInf] at h
  · exact tri_ok w h0 (smod2exp_tri w hb2 dir e he f)

end PPLV.Checked
