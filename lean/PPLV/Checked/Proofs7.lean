import PPLV.Checked.Proofs6
/-!
# C11 proofs, part 11: `smod_2exp` (signed residue modulo a power of two)
-/
namespace PPLV.Checked
open Result

/-- `x mod 2m` from `x mod m` and the parity of `x / m` -/
theorem emod_two_mul (x : Int) {m : Int} (hm : 0 < m) :
    x % (2 * m) = x % m + (if (x / m) % 2 = 1 then m else 0) := by
  obtain ⟨e1, r0, r1⟩ := ediv_emod_pos x hm
  obtain ⟨e2, b0, b1⟩ := ediv_emod_pos (x / m) (show (0 : Int) < 2 by omega)
  generalize x / m = q at *
  generalize x % m = r at *
  generalize q / 2 = q' at *
  generalize q % 2 = b at *
  have hx : x = (m * b + r) + (2 * m) * q' := by
    have : m * q = m * (2 * q') + m * b := by rw [← e2]; ring
    rw [← e1, this]; ring
  rw [hx, Int.add_mul_emod_self_left]
  rcases (by omega : b = 0 ∨ b = 1) with hb | hb
  · subst hb
    simp only [Int.mul_zero, Int.zero_add]
    rw [Int.emod_eq_of_lt (by omega) (by omega)]
    simp
  · subst hb
    simp only [Int.mul_one, if_true]
    rw [Int.emod_eq_of_lt (by omega) (by omega)]
    omega

theorem IntTy.signed_tight_or_big {t : IntTy} {π : Policy} (w : t.WF π) (hs : t.signed = true) :
    (t.emin π = -t.half ∧ t.emax π = t.half - 1) ∨ 4 ≤ t.half := by
  obtain ⟨hp, hr⟩ := w.half_facts
  unfold IntTy.emin IntTy.emax IntTy.cmin IntTy.cmax b2i
  generalize t.half = H at *
  cases hn : π.hasNan <;> cases hi : π.hasInfinity <;> simp [hs, hn, hi] at * <;> omega

theorem smod2exp_tri {t : IntTy} {π : Policy} (w : t.WF π) (hb2 : t.signed = true → 2 ≤ t.bits)
    (dir : Dir) {to0 x : Int} (e : Nat) (he : 1 ≤ e) (hx : t.finite π x) :
    Tri t π dir to0 (smod2exp t π to0 x e dir) (smodInt x e) := by
  obtain ⟨es, eu⟩ := IntTy.erange_half w
  obtain ⟨hmin, hmax⟩ := IntTy.emin_le_emax w
  have hp := t.half_pos
  have pe := pow2_pos e
  have pe1 := pow2_pos (e - 1)
  have hee : pow2 e = 2 * pow2 (e - 1) := by
    have : e = (e - 1) + 1 := by omega
    rw [this, pow2_succ]; simp
  obtain ⟨hx1, hx2⟩ := hx
  obtain ⟨ed, em0, em1⟩ := ediv_emod_pos x (show 0 < pow2 e by omega)
  unfold smod2exp smod2expSigned smod2expUnsigned smodInt
  cases hs : t.signed <;> simp only [Bool.false_eq_true, if_false, if_true]
  · obtain ⟨e0, e1, e2, _⟩ := eu hs
    have hx0 : 0 ≤ x := by omega
    split
    · rename_i hgt
      -- e > bits: x < 2^bits <= 2^(e-1)
      have h2 : 2 * t.half ≤ pow2 (e - 1) := pow2_ge_two_half w.bits_pos (by omega)
      have hr : x % pow2 e = x := Int.emod_eq_of_lt hx0 (by omega)
      rw [hr]
      have : ¬ (2 * x ≥ pow2 e) := by omega
      simp only [this, if_false]
      exact tri_eq ⟨hx1, hx2⟩
    · rename_i hle
      have hv : (if (e == t.bits) = true then x else x % pow2 e) = x % pow2 e := by
        split
        · rename_i heq
          have heq' : e = t.bits := by simpa using heq
          have h2 : 2 * t.half ≤ pow2 e := pow2_ge_two_half w.bits_pos (by omega)
          exact (Int.emod_eq_of_lt hx0 (by omega)).symm
        · rfl
      rw [hv]
      have hle' : x % pow2 e ≤ x := by
        have : 0 ≤ x / pow2 e := Int.ediv_nonneg hx0 (by omega)
        nlinarith
      generalize x % pow2 e = v at *
      split
      · rename_i hge
        have : 2 * v ≥ pow2 e := by omega
        simp only [this, if_true]
        exact tri_neg (by omega)
      · rename_i hge
        have : ¬ (2 * v ≥ pow2 e) := by omega
        simp only [this, if_false]
        exact tri_eq ⟨by omega, by omega⟩
  · obtain ⟨e0, e1, e2, e3, e4⟩ := es hs
    split
    · rename_i hge
      have h2 : 2 * t.half ≤ pow2 e := pow2_ge_two_half w.bits_pos hge
      rcases (by omega : 0 ≤ x ∨ x < 0) with hx0 | hx0
      · have hr : x % pow2 e = x := Int.emod_eq_of_lt hx0 (by omega)
        rw [hr]
        have : ¬ (2 * x ≥ pow2 e) := by omega
        simp only [this, if_false]
        exact tri_eq ⟨hx1, hx2⟩
      · have hr : x % pow2 e = x + pow2 e := by
          rw [← Int.add_emod_right]; exact Int.emod_eq_of_lt (by omega) (by omega)
        rw [hr]
        have : 2 * (x + pow2 e) ≥ pow2 e := by omega
        simp only [this, if_true]
        have : x + pow2 e - pow2 e = x := by omega
        rw [this]
        exact tri_eq ⟨hx1, hx2⟩
    · rename_i hlt
      have hb := hb2 hs
      have htb := IntTy.signed_tight_or_big w hs
      have hmle : 2 * pow2 (e - 1) ≤ t.half := by
        rw [← hee]; exact pow2_le_half (by omega)
      have key := emod_two_mul x (show 0 < pow2 (e - 1) by omega)
      rw [hee, key]
      obtain ⟨_, r0, r1⟩ := ediv_emod_pos x (show 0 < pow2 (e - 1) by omega)
      have hbeq : ((x / pow2 (e - 1)) % 2 == 1) = decide ((x / pow2 (e - 1)) % 2 = 1) := by
        by_cases h : (x / pow2 (e - 1)) % 2 = 1 <;> simp [h]
      rw [hbeq]
      generalize x % pow2 (e - 1) = r at *
      generalize pow2 (e - 1) = m at *
      by_cases hbit : (x / m) % 2 = 1
      · simp only [hbit, decide_true, if_true]
        have : 2 * (r + m) ≥ 2 * m := by omega
        simp only [this, if_true]
        have : r + m - 2 * m = r - m := by omega
        rw [this]
        have h4 := e4
        exact tri_eq ⟨by omega, by omega⟩
      · simp only [hbit, decide_false, Bool.false_eq_true, if_false, Int.add_zero, Int.sub_zero]
        have : ¬ (2 * r ≥ 2 * m) := by omega
        simp only [this, if_false]
        exact tri_eq ⟨by omega, by omega⟩

end PPLV.Checked
