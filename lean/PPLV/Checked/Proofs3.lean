import PPLV.Checked.Proofs2
/-!
# C11 proofs, part 3: multiplication (division-based overflow tests and the `Larger<T>` path),
fused multiply-add / multiply-subtract
-/
namespace PPLV.Checked
open Result

/-! ### truncating division against a product, by sign case -/

theorem tdiv_pos_pos {m x y : Int} (hm : 0 ≤ m) (hy : 0 < y) : x ≤ m.tdiv y ↔ x * y ≤ m := by
  rw [Int.tdiv_eq_ediv_of_nonneg hm]; exact Int.le_ediv_iff_mul_le hy

theorem tdiv_neg_neg {m x y : Int} (hm : m ≤ 0) (hy : y < 0) : x ≤ m.tdiv y ↔ m ≤ x * y := by
  have e : m.tdiv y = (-m).tdiv (-y) := by rw [Int.neg_tdiv, Int.tdiv_neg]; omega
  rw [e, Int.tdiv_eq_ediv_of_nonneg (by omega), Int.le_ediv_iff_mul_le (by omega)]
  constructor <;> intro h <;> nlinarith

theorem tdiv_pos_neg {m x y : Int} (hm : 0 ≤ m) (hy : y < 0) : m.tdiv y ≤ x ↔ x * y ≤ m := by
  have e : m.tdiv y = -(m.tdiv (-y)) := by rw [Int.tdiv_neg]; omega
  rw [e, Int.tdiv_eq_ediv_of_nonneg hm]
  have := @Int.le_ediv_iff_mul_le (-x) m (-y) (by omega)
  constructor
  · intro h; have := this.mp (by omega); nlinarith
  · intro h; have := this.mpr (by nlinarith); omega

theorem tdiv_neg_pos {m x y : Int} (hm : m ≤ 0) (hy : 0 < y) : m.tdiv y ≤ x ↔ m ≤ x * y := by
  have e : m.tdiv y = -((-m).tdiv y) := by rw [Int.neg_tdiv]; omega
  rw [e, Int.tdiv_eq_ediv_of_nonneg (by omega)]
  have := @Int.le_ediv_iff_mul_le (-x) (-m) y hy
  constructor
  · intro h; have := this.mp (by omega); nlinarith
  · intro h; have := this.mpr (by nlinarith); omega

/-! ## mul -/

theorem mulLarger_tri {t : IntTy} {π : Policy} (w : t.WF π) (hl : t.LargerW) (hco : π.checkOverflow = true)
    (dir : Dir) {to0 x y : Int} (h0 : t.inRange to0) (hx : t.finite π x) (hy : t.finite π y) :
    Tri t π dir to0 (mulLarger t π to0 x y dir) (x * y) := by
  unfold mulLarger
  apply assignInt_tri w (larger_wf hl _ π) hco (larger_gap hl _) dir h0
  obtain ⟨bx1, bx2⟩ := IntTy.finite_bounds hx
  obtain ⟨by1, by2⟩ := IntTy.finite_bounds hy
  have hp := t.half_pos
  cases hs : t.signed
  · apply larger_finite_unsigned w.bits_pos hl
    obtain ⟨h1, h2, h3⟩ := larger_half w.bits_pos hl false
    have ⟨a1, a2⟩ := bx2 hs; have ⟨c1, c2⟩ := by2 hs
    generalize t.half = H at *
    generalize (t.larger false).half = L at *
    constructor
    · exact Int.mul_nonneg a1 c1
    · rcases (by omega : H = 1 ∨ 2 ≤ H) with h | h
      · subst h
        have : x * y ≤ 1 * 1 := Int.mul_le_mul (by omega) (by omega) c1 (by omega)
        omega
      · have : x * y ≤ (2 * H - 1) * (2 * H - 1) := Int.mul_le_mul a2 c2 c1 (by omega)
        nlinarith
  · apply larger_finite_signed w.bits_pos hl
    obtain ⟨h1, h2, h3⟩ := larger_half w.bits_pos hl true
    have ⟨a1, a2⟩ := bx1 hs; have ⟨c1, c2⟩ := by1 hs
    generalize t.half = H at *
    generalize (t.larger true).half = L at *
    have hub : x * y ≤ H * H := by nlinarith
    have hlb : -(H * H) ≤ x * y := by nlinarith
    rcases (by omega : H = 1 ∨ 2 ≤ H) with h | h
    · subst h; omega
    · constructor <;> nlinarith

theorem mulSigned_tri {t : IntTy} {π : Policy} (w : t.WF π) (hs : t.signed = true) (hl : t.LargerOK)
    (hco : π.checkOverflow = true) (dir : Dir) {to0 x y : Int} (h0 : t.inRange to0)
    (hx : t.finite π x) (hy : t.finite π y) :
    Tri t π dir to0 (mulSigned t π to0 x y dir) (x * y) := by
  obtain ⟨hmin, hmax⟩ := IntTy.emin_le_emax w
  unfold mulSigned
  simp only [hco, Bool.true_and, Bool.not_true, Bool.false_eq_true, if_false, beq_iff_eq]
  split
  · rename_i hu; exact mulLarger_tri w (hl.of_mul hu) hco dir h0 hx hy
  · split
    · rename_i hy0; subst hy0
      simpa using tri_eq (v := 0) ⟨hmin, hmax⟩
    · split
      · rename_i hy1; subst hy1
        have := negSigned_tri w hs hl hco dir h0 hx
        simpa [Int.mul_neg, Int.mul_one] using this
      · rename_i hy0 hy1
        split
        · rename_i hx0
          split
          · rename_i hypos
            split
            · rename_i hc
              apply tri_pos
              have := (@tdiv_pos_pos (t.emax π) x y hmax hypos).not.mp (by omega)
              omega
            · rename_i hc
              apply tri_eq
              have := (@tdiv_pos_pos (t.emax π) x y hmax hypos).mp (by omega)
              have : 0 ≤ x * y := Int.mul_nonneg hx0 (by omega)
              constructor <;> omega
          · rename_i hyneg
            have hyneg' : y < 0 := by omega
            split
            · rename_i hc
              apply tri_neg
              have := (@tdiv_neg_neg (t.emin π) x y hmin hyneg').not.mp (by omega)
              omega
            · rename_i hc
              apply tri_eq
              have := (@tdiv_neg_neg (t.emin π) x y hmin hyneg').mp (by omega)
              have : x * y ≤ 0 := by nlinarith
              constructor <;> omega
        · rename_i hx0
          split
          · rename_i hyneg
            split
            · rename_i hc
              apply tri_pos
              have := (@tdiv_pos_neg (t.emax π) x y hmax hyneg).not.mp (by omega)
              omega
            · rename_i hc
              apply tri_eq
              have := (@tdiv_pos_neg (t.emax π) x y hmax hyneg).mp (by omega)
              have : 0 ≤ x * y := by nlinarith
              constructor <;> omega
          · rename_i hyneg
            have hypos : 0 < y := by omega
            split
            · rename_i hc
              apply tri_neg
              have := (@tdiv_neg_pos (t.emin π) x y hmin hypos).not.mp (by omega)
              omega
            · rename_i hc
              apply tri_eq
              have := (@tdiv_neg_pos (t.emin π) x y hmin hypos).mp (by omega)
              have : x * y ≤ 0 := by nlinarith
              constructor <;> omega

theorem mulUnsigned_tri {t : IntTy} {π : Policy} (w : t.WF π) (hs : t.signed = false) (hl : t.LargerOK)
    (hco : π.checkOverflow = true) (dir : Dir) {to0 x y : Int} (h0 : t.inRange to0)
    (hx : t.finite π x) (hy : t.finite π y) :
    Tri t π dir to0 (mulUnsigned t π to0 x y dir) (x * y) := by
  obtain ⟨hmin, hmax⟩ := IntTy.emin_le_emax w
  have e : t.emin π = 0 := by simp [IntTy.emin, IntTy.cmin, hs]
  have hx0 := hx.1; have hy0 := hy.1
  unfold mulUnsigned
  simp only [hco, Bool.true_and, Bool.not_true, Bool.false_eq_true, if_false, beq_iff_eq]
  split
  · rename_i hu; exact mulLarger_tri w (hl.of_mul hu) hco dir h0 hx hy
  · split
    · rename_i hz; subst hz
      simpa using tri_eq (v := 0) ⟨hmin, hmax⟩
    · rename_i hz
      have hypos : 0 < y := by omega
      split
      · apply tri_pos
        have := (@tdiv_pos_pos (t.emax π) x y hmax hypos).not.mp (by omega)
        omega
      · apply tri_eq
        have := (@tdiv_pos_pos (t.emax π) x y hmax hypos).mp (by omega)
        have : 0 ≤ x * y := Int.mul_nonneg (by omega) (by omega)
        constructor <;> omega

theorem mul_tri {t : IntTy} {π : Policy} (w : t.WF π) (hl : t.LargerOK)
    (hco : π.checkOverflow = true) (dir : Dir) {to0 x y : Int} (h0 : t.inRange to0)
    (hx : t.finite π x) (hy : t.finite π y) :
    Tri t π dir to0 (mul t π to0 x y dir) (x * y) := by
  unfold mul
  cases hs : t.signed
  · simpa using mulUnsigned_tri w hs hl hco dir h0 hx hy
  · simpa using mulSigned_tri w hs hl hco dir h0 hx hy

end PPLV.Checked
