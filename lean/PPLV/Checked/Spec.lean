import PPLV.Checked.Model
/-!
# C11 — the exact (mathematical) result of every operation, its contract, and an executable
decision of `K4.holds` / `K4.directed` / `K4.overflowHolds` (no Mathlib; linked into `pplv_c11`)

`Exact` is what the checker compares a stored integer against: a fraction `n / d` (`d > 0`), the
real square root of a non-negative integer, an infinity or "not a number".  Only comparisons
of an exact value with an *integer* are ever needed (stored values are integers), and those
are decided by cross-multiplication resp. squaring — no rational or real arithmetic at run
time.  `PPLV/Checked/ProofsSpec.lean` proves these decisions equal to `K4.holds` … over `ℚ`.
-/
namespace PPLV.Checked

inductive Exact
  | nan | minf | pinf
  | frac (n : Int) (d : Int)     -- n / d, d > 0
  | sqrt (n : Int) (d : Int)     -- the real √(n/d), n ≥ 0, d > 0
deriving DecidableEq, Repr, Inhabited

namespace Exact
def ofInt (n : Int) : Exact := frac n 1
def ofExt : Ext Int → Exact
  | .nan => nan | .minf => minf | .pinf => pinf | .fin a => ofInt a

/-- how the exact value compares with the integer `s` -/
def cmpInt : Exact → Int → Option Ordering
  | nan, _ => none
  | minf, _ => some .lt
  | pinf, _ => some .gt
  | frac n d, s => some (compare n (s * d))
  | sqrt n d, s => if s < 0 then some .gt else some (compare n (s * s * d))

/-- how the exact value compares with an extended integer -/
def cmpExt (e : Exact) (v : Ext Int) : Option Ordering :=
  match e, v with
  | nan, _ => none
  | _, .nan => none
  | minf, .minf => some .eq
  | minf, _ => some .lt
  | pinf, .pinf => some .eq
  | pinf, _ => some .gt
  | _, .minf => some .gt
  | _, .pinf => some .lt
  | e, .fin s => e.cmpInt s

def isNan : Exact → Bool | nan => true | _ => false
end Exact

/-! ## extended integer arithmetic (the documented conventions for infinities) -/
namespace Ext
def negI : Ext Int → Ext Int
  | nan => nan | minf => pinf | pinf => minf | fin a => fin (-a)
def absI : Ext Int → Ext Int
  | nan => nan | minf => pinf | pinf => pinf | fin a => fin (if a < 0 then -a else a)
def addI : Ext Int → Ext Int → Ext Int
  | nan, _ => nan | _, nan => nan
  | minf, pinf => nan | pinf, minf => nan
  | minf, _ => minf | _, minf => minf
  | pinf, _ => pinf | _, pinf => pinf
  | fin a, fin b => fin (a + b)
def subI (a b : Ext Int) : Ext Int := addI a (negI b)
/-- sign of an extended integer: -1, 0, 1 (NaN: 0) -/
def sgnI : Ext Int → Int
  | nan => 0 | minf => -1 | pinf => 1 | fin a => if a < 0 then -1 else if a > 0 then 1 else 0
def isInf : Ext Int → Bool | minf => true | pinf => true | _ => false
def mulI : Ext Int → Ext Int → Ext Int
  | nan, _ => nan | _, nan => nan
  | fin a, fin b => fin (a * b)
  | a, b =>   -- at least one infinity
    let s := sgnI a * sgnI b
    if s < 0 then minf else if s > 0 then pinf else nan
end Ext

/-- the exact result of an operation on the values its operands denote -/
def exactDiv (a b : Ext Int) : Exact :=
  match a, b with
  | .nan, _ => .nan | _, .nan => .nan
  | .fin x, .fin y => if y == 0 then .nan else if y < 0 then .frac (-x) (-y) else .frac x y
  | .fin _, _ => Exact.ofInt 0
  | a, .fin y => if y == 0 then .nan else if (Ext.sgnI a) * y < 0 then .minf else .pinf
  | _, _ => .nan

def exactIdiv (a b : Ext Int) : Exact :=
  match a, b with
  | .fin x, .fin y => if y == 0 then .nan else Exact.ofInt (x.tdiv y)
  | a, b => exactDiv a b

def exactRem (a b : Ext Int) : Exact :=
  match a, b with
  | .nan, _ => .nan | _, .nan => .nan
  | .fin x, .fin y => if y == 0 then .nan else Exact.ofInt (x.tmod y)
  | .fin x, _ => Exact.ofInt x
  | _, _ => .nan

/-- signed residue modulo `2^e` in `[-2^(e-1), 2^(e-1))` -/
def smodInt (x : Int) (e : Nat) : Int :=
  let r := x % pow2 e
  if 2 * r ≥ pow2 e then r - pow2 e else r

def exactSmod (a : Ext Int) (e : Nat) : Exact :=
  match a with | .fin x => Exact.ofInt (smodInt x e) | _ => .nan
def exactUmod (a : Ext Int) (e : Nat) : Exact :=
  match a with | .fin x => Exact.ofInt (x % pow2 e) | _ => .nan

def exactSqrt (a : Ext Int) : Exact :=
  match a with
  | .nan => .nan | .minf => .nan | .pinf => .pinf
  | .fin x => if x < 0 then .nan else .sqrt x 1

def exactGcd (a b : Ext Int) : Exact :=
  match a, b with
  | .nan, _ => .nan | _, .nan => .nan
  | .fin x, .fin y => Exact.ofInt (Int.gcd x y)
  | .fin x, _ => Exact.ofExt (Ext.absI (.fin x))      -- gcd(x, ±∞) = |x|  (the convention of gcd_ext)
  | _, b => Exact.ofExt (Ext.absI b)                   -- gcd(±∞, y) = |y|

def exactLcm (a b : Ext Int) : Exact :=
  match a, b with
  | .nan, _ => .nan | _, .nan => .nan
  | .fin x, .fin y => Exact.ofInt (Int.lcm x y)
  | _, _ => .pinf

def IntOp.exact (t : IntTy) (π : Policy) (op : IntOp) (a : Operands) : Exact :=
  let x := t.denote π a.x
  let y := t.denote π a.y
  let z := t.denote π a.to0
  let p : Ext Int := .fin (pow2 a.e)
  match op with
  | .assign f πf => Exact.ofExt (f.denote πf a.x)
  | .neg => Exact.ofExt (Ext.negI x)
  | .abs => Exact.ofExt (Ext.absI x)
  | .add => Exact.ofExt (Ext.addI x y)
  | .sub => Exact.ofExt (Ext.subI x y)
  | .mul => Exact.ofExt (Ext.mulI x y)
  | .div => exactDiv x y
  | .idiv => exactIdiv x y
  | .rem => exactRem x y
  | .addMul => Exact.ofExt (Ext.addI z (Ext.mulI x y))
  | .subMul => Exact.ofExt (Ext.subI z (Ext.mulI x y))
  | .add2exp => Exact.ofExt (Ext.addI x p)
  | .sub2exp => Exact.ofExt (Ext.subI x p)
  | .mul2exp => Exact.ofExt (Ext.mulI x p)
  | .div2exp => exactDiv x p
  | .smod2exp => exactSmod x a.e
  | .umod2exp => exactUmod x a.e
  | .sqrt => exactSqrt x
  | .gcd => exactGcd x y
  | .lcm => exactLcm x y

/-- **Contract** of a call: the operands are bit patterns of the type, and every condition that a
`check_*` flag of the policy leaves to the caller (`CHECK_P(false, c)` is `assert(!c)`) holds. -/
def IntOp.pre (t : IntTy) (π : Policy) (op : IntOp) (a : Operands) : Bool :=
  let x := t.denote π a.x
  let y := t.denote π a.y
  let z := t.denote π a.to0
  let inR (v : Int) : Bool := decide (t.cmin ≤ v) && decide (v ≤ t.cmax)
  let opposite (u v : Ext Int) : Bool := (u == .minf && v == .pinf) || (u == .pinf && v == .minf)
  let same (u v : Ext Int) : Bool := (u == .minf && v == .minf) || (u == .pinf && v == .pinf)
  let finZero (v : Ext Int) : Bool := v == .fin 0
  match op with
  | .assign f _ => decide (f.cmin ≤ a.x) && decide (a.x ≤ f.cmax) && inR a.to0
  | .neg | .abs => inR a.x && inR a.to0
  | .add => inR a.x && inR a.y && inR a.to0 && (π.checkInfAddInf || !opposite x y)
  | .sub => inR a.x && inR a.y && inR a.to0 && (π.checkInfSubInf || !same x y)
  | .mul => inR a.x && inR a.y && inR a.to0
  | .div | .idiv => inR a.x && inR a.y && inR a.to0 && (π.checkDivZero || !(finZero y && x.isFin))
                    && (π.checkInfDivInf || !(x.isInf && y.isInf))
  | .rem => inR a.x && inR a.y && inR a.to0 && (π.checkDivZero || !(finZero y && x.isFin)) && (π.checkInfMod || !x.isInf)
  | .addMul => inR a.x && inR a.y && inR a.to0 && (π.checkInfAddInf || !opposite z (Ext.mulI x y))
  | .subMul => inR a.x && inR a.y && inR a.to0 && (π.checkInfSubInf || !same z (Ext.mulI x y))
  | .add2exp | .sub2exp | .mul2exp | .div2exp => inR a.x && inR a.to0 && (π.checkOverflow || decide (a.e < t.bits))
  | .smod2exp => inR a.x && inR a.to0 && decide (1 ≤ a.e) && (π.checkInfMod || !x.isInf)
  | .umod2exp => inR a.x && inR a.to0 && (π.checkInfMod || !x.isInf)
  | .sqrt => inR a.x && inR a.to0 && (π.checkSqrtNeg || !(match x with | .fin v => decide (v < 0) | _ => false))
  | .gcd | .lcm => inR a.x && inR a.y && inR a.to0

/-! ## executable K4 -/
namespace K4

def relHoldsB (rel : Rel) (exact : Exact) (v : Ext Int) : Bool :=
  match exact.cmpExt v with
  | some .lt => rel.lt
  | some .eq => rel.eq
  | some .gt => rel.gt
  | none => rel == Rel.EMPTY && exact.isNan

def holdsB (r : Result) (stored : Ext Int) (exact : Exact) : Bool :=
  match r.cls with
  | .nan => r.reason == 10 || r.reason == 11 || exact.isNan
  | .minf => (r.unrep || stored == .minf) && relHoldsB r.rel exact .minf
  | .pinf => (r.unrep || stored == .pinf) && relHoldsB r.rel exact .pinf
  | .normal => !r.unrep && (match stored with | .fin _ => true | _ => false) && relHoldsB r.rel exact stored

def ltB (exact : Exact) (v : Ext Int) : Bool := exact.cmpExt v == some .lt
def gtB (exact : Exact) (v : Ext Int) : Bool := exact.cmpExt v == some .gt
def leB (exact : Exact) (v : Ext Int) : Bool := exact.cmpExt v == some .lt || exact.cmpExt v == some .eq
def geB (exact : Exact) (v : Ext Int) : Bool := exact.cmpExt v == some .gt || exact.cmpExt v == some .eq

def overflowHoldsB (r : Result) (lo hi : Int) (exact : Exact) : Bool :=
  (!(r.cls == .normal && r.overflow && r.rel == Rel.LT) || ltB exact (.fin lo)) &&
  (!(r.cls == .normal && r.overflow && r.rel == Rel.GT) || gtB exact (.fin hi)) &&
  (!(r.cls == .pinf && r.rel == Rel.LT) || gtB exact (.fin hi)) &&
  (!(r.cls == .minf && r.rel == Rel.GT) || ltB exact (.fin lo))

def directedB (dir : Dir) (r : Result) (stored : Ext Int) (exact : Exact) : Bool :=
  r.unrep || r.cls == .nan ||
    ((dir != Dir.up || leB exact stored) && (dir != Dir.down || geB exact stored))

end K4

/-- when a NaN-class result is returned and the policy has a NaN, a NaN must have been stored;
a stored value is always a bit pattern of the type (no wrap) -/
def storedOK (t : IntTy) (π : Policy) (stored : Int) (r : Result) : Bool :=
  decide (t.cmin ≤ stored) && decide (stored ≤ t.cmax) &&
  (!(r.cls == .nan && π.hasNan) || t.isNan π stored)

/-! ## conversions from GMP integers / rationals and from binary floating point -/
section conv
open Result

/-- `assign_signed_int_mpz` / `assign_unsigned_int_mpz`, by their effect: a range test on the value
(the code tests `fits_slong_p` / the limb count first; with `check_overflow` the outcome is this) -/
def assignMpz (t : IntTy) (π : Policy) (to0 v : Int) (dir : Dir) : Int × Result :=
  if π.checkOverflow && v < t.emin π then setNegOverflow t π to0 dir
  else if π.checkOverflow && v > t.emax π then setPosOverflow t π to0 dir
  else (v, V_EQ)

/-- `assign_int_mpq` (canonical rational `n / d`, `d > 0`) -/
def assignMpq (t : IntTy) (π : Policy) (to0 n d : Int) (dir : Dir) : Int × Result :=
  let zr := assignMpz t π to0 (n.tdiv d) dir
  if zr.2 != V_EQ then zr
  else if dir.notRequested then (zr.1, V_LGE)
  else if n.tmod d < 0 then roundLt t π zr.1 dir
  else if n.tmod d > 0 then roundGt t π zr.1 dir
  else (zr.1, V_EQ)

/-- an integer rounded up (toward +∞) to `p` significant bits: its image under conversion to a binary
floating-point format with a `p`-bit significand in the upward rounding mode -/
def fpUp (p : Nat) (m : Int) : Int :=
  let a := m.natAbs
  if a == 0 then 0
  else
    let bl := a.log2 + 1
    if bl ≤ p then m
    else
      let k := bl - p
      if m > 0 then -((-m) / pow2 k) * pow2 k else -(((a : Int) / pow2 k) * pow2 k)

end conv

/-! ## the concrete types of this platform and the policies of the library (witnesses, examples;
the driver reads the actual constants from the harness's `cfg` lines) -/
namespace IntTy
def i8 : IntTy := { bits := 8, signed := true, useNeg := true, useAdd := true, useSub := true, useMul := true, lbits := 64 }
def u8 : IntTy := { bits := 8, signed := false, useNeg := true, useAdd := true, useSub := true, useMul := true, lbits := 64 }
def i32 : IntTy := { bits := 32, signed := true, useNeg := true, useAdd := true, useSub := true, useMul := true, lbits := 64 }
def i64 : IntTy := { bits := 64, signed := true, lbits := 64 }
def u64 : IntTy := { bits := 64, signed := false, lbits := 64 }
end IntTy
namespace Policy
/-- `Check_Overflow_Policy<T>` and `Bounded_Integer_Coefficient_Policy` for an integer `T` -/
def checkOverflowOnly : Policy :=
  { checkOverflow := true, checkInfAddInf := false, checkInfSubInf := false, checkInfMulZero := false,
    checkDivZero := false, checkInfDivInf := false, checkInfMod := false, checkSqrtNeg := false,
    hasNan := false, hasInfinity := false }
/-- `Extended_Number_Policy` and `WRD_Extended_Number_Policy` -/
def extended : Policy := { checkOverflowOnly with hasNan := true, hasInfinity := true }
/-- `Debug_WRD_Extended_Number_Policy` -/
def debugExtended : Policy :=
  { checkOverflow := true, checkInfAddInf := true, checkInfSubInf := true, checkInfMulZero := true,
    checkDivZero := true, checkInfDivInf := true, checkInfMod := true, checkSqrtNeg := true,
    hasNan := true, hasInfinity := true }
end Policy

end PPLV.Checked
