import PPLV.Checked.Spec
/-!
# C11 — the repaired variants of the four defective integer primitives (no Mathlib)

`fixes/fix_c11_*.diff` repair KF-C11-1 … KF-C11-4 in `src/checked_int_inlines.hh`.  Until they are
committed to /repo the theorems of `Props/C11.lean` are about the code as it is (`IntOp.run`); the
harness measures, on the witness of each finding, whether the tree it was compiled against is
repaired (`cfg fix <name> <0|1>`), and the driver compares the library with `IntOp.runF fx`, which
follows the repaired source for the switches that are on.  `IntOp.runF {} = IntOp.run`.
-/
namespace PPLV.Checked
open Result

structure Fixes where
  div : Bool := false       -- KF-C11-1 div_signed_int
  subMul : Bool := false    -- KF-C11-2 sub_mul_int
  umod : Bool := false      -- KF-C11-3 umod_2exp_signed_int
  isqrt : Bool := false     -- KF-C11-4 isqrt_rem
deriving Repr, DecidableEq, Inhabited

/-- `div_signed_int` repaired: the truncated quotient is above the exact one iff remainder and
divisor have opposite signs -/
def divSignedF (t : IntTy) (π : Policy) (to0 x y : Int) (dir : Dir) : Int × Result :=
  if π.checkDivZero && y == 0 then assignNan t π to0 V_DIV_ZERO
  else if π.checkOverflow && y == -1 then negSigned t π to0 x dir
  else
    let to := x.tdiv y
    if dir.notRequested then (to, V_LGE)
    else if y == -1 then (to, V_EQ)
    else
      let m := x.tmod y
      if m == 0 then (to, V_EQ)
      else if decide (m < 0) != decide (y < 0) then roundLtNoOverflow to dir
      else roundGtNoOverflow to dir

def divF (t : IntTy) (π : Policy) (to0 x y : Int) (dir : Dir) : Int × Result :=
  if t.signed then divSignedF t π to0 x y dir else divUnsigned t π to0 x y dir

/-- `sub_mul_int` repaired: after a positive overflow of the product, `to - z` is below `min` when
`to < 0`, and for `to = 0` exactly when the finite range is not the asymmetric one (`min + max ≥ 0`) -/
def subMulF (t : IntTy) (π : Policy) (to0 x y : Int) (dir : Dir) : Int × Result :=
  let zr := mul t π 0 x y dir
  let ov := zr.2.resultOverflow
  if ov == 0 then sub t π to0 to0 (t.wrap zr.1) dir
  else if ov == -1 then
    if to0 ≥ 0 then setPosOverflow t π to0 dir else assignNan t π to0 V_UNKNOWN_NEG_OVERFLOW
  else
    if to0 < 0 || (to0 == 0 && decide (t.emin π + t.emax π ≥ 0)) then setNegOverflow t π to0 dir
    else assignNan t π to0 V_UNKNOWN_POS_OVERFLOW

/-- `umod_2exp_signed_int` repaired: a result above `max` is a positive overflow -/
def umod2expSignedF (t : IntTy) (π : Policy) (to0 x : Int) (e : Nat) (dir : Dir) : Int × Result :=
  if e ≥ t.bits then
    if x < 0 then setPosOverflow t π to0 dir else (x, V_EQ)
  else
    let v := x % pow2 e
    if v > t.emax π then setPosOverflow t π to0 dir else (v, V_EQ)

def umod2expF (t : IntTy) (π : Policy) (to0 x : Int) (e : Nat) (dir : Dir) : Int × Result :=
  if t.signed then umod2expSignedF t π to0 x e dir else umod2expUnsigned t π to0 x e dir

/-- `isqrt_rem` repaired: `q = (q >> 1) + t` instead of `q = s + t; q >>= 1` (equal, since `2t` is even,
and never above the root scaled by `t`) -/
def isqrtLoopF (ty : IntTy) : Nat → Int → Int → Int → Int × Int
  | 0, q, r, _ => (q, r)
  | fuel + 1, q, r, tt =>
    if tt == 0 then (q, r)
    else
      let s := ty.wrap (q + tt)
      if s ≤ r then isqrtLoopF ty fuel (ty.wrap (q / 2 + tt)) (ty.wrap (r - s)) (tt / 4)
      else isqrtLoopF ty fuel (q / 2) r (tt / 4)

def isqrtRemF (t : IntTy) (x : Int) : Int × Int := isqrtLoopF t t.bits 0 x (pow2 (t.bits - 2))

def sqrtUnsignedF (t : IntTy) (π : Policy) (_to0 x : Int) (dir : Dir) : Int × Result :=
  let qr := isqrtRemF t x
  if dir.notRequested then (qr.1, V_GE)
  else if qr.2 == 0 then (qr.1, V_EQ)
  else roundGt t π qr.1 dir

def sqrtF (t : IntTy) (π : Policy) (to0 x : Int) (dir : Dir) : Int × Result :=
  if t.signed && π.checkSqrtNeg && x < 0 then assignNan t π to0 V_SQRT_NEG
  else sqrtUnsignedF t π to0 x dir

/-- the bit pattern is one of the special values of the policy -/
def IntTy.special (t : IntTy) (π : Policy) (v : Int) : Bool := t.isNan π v || t.isMinf π v || t.isPinf π v

/-- `IntOp.run` with the switched-on repairs (the extended layer reaches the native primitive exactly
when no operand is a special value) -/
def IntOp.runF (fx : Fixes) (t : IntTy) (π : Policy) (op : IntOp) (dir : Dir) (a : Operands) : Int × Result :=
  match op with
  | .div =>
    if fx.div && !(t.special π a.x || t.special π a.y) then divF t π a.to0 a.x a.y dir
    else IntOp.run t π op dir a
  | .subMul =>
    if fx.subMul && !(t.special π a.to0 || t.special π a.x || t.special π a.y) then subMulF t π a.to0 a.x a.y dir
    else IntOp.run t π op dir a
  | .umod2exp =>
    if fx.umod && !(t.special π a.x) then umod2expF t π a.to0 a.x a.e dir
    else IntOp.run t π op dir a
  | .sqrt =>
    if fx.isqrt && !(t.special π a.x) then sqrtF t π a.to0 a.x dir
    else IntOp.run t π op dir a
  | _ => IntOp.run t π op dir a

theorem IntOp.runF_default (t : IntTy) (π : Policy) (op : IntOp) (dir : Dir) (a : Operands) :
    IntOp.runF {} t π op dir a = IntOp.run t π op dir a := by
  cases op <;> rfl

end PPLV.Checked
