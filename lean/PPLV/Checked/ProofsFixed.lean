import PPLV.Checked.ProofsExt2
import PPLV.Checked.ModelFixed
/-!
# C11 proofs about the REPAIRED primitives (`fixes/fix_c11_*.diff`, `ModelFixed.lean`)

Full-strength versions of the three `_partial` theorems: with the repairs the side conditions
`divBad`, `subMulBad`, `umodBad` disappear.  (Not imported by `Props/C11.lean` while /repo carries the
unrepaired code; when the fixes are committed these replace `divSigned_okq_partial`,
`subMul_ok_partial`, `umod2exp_tri_partial`.)
-/
namespace PPLV.Checked
open Result

theorem div_lt_int_neg {x y s : Int} (hy : y < 0) : ((x : Rat) / y < s) ↔ s * y < x := by
  have hy' : (y : Rat) < 0 := by exact_mod_cast hy
  rw [div_lt_iff_of_neg hy']
  exact_mod_cast Iff.rfl

theorem int_lt_div_neg {x y s : Int} (hy : y < 0) : ((s : Rat) < (x : Rat) / y) ↔ x < s * y := by
  have hy' : (y : Rat) < 0 := by exact_mod_cast hy
  rw [lt_div_iff_of_neg hy']
  exact_mod_cast Iff.rfl

theorem div_eq_int' {x y s : Int} (hy : y ≠ 0) : ((x : Rat) / y = s) ↔ x = s * y := by
  have hy' : (y : Rat) ≠ 0 := by exact_mod_cast hy
  rw [div_eq_iff hy']
  exact_mod_cast Iff.rfl

/-- truncating division, any non-zero divisor: the remainder has the sign of the dividend and is
smaller than the divisor in absolute value -/
theorem tdiv_tmod_any (x : Int) {y : Int} (hy : y ≠ 0) :
    y * x.tdiv y + x.tmod y = x ∧
    (0 ≤ x → 0 ≤ x.tmod y ∧ x.tmod y < y.natAbs) ∧ (x < 0 → -(y.natAbs : Int) < x.tmod y ∧ x.tmod y ≤ 0) ∧
    (0 < y → (0 ≤ x → 0 ≤ x.tdiv y) ∧ (x < 0 → x.tdiv y ≤ 0)) ∧
    (y < 0 → (0 ≤ x → x.tdiv y ≤ 0) ∧ (x < 0 → 0 ≤ x.tdiv y)) := by
  refine ⟨Int.mul_tdiv_add_tmod x y, ?_, ?_, ?_, ?_⟩
  · intro hx
    rcases (by omega : 0 < y ∨ y < 0) with h | h
    · have := (tdiv_tmod_pos x h).2.1 hx; omega
    · have := (tdiv_tmod_pos x (show 0 < -y by omega)).2.1 hx
      rw [Int.tmod_neg] at this; omega
  · intro hx
    rcases (by omega : 0 < y ∨ y < 0) with h | h
    · have := (tdiv_tmod_pos x h).2.2 hx; omega
    · have := (tdiv_tmod_pos x (show 0 < -y by omega)).2.2 hx
      rw [Int.tmod_neg] at this; omega
  · intro h
    exact ⟨fun hx => ((tdiv_tmod_pos x h).2.1 hx).2.2, fun hx => ((tdiv_tmod_pos x h).2.2 hx).2.2⟩
  · intro h
    have a := tdiv_tmod_pos x (show 0 < -y by omega)
    rw [Int.tdiv_neg] at a
    exact ⟨fun hx => by have := (a.2.1 hx).2.2; omega, fun hx => by have := (a.2.2 hx).2.2; omega⟩

/-- **`div_signed_int` repaired — full strength** -/
theorem divSignedF_okq {t : IntTy} {π : Policy} (w : t.WF π) (hs : t.signed = true) (hl : t.LargerOK)
    (hco : π.checkOverflow = true)
    (dir : Dir) {to0 x y : Int} (h0 : t.inRange to0) (hx : t.finite π x) (hy : t.finite π y)
    (hdz : π.checkDivZero = true ∨ y ≠ 0) :
    OKQ t π dir (divSignedF t π to0 x y dir) (divExactQ x y) := by
  unfold divSignedF divExactQ
  by_cases hz : y = 0
  · have hc : π.checkDivZero = true := by rcases hdz with h | h; exact h; exact absurd hz h
    simp only [hz, hc, beq_self_eq_true, Bool.and_self, if_true]
    exact okq_divZero w dir h0
  · have hb : (y == 0) = false := by simpa using hz
    simp only [hb, Bool.and_false, Bool.false_eq_true, if_false, hz, hco, Bool.true_and]
    by_cases hm1 : y = -1
    · subst hm1
      simp only [beq_self_eq_true, if_true]
      have := ok_toQ (tri_ok w h0 (negSigned_tri w hs hl hco dir h0 hx))
      have e : (Ext.fin (-x)).map (Int.cast : Int → Rat) = Ext.fin ((x : Rat) / ((-1 : Int) : Rat)) := by
        simp only [Ext.map]; congr 1; push_cast; rw [div_neg, div_one]
      rw [e] at this
      exact this
    · have hb1 : (y == -1) = false := by simpa using hm1
      simp only [hb1, Bool.false_eq_true, if_false]
      obtain ⟨hfq, hb2⟩ := tdiv_finite w hx hy hz hm1
      obtain ⟨e, p, n, sp, sn⟩ := tdiv_tmod_any x hz
      split
      · rename_i hnr
        refine okq_normal w hfq rfl rfl rfl ?_ ?_ ?_
        · rcases lt_trichotomy ((x : Rat) / (y : Rat)) ((x.tdiv y : Int) : Rat) with h | h | h
          · exact Or.inl ⟨rfl, h⟩
          · exact Or.inr (Or.inl ⟨rfl, h⟩)
          · exact Or.inr (Or.inr ⟨rfl, h⟩)
        · intro h; simp [Dir.notRequested, h] at hnr
        · intro h; simp [Dir.notRequested, h] at hnr
      · by_cases hm : x.tmod y = 0
        · have hxe : x = x.tdiv y * y := by rw [hm] at e; rw [Int.mul_comm]; omega
          have hq : (x : Rat) / (y : Rat) = ((x.tdiv y : Int) : Rat) := (div_eq_int' hz).mpr hxe
          simp only [hm, beq_self_eq_true, if_true]
          exact okq_normal w hfq rfl rfl rfl (Or.inr (Or.inl ⟨rfl, hq⟩)) (fun _ => le_of_eq hq) (fun _ => le_of_eq hq.symm)
        · have hmb : (x.tmod y == 0) = false := by simpa using hm
          simp only [hmb, Bool.false_eq_true, if_false]
          obtain ⟨hmin, hmax⟩ := IntTy.emin_le_emax w
          have hge := IntTy.neg_emin_ge_emax w hs
          obtain ⟨hx1, hx2⟩ := hx
          obtain ⟨hy1, hy2'⟩ := hy
          have hy2 : 2 ≤ y ∨ y ≤ -2 := by omega
          have hb3 := hb2 hy2
          generalize x.tdiv y = q at *
          generalize x.tmod y = m at *
          have mulq : q * y = y * q := Int.mul_comm _ _
          have e1 : (q - 1) * y = y * q - y := by ring
          have e2 : (q + 1) * y = y * q + y := by ring
          rcases (by omega : 0 < y ∨ y < 0) with hyp | hyn
          · -- positive divisor
            have hyabs : (y.natAbs : Int) = y := by omega
            rcases (by omega : 0 ≤ x ∨ x < 0) with hx0 | hx0
            · have ⟨m0, m1⟩ := p hx0
              have ⟨q1, q2⟩ := hb3.1 hx0
              have hq0 := (sp hyp).1 hx0
              have hne : (decide (m < 0) != decide (y < 0)) = false := by
                have a : ¬ m < 0 := by omega
                have b : ¬ y < 0 := by omega
                simp [a, b]
              simp only [hne, Bool.false_eq_true, if_false]
              unfold roundGtNoOverflow
              split
              · rename_i hup
                have hup' : dir = Dir.up := by simpa [Dir.roundUp] using hup
                refine okq_normal w (s := q + 1) ⟨by omega, by omega⟩ rfl rfl rfl
                  (Or.inl ⟨rfl, (div_lt_int (s := q + 1) hyp).mpr (by omega)⟩) ?_ ?_
                · intro _; exact le_of_lt ((div_lt_int (s := q + 1) hyp).mpr (by omega))
                · intro h; rw [hup'] at h; cases h
              · rename_i hup
                refine okq_normal w hfq rfl rfl rfl (Or.inr (Or.inr ⟨rfl, (int_lt_div hyp).mpr (by omega)⟩)) ?_ ?_
                · intro h; simp [Dir.roundUp, h] at hup
                · intro _; exact le_of_lt ((int_lt_div hyp).mpr (by omega))
            · have ⟨m0, m1⟩ := n hx0
              have ⟨q1, q2⟩ := hb3.2 hx0
              have hq0 := (sp hyp).2 hx0
              have hne : (decide (m < 0) != decide (y < 0)) = true := by
                have a : m < 0 := by omega
                have b : ¬ y < 0 := by omega
                simp [a, b]
              simp only [hne, if_true]
              unfold roundLtNoOverflow
              split
              · rename_i hdn
                have hdn' : dir = Dir.down := by simpa [Dir.roundDown] using hdn
                refine okq_normal w (s := q - 1) ⟨by omega, by omega⟩ rfl rfl rfl
                  (Or.inr (Or.inr ⟨rfl, (int_lt_div (s := q - 1) hyp).mpr (by omega)⟩)) ?_ ?_
                · intro h; rw [hdn'] at h; cases h
                · intro _; exact le_of_lt ((int_lt_div (s := q - 1) hyp).mpr (by omega))
              · rename_i hdn
                refine okq_normal w hfq rfl rfl rfl (Or.inl ⟨rfl, (div_lt_int hyp).mpr (by omega)⟩) ?_ ?_
                · intro _; exact le_of_lt ((div_lt_int hyp).mpr (by omega))
                · intro h; simp [Dir.roundDown, h] at hdn
          · -- negative divisor (below -1)
            have hyabs : (y.natAbs : Int) = -y := by omega
            rcases (by omega : 0 ≤ x ∨ x < 0) with hx0 | hx0
            · -- x > 0, y < 0: the quotient is negative, truncation went up
              have ⟨m0, m1⟩ := p hx0
              have ⟨q1, q2⟩ := hb3.1 hx0
              have hne : (decide (m < 0) != decide (y < 0)) = true := by
                have a : ¬ m < 0 := by omega
                have b : y < 0 := by omega
                simp [a, b]
              simp only [hne, if_true]
              have hq0 : q ≤ 0 := (sn hyn).1 hx0
              have hstrict : -x + 1 ≤ 2 * q := by
                have h1 : 0 ≤ (-(y + 2)) * (-q) := Int.mul_nonneg (by omega) (by omega)
                have h2 : (-(y + 2)) * (-q) = y * q + 2 * q := by ring
                omega
              unfold roundLtNoOverflow
              split
              · rename_i hdn
                have hdn' : dir = Dir.down := by simpa [Dir.roundDown] using hdn
                refine okq_normal w (s := q - 1) ⟨by omega, by omega⟩ rfl rfl rfl
                  (Or.inr (Or.inr ⟨rfl, (int_lt_div_neg (s := q - 1) hyn).mpr (by omega)⟩)) ?_ ?_
                · intro h; rw [hdn'] at h; cases h
                · intro _; exact le_of_lt ((int_lt_div_neg (s := q - 1) hyn).mpr (by omega))
              · rename_i hdn
                refine okq_normal w hfq rfl rfl rfl (Or.inl ⟨rfl, (div_lt_int_neg hyn).mpr (by omega)⟩) ?_ ?_
                · intro _; exact le_of_lt ((div_lt_int_neg hyn).mpr (by omega))
                · intro h; simp [Dir.roundDown, h] at hdn
            · -- x < 0, y < 0: the quotient is positive, truncation went down
              have ⟨m0, m1⟩ := n hx0
              have ⟨q1, q2⟩ := hb3.2 hx0
              have hne : (decide (m < 0) != decide (y < 0)) = false := by
                have a : m < 0 := by omega
                have b : y < 0 := by omega
                simp [a, b]
              simp only [hne, Bool.false_eq_true, if_false]
              have hq0 : 0 ≤ q := (sn hyn).2 hx0
              have hstrict : 2 * q + 1 ≤ -x := by
                have h1 : 0 ≤ (-(y + 2)) * q := Int.mul_nonneg (by omega) (by omega)
                have h2 : (-(y + 2)) * q = -(y * q) - 2 * q := by ring
                omega
              have hle : -(t.emin π) ≤ t.emax π + 1 := by
                obtain ⟨hp, hr⟩ := w.half_facts
                unfold IntTy.emin IntTy.emax IntTy.cmin IntTy.cmax b2i
                generalize t.half = H at *
                layout_cases t π
              unfold roundGtNoOverflow
              split
              · rename_i hup
                have hup' : dir = Dir.up := by simpa [Dir.roundUp] using hup
                refine okq_normal w (s := q + 1) ⟨by omega, by omega⟩ rfl rfl rfl
                  (Or.inl ⟨rfl, (div_lt_int_neg (s := q + 1) hyn).mpr (by omega)⟩) ?_ ?_
                · intro _; exact le_of_lt ((div_lt_int_neg (s := q + 1) hyn).mpr (by omega))
                · intro h; rw [hup'] at h; cases h
              · rename_i hup
                refine okq_normal w hfq rfl rfl rfl (Or.inr (Or.inr ⟨rfl, (int_lt_div_neg hyn).mpr (by omega)⟩)) ?_ ?_
                · intro h; simp [Dir.roundUp, h] at hup
                · intro _; exact le_of_lt ((int_lt_div_neg hyn).mpr (by omega))

/-- **`sub_mul_int` repaired — full strength** -/
theorem subMulF_ok {t : IntTy} {π : Policy} (w : t.WF π) (hl : t.LargerOK)
    (hco : π.checkOverflow = true) (dir : Dir) {to0 x y : Int} (h0 : t.finite π to0)
    (hx : t.finite π x) (hy : t.finite π y) :
    OK t π dir (subMulF t π to0 x y dir) (.fin (to0 - x * y)) := by
  have hr0 := IntTy.finite_inRange h0
  have hz : t.inRange 0 := by
    obtain ⟨a, b⟩ := IntTy.emin_le_emax w
    exact IntTy.finite_inRange (π := π) ⟨a, b⟩
  have hge : t.signed = true → t.emax π ≤ -(t.emin π) := IntTy.neg_emin_ge_emax w
  have hle : -(t.emin π) ≤ t.emax π + 1 ∨ t.signed = false := by
    cases hs : t.signed
    · exact Or.inr rfl
    · left
      obtain ⟨hp, hr⟩ := w.half_facts
      unfold IntTy.emin IntTy.emax IntTy.cmin IntTy.cmax b2i
      generalize t.half = H at *
      layout_cases t π
  have hun : t.signed = false → 0 ≤ x * y ∧ t.emin π = 0 := fun hs =>
    ⟨Int.mul_nonneg (by have := (IntTy.finite_bounds hx).2 hs; omega) (by have := (IntTy.finite_bounds hy).2 hs; omega),
     by simp [IntTy.emin, IntTy.cmin, hs]⟩
  unfold subMulF
  rcases mul_tri w hl hco dir hz hx hy with ⟨e, hf⟩ | ⟨he, e⟩ | ⟨he, e⟩
  · rw [e]
    simp only [show (V_EQ).resultOverflow = 0 from rfl, beq_self_eq_true, if_true]
    rw [IntTy.wrap_of_inRange (IntTy.finite_inRange hf)]
    exact tri_ok w hr0 (sub_tri w hl hco dir hr0 h0 (IntTy.finite_inRange hf))
  · rw [e]
    simp only [resultOverflow_setNeg, show ((-1 : Int) == 0) = false from rfl,
      show ((-1 : Int) == -1) = true from rfl, if_true, Bool.false_eq_true, if_false]
    split
    · apply tri_ok w hr0 (tri_pos _)
      cases hs : t.signed
      · have := hun hs; omega
      · have := hge hs; omega
    · exact ok_assignNan w dir hr0 rfl (Or.inl rfl)
  · rw [e]
    simp only [resultOverflow_setPos, show ((1 : Int) == 0) = false from rfl,
      show ((1 : Int) == -1) = false from rfl, Bool.false_eq_true, if_false]
    split
    · rename_i hc
      apply tri_ok w hr0 (tri_neg _)
      simp only [Bool.or_eq_true, decide_eq_true_eq, Bool.and_eq_true, beq_iff_eq] at hc
      have h01 := h0.1
      rcases hc with hc | ⟨hc1, hc2⟩
      · rcases hle with h | h
        · omega
        · have := hun h; omega
      · omega
    · exact ok_assignNan w dir hr0 rfl (Or.inr (Or.inl rfl))

/-- **`umod_2exp` repaired — full strength** -/
theorem umod2expF_tri {t : IntTy} {π : Policy} (w : t.WF π) (dir : Dir) {to0 x : Int} (e : Nat)
    (hx : t.finite π x) :
    Tri t π dir to0 (umod2expF t π to0 x e dir) (x % pow2 e) := by
  unfold umod2expF
  cases hs : t.signed
  · have := umod2exp_tri_partial w dir (to0 := to0) e hx (Or.inl hs)
    simpa [umod2exp, hs] using this
  · simp only [if_true]
    obtain ⟨es, _⟩ := IntTy.erange_half w
    obtain ⟨e0, e1, e2, e3, _⟩ := es hs
    obtain ⟨hmin, hmax⟩ := IntTy.emin_le_emax w
    have hp := t.half_pos
    have pe := pow2_pos e
    obtain ⟨hx1, hx2⟩ := hx
    obtain ⟨_, em0, em1⟩ := ediv_emod_pos x (show 0 < pow2 e by omega)
    unfold umod2expSignedF
    split
    · rename_i hge
      have h2 := pow2_ge_two_half w.bits_pos hge
      split
      · apply tri_pos
        have : x % pow2 e = x + pow2 e := by
          rw [← Int.add_emod_right]
          exact Int.emod_eq_of_lt (by omega) (by omega)
        omega
      · rw [Int.emod_eq_of_lt (by omega) (by omega)]
        exact tri_eq ⟨hx1, hx2⟩
    · dsimp only
      split
      · exact tri_pos (by omega)
      · exact tri_eq ⟨by omega, by omega⟩

end PPLV.Checked
