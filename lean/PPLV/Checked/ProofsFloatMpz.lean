import PPLV.Checked.ProofsFloat
import PPLV.Checked.FloatModel
/-!
# C11 proofs: `assign_float_mpz` for every binary format

The meaningful-bits test `exponent - zeroes > MANTISSA_BITS` is true exactly when the truncation of the
integer to `MANTISSA_BITS + 1` significant bits loses something; the result code, the direction and the
overflow claims are then true.
-/
namespace PPLV.Checked
open Result

theorem pow2_dvd_pow2 {m n : Nat} (h : m ≤ n) : pow2 m ∣ pow2 n := by
  obtain ⟨k, rfl⟩ := Nat.exists_eq_add_of_le h
  rw [pow2_add]; exact Dvd.intro _ rfl

theorem pow2_lt_pow2 {m n : Nat} (h : m < n) : pow2 m < pow2 n := by
  have h1 : pow2 (m + 1) ≤ pow2 n := pow2_le_pow2 h
  rw [pow2_succ] at h1
  have := pow2_pos m
  omega

/-- the trailing-zero count decides divisibility by a power of two -/
theorem pow2_dvd_iff {a : Int} {z s : Nat} (hz : pow2 z ∣ a) (hz1 : ¬ pow2 (z + 1) ∣ a) : pow2 s ∣ a ↔ s ≤ z := by
  constructor
  · intro h
    by_contra hc
    exact hz1 (Int.dvd_trans (pow2_dvd_pow2 (by omega)) h)
  · intro h
    exact Int.dvd_trans (pow2_dvd_pow2 h) hz

theorem FloatFormat.maxF_lt (f : FloatFormat) (hf : f.mbits ≤ f.emax) : f.maxF < pow2 (f.emax + 1) ∧ 0 < f.maxF := by
  unfold FloatFormat.maxF
  have e : pow2 (f.emax + 1) = pow2 (f.mbits + 1) * pow2 (f.emax - f.mbits) := by
    rw [← pow2_add]; congr 1; omega
  rw [e]
  have h1 := pow2_pos (f.emax - f.mbits)
  have h2 := pow2_pos (f.mbits + 1)
  have h3 : 2 ≤ pow2 (f.mbits + 1) := by rw [pow2_succ]; have := pow2_pos f.mbits; omega
  constructor <;> nlinarith

section outcomes
variable {dir : Dir} {lo hi v s : Int}

/-- all three clauses for one outcome -/
def OKF (dir : Dir) (lo hi : Int) (out : Ext Int × Result) (v : Int) : Prop :=
  K4.holdsF out.2 out.1 (.fin v) ∧ K4.directed dir out.2 out.1 (.fin v) ∧ K4.overflowHolds out.2 lo hi (.fin v)

theorem okF_eq : OKF dir lo hi (.fin v, V_EQ) v := by
  simp [OKF, K4.holdsF, K4.directed, K4.overflowHolds, V_EQ, K4.relHolds, Rel.EQ, Ext.eqv, Ext.le]

theorem okF_lt (h : v < s) (hd : dir.roundDown = false) : OKF dir lo hi (.fin s, V_LT) v := by
  refine ⟨?_, ?_, ?_⟩
  · simp [K4.holdsF, V_LT, K4.relHolds, Rel.LT, Ext.lt, h]
  · unfold K4.directed; intro _ _
    exact ⟨fun _ => Or.inl h, fun hh => by rw [hh] at hd; cases hd⟩
  · simp [K4.overflowHolds, V_LT]

theorem okF_gt (h : s < v) (hu : dir.roundUp = false) : OKF dir lo hi (.fin s, V_GT) v := by
  refine ⟨?_, ?_, ?_⟩
  · simp [K4.holdsF, V_GT, K4.relHolds, Rel.GT, Ext.lt, h]
  · unfold K4.directed; intro _ _
    exact ⟨fun hh => (by rw [hh] at hu; cases hu), fun _ => Or.inl h⟩
  · simp [K4.overflowHolds, V_GT]

theorem okF_lt_pinf (hd : dir.roundDown = false) : OKF dir lo hi (.pinf, V_LT) v := by
  refine ⟨?_, ?_, ?_⟩
  · simp [K4.holdsF, V_LT, K4.relHolds, Rel.LT, Ext.lt]
  · unfold K4.directed; intro _ _
    exact ⟨fun _ => Or.inl trivial, fun hh => by rw [hh] at hd; cases hd⟩
  · simp [K4.overflowHolds, V_LT]

theorem okF_gt_minf (hu : dir.roundUp = false) : OKF dir lo hi (.minf, V_GT) v := by
  refine ⟨?_, ?_, ?_⟩
  · simp [K4.holdsF, V_GT, K4.relHolds, Rel.GT, Ext.lt]
  · unfold K4.directed; intro _ _
    exact ⟨fun hh => (by rw [hh] at hu; cases hu), fun _ => Or.inl trivial⟩
  · simp [K4.overflowHolds, V_GT]

theorem okF_negOv_fin (h : v < lo) (hd : dir.roundDown = false) : OKF dir lo hi (.fin lo, V_LT_INF) v := by
  refine ⟨?_, ?_, ?_⟩
  · simp [K4.holdsF, V_LT_INF, K4.relHolds, Rel.LT, Ext.lt, h]
  · unfold K4.directed; intro _ _
    exact ⟨fun _ => Or.inl h, fun hh => by rw [hh] at hd; cases hd⟩
  · simp [K4.overflowHolds, V_LT_INF, Rel.LT, Rel.GT, Ext.lt, h]

theorem okF_negOv_inf (h : v < lo) (hu : dir.roundUp = false) : OKF dir lo hi (.minf, V_GT_MINUS_INFINITY) v := by
  refine ⟨?_, ?_, ?_⟩
  · simp [K4.holdsF, K4.holds, V_GT_MINUS_INFINITY, K4.relHolds, Rel.GT, Ext.lt]
  · unfold K4.directed; intro _ _
    exact ⟨fun hh => (by rw [hh] at hu; cases hu), fun _ => Or.inl trivial⟩
  · simp [K4.overflowHolds, V_GT_MINUS_INFINITY, Rel.LT, Rel.GT, Ext.lt, h]

theorem okF_posOv_fin (h : hi < v) (hu : dir.roundUp = false) : OKF dir lo hi (.fin hi, V_GT_SUP) v := by
  refine ⟨?_, ?_, ?_⟩
  · simp [K4.holdsF, V_GT_SUP, K4.relHolds, Rel.GT, Ext.lt, h]
  · unfold K4.directed; intro _ _
    exact ⟨fun hh => (by rw [hh] at hu; cases hu), fun _ => Or.inl h⟩
  · simp [K4.overflowHolds, V_GT_SUP, Rel.LT, Rel.GT, Ext.lt, h]

theorem okF_posOv_inf (h : hi < v) (hd : dir.roundDown = false) : OKF dir lo hi (.pinf, V_LT_PLUS_INFINITY) v := by
  refine ⟨?_, ?_, ?_⟩
  · simp [K4.holdsF, K4.holds, V_LT_PLUS_INFINITY, K4.relHolds, Rel.LT, Ext.lt]
  · unfold K4.directed; intro _ _
    exact ⟨fun _ => Or.inl trivial, fun hh => by rw [hh] at hd; cases hd⟩
  · simp [K4.overflowHolds, V_LT_PLUS_INFINITY, Rel.LT, Rel.GT, Ext.lt, h]

theorem Dir.up_not_down {dir : Dir} (h : dir.roundUp = true) : dir.roundDown = false := by
  cases dir <;> simp_all [Dir.roundUp, Dir.roundDown]
theorem Dir.down_not_up {dir : Dir} (h : dir.roundDown = true) : dir.roundUp = false := by
  cases dir <;> simp_all [Dir.roundUp, Dir.roundDown]

end outcomes

/-- **C11 (float conversions).  `assign_float_mpz` for every format, integer and direction**: the code's
relation between the integer and the stored float is true, directed rounding is honoured, an overflow
claim is true.  `e`, `z` satisfy the specifications of `mpz_sizeinbase(·, 2) - 1` and `mpn_scan1(·, 0)`. -/
theorem assignFloatMpz_ok (f : FloatFormat) (hf : f.mbits ≤ f.emax) (v : Int) (e z : Nat) (dir : Dir)
    (he : v ≠ 0 → pow2 e ≤ (if v < 0 then -v else v) ∧ (if v < 0 then -v else v) < pow2 (e + 1))
    (hz : v ≠ 0 → pow2 z ∣ (if v < 0 then -v else v) ∧ ¬ pow2 (z + 1) ∣ (if v < 0 then -v else v)) :
    OKF dir (-(f.maxF)) f.maxF (f.assignMpz v e z dir) v := by
  unfold FloatFormat.assignMpz FloatFormat.roundLt FloatFormat.roundGt FloatFormat.nextMag
    FloatFormat.setNegOverflow FloatFormat.setPosOverflow
  by_cases hv0 : v = 0
  · subst hv0; simpa using (okF_eq (dir := dir) (lo := -(f.maxF)) (hi := f.maxF) (v := 0))
  have hb : (v == 0) = false := by simpa using hv0
  simp only [hb, Bool.false_eq_true, if_false]
  obtain ⟨ha1, ha2⟩ := he hv0
  obtain ⟨hz0, hz1⟩ := hz hv0
  obtain ⟨hmax, hmaxpos⟩ := f.maxF_lt hf
  by_cases hneg : v < 0
  · -- negative: a = -v
    simp only [hneg, if_true] at ha1 ha2 hz0 hz1 ⊢
    have hva : v = -(-v) := by omega
    generalize -v = a at *
    subst hva
    have hapos : 0 < a := by omega
    by_cases hov : e > f.emax
    · simp only [hov, if_true]
      have hbig : pow2 (f.emax + 1) ≤ a := by
        have := pow2_le_pow2 (show f.emax + 1 ≤ e by omega); omega
      split
      · rename_i hu; exact okF_negOv_fin (by omega) (Dir.up_not_down hu)
      · rename_i hu; exact okF_negOv_inf (by omega) (by simpa using hu)
    · simp only [hov, if_false]
      have hzle : z ≤ e := by
        by_contra hc
        have h1 : pow2 (e + 1) ≤ pow2 z := pow2_le_pow2 (by omega)
        have h2 : pow2 z ≤ a := Int.le_of_dvd hapos hz0
        omega
      by_cases hem : e > f.mbits
      · simp only [hem, if_true]
        have hs : 0 < pow2 (e - f.mbits) := by have := pow2_pos (e - f.mbits); omega
        obtain ⟨ed, r0, r1⟩ := ediv_emod_pos a hs
        have hexact : a % pow2 (e - f.mbits) = 0 ↔ e - f.mbits ≤ z := by
          rw [← pow2_dvd_iff hz0 hz1]; exact (Int.dvd_iff_emod_eq_zero).symm
        generalize a / pow2 (e - f.mbits) = mant at *
        generalize a % pow2 (e - f.mbits) = r at *
        generalize pow2 (e - f.mbits) = S at *
        have mc : mant * S = S * mant := Int.mul_comm _ _
        have mc1 : (mant + 1) * S = S * mant + S := by rw [Int.add_mul, Int.one_mul, mc]
        by_cases hin : e - z > f.mbits
        · simp only [hin, if_true]
          have hr : 0 < r := by
            rcases (by omega : r = 0 ∨ 0 < r) with h | h
            · have := hexact.mp h; omega
            · exact h
          split
          · rename_i hd
            split
            · rename_i m hm
              split at hm
              · cases hm
              · simp only [Ext.fin.injEq] at hm
                subst hm
                exact okF_gt (by omega) (Dir.down_not_up hd)
            · exact okF_gt_minf (Dir.down_not_up hd)
          · rename_i hd
            exact okF_lt (by omega) (by simpa using hd)
        · simp only [hin, if_false]
          have hr : r = 0 := hexact.mpr (by omega)
          have hval : mant * S = a := by omega
          rw [hval]
          exact okF_eq
      · simp only [hem, if_false]
        have hin : ¬ (e - z > f.mbits) := by omega
        simp only [hin, if_false]
        have hp : 0 < pow2 (f.mbits - e) := by have := pow2_pos (f.mbits - e); omega
        have hval : a * pow2 (f.mbits - e) / pow2 (f.mbits - e) = a := Int.mul_ediv_cancel a (by omega)
        rw [hval]
        exact okF_eq
  · -- positive: a = v
    simp only [hneg, if_false] at ha1 ha2 hz0 hz1 ⊢
    have hapos : 0 < v := by omega
    by_cases hov : e > f.emax
    · simp only [hov, if_true]
      have hbig : pow2 (f.emax + 1) ≤ v := by
        have := pow2_le_pow2 (show f.emax + 1 ≤ e by omega); omega
      split
      · rename_i hd; exact okF_posOv_fin (by omega) (Dir.down_not_up hd)
      · rename_i hd; exact okF_posOv_inf (by omega) (by simpa using hd)
    · simp only [hov, if_false]
      have hzle : z ≤ e := by
        by_contra hc
        have h1 : pow2 (e + 1) ≤ pow2 z := pow2_le_pow2 (by omega)
        have h2 : pow2 z ≤ v := Int.le_of_dvd hapos hz0
        omega
      by_cases hem : e > f.mbits
      · simp only [hem, if_true]
        have hs : 0 < pow2 (e - f.mbits) := by have := pow2_pos (e - f.mbits); omega
        obtain ⟨ed, r0, r1⟩ := ediv_emod_pos v hs
        have hexact : v % pow2 (e - f.mbits) = 0 ↔ e - f.mbits ≤ z := by
          rw [← pow2_dvd_iff hz0 hz1]; exact (Int.dvd_iff_emod_eq_zero).symm
        generalize v / pow2 (e - f.mbits) = mant at *
        generalize v % pow2 (e - f.mbits) = r at *
        generalize pow2 (e - f.mbits) = S at *
        have mc : mant * S = S * mant := Int.mul_comm _ _
        have mc1 : (mant + 1) * S = S * mant + S := by rw [Int.add_mul, Int.one_mul, mc]
        by_cases hin : e - z > f.mbits
        · simp only [hin, if_true]
          have hr : 0 < r := by
            rcases (by omega : r = 0 ∨ 0 < r) with h | h
            · have := hexact.mp h; omega
            · exact h
          split
          · rename_i hu
            split
            · exact okF_lt_pinf (Dir.up_not_down hu)
            · exact okF_lt (by omega) (Dir.up_not_down hu)
          · rename_i hu
            exact okF_gt (by omega) (by simpa using hu)
        · simp only [hin, if_false]
          have hr : r = 0 := hexact.mpr (by omega)
          have hval : mant * S = v := by omega
          rw [hval]
          exact okF_eq
      · simp only [hem, if_false]
        have hin : ¬ (e - z > f.mbits) := by omega
        simp only [hin, if_false]
        have hp : 0 < pow2 (f.mbits - e) := by have := pow2_pos (f.mbits - e); omega
        have hval : v * pow2 (f.mbits - e) / pow2 (f.mbits - e) = v := Int.mul_ediv_cancel v (by omega)
        rw [hval]
        exact okF_eq

end PPLV.Checked
