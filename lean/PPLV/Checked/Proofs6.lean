import PPLV.Checked.Proofs5
/-!
# C11 proofs, part 7: `div_2exp` (rational exact result), `umod_2exp`, `smod_2exp`

`umod_2exp_signed_int` with `exp = bits - 1` can produce `2^(bits-1) - 1`, the bit pattern of `+∞`
under a policy with infinities; since /repo f54ddd9 a result above `max` is a positive overflow
(before: stored with `V_EQ`, `C11.umod2exp_holds_before_fix_fails`).
-/
namespace PPLV.Checked
open Result

/-- floor division by a positive number: facts for `omega` -/
theorem ediv_emod_pos (x : Int) {d : Int} (hd : 0 < d) :
    d * (x / d) + x % d = x ∧ 0 ≤ x % d ∧ x % d < d :=
  ⟨Int.mul_ediv_add_emod x d, Int.emod_nonneg x (by omega), Int.emod_lt_of_pos x hd⟩

/-- the shape shared by all branches of `div_2exp_*`: a stored value `s`, a claimed relation, checked
against `x / d` through integer facts -/
theorem okq_div_pos {t : IntTy} {π : Policy} (w : t.WF π) {dir : Dir} {x d s : Int} (hd : 0 < d)
    (hf : t.finite π s) {r : Result} (hc : r.cls = .normal) (hu : r.unrep = false) (ho : r.overflow = false)
    (hrel : (r.rel.lt = true ∧ x < s * d) ∨ (r.rel.eq = true ∧ x = s * d) ∨ (r.rel.gt = true ∧ s * d < x))
    (hup : dir = Dir.up → x ≤ s * d) (hdn : dir = Dir.down → s * d ≤ x) :
    OKQ t π dir (s, r) (.fin ((x : Rat) / (d : Rat))) := by
  have hd' : (0 : Rat) < d := by exact_mod_cast hd
  refine okq_normal w hf hc hu ho ?_ ?_ ?_
  · rcases hrel with ⟨a, b⟩ | ⟨a, b⟩ | ⟨a, b⟩
    · exact Or.inl ⟨a, (div_lt_int hd).mpr b⟩
    · exact Or.inr (Or.inl ⟨a, (div_eq_int hd).mpr b⟩)
    · exact Or.inr (Or.inr ⟨a, (int_lt_div hd).mpr b⟩)
  · intro h
    have := hup h
    rw [div_le_iff₀ hd']; exact_mod_cast this
  · intro h
    have := hdn h
    rw [le_div_iff₀ hd']; exact_mod_cast this

theorem dir_cases (dir : Dir) :
    (dir.notRequested = true ∧ dir ≠ Dir.up ∧ dir ≠ Dir.down) ∨
    (dir = Dir.up ∧ dir.notRequested = false ∧ dir.roundUp = true ∧ dir.roundDown = false) ∨
    (dir = Dir.down ∧ dir.notRequested = false ∧ dir.roundUp = false ∧ dir.roundDown = true) := by
  cases dir <;> simp [Dir.notRequested, Dir.roundUp, Dir.roundDown]

theorem div2exp_okq {t : IntTy} {π : Policy} (w : t.WF π) (dir : Dir) {to0 x : Int} (e : Nat)
    (hx : t.finite π x) :
    OKQ t π dir (div2exp t π to0 x e dir) (.fin ((x : Rat) / ((pow2 e : Int) : Rat))) := by
  obtain ⟨es, eu⟩ := IntTy.erange_half w
  obtain ⟨hmin, hmax⟩ := IntTy.emin_le_emax w
  have hp := t.half_pos
  have pe := pow2_pos e
  have hd : 0 < pow2 e := by omega
  obtain ⟨hx1, hx2⟩ := hx
  obtain ⟨ed, em0, em1⟩ := ediv_emod_pos x hd
  obtain ⟨edn, emn0, emn1⟩ := ediv_emod_pos (-x) hd
  have fz : t.finite π 0 := ⟨hmin, hmax⟩
  -- the non-negative path, shared by the unsigned function and the `x ≥ 0` half of the signed one
  have posPath : ∀ (k : Nat), 0 ≤ x → (k ≤ e → x < pow2 e) →
      OKQ t π dir
        (if e ≥ k then
            (if dir.notRequested = true then (0, V_GE) else if (x == 0) = true then (0, V_EQ) else roundGtNoOverflow 0 dir)
         else
            (if dir.notRequested = true then (x / pow2 e, V_GE)
             else if (x % pow2 e != 0) = true then roundGtNoOverflow (x / pow2 e) dir else (x / pow2 e, V_EQ)))
        (.fin ((x : Rat) / ((pow2 e : Int) : Rat))) := by
    intro k hx0 hbig
    have hq0 : 0 ≤ x / pow2 e := Int.ediv_nonneg hx0 (by omega)
    have hqx : x / pow2 e ≤ x := by nlinarith
    have fq : t.finite π (x / pow2 e) := ⟨by omega, by omega⟩
    generalize x / pow2 e = q at *
    generalize x % pow2 e = m at *
    have mc : q * pow2 e = pow2 e * q := Int.mul_comm _ _
    rcases dir_cases dir with ⟨hn, hnu, hnd⟩ | ⟨rfl, hn, hu, hdn⟩ | ⟨rfl, hn, hu, hdn⟩
    · simp only [hn, if_true]
      split
      · by_cases hz : x = 0
        · exact okq_div_pos w hd fz rfl rfl rfl (Or.inr (Or.inl ⟨rfl, by omega⟩)) (fun h => absurd h hnu) (fun h => absurd h hnd)
        · exact okq_div_pos w hd fz rfl rfl rfl (Or.inr (Or.inr ⟨rfl, by omega⟩)) (fun h => absurd h hnu) (fun h => absurd h hnd)
      · by_cases hz : m = 0
        · exact okq_div_pos w hd fq rfl rfl rfl (Or.inr (Or.inl ⟨rfl, by omega⟩)) (fun h => absurd h hnu) (fun h => absurd h hnd)
        · exact okq_div_pos w hd fq rfl rfl rfl (Or.inr (Or.inr ⟨rfl, by omega⟩)) (fun h => absurd h hnu) (fun h => absurd h hnd)
    · -- ROUND_UP
      simp only [hn, Bool.false_eq_true, if_false, roundGtNoOverflow, hu, if_true]
      split
      · rename_i hge
        have := hbig hge
        split
        · rename_i hz
          have hz : x = 0 := by simpa using hz
          exact okq_div_pos w hd fz rfl rfl rfl (Or.inr (Or.inl ⟨rfl, by omega⟩)) (fun _ => by omega) (fun h => by cases h)
        · rename_i hz
          have hz : x ≠ 0 := by simpa using hz
          exact okq_div_pos w hd (s := 0 + 1) ⟨by omega, by omega⟩ rfl rfl rfl (Or.inl ⟨rfl, by omega⟩)
            (fun _ => by omega) (fun h => by cases h)
      · split
        · rename_i hm
          have hm : m ≠ 0 := by simpa using hm
          have hd2 : 2 ≤ pow2 e := by omega
          have : 2 * q ≤ pow2 e * q := by nlinarith
          have e2 : (q + 1) * pow2 e = pow2 e * q + pow2 e := by ring
          exact okq_div_pos w hd (s := q + 1) ⟨by omega, by omega⟩ rfl rfl rfl (Or.inl ⟨rfl, by omega⟩)
            (fun _ => by omega) (fun h => by cases h)
        · rename_i hm
          have hm : m = 0 := by simpa using hm
          exact okq_div_pos w hd fq rfl rfl rfl (Or.inr (Or.inl ⟨rfl, by omega⟩)) (fun _ => by omega) (fun _ => by omega)
    · -- ROUND_DOWN
      simp only [hn, Bool.false_eq_true, if_false, roundGtNoOverflow, hu]
      split
      · rename_i hge
        split
        · rename_i hz
          have hz : x = 0 := by simpa using hz
          exact okq_div_pos w hd fz rfl rfl rfl (Or.inr (Or.inl ⟨rfl, by omega⟩)) (fun h => by cases h) (fun _ => by omega)
        · rename_i hz
          have hz : x ≠ 0 := by simpa using hz
          exact okq_div_pos w hd fz rfl rfl rfl (Or.inr (Or.inr ⟨rfl, by omega⟩)) (fun h => by cases h) (fun _ => by omega)
      · split
        · rename_i hm
          have hm : m ≠ 0 := by simpa using hm
          exact okq_div_pos w hd fq rfl rfl rfl (Or.inr (Or.inr ⟨rfl, by omega⟩)) (fun h => by cases h) (fun _ => by omega)
        · rename_i hm
          have hm : m = 0 := by simpa using hm
          exact okq_div_pos w hd fq rfl rfl rfl (Or.inr (Or.inl ⟨rfl, by omega⟩)) (fun _ => by omega) (fun _ => by omega)
  unfold div2exp div2expSigned div2expUnsigned
  cases hs : t.signed <;> simp only [Bool.false_eq_true, if_false, if_true]
  · obtain ⟨e0, e1, e2, _⟩ := eu hs
    exact posPath t.bits (by omega) (fun h => by have := pow2_ge_two_half w.bits_pos h; omega)
  · obtain ⟨e0, e1, e2, e3, _⟩ := es hs
    split
    · rename_i hneg
      -- negative operand: the code works on -x
      have hq0 : 0 ≤ (-x) / pow2 e := Int.ediv_nonneg (by omega) (by omega)
      have hqx : (-x) / pow2 e ≤ -x := by nlinarith
      generalize (-x) / pow2 e = q at *
      generalize (-x) % pow2 e = m at *
      have mc : -q * pow2 e = -(pow2 e * q) := by ring
      have fq : t.finite π (-q) := ⟨by omega, by omega⟩
      rcases dir_cases dir with ⟨hn, hnu, hnd⟩ | ⟨rfl, hn, hu, hdn⟩ | ⟨rfl, hn, hu, hdn⟩
      · simp only [hn, if_true]
        split
        · exact okq_div_pos w hd fz rfl rfl rfl (Or.inl ⟨rfl, by omega⟩) (fun h => absurd h hnu) (fun h => absurd h hnd)
        · by_cases hz : m = 0
          · exact okq_div_pos w hd fq rfl rfl rfl (Or.inr (Or.inl ⟨rfl, by omega⟩)) (fun h => absurd h hnu) (fun h => absurd h hnd)
          · exact okq_div_pos w hd fq rfl rfl rfl (Or.inl ⟨rfl, by omega⟩) (fun h => absurd h hnu) (fun h => absurd h hnd)
      · -- ROUND_UP
        simp only [hn, Bool.false_eq_true, if_false, roundLtNoOverflow, hdn]
        split
        · exact okq_div_pos w hd fz rfl rfl rfl (Or.inl ⟨rfl, by omega⟩) (fun _ => by omega) (fun h => by cases h)
        · split
          · rename_i hm
            have hm : m ≠ 0 := by simpa using hm
            exact okq_div_pos w hd fq rfl rfl rfl (Or.inl ⟨rfl, by omega⟩) (fun _ => by omega) (fun h => by cases h)
          · rename_i hm
            have hm : m = 0 := by simpa using hm
            exact okq_div_pos w hd fq rfl rfl rfl (Or.inr (Or.inl ⟨rfl, by omega⟩)) (fun _ => by omega) (fun _ => by omega)
      · -- ROUND_DOWN
        simp only [hn, Bool.false_eq_true, if_false, roundLtNoOverflow, hdn, if_true]
        split
        · rename_i hge
          have := pow2_ge_two_half w.bits_pos hge
          exact okq_div_pos w hd (s := 0 - 1) ⟨by omega, by omega⟩ rfl rfl rfl (Or.inr (Or.inr ⟨rfl, by omega⟩))
            (fun h => by cases h) (fun _ => by omega)
        · split
          · rename_i hm
            have hm : m ≠ 0 := by simpa using hm
            have hd2 : 2 ≤ pow2 e := by omega
            have : 2 * q ≤ pow2 e * q := by nlinarith
            have e2 : (-q - 1) * pow2 e = -(pow2 e * q) - pow2 e := by ring
            exact okq_div_pos w hd (s := -q - 1) ⟨by omega, by omega⟩ rfl rfl rfl (Or.inr (Or.inr ⟨rfl, by omega⟩))
              (fun h => by cases h) (fun _ => by omega)
          · rename_i hm
            have hm : m = 0 := by simpa using hm
            exact okq_div_pos w hd fq rfl rfl rfl (Or.inr (Or.inl ⟨rfl, by omega⟩)) (fun _ => by omega) (fun _ => by omega)
    · rename_i hneg
      refine posPath (t.bits - 1) (by omega) (fun h => ?_)
      have : t.half ≤ pow2 e := by unfold IntTy.half; exact pow2_le_pow2 h
      omega

/-! ## umod_2exp, smod_2exp -/

/-- **`umod_2exp`** (as repaired by /repo f54ddd9: a result above `max` is a positive overflow) -/
theorem umod2exp_tri {t : IntTy} {π : Policy} (w : t.WF π) (dir : Dir) {to0 x : Int} (e : Nat)
    (hx : t.finite π x) :
    Tri t π dir to0 (umod2exp t π to0 x e dir) (x % pow2 e) := by
  obtain ⟨es, eu⟩ := IntTy.erange_half w
  obtain ⟨hmin, hmax⟩ := IntTy.emin_le_emax w
  have hp := t.half_pos
  have pe := pow2_pos e
  have hd : 0 < pow2 e := by omega
  obtain ⟨hx1, hx2⟩ := hx
  obtain ⟨ed, em0, em1⟩ := ediv_emod_pos x hd
  unfold umod2exp umod2expSigned umod2expUnsigned
  cases hs : t.signed <;> simp only [Bool.false_eq_true, if_false, if_true]
  · obtain ⟨e0, e1, e2, _⟩ := eu hs
    have hle : x % pow2 e ≤ x := by
      have : 0 ≤ x / pow2 e := Int.ediv_nonneg (by omega) (by omega)
      nlinarith
    split
    · rename_i hge
      have := pow2_ge_two_half w.bits_pos hge
      rw [Int.emod_eq_of_lt (by omega) (by omega)]
      exact tri_eq ⟨hx1, hx2⟩
    · exact tri_eq ⟨by omega, by omega⟩
  · obtain ⟨e0, e1, e2, e3, _⟩ := es hs
    split
    · rename_i hge
      have h2 := pow2_ge_two_half w.bits_pos hge
      split
      · apply tri_pos
        have : x % pow2 e = x + pow2 e := by
          rw [← Int.add_emod_right]
          exact Int.emod_eq_of_lt (by omega) (by omega)
        omega
      · rw [Int.emod_eq_of_lt (by omega) (by omega)]
        exact tri_eq ⟨hx1, hx2⟩
    · split
      · exact tri_pos (by omega)
      · exact tri_eq ⟨by omega, by omega⟩

end PPLV.Checked
