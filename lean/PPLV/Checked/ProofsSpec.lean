import PPLV.Checked.ProofsExt2
import Mathlib.Order.Compare
/-!
# C11 proofs: the executable K4 of the driver decides `K4.holds` / `K4.directed` / `K4.overflowHolds`

`pplv_c11` evaluates `K4.holdsB`, `K4.directedB`, `K4.overflowHoldsB` on the **real** output of the
library.  For every exact value that is a fraction with a positive denominator, an infinity or NaN
(everything except the square root) these Booleans are equivalent to the propositions over `ℚ`.
-/
namespace PPLV.Checked
open Result

/-- exact values with a rational meaning -/
def Exact.Rational : Exact → Prop
  | .frac _ d => 0 < d
  | .sqrt _ _ => False
  | _ => True

theorem cmpInt_frac {n d s : Int} (hd : 0 < d) :
    ((Exact.frac n d).cmpInt s = some .lt ↔ (n : Rat) / d < s) ∧
    ((Exact.frac n d).cmpInt s = some .eq ↔ (n : Rat) / d = s) ∧
    ((Exact.frac n d).cmpInt s = some .gt ↔ (s : Rat) < (n : Rat) / d) := by
  simp only [Exact.cmpInt, Option.some.injEq]
  rw [div_lt_int hd, div_eq_int hd, int_lt_div hd]
  exact ⟨compare_lt_iff_lt, compare_eq_iff_eq, compare_gt_iff_gt⟩

/-- the comparison computed by the driver is the order of the extended rational line -/
theorem cmpExt_spec {e : Exact} (he : e.Rational) (v : Ext Int) :
    (e.cmpExt v = some .lt ↔ Ext.lt e.toQ (v.map (Int.cast : Int → Rat))) ∧
    (e.cmpExt v = some .eq ↔ Ext.eqv e.toQ (v.map (Int.cast : Int → Rat))) ∧
    (e.cmpExt v = some .gt ↔ Ext.lt (v.map (Int.cast : Int → Rat)) e.toQ) ∧
    (e.cmpExt v = none ↔ e = .nan ∨ v = .nan) := by
  cases e with
  | sqrt n d => exact absurd he (by simp [Exact.Rational])
  | frac n d =>
    have hd : 0 < d := he
    cases v with
    | fin s =>
      obtain ⟨a, b, c⟩ := cmpInt_frac (n := n) (s := s) hd
      simp only [Exact.cmpExt, Exact.toQ, Ext.map, Ext.lt, Ext.eqv]
      refine ⟨a, b, c, ?_⟩
      simp [Exact.cmpInt]
    | nan => simp [Exact.cmpExt, Exact.toQ, Ext.map, Ext.lt, Ext.eqv]
    | minf => simp [Exact.cmpExt, Exact.toQ, Ext.map, Ext.lt, Ext.eqv]
    | pinf => simp [Exact.cmpExt, Exact.toQ, Ext.map, Ext.lt, Ext.eqv]
  | nan => cases v <;> simp [Exact.cmpExt, Exact.toQ, Ext.map, Ext.lt, Ext.eqv]
  | minf => cases v <;> simp [Exact.cmpExt, Exact.toQ, Ext.map, Ext.lt, Ext.eqv]
  | pinf => cases v <;> simp [Exact.cmpExt, Exact.toQ, Ext.map, Ext.lt, Ext.eqv]

theorem toQ_eq_nan {e : Exact} (he : e.Rational) : e.toQ = .nan ↔ e = .nan := by
  cases e <;> simp [Exact.toQ, Exact.Rational] at he ⊢

theorem relHoldsB_iff {e : Exact} (he : e.Rational) (rel : Rel) (v : Ext Int) :
    K4.relHoldsB rel e v = true ↔ K4.relHolds rel e.toQ (v.map (Int.cast : Int → Rat)) := by
  obtain ⟨a, b, c, d⟩ := cmpExt_spec he v
  unfold K4.relHoldsB K4.relHolds
  rw [← a, ← b, ← c, toQ_eq_nan he]
  cases h : e.cmpExt v with
  | none =>
    have hn := d.mp h
    simp only [Bool.and_eq_true, beq_iff_eq]
    constructor
    · rintro ⟨h1, h2⟩
      exact Or.inr (Or.inr (Or.inr ⟨h1, by cases e <;> simp_all [Exact.isNan]⟩))
    · rintro (⟨_, h1⟩ | ⟨_, h1⟩ | ⟨_, h1⟩ | ⟨h1, h2⟩)
      · cases h1
      · cases h1
      · cases h1
      · exact ⟨h1, by rw [h2]; rfl⟩
  | some o =>
    have hnn : ¬ (e = .nan) := fun hh => by
      have := d.mpr (Or.inl hh); rw [h] at this; cases this
    cases o <;> simp [hnn]

theorem holdsB_iff {e : Exact} (he : e.Rational) (r : Result) (stored : Ext Int) :
    K4.holdsB r stored e = true ↔ K4.holds r (stored.map (Int.cast : Int → Rat)) e.toQ := by
  unfold K4.holdsB K4.holds
  cases hc : r.cls <;> simp only []
  · -- normal
    have e1 : (Ext.fin : Int → Ext Int) = Ext.fin := rfl
    rw [Bool.and_eq_true, Bool.and_eq_true, relHoldsB_iff he]
    constructor
    · rintro ⟨⟨h1, h2⟩, h3⟩
      refine ⟨by simpa using h1, ?_, h3⟩
      cases stored <;> simp [Ext.map] at h2 ⊢
    · rintro ⟨h1, ⟨s, hs⟩, h3⟩
      refine ⟨⟨by simpa using h1, ?_⟩, h3⟩
      cases stored <;> simp [Ext.map] at hs ⊢
  · -- minf
    rw [Bool.and_eq_true, Bool.or_eq_true, beq_iff_eq]
    have := relHoldsB_iff he r.rel .minf
    simp only [Ext.map] at this
    rw [this, Ext.map_eq_minf]
    constructor
    · rintro ⟨h1, h2⟩
      exact ⟨fun hu => by rcases h1 with h | h; rw [hu] at h; cases h; exact h, h2⟩
    · rintro ⟨h1, h2⟩
      refine ⟨?_, h2⟩
      cases hu : r.unrep
      · exact Or.inr (h1 hu)
      · exact Or.inl rfl
  · -- pinf
    rw [Bool.and_eq_true, Bool.or_eq_true, beq_iff_eq]
    have := relHoldsB_iff he r.rel .pinf
    simp only [Ext.map] at this
    rw [this, Ext.map_eq_pinf]
    constructor
    · rintro ⟨h1, h2⟩
      exact ⟨fun hu => by rcases h1 with h | h; rw [hu] at h; cases h; exact h, h2⟩
    · rintro ⟨h1, h2⟩
      refine ⟨?_, h2⟩
      cases hu : r.unrep
      · exact Or.inr (h1 hu)
      · exact Or.inl rfl
  · -- nan
    unfold K4.nanReasonHolds
    rw [toQ_eq_nan he]
    simp only [Bool.or_eq_true, beq_iff_eq]
    constructor
    · rintro ((h | h) | h)
      · exact Or.inl h
      · exact Or.inr (Or.inl h)
      · exact Or.inr (Or.inr (by cases e <;> simp_all [Exact.isNan]))
    · rintro (h | h | h)
      · exact Or.inl (Or.inl h)
      · exact Or.inl (Or.inr h)
      · exact Or.inr (by rw [h]; rfl)

theorem directedB_iff {e : Exact} (he : e.Rational) (dir : Dir) (r : Result) (stored : Ext Int) :
    K4.directedB dir r stored e = true ↔ K4.directed dir r (stored.map (Int.cast : Int → Rat)) e.toQ := by
  obtain ⟨a, b, c, _⟩ := cmpExt_spec he stored
  unfold K4.directedB K4.directed K4.leB K4.geB Ext.le
  rw [← a, ← b, ← c]
  have eqv_symm : Ext.eqv (stored.map (Int.cast : Int → Rat)) e.toQ ↔ Ext.eqv e.toQ (stored.map (Int.cast : Int → Rat)) := by
    cases stored <;> cases hq : e.toQ <;> simp [Ext.map, Ext.eqv, eq_comm]
  rw [eqv_symm, ← b]
  cases hu : r.unrep <;> cases hc : r.cls <;> cases dir <;> first | simp | exact Iff.rfl | tauto

theorem overflowHoldsB_iff {e : Exact} (he : e.Rational) (r : Result) (lo hi : Int) :
    K4.overflowHoldsB r lo hi e = true ↔ K4.overflowHolds r ((lo : Int) : Rat) ((hi : Int) : Rat) e.toQ := by
  obtain ⟨a1, _, _, _⟩ := cmpExt_spec he (.fin lo)
  obtain ⟨_, _, c2, _⟩ := cmpExt_spec he (.fin hi)
  simp only [Ext.map] at a1 c2
  unfold K4.overflowHoldsB K4.overflowHolds K4.ltB K4.gtB
  rw [← a1, ← c2]
  cases hc : r.cls <;> cases ho : r.overflow <;> simp [Rel.LT, Rel.GT] <;>
    (rcases r.rel with ⟨q1, q2, q3⟩; cases q1 <;> cases q2 <;> cases q3 <;> first | simp | exact Iff.rfl | tauto)

theorem rational_ite {c : Prop} [Decidable c] {a b : Exact} (ha : c → a.Rational) (hb : ¬ c → b.Rational) :
    (if c then a else b).Rational := by
  split
  · exact ha (by assumption)
  · exact hb (by assumption)

theorem rational_ofInt (n : Int) : (Exact.ofInt n).Rational := by simp [Exact.ofInt, Exact.Rational]
theorem rational_ofExt (v : Ext Int) : (Exact.ofExt v).Rational := by
  cases v <;> simp [Exact.ofExt, Exact.ofInt, Exact.Rational]

theorem rational_exactDiv (u v : Ext Int) : (exactDiv u v).Rational := by
  unfold exactDiv
  cases u <;> cases v <;> simp only [] <;>
    repeat' (first
      | exact trivial
      | exact rational_ofInt _
      | (apply rational_ite <;> intro _)
      | (simp only [Exact.Rational, beq_iff_eq] at *; omega))

/-- every exact result computed by `IntOp.exact` for an operation other than `sqrt` is rational -/
theorem exact_rational (t : IntTy) (π : Policy) (op : IntOp) (a : Operands) (h : op ≠ .sqrt) :
    (IntOp.exact t π op a).Rational := by
  cases op <;> simp only [IntOp.exact]
  all_goals first
    | exact rational_ofExt _
    | exact rational_exactDiv _ _
    | exact absurd rfl h
    | skip
  · -- idiv
    unfold exactIdiv
    cases t.denote π a.x <;> cases t.denote π a.y <;> first
      | exact rational_exactDiv _ _
      | (simp only []; apply rational_ite <;> intro _ <;> first | exact trivial | exact rational_ofInt _)
  · -- rem
    unfold exactRem
    cases t.denote π a.x <;> cases t.denote π a.y <;> simp only [] <;>
      repeat' (first | exact trivial | exact rational_ofInt _ | (apply rational_ite <;> intro _))
  · unfold exactSmod; cases t.denote π a.x <;> first | exact trivial | exact rational_ofInt _
  · unfold exactUmod; cases t.denote π a.x <;> first | exact trivial | exact rational_ofInt _
  · unfold exactGcd
    cases t.denote π a.x <;> cases t.denote π a.y <;> first | exact trivial | exact rational_ofInt _ | exact rational_ofExt _
  · unfold exactLcm
    cases t.denote π a.x <;> cases t.denote π a.y <;> first | exact trivial | exact rational_ofInt _

end PPLV.Checked
