import PPLV.Checked.Spec
/-!
# C11 — judging floating-point operations on their REAL output (no Mathlib, linked into `pplv_c11`)

No model of IEEE arithmetic is needed for the verdict: the operands and the stored value of a float
operation are exact rationals (or ±∞ / NaN), the exact mathematical result of the operands is an exact
rational (or a square root of one), and the property clauses compare the two.  `QV` is such a value;
`FloatOp.exact` is the mathematical result (with the usual conventions for infinities; an undefined
result is NaN); `judgeFloat` scales both sides to a common denominator and calls the judges
`K4.holdsFB`, `K4.directedB`, `K4.overflowHoldsB` — the same procedures whose correctness is
`C11.checker_decides` / `C11.float_judge_sound`.
-/
namespace PPLV.Checked

/-- an extended rational: an operand or a stored value (`fin n d` is `n / d`, `d > 0`) -/
inductive QV | nan | minf | pinf | fin (n : Int) (d : Int)
deriving Repr, DecidableEq, Inhabited

/-- a binary floating-point format: significand bits, largest and smallest normal exponent -/
structure FloatFmt where
  p : Nat
  emax : Nat
  emin : Int
deriving Repr, Inhabited

/-- `2^n` by a shift (GMP): exponents of `long double` values reach 16445 -/
def pow2big (n : Nat) : Int := Int.ofNat (1 <<< n)

/-- the largest finite value `(2^p - 1) · 2^(emax - p + 1)` (an integer) -/
def FloatFmt.maxFinite (f : FloatFmt) : Int := (pow2big f.p - 1) * pow2big (f.emax + 1 - f.p)

/-- the policy flags the float kernel reads -/
structure FPolicy where
  base : Policy
  checkFpuInexact : Bool
  checkFpuNanResult : Bool
deriving Repr, Inhabited

namespace QV
def ofInt (n : Int) : QV := fin n 1
def isNan : QV → Bool | nan => true | _ => false
def isInf : QV → Bool | minf => true | pinf => true | _ => false
def isZero : QV → Bool | fin n _ => n == 0 | _ => false
/-- sign: -1, 0, 1 (NaN: 0) -/
def sgn : QV → Int
  | nan => 0 | minf => -1 | pinf => 1 | fin n _ => if n < 0 then -1 else if n > 0 then 1 else 0
def neg : QV → QV | nan => nan | minf => pinf | pinf => minf | fin n d => fin (-n) d
def abs : QV → QV | nan => nan | minf => pinf | pinf => pinf | fin n d => fin (if n < 0 then -n else n) d
def add : QV → QV → QV
  | nan, _ => nan | _, nan => nan
  | minf, pinf => nan | pinf, minf => nan
  | minf, _ => minf | _, minf => minf
  | pinf, _ => pinf | _, pinf => pinf
  | fin a b, fin c d => fin (a * d + c * b) (b * d)
def sub (x y : QV) : QV := add x (neg y)
def mul : QV → QV → QV
  | nan, _ => nan | _, nan => nan
  | fin a b, fin c d => fin (a * c) (b * d)
  | x, y => let s := sgn x * sgn y; if s < 0 then minf else if s > 0 then pinf else nan
/-- division; a division by zero is undefined (NaN) -/
def div : QV → QV → QV
  | nan, _ => nan | _, nan => nan
  | fin a b, fin c d => if c == 0 then nan else if c < 0 then fin (-(a * d)) (b * (-c)) else fin (a * d) (b * c)
  | fin _ _, _ => fin 0 1
  | x, fin c _ => if c == 0 then nan else if sgn x * c < 0 then minf else pinf
  | _, _ => nan
def floor : QV → QV | fin n d => fin (n / d) 1 | v => v
def ceil : QV → QV | fin n d => fin (-((-n) / d)) 1 | v => v
def trunc : QV → QV | fin n d => fin (n.tdiv d) 1 | v => v
/-- `fmod(x, y)`: `x - trunc(x / y) · y` -/
def rem : QV → QV → QV
  | nan, _ => nan | _, nan => nan
  | minf, _ => nan | pinf, _ => nan
  | fin a b, fin c d => if c == 0 then nan else sub (fin a b) (mul (trunc (div (fin a b) (fin c d))) (fin c d))
  | x, _ => x
/-- three-way comparison of two numbers (none if one is NaN) -/
def cmp : QV → QV → Option Ordering
  | nan, _ => none | _, nan => none
  | minf, minf => some .eq | minf, _ => some .lt | _, minf => some .gt
  | pinf, pinf => some .eq | pinf, _ => some .gt | _, pinf => some .lt
  | fin a b, fin c d => some (compare (a * d) (c * b))
def lt (x y : QV) : Bool := cmp x y == some .lt
def isInt : QV → Bool | fin n d => n % d == 0 | _ => false
end QV

/-- exact results: an extended rational, or the square root of a non-negative rational -/
inductive QX | val (v : QV) | sqrt (n d : Int)
deriving Repr, Inhabited

inductive FloatOp
  | neg | abs | sqrt | floor | ceil | trunc | add | sub | mul | div | rem | addMul | subMul
  | add2exp | sub2exp | mul2exp | div2exp | smod2exp | umod2exp
  | assign        -- any conversion: the exact result is the source value `x`
deriving Repr, DecidableEq, Inhabited

/-- the mathematical result of an operation (`to0` only matters for the fused operations) -/
def FloatOp.exact (op : FloatOp) (to0 x y : QV) (e : Nat) : QX :=
  let m : QV := .fin (pow2 e) 1
  let half : QV := .fin (pow2 e) 2
  match op with
  | .neg => .val x.neg
  | .abs => .val x.abs
  | .sqrt =>
    match x with
    | .fin n d => if n < 0 then .val .nan else .sqrt n d
    | .pinf => .val .pinf
    | _ => .val .nan
  | .floor => .val x.floor
  | .ceil => .val x.ceil
  | .trunc => .val x.trunc
  | .add => .val (x.add y)
  | .sub => .val (x.sub y)
  | .mul => .val (x.mul y)
  | .div => .val (x.div y)
  | .rem => .val (x.rem y)
  | .addMul => .val (to0.add (x.mul y))
  | .subMul => .val (to0.sub (x.mul y))
  | .add2exp => .val (x.add m)
  | .sub2exp => .val (x.sub m)
  | .mul2exp => .val (x.mul m)
  | .div2exp => .val (x.div m)
  | .smod2exp =>
    let r := x.rem m
    .val (if r.lt half.neg then r.add m else if r.isNan then r else if !(r.lt half) then r.sub m else r)
  | .umod2exp =>
    let r := x.rem m
    .val (if r.lt (.fin 0 1) then r.add m else r)
  | .assign => .val x

def QX.isNan : QX → Bool | .val v => v.isNan | _ => false

/-- scale the exact result by the (positive) denominator `sd` of the stored value -/
def QX.scaled (ex : QX) (sd : Int) : Exact :=
  match ex with
  | .val .nan => .nan | .val .minf => .minf | .val .pinf => .pinf
  | .val (.fin n d) => .frac (n * sd) d
  | .sqrt n d => .sqrt (n * sd * sd) d

namespace K4
/-- the float-aware meaning of a code: as `holdsB`, except that in the normal class the stored value
of a floating-point type may be an infinity (`x + y` overflowing upwards under ROUND_UP stores `+∞`
with `V_LT`: "the exact result is below `+∞`") -/
def holdsFB (r : Result) (stored : Ext Int) (exact : Exact) : Bool :=
  match r.cls with
  | .normal => !r.unrep && !stored.isNan && relHoldsB r.rel exact stored
  | _ => holdsB r stored exact
end K4

structure FloatVerdict where
  skipped : Bool
  obligations : List String

/-- judge one executed float operation on its real output -/
def judgeFloat (fmt : FloatFmt) (π : FPolicy) (op : FloatOp) (dirN : Nat) (to0 x y : QV) (e : Nat)
    (stored : QV) (realCode : Nat) : FloatVerdict :=
  match Dir.ofCode dirN with
  | none => { skipped := true, obligations := [] }
  | some dir =>
    let ex := op.exact to0 x y e
    -- contract: with every NaN-producing situation left unchecked by the policy the caller must avoid it;
    -- a division (remainder) by a finite zero is undefined and must be checked by the policy to be judged
    let divZero := (op == .div || op == .rem) && y.isZero
    let unchecked := ex.isNan && !π.checkFpuNanResult &&
      !(match op with
        | .add | .add2exp => π.base.checkInfAddInf
        | .sub | .sub2exp => π.base.checkInfSubInf
        | .mul | .mul2exp => π.base.checkInfMulZero
        | .div | .div2exp => π.base.checkInfDivInf && π.base.checkDivZero
        | .rem | .smod2exp | .umod2exp => π.base.checkInfMod && π.base.checkDivZero
        | .sqrt => π.base.checkSqrtNeg
        | _ => false)
    if (divZero && !π.base.checkDivZero) || unchecked then { skipped := true, obligations := [] }
    else
      let r := Result.ofNat realCode
      let (st, sd) : Ext Int × Int := match stored with
        | .nan => (.nan, 1) | .minf => (.minf, 1) | .pinf => (.pinf, 1) | .fin n d => (.fin n, d)
      let exS := ex.scaled sd
      let mx := fmt.maxFinite
      let obs : List String :=
        (if K4.holdsFB r st exS then [] else ["holds"]) ++
        (if K4.directedB dir r st exS then [] else ["directed"]) ++
        (if K4.overflowHoldsB r (-mx) mx (ex.scaled 1) then [] else ["overflow"]) ++
        (if r.cls == .nan && !stored.isNan then ["stored"] else [])
      { skipped := false, obligations := obs }

/-! ## queries without a stored value -/

def relCode : Option Ordering → Nat
  | none => 0 | some .eq => 1 | some .lt => 2 | some .gt => 4

/-- `cmp_float`, `sgn_float`: the order of the extended line, `VR_EMPTY` for NaN -/
def cmpSpec (x y : QV) : Nat := relCode (x.cmp y)
def sgnSpec (x : QV) : Nat := relCode (x.cmp (.fin 0 1))
/-- `is_int_float`: `rint(v) == v` — an infinity counts as an integer, NaN does not -/
def isIntSpec (x : QV) : Bool := x.isInf || x.isInt
/-- `classify_float(v, nan, inf, sign)` -/
def classifySpec (x : QV) (nan inf sign : Bool) : Nat :=
  if (nan || sign) && x.isNan then 48
  else if inf && x == .minf then 17
  else if inf && x == .pinf then 33
  else if sign then (match x.cmp (.fin 0 1) with | some .lt => 2 | some .gt => 4 | _ => 1)
  else 7

end PPLV.Checked
