/-!
# K4 — the meaning of `Result` codes and rounding directions (no Mathlib)

Transcription of `src/Result_defs.hh`, `src/Result_inlines.hh`, `src/Rounding_Dir_defs.hh`,
`src/Rounding_Dir_inlines.hh`.

A C++ `Result` is a bit mask:
bits 0..2 relation (`VR_EQ = 1`, `VR_LT = 2`, `VR_GT = 4`), bits 4..5 class
(`VC_NORMAL = 0`, `VC_MINUS_INFINITY = 16`, `VC_PLUS_INFINITY = 32`, `VC_NAN = 48`),
bit 6 `V_OVERFLOW`, bit 7 `V_UNREPRESENTABLE`, bits 8.. the reason of a NaN result.
Here it is a record of these fields; `Result.toNat` is the C++ numeric value (the table of
enumerators regenerated from the source by `gen/c11_tables.py` is proved equal to it in
`PPLV/Gen/ResultTable.lean`).

`K4.holds r stored exact` is the documented meaning of `r`: the relation **of the exact
result to the stored value** (`V_LT`: "inexact and rounded up", i.e. exact < stored).
-/
namespace PPLV.Checked

/-- `Result_Class` -/
inductive Cls | normal | minf | pinf | nan
deriving DecidableEq, Repr, Inhabited

/-- `Result_Relation` as its three bits -/
structure Rel where
  eq : Bool
  lt : Bool
  gt : Bool
deriving DecidableEq, Repr, Inhabited

structure Result where
  rel : Rel
  cls : Cls
  overflow : Bool := false
  unrep : Bool := false
  reason : Nat := 0
deriving DecidableEq, Repr, Inhabited

namespace Rel
def EMPTY : Rel := ⟨false, false, false⟩
def EQ : Rel := ⟨true, false, false⟩
def LT : Rel := ⟨false, true, false⟩
def GT : Rel := ⟨false, false, true⟩
def NE : Rel := ⟨false, true, true⟩
def LE : Rel := ⟨true, true, false⟩
def GE : Rel := ⟨true, false, true⟩
def LGE : Rel := ⟨true, true, true⟩
def toNat (r : Rel) : Nat := (if r.eq then 1 else 0) + (if r.lt then 2 else 0) + (if r.gt then 4 else 0)
def ofNat (n : Nat) : Rel := ⟨n % 2 == 1, (n / 2) % 2 == 1, (n / 4) % 2 == 1⟩
end Rel

namespace Cls
def code : Cls → Nat | normal => 0 | minf => 16 | pinf => 32 | nan => 48
def ofCode (n : Nat) : Cls := match (n / 16) % 4 with | 0 => normal | 1 => minf | 2 => pinf | _ => nan
end Cls

namespace Result
/-- the C++ numeric value -/
def toNat (r : Result) : Nat :=
  r.rel.toNat + r.cls.code + (if r.overflow then 64 else 0) + (if r.unrep then 128 else 0) + 256 * r.reason

def ofNat (n : Nat) : Result :=
  { rel := Rel.ofNat n, cls := Cls.ofCode n, overflow := (n / 64) % 2 == 1, unrep := (n / 128) % 2 == 1,
    reason := n / 256 }

def V_EMPTY : Result := ⟨Rel.EMPTY, .normal, false, false, 0⟩
def V_EQ : Result := ⟨Rel.EQ, .normal, false, false, 0⟩
def V_LT : Result := ⟨Rel.LT, .normal, false, false, 0⟩
def V_GT : Result := ⟨Rel.GT, .normal, false, false, 0⟩
def V_NE : Result := ⟨Rel.NE, .normal, false, false, 0⟩
def V_LE : Result := ⟨Rel.LE, .normal, false, false, 0⟩
def V_GE : Result := ⟨Rel.GE, .normal, false, false, 0⟩
def V_LGE : Result := ⟨Rel.LGE, .normal, false, false, 0⟩
def V_OVERFLOW : Result := ⟨Rel.EMPTY, .normal, true, false, 0⟩
def V_LT_INF : Result := ⟨Rel.LT, .normal, true, false, 0⟩
def V_GT_SUP : Result := ⟨Rel.GT, .normal, true, false, 0⟩
def V_LT_PLUS_INFINITY : Result := ⟨Rel.LT, .pinf, false, false, 0⟩
def V_GT_MINUS_INFINITY : Result := ⟨Rel.GT, .minf, false, false, 0⟩
def V_EQ_MINUS_INFINITY : Result := ⟨Rel.EQ, .minf, false, false, 0⟩
def V_EQ_PLUS_INFINITY : Result := ⟨Rel.EQ, .pinf, false, false, 0⟩
def V_NAN : Result := ⟨Rel.EMPTY, .nan, false, false, 0⟩
def V_CVT_STR_UNK : Result := ⟨Rel.EMPTY, .nan, false, false, 1⟩
def V_DIV_ZERO : Result := ⟨Rel.EMPTY, .nan, false, false, 2⟩
def V_INF_ADD_INF : Result := ⟨Rel.EMPTY, .nan, false, false, 3⟩
def V_INF_DIV_INF : Result := ⟨Rel.EMPTY, .nan, false, false, 4⟩
def V_INF_MOD : Result := ⟨Rel.EMPTY, .nan, false, false, 5⟩
def V_INF_MUL_ZERO : Result := ⟨Rel.EMPTY, .nan, false, false, 6⟩
def V_INF_SUB_INF : Result := ⟨Rel.EMPTY, .nan, false, false, 7⟩
def V_MOD_ZERO : Result := ⟨Rel.EMPTY, .nan, false, false, 8⟩
def V_SQRT_NEG : Result := ⟨Rel.EMPTY, .nan, false, false, 9⟩
def V_UNKNOWN_NEG_OVERFLOW : Result := ⟨Rel.EMPTY, .nan, false, false, 10⟩
def V_UNKNOWN_POS_OVERFLOW : Result := ⟨Rel.EMPTY, .nan, false, false, 11⟩
def V_UNREPRESENTABLE : Result := ⟨Rel.EMPTY, .normal, false, true, 0⟩

/-- `r | V_UNREPRESENTABLE` -/
def orUnrep (r : Result) : Result := { r with unrep := true }

/-- the table of named enumerators (name, value) as in `Result_defs.hh` -/
def table : List (String × Result) :=
  [("V_EMPTY", V_EMPTY), ("V_EQ", V_EQ), ("V_LT", V_LT), ("V_GT", V_GT), ("V_NE", V_NE), ("V_LE", V_LE),
   ("V_GE", V_GE), ("V_LGE", V_LGE), ("V_OVERFLOW", V_OVERFLOW), ("V_LT_INF", V_LT_INF), ("V_GT_SUP", V_GT_SUP),
   ("V_LT_PLUS_INFINITY", V_LT_PLUS_INFINITY), ("V_GT_MINUS_INFINITY", V_GT_MINUS_INFINITY),
   ("V_EQ_MINUS_INFINITY", V_EQ_MINUS_INFINITY), ("V_EQ_PLUS_INFINITY", V_EQ_PLUS_INFINITY), ("V_NAN", V_NAN),
   ("V_CVT_STR_UNK", V_CVT_STR_UNK), ("V_DIV_ZERO", V_DIV_ZERO), ("V_INF_ADD_INF", V_INF_ADD_INF),
   ("V_INF_DIV_INF", V_INF_DIV_INF), ("V_INF_MOD", V_INF_MOD), ("V_INF_MUL_ZERO", V_INF_MUL_ZERO),
   ("V_INF_SUB_INF", V_INF_SUB_INF), ("V_MOD_ZERO", V_MOD_ZERO), ("V_SQRT_NEG", V_SQRT_NEG),
   ("V_UNKNOWN_NEG_OVERFLOW", V_UNKNOWN_NEG_OVERFLOW), ("V_UNKNOWN_POS_OVERFLOW", V_UNKNOWN_POS_OVERFLOW),
   ("V_UNREPRESENTABLE", V_UNREPRESENTABLE)]

/-- `result_overflow` (Result_inlines.hh): -1, 0 or 1 -/
def resultOverflow (r : Result) : Int :=
  match r.cls with
  | .normal => if r = V_LT_INF then -1 else if r = V_GT_SUP then 1 else 0
  | .minf => -1
  | .pinf => 1
  | .nan => 0

/-- `result_representable` -/
def representable (r : Result) : Bool := !r.unrep

/-- an overflow class: anything that `Bounded_Integer_Coefficient_Policy::handle_result`
turns into `std::overflow_error` or another exception (see `Checked_Number.cc: throw_result_exception`):
every code whose relation-class part is not plain `V_EQ`. -/
def isExactEq (r : Result) : Bool := r.cls == .normal && r.rel == Rel.EQ && !r.unrep
end Result

/-- `Rounding_Dir & ROUND_DIR_MASK` -/
inductive Dir | down | up | ignore | notNeeded
deriving DecidableEq, Repr, Inhabited

namespace Dir
def code : Dir → Nat | down => 0 | up => 1 | ignore => 6 | notNeeded => 7
/-- `round_dir(dir)` of a numeric `Rounding_Dir` (bit 3 = ROUND_STRICT_RELATION is masked off) -/
def ofCode (n : Nat) : Option Dir :=
  match n % 8 with | 0 => some down | 1 => some up | 6 => some ignore | 7 => some notNeeded | _ => none
def roundDown (d : Dir) : Bool := d == down
def roundUp (d : Dir) : Bool := d == up
def notRequested (d : Dir) : Bool := d == ignore || d == notNeeded
/-- the named enumerators of `Rounding_Dir` -/
def table : List (String × Nat) :=
  [("ROUND_DOWN", 0), ("ROUND_UP", 1), ("ROUND_IGNORE", 6), ("ROUND_NATIVE", 6), ("ROUND_NOT_NEEDED", 7),
   ("ROUND_DIRECT", 1), ("ROUND_INVERSE", 0), ("ROUND_DIR_MASK", 7), ("ROUND_STRICT_RELATION", 8),
   ("ROUND_CHECK", 9)]
end Dir

/-- extended values: what a stored bit pattern denotes, and what an exact result can be -/
inductive Ext (α : Type) | nan | minf | pinf | fin (a : α)
deriving DecidableEq, Repr, Inhabited

namespace Ext
variable {α : Type}

def map {β : Type} (f : α → β) : Ext α → Ext β
  | nan => nan | minf => minf | pinf => pinf | fin a => fin (f a)

/-- strict order of the extended line; NaN is comparable with nothing -/
def lt [LT α] : Ext α → Ext α → Prop
  | minf, pinf => True
  | minf, fin _ => True
  | fin _, pinf => True
  | fin a, fin b => a < b
  | _, _ => False

/-- equality of two *numbers* (NaN equals nothing) -/
def eqv : Ext α → Ext α → Prop
  | minf, minf => True
  | pinf, pinf => True
  | fin a, fin b => a = b
  | _, _ => False

def le [LT α] (a b : Ext α) : Prop := lt a b ∨ eqv a b

def isNan : Ext α → Bool | nan => true | _ => false
def isFin : Ext α → Bool | fin _ => true | _ => false
end Ext

namespace K4
variable {α : Type}

/-- the relation part: `exact REL v` (`V_LT`: exact < v, `V_GE`: exact ≥ v …);
`VR_EMPTY`: the exact result is not comparable (not a number). -/
def relHolds [LT α] (rel : Rel) (exact v : Ext α) : Prop :=
  (rel.lt = true ∧ Ext.lt exact v) ∨ (rel.eq = true ∧ Ext.eqv exact v) ∨ (rel.gt = true ∧ Ext.lt v exact)
  ∨ (rel = Rel.EMPTY ∧ exact = Ext.nan)

/-- what the reason field of a NaN-class result says about the exact result:
reasons 10, 11 (`V_UNKNOWN_NEG/POS_OVERFLOW`) say the result is unknown (an intermediate
overflowed); all others say that the exact result is not a number. -/
def nanReasonHolds (reason : Nat) (exact : Ext α) : Prop :=
  reason = 10 ∨ reason = 11 ∨ exact = Ext.nan

/-- **Meaning of a result code.**
* NaN class: see `nanReasonHolds`; nothing is said about the stored value here (whether a NaN
  was stored is the clause `specialStored` of the theorems: it depends on the policy);
* infinity classes: the relation is about that infinity, which is also the stored value unless
  the code carries `V_UNREPRESENTABLE`;
* normal class: the stored value is a finite number and `exact REL stored`. -/
def holds [LT α] (r : Result) (stored exact : Ext α) : Prop :=
  match r.cls with
  | .nan => nanReasonHolds r.reason exact
  | .minf => (r.unrep = false → stored = Ext.minf) ∧ relHolds r.rel exact Ext.minf
  | .pinf => (r.unrep = false → stored = Ext.pinf) ∧ relHolds r.rel exact Ext.pinf
  | .normal => r.unrep = false ∧ (∃ s, stored = Ext.fin s) ∧ relHolds r.rel exact stored

/-- **Meaning of a result code for a floating-point destination**: as `holds`, except that in the
normal class the stored value may be an infinity of the format (`x + y` overflowing upwards under
ROUND_UP stores `+∞` with `V_LT`: "the exact result is below `+∞`"); it may not be NaN. -/
def holdsF [LT α] (r : Result) (stored exact : Ext α) : Prop :=
  match r.cls with
  | .normal => r.unrep = false ∧ stored ≠ Ext.nan ∧ relHolds r.rel exact stored
  | _ => holds r stored exact

/-- `V_OVERFLOW` and the infinity classes with a strict relation claim that the exact
result lies outside the finite range `[lo, hi]` of the destination. -/
def overflowHolds [LT α] (r : Result) (lo hi : α) (exact : Ext α) : Prop :=
  (r.cls = .normal → r.overflow = true → r.rel = Rel.LT → Ext.lt exact (Ext.fin lo)) ∧
  (r.cls = .normal → r.overflow = true → r.rel = Rel.GT → Ext.lt (Ext.fin hi) exact) ∧
  (r.cls = .pinf → r.rel = Rel.LT → Ext.lt (Ext.fin hi) exact) ∧
  (r.cls = .minf → r.rel = Rel.GT → Ext.lt exact (Ext.fin lo))

/-- directed rounding is honoured: whenever something was stored for a number-valued result,
it is not below the exact result when rounding up and not above it when rounding down. -/
def directed [LT α] (dir : Dir) (r : Result) (stored exact : Ext α) : Prop :=
  r.unrep = false → r.cls ≠ .nan →
    (dir = Dir.up → Ext.le exact stored) ∧ (dir = Dir.down → Ext.le stored exact)

end K4
end PPLV.Checked
