import PPLV.Checked.T2Base
/-!
# C11 / T2 — the vocabulary of `T2Base.lean` against `BitVec 8`

The translator `gen/c11_t2.py` replaces the bit operations of the C++ source by arithmetic
(`T2.toU`, `T2.toS`, `T2.notS`, `T2.notU`, `T2.andLow`, `T2.andBit`, `T2.andHigh`, `/ 2^k` for `>>`).
Here each replacement is checked against the machine operation on **every** 8-bit pattern and every
shift count the C++ may use (`decide`; no axiom): two's complement `&`, `~`, `>>`, conversions.
-/
namespace PPLV.Checked.T2Check8
open PPLV.Checked

def i8 : IntTy := { bits := 8, signed := true }

/-- conversion of any integer to `uint8_t` -/
theorem toU_bv8 : ∀ v : Fin 1024, ((BitVec.ofInt 8 ((v.val : Int) - 512)).toNat : Int) = T2.toU i8 ((v.val : Int) - 512) := by
  decide +kernel
/-- reinterpretation of a `uint8_t` as `int8_t` -/
theorem toS_bv8 : ∀ a : BitVec 8, a.toInt = T2.toS i8 (a.toNat : Int) := by decide +kernel
/-- `~` on `int8_t` and on `uint8_t` -/
theorem notS_bv8 : ∀ a : BitVec 8, (~~~a).toInt = T2.notS a.toInt := by decide +kernel
theorem notU_bv8 : ∀ a : BitVec 8, ((~~~a).toNat : Int) = T2.notU i8 (a.toNat : Int) := by decide +kernel
/-- `a & ((1 << k) - 1)` on a signed and on an unsigned operand, `k < 8` -/
theorem andLow_signed_bv8 : ∀ (a : BitVec 8) (k : Fin 8),
    (a &&& ((1#8 <<< k.val) - 1#8)).toInt = T2.andLow a.toInt (pow2 k.val) := by decide +kernel
theorem andLow_unsigned_bv8 : ∀ (a : BitVec 8) (k : Fin 8),
    ((a &&& ((1#8 <<< k.val) - 1#8)).toNat : Int) = T2.andLow (a.toNat : Int) (pow2 k.val) := by decide +kernel
/-- `a & m` for the single bit `m = 1 << k` of a signed type (`k < 7`: `m` is positive) -/
theorem andBit_bv8 : ∀ (a : BitVec 8) (k : Fin 7),
    (a &&& (1#8 <<< k.val)).toInt = T2.andBit a.toInt (pow2 k.val) := by decide +kernel
/-- `a & (UType(-1) << k)` on an unsigned operand, and the mask itself -/
theorem andHigh_bv8 : ∀ (a : BitVec 8) (k : Fin 8),
    ((a &&& (255#8 <<< k.val)).toNat : Int) = T2.andHigh (a.toNat : Int) k.val := by decide +kernel
theorem highMask_bv8 : ∀ k : Fin 8, ((255#8 <<< k.val).toNat : Int) = T2.toU i8 (T2.umax i8 * pow2 k.val) := by decide +kernel
/-- `>>` is the floor division by `2^k` (arithmetic shift on a signed operand) -/
theorem shr_signed_bv8 : ∀ (a : BitVec 8) (k : Fin 8), (a.sshiftRight k.val).toInt = a.toInt / pow2 k.val := by decide +kernel
theorem shr_unsigned_bv8 : ∀ (a : BitVec 8) (k : Fin 8), ((a >>> k.val).toNat : Int) = (a.toNat : Int) / pow2 k.val := by decide +kernel
/-- `<<` on an unsigned operand keeps the low 8 bits of the product -/
theorem shl_unsigned_bv8 : ∀ (a : BitVec 8) (k : Fin 8), ((a <<< k.val).toNat : Int) = T2.toU i8 ((a.toNat : Int) * pow2 k.val) := by decide +kernel
/-- unary minus on an unsigned operand -/
theorem neg_unsigned_bv8 : ∀ a : BitVec 8, ((-a).toNat : Int) = T2.toU i8 (-(a.toNat : Int)) := by decide +kernel

end PPLV.Checked.T2Check8
