import PPLV.Checked.FloatJudge
/-!
# C11 — conversions INTO `mpz_class` / `mpq_class` (`checked_mpz_inlines.hh`, `checked_mpq_inlines.hh`)

Code-shaped models (no Mathlib; linked into `pplv_c11`, which compares them with the library's output on
the `toZ` / `toQ` / `zFromQ` journal families).  An unbounded target never overflows: the only result
codes are relations, `V_NAN` and the two infinity classes of `assign_special_mpz/mpq`.

* `Mp.assignSpecial`  — `assign_special_mpz` / `assign_special_mpq`
* `Mp.assignMpzInt`   — `assign_mpz_signed_int` / `assign_mpz_unsigned_int` (the `long long` path negates in
  the source type and imports the magnitude)
* `Mp.assignMpzFloat` — `assign_mpz_float` (`float`, `double`): `rint` in the current FPU mode, then
  `round_lt_mpz`; `round_direct(ROUND_UP)` is the constant `true` — the kernel relies on the library's
  invariant that the FPU rounds upward (`mode = .up`)
* `Mp.assignMpzMpq`   — `assign_mpz_mpq` (also what `assign_mpz_long_double` ends in)
* `Mp.assignMpqFloat` — `assign_mpq_float` (exact)
-/
namespace PPLV.Checked
open Result

namespace Mp

/-- `assign_special_mpz` / `assign_special_mpq` (`to0`: the old value, kept when nothing is stored) -/
def assignSpecial (π : Policy) (to0 : QV) (c : Cls) : QV × Result :=
  match c with
  | .nan => (if π.hasNan then .nan else to0, V_NAN)
  | .minf => if π.hasInfinity then (.minf, V_EQ_MINUS_INFINITY) else (to0, V_EQ_MINUS_INFINITY.orUnrep)
  | .pinf => if π.hasInfinity then (.pinf, V_EQ_PLUS_INFINITY) else (to0, V_EQ_PLUS_INFINITY.orUnrep)
  | .normal => (to0, V_NAN)   -- PPL_UNREACHABLE

/-- `assign_special_mpq`: as `assign_special_mpz`, except that the NaN case returns
`V_NAN | V_UNREPRESENTABLE` when a NaN *was* stored and plain `V_NAN` when the policy has none (as written) -/
def assignSpecialQ (π : Policy) (to0 : QV) (c : Cls) : QV × Result :=
  match c with
  | .nan => if π.hasNan then (.nan, V_NAN.orUnrep) else (to0, V_NAN)
  | .normal => (to0, V_NAN.orUnrep)   -- PPL_UNREACHABLE
  | c => assignSpecial π to0 c

/-- `round_lt_mpz`: the stored integer is above the exact value -/
def roundLtMpz (i : Int) (dir : Dir) : Int × Result := if dir.roundDown then (i - 1, V_GT) else (i, V_LT)
/-- `round_gt_mpz`: the stored integer is below the exact value -/
def roundGtMpz (i : Int) (dir : Dir) : Int × Result := if dir.roundUp then (i + 1, V_LT) else (i, V_GT)

/-- `rint(n / d)` (`d > 0`) in the FPU rounding mode `mode` (`.up`, `.down`, anything else: to nearest even) -/
def rint (mode : Dir) (n d : Int) : Int :=
  match mode with
  | .up => -((-n) / d)
  | .down => n / d
  | _ =>
    let f := n / d
    let r := n - f * d
    if 2 * r < d then f else if 2 * r > d then f + 1 else if f % 2 == 0 then f else f + 1

/-- `assign_mpz_signed_int` / `assign_mpz_unsigned_int` for a source of type `f` (`long long` path:
`From n = -from; mpz_import(n); mpz_neg` — the negation is computed in the source type and its bytes are
read as a magnitude) -/
def assignMpzInt (f : IntTy) (frm : Int) : Int × Result :=
  if frm ≥ 0 then (frm, V_EQ)
  else (-(f.wrap (-frm) % (2 * f.half)), V_EQ)

/-- `assign_mpz_float` for the finite value `n / d` (`d > 0`), NaN or an infinity -/
def assignMpzFloat (π : Policy) (to0 : QV) (mode : Dir) (x : QV) (dir : Dir) : QV × Result :=
  match x with
  | .nan => assignSpecial π to0 .nan
  | .minf => assignSpecial π to0 .minf
  | .pinf => assignSpecial π to0 .pinf
  | .fin n d =>
    if dir.notRequested then (.fin (n.tdiv d) 1, V_LGE)      -- `to = from` (mpz_set_d truncates)
    else
      let i := rint mode n d
      if n == i * d then (.fin i 1, V_EQ)
      else
        -- `if (round_direct(ROUND_UP)) return round_lt_mpz(to, dir);` — always taken
        let o := roundLtMpz i dir
        (.fin o.1 1, o.2)

/-- `assign_mpz_mpq` for the canonical rational `n / d` (`d > 0`); `strict`: `ROUND_STRICT_RELATION` -/
def assignMpzMpq (n d : Int) (dir : Dir) (strict : Bool) : Int × Result :=
  match dir with
  | .notNeeded => (n, V_LGE)               -- `to = from.get_num()`
  | .ignore => (n.tdiv d, V_LGE)           -- `to = from` (mpz_set_q truncates)
  | .down => (n / d, if strict then (if n % d == 0 then V_EQ else V_GT) else V_GE)
  | .up => (-((-n) / d), if strict then (if n % d == 0 then V_EQ else V_LT) else V_LE)

/-- `assign_mpq_float` -/
def assignMpqFloat (π : Policy) (to0 : QV) (x : QV) : QV × Result :=
  match x with
  | .nan => assignSpecialQ π to0 .nan
  | .minf => assignSpecialQ π to0 .minf
  | .pinf => assignSpecialQ π to0 .pinf
  | .fin n d => (.fin n d, V_EQ)

/-- equality of two extended rationals given as fractions with positive denominators -/
def sameQV : QV → QV → Bool
  | .nan, .nan => true | .minf, .minf => true | .pinf, .pinf => true
  | .fin a b, .fin c d => a * d == c * b
  | _, _ => false

end Mp
end PPLV.Checked
