import PPLV.Checked.Spec
/-!
# C11 — straight-line coefficient computations in a bounded build (no Mathlib)

`Bounded_Integer_Coefficient_Policy::handle_result(r)` throws when `result_overflow(r) != 0` or the
class of `r` is NaN (`Coefficient_inlines.hh`); every operator and `*_assign` function of
`Checked_Number` passes its result code to it (`Checked_Number_inlines.hh`), with the rounding
direction `ROUND_NATIVE = ROUND_IGNORE` (`exact_div_assign`: `ROUND_NOT_NEEDED`).
`runB` is such a computation over registers holding `Checked_Number<T, π>` values; `runU` is the
same computation over unbounded integers (`mpz_class`: `/` and `%` truncate).
-/
namespace PPLV.Checked

inductive BInstr
  | neg (d a : Nat) | abs (d a : Nat)
  | add (d a b : Nat) | sub (d a b : Nat) | mul (d a b : Nat)
  | addMul (d a b : Nat)      -- add_mul_assign(r[d], r[a], r[b])
  | subMul (d a b : Nat)      -- sub_mul_assign(r[d], r[a], r[b])
  | div (d a b : Nat)         -- r[d] = r[a] / r[b]   (also exact_div_assign)
  | rem (d a b : Nat)         -- r[d] = r[a] % r[b]
deriving Repr, DecidableEq

abbrev Regs := Nat → Int
def Regs.set (r : Regs) (d : Nat) (v : Int) : Regs := fun i => if i = d then v else r i

/-- `handle_result`: an exception leaves the computation -/
def throws (r : Result) : Bool := r.resultOverflow != 0 || r.cls == .nan

def BInstr.dest : BInstr → Nat
  | .neg d _ | .abs d _ | .add d _ _ | .sub d _ _ | .mul d _ _ | .addMul d _ _ | .subMul d _ _ | .div d _ _ | .rem d _ _ => d

/-- the call made by the instruction -/
def BInstr.call (r : Regs) : BInstr → IntOp × Operands
  | .neg d a => (.neg, { to0 := r d, x := r a })
  | .abs d a => (.abs, { to0 := r d, x := r a })
  | .add d a b => (.add, { to0 := r d, x := r a, y := r b })
  | .sub d a b => (.sub, { to0 := r d, x := r a, y := r b })
  | .mul d a b => (.mul, { to0 := r d, x := r a, y := r b })
  | .addMul d a b => (.addMul, { to0 := r d, x := r a, y := r b })
  | .subMul d a b => (.subMul, { to0 := r d, x := r a, y := r b })
  | .div d a b => (.div, { to0 := r d, x := r a, y := r b })
  | .rem d a b => (.rem, { to0 := r d, x := r a, y := r b })

/-- division by zero is outside the contract in both configurations (a trap) -/
def BInstr.defined (r : Regs) : BInstr → Bool
  | .div _ _ b => r b != 0
  | .rem _ _ b => r b != 0
  | _ => true

/-- one instruction in the bounded configuration: `none` = an exception was thrown (or a trap) -/
def stepB (t : IntTy) (π : Policy) (dir : Dir) (r : Regs) (i : BInstr) : Option Regs :=
  if !i.defined r then none
  else
    let (op, a) := i.call r
    let out := IntOp.run t π op dir a
    if throws out.2 then none else some (r.set i.dest (t.wrap out.1))

/-- the same instruction over unbounded integers -/
def stepU (r : Regs) (i : BInstr) : Option Regs :=
  if !i.defined r then none
  else some (r.set i.dest (match i with
    | .neg _ a => -(r a)
    | .abs _ a => if r a < 0 then -(r a) else r a
    | .add _ a b => r a + r b
    | .sub _ a b => r a - r b
    | .mul _ a b => r a * r b
    | .addMul d a b => r d + r a * r b
    | .subMul d a b => r d - r a * r b
    | .div _ a b => (r a).tdiv (r b)
    | .rem _ a b => (r a).tmod (r b)))

def runB (t : IntTy) (π : Policy) (dir : Dir) : List BInstr → Regs → Option Regs
  | [], r => some r
  | i :: is, r => match stepB t π dir r i with | none => none | some r' => runB t π dir is r'

def runU : List BInstr → Regs → Option Regs
  | [], r => some r
  | i :: is, r => match stepU r i with | none => none | some r' => runU is r'

end PPLV.Checked
