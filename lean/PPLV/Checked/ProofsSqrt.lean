import PPLV.Checked.ProofsConv
import Mathlib.Analysis.Real.Sqrt
/-!
# C11 proofs: integer square root (`isqrt_rem`, `sqrt_unsigned_int`, `sqrt_signed_int`, `sqrt_ext`)

`isqrt_rem` is the bitwise (digit-by-digit) square root: `t` runs over the powers of four from
`2^(bits-2)` down to 1; the accumulator `q` holds the root found so far, shifted.  Loop invariant at
level `n` (`t = 4^(n-1)`, or `t = 0` for `n = 0`), with `R` the root found so far:
`q = R·2^n`, `r = x - R²`, `0 ≤ r < 2q + 4^n`, and `q + 4^n ≤ 2^(N+n)` (`bits = 2N`) — the last one
keeps `s = q + t` inside a *signed* `Type` (what /repo 1ff2aae repaired for the accumulator `q`).
At `n = 0`: `q = R = ⌊√x⌋`, `r = x - q²`.

The exact result `√x` is irrational in general: the clauses are stated over `ℝ` (`OKR`, the same
record as `OKQ` with the stored integers cast to `ℝ`).
-/
namespace PPLV.Checked
open Result

/-- the clauses of C11 for an outcome whose exact result is a real number -/
structure OKR (t : IntTy) (π : Policy) (dir : Dir) (out : Int × Result) (exact : Ext ℝ) : Prop where
  holds : K4.holds out.2 ((t.denote π out.1).map (Int.cast : Int → ℝ)) exact
  directed : K4.directed dir out.2 ((t.denote π out.1).map (Int.cast : Int → ℝ)) exact
  overflow : K4.overflowHolds out.2 ((t.emin π : Int) : ℝ) ((t.emax π : Int) : ℝ) exact
  no_wrap : t.inRange out.1
  nan_stored : out.2.cls = .nan → π.hasNan = true → t.isNan π out.1 = true

section castR
theorem Ext.lt_map_castR {a b : Ext Int} :
    Ext.lt (a.map (Int.cast : Int → ℝ)) (b.map (Int.cast : Int → ℝ)) ↔ Ext.lt a b := by
  cases a <;> cases b <;> simp [Ext.map, Ext.lt]

theorem Ext.eqv_map_castR {a b : Ext Int} :
    Ext.eqv (a.map (Int.cast : Int → ℝ)) (b.map (Int.cast : Int → ℝ)) ↔ Ext.eqv a b := by
  cases a <;> cases b <;> simp [Ext.map, Ext.eqv]

theorem Ext.map_eq_nanR {a : Ext Int} : a.map (Int.cast : Int → ℝ) = Ext.nan ↔ a = Ext.nan := by
  cases a <;> simp [Ext.map]

theorem relHolds_map_castR {rel : Rel} {a b : Ext Int} :
    K4.relHolds rel (a.map (Int.cast : Int → ℝ)) (b.map (Int.cast : Int → ℝ)) ↔ K4.relHolds rel a b := by
  unfold K4.relHolds
  rw [Ext.lt_map_castR, Ext.lt_map_castR, Ext.eqv_map_castR, Ext.map_eq_nanR]

/-- an integer-valued outcome is an outcome over `ℝ` -/
theorem ok_toR {t : IntTy} {π : Policy} {dir : Dir} {out : Int × Result} {e : Ext Int}
    (h : OK t π dir out e) : OKR t π dir out (e.map Int.cast) := by
  obtain ⟨h1, h2, h3, h4, h5⟩ := h
  refine ⟨?_, ?_, ?_, h4, h5⟩
  · unfold K4.holds at *
    cases hc : out.2.cls <;> simp only [hc] at h1 ⊢
    · obtain ⟨a, ⟨s, hs⟩, c⟩ := h1
      exact ⟨a, ⟨s, by rw [hs]; rfl⟩, relHolds_map_castR.mpr c⟩
    · exact ⟨fun h => by rw [h1.1 h]; rfl, by
        have := h1.2; rw [← relHolds_map_castR] at this; exact this⟩
    · exact ⟨fun h => by rw [h1.1 h]; rfl, by
        have := h1.2; rw [← relHolds_map_castR] at this; exact this⟩
    · unfold K4.nanReasonHolds at *
      rcases h1 with h | h | h
      · exact Or.inl h
      · exact Or.inr (Or.inl h)
      · exact Or.inr (Or.inr (by rw [h]; rfl))
  · unfold K4.directed Ext.le at *
    intro a b
    obtain ⟨u, d⟩ := h2 a b
    exact ⟨fun h => by rw [Ext.lt_map_castR, Ext.eqv_map_castR]; exact u h,
           fun h => by rw [Ext.lt_map_castR, Ext.eqv_map_castR]; exact d h⟩
  · unfold K4.overflowHolds at *
    obtain ⟨a, b, c, d⟩ := h3
    have e1 : ∀ v : Int, (Ext.fin ((v : Int) : ℝ)) = (Ext.fin v).map (Int.cast : Int → ℝ) := fun _ => rfl
    refine ⟨fun x y z => ?_, fun x y z => ?_, fun x y => ?_, fun x y => ?_⟩
    · rw [e1, Ext.lt_map_castR]; exact a x y z
    · rw [e1, Ext.lt_map_castR]; exact b x y z
    · rw [e1, Ext.lt_map_castR]; exact c x y
    · rw [e1, Ext.lt_map_castR]; exact d x y

/-- a finite stored value with a normal-class code whose relation and direction claims are true -/
theorem okr_normal {t : IntTy} {π : Policy} (w : t.WF π) {dir : Dir} {s : Int} (hf : t.finite π s)
    {r : Result} (hc : r.cls = .normal) (hu : r.unrep = false) (ho : r.overflow = false) {q : ℝ}
    (hrel : (r.rel.lt = true ∧ q < s) ∨ (r.rel.eq = true ∧ q = s) ∨ (r.rel.gt = true ∧ (s : ℝ) < q))
    (hup : dir = Dir.up → q ≤ s) (hdn : dir = Dir.down → (s : ℝ) ≤ q) :
    OKR t π dir (s, r) (.fin q) := by
  have hd := IntTy.denote_finite w hf
  refine ⟨?_, ?_, ?_, IntTy.finite_inRange hf, ?_⟩
  · simp only [K4.holds, hc, hu, hd, Ext.map, true_and]
    refine ⟨⟨_, rfl⟩, ?_⟩
    unfold K4.relHolds
    rcases hrel with ⟨a, b⟩ | ⟨a, b⟩ | ⟨a, b⟩
    · exact Or.inl ⟨a, b⟩
    · exact Or.inr (Or.inl ⟨a, b⟩)
    · exact Or.inr (Or.inr (Or.inl ⟨a, b⟩))
  · simp only [K4.directed, hd, Ext.map, Ext.le, Ext.lt, Ext.eqv]
    intro _ _
    exact ⟨fun h => by have := hup h; rcases lt_or_eq_of_le this with h | h; exact Or.inl h; exact Or.inr h,
           fun h => by have := hdn h; rcases lt_or_eq_of_le this with h | h; exact Or.inl h; exact Or.inr h⟩
  · simp [K4.overflowHolds, hc, ho]
  · simp [hc]

/-- `round_gt_int` for a real exact result strictly between `s` and `s + 1` -/
theorem roundGt_okr {t : IntTy} {π : Policy} (w : t.WF π) (dir : Dir) {s : Int} (hf : t.finite π s) {q : ℝ}
    (hgt : (s : ℝ) < q) (hlt : q < ((s + 1 : Int) : ℝ)) :
    OKR t π dir (roundGt t π s dir) (.fin q) := by
  unfold roundGt
  split
  · rename_i hup
    have hup' : dir = Dir.up := by simpa [Dir.roundUp] using hup
    split
    · rename_i hmax
      have hmax' : s = t.emax π := by simpa using hmax
      have hq : ((t.emax π : Int) : ℝ) < q := by rw [← hmax']; exact hgt
      split
      · rename_i hi
        obtain ⟨hden, hr⟩ := IntTy.denote_plusInf w hi
        refine ⟨?_, ?_, ?_, hr, ?_⟩
        · simp [K4.holds, V_LT_PLUS_INFINITY, hden, Ext.map, K4.relHolds, Rel.LT, Ext.lt]
        · simp [K4.directed, V_LT_PLUS_INFINITY, hden, Ext.map, Ext.le, Ext.lt, hup']
        · simp [K4.overflowHolds, V_LT_PLUS_INFINITY, Rel.GT, Rel.LT, Ext.lt, hq]
        · simp [V_LT_PLUS_INFINITY]
      · refine ⟨?_, ?_, ?_, IntTy.finite_inRange hf, ?_⟩
        · simp [K4.holds, V_LT_PLUS_INFINITY, orUnrep, K4.relHolds, Rel.LT, Ext.lt]
        · simp [K4.directed, V_LT_PLUS_INFINITY, orUnrep]
        · simp [K4.overflowHolds, V_LT_PLUS_INFINITY, orUnrep, Rel.GT, Rel.LT, Ext.lt, hq]
        · simp [V_LT_PLUS_INFINITY, orUnrep]
    · rename_i hmax
      have hmax' : s ≠ t.emax π := by simpa using hmax
      refine okr_normal w (s := s + 1) ⟨by have := hf.1; omega, by have := hf.2; omega⟩ rfl rfl rfl
        (Or.inl ⟨rfl, hlt⟩) (fun _ => le_of_lt hlt) (fun h => by rw [hup'] at h; cases h)
  · rename_i hup
    exact okr_normal w hf rfl rfl rfl (Or.inr (Or.inr ⟨rfl, hgt⟩)) (fun h => by simp [Dir.roundUp, h] at hup)
      (fun _ => le_of_lt hgt)
end castR

/-! ## the loop of `isqrt_rem` -/

/-- the value of `t` at level `n`: `0` after the last iteration, else `4^(n-1)` -/
def isqrtT : Nat → Int
  | 0 => 0
  | n + 1 => pow2 (2 * n)

theorem isqrtT_div4 (n : Nat) : isqrtT (n + 1) / 4 = isqrtT n := by
  cases n with
  | zero => decide
  | succ k =>
    show pow2 (2 * (k + 1)) / 4 = pow2 (2 * k)
    have : pow2 (2 * (k + 1)) = 4 * pow2 (2 * k) := by
      rw [show 2 * (k + 1) = (2 * k + 1) + 1 by omega, pow2_succ, pow2_succ]; omega
    rw [this]
    exact Int.mul_ediv_cancel_left _ (by decide)

/-- signed and unsigned `cmax` are at least `2·h² - 1` where `bits = 2N`, `h = 2^(N-1)` -/
theorem cmax_ge_of_even {t : IntTy} {N : Nat} (hN : 1 ≤ N) (hb : t.bits = 2 * N) :
    2 * (pow2 (N - 1) * pow2 (N - 1)) - 1 ≤ t.cmax ∧ t.cmin ≤ 0 := by
  have hh : t.half = 2 * (pow2 (N - 1) * pow2 (N - 1)) := by
    unfold IntTy.half
    rw [hb, show 2 * N - 1 = ((N - 1) + (N - 1)) + 1 by omega, pow2_succ, pow2_add]
  have hp := pow2_pos (N - 1)
  have hpp : 1 ≤ pow2 (N - 1) * pow2 (N - 1) := by nlinarith
  unfold IntTy.cmax IntTy.cmin
  rw [hh]
  cases t.signed <;> simp <;> omega

/-- **Loop invariant of `isqrt_rem`** (see the header). -/
theorem isqrtLoop_spec (ty : IntTy) (N : Nat) (hN : 1 ≤ N) (hb : ty.bits = 2 * N) (x : Int) (hx : x ≤ ty.cmax) :
    ∀ (n fuel : Nat) (q r R : Int), n ≤ N → n ≤ fuel →
      q = R * pow2 n → r = x - R * R → 0 ≤ r → r < 2 * q + pow2 n * pow2 n → 0 ≤ R →
      q + pow2 n * pow2 n ≤ pow2 N * pow2 n →
      ∃ R', isqrtLoop ty fuel q r (isqrtT n) = (R', x - R' * R') ∧ 0 ≤ R' ∧ 0 ≤ x - R' * R' ∧ x - R' * R' < 2 * R' + 1 := by
  obtain ⟨hcmax, hcmin⟩ := cmax_ge_of_even hN hb
  intro n
  induction n with
  | zero =>
    intro fuel q r R _ _ hq hr h0 hlt hR _
    refine ⟨R, ?_, hR, by omega, ?_⟩
    · have hq' : q = R := by rw [hq]; show R * 1 = R; omega
      cases fuel with
      | zero => simp [isqrtLoop, hq', hr]
      | succ f => simp [isqrtLoop, isqrtT, hq', hr]
    · have : pow2 0 = 1 := rfl
      rw [this] at hlt hq
      omega
  | succ n ih =>
    intro fuel q r R hnN hfuel hq hr h0 hlt hR hJ
    obtain ⟨f, rfl⟩ : ∃ f, fuel = f + 1 := ⟨fuel - 1, by omega⟩
    -- abbreviations: e = 2^n, so 2^(n+1) = 2e, t = e²
    have he := pow2_pos n
    have hs1 : pow2 (n + 1) = 2 * pow2 n := pow2_succ n
    have htt : isqrtT (n + 1) = pow2 n * pow2 n := by
      show pow2 (2 * n) = _
      rw [show 2 * n = n + n by omega, pow2_add]
    generalize he' : pow2 n = e at *
    have hee : 1 ≤ e * e := by nlinarith
    have heR : 0 ≤ e * R := Int.mul_nonneg (by omega) hR
    have hRR : 0 ≤ R * R := Int.mul_nonneg hR hR
    rw [hs1] at hq hlt hJ
    have hq2 : q = 2 * (e * R) := by rw [hq]; ring
    have hqdiv : q / 2 = e * R := by rw [hq2]; exact Int.mul_ediv_cancel_left _ (by decide)
    -- h = 2^(N-1), 2^N = 2h
    have hPN : pow2 N = 2 * pow2 (N - 1) := by
      rw [show N = (N - 1) + 1 by omega, pow2_succ]; simp
    generalize hh' : pow2 (N - 1) = h at *
    have hh1 : 1 ≤ h := by rw [← hh']; exact pow2_pos _
    -- s = q + t is a value of the type
    have hJ4 : q + 4 * (e * e) ≤ 4 * (h * e) := by
      have e1 : 2 * e * (2 * e) = 4 * (e * e) := by ring
      have e2 : pow2 N * (2 * e) = 4 * (h * e) := by rw [hPN]; ring
      linarith
    have hs_le : q + e * e ≤ ty.cmax := by
      rcases Nat.lt_or_ge (n + 1) N with hlt' | hge
      · -- 2e ≤ h
        have : 2 * e ≤ h := by
          rw [← he', ← hh', ← pow2_succ]
          exact pow2_le_pow2 (by omega)
        have h2 : 4 * (h * e) ≤ 2 * (h * h) := by nlinarith
        linarith
      · -- n + 1 = N: e = h and q = 0
        have hnN' : n + 1 = N := by omega
        have heh : e = h := by rw [← he', ← hh']; congr 1; omega
        subst heh
        linarith
    have hs_in : ty.inRange (q + e * e) := ⟨by linarith, hs_le⟩
    have hr_le : r ≤ x := by linarith
    unfold isqrtLoop
    have htne : (isqrtT (n + 1) == 0) = false := by
      rw [htt]; simp; intro h; nlinarith
    simp only [htne, Bool.false_eq_true, if_false]
    rw [isqrtT_div4, htt, IntTy.wrap_of_inRange hs_in]
    have hJ' : 2 * (e * R) + 4 * (e * e) ≤ 2 * (pow2 N * e) := by
      have : 2 * e * (2 * e) = 4 * (e * e) := by ring
      have : pow2 N * (2 * e) = 2 * (pow2 N * e) := by ring
      linarith
    have hlt' : r < 4 * (e * R) + 4 * (e * e) := by
      have : 2 * e * (2 * e) = 4 * (e * e) := by ring
      linarith
    split
    · -- the bit is set
      rename_i hle
      have hq_in : ty.inRange (q / 2 + e * e) := by
        rw [hqdiv]; exact ⟨by linarith, by linarith⟩
      have hr_in : ty.inRange (r - (q + e * e)) := ⟨by linarith, by linarith⟩
      rw [IntTy.wrap_of_inRange hq_in, IntTy.wrap_of_inRange hr_in, hqdiv]
      have := ih f (e * R + e * e) (r - (q + e * e)) (R + e) (by omega) (by omega)
        (by ring) (by rw [hr, hq2]; ring) (by linarith) (by linarith) (by omega)
        (by linarith)
      exact this
    · rename_i hnle
      rw [hqdiv]
      have := ih f (e * R) r R (by omega) (by omega)
        (by ring) hr h0 (by linarith) hR (by linarith)
      exact this

/-- **`isqrt_rem(q, r, x)` computes `q = ⌊√x⌋`, `r = x - q²`** for every even width, signed or unsigned -/
theorem isqrtRem_spec (t : IntTy) (hev : 2 ∣ t.bits) (hb1 : 1 ≤ t.bits) {x : Int} (h0 : 0 ≤ x) (hx : x ≤ t.cmax) :
    ∃ q, isqrtRem t x = (q, x - q * q) ∧ 0 ≤ q ∧ q * q ≤ x ∧ x < (q + 1) * (q + 1) := by
  obtain ⟨N, hb⟩ := hev
  have hN : 1 ≤ N := by omega
  have hp := pow2_pos N
  have hxlt : x < pow2 N * pow2 N := by
    have : t.cmax ≤ pow2 N * pow2 N - 1 := by
      have hh : t.half = pow2 (N + N - 1) := by unfold IntTy.half; rw [hb]; congr 1; omega
      have h2 : pow2 N * pow2 N = 2 * t.half := by
        rw [hh, ← pow2_add, ← pow2_succ]; congr 1; omega
      have := t.half_pos
      unfold IntTy.cmax
      cases t.signed <;> simp <;> omega
    omega
  obtain ⟨R, h1, h2, h3, h4⟩ := isqrtLoop_spec t N hN hb x hx N t.bits 0 x 0 (Nat.le_refl _) (by omega)
    (by ring) (by ring) h0 (by linarith) (Int.le_refl _) (by linarith)
  refine ⟨R, ?_, h2, by linarith, by nlinarith⟩
  unfold isqrtRem
  have : isqrtT N = pow2 (t.bits - 2) := by
    obtain ⟨k, rfl⟩ : ∃ k, N = k + 1 := ⟨N - 1, by omega⟩
    show pow2 (2 * k) = _
    congr 1; omega
  rw [← this]
  exact h1

/-! ## `sqrt_unsigned_int`, `sqrt_signed_int`, `sqrt_ext` -/

/-- the exact square root of what the operand denotes -/
noncomputable def exactSqrtR : Ext Int → Ext ℝ
  | .nan => .nan | .minf => .nan | .pinf => .pinf
  | .fin x => if x < 0 then .nan else .fin (Real.sqrt x)

theorem sqrtUnsigned_okr {t : IntTy} {π : Policy} (w : t.WF π) (hev : 2 ∣ t.bits) (dir : Dir) {to0 x : Int}
    (hx0 : 0 ≤ x) (hx : t.finite π x) :
    OKR t π dir (sqrtUnsigned t π to0 x dir) (.fin (Real.sqrt x)) := by
  obtain ⟨q, hq, hq0, hle, hlt⟩ := isqrtRem_spec t hev w.bits_pos hx0 (IntTy.finite_inRange hx).2
  have hmm := IntTy.emin_le_emax w
  have hqx : q ≤ x := by nlinarith
  have hqf : t.finite π q := ⟨by linarith [hmm.1], by linarith [hx.2]⟩
  have hxr : (0 : ℝ) ≤ (x : ℝ) := by exact_mod_cast hx0
  have hqr : (0 : ℝ) ≤ (q : ℝ) := by exact_mod_cast hq0
  -- comparisons of √x with q and q + 1
  have hge : (q : ℝ) ≤ Real.sqrt x := by
    rw [Real.le_sqrt hqr hxr]
    have : ((q * q : Int) : ℝ) ≤ (x : ℝ) := by exact_mod_cast hle
    push_cast at this; nlinarith
  have hlt1 : Real.sqrt x < ((q + 1 : Int) : ℝ) := by
    have hq1 : (0 : ℝ) < ((q + 1 : Int) : ℝ) := by exact_mod_cast (by omega : (0 : Int) < q + 1)
    rw [Real.sqrt_lt' hq1]
    have : (x : ℝ) < (((q + 1) * (q + 1) : Int) : ℝ) := by exact_mod_cast hlt
    push_cast at this ⊢; nlinarith
  unfold sqrtUnsigned
  rw [hq]
  simp only []
  split
  · -- rounding not requested: V_GE
    rename_i hnr
    refine okr_normal w hqf rfl rfl rfl ?_ ?_ ?_
    · rcases lt_or_eq_of_le hge with h | h
      · exact Or.inr (Or.inr ⟨rfl, h⟩)
      · exact Or.inr (Or.inl ⟨rfl, h.symm⟩)
    · intro h; rw [h] at hnr; simp [Dir.notRequested] at hnr
    · intro _; exact hge
  · split
    · -- remainder 0: exact
      rename_i hr0
      have hr0' : x - q * q = 0 := by simpa using hr0
      have hxq : (x : ℝ) = (q : ℝ) * (q : ℝ) := by
        have : x = q * q := by omega
        exact_mod_cast this
      have hsq : Real.sqrt x = q := by
        rw [hxq]; exact Real.sqrt_mul_self hqr
      exact okr_normal w hqf rfl rfl rfl (Or.inr (Or.inl ⟨rfl, hsq⟩)) (fun _ => le_of_eq hsq) (fun _ => le_of_eq hsq.symm)
    · rename_i hr0
      have hr0' : x - q * q ≠ 0 := by simpa using hr0
      have hgt : (q : ℝ) < Real.sqrt x := by
        rw [Real.lt_sqrt hqr]
        have : q * q < x := by omega
        have : ((q * q : Int) : ℝ) < (x : ℝ) := by exact_mod_cast this
        push_cast at this; nlinarith
      exact roundGt_okr w dir hqf hgt hlt1

/-- **`sqrt_assign_r` on native integers**: relation, direction, overflow claim, no wrap, NaN stored — for
every even width, signedness, policy, direction and operand within the contract (a negative operand
is the caller's responsibility unless `check_sqrt_neg`). -/
theorem sqrtExt_okr {t : IntTy} {π : Policy} (w : t.WF π) (hev : 2 ∣ t.bits) (dir : Dir) {to0 x : Int}
    (h0 : t.inRange to0) (hx : t.inRange x)
    (hpre : π.checkSqrtNeg = true ∨ ∀ v, t.denote π x = .fin v → 0 ≤ v) :
    OKR t π dir (sqrtExt t π to0 x dir) (exactSqrtR (t.denote π x)) := by
  unfold sqrtExt
  rcases IntTy.denote_cases w hx with ⟨a, d⟩ | ⟨a, b, c, d⟩ | ⟨a, b, c, d⟩ | ⟨a, b, c, d, f⟩ <;>
    simp only [a, d, exactSqrtR, Bool.false_eq_true, if_true, if_false]
  · exact ok_toR (okNanSpecial w dir h0)
  · simp only [b, if_true]
    exact ok_toR (okNanReason w dir h0 rfl)
  · simp only [b, c, Bool.false_eq_true, if_true, if_false]
    exact ok_toR (okPinf w dir h0)
  · simp only [b, c, Bool.false_eq_true, if_false]
    unfold sqrt sqrtSigned
    by_cases hneg : x < 0
    · -- negative operand: only reachable with check_sqrt_neg (and a signed type)
      have hcs : π.checkSqrtNeg = true := by
        rcases hpre with h | h
        · exact h
        · have := h x d; omega
      have hsg : t.signed = true := by
        cases hs : t.signed
        · have := f.1; unfold IntTy.emin IntTy.cmin at this; simp [hs] at this; omega
        · rfl
      simp only [hsg, hcs, hneg, if_true, Bool.true_and, decide_true]
      exact ok_toR (okNanReason w dir h0 rfl)
    · have hx0 : 0 ≤ x := by omega
      simp only [hneg, if_false]
      have key := sqrtUnsigned_okr w hev dir (to0 := to0) hx0 f
      cases hs : t.signed <;> simp [hneg, key]

end PPLV.Checked

namespace PPLV.Checked

/-- the real number an `Exact` stands for (`sqrt n d` is the real `√(n/d)`) -/
noncomputable def Exact.toR : Exact → Ext ℝ
  | .nan => .nan | .minf => .minf | .pinf => .pinf
  | .frac n d => .fin ((n : ℝ) / (d : ℝ))
  | .sqrt n d => .fin (Real.sqrt ((n : ℝ) / (d : ℝ)))

theorem exactSqrt_toR (a : Ext Int) : (exactSqrt a).toR = exactSqrtR a := by
  cases a with
  | fin x =>
    simp only [exactSqrt, exactSqrtR]
    split <;> simp [Exact.toR]
  | _ => simp [exactSqrt, exactSqrtR, Exact.toR]

/-- the squares comparison of the checker (`Exact.cmpInt` on `sqrt n 1`) is the comparison of `√n` with the
integer: this is what `pplv_c11` evaluates on the library's output for `sqrt` -/
theorem cmpInt_sqrt_sound {n : Int} (hn : 0 ≤ n) (s : Int) :
    (Exact.sqrt n 1).cmpInt s = some (compare (Real.sqrt n) (s : ℝ)) := by
  have hnr : (0 : ℝ) ≤ (n : ℝ) := by exact_mod_cast hn
  unfold Exact.cmpInt
  by_cases hs : s < 0
  · simp only [hs, if_true]
    have : (s : ℝ) < Real.sqrt n := lt_of_lt_of_le (by exact_mod_cast hs) (Real.sqrt_nonneg _)
    rw [(compare_gt_iff_gt).mpr this]
  · simp only [hs, if_false, Int.mul_one]
    have hs0 : (0 : ℝ) ≤ (s : ℝ) := by exact_mod_cast (by omega : 0 ≤ s)
    congr 1
    rcases lt_trichotomy n (s * s) with h | h | h
    · have h' : Real.sqrt n < s := by
        rw [Real.sqrt_lt hnr hs0]
        have : ((n : Int) : ℝ) < ((s * s : Int) : ℝ) := by exact_mod_cast h
        push_cast at this; nlinarith
      rw [(compare_lt_iff_lt).mpr h, (compare_lt_iff_lt).mpr h']
    · have h' : Real.sqrt n = s := by
        have : (n : ℝ) = (s : ℝ) * (s : ℝ) := by exact_mod_cast h
        rw [this]; exact Real.sqrt_mul_self hs0
      rw [(compare_eq_iff_eq).mpr h, (compare_eq_iff_eq).mpr h']
    · have h' : (s : ℝ) < Real.sqrt n := by
        rw [Real.lt_sqrt hs0]
        have : ((s * s : Int) : ℝ) < ((n : Int) : ℝ) := by exact_mod_cast h
        push_cast at this; nlinarith
      rw [(compare_gt_iff_gt).mpr h, (compare_gt_iff_gt).mpr h']

end PPLV.Checked
