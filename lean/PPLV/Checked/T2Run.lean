import PPLV.Checked.T2AgreeBits
import PPLV.Checked.Spec
/-!
# C11 / T2 — `assign_r`, `add_assign_r`, … over the regenerated kernel

`IntOp.runT2` is `IntOp.run` (`PPLV/Checked/Model.lean`) with every native-integer primitive
replaced by the definition regenerated from the C++ source (`PPLV/Gen/CheckedT2.lean`): the
extended layer of `checked_ext_inlines.hh` (NaN and infinity dispatch; not translated) is the
hand-written one, what it calls on finite operands is the generated code.  `sqrt`, `gcd`, `lcm`
(a loop each) keep the hand-written kernel.

`runT2_eq`: for operands that are bit patterns of the type the two coincide, hence every theorem of
`PPLV/Props/C11.lean` is a theorem about `runT2` (`PPLV/Props/C11T2.lean`).
-/
namespace PPLV.Checked
open Result PPLV.Gen.T2

namespace T2K
/-! the extended layer, verbatim from `Model.lean`, over the generated kernel -/

def assignExt (t : IntTy) (π : Policy) (f : IntTy) (πf : Policy) (to0 x : Int) (dir : Dir) : Int × Result :=
  extUnary t π f πf to0 x dir fun _ => t2_assign π πf t f to0 x dir

def negExt (t : IntTy) (π : Policy) (to0 x : Int) (dir : Dir) : Int × Result :=
  if t.isNan π x then assignSpecial t π to0 .nan .ignore
  else if t.isMinf π x then assignSpecial t π to0 .pinf dir
  else if t.isPinf π x then assignSpecial t π to0 .minf dir
  else t2_neg π π t to0 x dir

def absExt (t : IntTy) (π : Policy) (to0 x : Int) (dir : Dir) : Int × Result :=
  if t.isNan π x then assignSpecial t π to0 .nan .ignore
  else if t.isMinf π x || t.isPinf π x then assignSpecial t π to0 .pinf dir
  else t2_abs π π t to0 x dir

def addExt (t : IntTy) (π : Policy) (to0 x y : Int) (dir : Dir) : Int × Result :=
  if t.isNan π x || t.isNan π y then assignSpecial t π to0 .nan .ignore
  else if t.isMinf π x then
    if π.checkInfAddInf && t.isPinf π y then assignNan t π to0 V_INF_ADD_INF
    else assignSpecial t π to0 .minf dir
  else if t.isPinf π x then
    if π.checkInfAddInf && t.isMinf π y then assignNan t π to0 V_INF_ADD_INF
    else assignSpecial t π to0 .pinf dir
  else if t.isMinf π y then assignSpecial t π to0 .minf dir
  else if t.isPinf π y then assignSpecial t π to0 .pinf dir
  else t2_add π π π t to0 x y dir

def subExt (t : IntTy) (π : Policy) (to0 x y : Int) (dir : Dir) : Int × Result :=
  if t.isNan π x || t.isNan π y then assignSpecial t π to0 .nan .ignore
  else if t.isMinf π x then
    if π.checkInfSubInf && t.isMinf π y then assignNan t π to0 V_INF_SUB_INF
    else assignSpecial t π to0 .minf dir
  else if t.isPinf π x then
    if π.checkInfSubInf && t.isPinf π y then assignNan t π to0 V_INF_SUB_INF
    else assignSpecial t π to0 .pinf dir
  else if t.isPinf π y then assignSpecial t π to0 .minf dir
  else if t.isMinf π y then assignSpecial t π to0 .pinf dir
  else t2_sub π π π t to0 x y dir

def mulExt (t : IntTy) (π : Policy) (to0 x y : Int) (dir : Dir) : Int × Result :=
  if t.isNan π x || t.isNan π y then assignSpecial t π to0 .nan .ignore
  else match mulInfClass t π x y with
    | some .nan => assignNan t π to0 V_INF_MUL_ZERO
    | some c => assignSpecial t π to0 c dir
    | none => t2_mul π π π t to0 x y dir

def addMulExt (t : IntTy) (π : Policy) (to0 x y : Int) (dir : Dir) : Int × Result :=
  if t.isNan π to0 || t.isNan π x || t.isNan π y then assignSpecial t π to0 .nan .ignore
  else match mulInfClass t π x y with
    | some .nan => assignNan t π to0 V_INF_MUL_ZERO
    | some .minf =>
      if π.checkInfAddInf && t.isPinf π to0 then assignNan t π to0 V_INF_ADD_INF
      else assignSpecial t π to0 .minf dir
    | some _ =>
      if π.checkInfAddInf && t.isMinf π to0 then assignNan t π to0 V_INF_ADD_INF
      else assignSpecial t π to0 .pinf dir
    | none =>
      if t.isMinf π to0 then assignSpecial t π to0 .minf dir
      else if t.isPinf π to0 then assignSpecial t π to0 .pinf dir
      else t2_add_mul_int π π π t to0 x y dir

def subMulExt (t : IntTy) (π : Policy) (to0 x y : Int) (dir : Dir) : Int × Result :=
  if t.isNan π to0 || t.isNan π x || t.isNan π y then assignSpecial t π to0 .nan .ignore
  else match mulInfClass t π x y with
    | some .nan => assignNan t π to0 V_INF_MUL_ZERO
    | some .minf =>
      if π.checkInfSubInf && t.isMinf π to0 then assignNan t π to0 V_INF_SUB_INF
      else assignSpecial t π to0 .pinf dir
    | some _ =>
      if π.checkInfSubInf && t.isPinf π to0 then assignNan t π to0 V_INF_SUB_INF
      else assignSpecial t π to0 .minf dir
    | none =>
      if t.isMinf π to0 then assignSpecial t π to0 .minf dir
      else if t.isPinf π to0 then assignSpecial t π to0 .pinf dir
      else t2_sub_mul_int π π π t to0 x y dir

def remExt (t : IntTy) (π : Policy) (to0 x y : Int) (dir : Dir) : Int × Result :=
  if t.isNan π x || t.isNan π y then assignSpecial t π to0 .nan .ignore
  else if π.checkInfMod && (t.isMinf π x || t.isPinf π x) then assignNan t π to0 V_INF_MOD
  else if t.isMinf π y || t.isPinf π y then (x, V_EQ)
  else t2_rem π π π t to0 x y dir

end T2K

/-- `IntOp.run` over the kernel regenerated from the C++ source -/
def IntOp.runT2 (t : IntTy) (π : Policy) (op : IntOp) (dir : Dir) (a : Operands) : Int × Result :=
  match op with
  | .assign f πf => T2K.assignExt t π f πf a.to0 a.x dir
  | .neg => T2K.negExt t π a.to0 a.x dir
  | .abs => T2K.absExt t π a.to0 a.x dir
  | .add => T2K.addExt t π a.to0 a.x a.y dir
  | .sub => T2K.subExt t π a.to0 a.x a.y dir
  | .mul => T2K.mulExt t π a.to0 a.x a.y dir
  | .div => divLikeExt t π a.to0 a.x a.y dir fun _ => t2_div π π π t a.to0 a.x a.y dir
  | .idiv => divLikeExt t π a.to0 a.x a.y dir fun _ => t2_idiv π π π t a.to0 a.x a.y dir
  | .rem => T2K.remExt t π a.to0 a.x a.y dir
  | .addMul => T2K.addMulExt t π a.to0 a.x a.y dir
  | .subMul => T2K.subMulExt t π a.to0 a.x a.y dir
  | .add2exp => twoExpExt t π a.to0 a.x dir fun _ => t2_add_2exp π π t a.to0 a.x a.e dir
  | .sub2exp => twoExpExt t π a.to0 a.x dir fun _ => t2_sub_2exp π π t a.to0 a.x a.e dir
  | .mul2exp => twoExpExt t π a.to0 a.x dir fun _ => t2_mul_2exp π π t a.to0 a.x a.e dir
  | .div2exp => twoExpExt t π a.to0 a.x dir fun _ => t2_div_2exp π π t a.to0 a.x a.e dir
  | .smod2exp => modExt t π a.to0 a.x fun _ => t2_smod_2exp π π t a.to0 a.x a.e dir
  | .umod2exp => modExt t π a.to0 a.x fun _ => t2_umod_2exp π π t a.to0 a.x a.e dir
  | .sqrt => sqrtExt t π a.to0 a.x dir
  | .gcd => gcdExt t π a.to0 a.x a.y dir
  | .lcm => lcmExt t π a.to0 a.x a.y dir

open T2Agree in
/-- the regenerated kernel computes what the hand-written model computes, for every operation,
width, signedness, policy and direction, on operands that are bit patterns of the type
(needed by `mul_2exp` / `div_2exp` on signed types only) -/
theorem IntOp.runT2_eq (t : IntTy) (π : Policy) (op : IntOp) (dir : Dir) (a : Operands)
    (hx : op = .mul2exp ∨ op = .div2exp → t.inRange a.x) :
    IntOp.runT2 t π op dir a = IntOp.run t π op dir a := by
  cases op
  case mul2exp => simp only [IntOp.runT2, IntOp.run, mul_2exp_eq t π π a.to0 a.x a.e dir (hx (.inl rfl))]
  case div2exp => simp only [IntOp.runT2, IntOp.run, div_2exp_eq t π π a.to0 a.x a.e dir (hx (.inr rfl))]
  all_goals
    simp only [IntOp.runT2, IntOp.run, T2K.assignExt, T2K.negExt, T2K.absExt, T2K.addExt, T2K.subExt, T2K.mulExt,
      T2K.addMulExt, T2K.subMulExt, T2K.remExt, assignExt, negExt, absExt, addExt, subExt, mulExt, addMulExt, subMulExt,
      remExt, divExt, idivExt, assign_eq, neg_eq, abs_eq, add_eq, sub_eq, mul_eq, div_eq, idiv_eq, rem_eq,
      add_mul_int_eq, sub_mul_int_eq, add_2exp_eq, sub_2exp_eq, smod_2exp_eq, umod_2exp_eq]
  -- the three operations whose extended layer is a `match`: the same arms
  all_goals
    cases mulInfClass t π a.x a.y with
    | none => rfl
    | some c => cases c <;> rfl

/-- the contract of every operation but `assign` says that `x` is a bit pattern of the type -/
theorem IntOp.pre_inRange {t : IntTy} {π : Policy} {op : IntOp} {a : Operands} (h : IntOp.pre t π op a = true)
    (hop : ∀ f πf, op ≠ .assign f πf) : t.inRange a.x := by
  cases op <;> simp only [IntOp.pre, Bool.and_eq_true, decide_eq_true_eq] at h
  case assign f πf => exact absurd rfl (hop f πf)
  all_goals (simp only [IntTy.inRange]; omega)

end PPLV.Checked
