import PPLV.Checked.ProofsExt
import Mathlib.Algebra.Order.Group.Nat
/-!
# C11 proofs: `gcd_exact_no_abs`, `gcd_exact`, `gcd_ext`, `lcm_gcd_exact`

`gcd_exact_no_abs` is Euclid's loop on the *signed* values (`rem` truncates, so remainders carry the
sign of the dividend); `gcd_exact` takes `abs` of what the loop leaves.  `gcdLoop_spec`: with `2k + 1`
iterations available and `|w_y| < 2^k` the loop has terminated with a value whose absolute value is
`gcd(|w_x|, |w_y|)` (every two iterations halve `|w_y|`), all intermediate values are finite values of
the type (no wrap: each remainder lies between 0 and the dividend), so the fuel `2·bits + 2` of the
model is never exhausted and the model's loop *is* the C++ `while` loop.

`lcm_gcd_exact` computes `|x| / gcd · |y|` and is correct whenever `|x|` and `|y|` are representable
(`lcm_tri_partial`); when `abs` of an operand overflows the lcm overflows too and `to` receives the outcome
of that `abs` (`lcm_tri`; /repo 5d13b40 — before, the code was returned without storing anything: KF-C11-5,
`C11.lcm_spec_before_fix_fails`).
-/
namespace PPLV.Checked
open Result

theorem rem_fst {t : IntTy} {π : Policy} (w : t.WF π) (dir : Dir) {to0 x y : Int} (hx : t.finite π x) (hz : y ≠ 0) :
    (rem t π to0 x y dir).1 = x.tmod y := by
  have hf := tmod_finite w y hx
  rcases rem_tri w dir (to0 := to0) hx hz with ⟨h, _⟩ | ⟨h, _⟩ | ⟨h, _⟩
  · rw [h]
  · exact absurd h (by have := hf.1; omega)
  · exact absurd h (by have := hf.2; omega)

theorem gcdLoop_zero_right (t : IntTy) (π : Policy) (f : Nat) (wx : Int) : gcdLoop t π (f + 1) wx 0 = wx := by
  simp [gcdLoop]

/-- one iteration of the `while` loop: `(w_x, w_y) ← (w_y, w_x % w_y)`, the remainder stored unchanged -/
theorem gcdLoop_step {t : IntTy} {π : Policy} (w : t.WF π) (f : Nat) {wx wy : Int} (hx : t.finite π wx) (hz : wy ≠ 0) :
    gcdLoop t π (f + 1) wx wy = gcdLoop t π f wy (wx.tmod wy) := by
  have hb : (wy == 0) = false := by simpa using hz
  rw [gcdLoop]
  simp only [hb, Bool.false_eq_true, if_false]
  rw [rem_fst w _ hx hz, IntTy.wrap_of_inRange (IntTy.finite_inRange (tmod_finite w wy hx))]

theorem nat_mod_half {b c : Nat} (hc : 0 < c) (hcb : c ≤ b) : 2 * (b % c) < b := by
  have h1 := Nat.mod_lt b hc
  have h2 := Nat.mod_add_div b c
  have h3 : 1 ≤ b / c := Nat.div_pos hcb hc
  have h4 : c ≤ c * (b / c) := Nat.le_mul_of_pos_right c h3
  generalize c * (b / c) = m at *
  omega

theorem gcdLoop_spec {t : IntTy} {π : Policy} (w : t.WF π) :
    ∀ (k fuel : Nat) (wx wy : Int), t.finite π wx → t.finite π wy → wy.natAbs < 2 ^ k → 2 * k + 1 ≤ fuel →
      t.finite π (gcdLoop t π fuel wx wy) ∧ (gcdLoop t π fuel wx wy).natAbs = Nat.gcd wx.natAbs wy.natAbs
        ∧ (0 ≤ wx → 0 ≤ wy → 0 ≤ gcdLoop t π fuel wx wy) := by
  intro k
  induction k with
  | zero =>
    intro fuel wx wy hx _ hlt hfuel
    obtain ⟨f, rfl⟩ : ∃ f, fuel = f + 1 := ⟨fuel - 1, by omega⟩
    have : wy = 0 := by simp at hlt; exact hlt
    subst this
    rw [gcdLoop_zero_right]
    exact ⟨hx, by simp, fun h _ => h⟩
  | succ k ih =>
    intro fuel wx wy hx hy hlt hfuel
    obtain ⟨f, rfl⟩ : ∃ f, fuel = f + 2 := ⟨fuel - 2, by omega⟩
    by_cases hz : wy = 0
    · subst hz
      rw [gcdLoop_zero_right]
      exact ⟨hx, by simp, fun h _ => h⟩
    · rw [gcdLoop_step w (f + 1) hx hz]
      have hc := tmod_finite w wy hx
      have hcn : (wx.tmod wy).natAbs = wx.natAbs % wy.natAbs := Int.natAbs_tmod wx wy
      have hbpos : 0 < wy.natAbs := Int.natAbs_pos.mpr hz
      by_cases hcz : wx.tmod wy = 0
      · rw [hcz, gcdLoop_zero_right]
        refine ⟨hy, ?_, fun _ h => h⟩
        rw [hcz] at hcn
        have : wy.natAbs ∣ wx.natAbs := Nat.dvd_of_mod_eq_zero (by simpa using hcn.symm)
        exact (Nat.gcd_eq_right this).symm
      · rw [gcdLoop_step w f hy hcz]
        have hd := tmod_finite w (wx.tmod wy) hy
        have hdn : (wy.tmod (wx.tmod wy)).natAbs = wy.natAbs % (wx.tmod wy).natAbs := Int.natAbs_tmod _ _
        have hcpos : 0 < (wx.tmod wy).natAbs := Int.natAbs_pos.mpr hcz
        have hclt : (wx.tmod wy).natAbs < wy.natAbs := by rw [hcn]; exact Nat.mod_lt _ hbpos
        have hhalf := nat_mod_half hcpos (Nat.le_of_lt hclt)
        have hbound : (wy.tmod (wx.tmod wy)).natAbs < 2 ^ k := by
          rw [hdn]; rw [Nat.pow_succ] at hlt; omega
        obtain ⟨r1, r2, r3⟩ := ih f (wx.tmod wy) (wy.tmod (wx.tmod wy)) hc hd hbound (by omega)
        refine ⟨r1, ?_, fun h1 h2 => r3 (Int.tmod_nonneg _ h1) (Int.tmod_nonneg _ h2)⟩
        rw [r2, hdn, hcn]
        -- gcd (a % b) (b % (a % b)) = gcd a b
        generalize wx.natAbs = a
        generalize wy.natAbs = b
        rw [Nat.gcd_comm (a % b), ← Nat.gcd_rec (a % b) b, ← Nat.gcd_rec b a, Nat.gcd_comm]

theorem natAbs_lt_pow_bits {t : IntTy} (hb : 1 ≤ t.bits) {v : Int} (h : t.inRange v) : v.natAbs < 2 ^ t.bits := by
  have hp := t.half_pos
  have e : pow2 t.bits = 2 * t.half := by
    unfold IntTy.half
    rw [show t.bits = (t.bits - 1) + 1 by omega, pow2_succ]; simp
  have hlt : (v.natAbs : Int) < pow2 t.bits := by
    unfold IntTy.inRange IntTy.cmin IntTy.cmax at h
    rw [e]
    cases hs : t.signed <;> simp [hs] at h <;> omega
  rw [pow2_eq] at hlt
  exact_mod_cast hlt

/-- **`gcd_exact_no_abs`** leaves a finite value whose absolute value is the gcd -/
theorem gcdNoAbs_spec {t : IntTy} {π : Policy} (w : t.WF π) {x y : Int} (hx : t.finite π x) (hy : t.finite π y) :
    t.finite π (gcdNoAbs t π x y) ∧ (gcdNoAbs t π x y).natAbs = Int.gcd x y
      ∧ (0 ≤ x → 0 ≤ y → 0 ≤ gcdNoAbs t π x y) :=
  gcdLoop_spec w t.bits _ x y hx hy (natAbs_lt_pow_bits w.bits_pos (IntTy.finite_inRange hy)) (by omega)

/-- **`gcd_exact`**: the non-negative gcd, stored exactly — or an overflow report when it is not a value of
the type (`gcd(min, min)`, `gcd(min, 0)` on a two's complement range) -/
theorem gcd_tri {t : IntTy} {π : Policy} (w : t.WF π) (hl : t.LargerOK) (hco : π.checkOverflow = true)
    (dir : Dir) {to0 x y : Int} (hx : t.finite π x) (hy : t.finite π y) :
    Tri t π dir (gcdNoAbs t π x y) (gcd t π to0 x y dir) (Int.gcd x y) := by
  obtain ⟨hf, hg, _⟩ := gcdNoAbs_spec w hx hy
  have := abs_tri w hl hco dir (IntTy.finite_inRange hf) hf
  unfold gcd
  have e : (if gcdNoAbs t π x y < 0 then -gcdNoAbs t π x y else gcdNoAbs t π x y) = (Int.gcd x y : Int) := by
    rw [← hg]; split <;> omega
  rw [e] at this
  exact this

/-- the exact result of `gcd_ext` as an extended integer -/
def gcdE : Ext Int → Ext Int → Ext Int
  | .nan, _ => .nan | _, .nan => .nan
  | .fin x, .fin y => .fin (Int.gcd x y)
  | .fin x, _ => Ext.absI (.fin x)
  | _, b => Ext.absI b

theorem exactGcd_eq (a b : Ext Int) : exactGcd a b = Exact.ofExt (gcdE a b) := by
  cases a <;> cases b <;> simp [exactGcd, gcdE, Exact.ofExt]

theorem gcdExt_ok {t : IntTy} {π : Policy} (w : t.WF π) (hl : t.LargerOK) (hco : π.checkOverflow = true)
    (dir : Dir) {to0 x y : Int} (h0 : t.inRange to0) (hx : t.inRange x) (hy : t.inRange y) :
    OK t π dir (gcdExt t π to0 x y dir) (gcdE (t.denote π x) (t.denote π y)) := by
  unfold gcdExt
  rcases IntTy.denote_cases w hx with ⟨a, d⟩ | ⟨a, b, c, d⟩ | ⟨a, b, c, d⟩ | ⟨a, b, c, d, f⟩ <;>
  rcases IntTy.denote_cases w hy with ⟨a', d'⟩ | ⟨a', b', c', d'⟩ | ⟨a', b', c', d'⟩ | ⟨a', b', c', d', f'⟩ <;>
  simp only [a, a', d, d', gcdE, Bool.or_true, Bool.true_or, Bool.or_false, Bool.or_self, Bool.false_eq_true, if_true, if_false]
  all_goals first
    | exact okNanSpecial w dir h0
    | (simp only [*, Bool.or_true, Bool.true_or, Bool.or_false, Bool.or_self, Bool.false_eq_true, if_true, if_false]
       first
        | (have := absExt_ok w hl hco dir h0 hy; rw [d'] at this; exact this)
        | (have := absExt_ok w hl hco dir h0 hx; rw [d] at this; exact this)
        | exact tri_ok w (IntTy.finite_inRange (gcdNoAbs_spec w f f').1) (gcd_tri w hl hco dir f f'))

/-! ## lcm -/

theorem abs_of_representable {t : IntTy} {π : Policy} (w : t.WF π) (hl : t.LargerOK) (hco : π.checkOverflow = true)
    (dir : Dir) {to0 x : Int} (h0 : t.inRange to0) (hx : t.finite π x) (hrep : -x ≤ t.emax π) :
    abs t π to0 x dir = (if x < 0 then -x else x, V_EQ) ∧ t.finite π (if x < 0 then -x else x) := by
  have hmm := IntTy.emin_le_emax w
  have hfin : t.finite π (if x < 0 then -x else x) := by
    split
    · exact ⟨by omega, hrep⟩
    · exact hx
  rcases abs_tri w hl hco dir h0 hx with ⟨h, _⟩ | ⟨h, _⟩ | ⟨h, _⟩
  · exact ⟨h, hfin⟩
  · exact absurd h (by have := hfin.1; omega)
  · exact absurd h (by have := hfin.2; omega)

theorem div_notNeeded_fst (t : IntTy) (π : Policy) (to0 x : Int) {y : Int} (hy : 0 < y) :
    (div t π to0 x y .notNeeded).1 = x.tdiv y := by
  have hb : (y == 0) = false := by simpa using (by omega : y ≠ 0)
  have hb1 : (y == -1) = false := by simpa using (by omega : y ≠ -1)
  unfold div divSigned divUnsigned
  cases t.signed <;> simp [hb, hb1, Dir.notRequested]

/-- **`lcm_gcd_exact` when `|x|` and `|y|` are values of the type**: `lcm(x, y)` stored exactly, or a true
overflow report -/
theorem lcm_tri_partial {t : IntTy} {π : Policy} (w : t.WF π) (hl : t.LargerOK) (hco : π.checkOverflow = true)
    (dir : Dir) {to0 x y : Int} (hx : t.finite π x) (hy : t.finite π y)
    (hxr : -x ≤ t.emax π) (hyr : -y ≤ t.emax π) :
    ∃ z, t.inRange z ∧ Tri t π dir z (lcm t π to0 x y dir) (Int.lcm x y) := by
  have hmm := IntTy.emin_le_emax w
  have h00 : t.inRange 0 := IntTy.finite_inRange ⟨hmm.1, hmm.2⟩
  unfold lcm
  by_cases hz : (x == 0 || y == 0) = true
  · simp only [hz, if_true]
    refine ⟨0, h00, ?_⟩
    have : Int.lcm x y = 0 := by
      simp only [Bool.or_eq_true, beq_iff_eq] at hz
      rcases hz with h | h <;> simp [h]
    rw [this]
    exact tri_eq ⟨hmm.1, hmm.2⟩
  · have hz' : (x == 0 || y == 0) = false := by simpa using hz
    simp only [Bool.or_eq_false_iff, beq_eq_false_iff_ne] at hz'
    obtain ⟨hx0, hy0⟩ := hz'
    obtain ⟨eax, fax⟩ := abs_of_representable w hl hco dir h00 hx hxr
    obtain ⟨eay, fay⟩ := abs_of_representable w hl hco dir h00 hy hyr
    simp only [hz, Bool.false_eq_true, if_false, eax, eay, bne_self_eq_false]
    generalize hax : (if x < 0 then -x else x) = ax at *
    generalize hay : (if y < 0 then -y else y) = ay at *
    have hax' : ax = x.natAbs := by rw [← hax]; split <;> omega
    have hay' : ay = y.natAbs := by rw [← hay]; split <;> omega
    rw [IntTy.wrap_of_inRange (IntTy.finite_inRange fax), IntTy.wrap_of_inRange (IntTy.finite_inRange fay)]
    obtain ⟨gf, gg, gpos⟩ := gcdNoAbs_spec w fax fay
    -- the loop runs on non-negative values: its result is non-negative, hence the gcd itself
    have hgnat : (gcdNoAbs t π ax ay).natAbs = Nat.gcd x.natAbs y.natAbs := by
      rw [gg, hax', hay', Int.gcd_natCast_natCast]
    have hgpos : 0 < Nat.gcd x.natAbs y.natAbs := Nat.gcd_pos_of_pos_left _ (Int.natAbs_pos.mpr hx0)
    generalize hgdef : gcdNoAbs t π ax ay = g at *
    have hg0 : 0 ≤ g := gpos (by omega) (by omega)
    have hgI : g = (Nat.gcd x.natAbs y.natAbs : Int) := by omega
    have hgposI : 0 < g := by omega
    have hq := div_notNeeded_fst t π to0 ax hgposI
    have heta : div t π to0 ax g .notNeeded = (ax.tdiv g, (div t π to0 ax g .notNeeded).2) := by rw [← hq]
    rw [heta]
    simp only []
    -- the quotient |x| / gcd as a natural number
    have hqnat : ax.tdiv g = ((x.natAbs / Nat.gcd x.natAbs y.natAbs : Nat) : Int) := by
      rw [Int.tdiv_eq_ediv_of_nonneg (by omega), hax', hgI]; norm_cast
    have hqle : x.natAbs / Nat.gcd x.natAbs y.natAbs ≤ x.natAbs := Nat.div_le_self _ _
    have hqfin : t.finite π (ax.tdiv g) := by
      have h1 : (0 : Int) ≤ ((x.natAbs / Nat.gcd x.natAbs y.natAbs : Nat) : Int) := Int.natCast_nonneg _
      have h2 : ((x.natAbs / Nat.gcd x.natAbs y.natAbs : Nat) : Int) ≤ (x.natAbs : Int) := by exact_mod_cast hqle
      have := fax.2
      rw [hqnat]
      generalize ((x.natAbs / Nat.gcd x.natAbs y.natAbs : Nat) : Int) = qq at *
      exact ⟨by omega, by omega⟩
    rw [IntTy.wrap_of_inRange (IntTy.finite_inRange hqfin)]
    refine ⟨ax.tdiv g, IntTy.finite_inRange hqfin, ?_⟩
    have key := mul_tri w hl hco dir (IntTy.finite_inRange hqfin) hqfin fay
    have e : ax.tdiv g * ay = (Int.lcm x y : Int) := by
      rw [hqnat, hay']
      have : x.natAbs / Nat.gcd x.natAbs y.natAbs * y.natAbs = Nat.lcm x.natAbs y.natAbs := by
        obtain ⟨a', ha'⟩ := Nat.gcd_dvd_left x.natAbs y.natAbs
        unfold Nat.lcm
        generalize Nat.gcd x.natAbs y.natAbs = gn at *
        rw [ha', Nat.mul_div_cancel_left _ hgpos, Nat.mul_assoc, Nat.mul_div_cancel_left _ hgpos]
      rw [Int.lcm]
      exact_mod_cast this
    rw [e] at key
    exact key

theorem setPosOverflow_ne_eq (t : IntTy) (π : Policy) (z : Int) (dir : Dir) : (setPosOverflow t π z dir).2 ≠ V_EQ := by
  unfold setPosOverflow
  split
  · show V_GT_SUP ≠ V_EQ; decide
  · split
    · show V_LT_PLUS_INFINITY ≠ V_EQ; decide
    · show V_LT_PLUS_INFINITY.orUnrep ≠ V_EQ; decide

/-- `abs` on a finite operand: exact, or the positive overflow of `-x` -/
theorem abs_cases {t : IntTy} {π : Policy} (w : t.WF π) (hl : t.LargerOK) (hco : π.checkOverflow = true)
    (dir : Dir) {to0 x : Int} (h0 : t.inRange to0) (hx : t.finite π x) :
    (-x ≤ t.emax π ∧ abs t π to0 x dir = (if x < 0 then -x else x, V_EQ)) ∨
    (t.emax π < -x ∧ abs t π to0 x dir = setPosOverflow t π to0 dir) := by
  have hmm := IntTy.emin_le_emax w
  rcases abs_tri w hl hco dir h0 hx with ⟨h, hf⟩ | ⟨h, _⟩ | ⟨h, ho⟩
  · refine Or.inl ⟨?_, h⟩
    have := hf.2
    split at this <;> omega
  · exfalso; split at h <;> omega
  · refine Or.inr ⟨?_, ho⟩
    have := hx.2
    split at h <;> omega

/-- when `|x|` exceeds the finite range so does `lcm(x, y)` for `y ≠ 0` -/
theorem lcm_ge_abs_left {x y : Int} (hy : y ≠ 0) : -x ≤ (Int.lcm x y : Int) := by
  by_cases hx : x = 0
  · subst hx; simp
  · have hpos : 0 < Nat.lcm x.natAbs y.natAbs := Nat.lcm_pos (Int.natAbs_pos.mpr hx) (Int.natAbs_pos.mpr hy)
    have hle : x.natAbs ≤ Nat.lcm x.natAbs y.natAbs := Nat.le_of_dvd hpos (Nat.dvd_lcm_left _ _)
    have : (Int.lcm x y : Int) = (Nat.lcm x.natAbs y.natAbs : Int) := rfl
    rw [this]
    omega

theorem lcm_ge_abs_right {x y : Int} (hx : x ≠ 0) : -y ≤ (Int.lcm x y : Int) := by
  rw [Int.lcm_comm]; exact lcm_ge_abs_left hx

/-- **`lcm_gcd_exact`** (as repaired by /repo 5d13b40): `lcm(x, y)` stored exactly, or a true overflow report —
also when `|x|` or `|y|` is not a value of the type -/
theorem lcm_tri {t : IntTy} {π : Policy} (w : t.WF π) (hl : t.LargerOK) (hco : π.checkOverflow = true)
    (dir : Dir) {to0 x y : Int} (h0 : t.inRange to0) (hx : t.finite π x) (hy : t.finite π y) :
    ∃ z, t.inRange z ∧ Tri t π dir z (lcm t π to0 x y dir) (Int.lcm x y) := by
  have hmm := IntTy.emin_le_emax w
  have h00 : t.inRange 0 := IntTy.finite_inRange ⟨hmm.1, hmm.2⟩
  by_cases hrep : -x ≤ t.emax π ∧ -y ≤ t.emax π
  · exact lcm_tri_partial w hl hco dir hx hy hrep.1 hrep.2
  · by_cases hz : (x == 0 || y == 0) = true
    · unfold lcm
      simp only [hz, if_true]
      refine ⟨0, h00, ?_⟩
      have : Int.lcm x y = 0 := by
        simp only [Bool.or_eq_true, beq_iff_eq] at hz
        rcases hz with h | h <;> simp [h]
      rw [this]
      exact tri_eq ⟨hmm.1, hmm.2⟩
    · have hz' : (x == 0 || y == 0) = false := by simpa using hz
      simp only [Bool.or_eq_false_iff, beq_eq_false_iff_ne] at hz'
      obtain ⟨hx0, hy0⟩ := hz'
      unfold lcm
      simp only [hz, Bool.false_eq_true, if_false]
      rcases abs_cases w hl hco dir h00 hx with ⟨hxr, e0⟩ | ⟨hxo, e0⟩
      · -- |x| fits, |y| does not
        have hyo : t.emax π < -y := by
          by_contra hc; exact hrep ⟨hxr, by omega⟩
        rcases abs_cases w hl hco dir h00 hy with ⟨hyr, _⟩ | ⟨_, e1⟩
        · omega
        · rcases abs_cases w hl hco dir h0 hy with ⟨hyr, _⟩ | ⟨_, e2⟩
          · omega
          · have hne := setPosOverflow_ne_eq t π 0 dir
            rcases hp : setPosOverflow t π 0 dir with ⟨a1, r1⟩
            rw [hp] at hne e1
            have hb : (r1 != V_EQ) = true := by simpa using hne
            simp only [e0, e1, e2, bne_self_eq_false, Bool.false_eq_true, if_false, hb, if_true]
            exact ⟨to0, h0, tri_pos (by have := lcm_ge_abs_right (x := x) (y := y) hx0; omega)⟩
      · rcases abs_cases w hl hco dir h0 hx with ⟨hxr, _⟩ | ⟨_, e2⟩
        · omega
        · have hne := setPosOverflow_ne_eq t π 0 dir
          rcases hp : setPosOverflow t π 0 dir with ⟨a1, r1⟩
          rw [hp] at hne e0
          have hb : (r1 != V_EQ) = true := by simpa using hne
          simp only [e0, e2, hb, if_true]
          exact ⟨to0, h0, tri_pos (by have := lcm_ge_abs_left (x := x) (y := y) hy0; omega)⟩

/-- the exact result of `lcm_ext` as an extended integer -/
def lcmE : Ext Int → Ext Int → Ext Int
  | .nan, _ => .nan | _, .nan => .nan
  | .fin x, .fin y => .fin (Int.lcm x y)
  | _, _ => .pinf

theorem exactLcm_eq (a b : Ext Int) : exactLcm a b = Exact.ofExt (lcmE a b) := by
  cases a <;> cases b <;> simp [exactLcm, lcmE, Exact.ofExt]

theorem lcmExt_ok {t : IntTy} {π : Policy} (w : t.WF π) (hl : t.LargerOK) (hco : π.checkOverflow = true)
    (dir : Dir) {to0 x y : Int} (h0 : t.inRange to0) (hx : t.inRange x) (hy : t.inRange y) :
    OK t π dir (lcmExt t π to0 x y dir) (lcmE (t.denote π x) (t.denote π y)) := by
  unfold lcmExt
  rcases IntTy.denote_cases w hx with ⟨a, d⟩ | ⟨a, b, c, d⟩ | ⟨a, b, c, d⟩ | ⟨a, b, c, d, f⟩ <;>
  rcases IntTy.denote_cases w hy with ⟨a', d'⟩ | ⟨a', b', c', d'⟩ | ⟨a', b', c', d'⟩ | ⟨a', b', c', d', f'⟩ <;>
  simp only [a, a', d, d', lcmE, Bool.or_true, Bool.true_or, Bool.or_false, Bool.or_self, Bool.false_eq_true, if_true, if_false]
  all_goals first
    | exact okNanSpecial w dir h0
    | (simp only [*, Bool.or_true, Bool.true_or, Bool.or_false, Bool.or_self, Bool.false_eq_true, if_true, if_false]
       first
        | exact okPinf w dir h0
        | (obtain ⟨z, hz, htri⟩ := lcm_tri w hl hco dir h0 f f'
           exact tri_ok w hz htri))

end PPLV.Checked
