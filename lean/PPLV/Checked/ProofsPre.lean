import PPLV.Checked.ProofsExt2
/-!
# C11 proofs: from the Boolean contract `IntOp.pre` to the hypotheses of the operation theorems
-/
namespace PPLV.Checked

theorem opposite_iff {u v : Ext Int} :
    ((u == .minf && v == .pinf) || (u == .pinf && v == .minf)) = false ↔
      ¬ ((u = .minf ∧ v = .pinf) ∨ (u = .pinf ∧ v = .minf)) := by
  cases u <;> cases v <;> simp

theorem same_iff {u v : Ext Int} :
    ((u == .minf && v == .minf) || (u == .pinf && v == .pinf)) = false ↔
      ¬ ((u = .minf ∧ v = .minf) ∨ (u = .pinf ∧ v = .pinf)) := by
  cases u <;> cases v <;> simp

theorem finZero_iff {u v : Ext Int} :
    ((v == .fin 0) && u.isFin) = false ↔ ¬ (v = .fin 0 ∧ ∃ w, u = .fin w) := by
  cases u <;> cases v <;> simp [Ext.isFin]

theorem bothInf_iff {u v : Ext Int} :
    (u.isInf && v.isInf) = false ↔ ¬ (u.isInf = true ∧ v.isInf = true) := by
  cases u <;> cases v <;> simp [Ext.isInf]

end PPLV.Checked
