import PPLV.Checked.Proofs6
/-!
# C11 proofs, part 8: the extended layer (`checked_ext_inlines.hh`) — what `*_assign_r` run

Operands are arbitrary bit patterns of the type; under the policy each denotes NaN, an infinity or
a finite number (`IntTy.denote_cases`).  Special operands end in `assign_special_int`
(`ok_special`) or `assign_nan`; finite ones reach the native primitive.
-/
namespace PPLV.Checked
open Result

/-- what a class denotes -/
def Ext.ofCls : Cls → Ext Int | .nan => .nan | .minf => .minf | .pinf => .pinf | .normal => .nan

theorem IntTy.denote_cases {t : IntTy} {π : Policy} (w : t.WF π) {x : Int} (hr : t.inRange x) :
    (t.isNan π x = true ∧ t.denote π x = .nan) ∨
    (t.isNan π x = false ∧ t.isMinf π x = true ∧ t.isPinf π x = false ∧ t.denote π x = .minf) ∨
    (t.isNan π x = false ∧ t.isMinf π x = false ∧ t.isPinf π x = true ∧ t.denote π x = .pinf) ∨
    (t.isNan π x = false ∧ t.isMinf π x = false ∧ t.isPinf π x = false ∧ t.denote π x = .fin x ∧ t.finite π x) := by
  by_cases h1 : t.isNan π x = true
  · exact Or.inl ⟨h1, by simp [IntTy.denote, h1]⟩
  · have h1' : t.isNan π x = false := by simpa using h1
    by_cases h2 : t.isMinf π x = true
    · refine Or.inr (Or.inl ⟨h1', h2, ?_, by simp [IntTy.denote, h1', h2]⟩)
      have hp := t.half_pos
      unfold IntTy.isMinf IntTy.isPinf IntTy.minusInf IntTy.plusInf IntTy.cmin IntTy.cmax at *
      generalize t.half = H at *
      cases hs : t.signed <;> cases hi : π.hasInfinity <;> simp [hs, hi] at h2 ⊢ <;> omega
    · have h2' : t.isMinf π x = false := by simpa using h2
      by_cases h3 : t.isPinf π x = true
      · exact Or.inr (Or.inr (Or.inl ⟨h1', h2', h3, by simp [IntTy.denote, h1', h2', h3]⟩))
      · have h3' : t.isPinf π x = false := by simpa using h3
        refine Or.inr (Or.inr (Or.inr ⟨h1', h2', h3', by simp [IntTy.denote, h1', h2', h3'], ?_⟩))
        obtain ⟨hp, hr4⟩ := w.half_facts
        unfold IntTy.isNan IntTy.isMinf IntTy.isPinf IntTy.nanV IntTy.minusInf IntTy.plusInf at *
        unfold IntTy.finite IntTy.emin IntTy.emax
        unfold IntTy.inRange at hr
        unfold IntTy.cmin IntTy.cmax b2i at *
        generalize t.half = H at *
        layout_cases t π

/-- `assign_special_int` for the class `c` stores / reports the special value `c` -/
theorem ok_special {t : IntTy} {π : Policy} (w : t.WF π) (dir : Dir) {to0 : Int} (h0 : t.inRange to0)
    (c : Cls) (hc : c ≠ .normal) (dir' : Dir) (hd : c = .nan ∨ dir' = dir) :
    OK t π dir (assignSpecial t π to0 c dir') (Ext.ofCls c) := by
  cases c
  · exact absurd rfl hc
  · -- minus infinity
    have hd : dir' = dir := by rcases hd with h | h; cases h; exact h
    subst hd
    unfold assignSpecial
    simp only [Ext.ofCls]
    split
    · rename_i hi
      obtain ⟨hden, hr⟩ := IntTy.denote_minusInf w hi
      refine ⟨?_, ?_, ?_, hr, ?_⟩
      · simp [K4.holds, V_EQ_MINUS_INFINITY, hden, K4.relHolds, Rel.EQ, Ext.eqv]
      · simp [K4.directed, V_EQ_MINUS_INFINITY, hden, Ext.le, Ext.eqv]
      · simp [K4.overflowHolds, V_EQ_MINUS_INFINITY, Rel.EQ, Rel.GT]
      · simp [V_EQ_MINUS_INFINITY]
    · split
      · rename_i hup
        have hup' : dir' = Dir.up := by simpa [Dir.roundUp] using hup
        have hden := IntTy.denote_finite w (IntTy.finite_emin w)
        refine ⟨?_, ?_, ?_, IntTy.finite_inRange (IntTy.finite_emin w), ?_⟩
        · simp [K4.holds, V_LT_INF, hden, K4.relHolds, Rel.LT, Ext.lt]
        · simp [K4.directed, V_LT_INF, hden, Ext.le, Ext.lt, hup']
        · simp [K4.overflowHolds, V_LT_INF, Rel.LT, Rel.GT, Ext.lt]
        · simp [V_LT_INF]
      · refine ⟨?_, ?_, ?_, h0, ?_⟩
        · simp [K4.holds, V_EQ_MINUS_INFINITY, orUnrep, K4.relHolds, Rel.EQ, Ext.eqv]
        · simp [K4.directed, V_EQ_MINUS_INFINITY, orUnrep]
        · simp [K4.overflowHolds, V_EQ_MINUS_INFINITY, orUnrep, Rel.EQ, Rel.GT]
        · simp [V_EQ_MINUS_INFINITY, orUnrep]
  · -- plus infinity
    have hd : dir' = dir := by rcases hd with h | h; cases h; exact h
    subst hd
    unfold assignSpecial
    simp only [Ext.ofCls]
    split
    · rename_i hi
      obtain ⟨hden, hr⟩ := IntTy.denote_plusInf w hi
      refine ⟨?_, ?_, ?_, hr, ?_⟩
      · simp [K4.holds, V_EQ_PLUS_INFINITY, hden, K4.relHolds, Rel.EQ, Ext.eqv]
      · simp [K4.directed, V_EQ_PLUS_INFINITY, hden, Ext.le, Ext.eqv]
      · simp [K4.overflowHolds, V_EQ_PLUS_INFINITY, Rel.EQ, Rel.LT]
      · simp [V_EQ_PLUS_INFINITY]
    · split
      · rename_i hdn
        have hdn' : dir' = Dir.down := by simpa [Dir.roundDown] using hdn
        have hden := IntTy.denote_finite w (IntTy.finite_emax w)
        refine ⟨?_, ?_, ?_, IntTy.finite_inRange (IntTy.finite_emax w), ?_⟩
        · simp [K4.holds, V_GT_SUP, hden, K4.relHolds, Rel.GT, Ext.lt]
        · simp [K4.directed, V_GT_SUP, hden, Ext.le, Ext.lt, hdn']
        · simp [K4.overflowHolds, V_GT_SUP, Rel.LT, Rel.GT, Ext.lt]
        · simp [V_GT_SUP]
      · refine ⟨?_, ?_, ?_, h0, ?_⟩
        · simp [K4.holds, V_EQ_PLUS_INFINITY, orUnrep, K4.relHolds, Rel.EQ, Ext.eqv]
        · simp [K4.directed, V_EQ_PLUS_INFINITY, orUnrep]
        · simp [K4.overflowHolds, V_EQ_PLUS_INFINITY, orUnrep, Rel.EQ, Rel.LT]
        · simp [V_EQ_PLUS_INFINITY, orUnrep]
  · -- NaN
    unfold assignSpecial
    simp only [Ext.ofCls]
    split
    · rename_i hn
      obtain ⟨hnan, hr⟩ := IntTy.denote_nanV w hn
      refine ⟨?_, ?_, ?_, hr, ?_⟩
      · simp [K4.holds, V_NAN, K4.nanReasonHolds]
      · simp [K4.directed, V_NAN]
      · simp [K4.overflowHolds, V_NAN]
      · intro _ _; exact hnan
    · rename_i hn
      refine ⟨?_, ?_, ?_, h0, ?_⟩
      · simp [K4.holds, V_NAN, orUnrep, K4.nanReasonHolds]
      · simp [K4.directed, V_NAN, orUnrep]
      · simp [K4.overflowHolds, V_NAN, orUnrep]
      · intro _ h; exact absurd h hn


/-- simplification set for the Boolean tests of the extended layer -/
macro "ext_simp" : tactic => `(tactic|
  simp only [*, Bool.or_false, Bool.false_or, Bool.or_true, Bool.true_or, Bool.and_true, Bool.and_false,
    Bool.true_and, Bool.false_and, Bool.false_eq_true, if_true, if_false, Bool.or_self, Bool.and_self,
    Ext.negI, Ext.absI, Ext.addI, Ext.subI, Ext.mulI, Ext.sgnI, Ext.ofCls])

theorem okNanSpecial {t : IntTy} {π : Policy} (w : t.WF π) (dir : Dir) {to0 : Int} (h0 : t.inRange to0) :
    OK t π dir (assignSpecial t π to0 .nan .ignore) .nan :=
  ok_special w dir h0 .nan (by decide) .ignore (Or.inl rfl)

theorem okMinf {t : IntTy} {π : Policy} (w : t.WF π) (dir : Dir) {to0 : Int} (h0 : t.inRange to0) :
    OK t π dir (assignSpecial t π to0 .minf dir) .minf :=
  ok_special w dir h0 .minf (by decide) dir (Or.inr rfl)

theorem okPinf {t : IntTy} {π : Policy} (w : t.WF π) (dir : Dir) {to0 : Int} (h0 : t.inRange to0) :
    OK t π dir (assignSpecial t π to0 .pinf dir) .pinf :=
  ok_special w dir h0 .pinf (by decide) dir (Or.inr rfl)

theorem okNanReason {t : IntTy} {π : Policy} (w : t.WF π) (dir : Dir) {to0 : Int} (h0 : t.inRange to0)
    {r : Result} (hr : r.cls = .nan) : OK t π dir (assignNan t π to0 r) .nan :=
  ok_assignNan w dir h0 hr (Or.inr (Or.inr rfl))

theorem negExt_ok {t : IntTy} {π : Policy} (w : t.WF π) (hl : t.LargerOK) (hco : π.checkOverflow = true)
    (dir : Dir) {to0 x : Int} (h0 : t.inRange to0) (hx : t.inRange x) :
    OK t π dir (negExt t π to0 x dir) (Ext.negI (t.denote π x)) := by
  unfold negExt
  rcases IntTy.denote_cases w hx with ⟨a, d⟩ | ⟨a, b, c, d⟩ | ⟨a, b, c, d⟩ | ⟨a, b, c, d, f⟩ <;> ext_simp
  · exact okNanSpecial w dir h0
  · exact okPinf w dir h0
  · exact okMinf w dir h0
  · exact tri_ok w h0 (neg_tri w hl hco dir h0 f)

theorem absExt_ok {t : IntTy} {π : Policy} (w : t.WF π) (hl : t.LargerOK) (hco : π.checkOverflow = true)
    (dir : Dir) {to0 x : Int} (h0 : t.inRange to0) (hx : t.inRange x) :
    OK t π dir (absExt t π to0 x dir) (Ext.absI (t.denote π x)) := by
  unfold absExt
  rcases IntTy.denote_cases w hx with ⟨a, d⟩ | ⟨a, b, c, d⟩ | ⟨a, b, c, d⟩ | ⟨a, b, c, d, f⟩ <;> ext_simp
  · exact okNanSpecial w dir h0
  · exact okPinf w dir h0
  · exact okPinf w dir h0
  · exact tri_ok w h0 (abs_tri w hl hco dir h0 f)

theorem assignExt_ok {t f : IntTy} {π πf : Policy} (w : t.WF π) (wf : f.WF πf) (hco : π.checkOverflow = true)
    (hg : t.GapOK f) (dir : Dir) {to0 x : Int} (h0 : t.inRange to0) (hx : f.inRange x) :
    OK t π dir (assignExt t π f πf to0 x dir) (f.denote πf x) := by
  unfold assignExt extUnary
  rcases IntTy.denote_cases wf hx with ⟨a, d⟩ | ⟨a, b, c, d⟩ | ⟨a, b, c, d⟩ | ⟨a, b, c, d, g⟩ <;> ext_simp
  · exact okNanSpecial w dir h0
  · exact okMinf w dir h0
  · exact okPinf w dir h0
  · exact tri_ok w h0 (assignInt_tri w wf hco hg dir h0 g)

theorem addExt_ok {t : IntTy} {π : Policy} (w : t.WF π) (hl : t.LargerOK) (hco : π.checkOverflow = true)
    (dir : Dir) {to0 x y : Int} (h0 : t.inRange to0) (hx : t.inRange x) (hy : t.inRange y)
    (hpre : π.checkInfAddInf = true ∨
      ¬ ((t.denote π x = .minf ∧ t.denote π y = .pinf) ∨ (t.denote π x = .pinf ∧ t.denote π y = .minf))) :
    OK t π dir (addExt t π to0 x y dir) (Ext.addI (t.denote π x) (t.denote π y)) := by
  unfold addExt
  rcases IntTy.denote_cases w hx with ⟨a, d⟩ | ⟨a, b, c, d⟩ | ⟨a, b, c, d⟩ | ⟨a, b, c, d, f⟩ <;>
  rcases IntTy.denote_cases w hy with ⟨a', d'⟩ | ⟨a', b', c', d'⟩ | ⟨a', b', c', d'⟩ | ⟨a', b', c', d', f'⟩ <;>
  (try rw [d, d'] at hpre) <;> ext_simp
  all_goals first
    | exact okNanSpecial w dir h0
    | exact okMinf w dir h0
    | exact okPinf w dir h0
    | exact tri_ok w h0 (add_tri w hl hco dir h0 f (IntTy.finite_inRange f'))
    | skip
  all_goals
    rcases hpre with h | h
    · rw [if_pos h]; exact okNanReason w dir h0 (r := V_INF_ADD_INF) rfl
    · exact absurd (by first | exact Or.inl ⟨rfl, rfl⟩ | exact Or.inr ⟨rfl, rfl⟩) h


theorem subExt_ok {t : IntTy} {π : Policy} (w : t.WF π) (hl : t.LargerOK) (hco : π.checkOverflow = true)
    (dir : Dir) {to0 x y : Int} (h0 : t.inRange to0) (hx : t.inRange x) (hy : t.inRange y)
    (hpre : π.checkInfSubInf = true ∨
      ¬ ((t.denote π x = .minf ∧ t.denote π y = .minf) ∨ (t.denote π x = .pinf ∧ t.denote π y = .pinf))) :
    OK t π dir (subExt t π to0 x y dir) (Ext.subI (t.denote π x) (t.denote π y)) := by
  unfold subExt
  rcases IntTy.denote_cases w hx with ⟨a, d⟩ | ⟨a, b, c, d⟩ | ⟨a, b, c, d⟩ | ⟨a, b, c, d, f⟩ <;>
  rcases IntTy.denote_cases w hy with ⟨a', d'⟩ | ⟨a', b', c', d'⟩ | ⟨a', b', c', d'⟩ | ⟨a', b', c', d', f'⟩ <;>
  (try rw [d, d'] at hpre) <;> ext_simp
  all_goals first
    | exact okNanSpecial w dir h0
    | exact okMinf w dir h0
    | exact okPinf w dir h0
    | exact (by simpa [Int.sub_eq_add_neg] using tri_ok w h0 (sub_tri w hl hco dir h0 f (IntTy.finite_inRange f')))
    | skip
  all_goals
    rcases hpre with h | h
    · rw [if_pos h]; exact okNanReason w dir h0 (r := V_INF_SUB_INF) rfl
    · exact absurd (by first | exact Or.inl ⟨rfl, rfl⟩ | exact Or.inr ⟨rfl, rfl⟩) h

theorem sgn_cases (v : Int) :
    (v < 0 ∧ ¬ v > 0 ∧ (v == 0) = false) ∨ v = 0 ∨ (v > 0 ∧ ¬ v < 0 ∧ (v == 0) = false) := by
  rcases (by omega : v < 0 ∨ v = 0 ∨ 0 < v) with h | h | h
  · exact Or.inl ⟨h, by omega, by simp; omega⟩
  · exact Or.inr (Or.inl h)
  · exact Or.inr (Or.inr ⟨h, by omega, by simp; omega⟩)

theorem mulExt_ok {t : IntTy} {π : Policy} (w : t.WF π) (hl : t.LargerOK) (hco : π.checkOverflow = true)
    (dir : Dir) {to0 x y : Int} (h0 : t.inRange to0) (hx : t.inRange x) (hy : t.inRange y) :
    OK t π dir (mulExt t π to0 x y dir) (Ext.mulI (t.denote π x) (t.denote π y)) := by
  unfold mulExt mulInfClass sgnExt sgnNative
  rcases IntTy.denote_cases w hx with ⟨a, d⟩ | ⟨a, b, c, d⟩ | ⟨a, b, c, d⟩ | ⟨a, b, c, d, f⟩ <;>
  rcases IntTy.denote_cases w hy with ⟨a', d'⟩ | ⟨a', b', c', d'⟩ | ⟨a', b', c', d'⟩ | ⟨a', b', c', d', f'⟩ <;>
  ext_simp
  all_goals first
    | exact okNanSpecial w dir h0
    | exact okMinf w dir h0
    | exact okPinf w dir h0
    | exact tri_ok w h0 (mul_tri w hl hco dir h0 f f')
    | skip
  all_goals first
    | (rcases sgn_cases y with ⟨s1, s2, s3⟩ | s1 | ⟨s1, s2, s3⟩ <;> (try subst s1) <;>
        simp [*, Rel.GT, Rel.LT, Rel.EQ] <;>
        first | exact okMinf w dir h0 | exact okPinf w dir h0 | exact okNanReason w dir h0 rfl)
    | (rcases sgn_cases x with ⟨s1, s2, s3⟩ | s1 | ⟨s1, s2, s3⟩ <;> (try subst s1) <;>
        simp [*, Rel.GT, Rel.LT, Rel.EQ] <;>
        first | exact okMinf w dir h0 | exact okPinf w dir h0 | exact okNanReason w dir h0 rfl)

theorem mulInfClass_spec {t : IntTy} {π : Policy} (w : t.WF π) {x y : Int} (hx : t.inRange x) (hy : t.inRange y)
    (nx : t.isNan π x = false) (ny : t.isNan π y = false) :
    (mulInfClass t π x y = none ∧ t.finite π x ∧ t.finite π y ∧ t.denote π x = .fin x ∧ t.denote π y = .fin y) ∨
    (∃ c, c ≠ Cls.normal ∧ mulInfClass t π x y = some c ∧ Ext.mulI (t.denote π x) (t.denote π y) = Ext.ofCls c) := by
  unfold mulInfClass sgnExt sgnNative
  rcases IntTy.denote_cases w hx with ⟨a, d⟩ | ⟨a, b, c, d⟩ | ⟨a, b, c, d⟩ | ⟨a, b, c, d, f⟩ <;>
  rcases IntTy.denote_cases w hy with ⟨a', d'⟩ | ⟨a', b', c', d'⟩ | ⟨a', b', c', d'⟩ | ⟨a', b', c', d', f'⟩
  all_goals first
    | (simp [a] at nx; done)
    | (simp [a'] at ny; done)
    | skip
  all_goals ext_simp
  all_goals first
    | exact Or.inl ⟨f, f'⟩
    | (right; first
        | exact ⟨.pinf, by decide, by decide, by decide⟩
        | exact ⟨.minf, by decide, by decide, by decide⟩)
    | skip
  all_goals first
    | (rcases sgn_cases y with ⟨s1, s2, s3⟩ | s1 | ⟨s1, s2, s3⟩ <;> (try subst s1) <;>
        simp [*, Rel.GT, Rel.LT, Rel.EQ]; done)
    | (rcases sgn_cases x with ⟨s1, s2, s3⟩ | s1 | ⟨s1, s2, s3⟩ <;> (try subst s1) <;>
        simp [*, Rel.GT, Rel.LT, Rel.EQ, Ext.ofCls])

theorem Ext.addI_nan_right (a : Ext Int) : Ext.addI a .nan = .nan := by cases a <;> rfl
theorem Ext.mulI_nan_left (a : Ext Int) : Ext.mulI .nan a = .nan := by cases a <;> rfl
theorem Ext.mulI_nan_right (a : Ext Int) : Ext.mulI a .nan = .nan := by cases a <;> rfl
theorem IntTy.denote_of_isNan {t : IntTy} {π : Policy} {x : Int} (h : t.isNan π x = true) : t.denote π x = .nan := by
  simp [IntTy.denote, h]

theorem addMulExt_ok {t : IntTy} {π : Policy} (w : t.WF π) (hl : t.LargerOK) (hco : π.checkOverflow = true)
    (dir : Dir) {to0 x y : Int} (h0 : t.inRange to0) (hx : t.inRange x) (hy : t.inRange y)
    (hpre : π.checkInfAddInf = true ∨
      ¬ ((t.denote π to0 = .minf ∧ Ext.mulI (t.denote π x) (t.denote π y) = .pinf) ∨
         (t.denote π to0 = .pinf ∧ Ext.mulI (t.denote π x) (t.denote π y) = .minf))) :
    OK t π dir (addMulExt t π to0 x y dir) (Ext.addI (t.denote π to0) (Ext.mulI (t.denote π x) (t.denote π y))) := by
  unfold addMulExt
  by_cases hn : (t.isNan π to0 || t.isNan π x || t.isNan π y) = true
  · simp only [hn, if_true]
    have : Ext.addI (t.denote π to0) (Ext.mulI (t.denote π x) (t.denote π y)) = .nan := by
      simp only [Bool.or_eq_true] at hn
      rcases hn with (h | h) | h
      · rw [IntTy.denote_of_isNan h]; rfl
      · rw [IntTy.denote_of_isNan h, Ext.mulI_nan_left, Ext.addI_nan_right]
      · rw [IntTy.denote_of_isNan h, Ext.mulI_nan_right, Ext.addI_nan_right]
    rw [this]
    exact okNanSpecial w dir h0
  · have hn' : (t.isNan π to0 || t.isNan π x || t.isNan π y) = false := by simpa using hn
    simp only [hn', Bool.false_eq_true, if_false]
    simp only [Bool.or_eq_false_iff] at hn'
    obtain ⟨⟨nz, nx⟩, ny⟩ := hn'
    rcases mulInfClass_spec w hx hy nx ny with ⟨e, fx, fy, dx, dy⟩ | ⟨c, hc, e, hm⟩
    · rw [e, dx, dy]
      simp only [Ext.mulI]
      rcases IntTy.denote_cases w h0 with ⟨a, d⟩ | ⟨a, b, c, d⟩ | ⟨a, b, c, d⟩ | ⟨a, b, c, d, f⟩
      · rw [a] at nz; cases nz
      · simp only [b, if_true, d, Ext.addI]; exact okMinf w dir h0
      · simp only [b, c, Bool.false_eq_true, if_false, if_true, d, Ext.addI]; exact okPinf w dir h0
      · simp only [b, c, Bool.false_eq_true, if_false, d, Ext.addI]
        exact addMul_ok w hl hco dir f fx fy
    · rw [e, hm]
      rw [hm] at hpre
      cases c
      · exact absurd rfl hc
      · -- product is -inf
        simp only [Ext.ofCls] at hpre ⊢
        rcases IntTy.denote_cases w h0 with ⟨a, d⟩ | ⟨a, b, c, d⟩ | ⟨a, b, c, d⟩ | ⟨a, b, c, d, f⟩
        · rw [a] at nz; cases nz
        · simp only [c, Bool.and_false, Bool.false_eq_true, if_false, d, Ext.addI]; exact okMinf w dir h0
        · rw [d] at hpre
          simp only [c, Bool.and_true, d, Ext.addI]
          rcases hpre with h | h
          · rw [if_pos h]; exact okNanReason w dir h0 rfl
          · exact absurd (by simp) h
        · simp only [c, Bool.and_false, Bool.false_eq_true, if_false, d, Ext.addI]; exact okMinf w dir h0
      · -- product is +inf
        simp only [Ext.ofCls] at hpre ⊢
        rcases IntTy.denote_cases w h0 with ⟨a, d⟩ | ⟨a, b, c, d⟩ | ⟨a, b, c, d⟩ | ⟨a, b, c, d, f⟩
        · rw [a] at nz; cases nz
        · rw [d] at hpre
          simp only [b, Bool.and_true, d, Ext.addI]
          rcases hpre with h | h
          · rw [if_pos h]; exact okNanReason w dir h0 rfl
          · exact absurd (by simp) h
        · simp only [b, Bool.and_false, Bool.false_eq_true, if_false, d, Ext.addI]; exact okPinf w dir h0
        · simp only [b, Bool.and_false, Bool.false_eq_true, if_false, d, Ext.addI]; exact okPinf w dir h0
      · -- inf * 0
        simp only [Ext.ofCls]
        rw [Ext.addI_nan_right]
        exact okNanReason w dir h0 rfl
theorem subMulExt_ok {t : IntTy} {π : Policy} (w : t.WF π) (hl : t.LargerOK) (hco : π.checkOverflow = true)
    (dir : Dir) {to0 x y : Int} (h0 : t.inRange to0) (hx : t.inRange x) (hy : t.inRange y)
    (hpre : π.checkInfSubInf = true ∨
      ¬ ((t.denote π to0 = .minf ∧ Ext.mulI (t.denote π x) (t.denote π y) = .minf) ∨
         (t.denote π to0 = .pinf ∧ Ext.mulI (t.denote π x) (t.denote π y) = .pinf))) :
    OK t π dir (subMulExt t π to0 x y dir) (Ext.subI (t.denote π to0) (Ext.mulI (t.denote π x) (t.denote π y))) := by
  unfold Ext.subI
  unfold subMulExt
  by_cases hn : (t.isNan π to0 || t.isNan π x || t.isNan π y) = true
  · simp only [hn, if_true]
    have : Ext.addI (t.denote π to0) (Ext.negI (Ext.mulI (t.denote π x) (t.denote π y))) = .nan := by
      simp only [Bool.or_eq_true] at hn
      rcases hn with (h | h) | h
      · rw [IntTy.denote_of_isNan h]; rfl
      · rw [IntTy.denote_of_isNan h, Ext.mulI_nan_left]; exact Ext.addI_nan_right _
      · rw [IntTy.denote_of_isNan h, Ext.mulI_nan_right]; exact Ext.addI_nan_right _
    rw [this]
    exact okNanSpecial w dir h0
  · have hn' : (t.isNan π to0 || t.isNan π x || t.isNan π y) = false := by simpa using hn
    simp only [hn', Bool.false_eq_true, if_false]
    simp only [Bool.or_eq_false_iff] at hn'
    obtain ⟨⟨nz, nx⟩, ny⟩ := hn'
    rcases mulInfClass_spec w hx hy nx ny with ⟨e, fx, fy, dx, dy⟩ | ⟨c, hc, e, hm⟩
    · rw [e, dx, dy]
      simp only [Ext.mulI, Ext.negI]
      rcases IntTy.denote_cases w h0 with ⟨a, d⟩ | ⟨a, b, c, d⟩ | ⟨a, b, c, d⟩ | ⟨a, b, c, d, f⟩
      · rw [a] at nz; cases nz
      · simp only [b, if_true, d, Ext.addI]; exact okMinf w dir h0
      · simp only [b, c, Bool.false_eq_true, if_false, if_true, d, Ext.addI]; exact okPinf w dir h0
      · simp only [b, c, Bool.false_eq_true, if_false, d, Ext.addI]
        have := subMul_ok w hl hco dir f fx fy
        simpa [Int.sub_eq_add_neg] using this
    · rw [e, hm]
      rw [hm] at hpre
      cases c
      · exact absurd rfl hc
      · -- product is -inf
        simp only [Ext.ofCls, Ext.negI] at hpre ⊢
        rcases IntTy.denote_cases w h0 with ⟨a, d⟩ | ⟨a, b, c, d⟩ | ⟨a, b, c, d⟩ | ⟨a, b, c, d, f⟩
        · rw [a] at nz; cases nz
        · rw [d] at hpre
          simp only [b, Bool.and_true, d, Ext.addI]
          rcases hpre with h | h
          · rw [if_pos h]; exact okNanReason w dir h0 rfl
          · exact absurd (by simp) h
        · simp only [b, Bool.and_false, Bool.false_eq_true, if_false, d, Ext.addI]; exact okPinf w dir h0
        · simp only [b, Bool.and_false, Bool.false_eq_true, if_false, d, Ext.addI]; exact okPinf w dir h0
      · -- product is +inf
        simp only [Ext.ofCls, Ext.negI] at hpre ⊢
        rcases IntTy.denote_cases w h0 with ⟨a, d⟩ | ⟨a, b, c, d⟩ | ⟨a, b, c, d⟩ | ⟨a, b, c, d, f⟩
        · rw [a] at nz; cases nz
        · simp only [c, Bool.and_false, Bool.false_eq_true, if_false, d, Ext.addI]; exact okMinf w dir h0
        · rw [d] at hpre
          simp only [c, Bool.and_true, d, Ext.addI]
          rcases hpre with h | h
          · rw [if_pos h]; exact okNanReason w dir h0 rfl
          · exact absurd (by simp) h
        · simp only [c, Bool.and_false, Bool.false_eq_true, if_false, d, Ext.addI]; exact okMinf w dir h0
      · -- inf * 0
        simp only [Ext.ofCls, Ext.negI]
        rw [Ext.addI_nan_right]
        exact okNanReason w dir h0 rfl

end PPLV.Checked
