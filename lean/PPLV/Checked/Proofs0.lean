import PPLV.Checked.Spec
/-!
# C11 proofs, part 0: the type layouts and the three ways an integer operation can end

`OK t π dir out exact` bundles the clauses of C11 for one outcome `out = (stored, code)`:
the code's relation holds, directed rounding is honoured, an overflow claim is true, the stored
value is a bit pattern of the type (no wrap), and a NaN is stored for a NaN-class code whenever
the policy has one.  The building blocks: an exactly representable result stored with `V_EQ`,
`set_neg_overflow_int`, `set_pos_overflow_int`.
-/
namespace PPLV.Checked
open Result

theorem pow2_succ (n : Nat) : pow2 (n + 1) = 2 * pow2 n := by
  rw [pow2_eq, pow2_eq, Int.pow_succ, Int.mul_comm]

theorem pow2_pos (n : Nat) : 1 ≤ pow2 n := by
  induction n with
  | zero => decide
  | succ n ih => rw [pow2_succ]; omega

theorem pow2_add (m n : Nat) : pow2 (m + n) = pow2 m * pow2 n := by
  rw [pow2_eq, pow2_eq, pow2_eq, Int.pow_add]

theorem pow2_le_pow2 {m n : Nat} (h : m ≤ n) : pow2 m ≤ pow2 n := by
  obtain ⟨k, rfl⟩ := Nat.exists_eq_add_of_le h
  rw [pow2_add]
  have h1 := pow2_pos m
  have h2 := pow2_pos k
  have : pow2 m * 1 ≤ pow2 m * pow2 k := Int.mul_le_mul_of_nonneg_left h2 (by omega)
  omega

/-- split on signedness and the two special-value flags, simplify, finish with `omega` -/
macro "layout_cases" t:term:max p:term:max : tactic => `(tactic|
  (cases hs : ($t).signed <;> cases hn : ($p).hasNan <;> cases hi : ($p).hasInfinity <;>
    simp [hs, hn, hi] at * <;>
    (try (repeat' apply And.intro)) <;>
    (try omega) <;> (try ((repeat' split) <;> first | rfl | omega | (exfalso; omega)))))

/-- well-formed combination of a type and a policy: at least one bit; at least three when the
policy reserves bit patterns for special values (so that `min ≤ 0 ≤ max` stay finite values). -/
structure IntTy.WF (t : IntTy) (π : Policy) : Prop where
  bits_pos : 1 ≤ t.bits
  room : (π.hasNan = true ∨ π.hasInfinity = true) → 3 ≤ t.bits

theorem IntTy.half_pos (t : IntTy) : 1 ≤ t.half := pow2_pos _

theorem IntTy.half_ge4 (t : IntTy) (h : 3 ≤ t.bits) : 4 ≤ t.half := by
  unfold IntTy.half
  obtain ⟨k, hk⟩ : ∃ k, t.bits - 1 = k + 2 := ⟨t.bits - 3, by omega⟩
  rw [hk, pow2_succ, pow2_succ]
  have := pow2_pos k
  omega

/-- the facts about `half` that every layout argument needs -/
theorem IntTy.WF.half_facts {t : IntTy} {π : Policy} (w : t.WF π) :
    1 ≤ t.half ∧ ((π.hasNan = true ∨ π.hasInfinity = true) → 4 ≤ t.half) :=
  ⟨t.half_pos, fun h => t.half_ge4 (w.room h)⟩

/-- all clauses for one outcome -/
structure OK (t : IntTy) (π : Policy) (dir : Dir) (out : Int × Result) (exact : Ext Int) : Prop where
  holds : K4.holds out.2 (t.denote π out.1) exact
  directed : K4.directed dir out.2 (t.denote π out.1) exact
  overflow : K4.overflowHolds out.2 (t.emin π) (t.emax π) exact
  no_wrap : t.inRange out.1
  nan_stored : out.2.cls = .nan → π.hasNan = true → t.isNan π out.1 = true

/-- layout: a finite value is in range of the C type and is none of the special encodings -/
theorem IntTy.finite_inRange {t : IntTy} {π : Policy} {v : Int} (h : t.finite π v) : t.inRange v := by
  have hp := t.half_pos
  obtain ⟨h1, h2⟩ := h
  unfold IntTy.emin at h1; unfold IntTy.emax at h2
  unfold IntTy.inRange IntTy.cmin IntTy.cmax at *
  unfold b2i at *
  generalize t.half = H at *
  layout_cases t π

theorem IntTy.denote_finite {t : IntTy} {π : Policy} (w : t.WF π) {v : Int} (h : t.finite π v) :
    t.denote π v = .fin v := by
  obtain ⟨hp, hr⟩ := w.half_facts
  obtain ⟨h1, h2⟩ := h
  unfold IntTy.emin at h1; unfold IntTy.emax at h2
  unfold IntTy.denote IntTy.isNan IntTy.isMinf IntTy.isPinf IntTy.nanV IntTy.minusInf IntTy.plusInf
  unfold IntTy.cmin IntTy.cmax b2i at *
  generalize t.half = H at *
  layout_cases t π

theorem IntTy.emin_le_emax {t : IntTy} {π : Policy} (w : t.WF π) : t.emin π ≤ 0 ∧ 0 ≤ t.emax π := by
  obtain ⟨hp, hr⟩ := w.half_facts
  unfold IntTy.emin IntTy.emax IntTy.cmin IntTy.cmax b2i
  generalize t.half = H at *
  layout_cases t π

theorem IntTy.finite_emin {t : IntTy} {π : Policy} (w : t.WF π) : t.finite π (t.emin π) := by
  have := IntTy.emin_le_emax w
  exact ⟨Int.le_refl _, by omega⟩

theorem IntTy.finite_emax {t : IntTy} {π : Policy} (w : t.WF π) : t.finite π (t.emax π) := by
  have := IntTy.emin_le_emax w
  exact ⟨by omega, Int.le_refl _⟩

theorem IntTy.denote_minusInf {t : IntTy} {π : Policy} (w : t.WF π) (hi : π.hasInfinity = true) :
    t.denote π t.minusInf = .minf ∧ t.inRange t.minusInf := by
  obtain ⟨hp, hr⟩ := w.half_facts
  have h4 := hr (Or.inr hi)
  unfold IntTy.denote IntTy.isNan IntTy.isMinf IntTy.isPinf IntTy.nanV IntTy.minusInf IntTy.plusInf IntTy.inRange
  unfold IntTy.cmin IntTy.cmax b2i
  generalize t.half = H at *
  layout_cases t π

theorem IntTy.denote_plusInf {t : IntTy} {π : Policy} (w : t.WF π) (hi : π.hasInfinity = true) :
    t.denote π t.plusInf = .pinf ∧ t.inRange t.plusInf := by
  obtain ⟨hp, hr⟩ := w.half_facts
  have h4 := hr (Or.inr hi)
  unfold IntTy.denote IntTy.isNan IntTy.isMinf IntTy.isPinf IntTy.nanV IntTy.minusInf IntTy.plusInf IntTy.inRange
  unfold IntTy.cmin IntTy.cmax b2i
  generalize t.half = H at *
  layout_cases t π

theorem IntTy.denote_nanV {t : IntTy} {π : Policy} (w : t.WF π) (hn : π.hasNan = true) :
    t.isNan π (t.nanV π) = true ∧ t.inRange (t.nanV π) := by
  obtain ⟨hp, hr⟩ := w.half_facts
  have h4 := hr (Or.inl hn)
  unfold IntTy.isNan IntTy.nanV IntTy.inRange
  unfold IntTy.cmin IntTy.cmax b2i
  generalize t.half = H at *
  layout_cases t π

/-! ## the three endings -/

/-- a representable exact result stored with `V_EQ` -/
theorem ok_eq {t : IntTy} {π : Policy} (w : t.WF π) (dir : Dir) {v : Int} (h : t.finite π v) :
    OK t π dir (v, V_EQ) (.fin v) := by
  have hd := IntTy.denote_finite w h
  refine ⟨?_, ?_, ?_, IntTy.finite_inRange h, ?_⟩
  · simp [K4.holds, V_EQ, hd, K4.relHolds, Rel.EQ, Ext.eqv]
  · simp [K4.directed, V_EQ, hd, Ext.le, Ext.eqv]
  · simp [K4.overflowHolds, V_EQ]
  · simp [V_EQ]

/-- `set_neg_overflow_int` when the exact result is below the finite range -/
theorem ok_negOverflow {t : IntTy} {π : Policy} (w : t.WF π) (dir : Dir) {to0 e : Int}
    (h0 : t.inRange to0) (he : e < t.emin π) :
    OK t π dir (setNegOverflow t π to0 dir) (.fin e) := by
  unfold setNegOverflow
  split
  · -- round up: store min, V_LT_INF
    rename_i hup
    have hd := IntTy.denote_finite w (IntTy.finite_emin w)
    refine ⟨?_, ?_, ?_, IntTy.finite_inRange (IntTy.finite_emin w), ?_⟩
    · simp [K4.holds, V_LT_INF, hd, K4.relHolds, Rel.LT, Ext.lt, he]
    · simp [K4.directed, V_LT_INF, hd, Ext.le, Ext.lt]
      exact ⟨fun _ => Or.inl he, fun h => by simp [Dir.roundUp, h] at hup⟩
    · simp [K4.overflowHolds, V_LT_INF, Rel.LT, Rel.GT, Ext.lt, he]
    · simp [V_LT_INF]
  · rename_i hup
    split
    · rename_i hi
      obtain ⟨hd, hr⟩ := IntTy.denote_minusInf w hi
      refine ⟨?_, ?_, ?_, hr, ?_⟩
      · simp [K4.holds, V_GT_MINUS_INFINITY, hd, K4.relHolds, Rel.GT, Ext.lt]
      · simp [K4.directed, V_GT_MINUS_INFINITY, hd, Ext.le, Ext.lt]
        intro h; simp [Dir.roundUp, h] at hup
      · simp [K4.overflowHolds, V_GT_MINUS_INFINITY, Rel.LT, Rel.GT, Ext.lt, he]
      · simp [V_GT_MINUS_INFINITY]
    · refine ⟨?_, ?_, ?_, h0, ?_⟩
      · simp [K4.holds, V_GT_MINUS_INFINITY, orUnrep, K4.relHolds, Rel.GT, Ext.lt]
      · simp [K4.directed, V_GT_MINUS_INFINITY, orUnrep]
      · simp [K4.overflowHolds, V_GT_MINUS_INFINITY, orUnrep, Rel.LT, Rel.GT, Ext.lt, he]
      · simp [V_GT_MINUS_INFINITY, orUnrep]

/-- `set_pos_overflow_int` when the exact result is above the finite range -/
theorem ok_posOverflow {t : IntTy} {π : Policy} (w : t.WF π) (dir : Dir) {to0 e : Int}
    (h0 : t.inRange to0) (he : t.emax π < e) :
    OK t π dir (setPosOverflow t π to0 dir) (.fin e) := by
  unfold setPosOverflow
  split
  · rename_i hdn
    have hd := IntTy.denote_finite w (IntTy.finite_emax w)
    refine ⟨?_, ?_, ?_, IntTy.finite_inRange (IntTy.finite_emax w), ?_⟩
    · simp [K4.holds, V_GT_SUP, hd, K4.relHolds, Rel.GT, Ext.lt, he]
    · simp [K4.directed, V_GT_SUP, hd, Ext.le, Ext.lt]
      exact ⟨fun h => by simp [Dir.roundDown, h] at hdn, fun _ => Or.inl he⟩
    · simp [K4.overflowHolds, V_GT_SUP, Rel.LT, Rel.GT, Ext.lt, he]
    · simp [V_GT_SUP]
  · rename_i hdn
    split
    · rename_i hi
      obtain ⟨hd, hr⟩ := IntTy.denote_plusInf w hi
      refine ⟨?_, ?_, ?_, hr, ?_⟩
      · simp [K4.holds, V_LT_PLUS_INFINITY, hd, K4.relHolds, Rel.LT, Ext.lt]
      · simp [K4.directed, V_LT_PLUS_INFINITY, hd, Ext.le, Ext.lt]
        intro h; simp [Dir.roundDown, h] at hdn
      · simp [K4.overflowHolds, V_LT_PLUS_INFINITY, Rel.LT, Rel.GT, Ext.lt, he]
      · simp [V_LT_PLUS_INFINITY]
    · refine ⟨?_, ?_, ?_, h0, ?_⟩
      · simp [K4.holds, V_LT_PLUS_INFINITY, orUnrep, K4.relHolds, Rel.LT, Ext.lt]
      · simp [K4.directed, V_LT_PLUS_INFINITY, orUnrep]
      · simp [K4.overflowHolds, V_LT_PLUS_INFINITY, orUnrep, Rel.LT, Rel.GT, Ext.lt, he]
      · simp [V_LT_PLUS_INFINITY, orUnrep]

/-- **The three endings of an exact integer operation** whose mathematical result is `e`:
stored exactly with `V_EQ`, or `set_neg_overflow_int` because `e` is below the finite range, or
`set_pos_overflow_int` because it is above. -/
def Tri (t : IntTy) (π : Policy) (dir : Dir) (to0 : Int) (out : Int × Result) (e : Int) : Prop :=
  (out = (e, V_EQ) ∧ t.finite π e) ∨ (e < t.emin π ∧ out = setNegOverflow t π to0 dir)
    ∨ (t.emax π < e ∧ out = setPosOverflow t π to0 dir)

theorem tri_eq {t : IntTy} {π : Policy} {dir : Dir} {to0 v : Int} (h : t.finite π v) :
    Tri t π dir to0 (v, V_EQ) v := Or.inl ⟨rfl, h⟩
theorem tri_neg {t : IntTy} {π : Policy} {dir : Dir} {to0 e : Int} (h : e < t.emin π) :
    Tri t π dir to0 (setNegOverflow t π to0 dir) e := Or.inr (Or.inl ⟨h, rfl⟩)
theorem tri_pos {t : IntTy} {π : Policy} {dir : Dir} {to0 e : Int} (h : t.emax π < e) :
    Tri t π dir to0 (setPosOverflow t π to0 dir) e := Or.inr (Or.inr ⟨h, rfl⟩)

theorem tri_ok {t : IntTy} {π : Policy} (w : t.WF π) {dir : Dir} {to0 : Int} (h0 : t.inRange to0)
    {out : Int × Result} {e : Int} (h : Tri t π dir to0 out e) : OK t π dir out (.fin e) := by
  rcases h with ⟨rfl, hf⟩ | ⟨he, rfl⟩ | ⟨he, rfl⟩
  · exact ok_eq w dir hf
  · exact ok_negOverflow w dir h0 he
  · exact ok_posOverflow w dir h0 he

end PPLV.Checked
