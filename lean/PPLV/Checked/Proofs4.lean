import PPLV.Checked.Proofs3
/-!
# C11 proofs, part 4: fused multiply-add and multiply-subtract

After a positive overflow of the product `sub_mul_int` claims a negative overflow when `to < 0`, and
for `to = 0` only if the finite range is symmetric (`min + max ≥ 0`); on the asymmetric two's
complement range `0 - (max + 1) = min` is representable and the answer is "unknown"
(/repo 295149f; before: `to ≤ 0`, `C11.subMul_holds_before_fix_fails`).
-/
namespace PPLV.Checked
open Result

theorem IntTy.wrap_of_inRange {t : IntTy} {v : Int} (h : t.inRange v) : t.wrap v = v := by
  have hp := t.half_pos
  unfold IntTy.inRange IntTy.cmin IntTy.cmax at h
  unfold IntTy.wrap
  cases hs : t.signed <;> simp [hs] at h ⊢
  · exact Int.emod_eq_of_lt (by omega) (by omega)
  · rw [Int.emod_eq_of_lt (by omega) (by omega)]; omega

/-- a NaN-class outcome produced by `assign_nan` -/
theorem ok_assignNan {t : IntTy} {π : Policy} (w : t.WF π) (dir : Dir) {to0 : Int} (h0 : t.inRange to0)
    {r : Result} (hr : r.cls = .nan) {exact : Ext Int} (hx : K4.nanReasonHolds r.reason exact) :
    OK t π dir (assignNan t π to0 r) exact := by
  unfold assignNan assignSpecial
  refine ⟨?_, ?_, ?_, ?_, ?_⟩
  · simp [K4.holds, hr, hx]
  · simp [K4.directed, hr]
  · simp [K4.overflowHolds, hr]
  · simp only []
    split
    · rename_i hn; exact (IntTy.denote_nanV w hn).2
    · exact h0
  · intro _ hn
    simp [hn]
    exact (IntTy.denote_nanV w hn).1

theorem resultOverflow_setNeg (t : IntTy) (π : Policy) (to0 : Int) (dir : Dir) :
    (setNegOverflow t π to0 dir).2.resultOverflow = -1 := by
  unfold setNegOverflow
  split
  · rfl
  · split <;> rfl

theorem resultOverflow_setPos (t : IntTy) (π : Policy) (to0 : Int) (dir : Dir) :
    (setPosOverflow t π to0 dir).2.resultOverflow = 1 := by
  unfold setPosOverflow
  split
  · rfl
  · split <;> rfl

/-- `-min ≥ max` in every layout; `-min ≤ max` needs a NaN pattern or an unsigned type -/
theorem IntTy.neg_emin_ge_emax {t : IntTy} {π : Policy} (w : t.WF π) (hsg : t.signed = true) :
    t.emax π ≤ -(t.emin π) := by
  obtain ⟨hp, hr⟩ := w.half_facts
  unfold IntTy.emin IntTy.emax IntTy.cmin IntTy.cmax b2i
  generalize t.half = H at *
  layout_cases t π

theorem IntTy.neg_emin_le_emax {t : IntTy} {π : Policy} (w : t.WF π) (h : π.hasNan = true ∨ t.signed = false) :
    -(t.emin π) ≤ t.emax π := by
  obtain ⟨hp, hr⟩ := w.half_facts
  unfold IntTy.emin IntTy.emax IntTy.cmin IntTy.cmax b2i
  generalize t.half = H at *
  layout_cases t π

/-- a finite bound above the exact result, reported with `V_LT` under ROUND_UP -/
theorem ok_bound_lt {t : IntTy} {π : Policy} (w : t.WF π) {dir : Dir} {s e : Int} (hf : t.finite π s)
    (h : e < s) (hup : dir.roundUp = true) : OK t π dir (s, V_LT) (.fin e) := by
  have hd := IntTy.denote_finite w hf
  have hdir : dir = Dir.up := by simpa [Dir.roundUp] using hup
  refine ⟨?_, ?_, ?_, IntTy.finite_inRange hf, ?_⟩
  · simp [K4.holds, V_LT, hd, K4.relHolds, Rel.LT, Ext.lt, h]
  · simp [K4.directed, V_LT, hd, Ext.le, Ext.lt, hdir]; left; exact h
  · simp [K4.overflowHolds, V_LT]
  · simp [V_LT]

/-- a finite bound below the exact result, reported with `V_GT` under ROUND_DOWN -/
theorem ok_bound_gt {t : IntTy} {π : Policy} (w : t.WF π) {dir : Dir} {s e : Int} (hf : t.finite π s)
    (h : s < e) (hdn : dir.roundDown = true) : OK t π dir (s, V_GT) (.fin e) := by
  have hd := IntTy.denote_finite w hf
  have hdir : dir = Dir.down := by simpa [Dir.roundDown] using hdn
  refine ⟨?_, ?_, ?_, IntTy.finite_inRange hf, ?_⟩
  · simp [K4.holds, V_GT, hd, K4.relHolds, Rel.GT, Ext.lt, h]
  · simp [K4.directed, V_GT, hd, Ext.le, Ext.lt, hdir]; left; exact h
  · simp [K4.overflowHolds, V_GT]
  · simp [V_GT]

theorem addMul_ok {t : IntTy} {π : Policy} (w : t.WF π) (hl : t.LargerOK)
    (hco : π.checkOverflow = true) (dir : Dir) {to0 x y : Int} (h0 : t.finite π to0)
    (hx : t.finite π x) (hy : t.finite π y) :
    OK t π dir (addMul t π to0 x y dir) (.fin (to0 + x * y)) := by
  have hr0 := IntTy.finite_inRange h0
  obtain ⟨hmin, hmax⟩ := IntTy.emin_le_emax w
  have hz : t.inRange 0 := IntTy.finite_inRange (π := π) ⟨hmin, hmax⟩
  unfold addMul
  rcases mul_tri w hl hco dir hz hx hy with ⟨e, hf⟩ | ⟨he, e⟩ | ⟨he, e⟩
  · rw [e]
    simp only [show (V_EQ).resultOverflow = 0 from rfl, beq_self_eq_true, if_true]
    rw [IntTy.wrap_of_inRange (IntTy.finite_inRange hf)]
    exact tri_ok w hr0 (add_tri w hl hco dir hr0 h0 (IntTy.finite_inRange hf))
  · rw [e]
    simp only [resultOverflow_setNeg, show ((-1 : Int) == 0) = false from rfl,
      show ((-1 : Int) == -1) = true from rfl, if_true, Bool.false_eq_true, if_false]
    split
    · exact tri_ok w hr0 (tri_neg (by omega))
    · split
      · rename_i hto hup
        exact ok_bound_lt w ⟨by omega, by have := h0.2; omega⟩ (by omega) hup
      · exact ok_assignNan w dir hr0 rfl (Or.inl rfl)
  · rw [e]
    simp only [resultOverflow_setPos, show ((1 : Int) == 0) = false from rfl,
      show ((1 : Int) == -1) = false from rfl, Bool.false_eq_true, if_false]
    split
    · exact tri_ok w hr0 (tri_pos (by omega))
    · split
      · rename_i hto hdn
        exact ok_bound_gt w ⟨by have := h0.1; omega, by omega⟩ (by omega) hdn
      · exact ok_assignNan w dir hr0 rfl (Or.inr (Or.inl rfl))

/-- **`sub_mul_int`** (as repaired by /repo 295149f) -/
theorem subMul_ok {t : IntTy} {π : Policy} (w : t.WF π) (hl : t.LargerOK)
    (hco : π.checkOverflow = true) (dir : Dir) {to0 x y : Int} (h0 : t.finite π to0)
    (hx : t.finite π x) (hy : t.finite π y) :
    OK t π dir (subMul t π to0 x y dir) (.fin (to0 - x * y)) := by
  have hr0 := IntTy.finite_inRange h0
  obtain ⟨hmin, hmax⟩ := IntTy.emin_le_emax w
  have hz : t.inRange 0 := IntTy.finite_inRange (π := π) ⟨hmin, hmax⟩
  have hge : t.signed = true → t.emax π ≤ -(t.emin π) := IntTy.neg_emin_ge_emax w
  have hle : -(t.emin π) ≤ t.emax π + 1 ∨ t.signed = false := by
    cases hs : t.signed
    · exact Or.inr rfl
    · left
      obtain ⟨hp, hr⟩ := w.half_facts
      unfold IntTy.emin IntTy.emax IntTy.cmin IntTy.cmax b2i
      generalize t.half = H at *
      layout_cases t π
  have hun : t.signed = false → 0 ≤ x * y ∧ t.emin π = 0 := fun hs =>
    ⟨Int.mul_nonneg (by have := (IntTy.finite_bounds hx).2 hs; omega) (by have := (IntTy.finite_bounds hy).2 hs; omega),
     by simp [IntTy.emin, IntTy.cmin, hs]⟩
  unfold subMul
  rcases mul_tri w hl hco dir hz hx hy with ⟨e, hf⟩ | ⟨he, e⟩ | ⟨he, e⟩
  · rw [e]
    simp only [show (V_EQ).resultOverflow = 0 from rfl, beq_self_eq_true, if_true]
    rw [IntTy.wrap_of_inRange (IntTy.finite_inRange hf)]
    exact tri_ok w hr0 (sub_tri w hl hco dir hr0 h0 (IntTy.finite_inRange hf))
  · rw [e]
    simp only [resultOverflow_setNeg, show ((-1 : Int) == 0) = false from rfl,
      show ((-1 : Int) == -1) = true from rfl, if_true, Bool.false_eq_true, if_false]
    split
    · apply tri_ok w hr0 (tri_pos _)
      cases hs : t.signed
      · have := hun hs; omega
      · have := hge hs; omega
    · split
      · rename_i hto hdn
        have h01 := h0.1; have h02 := h0.2
        refine ok_bound_gt w ⟨by omega, ?_⟩ (by omega) hdn
        rcases hle with h | h
        · omega
        · have := hun h; omega
      · exact ok_assignNan w dir hr0 rfl (Or.inl rfl)
  · rw [e]
    simp only [resultOverflow_setPos, show ((1 : Int) == 0) = false from rfl,
      show ((1 : Int) == -1) = false from rfl, Bool.false_eq_true, if_false]
    split
    · rename_i hc
      apply tri_ok w hr0 (tri_neg _)
      simp only [Bool.or_eq_true, decide_eq_true_eq, Bool.and_eq_true, beq_iff_eq] at hc
      have h01 := h0.1
      rcases hc with hc | ⟨hc1, hc2⟩
      · rcases hle with h | h
        · omega
        · have := hun h; omega
      · omega
    · split
      · rename_i hc hup
        simp only [Bool.and_eq_true, decide_eq_true_eq] at hup
        simp only [Bool.or_eq_true, decide_eq_true_eq, Bool.and_eq_true, beq_iff_eq, not_or] at hc
        have h02 := h0.2
        have hsg : t.signed = true := by
          cases hs : t.signed
          · have := (hun hs).2; omega
          · rfl
        have := hge hsg
        exact ok_bound_lt w ⟨by omega, by omega⟩ (by omega) hup.1
      · exact ok_assignNan w dir hr0 rfl (Or.inr (Or.inl rfl))

end PPLV.Checked
