import PPLV.Checked.ProofsExt
/-!
# C11 proofs, part 9: the extended layer for division, remainder and the power-of-two operations
-/
namespace PPLV.Checked
open Result

/-- the rational value of an executable `Exact` (a square root has none: `sqrt` is not covered) -/
def Exact.toQ : Exact → Ext Rat
  | .nan => .nan | .minf => .minf | .pinf => .pinf
  | .frac n d => .fin ((n : Rat) / (d : Rat))
  | .sqrt _ _ => .nan

theorem Exact.toQ_ofExt (a : Ext Int) : (Exact.ofExt a).toQ = a.map Int.cast := by
  cases a <;> simp [Exact.ofExt, Exact.ofInt, Exact.toQ, Ext.map]

theorem exactDiv_fin_toQ (x y : Int) : (exactDiv (.fin x) (.fin y)).toQ = divExactQ x y := by
  unfold exactDiv divExactQ
  by_cases hz : y = 0
  · simp [hz, Exact.toQ]
  · have hb : (y == 0) = false := by simpa using hz
    simp only [hb, Bool.false_eq_true, if_false, hz]
    split
    · simp only [Exact.toQ]; congr 1; push_cast; rw [neg_div_neg_eq]
    · rfl

theorem divExt_okq {t : IntTy} {π : Policy} (w : t.WF π) (hl : t.LargerOK) (hco : π.checkOverflow = true)
    (dir : Dir) {to0 x y : Int} (h0 : t.inRange to0) (hx : t.inRange x) (hy : t.inRange y)
    (hpre1 : π.checkInfDivInf = true ∨ ¬ ((t.denote π x).isInf = true ∧ (t.denote π y).isInf = true))
    (hpre2 : π.checkDivZero = true ∨ ¬ (t.denote π y = .fin 0 ∧ ∃ v, t.denote π x = .fin v)) :
    OKQ t π dir (divExt t π to0 x y dir) (exactDiv (t.denote π x) (t.denote π y)).toQ := by
  unfold divExt divLikeExt sgnNative
  rcases IntTy.denote_cases w hx with ⟨a, d⟩ | ⟨a, b, c, d⟩ | ⟨a, b, c, d⟩ | ⟨a, b, c, d, f⟩ <;>
  rcases IntTy.denote_cases w hy with ⟨a', d'⟩ | ⟨a', b', c', d'⟩ | ⟨a', b', c', d'⟩ | ⟨a', b', c', d', f'⟩ <;>
  (try rw [d, d'] at hpre1) <;> (try rw [d, d'] at hpre2) <;> ext_simp <;> simp only [exactDiv, Exact.toQ]
  all_goals first
    | exact ok_toQ (okNanSpecial w dir h0)
    | skip
  -- inf / inf
  all_goals first
    | (rcases hpre1 with h | h
       · rw [if_pos h]; exact ok_toQ (okNanReason w dir h0 rfl)
       · exact absurd (by simp [Ext.isInf]) h; done)
    | skip
  -- inf / finite
  all_goals first
    | (rcases sgn_cases y with ⟨s1, s2, s3⟩ | s1 | ⟨s1, s2, s3⟩ <;> (try subst s1) <;>
        simp [*, Rel.GT, Rel.LT, Rel.EQ, Ext.sgnI] <;>
        first
          | exact ok_toQ (okMinf w dir h0)
          | exact ok_toQ (okPinf w dir h0)
          | exact ok_toQ (okNanReason w dir h0 rfl); done)
    | skip
  -- finite / inf
  all_goals first
    | (have hz : t.finite π 0 := ⟨(IntTy.emin_le_emax w).1, (IntTy.emin_le_emax w).2⟩
       have := ok_toQ (ok_eq w dir hz)
       simpa [Exact.ofInt, Exact.toQ, Ext.map] using this; done)
    | skip
  -- finite / finite
  have hdz : π.checkDivZero = true ∨ y ≠ 0 := by
    rcases hpre2 with h | h
    · exact Or.inl h
    · right; intro hy0; subst hy0; exact h ⟨rfl, x, rfl⟩
  have e := exactDiv_fin_toQ x y
  unfold exactDiv at e
  simp only [Exact.toQ] at e ⊢
  rw [e]
  unfold div
  cases hs : t.signed
  · simpa using divUnsigned_okq w hs dir h0 f f' hdz
  · simpa using divSigned_okq w hs hl hco dir h0 f f' hdz


theorem idivExt_ok {t : IntTy} {π : Policy} (w : t.WF π) (hl : t.LargerOK) (hco : π.checkOverflow = true)
    (dir : Dir) {to0 x y : Int} (h0 : t.inRange to0) (hx : t.inRange x) (hy : t.inRange y)
    (hpre1 : π.checkInfDivInf = true ∨ ¬ ((t.denote π x).isInf = true ∧ (t.denote π y).isInf = true))
    (hpre2 : π.checkDivZero = true ∨ ¬ (t.denote π y = .fin 0 ∧ ∃ v, t.denote π x = .fin v)) :
    OKQ t π dir (idivExt t π to0 x y dir) (exactIdiv (t.denote π x) (t.denote π y)).toQ := by
  unfold idivExt divLikeExt sgnNative
  rcases IntTy.denote_cases w hx with ⟨a, d⟩ | ⟨a, b, c, d⟩ | ⟨a, b, c, d⟩ | ⟨a, b, c, d, f⟩ <;>
  rcases IntTy.denote_cases w hy with ⟨a', d'⟩ | ⟨a', b', c', d'⟩ | ⟨a', b', c', d'⟩ | ⟨a', b', c', d', f'⟩ <;>
  (try rw [d, d'] at hpre1) <;> (try rw [d, d'] at hpre2) <;> ext_simp <;> simp only [exactIdiv, exactDiv, Exact.toQ]
  all_goals first
    | exact ok_toQ (okNanSpecial w dir h0)
    | skip
  all_goals first
    | (rcases hpre1 with h | h
       · rw [if_pos h]; exact ok_toQ (okNanReason w dir h0 rfl)
       · exact absurd (by simp [Ext.isInf]) h)
    | skip
  all_goals first
    | (rcases sgn_cases y with ⟨s1, s2, s3⟩ | s1 | ⟨s1, s2, s3⟩ <;> (try subst s1) <;>
        simp [*, Rel.GT, Rel.LT, Rel.EQ, Ext.sgnI] <;>
        first
          | exact ok_toQ (okMinf w dir h0)
          | exact ok_toQ (okPinf w dir h0)
          | exact ok_toQ (okNanReason w dir h0 rfl))
    | skip
  all_goals first
    | (have hz : t.finite π 0 := ⟨(IntTy.emin_le_emax w).1, (IntTy.emin_le_emax w).2⟩
       have := ok_toQ (ok_eq w dir hz)
       simpa [Exact.ofInt, Exact.toQ, Ext.map] using this)
    | skip
  -- finite / finite
  unfold idiv
  by_cases hz : y = 0
  · subst hz
    have hc : π.checkDivZero = true := by
      rcases hpre2 with h | h
      · exact h
      · exact absurd ⟨rfl, x, rfl⟩ h
    simp only [idivSigned, idivUnsigned, hc, beq_self_eq_true, Bool.and_self, if_true, ite_self, Exact.toQ]
    exact ok_toQ (okNanReason w dir h0 rfl)
  · have hb : (y == 0) = false := by simpa using hz
    simp only [hb, Bool.false_eq_true, if_false, Exact.ofInt, Exact.toQ]
    have e : (Ext.fin (((x.tdiv y : Int) : Rat) / ((1 : Int) : Rat)) : Ext Rat) = (Ext.fin (x.tdiv y)).map Int.cast := by
      simp [Ext.map]
    rw [e]
    cases hs : t.signed
    · simpa using ok_toQ (tri_ok w h0 (idivUnsigned_tri w hs dir f f' hz))
    · simpa using ok_toQ (tri_ok w h0 (idivSigned_tri w hs hl hco dir h0 f f' hz))

theorem remExt_ok {t : IntTy} {π : Policy} (w : t.WF π)
    (dir : Dir) {to0 x y : Int} (h0 : t.inRange to0) (hx : t.inRange x) (hy : t.inRange y)
    (hpre1 : π.checkInfMod = true ∨ (t.denote π x).isInf = false)
    (hpre2 : π.checkDivZero = true ∨ ¬ (t.denote π y = .fin 0 ∧ ∃ v, t.denote π x = .fin v)) :
    OKQ t π dir (remExt t π to0 x y dir) (exactRem (t.denote π x) (t.denote π y)).toQ := by
  unfold remExt
  rcases IntTy.denote_cases w hx with ⟨a, d⟩ | ⟨a, b, c, d⟩ | ⟨a, b, c, d⟩ | ⟨a, b, c, d, f⟩ <;>
  rcases IntTy.denote_cases w hy with ⟨a', d'⟩ | ⟨a', b', c', d'⟩ | ⟨a', b', c', d'⟩ | ⟨a', b', c', d', f'⟩ <;>
  (try rw [d] at hpre1) <;> (try rw [d, d'] at hpre2) <;> ext_simp <;> simp only [exactRem, Exact.toQ]
  all_goals first
    | exact ok_toQ (okNanSpecial w dir h0)
    | skip
  -- infinite dividend: only with check_inf_mod
  all_goals first
    | (rcases hpre1 with h | h
       · simp only [h, if_true]; exact ok_toQ (okNanReason w dir h0 rfl)
       · simp [Ext.isInf] at h)
    | skip
  -- finite dividend, infinite divisor: the dividend itself
  all_goals first
    | (have := ok_toQ (ok_eq w dir f)
       simpa [Exact.ofInt, Exact.toQ, Ext.map] using this)
    | skip
  -- finite / finite
  by_cases hz : y = 0
  · subst hz
    have hc : π.checkDivZero = true := by
      rcases hpre2 with h | h
      · exact h
      · exact absurd ⟨rfl, x, rfl⟩ h
    simp only [rem, remSigned, remUnsigned, hc, beq_self_eq_true, Bool.and_self, if_true, ite_self, Exact.toQ]
    exact ok_toQ (okNanReason w dir h0 rfl)
  · have hb : (y == 0) = false := by simpa using hz
    simp only [hb, Bool.false_eq_true, if_false, Exact.ofInt, Exact.toQ]
    have e : (Ext.fin (((x.tmod y : Int) : Rat) / ((1 : Int) : Rat)) : Ext Rat) = (Ext.fin (x.tmod y)).map Int.cast := by
      simp [Ext.map]
    rw [e]
    exact ok_toQ (tri_ok w h0 (rem_tri w dir f hz))

/-- `add_2exp_ext`, `sub_2exp_ext`, `mul_2exp_ext`: integer-valued -/
theorem add2expExt_ok {t : IntTy} {π : Policy} (w : t.WF π) (hl : t.LargerOK) (hb2 : t.signed = true → 2 ≤ t.bits)
    (hco : π.checkOverflow = true) (dir : Dir) {to0 x : Int} (e : Nat) (h0 : t.inRange to0) (hx : t.inRange x) :
    OK t π dir (twoExpExt t π to0 x dir fun _ => add2exp t π to0 x e dir) (Ext.addI (t.denote π x) (.fin (pow2 e))) := by
  unfold twoExpExt extUnary
  rcases IntTy.denote_cases w hx with ⟨a, d⟩ | ⟨a, b, c, d⟩ | ⟨a, b, c, d⟩ | ⟨a, b, c, d, f⟩ <;> ext_simp
  · exact okNanSpecial w dir h0
  · exact okMinf w dir h0
  · exact okPinf w dir h0
  · exact tri_ok w h0 (add2exp_tri w hl hb2 hco dir e h0 f)

theorem sub2expExt_ok {t : IntTy} {π : Policy} (w : t.WF π) (hl : t.LargerOK) (hb2 : t.signed = true → 2 ≤ t.bits)
    (hco : π.checkOverflow = true) (dir : Dir) {to0 x : Int} (e : Nat) (h0 : t.inRange to0) (hx : t.inRange x) :
    OK t π dir (twoExpExt t π to0 x dir fun _ => sub2exp t π to0 x e dir) (Ext.subI (t.denote π x) (.fin (pow2 e))) := by
  unfold twoExpExt extUnary
  rcases IntTy.denote_cases w hx with ⟨a, d⟩ | ⟨a, b, c, d⟩ | ⟨a, b, c, d⟩ | ⟨a, b, c, d, f⟩ <;> ext_simp
  · exact okNanSpecial w dir h0
  · exact okMinf w dir h0
  · exact okPinf w dir h0
  · simpa [Int.sub_eq_add_neg] using tri_ok w h0 (sub2exp_tri w hl hb2 hco dir e h0 f)

theorem mul2expExt_ok {t : IntTy} {π : Policy} (w : t.WF π)
    (hco : π.checkOverflow = true) (dir : Dir) {to0 x : Int} (e : Nat) (h0 : t.inRange to0) (hx : t.inRange x) :
    OK t π dir (twoExpExt t π to0 x dir fun _ => mul2exp t π to0 x e dir) (Ext.mulI (t.denote π x) (.fin (pow2 e))) := by
  have pe := pow2_pos e
  have s1 : ¬ pow2 e < 0 := by omega
  have s2 : pow2 e > 0 := by omega
  unfold twoExpExt extUnary
  rcases IntTy.denote_cases w hx with ⟨a, d⟩ | ⟨a, b, c, d⟩ | ⟨a, b, c, d⟩ | ⟨a, b, c, d, f⟩ <;> ext_simp
  · exact okNanSpecial w dir h0
  · simp; exact okMinf w dir h0
  · simp; exact okPinf w dir h0
  · exact tri_ok w h0 (mul2exp_tri w hco dir e f)

theorem div2expExt_okq {t : IntTy} {π : Policy} (w : t.WF π)
    (dir : Dir) {to0 x : Int} (e : Nat) (h0 : t.inRange to0) (hx : t.inRange x) :
    OKQ t π dir (twoExpExt t π to0 x dir fun _ => div2exp t π to0 x e dir)
      (exactDiv (t.denote π x) (.fin (pow2 e))).toQ := by
  have pe := pow2_pos e
  have s0 : (pow2 e == 0) = false := by simp; omega
  have s1 : ¬ pow2 e < 0 := by omega
  have s2 : ¬ -1 * pow2 e ≥ 0 := by omega
  unfold twoExpExt extUnary
  rcases IntTy.denote_cases w hx with ⟨a, d⟩ | ⟨a, b, c, d⟩ | ⟨a, b, c, d⟩ | ⟨a, b, c, d, f⟩ <;> ext_simp <;>
    simp only [exactDiv, s0, Bool.false_eq_true, if_false, Exact.toQ, s1]
  · exact ok_toQ (okNanSpecial w dir h0)
  · have e1 : Ext.minf.sgnI * pow2 e < 0 := by simp only [Ext.sgnI]; omega
    rw [if_pos e1]
    exact ok_toQ (okMinf w dir h0)
  · have e1 : ¬ Ext.pinf.sgnI * pow2 e < 0 := by simp only [Ext.sgnI]; omega
    rw [if_neg e1]
    exact ok_toQ (okPinf w dir h0)
  · exact div2exp_okq w dir e f

theorem umod2expExt_ok {t : IntTy} {π : Policy} (w : t.WF π)
    (dir : Dir) {to0 x : Int} (e : Nat) (h0 : t.inRange to0) (hx : t.inRange x)
    (hpre : π.checkInfMod = true ∨ (t.denote π x).isInf = false) :
    OK t π dir (modExt t π to0 x fun _ => umod2exp t π to0 x e dir)
      (match t.denote π x with | .fin v => .fin (v % pow2 e) | _ => .nan) := by
  unfold modExt
  rcases IntTy.denote_cases w hx with ⟨a, d⟩ | ⟨a, b, c, d⟩ | ⟨a, b, c, d⟩ | ⟨a, b, c, d, f⟩ <;>
    (try rw [d] at hpre) <;> ext_simp
  · exact okNanSpecial w dir h0
  · rcases hpre with h | h
    · simp only [h, if_true]; exact okNanReason w dir h0 rfl
    · simp [Ext.isInf] at h
  · rcases hpre with h | h
    · simp only [h, if_true]; exact okNanReason w dir h0 rfl
    · simp [Ext.isInf] at h
  · exact tri_ok w h0 (umod2exp_tri w dir e f)

end PPLV.Checked
