import PPLV.Checked.Result
/-!
# C11 — code-shaped model of the checked native-integer primitives (no Mathlib)

Transliteration of `src/checked_int_inlines.hh` (native integers), the generic helpers of
`src/checked_inlines.hh` (`abs_generic`, `gcd_exact`, `lcm_gcd_exact`, `sgn_generic`,
`cmp_generic`, `assign_nan`) and the extended-number layer `src/checked_ext_inlines.hh`, which is
what `Checked_Number<T, Policy>` / `add_assign_r` … call.

Conventions.
* An integer type is a width, a signedness and the routing constants of `Larger<T>`
  (`use_for_neg/add/sub/mul` and the width of the `int_fast*_t` used); a policy is the record of
  the `const_bool_nodef` members the integer code reads.
* Every function takes the value `to0` that the out-parameter `to` held before the call and
  returns `(to, result)`: several paths (`V_UNREPRESENTABLE`, `assign_nan` without `has_nan`)
  leave `to` untouched.
* Values are mathematical integers.  A store `to = e` returns the value of `e` **before** the
  implicit conversion to `T`; `IntTy.wrap` is that conversion.  The theorems (`…_no_wrap`) show the
  returned value is in range, so that the conversion is the identity; the driver compares
  `wrap (model) = real` so that the correspondence is meaningful even where the theorem has a
  precondition.  Typed temporaries that are read again (`gcd` loop, `lcm`) are wrapped explicitly.
* C++ `/` and `%` are `Int.tdiv` / `Int.tmod`.  `x >> e`, `x << e`, `x & (2^e - 1)` on
  non-negative values are `/ 2^e`, `* 2^e`, `% 2^e`; the two places that use two's complement
  bit tricks on negative values (`div_2exp_signed_int`, `mul_2exp_signed_int`,
  `smod_2exp_signed_int`, `umod_2exp_signed_int`) are modelled by their arithmetic meaning, which
  the exhaustive 8-bit correspondence validates against the real code.
* `CHECK_P(flag, cond)` is `flag && cond` (assertions are off in the build).
-/
namespace PPLV.Checked
open Result

structure Policy where
  checkOverflow : Bool
  checkInfAddInf : Bool
  checkInfSubInf : Bool
  checkInfMulZero : Bool
  checkDivZero : Bool
  checkInfDivInf : Bool
  checkInfMod : Bool
  checkSqrtNeg : Bool
  hasNan : Bool
  hasInfinity : Bool
deriving DecidableEq, Repr, Inhabited

structure IntTy where
  bits : Nat
  signed : Bool
  useNeg : Bool := false
  useAdd : Bool := false
  useSub : Bool := false
  useMul : Bool := false
  /-- width of `int_fast16/32/64_t` chosen by `Larger<T>` -/
  lbits : Nat := 64
deriving DecidableEq, Repr, Inhabited

def b2i (b : Bool) : Int := if b then 1 else 0

/-- `2^n` (`Int.pow` and `<<<` go through GMP in compiled code even for small values; this
stays on the scalar fast path: literals below 8, one multiplication per 8 bits above) -/
def pow2 : Nat → Int
  | 0 => 1 | 1 => 2 | 2 => 4 | 3 => 8 | 4 => 16 | 5 => 32 | 6 => 64 | 7 => 128
  | n + 8 => 256 * pow2 n

theorem pow2_eq (n : Nat) : pow2 n = 2 ^ n := by
  induction n using pow2.induct with
  | case9 n ih =>
    rw [pow2, ih]
    show 256 * 2 ^ n = 2 ^ (n + 8)
    rw [Int.pow_add, Int.mul_comm]; rfl
  | _ => rfl

namespace IntTy
/-- `2^(bits-1)` -/
def half (t : IntTy) : Int := pow2 (t.bits - 1)
/-- `C_Integer<T>::min` -/
def cmin (t : IntTy) : Int := if t.signed then -t.half else 0
/-- `C_Integer<T>::max` -/
def cmax (t : IntTy) : Int := if t.signed then t.half - 1 else 2 * t.half - 1
def inRange (t : IntTy) (v : Int) : Prop := t.cmin ≤ v ∧ v ≤ t.cmax
/-- conversion to `T` (two's complement) -/
def wrap (t : IntTy) (v : Int) : Int :=
  if t.signed then (v + t.half) % (2 * t.half) - t.half else v % (2 * t.half)

/-- `Extended_Int<Policy, T>` -/
def plusInf (t : IntTy) : Int := t.cmax
def minusInf (t : IntTy) : Int := if t.signed then t.cmin else t.cmax - 1
def nanV (t : IntTy) (π : Policy) : Int :=
  if t.signed then t.cmin + b2i π.hasInfinity else t.cmax - 2 * b2i π.hasInfinity
def emin (t : IntTy) (π : Policy) : Int :=
  t.cmin + (if t.signed then b2i π.hasInfinity + b2i π.hasNan else 0)
def emax (t : IntTy) (π : Policy) : Int :=
  t.cmax - (if t.signed then b2i π.hasInfinity else 2 * b2i π.hasInfinity + b2i π.hasNan)

/-- the `int_fast` type `Larger<T>` computes in -/
def larger (t : IntTy) (sg : Bool) : IntTy := { bits := t.lbits, signed := sg, lbits := t.lbits }

def isNan (t : IntTy) (π : Policy) (v : Int) : Bool := π.hasNan && v == t.nanV π
def isMinf (t : IntTy) (π : Policy) (v : Int) : Bool := π.hasInfinity && v == t.minusInf
def isPinf (t : IntTy) (π : Policy) (v : Int) : Bool := π.hasInfinity && v == t.plusInf

/-- what a bit pattern of `T` denotes under a policy -/
def denote (t : IntTy) (π : Policy) (v : Int) : Ext Int :=
  if t.isNan π v then .nan else if t.isMinf π v then .minf else if t.isPinf π v then .pinf else .fin v

/-- a finite (non-special) value of the type under the policy -/
def finite (t : IntTy) (π : Policy) (v : Int) : Prop := t.emin π ≤ v ∧ v ≤ t.emax π
end IntTy

/-! ## overflow and rounding helpers -/

def setNegOverflow (t : IntTy) (π : Policy) (to0 : Int) (dir : Dir) : Int × Result :=
  if dir.roundUp then (t.emin π, V_LT_INF)
  else if π.hasInfinity then (t.minusInf, V_GT_MINUS_INFINITY)
  else (to0, V_GT_MINUS_INFINITY.orUnrep)

def setPosOverflow (t : IntTy) (π : Policy) (to0 : Int) (dir : Dir) : Int × Result :=
  if dir.roundDown then (t.emax π, V_GT_SUP)
  else if π.hasInfinity then (t.plusInf, V_LT_PLUS_INFINITY)
  else (to0, V_LT_PLUS_INFINITY.orUnrep)

def roundLtNoOverflow (to : Int) (dir : Dir) : Int × Result :=
  if dir.roundDown then (to - 1, V_GT) else (to, V_LT)

def roundGtNoOverflow (to : Int) (dir : Dir) : Int × Result :=
  if dir.roundUp then (to + 1, V_LT) else (to, V_GT)

def roundLt (t : IntTy) (π : Policy) (to : Int) (dir : Dir) : Int × Result :=
  if dir.roundDown then
    if to == t.emin π then
      if π.hasInfinity then (t.minusInf, V_GT_MINUS_INFINITY) else (to, V_GT_MINUS_INFINITY.orUnrep)
    else (to - 1, V_GT)
  else (to, V_LT)

def roundGt (t : IntTy) (π : Policy) (to : Int) (dir : Dir) : Int × Result :=
  if dir.roundUp then
    if to == t.emax π then
      if π.hasInfinity then (t.plusInf, V_LT_PLUS_INFINITY) else (to, V_LT_PLUS_INFINITY.orUnrep)
    else (to + 1, V_LT)
  else (to, V_GT)

/-- `classify_int` -/
def classify (t : IntTy) (π : Policy) (v : Int) (nan inf sign : Bool) : Result :=
  if π.hasNan && (nan || sign) && v == t.nanV π then V_NAN
  else if !inf && !sign then V_LGE
  else if π.hasInfinity && v == t.minusInf then (if inf then V_EQ_MINUS_INFINITY else V_LT)
  else if π.hasInfinity && v == t.plusInf then (if inf then V_EQ_PLUS_INFINITY else V_GT)
  else if sign then (if v < 0 then V_LT else if v > 0 then V_GT else V_EQ)
  else V_LGE

/-- `assign_special_int` -/
def assignSpecial (t : IntTy) (π : Policy) (to0 : Int) (c : Cls) (dir : Dir) : Int × Result :=
  match c with
  | .nan => if π.hasNan then (t.nanV π, V_NAN) else (to0, V_NAN.orUnrep)
  | .minf =>
    if π.hasInfinity then (t.minusInf, V_EQ_MINUS_INFINITY)
    else if dir.roundUp then (t.emin π, V_LT_INF)
    else (to0, V_EQ_MINUS_INFINITY.orUnrep)
  | .pinf =>
    if π.hasInfinity then (t.plusInf, V_EQ_PLUS_INFINITY)
    else if dir.roundDown then (t.emax π, V_GT_SUP)
    else (to0, V_EQ_PLUS_INFINITY.orUnrep)
  | .normal => (to0, V_NAN.orUnrep)   -- PPL_UNREACHABLE

/-- `assign_nan`: stores a NaN if there is one, returns `r` whatever happened -/
def assignNan (t : IntTy) (π : Policy) (to0 : Int) (r : Result) : Int × Result :=
  ((assignSpecial t π to0 .nan .ignore).1, r)

/-! ## conversions between native integer types -/

def assignSignedSigned (t : IntTy) (πt : Policy) (f : IntTy) (πf : Policy) (to0 frm : Int) (dir : Dir) :
    Int × Result :=
  if t.bits < f.bits ∨ (t.bits = f.bits ∧ (t.emin πt > f.emin πf ∨ t.emax πt < f.emax πf)) then
    if πt.checkOverflow && frm < t.emin πt then setNegOverflow t πt to0 dir
    else if πt.checkOverflow && frm > t.emax πt then setPosOverflow t πt to0 dir
    else (frm, V_EQ)
  else (frm, V_EQ)

def assignSignedUnsigned (t : IntTy) (πt : Policy) (f : IntTy) (_πf : Policy) (to0 frm : Int) (dir : Dir) :
    Int × Result :=
  if t.bits ≤ f.bits then
    if πt.checkOverflow && frm > t.emax πt then setPosOverflow t πt to0 dir
    else (frm, V_EQ)
  else (frm, V_EQ)

def assignUnsignedSigned (t : IntTy) (πt : Policy) (f : IntTy) (_πf : Policy) (to0 frm : Int) (dir : Dir) :
    Int × Result :=
  if πt.checkOverflow && frm < 0 then setNegOverflow t πt to0 dir
  else if t.bits < f.bits then
    if πt.checkOverflow && frm > t.emax πt then setPosOverflow t πt to0 dir
    else (frm, V_EQ)
  else (frm, V_EQ)

def assignUnsignedUnsigned (t : IntTy) (πt : Policy) (f : IntTy) (πf : Policy) (to0 frm : Int) (dir : Dir) :
    Int × Result :=
  if t.bits < f.bits ∨ (t.bits = f.bits ∧ t.emax πt < f.emax πf) then
    if πt.checkOverflow && frm > t.emax πt then setPosOverflow t πt to0 dir
    else (frm, V_EQ)
  else (frm, V_EQ)

/-- `assign<To_Policy, From_Policy>(to, from, dir)` for native integers (overload resolution) -/
def assignInt (t : IntTy) (πt : Policy) (f : IntTy) (πf : Policy) (to0 frm : Int) (dir : Dir) : Int × Result :=
  match t.signed, f.signed with
  | true, true => assignSignedSigned t πt f πf to0 frm dir
  | true, false => assignSignedUnsigned t πt f πf to0 frm dir
  | false, true => assignUnsignedSigned t πt f πf to0 frm dir
  | false, false => assignUnsignedUnsigned t πt f πf to0 frm dir

/-! ## neg, add, sub, mul -/

/-- `neg_int_larger`: `type_for_neg` is signed for every `T` -/
def negLarger (t : IntTy) (π : Policy) (to0 x : Int) (dir : Dir) : Int × Result :=
  assignInt t π (t.larger true) π to0 (-x) dir

/-- `add_int_larger`: `type_for_add` has the signedness of `T` -/
def addLarger (t : IntTy) (π : Policy) (to0 x y : Int) (dir : Dir) : Int × Result :=
  assignInt t π (t.larger t.signed) π to0 (x + y) dir

/-- `sub_int_larger`: `type_for_sub` is signed for every `T` -/
def subLarger (t : IntTy) (π : Policy) (to0 x y : Int) (dir : Dir) : Int × Result :=
  assignInt t π (t.larger true) π to0 (x - y) dir

/-- `mul_int_larger`: `type_for_mul` has the signedness of `T` -/
def mulLarger (t : IntTy) (π : Policy) (to0 x y : Int) (dir : Dir) : Int × Result :=
  assignInt t π (t.larger t.signed) π to0 (x * y) dir

def negSigned (t : IntTy) (π : Policy) (to0 x : Int) (dir : Dir) : Int × Result :=
  if π.checkOverflow && t.useNeg then negLarger t π to0 x dir
  else if π.checkOverflow && x < -(t.emax π) then setPosOverflow t π to0 dir
  else (-x, V_EQ)

def negUnsigned (t : IntTy) (π : Policy) (to0 x : Int) (dir : Dir) : Int × Result :=
  if π.checkOverflow && t.useNeg then negLarger t π to0 x dir
  else if π.checkOverflow && x != 0 then setNegOverflow t π to0 dir
  else (x, V_EQ)

def addSigned (t : IntTy) (π : Policy) (to0 x y : Int) (dir : Dir) : Int × Result :=
  if π.checkOverflow && t.useAdd then addLarger t π to0 x y dir
  else if π.checkOverflow && (y ≥ 0 && x > t.emax π - y) then setPosOverflow t π to0 dir
  else if π.checkOverflow && (!(y ≥ 0) && x < t.emin π - y) then setNegOverflow t π to0 dir
  else (x + y, V_EQ)

def addUnsigned (t : IntTy) (π : Policy) (to0 x y : Int) (dir : Dir) : Int × Result :=
  if π.checkOverflow && t.useAdd then addLarger t π to0 x y dir
  else if π.checkOverflow && x > t.emax π - y then setPosOverflow t π to0 dir
  else (x + y, V_EQ)

def subSigned (t : IntTy) (π : Policy) (to0 x y : Int) (dir : Dir) : Int × Result :=
  if π.checkOverflow && t.useSub then subLarger t π to0 x y dir
  else if π.checkOverflow && (y ≥ 0 && x < t.emin π + y) then setNegOverflow t π to0 dir
  else if π.checkOverflow && (!(y ≥ 0) && x > t.emax π + y) then setPosOverflow t π to0 dir
  else (x - y, V_EQ)

def subUnsigned (t : IntTy) (π : Policy) (to0 x y : Int) (dir : Dir) : Int × Result :=
  if π.checkOverflow && t.useSub then subLarger t π to0 x y dir
  else if π.checkOverflow && x < t.emin π + y then setNegOverflow t π to0 dir
  else (x - y, V_EQ)

def mulSigned (t : IntTy) (π : Policy) (to0 x y : Int) (dir : Dir) : Int × Result :=
  if π.checkOverflow && t.useMul then mulLarger t π to0 x y dir
  else if !π.checkOverflow then (x * y, V_EQ)
  else if y == 0 then (0, V_EQ)
  else if y == -1 then negSigned t π to0 x dir
  else if x ≥ 0 then
    if y > 0 then
      if x > (t.emax π).tdiv y then setPosOverflow t π to0 dir else (x * y, V_EQ)
    else
      if x > (t.emin π).tdiv y then setNegOverflow t π to0 dir else (x * y, V_EQ)
  else
    if y < 0 then
      if x < (t.emax π).tdiv y then setPosOverflow t π to0 dir else (x * y, V_EQ)
    else
      if x < (t.emin π).tdiv y then setNegOverflow t π to0 dir else (x * y, V_EQ)

def mulUnsigned (t : IntTy) (π : Policy) (to0 x y : Int) (dir : Dir) : Int × Result :=
  if π.checkOverflow && t.useMul then mulLarger t π to0 x y dir
  else if !π.checkOverflow then (x * y, V_EQ)
  else if y == 0 then (0, V_EQ)
  else if x > (t.emax π).tdiv y then setPosOverflow t π to0 dir
  else (x * y, V_EQ)

/-! ## div, idiv, rem -/

def divSigned (t : IntTy) (π : Policy) (to0 x y : Int) (dir : Dir) : Int × Result :=
  if π.checkDivZero && y == 0 then assignNan t π to0 V_DIV_ZERO
  else if π.checkOverflow && y == -1 then negSigned t π to0 x dir
  else
    let to := x.tdiv y
    if dir.notRequested then (to, V_LGE)
    else if y == -1 then (to, V_EQ)
    else
      let m := x.tmod y
      if m == 0 then (to, V_EQ)
      -- truncated towards zero: above the exact quotient iff remainder and divisor have opposite signs
      else if decide (m < 0) != decide (y < 0) then roundLtNoOverflow to dir
      else roundGtNoOverflow to dir

def divUnsigned (t : IntTy) (π : Policy) (to0 x y : Int) (dir : Dir) : Int × Result :=
  if π.checkDivZero && y == 0 then assignNan t π to0 V_DIV_ZERO
  else
    let to := x.tdiv y
    if dir.notRequested then (to, V_GE)
    else if x.tmod y == 0 then (to, V_EQ)
    else roundGt t π to dir

def idivSigned (t : IntTy) (π : Policy) (to0 x y : Int) (dir : Dir) : Int × Result :=
  if π.checkDivZero && y == 0 then assignNan t π to0 V_DIV_ZERO
  else if π.checkOverflow && y == -1 then negSigned t π to0 x dir
  else (x.tdiv y, V_EQ)

def idivUnsigned (t : IntTy) (π : Policy) (to0 x y : Int) (_dir : Dir) : Int × Result :=
  if π.checkDivZero && y == 0 then assignNan t π to0 V_DIV_ZERO
  else (x.tdiv y, V_EQ)

def remSigned (t : IntTy) (π : Policy) (to0 x y : Int) (_dir : Dir) : Int × Result :=
  if π.checkDivZero && y == 0 then assignNan t π to0 V_MOD_ZERO
  else (if y == -1 then 0 else x.tmod y, V_EQ)

def remUnsigned (t : IntTy) (π : Policy) (to0 x y : Int) (_dir : Dir) : Int × Result :=
  if π.checkDivZero && y == 0 then assignNan t π to0 V_MOD_ZERO
  else (x.tmod y, V_EQ)

/-! ## power-of-two scaling and modulus -/

def div2expUnsigned (t : IntTy) (_π : Policy) (_to0 x : Int) (e : Nat) (dir : Dir) : Int × Result :=
  if e ≥ t.bits then
    if dir.notRequested then (0, V_GE)
    else if x == 0 then (0, V_EQ)
    else roundGtNoOverflow 0 dir
  else
    let to := x / pow2 e
    if dir.notRequested then (to, V_GE)
    else if x % pow2 e != 0 then roundGtNoOverflow to dir
    else (to, V_EQ)

def div2expSigned (t : IntTy) (_π : Policy) (_to0 x : Int) (e : Nat) (dir : Dir) : Int × Result :=
  if x < 0 then
    if e ≥ t.bits then
      if dir.notRequested then (0, V_LE) else roundLtNoOverflow 0 dir
    else
      -- ux = -x as unsigned; to = -(ux >> e)
      let to := -((-x) / pow2 e)
      if dir.notRequested then (to, V_LE)
      else if (-x) % pow2 e != 0 then roundLtNoOverflow to dir
      else (to, V_EQ)
  else
    if e ≥ t.bits - 1 then
      if dir.notRequested then (0, V_GE)
      else if x == 0 then (0, V_EQ)
      else roundGtNoOverflow 0 dir
    else
      let to := x / pow2 e
      if dir.notRequested then (to, V_GE)
      else if x % pow2 e != 0 then roundGtNoOverflow to dir
      else (to, V_EQ)

def add2expUnsigned (t : IntTy) (π : Policy) (to0 x : Int) (e : Nat) (dir : Dir) : Int × Result :=
  if !π.checkOverflow then (x + pow2 e, V_EQ)
  else if e ≥ t.bits then setPosOverflow t π to0 dir
  else addUnsigned t π to0 x (pow2 e) dir

def add2expSigned (t : IntTy) (π : Policy) (to0 x : Int) (e : Nat) (dir : Dir) : Int × Result :=
  if !π.checkOverflow then (x + pow2 e, V_EQ)
  else if e ≥ t.bits then setPosOverflow t π to0 dir
  else if e == t.bits - 1 then subSigned t π to0 x (-2 * pow2 (e - 1)) dir
  else addSigned t π to0 x (pow2 e) dir

def sub2expUnsigned (t : IntTy) (π : Policy) (to0 x : Int) (e : Nat) (dir : Dir) : Int × Result :=
  if !π.checkOverflow then (x - pow2 e, V_EQ)
  else if e ≥ t.bits then setNegOverflow t π to0 dir
  else subUnsigned t π to0 x (pow2 e) dir

def sub2expSigned (t : IntTy) (π : Policy) (to0 x : Int) (e : Nat) (dir : Dir) : Int × Result :=
  if !π.checkOverflow then (x - pow2 e, V_EQ)
  else if e ≥ t.bits then setNegOverflow t π to0 dir
  else if e == t.bits - 1 then addSigned t π to0 x (-2 * pow2 (e - 1)) dir
  else subSigned t π to0 x (pow2 e) dir

def mul2expUnsigned (t : IntTy) (π : Policy) (to0 x : Int) (e : Nat) (dir : Dir) : Int × Result :=
  if !π.checkOverflow then (x * pow2 e, V_EQ)
  else if e ≥ t.bits then
    if x == 0 then (0, V_EQ) else setPosOverflow t π to0 dir
  else if x > t.emax π / pow2 e then setPosOverflow t π to0 dir
  else (x * pow2 e, V_EQ)

def mul2expSigned (t : IntTy) (π : Policy) (to0 x : Int) (e : Nat) (dir : Dir) : Int × Result :=
  if x < 0 then
    if !π.checkOverflow then (x * pow2 e, V_EQ)
    else if e ≥ t.bits then setNegOverflow t π to0 dir
    -- (ux & mask) != mask, mask = the top e+1 bits: x < -2^(bits-1-e)
    else if x < -(pow2 (t.bits - 1 - e)) then setNegOverflow t π to0 dir
    else
      let n := x * pow2 e
      if n < t.emin π then setNegOverflow t π to0 dir else (n, V_EQ)
  else
    if !π.checkOverflow then (x * pow2 e, V_EQ)
    else if e ≥ t.bits - 1 then
      if x == 0 then (0, V_EQ) else setPosOverflow t π to0 dir
    else if x > t.emax π / pow2 e then setPosOverflow t π to0 dir
    else (x * pow2 e, V_EQ)

/-- `e = 0` evaluates `Type(1) << (exp - 1)` with a shift count of `UINT_MAX`: undefined
behaviour in C++; the model is only meant for `e ≥ 1`. -/
def smod2expUnsigned (t : IntTy) (π : Policy) (to0 x : Int) (e : Nat) (dir : Dir) : Int × Result :=
  if e > t.bits then (x, V_EQ)
  else
    let v := if e == t.bits then x else x % pow2 e
    if v ≥ pow2 (e - 1) then setNegOverflow t π to0 dir else (v, V_EQ)

def smod2expSigned (t : IntTy) (_π : Policy) (_to0 x : Int) (e : Nat) (_dir : Dir) : Int × Result :=
  if e ≥ t.bits then (x, V_EQ)
  else
    let m : Int := pow2 (e - 1)
    -- (x & (m - 1)) - (x & m)
    (x % m - (if (x / m) % 2 == 1 then m else 0), V_EQ)

def umod2expUnsigned (t : IntTy) (_π : Policy) (_to0 x : Int) (e : Nat) (_dir : Dir) : Int × Result :=
  if e ≥ t.bits then (x, V_EQ) else (x % pow2 e, V_EQ)

def umod2expSigned (t : IntTy) (π : Policy) (to0 x : Int) (e : Nat) (dir : Dir) : Int × Result :=
  if e ≥ t.bits then
    if x < 0 then setPosOverflow t π to0 dir else (x, V_EQ)
  else
    let v := x % pow2 e
    if v > t.emax π then setPosOverflow t π to0 dir else (v, V_EQ)

/-! ## square root -/

/-- the loop of `isqrt_rem`: `fuel` bounds the iterations (`t` is shifted right by 2 each time).
`q`, `r`, `s`, `t` are variables of type `Type`: every store is converted to the type
(`q = (q >> 1) + t`; `>>` is floor division). -/
def isqrtLoop (ty : IntTy) : Nat → Int → Int → Int → Int × Int
  | 0, q, r, _ => (q, r)
  | fuel + 1, q, r, tt =>
    if tt == 0 then (q, r)
    else
      let s := ty.wrap (q + tt)
      if s ≤ r then isqrtLoop ty fuel (ty.wrap (q / 2 + tt)) (ty.wrap (r - s)) (tt / 4)
      else isqrtLoop ty fuel (q / 2) r (tt / 4)

/-- `isqrt_rem(q, r, from)`: `t = 1 << (bits - 2)` -/
def isqrtRem (t : IntTy) (x : Int) : Int × Int := isqrtLoop t t.bits 0 x (pow2 (t.bits - 2))

def sqrtUnsigned (t : IntTy) (π : Policy) (_to0 x : Int) (dir : Dir) : Int × Result :=
  let (q, r) := isqrtRem t x
  if dir.notRequested then (q, V_GE)
  else if r == 0 then (q, V_EQ)
  else roundGt t π q dir

def sqrtSigned (t : IntTy) (π : Policy) (to0 x : Int) (dir : Dir) : Int × Result :=
  if π.checkSqrtNeg && x < 0 then assignNan t π to0 V_SQRT_NEG
  else sqrtUnsigned t π to0 x dir

/-! ## dispatch on signedness (the `PPL_SPECIALIZE_*` tables) -/

def neg (t : IntTy) (π : Policy) (to0 x : Int) (dir : Dir) : Int × Result :=
  if t.signed then negSigned t π to0 x dir else negUnsigned t π to0 x dir
def add (t : IntTy) (π : Policy) (to0 x y : Int) (dir : Dir) : Int × Result :=
  if t.signed then addSigned t π to0 x y dir else addUnsigned t π to0 x y dir
def sub (t : IntTy) (π : Policy) (to0 x y : Int) (dir : Dir) : Int × Result :=
  if t.signed then subSigned t π to0 x y dir else subUnsigned t π to0 x y dir
def mul (t : IntTy) (π : Policy) (to0 x y : Int) (dir : Dir) : Int × Result :=
  if t.signed then mulSigned t π to0 x y dir else mulUnsigned t π to0 x y dir
def div (t : IntTy) (π : Policy) (to0 x y : Int) (dir : Dir) : Int × Result :=
  if t.signed then divSigned t π to0 x y dir else divUnsigned t π to0 x y dir
def idiv (t : IntTy) (π : Policy) (to0 x y : Int) (dir : Dir) : Int × Result :=
  if t.signed then idivSigned t π to0 x y dir else idivUnsigned t π to0 x y dir
def rem (t : IntTy) (π : Policy) (to0 x y : Int) (dir : Dir) : Int × Result :=
  if t.signed then remSigned t π to0 x y dir else remUnsigned t π to0 x y dir
def add2exp (t : IntTy) (π : Policy) (to0 x : Int) (e : Nat) (dir : Dir) : Int × Result :=
  if t.signed then add2expSigned t π to0 x e dir else add2expUnsigned t π to0 x e dir
def sub2exp (t : IntTy) (π : Policy) (to0 x : Int) (e : Nat) (dir : Dir) : Int × Result :=
  if t.signed then sub2expSigned t π to0 x e dir else sub2expUnsigned t π to0 x e dir
def mul2exp (t : IntTy) (π : Policy) (to0 x : Int) (e : Nat) (dir : Dir) : Int × Result :=
  if t.signed then mul2expSigned t π to0 x e dir else mul2expUnsigned t π to0 x e dir
def div2exp (t : IntTy) (π : Policy) (to0 x : Int) (e : Nat) (dir : Dir) : Int × Result :=
  if t.signed then div2expSigned t π to0 x e dir else div2expUnsigned t π to0 x e dir
def smod2exp (t : IntTy) (π : Policy) (to0 x : Int) (e : Nat) (dir : Dir) : Int × Result :=
  if t.signed then smod2expSigned t π to0 x e dir else smod2expUnsigned t π to0 x e dir
def umod2exp (t : IntTy) (π : Policy) (to0 x : Int) (e : Nat) (dir : Dir) : Int × Result :=
  if t.signed then umod2expSigned t π to0 x e dir else umod2expUnsigned t π to0 x e dir
def sqrt (t : IntTy) (π : Policy) (to0 x : Int) (dir : Dir) : Int × Result :=
  if t.signed then sqrtSigned t π to0 x dir else sqrtUnsigned t π to0 x dir

/-- `abs_generic` for signed types; for unsigned types `abs` is specialised to
`assign_unsigned_int_unsigned_int` -/
def abs (t : IntTy) (π : Policy) (to0 x : Int) (dir : Dir) : Int × Result :=
  if t.signed then
    if x < 0 then neg t π to0 x dir else assignInt t π t π to0 x dir
  else assignUnsignedUnsigned t π t π to0 x dir

/-- `add_mul_int` -/
def addMul (t : IntTy) (π : Policy) (to0 x y : Int) (dir : Dir) : Int × Result :=
  let zr := mul t π 0 x y dir   -- `Type z;` uninitialised; only read when the result says it was stored
  let ov := zr.2.resultOverflow
  if ov == 0 then add t π to0 to0 (t.wrap zr.1) dir
  else if ov == -1 then
    if to0 ≤ 0 then setNegOverflow t π to0 dir
    -- to > 0 and x * y < min: to + x * y < to + min, a correct bound when rounding upward
    else if dir.roundUp then (to0 + t.emin π, V_LT)
    else assignNan t π to0 V_UNKNOWN_NEG_OVERFLOW
  else
    if to0 ≥ 0 then setPosOverflow t π to0 dir
    -- to < 0 and x * y > max: to + x * y > to + max, a correct bound when rounding downward
    else if dir.roundDown then (to0 + t.emax π, V_GT)
    else assignNan t π to0 V_UNKNOWN_POS_OVERFLOW

/-- `sub_mul_int` -/
def subMul (t : IntTy) (π : Policy) (to0 x y : Int) (dir : Dir) : Int × Result :=
  let zr := mul t π 0 x y dir
  let ov := zr.2.resultOverflow
  if ov == 0 then sub t π to0 to0 (t.wrap zr.1) dir
  else if ov == -1 then
    if to0 ≥ 0 then setPosOverflow t π to0 dir
    -- to < 0 and x * y < min: to - x * y > to - min, a correct bound when rounding downward
    else if dir.roundDown then (to0 - t.emin π, V_GT)
    else assignNan t π to0 V_UNKNOWN_NEG_OVERFLOW
  else
    -- x * y > max: `to - x * y` is below min when to < 0; for to == 0 only if the range is symmetric
    if to0 < 0 || (to0 == 0 && decide (t.emin π + t.emax π ≥ 0)) then setNegOverflow t π to0 dir
    -- to ≥ 0 and x * y > max: to - x * y < to - max, a correct bound when rounding upward
    -- (signed types only: `to - max` would wrap around for an unsigned one)
    else if dir.roundUp && decide (t.emin π < 0) then (to0 - t.emax π, V_LT)
    else assignNan t π to0 V_UNKNOWN_POS_OVERFLOW

/-! ## gcd, lcm -/

/-- the loop of `gcd_exact_no_abs` (`rem` with `ROUND_NOT_NEEDED`; typed temporaries wrapped) -/
def gcdLoop (t : IntTy) (π : Policy) : Nat → Int → Int → Int
  | 0, wx, _ => wx
  | fuel + 1, wx, wy =>
    if wy == 0 then wx
    else gcdLoop t π fuel wy (t.wrap (rem t π 0 wx wy .notNeeded).1)

/-- enough iterations for any pair of `bits`-wide operands (Euclid halves every two steps) -/
def gcdNoAbs (t : IntTy) (π : Policy) (x y : Int) : Int := gcdLoop t π (2 * t.bits + 2) x y

/-- `gcd_exact` -/
def gcd (t : IntTy) (π : Policy) (_to0 x y : Int) (dir : Dir) : Int × Result :=
  let g := gcdNoAbs t π x y
  abs t π g g dir

/-- `lcm_gcd_exact` (all policies equal, as in `Checked_Number<T, P>` arithmetic).  When `|x|` (or `|y|`)
is not a value of the type the lcm is not one either: `to` receives the outcome of that `abs`
(/repo 5d13b40; before, the code of the temporary's `abs` was returned and nothing stored) -/
def lcm (t : IntTy) (π : Policy) (to0 x y : Int) (dir : Dir) : Int × Result :=
  if x == 0 || y == 0 then (0, V_EQ)
  else
    let (ax, r1) := abs t π 0 x dir
    if r1 != V_EQ then abs t π to0 x dir
    else
      let (ay, r2) := abs t π 0 y dir
      if r2 != V_EQ then abs t π to0 y dir
      else
        let ax := t.wrap ax
        let ay := t.wrap ay
        let g := gcdNoAbs t π ax ay
        let (q, _) := div t π to0 ax g .notNeeded
        mul t π (t.wrap q) (t.wrap q) ay dir

/-! ## comparison, sign -/

/-- `sgn_generic` as a `Result_Relation` -/
def sgnNative (x : Int) : Rel := if x > 0 then Rel.GT else if x == 0 then Rel.EQ else Rel.LT

/-- `cmp_generic` (for two operands of one type `lt` is the native `<`) -/
def cmpNative (x y : Int) : Rel := if y < x then Rel.GT else if x < y then Rel.LT else Rel.EQ

/-- `sgn_ext` -/
def sgnExt (t : IntTy) (π : Policy) (x : Int) : Rel :=
  if t.isNan π x then Rel.EMPTY
  else if t.isMinf π x then Rel.LT
  else if t.isPinf π x then Rel.GT
  else sgnNative x

/-- `cmp_ext` -/
def cmpExt (t : IntTy) (π : Policy) (x y : Int) : Rel :=
  if t.isNan π x || t.isNan π y then Rel.EMPTY
  else if t.isMinf π x then (if t.isMinf π y then Rel.EQ else Rel.LT)
  else if t.isPinf π x then (if t.isPinf π y then Rel.EQ else Rel.GT)
  else if t.isMinf π y then Rel.GT
  else if t.isPinf π y then Rel.LT
  else cmpNative x y

/-! ## the extended layer (`checked_ext_inlines.hh`): what `*_assign_r` call -/

/-- the common shape of `assign_ext`, `floor_ext`, `add_2exp_ext` …: NaN ↦ NaN, ±∞ ↦ ±∞ -/
def extUnary (t : IntTy) (π : Policy) (f : IntTy) (πf : Policy) (to0 x : Int) (dir : Dir)
    (native : Unit → Int × Result) : Int × Result :=
  if f.isNan πf x then assignSpecial t π to0 .nan .ignore
  else if f.isMinf πf x then assignSpecial t π to0 .minf dir
  else if f.isPinf πf x then assignSpecial t π to0 .pinf dir
  else native ()

def assignExt (t : IntTy) (π : Policy) (f : IntTy) (πf : Policy) (to0 x : Int) (dir : Dir) : Int × Result :=
  extUnary t π f πf to0 x dir fun _ => assignInt t π f πf to0 x dir

def negExt (t : IntTy) (π : Policy) (to0 x : Int) (dir : Dir) : Int × Result :=
  if t.isNan π x then assignSpecial t π to0 .nan .ignore
  else if t.isMinf π x then assignSpecial t π to0 .pinf dir
  else if t.isPinf π x then assignSpecial t π to0 .minf dir
  else neg t π to0 x dir

def absExt (t : IntTy) (π : Policy) (to0 x : Int) (dir : Dir) : Int × Result :=
  if t.isNan π x then assignSpecial t π to0 .nan .ignore
  else if t.isMinf π x || t.isPinf π x then assignSpecial t π to0 .pinf dir
  else abs t π to0 x dir

def addExt (t : IntTy) (π : Policy) (to0 x y : Int) (dir : Dir) : Int × Result :=
  if t.isNan π x || t.isNan π y then assignSpecial t π to0 .nan .ignore
  else if t.isMinf π x then
    if π.checkInfAddInf && t.isPinf π y then assignNan t π to0 V_INF_ADD_INF
    else assignSpecial t π to0 .minf dir
  else if t.isPinf π x then
    if π.checkInfAddInf && t.isMinf π y then assignNan t π to0 V_INF_ADD_INF
    else assignSpecial t π to0 .pinf dir
  else if t.isMinf π y then assignSpecial t π to0 .minf dir
  else if t.isPinf π y then assignSpecial t π to0 .pinf dir
  else add t π to0 x y dir

def subExt (t : IntTy) (π : Policy) (to0 x y : Int) (dir : Dir) : Int × Result :=
  if t.isNan π x || t.isNan π y then assignSpecial t π to0 .nan .ignore
  else if t.isMinf π x then
    if π.checkInfSubInf && t.isMinf π y then assignNan t π to0 V_INF_SUB_INF
    else assignSpecial t π to0 .minf dir
  else if t.isPinf π x then
    if π.checkInfSubInf && t.isPinf π y then assignNan t π to0 V_INF_SUB_INF
    else assignSpecial t π to0 .pinf dir
  else if t.isPinf π y then assignSpecial t π to0 .minf dir
  else if t.isMinf π y then assignSpecial t π to0 .pinf dir
  else sub t π to0 x y dir

/-- the sign analysis shared by `mul_ext`, `add_mul_ext`, `sub_mul_ext`:
`some c` = the product is the infinity `c` (`.nan` = `inf_mul_zero`), `none` = both finite -/
def mulInfClass (t : IntTy) (π : Policy) (x y : Int) : Option Cls :=
  let ofSgn (pos : Bool) (s : Rel) : Cls :=
    if s == Rel.LT then (if pos then .minf else .pinf)
    else if s == Rel.GT then (if pos then .pinf else .minf)
    else .nan
  if t.isMinf π x then some (ofSgn false (sgnExt t π y))
  else if t.isPinf π x then some (ofSgn true (sgnExt t π y))
  else if t.isMinf π y then some (ofSgn false (sgnNative x))
  else if t.isPinf π y then some (ofSgn true (sgnNative x))
  else none

def mulExt (t : IntTy) (π : Policy) (to0 x y : Int) (dir : Dir) : Int × Result :=
  if t.isNan π x || t.isNan π y then assignSpecial t π to0 .nan .ignore
  else match mulInfClass t π x y with
    | some .nan => assignNan t π to0 V_INF_MUL_ZERO
    | some c => assignSpecial t π to0 c dir
    | none => mul t π to0 x y dir

def addMulExt (t : IntTy) (π : Policy) (to0 x y : Int) (dir : Dir) : Int × Result :=
  if t.isNan π to0 || t.isNan π x || t.isNan π y then assignSpecial t π to0 .nan .ignore
  else match mulInfClass t π x y with
    | some .nan => assignNan t π to0 V_INF_MUL_ZERO
    | some .minf =>
      if π.checkInfAddInf && t.isPinf π to0 then assignNan t π to0 V_INF_ADD_INF
      else assignSpecial t π to0 .minf dir
    | some _ =>
      if π.checkInfAddInf && t.isMinf π to0 then assignNan t π to0 V_INF_ADD_INF
      else assignSpecial t π to0 .pinf dir
    | none =>
      if t.isMinf π to0 then assignSpecial t π to0 .minf dir
      else if t.isPinf π to0 then assignSpecial t π to0 .pinf dir
      else addMul t π to0 x y dir

def subMulExt (t : IntTy) (π : Policy) (to0 x y : Int) (dir : Dir) : Int × Result :=
  if t.isNan π to0 || t.isNan π x || t.isNan π y then assignSpecial t π to0 .nan .ignore
  else match mulInfClass t π x y with
    | some .nan => assignNan t π to0 V_INF_MUL_ZERO
    | some .minf =>       -- a_minf: to - (-inf)
      if π.checkInfSubInf && t.isMinf π to0 then assignNan t π to0 V_INF_SUB_INF
      else assignSpecial t π to0 .pinf dir
    | some _ =>           -- a_pinf: to - (+inf)
      if π.checkInfSubInf && t.isPinf π to0 then assignNan t π to0 V_INF_SUB_INF
      else assignSpecial t π to0 .minf dir
    | none =>
      if t.isMinf π to0 then assignSpecial t π to0 .minf dir
      else if t.isPinf π to0 then assignSpecial t π to0 .pinf dir
      else subMul t π to0 x y dir

/-- the shared shape of `div_ext` / `idiv_ext`; `sgn<From2_Policy>(y)` is the *native* sign
of the bit pattern of `y` (an unchecked `inf / inf` is decided by it) -/
def divLikeExt (t : IntTy) (π : Policy) (to0 x y : Int) (dir : Dir) (native : Unit → Int × Result) :
    Int × Result :=
  if t.isNan π x || t.isNan π y then assignSpecial t π to0 .nan .ignore
  else if t.isMinf π x then
    if π.checkInfDivInf && (t.isMinf π y || t.isPinf π y) then assignNan t π to0 V_INF_DIV_INF
    else
      let s := sgnNative y
      if s == Rel.LT then assignSpecial t π to0 .pinf dir
      else if s == Rel.GT then assignSpecial t π to0 .minf dir
      else assignNan t π to0 V_DIV_ZERO
  else if t.isPinf π x then
    if π.checkInfDivInf && (t.isMinf π y || t.isPinf π y) then assignNan t π to0 V_INF_DIV_INF
    else
      let s := sgnNative y
      if s == Rel.LT then assignSpecial t π to0 .minf dir
      else if s == Rel.GT then assignSpecial t π to0 .pinf dir
      else assignNan t π to0 V_DIV_ZERO
  else if t.isMinf π y || t.isPinf π y then (0, V_EQ)
  else native ()

def divExt (t : IntTy) (π : Policy) (to0 x y : Int) (dir : Dir) : Int × Result :=
  divLikeExt t π to0 x y dir fun _ => div t π to0 x y dir

def idivExt (t : IntTy) (π : Policy) (to0 x y : Int) (dir : Dir) : Int × Result :=
  divLikeExt t π to0 x y dir fun _ => idiv t π to0 x y dir

def remExt (t : IntTy) (π : Policy) (to0 x y : Int) (dir : Dir) : Int × Result :=
  if t.isNan π x || t.isNan π y then assignSpecial t π to0 .nan .ignore
  else if π.checkInfMod && (t.isMinf π x || t.isPinf π x) then assignNan t π to0 V_INF_MOD
  else if t.isMinf π y || t.isPinf π y then (x, V_EQ)
  else rem t π to0 x y dir

def twoExpExt (t : IntTy) (π : Policy) (to0 x : Int) (dir : Dir) (native : Unit → Int × Result) : Int × Result :=
  extUnary t π t π to0 x dir native

def modExt (t : IntTy) (π : Policy) (to0 x : Int) (native : Unit → Int × Result) : Int × Result :=
  if t.isNan π x then assignSpecial t π to0 .nan .ignore
  else if π.checkInfMod && (t.isMinf π x || t.isPinf π x) then assignNan t π to0 V_INF_MOD
  else native ()

def sqrtExt (t : IntTy) (π : Policy) (to0 x : Int) (dir : Dir) : Int × Result :=
  if t.isNan π x then assignSpecial t π to0 .nan .ignore
  else if t.isMinf π x then assignNan t π to0 V_SQRT_NEG
  else if t.isPinf π x then assignSpecial t π to0 .pinf dir
  else sqrt t π to0 x dir

def gcdExt (t : IntTy) (π : Policy) (to0 x y : Int) (dir : Dir) : Int × Result :=
  if t.isNan π x || t.isNan π y then assignSpecial t π to0 .nan .ignore
  else if t.isMinf π x || t.isPinf π x then absExt t π to0 y dir
  else if t.isMinf π y || t.isPinf π y then absExt t π to0 x dir
  else gcd t π to0 x y dir

def lcmExt (t : IntTy) (π : Policy) (to0 x y : Int) (dir : Dir) : Int × Result :=
  if t.isNan π x || t.isNan π y then assignSpecial t π to0 .nan .ignore
  else if t.isMinf π x || t.isPinf π x || t.isMinf π y || t.isPinf π y then assignSpecial t π to0 .pinf dir
  else lcm t π to0 x y dir

/-! ## one entry point -/

inductive IntOp
  | assign (f : IntTy) (πf : Policy)
  | neg | abs | add | sub | mul | div | idiv | rem | addMul | subMul
  | add2exp | sub2exp | mul2exp | div2exp | smod2exp | umod2exp
  | sqrt | gcd | lcm
deriving DecidableEq, Repr, Inhabited

structure Operands where
  to0 : Int := 0
  x : Int := 0
  y : Int := 0
  e : Nat := 0
deriving Repr, Inhabited

/-- what `assign_r`, `neg_assign_r`, `add_assign_r` … do on `Checked_Number<T, π>` operands -/
def IntOp.run (t : IntTy) (π : Policy) (op : IntOp) (dir : Dir) (a : Operands) : Int × Result :=
  match op with
  | .assign f πf => assignExt t π f πf a.to0 a.x dir
  | .neg => negExt t π a.to0 a.x dir
  | .abs => absExt t π a.to0 a.x dir
  | .add => addExt t π a.to0 a.x a.y dir
  | .sub => subExt t π a.to0 a.x a.y dir
  | .mul => mulExt t π a.to0 a.x a.y dir
  | .div => divExt t π a.to0 a.x a.y dir
  | .idiv => idivExt t π a.to0 a.x a.y dir
  | .rem => remExt t π a.to0 a.x a.y dir
  | .addMul => addMulExt t π a.to0 a.x a.y dir
  | .subMul => subMulExt t π a.to0 a.x a.y dir
  | .add2exp => twoExpExt t π a.to0 a.x dir fun _ => PPLV.Checked.add2exp t π a.to0 a.x a.e dir
  | .sub2exp => twoExpExt t π a.to0 a.x dir fun _ => PPLV.Checked.sub2exp t π a.to0 a.x a.e dir
  | .mul2exp => twoExpExt t π a.to0 a.x dir fun _ => PPLV.Checked.mul2exp t π a.to0 a.x a.e dir
  | .div2exp => twoExpExt t π a.to0 a.x dir fun _ => PPLV.Checked.div2exp t π a.to0 a.x a.e dir
  | .smod2exp => modExt t π a.to0 a.x fun _ => PPLV.Checked.smod2exp t π a.to0 a.x a.e dir
  | .umod2exp => modExt t π a.to0 a.x fun _ => PPLV.Checked.umod2exp t π a.to0 a.x a.e dir
  | .sqrt => sqrtExt t π a.to0 a.x dir
  | .gcd => gcdExt t π a.to0 a.x a.y dir
  | .lcm => lcmExt t π a.to0 a.x a.y dir

end PPLV.Checked
