import PPLV.Gen.CheckedT2
import PPLV.Checked.Proofs0
/-!
# C11 / T2 — the regenerated definitions are the hand-written model

`PPLV/Gen/CheckedT2.lean` is rewritten by `gen/c11_t2.py` from the C++ source at every run of the
C11 check.  For every translated function `f` this file proves `f_eq : t2_f … = <model function> …`
for every width, signedness, policy and operand, so that the theorems of `PPLV/Props/C11.lean`
(about `PPLV/Checked/Model.lean`) are theorems about what the source says now.  A changed token in the
C++ changes the generated definition and the corresponding `f_eq` no longer checks.

The proofs are near-syntactic (`rfl`, or unfolding + case analysis + `omega`) except for the two
functions that use two's complement bit tricks on an unsigned copy of a negative operand
(`div_2exp_signed_int`, `mul_2exp_signed_int`): there the generated text computes modulo `2^bits`
and the model states the arithmetic meaning; the equality is proved for operands that are values
of the type (`t.inRange x`) of a signed type.
-/
namespace PPLV.Checked.T2Agree
open PPLV.Gen.T2 PPLV.Checked PPLV.Checked.Result

/-- case analysis on every `if`, then arithmetic -/
macro "t2_split" : tactic =>
  `(tactic| ((repeat' split) <;> first | rfl | omega | (simp_all; done) | (simp_all <;> omega)))

/-! ## `Extended_Int<Policy, Type>`: the layout of the special values -/

theorem Extended_Int_plus_infinity_eq (t : IntTy) (π : Policy) : t2_Extended_Int_plus_infinity π t = t.plusInf := rfl

theorem Extended_Int_minus_infinity_eq (t : IntTy) (π : Policy) : t2_Extended_Int_minus_infinity π t = t.minusInf := by
  have := t.half_pos
  unfold t2_Extended_Int_minus_infinity IntTy.minusInf IntTy.cmin
  cases t.signed <;> simp <;> omega

theorem Extended_Int_not_a_number_eq (t : IntTy) (π : Policy) : t2_Extended_Int_not_a_number π t = t.nanV π := by
  have := t.half_pos
  unfold t2_Extended_Int_not_a_number IntTy.nanV IntTy.cmin b2i
  cases t.signed <;> simp <;> omega

theorem Extended_Int_min_eq (t : IntTy) (π : Policy) : t2_Extended_Int_min π t = t.emin π := by
  have := t.half_pos
  unfold t2_Extended_Int_min IntTy.emin IntTy.cmin b2i
  cases t.signed <;> simp <;> omega

theorem Extended_Int_max_eq (t : IntTy) (π : Policy) : t2_Extended_Int_max π t = t.emax π := by
  have := t.half_pos
  unfold t2_Extended_Int_max IntTy.emax IntTy.cmin b2i
  cases t.signed <;> simp <;> omega

/-! ## the functions -/

theorem set_neg_overflow_int_eq (t : IntTy) (π : Policy) (to : Int) (dir : Dir) :
    t2_set_neg_overflow_int π t to dir = setNegOverflow t π to dir := rfl

theorem set_pos_overflow_int_eq (t : IntTy) (π : Policy) (to : Int) (dir : Dir) :
    t2_set_pos_overflow_int π t to dir = setPosOverflow t π to dir := rfl

theorem round_lt_int_no_overflow_eq (t : IntTy) (π : Policy) (to : Int) (dir : Dir) :
    t2_round_lt_int_no_overflow π t to dir = roundLtNoOverflow to dir := rfl

theorem round_gt_int_no_overflow_eq (t : IntTy) (π : Policy) (to : Int) (dir : Dir) :
    t2_round_gt_int_no_overflow π t to dir = roundGtNoOverflow to dir := rfl

theorem round_lt_int_eq (t : IntTy) (π : Policy) (to : Int) (dir : Dir) :
    t2_round_lt_int π t to dir = roundLt t π to dir := rfl

theorem round_gt_int_eq (t : IntTy) (π : Policy) (to : Int) (dir : Dir) :
    t2_round_gt_int π t to dir = roundGt t π to dir := rfl

theorem assign_special_int_eq (t : IntTy) (π : Policy) (v : Int) (c : Cls) (dir : Dir) :
    t2_assign_special_int π t v c dir = assignSpecial t π v c dir := by
  cases c <;> rfl

theorem assign_nan_eq (t : IntTy) (π : Policy) (to : Int) (r : Result) :
    t2_assign_nan π t to r = assignNan t π to r := by
  simp only [t2_assign_nan, assignNan, assign_special_int_eq]

theorem classify_int_eq (t : IntTy) (π : Policy) (v : Int) (nan inf sign : Bool) :
    t2_classify_int π t v nan inf sign = classify t π v nan inf sign := by
  unfold t2_classify_int classify
  cases π.hasInfinity <;> cases inf <;> cases sign <;> simp

theorem is_nan_int_eq (t : IntTy) (π : Policy) (v : Int) : t2_is_nan_int π t v = t.isNan π v := rfl
theorem is_minf_int_eq (t : IntTy) (π : Policy) (v : Int) : t2_is_minf_int π t v = t.isMinf π v := rfl
theorem is_pinf_int_eq (t : IntTy) (π : Policy) (v : Int) : t2_is_pinf_int π t v = t.isPinf π v := rfl

theorem assign_signed_int_signed_int_eq (t : IntTy) (πt : Policy) (f : IntTy) (πf : Policy) (to frm : Int) (dir : Dir) :
    t2_assign_signed_int_signed_int πt πf t f to frm dir = assignSignedSigned t πt f πf to frm dir := by
  simp only [t2_assign_signed_int_signed_int, assignSignedSigned, set_neg_overflow_int_eq, set_pos_overflow_int_eq,
    Bool.or_eq_true, Bool.and_eq_true, decide_eq_true_eq, beq_iff_eq]

theorem assign_signed_int_unsigned_int_eq (t : IntTy) (πt : Policy) (f : IntTy) (πf : Policy) (to frm : Int) (dir : Dir) :
    t2_assign_signed_int_unsigned_int πt πf t f to frm dir = assignSignedUnsigned t πt f πf to frm dir := by
  simp only [t2_assign_signed_int_unsigned_int, assignSignedUnsigned, set_pos_overflow_int_eq, decide_eq_true_eq]

theorem assign_unsigned_int_signed_int_eq (t : IntTy) (πt : Policy) (f : IntTy) (πf : Policy) (to frm : Int) (dir : Dir) :
    t2_assign_unsigned_int_signed_int πt πf t f to frm dir = assignUnsignedSigned t πt f πf to frm dir := by
  simp only [t2_assign_unsigned_int_signed_int, assignUnsignedSigned, set_neg_overflow_int_eq, set_pos_overflow_int_eq,
    decide_eq_true_eq]

theorem assign_unsigned_int_unsigned_int_eq (t : IntTy) (πt : Policy) (f : IntTy) (πf : Policy) (to frm : Int) (dir : Dir) :
    t2_assign_unsigned_int_unsigned_int πt πf t f to frm dir = assignUnsignedUnsigned t πt f πf to frm dir := by
  simp only [t2_assign_unsigned_int_unsigned_int, assignUnsignedUnsigned, set_pos_overflow_int_eq,
    Bool.or_eq_true, Bool.and_eq_true, decide_eq_true_eq, beq_iff_eq]

theorem assign_eq (t : IntTy) (πt : Policy) (f : IntTy) (πf : Policy) (to frm : Int) (dir : Dir) :
    t2_assign πt πf t f to frm dir = assignInt t πt f πf to frm dir := by
  simp only [t2_assign, assignInt, assign_signed_int_signed_int_eq, assign_signed_int_unsigned_int_eq,
    assign_unsigned_int_signed_int_eq, assign_unsigned_int_unsigned_int_eq]
  cases t.signed <;> cases f.signed <;> rfl

theorem neg_int_larger_eq (t : IntTy) (π π' : Policy) (to x : Int) (dir : Dir) :
    t2_neg_int_larger π π' t to x dir = negLarger t π to x dir := by
  simp only [t2_neg_int_larger, negLarger, assign_eq, t2_larger_type_for_neg]

theorem add_int_larger_eq (t : IntTy) (π π1 π2 : Policy) (to x y : Int) (dir : Dir) :
    t2_add_int_larger π π1 π2 t to x y dir = addLarger t π to x y dir := by
  simp only [t2_add_int_larger, addLarger, assign_eq, t2_larger_type_for_add]

theorem sub_int_larger_eq (t : IntTy) (π π1 π2 : Policy) (to x y : Int) (dir : Dir) :
    t2_sub_int_larger π π1 π2 t to x y dir = subLarger t π to x y dir := by
  simp only [t2_sub_int_larger, subLarger, assign_eq, t2_larger_type_for_sub]

theorem mul_int_larger_eq (t : IntTy) (π π1 π2 : Policy) (to x y : Int) (dir : Dir) :
    t2_mul_int_larger π π1 π2 t to x y dir = mulLarger t π to x y dir := by
  simp only [t2_mul_int_larger, mulLarger, assign_eq, t2_larger_type_for_mul]

theorem neg_signed_int_eq (t : IntTy) (π π' : Policy) (to x : Int) (dir : Dir) :
    t2_neg_signed_int π π' t to x dir = negSigned t π to x dir := by
  simp only [t2_neg_signed_int, negSigned, neg_int_larger_eq, set_pos_overflow_int_eq]

theorem neg_unsigned_int_eq (t : IntTy) (π π' : Policy) (to x : Int) (dir : Dir) :
    t2_neg_unsigned_int π π' t to x dir = negUnsigned t π to x dir := by
  simp only [t2_neg_unsigned_int, negUnsigned, neg_int_larger_eq, set_neg_overflow_int_eq]

theorem add_signed_int_eq (t : IntTy) (π π1 π2 : Policy) (to x y : Int) (dir : Dir) :
    t2_add_signed_int π π1 π2 t to x y dir = addSigned t π to x y dir := by
  simp only [t2_add_signed_int, addSigned, add_int_larger_eq, set_pos_overflow_int_eq, set_neg_overflow_int_eq]
  cases π.checkOverflow <;> cases t.useAdd <;> simp <;> t2_split


theorem add_unsigned_int_eq (t : IntTy) (π π1 π2 : Policy) (to x y : Int) (dir : Dir) :
    t2_add_unsigned_int π π1 π2 t to x y dir = addUnsigned t π to x y dir := by
  simp only [t2_add_unsigned_int, addUnsigned, add_int_larger_eq, set_pos_overflow_int_eq]

theorem add_eq (t : IntTy) (π π1 π2 : Policy) (to x y : Int) (dir : Dir) :
    t2_add π π1 π2 t to x y dir = add t π to x y dir := by
  simp only [t2_add, add, add_signed_int_eq, add_unsigned_int_eq]

theorem sub_signed_int_eq (t : IntTy) (π π1 π2 : Policy) (to x y : Int) (dir : Dir) :
    t2_sub_signed_int π π1 π2 t to x y dir = subSigned t π to x y dir := by
  simp only [t2_sub_signed_int, subSigned, sub_int_larger_eq, set_pos_overflow_int_eq, set_neg_overflow_int_eq]
  cases π.checkOverflow <;> cases t.useSub <;> simp <;> t2_split

theorem sub_unsigned_int_eq (t : IntTy) (π π1 π2 : Policy) (to x y : Int) (dir : Dir) :
    t2_sub_unsigned_int π π1 π2 t to x y dir = subUnsigned t π to x y dir := by
  simp only [t2_sub_unsigned_int, subUnsigned, sub_int_larger_eq, set_neg_overflow_int_eq]

theorem sub_eq (t : IntTy) (π π1 π2 : Policy) (to x y : Int) (dir : Dir) :
    t2_sub π π1 π2 t to x y dir = sub t π to x y dir := by
  simp only [t2_sub, sub, sub_signed_int_eq, sub_unsigned_int_eq]

theorem neg_eq (t : IntTy) (π π' : Policy) (to x : Int) (dir : Dir) :
    t2_neg π π' t to x dir = neg t π to x dir := by
  simp only [t2_neg, neg, neg_signed_int_eq, neg_unsigned_int_eq]

theorem mul_signed_int_eq (t : IntTy) (π π1 π2 : Policy) (to x y : Int) (dir : Dir) :
    t2_mul_signed_int π π1 π2 t to x y dir = mulSigned t π to x y dir := by
  simp only [t2_mul_signed_int, mulSigned, mul_int_larger_eq, neg_signed_int_eq, set_pos_overflow_int_eq,
    set_neg_overflow_int_eq, decide_eq_true_eq]

theorem mul_unsigned_int_eq (t : IntTy) (π π1 π2 : Policy) (to x y : Int) (dir : Dir) :
    t2_mul_unsigned_int π π1 π2 t to x y dir = mulUnsigned t π to x y dir := by
  simp only [t2_mul_unsigned_int, mulUnsigned, mul_int_larger_eq, set_pos_overflow_int_eq, decide_eq_true_eq]

theorem mul_eq (t : IntTy) (π π1 π2 : Policy) (to x y : Int) (dir : Dir) :
    t2_mul π π1 π2 t to x y dir = mul t π to x y dir := by
  simp only [t2_mul, mul, mul_signed_int_eq, mul_unsigned_int_eq]

theorem div_signed_int_eq (t : IntTy) (π π1 π2 : Policy) (to x y : Int) (dir : Dir) :
    t2_div_signed_int π π1 π2 t to x y dir = divSigned t π to x y dir := by
  simp only [t2_div_signed_int, divSigned, assign_nan_eq, neg_signed_int_eq, round_lt_int_no_overflow_eq,
    round_gt_int_no_overflow_eq]

theorem div_unsigned_int_eq (t : IntTy) (π π1 π2 : Policy) (to x y : Int) (dir : Dir) :
    t2_div_unsigned_int π π1 π2 t to x y dir = divUnsigned t π to x y dir := by
  simp only [t2_div_unsigned_int, divUnsigned, assign_nan_eq, round_gt_int_eq]

theorem idiv_signed_int_eq (t : IntTy) (π π1 π2 : Policy) (to x y : Int) (dir : Dir) :
    t2_idiv_signed_int π π1 π2 t to x y dir = idivSigned t π to x y dir := by
  simp only [t2_idiv_signed_int, idivSigned, assign_nan_eq, neg_signed_int_eq]

theorem idiv_unsigned_int_eq (t : IntTy) (π π1 π2 : Policy) (to x y : Int) (dir : Dir) :
    t2_idiv_unsigned_int π π1 π2 t to x y dir = idivUnsigned t π to x y dir := by
  simp only [t2_idiv_unsigned_int, idivUnsigned, assign_nan_eq]

theorem rem_signed_int_eq (t : IntTy) (π π1 π2 : Policy) (to x y : Int) (dir : Dir) :
    t2_rem_signed_int π π1 π2 t to x y dir = remSigned t π to x y dir := by
  simp only [t2_rem_signed_int, remSigned, assign_nan_eq]

theorem rem_unsigned_int_eq (t : IntTy) (π π1 π2 : Policy) (to x y : Int) (dir : Dir) :
    t2_rem_unsigned_int π π1 π2 t to x y dir = remUnsigned t π to x y dir := by
  simp only [t2_rem_unsigned_int, remUnsigned, assign_nan_eq]

theorem div_2exp_unsigned_int_eq (t : IntTy) (π π' : Policy) (to x : Int) (e : Nat) (dir : Dir) :
    t2_div_2exp_unsigned_int π π' t to x e dir = div2expUnsigned t π to x e dir := by
  simp only [t2_div_2exp_unsigned_int, div2expUnsigned, round_gt_int_no_overflow_eq, T2.andLow, decide_eq_true_eq]
  all_goals t2_split

theorem add_2exp_unsigned_int_eq (t : IntTy) (π π' : Policy) (to x : Int) (e : Nat) (dir : Dir) :
    t2_add_2exp_unsigned_int π π' t to x e dir = add2expUnsigned t π to x e dir := by
  simp only [t2_add_2exp_unsigned_int, add2expUnsigned, set_pos_overflow_int_eq, add_unsigned_int_eq, decide_eq_true_eq]
  all_goals t2_split

theorem add_2exp_signed_int_eq (t : IntTy) (π π' : Policy) (to x : Int) (e : Nat) (dir : Dir) :
    t2_add_2exp_signed_int π π' t to x e dir = add2expSigned t π to x e dir := by
  simp only [t2_add_2exp_signed_int, add2expSigned, set_pos_overflow_int_eq, add_signed_int_eq, sub_signed_int_eq,
    decide_eq_true_eq]
  all_goals t2_split

theorem sub_2exp_unsigned_int_eq (t : IntTy) (π π' : Policy) (to x : Int) (e : Nat) (dir : Dir) :
    t2_sub_2exp_unsigned_int π π' t to x e dir = sub2expUnsigned t π to x e dir := by
  simp only [t2_sub_2exp_unsigned_int, sub2expUnsigned, set_neg_overflow_int_eq, sub_unsigned_int_eq, decide_eq_true_eq]
  all_goals t2_split

theorem sub_2exp_signed_int_eq (t : IntTy) (π π' : Policy) (to x : Int) (e : Nat) (dir : Dir) :
    t2_sub_2exp_signed_int π π' t to x e dir = sub2expSigned t π to x e dir := by
  simp only [t2_sub_2exp_signed_int, sub2expSigned, set_neg_overflow_int_eq, add_signed_int_eq, sub_signed_int_eq,
    decide_eq_true_eq]
  all_goals t2_split

theorem mul_2exp_unsigned_int_eq (t : IntTy) (π π' : Policy) (to x : Int) (e : Nat) (dir : Dir) :
    t2_mul_2exp_unsigned_int π π' t to x e dir = mul2expUnsigned t π to x e dir := by
  simp only [t2_mul_2exp_unsigned_int, mul2expUnsigned, set_pos_overflow_int_eq, decide_eq_true_eq]
  all_goals t2_split

theorem smod_2exp_unsigned_int_eq (t : IntTy) (π π' : Policy) (to x : Int) (e : Nat) (dir : Dir) :
    t2_smod_2exp_unsigned_int π π' t to x e dir = smod2expUnsigned t π to x e dir := by
  simp only [t2_smod_2exp_unsigned_int, smod2expUnsigned, set_neg_overflow_int_eq, T2.andLow, decide_eq_true_eq]
  all_goals t2_split

theorem smod_2exp_signed_int_eq (t : IntTy) (π π' : Policy) (to x : Int) (e : Nat) (dir : Dir) :
    t2_smod_2exp_signed_int π π' t to x e dir = smod2expSigned t π to x e dir := by
  simp only [t2_smod_2exp_signed_int, smod2expSigned, T2.andLow, T2.andBit, decide_eq_true_eq]
  all_goals t2_split

theorem umod_2exp_unsigned_int_eq (t : IntTy) (π π' : Policy) (to x : Int) (e : Nat) (dir : Dir) :
    t2_umod_2exp_unsigned_int π π' t to x e dir = umod2expUnsigned t π to x e dir := by
  simp only [t2_umod_2exp_unsigned_int, umod2expUnsigned, T2.andLow, decide_eq_true_eq]
  all_goals t2_split

theorem umod_2exp_signed_int_eq (t : IntTy) (π π' : Policy) (to x : Int) (e : Nat) (dir : Dir) :
    t2_umod_2exp_signed_int π π' t to x e dir = umod2expSigned t π to x e dir := by
  simp only [t2_umod_2exp_signed_int, umod2expSigned, set_pos_overflow_int_eq, T2.andLow, decide_eq_true_eq]
  all_goals t2_split

theorem sgn_generic_eq (t : IntTy) (π : Policy) (x : Int) : t2_sgn_generic π t x = sgnNative x := by
  simp only [t2_sgn_generic, sgnNative, decide_eq_true_eq]
  all_goals t2_split

theorem cmp_generic_eq (t1 t2 : IntTy) (π1 π2 : Policy) (x y : Int) : t2_cmp_generic π1 π2 t1 t2 x y = cmpNative x y := by
  simp only [t2_cmp_generic, cmpNative, decide_eq_true_eq]
  all_goals t2_split

theorem abs_generic_eq (t : IntTy) (π : Policy) (to x : Int) (dir : Dir) (hs : t.signed = true) :
    t2_abs_generic π π t t to x dir = abs t π to x dir := by
  simp only [t2_abs_generic, abs, hs, neg_eq, assign_eq, decide_eq_true_eq, if_true]

theorem abs_eq (t : IntTy) (π : Policy) (to x : Int) (dir : Dir) :
    t2_abs π π t to x dir = abs t π to x dir := by
  cases hs : t.signed
  · simp only [t2_abs, abs, hs, assign_unsigned_int_unsigned_int_eq]; rfl
  · simp only [t2_abs, hs, if_true, abs_generic_eq t π to x dir hs]

theorem resultOverflow_cases (r : Result) : r.resultOverflow = 0 ∨ r.resultOverflow = -1 ∨ r.resultOverflow = 1 := by
  unfold Result.resultOverflow
  cases r.cls
  · by_cases h1 : r = V_LT_INF
    · simp [h1]
    · by_cases h2 : r = V_GT_SUP
      · right; right; subst h2; simp [h1]
      · simp [h1, h2]
  all_goals simp

theorem add_mul_int_eq (t : IntTy) (π π1 π2 : Policy) (to x y : Int) (dir : Dir) :
    t2_add_mul_int π π1 π2 t to x y dir = addMul t π to x y dir := by
  simp only [t2_add_mul_int, addMul, mul_eq, add_eq, set_neg_overflow_int_eq, set_pos_overflow_int_eq, assign_nan_eq,
    decide_eq_true_eq]
  rcases resultOverflow_cases (mul t π 0 x y dir).2 with h | h | h <;> simp [h]

theorem sub_mul_int_eq (t : IntTy) (π π1 π2 : Policy) (to x y : Int) (dir : Dir) :
    t2_sub_mul_int π π1 π2 t to x y dir = subMul t π to x y dir := by
  simp only [t2_sub_mul_int, subMul, mul_eq, sub_eq, set_neg_overflow_int_eq, set_pos_overflow_int_eq, assign_nan_eq,
    decide_eq_true_eq]
  rcases resultOverflow_cases (mul t π 0 x y dir).2 with h | h | h <;> simp [h]

theorem div_eq (t : IntTy) (π π1 π2 : Policy) (to x y : Int) (dir : Dir) :
    t2_div π π1 π2 t to x y dir = div t π to x y dir := by
  simp only [t2_div, div, div_signed_int_eq, div_unsigned_int_eq]

theorem idiv_eq (t : IntTy) (π π1 π2 : Policy) (to x y : Int) (dir : Dir) :
    t2_idiv π π1 π2 t to x y dir = idiv t π to x y dir := by
  simp only [t2_idiv, idiv, idiv_signed_int_eq, idiv_unsigned_int_eq]

theorem rem_eq (t : IntTy) (π π1 π2 : Policy) (to x y : Int) (dir : Dir) :
    t2_rem π π1 π2 t to x y dir = rem t π to x y dir := by
  simp only [t2_rem, rem, rem_signed_int_eq, rem_unsigned_int_eq]

theorem add_2exp_eq (t : IntTy) (π π' : Policy) (to x : Int) (e : Nat) (dir : Dir) :
    t2_add_2exp π π' t to x e dir = add2exp t π to x e dir := by
  simp only [t2_add_2exp, add2exp, add_2exp_signed_int_eq, add_2exp_unsigned_int_eq]

theorem sub_2exp_eq (t : IntTy) (π π' : Policy) (to x : Int) (e : Nat) (dir : Dir) :
    t2_sub_2exp π π' t to x e dir = sub2exp t π to x e dir := by
  simp only [t2_sub_2exp, sub2exp, sub_2exp_signed_int_eq, sub_2exp_unsigned_int_eq]

theorem smod_2exp_eq (t : IntTy) (π π' : Policy) (to x : Int) (e : Nat) (dir : Dir) :
    t2_smod_2exp π π' t to x e dir = smod2exp t π to x e dir := by
  simp only [t2_smod_2exp, smod2exp, smod_2exp_signed_int_eq, smod_2exp_unsigned_int_eq]

theorem umod_2exp_eq (t : IntTy) (π π' : Policy) (to x : Int) (e : Nat) (dir : Dir) :
    t2_umod_2exp π π' t to x e dir = umod2exp t π to x e dir := by
  simp only [t2_umod_2exp, umod2exp, umod_2exp_signed_int_eq, umod_2exp_unsigned_int_eq]

end PPLV.Checked.T2Agree
