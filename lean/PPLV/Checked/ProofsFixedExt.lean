import PPLV.Checked.ProofsFixed
import PPLV.Checked.ProofsPre
/-!
# C11 proofs: `IntOp.runF` with a repair switched on satisfies the clauses without the side condition
-/
namespace PPLV.Checked
open Result

theorem IntTy.denote_ne_fin_of_special {t : IntTy} {π : Policy} {x : Int} (h : t.special π x = true) (v : Int) :
    t.denote π x ≠ .fin v := by
  unfold IntTy.special at h
  unfold IntTy.denote
  cases h1 : t.isNan π x <;> cases h2 : t.isMinf π x <;> cases h3 : t.isPinf π x <;> simp_all

theorem IntTy.not_special_cases {t : IntTy} {π : Policy} (w : t.WF π) {x : Int} (hr : t.inRange x)
    (h : t.special π x = false) : t.denote π x = .fin x ∧ t.finite π x ∧
      t.isNan π x = false ∧ t.isMinf π x = false ∧ t.isPinf π x = false := by
  unfold IntTy.special at h
  simp only [Bool.or_eq_false_iff] at h
  obtain ⟨⟨a, b⟩, c⟩ := h
  rcases IntTy.denote_cases w hr with ⟨a', _⟩ | ⟨_, b', _⟩ | ⟨_, _, c', _⟩ | ⟨_, _, _, d, f⟩
  · rw [a] at a'; cases a'
  · rw [b] at b'; cases b'
  · rw [c] at c'; cases c'
  · exact ⟨d, f, a, b, c⟩

/-- division with KF-C11-1 repaired: no `divBad` exclusion -/
theorem runF_div_okq {t : IntTy} {π : Policy} (w : t.WF π) (hl : t.LargerOK) (hco : π.checkOverflow = true)
    (fx : Fixes) (hfx : fx.div = true) (dir : Dir) (a : Operands)
    (h0 : t.inRange a.to0) (hx : t.inRange a.x) (hy : t.inRange a.y)
    (hpre1 : π.checkInfDivInf = true ∨ ¬ ((t.denote π a.x).isInf = true ∧ (t.denote π a.y).isInf = true))
    (hpre2 : π.checkDivZero = true ∨ ¬ (t.denote π a.y = .fin 0 ∧ ∃ v, t.denote π a.x = .fin v)) :
    OKQ t π dir (IntOp.runF fx t π .div dir a) (exactDiv (t.denote π a.x) (t.denote π a.y)).toQ := by
  unfold IntOp.runF
  simp only [hfx, Bool.true_and]
  cases hsp : (t.special π a.x || t.special π a.y)
  · simp only [Bool.not_false, if_true]
    simp only [Bool.or_eq_false_iff] at hsp
    obtain ⟨dx, fx', _⟩ := IntTy.not_special_cases w hx hsp.1
    obtain ⟨dy, fy', _⟩ := IntTy.not_special_cases w hy hsp.2
    have hdz : π.checkDivZero = true ∨ a.y ≠ 0 := by
      rcases hpre2 with h | h
      · exact Or.inl h
      · right; intro hy0; apply h; rw [dy, dx, hy0]; exact ⟨rfl, a.x, rfl⟩
    rw [dx, dy, exactDiv_fin_toQ]
    unfold divF
    cases hs : t.signed
    · simpa using divUnsigned_okq w hs dir h0 fx' fy' hdz
    · simpa using divSignedF_okq w hs hl hco dir h0 fx' fy' hdz
  · simp only [Bool.not_true, Bool.false_eq_true, if_false, IntOp.run]
    refine divExt_okq_partial w hl hco dir h0 hx hy hpre1 hpre2 (Or.inr ?_)
    intro v u hv hu
    simp only [Bool.or_eq_true] at hsp
    rcases hsp with h | h
    · exact absurd hv (IntTy.denote_ne_fin_of_special h v)
    · exact absurd hu (IntTy.denote_ne_fin_of_special h u)

/-- fused multiply-subtract with KF-C11-2 repaired: no `subMulBad` exclusion -/
theorem runF_subMul_ok {t : IntTy} {π : Policy} (w : t.WF π) (hl : t.LargerOK) (hco : π.checkOverflow = true)
    (fx : Fixes) (hfx : fx.subMul = true) (dir : Dir) (a : Operands)
    (h0 : t.inRange a.to0) (hx : t.inRange a.x) (hy : t.inRange a.y)
    (hpre : π.checkInfSubInf = true ∨
      ¬ ((t.denote π a.to0 = .minf ∧ Ext.mulI (t.denote π a.x) (t.denote π a.y) = .minf) ∨
         (t.denote π a.to0 = .pinf ∧ Ext.mulI (t.denote π a.x) (t.denote π a.y) = .pinf))) :
    OK t π dir (IntOp.runF fx t π .subMul dir a)
      (Ext.subI (t.denote π a.to0) (Ext.mulI (t.denote π a.x) (t.denote π a.y))) := by
  unfold IntOp.runF
  simp only [hfx, Bool.true_and]
  cases hsp : (t.special π a.to0 || t.special π a.x || t.special π a.y)
  · simp only [Bool.not_false, if_true]
    simp only [Bool.or_eq_false_iff] at hsp
    obtain ⟨dz, fz, _⟩ := IntTy.not_special_cases w h0 hsp.1.1
    obtain ⟨dx, fx', _⟩ := IntTy.not_special_cases w hx hsp.1.2
    obtain ⟨dy, fy', _⟩ := IntTy.not_special_cases w hy hsp.2
    rw [dz, dx, dy]
    have := subMulF_ok w hl hco dir fz fx' fy'
    simpa [Ext.subI, Ext.mulI, Ext.negI, Ext.addI, Int.sub_eq_add_neg] using this
  · simp only [Bool.not_true, Bool.false_eq_true, if_false, IntOp.run]
    refine subMulExt_ok_partial w hl hco dir h0 hx hy hpre ?_
    intro fz fx' fy'
    simp only [Bool.or_eq_true] at hsp
    have nz := IntTy.denote_finite w fz
    have nx := IntTy.denote_finite w fx'
    have ny := IntTy.denote_finite w fy'
    rcases hsp with (h | h) | h
    · exact absurd nz (IntTy.denote_ne_fin_of_special h _)
    · exact absurd nx (IntTy.denote_ne_fin_of_special h _)
    · exact absurd ny (IntTy.denote_ne_fin_of_special h _)

/-- `umod_2exp` with KF-C11-3 repaired: no `umodBad` exclusion -/
theorem runF_umod_ok {t : IntTy} {π : Policy} (w : t.WF π)
    (fx : Fixes) (hfx : fx.umod = true) (dir : Dir) (a : Operands)
    (h0 : t.inRange a.to0) (hx : t.inRange a.x)
    (hpre : π.checkInfMod = true ∨ (t.denote π a.x).isInf = false) :
    OK t π dir (IntOp.runF fx t π .umod2exp dir a)
      (match t.denote π a.x with | .fin v => .fin (v % pow2 a.e) | _ => .nan) := by
  unfold IntOp.runF
  simp only [hfx, Bool.true_and]
  cases hsp : t.special π a.x
  · simp only [Bool.not_false, if_true]
    obtain ⟨dx, fx', _⟩ := IntTy.not_special_cases w hx hsp
    rw [dx]
    exact tri_ok w h0 (umod2expF_tri w dir a.e fx')
  · simp only [Bool.not_true, Bool.false_eq_true, if_false, IntOp.run]
    refine umod2expExt_ok_partial w dir a.e h0 hx hpre ?_
    intro fx'
    exact absurd (IntTy.denote_finite w fx') (IntTy.denote_ne_fin_of_special hsp _)

end PPLV.Checked
