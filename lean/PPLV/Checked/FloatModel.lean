import PPLV.Checked.Spec
/-!
# C11 — code-shaped model of `assign_float_mpz` over an abstract binary format (no Mathlib)

`checked_float_inlines.hh: assign_float_mpz<To_Policy, From_Policy, T>(to, from, dir)` for a format with
`MANTISSA_BITS = mbits` explicit significand bits (23 / 52 / 63) and `EXPONENT_MAX = emax`.
The value built by `Float<T>::build(neg, mantissa, exponent)` for an integer source is an integer (or an
infinity after `succ_float` / `pred_float` at the top of the range), so stored values are `Ext Int`.
`e = mpz_sizeinbase(from, 2) - 1` and `z = mpn_scan1(from, 0)` are inputs of the model; the theorem
assumes their GMP specifications.
-/
namespace PPLV.Checked
open Result

structure FloatFormat where
  mbits : Nat
  emax : Nat
deriving Repr, Inhabited

namespace FloatFormat
/-- `set_max`: the largest finite value `(2^(mbits+1) - 1) · 2^(emax - mbits)` -/
def maxF (f : FloatFormat) : Int := (pow2 (f.mbits + 1) - 1) * pow2 (f.emax - f.mbits)

/-- `set_neg_overflow_float` (`ROUND_NOT_NEEDED` is `PPL_UNREACHABLE` in the source) -/
def setNegOverflow (f : FloatFormat) (dir : Dir) : Ext Int × Result :=
  if dir.roundUp then (.fin (-(f.maxF)), V_LT_INF) else (.minf, V_GT_MINUS_INFINITY)

/-- `set_pos_overflow_float` -/
def setPosOverflow (f : FloatFormat) (dir : Dir) : Ext Int × Result :=
  if dir.roundDown then (.fin f.maxF, V_GT_SUP) else (.pinf, V_LT_PLUS_INFINITY)

/-- the magnitude after `succ_float` (`pred_float` on a negative value): the next value of the format
above `mant · 2^(e - mbits)`, `+∞` beyond the largest finite value -/
def nextMag (f : FloatFormat) (mant : Int) (e : Nat) : Ext Int :=
  if mant + 1 == pow2 (f.mbits + 1) && e == f.emax then .pinf else .fin ((mant + 1) * pow2 (e - f.mbits))

/-- `round_gt_float` on the positive value `mant · 2^(e - mbits)` -/
def roundGt (f : FloatFormat) (mant : Int) (e : Nat) (dir : Dir) : Ext Int × Result :=
  if dir.roundUp then (f.nextMag mant e, V_LT) else (.fin (mant * pow2 (e - f.mbits)), V_GT)

/-- `round_lt_float` on the negative value `-(mant · 2^(e - mbits))` -/
def roundLt (f : FloatFormat) (mant : Int) (e : Nat) (dir : Dir) : Ext Int × Result :=
  if dir.roundDown then
    ((match f.nextMag mant e with | .fin m => .fin (-m) | _ => .minf), V_GT)
  else (.fin (-(mant * pow2 (e - f.mbits))), V_LT)

/-- `assign_float_mpz`; `e` = position of the most significant bit of `|v|`, `z` = number of trailing zero bits -/
def assignMpz (f : FloatFormat) (v : Int) (e z : Nat) (dir : Dir) : Ext Int × Result :=
  if v == 0 then (.fin 0, V_EQ)
  else if e > f.emax then (if v < 0 then f.setNegOverflow dir else f.setPosOverflow dir)
  else
    let a : Int := if v < 0 then -v else v
    let meaningful := e - z
    -- mpz_tdiv_q_2exp / mpz_mul_2exp
    let mant : Int := if e > f.mbits then a / pow2 (e - f.mbits) else a * pow2 (f.mbits - e)
    if meaningful > f.mbits then
      (if v < 0 then f.roundLt mant e dir else f.roundGt mant e dir)
    else
      -- the value of Float<T>::build(sign, mantissa, e): mantissa · 2^(e - mbits)
      let mag : Int := if e > f.mbits then mant * pow2 (e - f.mbits) else mant / pow2 (f.mbits - e)
      (.fin (if v < 0 then -mag else mag), V_EQ)
end FloatFormat

def FloatFormat.binary32 : FloatFormat := { mbits := 23, emax := 127 }
def FloatFormat.binary64 : FloatFormat := { mbits := 52, emax := 1023 }
def FloatFormat.x87 : FloatFormat := { mbits := 63, emax := 16383 }

end PPLV.Checked
