import PPLV.Checked.T2Agree
import PPLV.Checked.Proofs0
import Mathlib.Tactic.Linarith
import Mathlib.Tactic.Ring
/-!
# C11 / T2 — the two functions with two's complement bit tricks

`div_2exp_signed_int` and `mul_2exp_signed_int` copy a negative operand into the unsigned type of
the same width and use `~`, `-`, `<<`, `>>`, `&` on it.  The generated definitions compute modulo
`2^bits` (`T2.toU`, `T2.toS`, `T2.notU`, `T2.notS`, `T2.andHigh`); the hand-written model states
the arithmetic meaning (`-((-x) / 2^e)`, `x < -2^(bits-1-e)`, `x * 2^e`).  Equal for every signed
type and every operand that is a value of the type.
-/
namespace PPLV.Checked.T2Agree
open PPLV.Gen.T2 PPLV.Checked PPLV.Checked.Result

theorem emod_shift {a B : Int} (k : Int) (h0 : 0 ≤ a + k * B) (h1 : a + k * B < B) : a % B = a + k * B := by
  rw [← Int.add_mul_emod_self_right a k B]
  exact Int.emod_eq_of_lt h0 h1

theorem signed_range {t : IntTy} (hs : t.signed = true) {x : Int} (hx : t.inRange x) : -t.half ≤ x ∧ x ≤ t.half - 1 := by
  simpa [IntTy.inRange, IntTy.cmin, IntTy.cmax, hs] using hx

theorem toU_neg (t : IntTy) {x : Int} (h0 : -t.half ≤ x) (h1 : x < 0) : T2.toU t x = x + 2 * t.half := by
  have hh := t.half_pos
  unfold T2.toU T2.ubound
  have := emod_shift (a := x) (B := 2 * t.half) 1 (by omega) (by omega)
  omega

theorem toU_neg_toU (t : IntTy) {x : Int} (h0 : -t.half ≤ x) (h1 : x < 0) : T2.toU t (-(T2.toU t x)) = -x := by
  have hh := t.half_pos
  rw [toU_neg t h0 h1]
  unfold T2.toU T2.ubound
  have := emod_shift (a := -(x + 2 * t.half)) (B := 2 * t.half) 1 (by omega) (by omega)
  omega

/-- `~Type(~-(q))` for an unsigned `q ≤ 2^(bits-1)` is `-q` -/
theorem neg_trick (t : IntTy) {q : Int} (h0 : 0 ≤ q) (h1 : q ≤ t.half) :
    T2.notS (T2.toS t (T2.notU t (T2.toU t (-q)))) = -q := by
  have hh := t.half_pos
  unfold T2.notS T2.toS T2.notU T2.toU T2.umax T2.ubound
  by_cases hq : q = 0
  · subst hq
    have e1 : (-0 : Int) % (2 * t.half) = 0 := by simp
    rw [e1]
    have := emod_shift (a := 2 * t.half - 1 - 0 + t.half) (B := 2 * t.half) (-1) (by omega) (by omega)
    omega
  · have e1 := emod_shift (a := -q) (B := 2 * t.half) 1 (by omega) (by omega)
    rw [e1]
    have := emod_shift (a := 2 * t.half - 1 - (-q + 1 * (2 * t.half)) + t.half) (B := 2 * t.half) 0 (by omega) (by omega)
    omega


theorem div_2exp_signed_int_eq (t : IntTy) (π π' : Policy) (to0 x : Int) (e : Nat) (dir : Dir)
    (hs : t.signed = true) (hx : t.inRange x) :
    t2_div_2exp_signed_int π π' t to0 x e dir = div2expSigned t π to0 x e dir := by
  obtain ⟨x0, x1⟩ := signed_range hs hx
  have hh := t.half_pos
  simp only [t2_div_2exp_signed_int, div2expSigned, round_lt_int_no_overflow_eq, round_gt_int_no_overflow_eq,
    T2.andLow, decide_eq_true_eq]
  by_cases hneg : x < 0
  · simp only [hneg, if_true]
    by_cases he : e ≥ t.bits
    · simp only [he, if_true]
    · simp only [he, if_false]
      rw [toU_neg_toU t x0 hneg]
      have hq0 : 0 ≤ (-x) / pow2 e := Int.ediv_nonneg (by omega) (by have := pow2_pos e; omega)
      have hq1 : (-x) / pow2 e ≤ t.half := by
        have : (-x) / pow2 e ≤ -x := Int.ediv_le_self _ (by omega)
        omega
      rw [neg_trick t hq0 hq1]
      all_goals t2_split
  · simp only [hneg, if_false]
    all_goals t2_split


theorem half_split (t : IntTy) {k e : Nat} (h : k + e = t.bits - 1) : pow2 k * pow2 e = t.half := by
  unfold IntTy.half; rw [← h, pow2_add]

/-- `UType(-1) << k` is `2^bits - 2^k` -/
theorem mask_val (t : IntTy) {P : Int} (hP : 1 ≤ P) (hle : P ≤ t.half) : T2.toU t (T2.umax t * P) = 2 * t.half - P := by
  have hh := t.half_pos
  unfold T2.toU T2.umax T2.ubound
  have key : (2 * t.half - 1) * P + (-(P - 1)) * (2 * t.half) = 2 * t.half - P := by ring
  rw [emod_shift (-(P - 1)) (by rw [key]; omega) (by rw [key]; omega), key]

/-- `(ux & mask) != mask` for `mask = UType(-1) << k`: some bit from `k` up of `ux = x + 2^bits` is clear -/
theorem high_test (t : IntTy) {x P E : Int} (k : Nat) (hk : pow2 k = P) (_hE : 1 ≤ E) (hPE : P * E = t.half)
    (_x0 : -t.half ≤ x) (x1 : x < 0) :
    T2.andHigh (x + 2 * t.half) k ≠ 2 * t.half - P ↔ x < -P := by
  have hP : 1 ≤ P := hk ▸ pow2_pos k
  unfold T2.andHigh
  rw [hk]
  have hd := Int.mul_ediv_add_emod (x + 2 * t.half) P
  have hr0 := Int.emod_nonneg (x + 2 * t.half) (show P ≠ 0 by omega)
  have hr1 := Int.emod_lt_of_pos (x + 2 * t.half) (show 0 < P by omega)
  generalize (x + 2 * t.half) / P = q at hd
  generalize (x + 2 * t.half) % P = r at hd hr0 hr1
  have e2 : 2 * t.half - P = P * (2 * E - 1) := by rw [← hPE]; ring
  constructor
  · intro hne
    by_contra hge
    apply hne
    have h1 : P * (2 * E - 2) < P * q := by
      have : P * (2 * E - 2) = 2 * t.half - 2 * P := by rw [← hPE]; ring
      omega
    have h2 : P * q < P * (2 * E) := by
      have : P * (2 * E) = 2 * t.half := by rw [← hPE]; ring
      omega
    have q1 := Int.lt_of_mul_lt_mul_left h1 (by omega)
    have q2 := Int.lt_of_mul_lt_mul_left h2 (by omega)
    have : q = 2 * E - 1 := by omega
    rw [e2, ← this]; omega
  · intro hlt heq
    have h1 : P * q < P * (2 * E - 1) := by rw [← e2]; omega
    have q1 := Int.lt_of_mul_lt_mul_left h1 (by omega)
    have : P * q = P * (2 * E - 1) := by rw [← e2]; omega
    have := Int.eq_of_mul_eq_mul_left (show P ≠ 0 by omega) this
    omega

/-- `ux <<= exp; ~(Type(~ux))` for `ux = x + 2^bits`, `-2^k ≤ x < 0`, `k + exp = bits - 1`: the product `x * 2^exp` -/
theorem shl_trick (t : IntTy) {x P E : Int} (hE : 1 ≤ E) (hPE : P * E = t.half) (x0 : -P ≤ x) (x1 : x < 0) :
    T2.notS (T2.toS t (T2.notU t (T2.toU t ((x + 2 * t.half) * E)))) = x * E := by
  have hh := t.half_pos
  have b1 : -t.half ≤ x * E := by
    have := Int.mul_le_mul_of_nonneg_right x0 (show 0 ≤ E by omega)
    have e : -P * E = -t.half := by rw [← hPE]; ring
    omega
  have b2 : x * E ≤ -1 := by
    have := Int.mul_le_mul_of_nonneg_right (show x ≤ -1 by omega) (show 0 ≤ E by omega)
    omega
  unfold T2.notS T2.toS T2.notU T2.toU T2.umax T2.ubound
  have key : (x + 2 * t.half) * E + (-(E - 1)) * (2 * t.half) = x * E + 2 * t.half := by ring
  have e1 : (x + 2 * t.half) * E % (2 * t.half) = x * E + 2 * t.half := by
    rw [emod_shift (a := (x + 2 * t.half) * E) (B := 2 * t.half) (-(E - 1)) (by rw [key]; omega) (by rw [key]; omega), key]
  rw [e1]
  have := emod_shift (a := 2 * t.half - 1 - (x * E + 2 * t.half) + t.half) (B := 2 * t.half) 0 (by omega) (by omega)
  omega

theorem mul_2exp_signed_int_eq (t : IntTy) (π π' : Policy) (to0 x : Int) (e : Nat) (dir : Dir)
    (hs : t.signed = true) (hx : t.inRange x) :
    t2_mul_2exp_signed_int π π' t to0 x e dir = mul2expSigned t π to0 x e dir := by
  obtain ⟨x0, x1⟩ := signed_range hs hx
  have hh := t.half_pos
  simp only [t2_mul_2exp_signed_int, mul2expSigned, set_neg_overflow_int_eq, set_pos_overflow_int_eq, decide_eq_true_eq]
  by_cases hneg : x < 0
  · simp only [hneg, if_true]
    cases hco : π.checkOverflow
    · simp
    · simp only [Bool.not_true, Bool.false_eq_true, if_false]
      by_cases he : e ≥ t.bits
      · simp only [he, if_true]
      · simp only [he, if_false]
        have hk : t.bits - e - 1 + e = t.bits - 1 := by omega
        have hk' : t.bits - 1 - e = t.bits - e - 1 := by omega
        rw [hk']
        generalize hkk : t.bits - e - 1 = k at hk
        have hPE := half_split t hk
        have hP := pow2_pos k
        have hE := pow2_pos e
        have hPle : pow2 k ≤ t.half := by
          rw [← hPE]
          have := Int.mul_le_mul_of_nonneg_left hE (show 0 ≤ pow2 k by omega)
          omega
        rw [mask_val t hP hPle, toU_neg t x0 hneg]
        by_cases hlt : x < -pow2 k
        · have := (high_test t k rfl hE hPE x0 hneg).mpr hlt
          simp [hlt, this]
        · have := (high_test t k rfl hE hPE x0 hneg).not.mpr hlt
          simp only [ne_eq, Decidable.not_not] at this
          simp only [hlt, if_false, this, bne_self_eq_false, Bool.false_eq_true]
          rw [shl_trick t hE hPE (by omega) hneg]
  · simp only [hneg, if_false]

theorem div_2exp_eq (t : IntTy) (π π' : Policy) (to0 x : Int) (e : Nat) (dir : Dir) (hx : t.inRange x) :
    t2_div_2exp π π' t to0 x e dir = div2exp t π to0 x e dir := by
  cases hs : t.signed
  · simp only [t2_div_2exp, div2exp, hs, div_2exp_unsigned_int_eq]; rfl
  · simp only [t2_div_2exp, div2exp, hs, if_true, div_2exp_signed_int_eq t π π' to0 x e dir hs hx]

theorem mul_2exp_eq (t : IntTy) (π π' : Policy) (to0 x : Int) (e : Nat) (dir : Dir) (hx : t.inRange x) :
    t2_mul_2exp π π' t to0 x e dir = mul2exp t π to0 x e dir := by
  cases hs : t.signed
  · simp only [t2_mul_2exp, mul2exp, hs, mul_2exp_unsigned_int_eq]; rfl
  · simp only [t2_mul_2exp, mul2exp, hs, if_true, mul_2exp_signed_int_eq t π π' to0 x e dir hs hx]

end PPLV.Checked.T2Agree
