import PPLV.Checked.Proofs4
import Mathlib.Tactic.Linarith
import Mathlib.Tactic.Push
import Mathlib.Tactic.Ring
import Mathlib.Tactic.FieldSimp
import Mathlib.Algebra.Order.Field.Basic
/-!
# C11 proofs, part 5: division (exact result a rational number)

`OKQ` is `OK` with the exact result in `Ext ℚ` (stored integers are cast).  `div_unsigned_int`
is correct.  `div_signed_int` decides the rounding fix-up by the sign of `x % y` alone, which is
the sign of the *dividend*; the direction of the truncation error is the sign of `x % y`
**times the sign of `y`**.  It is correct for `y > 0`, `y = -1` (delegated to negation), exact
quotients and undirected rounding — `divSigned_okq_partial` — and wrong for every inexact quotient
with a negative divisor under a directed rounding mode (`C11.div_holds_fails`).
-/
namespace PPLV.Checked
open Result

/-- the clauses of C11 for an outcome whose exact result is rational -/
structure OKQ (t : IntTy) (π : Policy) (dir : Dir) (out : Int × Result) (exact : Ext Rat) : Prop where
  holds : K4.holds out.2 ((t.denote π out.1).map (Int.cast : Int → Rat)) exact
  directed : K4.directed dir out.2 ((t.denote π out.1).map (Int.cast : Int → Rat)) exact
  overflow : K4.overflowHolds out.2 ((t.emin π : Int) : Rat) ((t.emax π : Int) : Rat) exact
  no_wrap : t.inRange out.1
  nan_stored : out.2.cls = .nan → π.hasNan = true → t.isNan π out.1 = true

theorem Ext.lt_map_cast {a b : Ext Int} :
    Ext.lt (a.map (Int.cast : Int → Rat)) (b.map (Int.cast : Int → Rat)) ↔ Ext.lt a b := by
  cases a <;> cases b <;> simp [Ext.map, Ext.lt]

theorem Ext.eqv_map_cast {a b : Ext Int} :
    Ext.eqv (a.map (Int.cast : Int → Rat)) (b.map (Int.cast : Int → Rat)) ↔ Ext.eqv a b := by
  cases a <;> cases b <;> simp [Ext.map, Ext.eqv]

theorem Ext.map_eq_nan {a : Ext Int} : a.map (Int.cast : Int → Rat) = Ext.nan ↔ a = Ext.nan := by
  cases a <;> simp [Ext.map]

theorem Ext.map_eq_minf {a : Ext Int} : a.map (Int.cast : Int → Rat) = Ext.minf ↔ a = Ext.minf := by
  cases a <;> simp [Ext.map]

theorem Ext.map_eq_pinf {a : Ext Int} : a.map (Int.cast : Int → Rat) = Ext.pinf ↔ a = Ext.pinf := by
  cases a <;> simp [Ext.map]

theorem relHolds_map_cast {rel : Rel} {a b : Ext Int} :
    K4.relHolds rel (a.map (Int.cast : Int → Rat)) (b.map (Int.cast : Int → Rat)) ↔ K4.relHolds rel a b := by
  unfold K4.relHolds
  rw [Ext.lt_map_cast, Ext.lt_map_cast, Ext.eqv_map_cast, Ext.map_eq_nan]

/-- an integer-valued outcome is an outcome over `ℚ` -/
theorem ok_toQ {t : IntTy} {π : Policy} {dir : Dir} {out : Int × Result} {e : Ext Int}
    (h : OK t π dir out e) : OKQ t π dir out (e.map Int.cast) := by
  obtain ⟨h1, h2, h3, h4, h5⟩ := h
  refine ⟨?_, ?_, ?_, h4, h5⟩
  · unfold K4.holds at *
    cases hc : out.2.cls <;> simp only [hc] at h1 ⊢
    · obtain ⟨a, ⟨s, hs⟩, c⟩ := h1
      exact ⟨a, ⟨s, by rw [hs]; rfl⟩, relHolds_map_cast.mpr c⟩
    · exact ⟨fun h => by rw [h1.1 h]; rfl, by
        have := h1.2; rw [← relHolds_map_cast] at this; exact this⟩
    · exact ⟨fun h => by rw [h1.1 h]; rfl, by
        have := h1.2; rw [← relHolds_map_cast] at this; exact this⟩
    · unfold K4.nanReasonHolds at *
      rcases h1 with h | h | h
      · exact Or.inl h
      · exact Or.inr (Or.inl h)
      · exact Or.inr (Or.inr (by rw [h]; rfl))
  · unfold K4.directed Ext.le at *
    intro a b
    obtain ⟨u, d⟩ := h2 a b
    exact ⟨fun h => by rw [Ext.lt_map_cast, Ext.eqv_map_cast]; exact u h,
           fun h => by rw [Ext.lt_map_cast, Ext.eqv_map_cast]; exact d h⟩
  · unfold K4.overflowHolds at *
    obtain ⟨a, b, c, d⟩ := h3
    have e1 : ∀ v : Int, (Ext.fin ((v : Int) : Rat)) = (Ext.fin v).map (Int.cast : Int → Rat) := fun _ => rfl
    refine ⟨fun x y z => ?_, fun x y z => ?_, fun x y => ?_, fun x y => ?_⟩
    · rw [e1, Ext.lt_map_cast]; exact a x y z
    · rw [e1, Ext.lt_map_cast]; exact b x y z
    · rw [e1, Ext.lt_map_cast]; exact c x y
    · rw [e1, Ext.lt_map_cast]; exact d x y

/-- a finite stored value with a normal-class code whose relation and direction claims are true -/
theorem okq_normal {t : IntTy} {π : Policy} (w : t.WF π) {dir : Dir} {s : Int} (hf : t.finite π s)
    {r : Result} (hc : r.cls = .normal) (hu : r.unrep = false) (ho : r.overflow = false) {q : Rat}
    (hrel : (r.rel.lt = true ∧ q < s) ∨ (r.rel.eq = true ∧ q = s) ∨ (r.rel.gt = true ∧ (s : Rat) < q))
    (hup : dir = Dir.up → q ≤ s) (hdn : dir = Dir.down → (s : Rat) ≤ q) :
    OKQ t π dir (s, r) (.fin q) := by
  have hd := IntTy.denote_finite w hf
  refine ⟨?_, ?_, ?_, IntTy.finite_inRange hf, ?_⟩
  · simp only [K4.holds, hc, hu, hd, Ext.map, true_and]
    refine ⟨⟨_, rfl⟩, ?_⟩
    unfold K4.relHolds
    rcases hrel with ⟨a, b⟩ | ⟨a, b⟩ | ⟨a, b⟩
    · exact Or.inl ⟨a, b⟩
    · exact Or.inr (Or.inl ⟨a, b⟩)
    · exact Or.inr (Or.inr (Or.inl ⟨a, b⟩))
  · simp only [K4.directed, hd, Ext.map, Ext.le, Ext.lt, Ext.eqv]
    intro _ _
    exact ⟨fun h => by have := hup h; rcases lt_or_eq_of_le this with h | h; exact Or.inl h; exact Or.inr h,
           fun h => by have := hdn h; rcases lt_or_eq_of_le this with h | h; exact Or.inl h; exact Or.inr h⟩
  · simp [K4.overflowHolds, hc, ho]
  · simp [hc]

/-! ### quotient against an integer, for a positive divisor -/

theorem div_lt_int {x y s : Int} (hy : 0 < y) : ((x : Rat) / y < s) ↔ x < s * y := by
  have hy' : (0 : Rat) < y := by exact_mod_cast hy
  rw [div_lt_iff₀ hy']
  exact_mod_cast Iff.rfl

theorem int_lt_div {x y s : Int} (hy : 0 < y) : ((s : Rat) < (x : Rat) / y) ↔ s * y < x := by
  have hy' : (0 : Rat) < y := by exact_mod_cast hy
  rw [lt_div_iff₀ hy']
  exact_mod_cast Iff.rfl

theorem div_eq_int {x y s : Int} (hy : 0 < y) : ((x : Rat) / y = s) ↔ x = s * y := by
  have hy' : (y : Rat) ≠ 0 := by exact_mod_cast (ne_of_gt hy)
  rw [div_eq_iff hy']
  exact_mod_cast Iff.rfl

/-- truncating division for a positive divisor: quotient and remainder facts for `omega` -/
theorem tdiv_tmod_pos (x : Int) {y : Int} (hy : 0 < y) :
    y * x.tdiv y + x.tmod y = x ∧ (0 ≤ x → 0 ≤ x.tmod y ∧ x.tmod y < y ∧ 0 ≤ x.tdiv y)
      ∧ (x < 0 → -y < x.tmod y ∧ x.tmod y ≤ 0 ∧ x.tdiv y ≤ 0) := by
  refine ⟨Int.mul_tdiv_add_tmod x y, fun hx => ⟨Int.tmod_nonneg y hx, Int.tmod_lt_of_pos x hy, ?_⟩, fun hx => ?_⟩
  · rw [Int.tdiv_eq_ediv_of_nonneg hx]; exact Int.ediv_nonneg hx (by omega)
  · have h1 : (-x).tmod y = -(x.tmod y) := Int.neg_tmod x y
    have h2 := Int.tmod_nonneg y (show 0 ≤ -x by omega)
    have h3 := Int.tmod_lt_of_pos (-x) hy
    have h4 : (-x).tdiv y = -(x.tdiv y) := Int.neg_tdiv x y
    have h5 : 0 ≤ (-x).tdiv y := by
      rw [Int.tdiv_eq_ediv_of_nonneg (by omega)]; exact Int.ediv_nonneg (by omega) (by omega)
    omega


/-- the truncated quotient of two finite values is finite, except `min / -1` -/
theorem tdiv_finite {t : IntTy} {π : Policy} (w : t.WF π) {x y : Int} (hx : t.finite π x) (hyf : t.finite π y)
    (hy0 : y ≠ 0) (hy1 : y ≠ -1) : t.finite π (x.tdiv y) ∧ (2 ≤ y ∨ y ≤ -2 →
      (0 ≤ x → -x ≤ 2 * x.tdiv y ∧ 2 * x.tdiv y ≤ x) ∧ (x < 0 → x ≤ 2 * x.tdiv y ∧ 2 * x.tdiv y ≤ -x)) := by
  obtain ⟨hmin, hmax⟩ := IntTy.emin_le_emax w
  obtain ⟨h1, h2⟩ := hx
  have hle : t.signed = true → -(t.emin π) ≤ t.emax π + 1 := by
    intro hsg
    obtain ⟨hp, hr⟩ := w.half_facts
    unfold IntTy.emin IntTy.emax IntTy.cmin IntTy.cmax b2i
    generalize t.half = H at *
    layout_cases t π
  have hun : t.signed = false → t.emin π = 0 := fun hs => by simp [IntTy.emin, IntTy.cmin, hs]
  have hge' : t.signed = true → t.emax π ≤ -(t.emin π) := IntTy.neg_emin_ge_emax w
  rcases (by omega : 0 < y ∨ y < -1) with hy | hy
  · obtain ⟨e, p, n⟩ := tdiv_tmod_pos x hy
    generalize x.tdiv y = q at *
    generalize x.tmod y = m at *
    rcases (by omega : 0 ≤ x ∨ x < 0) with hx0 | hx0
    · obtain ⟨m0, m1, q0⟩ := p hx0
      have : q ≤ y * q := by nlinarith
      refine ⟨⟨by omega, by omega⟩, fun h2 => ?_⟩
      have : 2 * q ≤ y * q := by rcases h2 with h | h; nlinarith; omega
      exact ⟨fun _ => by omega, fun _ => by omega⟩
    · obtain ⟨m0, m1, q0⟩ := n hx0
      have : y * q ≤ q := by nlinarith
      refine ⟨⟨by omega, by omega⟩, fun h2 => ?_⟩
      have : y * q ≤ 2 * q := by rcases h2 with h | h; nlinarith; omega
      exact ⟨fun _ => by omega, fun _ => by omega⟩
  · have hy' : 0 < -y := by omega
    obtain ⟨e, p, n⟩ := tdiv_tmod_pos x hy'
    have eq1 : x.tdiv (-y) = -(x.tdiv y) := Int.tdiv_neg x y
    have eq2 : x.tmod (-y) = x.tmod y := Int.tmod_neg x y
    rw [eq1, eq2] at e p n
    generalize x.tdiv y = q at *
    generalize x.tmod y = m at *
    have e' : y * q + m = x := by rw [← e]; ring
    have hsg : t.signed = true := by
      cases hs : t.signed
      · have := hun hs; have := hyf.1; omega
      · rfl
    have := hle hsg
    have hge := hge' hsg
    have := hyf.1
    rcases (by omega : 0 ≤ x ∨ x < 0) with hx0 | hx0
    · obtain ⟨m0, m1, q0⟩ := p hx0
      have : 2 * (-q) ≤ y * q := by nlinarith
      exact ⟨⟨by omega, by omega⟩, fun _ => ⟨fun _ => by omega, fun _ => by omega⟩⟩
    · obtain ⟨m0, m1, q0⟩ := n hx0
      have : y * q ≤ 2 * (-q) := by nlinarith
      exact ⟨⟨by omega, by omega⟩, fun _ => ⟨fun _ => by omega, fun _ => by omega⟩⟩

theorem okq_divZero {t : IntTy} {π : Policy} (w : t.WF π) (dir : Dir) {to0 : Int} (h0 : t.inRange to0) :
    OKQ t π dir (assignNan t π to0 V_DIV_ZERO) .nan :=
  ok_toQ (e := .nan) (ok_assignNan w dir h0 rfl (Or.inr (Or.inr rfl)))

/-- exact result of a division of finite values -/
def divExactQ (x y : Int) : Ext Rat := if y = 0 then .nan else .fin ((x : Rat) / (y : Rat))

theorem divUnsigned_okq {t : IntTy} {π : Policy} (w : t.WF π) (hs : t.signed = false)
    (dir : Dir) {to0 x y : Int} (h0 : t.inRange to0) (hx : t.finite π x) (hy : t.finite π y)
    (hdz : π.checkDivZero = true ∨ y ≠ 0) :
    OKQ t π dir (divUnsigned t π to0 x y dir) (divExactQ x y) := by
  have e0 : t.emin π = 0 := by simp [IntTy.emin, IntTy.cmin, hs]
  have hx0 : 0 ≤ x := by have := hx.1; omega
  have hy0 : 0 ≤ y := by have := hy.1; omega
  unfold divUnsigned divExactQ
  by_cases hz : y = 0
  · have hc : π.checkDivZero = true := by rcases hdz with h | h; exact h; exact absurd hz h
    simp only [hz, hc, beq_self_eq_true, Bool.and_self, if_true]
    exact okq_divZero w dir h0
  · have hyp : 0 < y := by omega
    have hb : (y == 0) = false := by simpa using hz
    simp only [hb, Bool.and_false, Bool.false_eq_true, if_false, hz]
    obtain ⟨e, p, _⟩ := tdiv_tmod_pos x hyp
    obtain ⟨m0, m1, q0⟩ := p hx0
    obtain ⟨hfq, hb2⟩ := tdiv_finite w hx hy (by omega) (by omega)
    generalize x.tdiv y = q at *
    generalize x.tmod y = m at *
    have mulq : q * y = y * q := Int.mul_comm _ _
    split
    · rename_i hnr
      refine okq_normal w hfq rfl rfl rfl ?_ ?_ ?_
      · by_cases hm : m = 0
        · exact Or.inr (Or.inl ⟨rfl, (div_eq_int hyp).mpr (by omega)⟩)
        · exact Or.inr (Or.inr ⟨rfl, (int_lt_div hyp).mpr (by omega)⟩)
      · intro h; simp [Dir.notRequested, h] at hnr
      · intro h; simp [Dir.notRequested, h] at hnr
    · split
      · rename_i hm
        have hm : m = 0 := by simpa using hm
        exact okq_normal w hfq rfl rfl rfl (Or.inr (Or.inl ⟨rfl, (div_eq_int hyp).mpr (by omega)⟩))
          (fun _ => le_of_eq ((div_eq_int hyp).mpr (by omega)))
          (fun _ => le_of_eq ((div_eq_int hyp).mpr (by omega)).symm)
      · rename_i hm
        have hm : m ≠ 0 := by simpa using hm
        have hy2 : 2 ≤ y := by omega
        have hb3 := (hb2 (Or.inl hy2)).1 hx0
        have hqx : 2 * q ≤ x := hb3.2
        have hxm := hx.2
        unfold roundGt
        split
        · rename_i hup
          have hup' : dir = Dir.up := by simpa [Dir.roundUp] using hup
          have hq2 : 2 * q ≤ y * q := by nlinarith
          have hne' : q ≠ t.emax π := by intro h; omega
          have hne : (q == t.emax π) = false := by simpa using hne'
          simp only [hne, Bool.false_eq_true, if_false]
          have e2 : (q + 1) * y = y * q + y := by ring
          refine okq_normal w ⟨by omega, by omega⟩ rfl rfl rfl
            (Or.inl ⟨rfl, by push_cast; exact_mod_cast (div_lt_int (s := q + 1) hyp).mpr (by omega)⟩) ?_ ?_
          · intro _; exact le_of_lt (by exact_mod_cast (div_lt_int (s := q + 1) hyp).mpr (by omega))
          · intro h; rw [hup'] at h; cases h
        · rename_i hup
          refine okq_normal w hfq rfl rfl rfl (Or.inr (Or.inr ⟨rfl, (int_lt_div hyp).mpr (by omega)⟩)) ?_ ?_
          · intro h; simp [Dir.roundUp, h] at hup
          · intro _; exact le_of_lt ((int_lt_div hyp).mpr (by omega))

theorem div_lt_int_neg {x y s : Int} (hy : y < 0) : ((x : Rat) / y < s) ↔ s * y < x := by
  have hy' : (y : Rat) < 0 := by exact_mod_cast hy
  rw [div_lt_iff_of_neg hy']
  exact_mod_cast Iff.rfl

theorem int_lt_div_neg {x y s : Int} (hy : y < 0) : ((s : Rat) < (x : Rat) / y) ↔ x < s * y := by
  have hy' : (y : Rat) < 0 := by exact_mod_cast hy
  rw [lt_div_iff_of_neg hy']
  exact_mod_cast Iff.rfl

theorem div_eq_int' {x y s : Int} (hy : y ≠ 0) : ((x : Rat) / y = s) ↔ x = s * y := by
  have hy' : (y : Rat) ≠ 0 := by exact_mod_cast hy
  rw [div_eq_iff hy']
  exact_mod_cast Iff.rfl

/-- truncating division, any non-zero divisor: the remainder has the sign of the dividend and is
smaller than the divisor in absolute value -/
theorem tdiv_tmod_any (x : Int) {y : Int} (hy : y ≠ 0) :
    y * x.tdiv y + x.tmod y = x ∧
    (0 ≤ x → 0 ≤ x.tmod y ∧ x.tmod y < y.natAbs) ∧ (x < 0 → -(y.natAbs : Int) < x.tmod y ∧ x.tmod y ≤ 0) ∧
    (0 < y → (0 ≤ x → 0 ≤ x.tdiv y) ∧ (x < 0 → x.tdiv y ≤ 0)) ∧
    (y < 0 → (0 ≤ x → x.tdiv y ≤ 0) ∧ (x < 0 → 0 ≤ x.tdiv y)) := by
  refine ⟨Int.mul_tdiv_add_tmod x y, ?_, ?_, ?_, ?_⟩
  · intro hx
    rcases (by omega : 0 < y ∨ y < 0) with h | h
    · have := (tdiv_tmod_pos x h).2.1 hx; omega
    · have := (tdiv_tmod_pos x (show 0 < -y by omega)).2.1 hx
      rw [Int.tmod_neg] at this; omega
  · intro hx
    rcases (by omega : 0 < y ∨ y < 0) with h | h
    · have := (tdiv_tmod_pos x h).2.2 hx; omega
    · have := (tdiv_tmod_pos x (show 0 < -y by omega)).2.2 hx
      rw [Int.tmod_neg] at this; omega
  · intro h
    exact ⟨fun hx => ((tdiv_tmod_pos x h).2.1 hx).2.2, fun hx => ((tdiv_tmod_pos x h).2.2 hx).2.2⟩
  · intro h
    have a := tdiv_tmod_pos x (show 0 < -y by omega)
    rw [Int.tdiv_neg] at a
    exact ⟨fun hx => by have := (a.2.1 hx).2.2; omega, fun hx => by have := (a.2.2 hx).2.2; omega⟩

/-- **`div_signed_int`** (as repaired by /repo 5157d9d): every divisor, every direction -/
theorem divSigned_okq {t : IntTy} {π : Policy} (w : t.WF π) (hs : t.signed = true) (hl : t.LargerOK)
    (hco : π.checkOverflow = true)
    (dir : Dir) {to0 x y : Int} (h0 : t.inRange to0) (hx : t.finite π x) (hy : t.finite π y)
    (hdz : π.checkDivZero = true ∨ y ≠ 0) :
    OKQ t π dir (divSigned t π to0 x y dir) (divExactQ x y) := by
  unfold divSigned divExactQ
  by_cases hz : y = 0
  · have hc : π.checkDivZero = true := by rcases hdz with h | h; exact h; exact absurd hz h
    simp only [hz, hc, beq_self_eq_true, Bool.and_self, if_true]
    exact okq_divZero w dir h0
  · have hb : (y == 0) = false := by simpa using hz
    simp only [hb, Bool.and_false, Bool.false_eq_true, if_false, hz, hco, Bool.true_and]
    by_cases hm1 : y = -1
    · subst hm1
      simp only [beq_self_eq_true, if_true]
      have := ok_toQ (tri_ok w h0 (negSigned_tri w hs hl hco dir h0 hx))
      have e : (Ext.fin (-x)).map (Int.cast : Int → Rat) = Ext.fin ((x : Rat) / ((-1 : Int) : Rat)) := by
        simp only [Ext.map]; congr 1; push_cast; rw [div_neg, div_one]
      rw [e] at this
      exact this
    · have hb1 : (y == -1) = false := by simpa using hm1
      simp only [hb1, Bool.false_eq_true, if_false]
      obtain ⟨hfq, hb2⟩ := tdiv_finite w hx hy hz hm1
      obtain ⟨e, p, n, sp, sn⟩ := tdiv_tmod_any x hz
      split
      · rename_i hnr
        refine okq_normal w hfq rfl rfl rfl ?_ ?_ ?_
        · rcases lt_trichotomy ((x : Rat) / (y : Rat)) ((x.tdiv y : Int) : Rat) with h | h | h
          · exact Or.inl ⟨rfl, h⟩
          · exact Or.inr (Or.inl ⟨rfl, h⟩)
          · exact Or.inr (Or.inr ⟨rfl, h⟩)
        · intro h; simp [Dir.notRequested, h] at hnr
        · intro h; simp [Dir.notRequested, h] at hnr
      · by_cases hm : x.tmod y = 0
        · have hxe : x = x.tdiv y * y := by rw [hm] at e; rw [Int.mul_comm]; omega
          have hq : (x : Rat) / (y : Rat) = ((x.tdiv y : Int) : Rat) := (div_eq_int' hz).mpr hxe
          simp only [hm, beq_self_eq_true, if_true]
          exact okq_normal w hfq rfl rfl rfl (Or.inr (Or.inl ⟨rfl, hq⟩)) (fun _ => le_of_eq hq) (fun _ => le_of_eq hq.symm)
        · have hmb : (x.tmod y == 0) = false := by simpa using hm
          simp only [hmb, Bool.false_eq_true, if_false]
          obtain ⟨hmin, hmax⟩ := IntTy.emin_le_emax w
          have hge := IntTy.neg_emin_ge_emax w hs
          obtain ⟨hx1, hx2⟩ := hx
          obtain ⟨hy1, hy2'⟩ := hy
          have hy2 : 2 ≤ y ∨ y ≤ -2 := by omega
          have hb3 := hb2 hy2
          generalize x.tdiv y = q at *
          generalize x.tmod y = m at *
          have mulq : q * y = y * q := Int.mul_comm _ _
          have e1 : (q - 1) * y = y * q - y := by ring
          have e2 : (q + 1) * y = y * q + y := by ring
          rcases (by omega : 0 < y ∨ y < 0) with hyp | hyn
          · -- positive divisor
            have hyabs : (y.natAbs : Int) = y := by omega
            rcases (by omega : 0 ≤ x ∨ x < 0) with hx0 | hx0
            · have ⟨m0, m1⟩ := p hx0
              have ⟨q1, q2⟩ := hb3.1 hx0
              have hq0 := (sp hyp).1 hx0
              have hne : (decide (m < 0) != decide (y < 0)) = false := by
                have a : ¬ m < 0 := by omega
                have b : ¬ y < 0 := by omega
                simp [a, b]
              simp only [hne, Bool.false_eq_true, if_false]
              unfold roundGtNoOverflow
              split
              · rename_i hup
                have hup' : dir = Dir.up := by simpa [Dir.roundUp] using hup
                refine okq_normal w (s := q + 1) ⟨by omega, by omega⟩ rfl rfl rfl
                  (Or.inl ⟨rfl, (div_lt_int (s := q + 1) hyp).mpr (by omega)⟩) ?_ ?_
                · intro _; exact le_of_lt ((div_lt_int (s := q + 1) hyp).mpr (by omega))
                · intro h; rw [hup'] at h; cases h
              · rename_i hup
                refine okq_normal w hfq rfl rfl rfl (Or.inr (Or.inr ⟨rfl, (int_lt_div hyp).mpr (by omega)⟩)) ?_ ?_
                · intro h; simp [Dir.roundUp, h] at hup
                · intro _; exact le_of_lt ((int_lt_div hyp).mpr (by omega))
            · have ⟨m0, m1⟩ := n hx0
              have ⟨q1, q2⟩ := hb3.2 hx0
              have hq0 := (sp hyp).2 hx0
              have hne : (decide (m < 0) != decide (y < 0)) = true := by
                have a : m < 0 := by omega
                have b : ¬ y < 0 := by omega
                simp [a, b]
              simp only [hne, if_true]
              unfold roundLtNoOverflow
              split
              · rename_i hdn
                have hdn' : dir = Dir.down := by simpa [Dir.roundDown] using hdn
                refine okq_normal w (s := q - 1) ⟨by omega, by omega⟩ rfl rfl rfl
                  (Or.inr (Or.inr ⟨rfl, (int_lt_div (s := q - 1) hyp).mpr (by omega)⟩)) ?_ ?_
                · intro h; rw [hdn'] at h; cases h
                · intro _; exact le_of_lt ((int_lt_div (s := q - 1) hyp).mpr (by omega))
              · rename_i hdn
                refine okq_normal w hfq rfl rfl rfl (Or.inl ⟨rfl, (div_lt_int hyp).mpr (by omega)⟩) ?_ ?_
                · intro _; exact le_of_lt ((div_lt_int hyp).mpr (by omega))
                · intro h; simp [Dir.roundDown, h] at hdn
          · -- negative divisor (below -1)
            have hyabs : (y.natAbs : Int) = -y := by omega
            rcases (by omega : 0 ≤ x ∨ x < 0) with hx0 | hx0
            · -- x > 0, y < 0: the quotient is negative, truncation went up
              have ⟨m0, m1⟩ := p hx0
              have ⟨q1, q2⟩ := hb3.1 hx0
              have hne : (decide (m < 0) != decide (y < 0)) = true := by
                have a : ¬ m < 0 := by omega
                have b : y < 0 := by omega
                simp [a, b]
              simp only [hne, if_true]
              have hq0 : q ≤ 0 := (sn hyn).1 hx0
              have hstrict : -x + 1 ≤ 2 * q := by
                have h1 : 0 ≤ (-(y + 2)) * (-q) := Int.mul_nonneg (by omega) (by omega)
                have h2 : (-(y + 2)) * (-q) = y * q + 2 * q := by ring
                omega
              unfold roundLtNoOverflow
              split
              · rename_i hdn
                have hdn' : dir = Dir.down := by simpa [Dir.roundDown] using hdn
                refine okq_normal w (s := q - 1) ⟨by omega, by omega⟩ rfl rfl rfl
                  (Or.inr (Or.inr ⟨rfl, (int_lt_div_neg (s := q - 1) hyn).mpr (by omega)⟩)) ?_ ?_
                · intro h; rw [hdn'] at h; cases h
                · intro _; exact le_of_lt ((int_lt_div_neg (s := q - 1) hyn).mpr (by omega))
              · rename_i hdn
                refine okq_normal w hfq rfl rfl rfl (Or.inl ⟨rfl, (div_lt_int_neg hyn).mpr (by omega)⟩) ?_ ?_
                · intro _; exact le_of_lt ((div_lt_int_neg hyn).mpr (by omega))
                · intro h; simp [Dir.roundDown, h] at hdn
            · -- x < 0, y < 0: the quotient is positive, truncation went down
              have ⟨m0, m1⟩ := n hx0
              have ⟨q1, q2⟩ := hb3.2 hx0
              have hne : (decide (m < 0) != decide (y < 0)) = false := by
                have a : m < 0 := by omega
                have b : y < 0 := by omega
                simp [a, b]
              simp only [hne, Bool.false_eq_true, if_false]
              have hq0 : 0 ≤ q := (sn hyn).2 hx0
              have hstrict : 2 * q + 1 ≤ -x := by
                have h1 : 0 ≤ (-(y + 2)) * q := Int.mul_nonneg (by omega) (by omega)
                have h2 : (-(y + 2)) * q = -(y * q) - 2 * q := by ring
                omega
              have hle : -(t.emin π) ≤ t.emax π + 1 := by
                obtain ⟨hp, hr⟩ := w.half_facts
                unfold IntTy.emin IntTy.emax IntTy.cmin IntTy.cmax b2i
                generalize t.half = H at *
                layout_cases t π
              unfold roundGtNoOverflow
              split
              · rename_i hup
                have hup' : dir = Dir.up := by simpa [Dir.roundUp] using hup
                refine okq_normal w (s := q + 1) ⟨by omega, by omega⟩ rfl rfl rfl
                  (Or.inl ⟨rfl, (div_lt_int_neg (s := q + 1) hyn).mpr (by omega)⟩) ?_ ?_
                · intro _; exact le_of_lt ((div_lt_int_neg (s := q + 1) hyn).mpr (by omega))
                · intro h; rw [hup'] at h; cases h
              · rename_i hup
                refine okq_normal w hfq rfl rfl rfl (Or.inr (Or.inr ⟨rfl, (int_lt_div_neg hyn).mpr (by omega)⟩)) ?_ ?_
                · intro h; simp [Dir.roundUp, h] at hup
                · intro _; exact le_of_lt ((int_lt_div_neg hyn).mpr (by omega))

end PPLV.Checked
