import PPLV.Checked.Proofs4
import Mathlib.Tactic.Linarith
import Mathlib.Tactic.Push
import Mathlib.Tactic.FieldSimp
import Mathlib.Algebra.Order.Field.Basic
/-!
# C11 proofs, part 5: division (exact result a rational number)

`OKQ` is `OK` with the exact result in `Ext ℚ` (stored integers are cast).  `div_unsigned_int`
is correct.  `div_signed_int` decides the rounding fix-up by the sign of `x % y` alone, which is
the sign of the *dividend*; the direction of the truncation error is the sign of `x % y`
**times the sign of `y`**.  It is correct for `y > 0`, `y = -1` (delegated to negation), exact
quotients and undirected rounding — `divSigned_okq_partial` — and wrong for every inexact quotient
with a negative divisor under a directed rounding mode (`C11.div_holds_fails`).
-/
namespace PPLV.Checked
open Result

/-- the clauses of C11 for an outcome whose exact result is rational -/
structure OKQ (t : IntTy) (π : Policy) (dir : Dir) (out : Int × Result) (exact : Ext Rat) : Prop where
  holds : K4.holds out.2 ((t.denote π out.1).map (Int.cast : Int → Rat)) exact
  directed : K4.directed dir out.2 ((t.denote π out.1).map (Int.cast : Int → Rat)) exact
  overflow : K4.overflowHolds out.2 ((t.emin π : Int) : Rat) ((t.emax π : Int) : Rat) exact
  no_wrap : t.inRange out.1
  nan_stored : out.2.cls = .nan → π.hasNan = true → t.isNan π out.1 = true

theorem Ext.lt_map_cast {a b : Ext Int} :
    Ext.lt (a.map (Int.cast : Int → Rat)) (b.map (Int.cast : Int → Rat)) ↔ Ext.lt a b := by
  cases a <;> cases b <;> simp [Ext.map, Ext.lt]

theorem Ext.eqv_map_cast {a b : Ext Int} :
    Ext.eqv (a.map (Int.cast : Int → Rat)) (b.map (Int.cast : Int → Rat)) ↔ Ext.eqv a b := by
  cases a <;> cases b <;> simp [Ext.map, Ext.eqv]

theorem Ext.map_eq_nan {a : Ext Int} : a.map (Int.cast : Int → Rat) = Ext.nan ↔ a = Ext.nan := by
  cases a <;> simp [Ext.map]

theorem Ext.map_eq_minf {a : Ext Int} : a.map (Int.cast : Int → Rat) = Ext.minf ↔ a = Ext.minf := by
  cases a <;> simp [Ext.map]

theorem Ext.map_eq_pinf {a : Ext Int} : a.map (Int.cast : Int → Rat) = Ext.pinf ↔ a = Ext.pinf := by
  cases a <;> simp [Ext.map]

theorem relHolds_map_cast {rel : Rel} {a b : Ext Int} :
    K4.relHolds rel (a.map (Int.cast : Int → Rat)) (b.map (Int.cast : Int → Rat)) ↔ K4.relHolds rel a b := by
  unfold K4.relHolds
  rw [Ext.lt_map_cast, Ext.lt_map_cast, Ext.eqv_map_cast, Ext.map_eq_nan]

/-- an integer-valued outcome is an outcome over `ℚ` -/
theorem ok_toQ {t : IntTy} {π : Policy} {dir : Dir} {out : Int × Result} {e : Ext Int}
    (h : OK t π dir out e) : OKQ t π dir out (e.map Int.cast) := by
  obtain ⟨h1, h2, h3, h4, h5⟩ := h
  refine ⟨?_, ?_, ?_, h4, h5⟩
  · unfold K4.holds at *
    cases hc : out.2.cls <;> simp only [hc] at h1 ⊢
    · obtain ⟨a, ⟨s, hs⟩, c⟩ := h1
      exact ⟨a, ⟨s, by rw [hs]; rfl⟩, relHolds_map_cast.mpr c⟩
    · exact ⟨fun h => by rw [h1.1 h]; rfl, by
        have := h1.2; rw [← relHolds_map_cast] at this; exact this⟩
    · exact ⟨fun h => by rw [h1.1 h]; rfl, by
        have := h1.2; rw [← relHolds_map_cast] at this; exact this⟩
    · unfold K4.nanReasonHolds at *
      rcases h1 with h | h | h
      · exact Or.inl h
      · exact Or.inr (Or.inl h)
      · exact Or.inr (Or.inr (by rw [h]; rfl))
  · unfold K4.directed Ext.le at *
    intro a b
    obtain ⟨u, d⟩ := h2 a b
    exact ⟨fun h => by rw [Ext.lt_map_cast, Ext.eqv_map_cast]; exact u h,
           fun h => by rw [Ext.lt_map_cast, Ext.eqv_map_cast]; exact d h⟩
  · unfold K4.overflowHolds at *
    obtain ⟨a, b, c, d⟩ := h3
    have e1 : ∀ v : Int, (Ext.fin ((v : Int) : Rat)) = (Ext.fin v).map (Int.cast : Int → Rat) := fun _ => rfl
    refine ⟨fun x y z => ?_, fun x y z => ?_, fun x y => ?_, fun x y => ?_⟩
    · rw [e1, Ext.lt_map_cast]; exact a x y z
    · rw [e1, Ext.lt_map_cast]; exact b x y z
    · rw [e1, Ext.lt_map_cast]; exact c x y
    · rw [e1, Ext.lt_map_cast]; exact d x y

/-- a finite stored value with a normal-class code whose relation and direction claims are true -/
theorem okq_normal {t : IntTy} {π : Policy} (w : t.WF π) {dir : Dir} {s : Int} (hf : t.finite π s)
    {r : Result} (hc : r.cls = .normal) (hu : r.unrep = false) (ho : r.overflow = false) {q : Rat}
    (hrel : (r.rel.lt = true ∧ q < s) ∨ (r.rel.eq = true ∧ q = s) ∨ (r.rel.gt = true ∧ (s : Rat) < q))
    (hup : dir = Dir.up → q ≤ s) (hdn : dir = Dir.down → (s : Rat) ≤ q) :
    OKQ t π dir (s, r) (.fin q) := by
  have hd := IntTy.denote_finite w hf
  refine ⟨?_, ?_, ?_, IntTy.finite_inRange hf, ?_⟩
  · simp only [K4.holds, hc, hu, hd, Ext.map, true_and]
    refine ⟨⟨_, rfl⟩, ?_⟩
    unfold K4.relHolds
    rcases hrel with ⟨a, b⟩ | ⟨a, b⟩ | ⟨a, b⟩
    · exact Or.inl ⟨a, b⟩
    · exact Or.inr (Or.inl ⟨a, b⟩)
    · exact Or.inr (Or.inr (Or.inl ⟨a, b⟩))
  · simp only [K4.directed, hd, Ext.map, Ext.le, Ext.lt, Ext.eqv]
    intro _ _
    exact ⟨fun h => by have := hup h; rcases lt_or_eq_of_le this with h | h; exact Or.inl h; exact Or.inr h,
           fun h => by have := hdn h; rcases lt_or_eq_of_le this with h | h; exact Or.inl h; exact Or.inr h⟩
  · simp [K4.overflowHolds, hc, ho]
  · simp [hc]

/-! ### quotient against an integer, for a positive divisor -/

theorem div_lt_int {x y s : Int} (hy : 0 < y) : ((x : Rat) / y < s) ↔ x < s * y := by
  have hy' : (0 : Rat) < y := by exact_mod_cast hy
  rw [div_lt_iff₀ hy']
  exact_mod_cast Iff.rfl

theorem int_lt_div {x y s : Int} (hy : 0 < y) : ((s : Rat) < (x : Rat) / y) ↔ s * y < x := by
  have hy' : (0 : Rat) < y := by exact_mod_cast hy
  rw [lt_div_iff₀ hy']
  exact_mod_cast Iff.rfl

theorem div_eq_int {x y s : Int} (hy : 0 < y) : ((x : Rat) / y = s) ↔ x = s * y := by
  have hy' : (y : Rat) ≠ 0 := by exact_mod_cast (ne_of_gt hy)
  rw [div_eq_iff hy']
  exact_mod_cast Iff.rfl

/-- truncating division for a positive divisor: quotient and remainder facts for `omega` -/
theorem tdiv_tmod_pos (x : Int) {y : Int} (hy : 0 < y) :
    y * x.tdiv y + x.tmod y = x ∧ (0 ≤ x → 0 ≤ x.tmod y ∧ x.tmod y < y ∧ 0 ≤ x.tdiv y)
      ∧ (x < 0 → -y < x.tmod y ∧ x.tmod y ≤ 0 ∧ x.tdiv y ≤ 0) := by
  refine ⟨Int.mul_tdiv_add_tmod x y, fun hx => ⟨Int.tmod_nonneg y hx, Int.tmod_lt_of_pos x hy, ?_⟩, fun hx => ?_⟩
  · rw [Int.tdiv_eq_ediv_of_nonneg hx]; exact Int.ediv_nonneg hx (by omega)
  · have h1 : (-x).tmod y = -(x.tmod y) := Int.neg_tmod x y
    have h2 := Int.tmod_nonneg y (show 0 ≤ -x by omega)
    have h3 := Int.tmod_lt_of_pos (-x) hy
    have h4 : (-x).tdiv y = -(x.tdiv y) := Int.neg_tdiv x y
    have h5 : 0 ≤ (-x).tdiv y := by
      rw [Int.tdiv_eq_ediv_of_nonneg (by omega)]; exact Int.ediv_nonneg (by omega) (by omega)
    omega

end PPLV.Checked
