import PPLV.Checked.Proofs0
import Mathlib.Tactic.Linarith
/-!
# C11 proofs, part 1: conversions, negation, addition, subtraction (all widths, both paths)

Every theorem has the shape `OK t π dir (op …) (exact result)`.  Hypotheses: `t.WF π`,
`π.checkOverflow = true` (every policy the library instantiates; without it `CHECK_P` makes
representability of the result a precondition of the call), operands in range of the type, and —
for the `Larger<T>` paths — `t.LargerOK` (the `int_fast` type is at least twice as wide).
-/
namespace PPLV.Checked
open Result

/-- relation between the widths of a conversion: same width, narrower, or at least two bits wider
(true of every pair of C integer types; a destination exactly one bit wider than an unsigned source
could receive the source's maximum on top of a reserved bit pattern). -/
def IntTy.GapOK (t f : IntTy) : Prop := t.bits ≤ f.bits ∨ f.bits + 2 ≤ t.bits

theorem half_gap {t f : IntTy} (hf : 1 ≤ f.bits) (h : f.bits + 2 ≤ t.bits) : 4 * f.half ≤ t.half := by
  unfold IntTy.half
  obtain ⟨k, hk⟩ : ∃ k, t.bits - 1 = (f.bits - 1) + 2 + k := ⟨t.bits - f.bits - 2, by omega⟩
  rw [hk, pow2_add, pow2_add]
  have h1 := pow2_pos (f.bits - 1)
  have h2 := pow2_pos k
  have h3 : pow2 2 = 4 := rfl
  rw [h3]
  nlinarith

theorem half_eq_of_bits {t f : IntTy} (h : t.bits = f.bits) : t.half = f.half := by
  unfold IntTy.half; rw [h]

theorem half_le_of_bits {t f : IntTy} (h : f.bits ≤ t.bits) : f.half ≤ t.half := by
  unfold IntTy.half; exact pow2_le_pow2 (by omega)

/-- unfold the layout of two types at once -/
macro "layout2" : tactic => `(tactic|
  (unfold IntTy.finite IntTy.inRange IntTy.emin IntTy.emax IntTy.cmin IntTy.cmax b2i at *))

theorem assignInt_tri {t f : IntTy} {πt πf : Policy} (wt : t.WF πt) (wf : f.WF πf)
    (hco : πt.checkOverflow = true) (hg : t.GapOK f) (dir : Dir) {to0 frm : Int}
    (h0 : t.inRange to0) (hfrm : f.finite πf frm) :
    Tri t πt dir to0 (assignInt t πt f πf to0 frm dir) frm := by
  obtain ⟨hpt, hrt⟩ := wt.half_facts
  obtain ⟨hpf, hrf⟩ := wf.half_facts
  have fin_ok : t.finite πt frm → Tri t πt dir to0 (frm, V_EQ) frm := fun h => tri_eq h
  -- the width facts, as linear facts about the two `half`s
  have hw : (t.bits = f.bits → t.half = f.half) ∧ (f.bits + 2 ≤ t.bits → 4 * f.half ≤ t.half)
      ∧ (f.bits ≤ t.bits → f.half ≤ t.half) :=
    ⟨half_eq_of_bits, half_gap wf.bits_pos, half_le_of_bits⟩
  obtain ⟨hw1, hw2, hw3⟩ := hw
  unfold IntTy.GapOK at hg
  unfold assignInt
  cases hst : t.signed <;> cases hsf : f.signed <;> simp only []
  · -- unsigned <- unsigned
    unfold assignUnsignedUnsigned
    simp only [hco, Bool.true_and, decide_eq_true_eq]
    split
    · split
      · exact tri_pos (by omega)
      · apply fin_ok
        rename_i h1 h2
        have := hfrm.1
        layout2
        simp [hst, hsf] at *
        omega
    · apply fin_ok
      rename_i h1
      have e1 := hfrm.1; have e2 := hfrm.2
      rcases Nat.lt_trichotomy t.bits f.bits with hb | hb | hb
      · exact absurd (Or.inl hb) h1
      · have := hw1 hb
        have h1' : ¬ (t.emax πt < f.emax πf) := fun h => h1 (Or.inr ⟨hb, h⟩)
        layout2
        simp [hst, hsf] at *
        omega
      · have := hw2 (by omega)
        layout2
        generalize t.half = Ht at *
        generalize f.half = Hf at *
        simp [hst, hsf] at *
        cases hn : πt.hasNan <;> cases hi : πt.hasInfinity <;> cases hn' : πf.hasNan <;> cases hi' : πf.hasInfinity <;> simp [hn, hi, hn', hi'] at * <;> omega
  · -- unsigned <- signed
    unfold assignUnsignedSigned
    simp only [hco, Bool.true_and, decide_eq_true_eq]
    split
    · apply tri_neg
      rename_i h1
      layout2; simp [hst] at *; omega
    · split
      · split
        · exact tri_pos (by omega)
        · apply fin_ok
          rename_i h1 h2 h3
          layout2; simp [hst] at *; omega
      · apply fin_ok
        rename_i h1 h2
        have e2 := hfrm.2
        have := hw3 (by omega)
        layout2
        generalize t.half = Ht at *
        generalize f.half = Hf at *
        simp [hst, hsf] at *
        cases hn : πt.hasNan <;> cases hi : πt.hasInfinity <;> cases hi' : πf.hasInfinity <;> simp [hn, hi, hi'] at * <;> omega
  · -- signed <- unsigned
    unfold assignSignedUnsigned
    simp only [hco, Bool.true_and, decide_eq_true_eq]
    have e1 := hfrm.1; have e2 := hfrm.2
    split
    · split
      · exact tri_pos (by omega)
      · apply fin_ok
        layout2
        generalize t.half = Ht at *
        generalize f.half = Hf at *
        simp [hst, hsf] at *
        cases hn : πt.hasNan <;> cases hi : πt.hasInfinity <;> simp [hn, hi] at * <;> omega
    · apply fin_ok
      rename_i h1
      have := hw2 (by omega)
      layout2
      generalize t.half = Ht at *
      generalize f.half = Hf at *
      simp [hst, hsf] at *
      cases hn : πt.hasNan <;> cases hi : πt.hasInfinity <;> cases hn' : πf.hasNan <;> cases hi' : πf.hasInfinity <;> simp [hn, hi, hn', hi'] at * <;> omega
  · -- signed <- signed
    unfold assignSignedSigned
    simp only [hco, Bool.true_and, decide_eq_true_eq]
    split
    · split
      · exact tri_neg (by assumption)
      · split
        · exact tri_pos (by omega)
        · apply fin_ok
          constructor <;> omega
    · apply fin_ok
      rename_i h1
      have e1 := hfrm.1; have e2 := hfrm.2
      rcases Nat.lt_trichotomy t.bits f.bits with hb | hb | hb
      · exact absurd (Or.inl hb) h1
      · have h1' : ¬ (t.emin πt > f.emin πf ∨ t.emax πt < f.emax πf) := fun h => h1 (Or.inr ⟨hb, h⟩)
        constructor <;> omega
      · have := hw2 (by omega)
        layout2
        generalize t.half = Ht at *
        generalize f.half = Hf at *
        simp [hst, hsf] at *
        cases hn : πt.hasNan <;> cases hi : πt.hasInfinity <;> cases hn' : πf.hasNan <;> cases hi' : πf.hasInfinity <;> simp [hn, hi, hn', hi'] at * <;> omega

end PPLV.Checked
