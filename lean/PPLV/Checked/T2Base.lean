import PPLV.Checked.Model
/-!
# C11 / T2 — the fixed vocabulary of the generated model (no Mathlib)

`gen/c11_t2.py` translates the C++ of `src/checked_int_inlines.hh` into `PPLV/Gen/CheckedT2.lean`.
Everything the generated text mentions beyond `PPLV/Checked/Model.lean` (`Policy`, `IntTy`, `pow2`,
`Result`, `Dir`) is defined here: the operations on the unsigned type of the same width
(`UType = C_Integer<T>::other_type`) and the three mask forms of `&`.

Values of `UType` are kept reduced modulo `2^bits`.  The identities used for `&` are those of two's
complement: for a mask `2^k - 1`, `a & mask = a mod 2^k` (any sign of `a`); for a single bit `m = 2^k`,
`a & m = m` if bit `k` of `a` is set, else `0`; for the mask `UType(-1) << k` (ones from bit `k`
up) and an unsigned `a`, `a & mask = a - a mod 2^k`.  `T2Check8.lean` validates them (and `toU`, `toS`, `notS`, `notU`,
`>>`) against `BitVec 8`, every bit pattern and every shift count.
-/
namespace PPLV.Checked.T2

/-- `2^bits` -/
def ubound (T : IntTy) : Int := 2 * T.half
/-- `UType(-1)` -/
def umax (T : IntTy) : Int := ubound T - 1
/-- conversion to the unsigned type of the width of `T` -/
def toU (T : IntTy) (v : Int) : Int := v % ubound T
/-- conversion to the signed type of the width of `T` (two's complement reinterpretation) -/
def toS (T : IntTy) (v : Int) : Int := (v + T.half) % ubound T - T.half
/-- `~v` on a signed value -/
def notS (v : Int) : Int := -v - 1
/-- `~v` on an unsigned value -/
def notU (T : IntTy) (v : Int) : Int := umax T - v
/-- `a & (m - 1)` for a power of two `m` -/
def andLow (a m : Int) : Int := a % m
/-- `a & m` for a power of two `m` -/
def andBit (a m : Int) : Int := if (a / m) % 2 == 1 then m else 0
/-- `a & (UType(-1) << k)` for an unsigned `a` -/
def andHigh (a : Int) (k : Nat) : Int := a - a % pow2 k

end PPLV.Checked.T2
