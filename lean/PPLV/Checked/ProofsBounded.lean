import PPLV.Checked.ProofsExt2
import PPLV.Checked.Bounded
/-!
# C11 proofs, part 10: a bounded build either throws or computes the unbounded result
-/
namespace PPLV.Checked
open Result

theorem throws_setNeg (t : IntTy) (π : Policy) (to0 : Int) (dir : Dir) :
    throws (setNegOverflow t π to0 dir).2 = true := by
  simp [throws, resultOverflow_setNeg]

theorem throws_setPos (t : IntTy) (π : Policy) (to0 : Int) (dir : Dir) :
    throws (setPosOverflow t π to0 dir).2 = true := by
  simp [throws, resultOverflow_setPos]

theorem tri_nothrow {t : IntTy} {π : Policy} {dir : Dir} {to0 : Int} {out : Int × Result} {e : Int}
    (h : Tri t π dir to0 out e) (hn : throws out.2 = false) : out.1 = e ∧ t.finite π e := by
  rcases h with ⟨rfl, hf⟩ | ⟨_, rfl⟩ | ⟨_, rfl⟩
  · exact ⟨rfl, hf⟩
  · rw [throws_setNeg] at hn; cases hn
  · rw [throws_setPos] at hn; cases hn

/-- the value an instruction computes over the integers -/
def BInstr.value (r : Regs) : BInstr → Int
  | .neg _ a => -(r a)
  | .abs _ a => if r a < 0 then -(r a) else r a
  | .add _ a b => r a + r b
  | .sub _ a b => r a - r b
  | .mul _ a b => r a * r b
  | .addMul d a b => r d + r a * r b
  | .subMul d a b => r d - r a * r b
  | .div _ a b => (r a).tdiv (r b)
  | .rem _ a b => (r a).tmod (r b)

theorem stepU_eq (r : Regs) (i : BInstr) :
    stepU r i = if !i.defined r then none else some (r.set i.dest (i.value r)) := by
  cases i <;> rfl

section noSpecials
variable {t : IntTy} {π : Policy} (hn : π.hasNan = false) (hi : π.hasInfinity = false)
include hn hi

theorem finite_of_inRange {v : Int} (h : t.inRange v) : t.finite π v := by
  unfold IntTy.inRange at h
  unfold IntTy.finite IntTy.emin IntTy.emax b2i
  simp [hn, hi]
  exact h

theorem isSpecial_false (v : Int) : t.isNan π v = false ∧ t.isMinf π v = false ∧ t.isPinf π v = false := by
  simp [IntTy.isNan, IntTy.isMinf, IntTy.isPinf, hn, hi]

/-- without special values the extended layer is the native primitive -/
theorem run_native (op : IntOp) (dir : Dir) (a : Operands) :
    (op = .neg → IntOp.run t π op dir a = neg t π a.to0 a.x dir) ∧
    (op = .abs → IntOp.run t π op dir a = abs t π a.to0 a.x dir) ∧
    (op = .add → IntOp.run t π op dir a = add t π a.to0 a.x a.y dir) ∧
    (op = .sub → IntOp.run t π op dir a = sub t π a.to0 a.x a.y dir) ∧
    (op = .mul → IntOp.run t π op dir a = mul t π a.to0 a.x a.y dir) ∧
    (op = .addMul → IntOp.run t π op dir a = addMul t π a.to0 a.x a.y dir) ∧
    (op = .subMul → IntOp.run t π op dir a = subMul t π a.to0 a.x a.y dir) ∧
    (op = .div → IntOp.run t π op dir a = div t π a.to0 a.x a.y dir) ∧
    (op = .rem → IntOp.run t π op dir a = rem t π a.to0 a.x a.y dir) := by
  have s := fun v => isSpecial_false (t := t) hn hi v
  refine ⟨?_, ?_, ?_, ?_, ?_, ?_, ?_, ?_, ?_⟩ <;> intro h <;> subst h <;>
    simp [IntOp.run, negExt, absExt, addExt, subExt, mulExt, mulInfClass, addMulExt, subMulExt, divExt, divLikeExt,
      remExt, (s _).1, (s _).2.1, (s _).2.2]

end noSpecials

/-- one step: if the bounded build does not throw, the unbounded build computes the same registers -/
theorem stepB_some {t : IntTy} {π : Policy} (w : t.WF π) (hl : t.LargerOK) (hco : π.checkOverflow = true)
    (hn : π.hasNan = false) (hi : π.hasInfinity = false) (dir : Dir) (hdir : dir.notRequested = true)
    (r : Regs) (hr : ∀ j, t.inRange (r j)) (i : BInstr) (r' : Regs) (h : stepB t π dir r i = some r') :
    stepU r i = some r' ∧ ∀ j, t.inRange (r' j) := by
  have fin : ∀ j, t.finite π (r j) := fun j => finite_of_inRange hn hi (hr j)
  have hru : dir.roundUp = false := by cases dir <;> simp_all [Dir.roundUp, Dir.notRequested]
  have hrd : dir.roundDown = false := by cases dir <;> simp_all [Dir.roundDown, Dir.notRequested]
  rw [stepU_eq]
  unfold stepB at h
  by_cases hd : i.defined r = true
  · simp only [hd, Bool.not_true, Bool.false_eq_true, if_false] at h ⊢
    -- the value and its finiteness, per instruction
    have key : ∀ out : Int × Result, out = IntOp.run t π (i.call r).1 dir (i.call r).2 → throws out.2 = false →
        out.1 = i.value r ∧ t.finite π (i.value r) := by
      intro out ho hnt
      obtain ⟨n1, n2, n3, n4, n5, n6, n7, n8, n9⟩ := run_native (t := t) hn hi (i.call r).1 dir (i.call r).2
      cases i with
      | neg d a =>
        rw [n1 rfl] at ho; subst ho
        exact tri_nothrow (neg_tri w hl hco dir (hr d) (fin a)) hnt
      | abs d a =>
        rw [n2 rfl] at ho; subst ho
        exact tri_nothrow (abs_tri w hl hco dir (hr d) (fin a)) hnt
      | add d a b =>
        rw [n3 rfl] at ho; subst ho
        exact tri_nothrow (add_tri w hl hco dir (hr d) (fin a) (hr b)) hnt
      | sub d a b =>
        rw [n4 rfl] at ho; subst ho
        exact tri_nothrow (sub_tri w hl hco dir (hr d) (fin a) (hr b)) hnt
      | mul d a b =>
        rw [n5 rfl] at ho; subst ho
        exact tri_nothrow (mul_tri w hl hco dir (hr d) (fin a) (fin b)) hnt
      | addMul d a b =>
        rw [n6 rfl] at ho; subst ho
        simp only [BInstr.call, BInstr.value] at hnt ⊢
        have hz : t.inRange 0 := IntTy.finite_inRange (π := π) ⟨(IntTy.emin_le_emax w).1, (IntTy.emin_le_emax w).2⟩
        unfold addMul at hnt ⊢
        rcases mul_tri w hl hco dir hz (fin a) (fin b) with ⟨e, hf⟩ | ⟨he, e⟩ | ⟨he, e⟩
        · rw [e] at hnt ⊢
          simp only [show (V_EQ).resultOverflow = 0 from rfl, beq_self_eq_true, if_true] at hnt ⊢
          rw [IntTy.wrap_of_inRange (IntTy.finite_inRange hf)] at hnt ⊢
          exact tri_nothrow (add_tri w hl hco dir (hr d) (fin d) (IntTy.finite_inRange hf)) hnt
        · rw [e] at hnt
          simp only [resultOverflow_setNeg, show ((-1 : Int) == 0) = false from rfl,
            show ((-1 : Int) == -1) = true from rfl, if_true, Bool.false_eq_true, if_false, hru, hrd, Bool.false_and] at hnt
          split at hnt
          · rw [throws_setNeg] at hnt; cases hnt
          · simp [assignNan, throws, V_UNKNOWN_NEG_OVERFLOW] at hnt
        · rw [e] at hnt
          simp only [resultOverflow_setPos, show ((1 : Int) == 0) = false from rfl,
            show ((1 : Int) == -1) = false from rfl, Bool.false_eq_true, if_false, hru, hrd, Bool.false_and] at hnt
          split at hnt
          · rw [throws_setPos] at hnt; cases hnt
          · simp [assignNan, throws, V_UNKNOWN_POS_OVERFLOW] at hnt
      | subMul d a b =>
        rw [n7 rfl] at ho; subst ho
        simp only [BInstr.call, BInstr.value] at hnt ⊢
        have hz : t.inRange 0 := IntTy.finite_inRange (π := π) ⟨(IntTy.emin_le_emax w).1, (IntTy.emin_le_emax w).2⟩
        unfold subMul at hnt ⊢
        rcases mul_tri w hl hco dir hz (fin a) (fin b) with ⟨e, hf⟩ | ⟨he, e⟩ | ⟨he, e⟩
        · rw [e] at hnt ⊢
          simp only [show (V_EQ).resultOverflow = 0 from rfl, beq_self_eq_true, if_true] at hnt ⊢
          rw [IntTy.wrap_of_inRange (IntTy.finite_inRange hf)] at hnt ⊢
          exact tri_nothrow (sub_tri w hl hco dir (hr d) (fin d) (IntTy.finite_inRange hf)) hnt
        · rw [e] at hnt
          simp only [resultOverflow_setNeg, show ((-1 : Int) == 0) = false from rfl,
            show ((-1 : Int) == -1) = true from rfl, if_true, Bool.false_eq_true, if_false, hru, hrd, Bool.false_and] at hnt
          split at hnt
          · rw [throws_setPos] at hnt; cases hnt
          · simp [assignNan, throws, V_UNKNOWN_NEG_OVERFLOW] at hnt
        · rw [e] at hnt
          simp only [resultOverflow_setPos, show ((1 : Int) == 0) = false from rfl,
            show ((1 : Int) == -1) = false from rfl, Bool.false_eq_true, if_false, hru, hrd, Bool.false_and] at hnt
          split at hnt
          · rw [throws_setNeg] at hnt; cases hnt
          · simp [assignNan, throws, V_UNKNOWN_POS_OVERFLOW] at hnt
      | div d a b =>
        rw [n8 rfl] at ho; subst ho
        simp only [BInstr.call, BInstr.value] at hnt ⊢
        have hb0 : r b ≠ 0 := by simpa [BInstr.defined] using hd
        have hbb : (r b == 0) = false := by simpa using hb0
        unfold div divSigned divUnsigned at hnt ⊢
        simp only [hbb, Bool.and_false, Bool.false_eq_true, if_false, hco, Bool.true_and, hdir, if_true] at hnt ⊢
        cases hs : t.signed
        · simp only [hs, Bool.false_eq_true, if_false] at hnt ⊢
          have e0 : t.emin π = 0 := by simp [IntTy.emin, IntTy.cmin, hs]
          have : 0 ≤ r b := by have := (fin b).1; omega
          exact ⟨trivial, (tdiv_finite w (fin a) (fin b) hb0 (by omega)).1⟩
        · simp only [hs, if_true] at hnt ⊢
          by_cases hm1 : r b = -1
          · simp only [hm1, beq_self_eq_true, if_true] at hnt ⊢
            have e : (r a).tdiv (-1) = -(r a) := by rw [Int.tdiv_neg, Int.tdiv_one]
            rw [e]
            exact tri_nothrow (negSigned_tri w hs hl hco dir (hr d) (fin a)) hnt
          · have hb1 : (r b == -1) = false := by simpa using hm1
            simp only [hb1, Bool.false_eq_true, if_false] at hnt ⊢
            exact ⟨trivial, (tdiv_finite w (fin a) (fin b) hb0 hm1).1⟩
      | rem d a b =>
        rw [n9 rfl] at ho; subst ho
        have hb0 : r b ≠ 0 := by simpa [BInstr.defined] using hd
        exact tri_nothrow (rem_tri w dir (to0 := r d) (fin a) hb0) hnt
    -- assemble
    generalize hout : IntOp.run t π (i.call r).1 dir (i.call r).2 = out at h key
    have h' : (if throws out.2 = true then none else some (r.set i.dest (t.wrap out.1))) = some r' := h
    by_cases ht : throws out.2 = true
    · simp [ht] at h'
    · have ht' : throws out.2 = false := by simpa using ht
      simp only [ht', Bool.false_eq_true, if_false, Option.some.injEq] at h'
      obtain ⟨hv, hf⟩ := key out rfl ht'
      rw [hv, IntTy.wrap_of_inRange (IntTy.finite_inRange hf)] at h'
      subst h'
      refine ⟨rfl, fun j => ?_⟩
      unfold Regs.set
      split
      · exact IntTy.finite_inRange hf
      · exact hr j
  · have hd' : i.defined r = false := by simpa using hd
    simp [hd'] at h

theorem runB_some {t : IntTy} {π : Policy} (w : t.WF π) (hl : t.LargerOK) (hco : π.checkOverflow = true)
    (hn : π.hasNan = false) (hi : π.hasInfinity = false) (dir : Dir) (hdir : dir.notRequested = true)
    (prog : List BInstr) (r : Regs) (hr : ∀ j, t.inRange (r j)) (r' : Regs)
    (h : runB t π dir prog r = some r') : runU prog r = some r' := by
  induction prog generalizing r with
  | nil => simpa [runB, runU] using h
  | cons i is ih =>
    unfold runB at h
    unfold runU
    cases hs : stepB t π dir r i with
    | none => rw [hs] at h; cases h
    | some r1 =>
      rw [hs] at h
      obtain ⟨hu, hr1⟩ := stepB_some w hl hco hn hi dir hdir r hr i r1 hs
      rw [hu]
      exact ih r1 hr1 h

end PPLV.Checked
