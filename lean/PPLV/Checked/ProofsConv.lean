import PPLV.Checked.ProofsExt2
/-!
# C11 proofs: conversions from GMP integers and rationals; `round_lt_int` / `round_gt_int`

`round_lt_int` (`round_gt_int`) is called when the stored integer `s` is above (below) the exact
result and within one unit of it; under ROUND_DOWN (ROUND_UP) it steps to `s - 1` (`s + 1`), or
to `-∞` (`+∞`) / "unrepresentable" when `s` is already the minimum (maximum).
-/
namespace PPLV.Checked
open Result

theorem roundLt_okq {t : IntTy} {π : Policy} (w : t.WF π) (dir : Dir) {s : Int} (hf : t.finite π s) {q : Rat}
    (hlt : q < (s : Rat)) (hgt : ((s - 1 : Int) : Rat) < q) :
    OKQ t π dir (roundLt t π s dir) (.fin q) := by
  unfold roundLt
  split
  · rename_i hdn
    have hdn' : dir = Dir.down := by simpa [Dir.roundDown] using hdn
    split
    · rename_i hmin
      have hmin' : s = t.emin π := by simpa using hmin
      have hq : q < ((t.emin π : Int) : Rat) := by rw [← hmin']; exact hlt
      split
      · rename_i hi
        obtain ⟨hden, hr⟩ := IntTy.denote_minusInf w hi
        refine ⟨?_, ?_, ?_, hr, ?_⟩
        · simp [K4.holds, V_GT_MINUS_INFINITY, hden, Ext.map, K4.relHolds, Rel.GT, Ext.lt]
        · simp [K4.directed, V_GT_MINUS_INFINITY, hden, Ext.map, Ext.le, Ext.lt, hdn']
        · simp [K4.overflowHolds, V_GT_MINUS_INFINITY, Rel.GT, Rel.LT, Ext.lt, hq]
        · simp [V_GT_MINUS_INFINITY]
      · refine ⟨?_, ?_, ?_, IntTy.finite_inRange hf, ?_⟩
        · simp [K4.holds, V_GT_MINUS_INFINITY, orUnrep, K4.relHolds, Rel.GT, Ext.lt]
        · simp [K4.directed, V_GT_MINUS_INFINITY, orUnrep]
        · simp [K4.overflowHolds, V_GT_MINUS_INFINITY, orUnrep, Rel.GT, Rel.LT, Ext.lt, hq]
        · simp [V_GT_MINUS_INFINITY, orUnrep]
    · rename_i hmin
      have hmin' : s ≠ t.emin π := by simpa using hmin
      refine okq_normal w (s := s - 1) ⟨by have := hf.1; omega, by have := hf.2; omega⟩ rfl rfl rfl
        (Or.inr (Or.inr ⟨rfl, hgt⟩)) (fun h => by rw [hdn'] at h; cases h) (fun _ => le_of_lt hgt)
  · rename_i hdn
    exact okq_normal w hf rfl rfl rfl (Or.inl ⟨rfl, hlt⟩) (fun _ => le_of_lt hlt)
      (fun h => by simp [Dir.roundDown, h] at hdn)

theorem roundGt_okq {t : IntTy} {π : Policy} (w : t.WF π) (dir : Dir) {s : Int} (hf : t.finite π s) {q : Rat}
    (hgt : (s : Rat) < q) (hlt : q < ((s + 1 : Int) : Rat)) :
    OKQ t π dir (roundGt t π s dir) (.fin q) := by
  unfold roundGt
  split
  · rename_i hup
    have hup' : dir = Dir.up := by simpa [Dir.roundUp] using hup
    split
    · rename_i hmax
      have hmax' : s = t.emax π := by simpa using hmax
      have hq : ((t.emax π : Int) : Rat) < q := by rw [← hmax']; exact hgt
      split
      · rename_i hi
        obtain ⟨hden, hr⟩ := IntTy.denote_plusInf w hi
        refine ⟨?_, ?_, ?_, hr, ?_⟩
        · simp [K4.holds, V_LT_PLUS_INFINITY, hden, Ext.map, K4.relHolds, Rel.LT, Ext.lt]
        · simp [K4.directed, V_LT_PLUS_INFINITY, hden, Ext.map, Ext.le, Ext.lt, hup']
        · simp [K4.overflowHolds, V_LT_PLUS_INFINITY, Rel.GT, Rel.LT, Ext.lt, hq]
        · simp [V_LT_PLUS_INFINITY]
      · refine ⟨?_, ?_, ?_, IntTy.finite_inRange hf, ?_⟩
        · simp [K4.holds, V_LT_PLUS_INFINITY, orUnrep, K4.relHolds, Rel.LT, Ext.lt]
        · simp [K4.directed, V_LT_PLUS_INFINITY, orUnrep]
        · simp [K4.overflowHolds, V_LT_PLUS_INFINITY, orUnrep, Rel.GT, Rel.LT, Ext.lt, hq]
        · simp [V_LT_PLUS_INFINITY, orUnrep]
    · rename_i hmax
      have hmax' : s ≠ t.emax π := by simpa using hmax
      refine okq_normal w (s := s + 1) ⟨by have := hf.1; omega, by have := hf.2; omega⟩ rfl rfl rfl
        (Or.inl ⟨rfl, hlt⟩) (fun _ => le_of_lt hlt) (fun h => by rw [hup'] at h; cases h)
  · rename_i hup
    exact okq_normal w hf rfl rfl rfl (Or.inr (Or.inr ⟨rfl, hgt⟩)) (fun h => by simp [Dir.roundUp, h] at hup)
      (fun _ => le_of_lt hgt)

theorem assignMpz_tri {t : IntTy} {π : Policy} (hco : π.checkOverflow = true) (dir : Dir) (to0 v : Int) :
    Tri t π dir to0 (assignMpz t π to0 v dir) v := by
  unfold assignMpz
  simp only [hco, Bool.true_and, decide_eq_true_eq]
  split
  · exact tri_neg (by assumption)
  · split
    · exact tri_pos (by omega)
    · exact tri_eq ⟨by omega, by omega⟩

/-- an overflow outcome for a rational exact result beyond the finite range -/
theorem okq_negOverflow {t : IntTy} {π : Policy} (w : t.WF π) (dir : Dir) {to0 : Int} (h0 : t.inRange to0) {q : Rat}
    (he : q < ((t.emin π : Int) : Rat)) : OKQ t π dir (setNegOverflow t π to0 dir) (.fin q) := by
  unfold setNegOverflow
  split
  · rename_i hup
    have hd := IntTy.denote_finite w (IntTy.finite_emin w)
    refine ⟨?_, ?_, ?_, IntTy.finite_inRange (IntTy.finite_emin w), ?_⟩
    · simp [K4.holds, V_LT_INF, hd, Ext.map, K4.relHolds, Rel.LT, Ext.lt, he]
    · simp [K4.directed, V_LT_INF, hd, Ext.map, Ext.le, Ext.lt]
      exact ⟨fun _ => Or.inl he, fun h => by simp [Dir.roundUp, h] at hup⟩
    · simp [K4.overflowHolds, V_LT_INF, Rel.LT, Rel.GT, Ext.lt, he]
    · simp [V_LT_INF]
  · rename_i hup
    split
    · rename_i hi
      obtain ⟨hd, hr⟩ := IntTy.denote_minusInf w hi
      refine ⟨?_, ?_, ?_, hr, ?_⟩
      · simp [K4.holds, V_GT_MINUS_INFINITY, hd, Ext.map, K4.relHolds, Rel.GT, Ext.lt]
      · simp [K4.directed, V_GT_MINUS_INFINITY, hd, Ext.map, Ext.le, Ext.lt]
        intro h; simp [Dir.roundUp, h] at hup
      · simp [K4.overflowHolds, V_GT_MINUS_INFINITY, Rel.LT, Rel.GT, Ext.lt, he]
      · simp [V_GT_MINUS_INFINITY]
    · refine ⟨?_, ?_, ?_, h0, ?_⟩
      · simp [K4.holds, V_GT_MINUS_INFINITY, orUnrep, K4.relHolds, Rel.GT, Ext.lt]
      · simp [K4.directed, V_GT_MINUS_INFINITY, orUnrep]
      · simp [K4.overflowHolds, V_GT_MINUS_INFINITY, orUnrep, Rel.LT, Rel.GT, Ext.lt, he]
      · simp [V_GT_MINUS_INFINITY, orUnrep]

theorem okq_posOverflow {t : IntTy} {π : Policy} (w : t.WF π) (dir : Dir) {to0 : Int} (h0 : t.inRange to0) {q : Rat}
    (he : ((t.emax π : Int) : Rat) < q) : OKQ t π dir (setPosOverflow t π to0 dir) (.fin q) := by
  unfold setPosOverflow
  split
  · rename_i hdn
    have hd := IntTy.denote_finite w (IntTy.finite_emax w)
    refine ⟨?_, ?_, ?_, IntTy.finite_inRange (IntTy.finite_emax w), ?_⟩
    · simp [K4.holds, V_GT_SUP, hd, Ext.map, K4.relHolds, Rel.GT, Ext.lt, he]
    · simp [K4.directed, V_GT_SUP, hd, Ext.map, Ext.le, Ext.lt]
      exact ⟨fun h => by simp [Dir.roundDown, h] at hdn, fun _ => Or.inl he⟩
    · simp [K4.overflowHolds, V_GT_SUP, Rel.LT, Rel.GT, Ext.lt, he]
    · simp [V_GT_SUP]
  · rename_i hdn
    split
    · rename_i hi
      obtain ⟨hd, hr⟩ := IntTy.denote_plusInf w hi
      refine ⟨?_, ?_, ?_, hr, ?_⟩
      · simp [K4.holds, V_LT_PLUS_INFINITY, hd, Ext.map, K4.relHolds, Rel.LT, Ext.lt]
      · simp [K4.directed, V_LT_PLUS_INFINITY, hd, Ext.map, Ext.le, Ext.lt]
        intro h; simp [Dir.roundDown, h] at hdn
      · simp [K4.overflowHolds, V_LT_PLUS_INFINITY, Rel.LT, Rel.GT, Ext.lt, he]
      · simp [V_LT_PLUS_INFINITY]
    · refine ⟨?_, ?_, ?_, h0, ?_⟩
      · simp [K4.holds, V_LT_PLUS_INFINITY, orUnrep, K4.relHolds, Rel.LT, Ext.lt]
      · simp [K4.directed, V_LT_PLUS_INFINITY, orUnrep]
      · simp [K4.overflowHolds, V_LT_PLUS_INFINITY, orUnrep, Rel.LT, Rel.GT, Ext.lt, he]
      · simp [V_LT_PLUS_INFINITY, orUnrep]

/-- `assign_int_mpq`: conversion of the canonical rational `n / d` -/
theorem assignMpq_okq {t : IntTy} {π : Policy} (w : t.WF π) (hco : π.checkOverflow = true) (dir : Dir)
    {to0 n d : Int} (h0 : t.inRange to0) (hd : 0 < d) :
    OKQ t π dir (assignMpq t π to0 n d dir) (.fin ((n : Rat) / (d : Rat))) := by
  obtain ⟨e, p, ng⟩ := tdiv_tmod_pos n hd
  obtain ⟨hmin, hmax⟩ := IntTy.emin_le_emax w
  unfold assignMpq
  generalize n.tdiv d = q at *
  generalize n.tmod d = m at *
  have mc : q * d = d * q := Int.mul_comm _ _
  have sgn : (0 ≤ n → 0 ≤ m ∧ m < d ∧ 0 ≤ q) ∧ (n < 0 → -d < m ∧ m ≤ 0 ∧ q ≤ 0) := ⟨p, ng⟩
  rcases assignMpz_tri (t := t) (π := π) hco dir to0 q with ⟨eq, hf⟩ | ⟨he, eq⟩ | ⟨he, eq⟩
  · rw [eq]
    simp only [bne_self_eq_false, Bool.false_eq_true, if_false]
    split
    · rename_i hnr
      refine okq_normal w hf rfl rfl rfl ?_ (fun h => by simp [Dir.notRequested, h] at hnr)
        (fun h => by simp [Dir.notRequested, h] at hnr)
      rcases lt_trichotomy ((n : Rat) / (d : Rat)) ((q : Int) : Rat) with h | h | h
      · exact Or.inl ⟨rfl, h⟩
      · exact Or.inr (Or.inl ⟨rfl, h⟩)
      · exact Or.inr (Or.inr ⟨rfl, h⟩)
    · split
      · rename_i hneg
        have hn : n < 0 := by
          rcases (by omega : 0 ≤ n ∨ n < 0) with h | h
          · have := p h; omega
          · exact h
        obtain ⟨m0, m1, q0⟩ := ng hn
        have e2 : (q - 1) * d = d * q - d := by ring
        exact roundLt_okq w dir hf ((div_lt_int hd).mpr (by omega)) ((int_lt_div (s := q - 1) hd).mpr (by omega))
      · split
        · rename_i hneg hpos
          have hn : 0 ≤ n := by
            rcases (by omega : 0 ≤ n ∨ n < 0) with h | h
            · exact h
            · have := ng h; omega
          obtain ⟨m0, m1, q0⟩ := p hn
          have e2 : (q + 1) * d = d * q + d := by ring
          exact roundGt_okq w dir hf ((int_lt_div hd).mpr (by omega)) ((div_lt_int (s := q + 1) hd).mpr (by omega))
        · rename_i hneg hpos
          have hm : m = 0 := by omega
          have hq : (n : Rat) / (d : Rat) = ((q : Int) : Rat) := (div_eq_int hd).mpr (by omega)
          exact okq_normal w hf rfl rfl rfl (Or.inr (Or.inl ⟨rfl, hq⟩)) (fun _ => le_of_eq hq) (fun _ => le_of_eq hq.symm)
  · -- the truncated quotient is already below the range: so is the exact value
    rw [eq]
    have hr : ((setNegOverflow t π to0 dir).2 != V_EQ) = true := by
      unfold setNegOverflow; split
      · rfl
      · split <;> rfl
    simp only [hr, if_true]
    apply okq_negOverflow w dir h0
    have hq0 : q < 0 := by omega
    have hn : n < 0 := by
      rcases (by omega : 0 ≤ n ∨ n < 0) with h | h
      · have := p h; omega
      · exact h
    obtain ⟨m0, m1, _⟩ := ng hn
    -- n/d <= q (m <= 0) and q < emin
    have h3 : (n : Rat) / d ≤ ((q : Int) : Rat) := by
      rcases (by omega : m = 0 ∨ m < 0) with h | h
      · exact le_of_eq ((div_eq_int hd).mpr (by omega))
      · exact le_of_lt ((div_lt_int hd).mpr (by omega))
    have h4 : ((q : Int) : Rat) < ((t.emin π : Int) : Rat) := by exact_mod_cast he
    exact lt_of_le_of_lt h3 h4
  · rw [eq]
    have hr : ((setPosOverflow t π to0 dir).2 != V_EQ) = true := by
      unfold setPosOverflow; split
      · rfl
      · split <;> rfl
    simp only [hr, if_true]
    apply okq_posOverflow w dir h0
    have hn : 0 ≤ n := by
      rcases (by omega : 0 ≤ n ∨ n < 0) with h | h
      · exact h
      · have := ng h; omega
    obtain ⟨m0, m1, _⟩ := p hn
    have h3 : ((q : Int) : Rat) ≤ (n : Rat) / d := by
      rcases (by omega : m = 0 ∨ 0 < m) with h | h
      · exact le_of_eq ((div_eq_int hd).mpr (by omega)).symm
      · exact le_of_lt ((int_lt_div hd).mpr (by omega))
    have h4 : ((t.emax π : Int) : Rat) < ((q : Int) : Rat) := by exact_mod_cast he
    exact lt_of_lt_of_le h4 h3

end PPLV.Checked
