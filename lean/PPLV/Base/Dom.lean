import PPLV.Lin.Base

/-!
# K5 — generic abstract-domain interface (no Mathlib)

A *domain* is a carrier `D` of abstract elements together with a concretisation
`γ : D → Pt → Prop` (a set of points of `ℚ^ω`, written as a predicate so that no library of sets is
needed here; it is definitionally Mathlib's `Set Pt`), the operations the PPL generic algorithms call
on their template parameter, and **hypothesis fields** saying how each operation relates to `γ`.

* `Dom`       — what every PPL base-level domain promises: every operation is *sound*
                (`definitely_entails`/`contains` answers `true` only for a real inclusion, `is_bottom`
                answers `true` only for the empty set, `upper_bound_assign` contains both arguments,
                `meet_assign` contains the intersection, `operator==` answers `true` only for equal sets).
* `ExactDom`  — domains whose meet is the intersection and whose `is_bottom`, `contains`,
                `is_disjoint_from` are decision procedures (C/NNC polyhedra, grids, and – over ℚ –
                boxes, BD shapes, octagons).
* `PolyDom`   — an exact domain of NNC-polyhedron kind: elements have a finite constraint
                description over `LCon` (`=`, `≥`, `>` rows), a single constraint can be added
                exactly; plus the two optional base-level services used by `Pointset_Powerset`:
                `upper_bound_assign_if_exact` and the meet-preserving enlargement
                `simplify_using_context_assign`.

For the real PPL domains these fields *are* the properties C01–C05; the powerset / product
theorems are proved for every structure satisfying them, and the correspondence checks observe
the composed behaviour of the real code end to end.
-/
namespace PPLV

/-- points: valuations of countably many rational coordinates -/
abbrev Pt := Nat → Rat

/-- sound abstract domain -/
structure Dom where
  D : Type
  γ : D → Pt → Prop
  /-- `x.definitely_entails(y)` (for `Determinate<PSET>`: same representation or `y.contains(x)`) -/
  leq : D → D → Bool
  /-- `is_bottom()` = `pointset().is_empty()` -/
  isBottom : D → Bool
  /-- `upper_bound_assign` -/
  join : D → D → D
  /-- `meet_assign` = `intersection_assign` -/
  meet : D → D → D
  /-- `operator==` of `Determinate<PSET>` -/
  eqv : D → D → Bool
  leq_sound : ∀ a b, leq a b = true → ∀ p, γ a p → γ b p
  isBottom_sound : ∀ a, isBottom a = true → ∀ p, ¬ γ a p
  join_sound : ∀ a b p, γ a p ∨ γ b p → γ (join a b) p
  meet_sound : ∀ a b p, γ a p → γ b p → γ (meet a b) p
  eqv_sound : ∀ a b, eqv a b = true → ∀ p, γ a p ↔ γ b p

/-- exact abstract domain: the meet is the intersection and the predicates are decision procedures -/
structure ExactDom extends Dom where
  /-- `contains` of the base domain: `contains a b` ⇔ `b ⊆ a` -/
  contains : D → D → Bool
  /-- `is_disjoint_from` -/
  disjoint : D → D → Bool
  /-- the universe element -/
  top : D
  meet_exact : ∀ a b p, γ (meet a b) p ↔ (γ a p ∧ γ b p)
  isBottom_iff : ∀ a, isBottom a = true ↔ ∀ p, ¬ γ a p
  leq_iff : ∀ a b, leq a b = true ↔ ∀ p, γ a p → γ b p
  contains_iff : ∀ a b, contains a b = true ↔ ∀ p, γ b p → γ a p
  disjoint_iff : ∀ a b, disjoint a b = true ↔ ∀ p, ¬ (γ a p ∧ γ b p)
  top_spec : ∀ p, γ top p

/-! ### linear constraints as the library hands them out (`Constraint`: `=`, `≥`, `>`) -/

inductive LRel | eq | ge | gt
deriving Repr, DecidableEq, Inhabited

/-- `coeffs · x + k  rel  0` -/
structure LCon where
  coeffs : List Int
  k : Int
  rel : LRel
deriving Repr, DecidableEq, Inhabited

def LCon.eval (c : LCon) (x : Pt) : Rat := Lin.dot c.coeffs x + (c.k : Rat)

def LCon.sat (c : LCon) (x : Pt) : Prop :=
  match c.rel with
  | .eq => c.eval x = 0
  | .ge => 0 ≤ c.eval x
  | .gt => 0 < c.eval x

/-- the linear expression `le` of `c` put into the constraint `le ≥ 0` -/
def LCon.exprGe (c : LCon) : LCon := ⟨c.coeffs, c.k, .ge⟩
/-- `le ≤ 0`, i.e. `-le ≥ 0` -/
def LCon.exprLe (c : LCon) : LCon := ⟨c.coeffs.map (- ·), -c.k, .ge⟩
/-- `le < 0`, i.e. `-le > 0` -/
def LCon.exprLt (c : LCon) : LCon := ⟨c.coeffs.map (- ·), -c.k, .gt⟩

/-- exact polyhedral domain (the role `NNC_Polyhedron` plays in `linear_partition`,
    `check_containment`, `difference_assign`) -/
structure PolyDom extends ExactDom where
  /-- `constraints()` -/
  cons : D → List LCon
  /-- `add_constraint` -/
  addCon : D → LCon → D
  /-- `upper_bound_assign_if_exact`: `some r` = returned `true` and the receiver became `r` -/
  ubIfExact : D → D → Option D
  /-- `simplify_using_context_assign(y)`: new receiver and the Boolean result -/
  simplify : D → D → D × Bool
  cons_spec : ∀ a p, γ a p ↔ ∀ c ∈ cons a, c.sat p
  addCon_spec : ∀ a c p, γ (addCon a c) p ↔ (γ a p ∧ c.sat p)
  ubIfExact_spec : ∀ a b r, ubIfExact a b = some r → ∀ p, γ r p ↔ (γ a p ∨ γ b p)
  /-- meet-preserving … -/
  simplify_meet : ∀ a y p, (γ (simplify a y).1 p ∧ γ y p) ↔ (γ a p ∧ γ y p)
  /-- … enlargement -/
  simplify_enl : ∀ a y p, γ a p → γ (simplify a y).1 p
  /-- `false` is returned only if the intersection is empty -/
  simplify_false : ∀ a y, (simplify a y).2 = false → ∀ p, ¬ (γ a p ∧ γ y p)

/-- union of the disjuncts of a sequence: the set a powerset denotes -/
def Dom.U (d : Dom) (s : List d.D) (p : Pt) : Prop := ∃ x ∈ s, d.γ x p

end PPLV
