import PPLV.Interval.ProofsInt3
/-!
# C12 / native integers, part 7: native intervals are closed under the model's operations

`NatB ty t b`: the bound `b` of the C12 model is a boundary of `Interval<T, Info>` on side `t` — the
infinity of its side (SPECIAL) or an integer of the type.  With `Rounding.native ty` and a policy that
stores SPECIAL and has no infinite members, `assign`, `neg_assign`, `add_assign`, `sub_assign`,
`mul_assign`, `div_assign`, `join_assign`, `intersect_assign` return native intervals from native
operands (`*_native`): the correspondence of `ProofsInt4/5` (C11 arithmetic + `adjust_boundary` at every
boundary computation) therefore applies along whole chains of operations.
-/
set_option linter.unusedVariables false
set_option linter.unusedSimpArgs false
namespace PPLV.Interval.Native
open PPLV.Interval PPLV.Interval.ExtRat PPLV.Checked PPLV.Checked.Result

def NatB (ty : IntTy) (t : BT) (b : Bound) : Prop :=
  b.value = infOf t ∨ ∃ z : Int, b.value = fin (z : Rat) ∧ ty.cmin ≤ z ∧ z ≤ ty.cmax

def NatIv (ty : IntTy) (x : Iv) : Prop := NatB ty .lower x.lo ∧ NatB ty .upper x.hi

theorem nativeBound_iff (ty : IntTy) (t : BT) (b : Bound) : nativeBound ty t b = true ↔ NatB ty t b := by
  unfold nativeBound NatB
  cases hv : b.value with
  | ninf => cases t <;> simp [infOf]
  | pinf => cases t <;> simp [infOf]
  | fin q =>
    simp only [Bool.and_eq_true, beq_iff_eq, decide_eq_true_eq]
    constructor
    · rintro ⟨⟨h1, h2⟩, h3⟩
      refine Or.inr ⟨q.num, ?_, h2, h3⟩
      have : ((q.num : Int) : Rat) = q := by
        have := Rat.num_div_den q
        rw [h1] at this; simpa using this
      rw [this]
    · rintro (h | ⟨z, hz, h2, h3⟩)
      · cases t <;> simp [infOf] at h
      · have : q = (z : Rat) := by simpa using hz
        subst this
        simp [h2, h3]

theorem nativeIv_iff (ty : IntTy) (x : Iv) : nativeIv ty x = true ↔ NatIv ty x := by
  unfold nativeIv NatIv
  rw [Bool.and_eq_true, nativeBound_iff, nativeBound_iff]

variable {ty : IntTy} {p : Policy}

theorem natB_inf (t : BT) (o : Bool) : NatB ty t ⟨infOf t, o⟩ := Or.inl rfl

theorem downSpec_cases (hb : 1 ≤ ty.bits) (q : Rat) :
    downSpec ty q = ninf ∨ ∃ z : Int, downSpec ty q = fin (z : Rat) ∧ ty.cmin ≤ z ∧ z ≤ ty.cmax := by
  obtain ⟨hmin, hmax⟩ := cmin_le_cmax hb
  unfold downSpec
  split
  · exact Or.inl rfl
  · split
    · exact Or.inr ⟨ty.cmax, rfl, by omega, by omega⟩
    · exact Or.inr ⟨q.floor, rfl, by omega, by omega⟩

theorem upSpec_cases (hb : 1 ≤ ty.bits) (q : Rat) :
    upSpec ty q = pinf ∨ ∃ z : Int, upSpec ty q = fin (z : Rat) ∧ ty.cmin ≤ z ∧ z ≤ ty.cmax := by
  obtain ⟨hmin, hmax⟩ := cmin_le_cmax hb
  unfold upSpec
  split
  · exact Or.inl rfl
  · split
    · exact Or.inr ⟨ty.cmin, rfl, by omega, by omega⟩
    · exact Or.inr ⟨q.ceil, rfl, by omega, by omega⟩

/-- a finite rounded bound is an integer of the type -/
theorem natB_adjust_fin (hb : 1 ≤ ty.bits) (t : BT) (q : Rat) (s : Bool) :
    NatB ty t (adjust p (Rounding.native ty) t (fin q) s) := by
  cases t
  · rw [adjust_lower_fin, native_down hb]
    rcases downSpec_cases hb q with h | ⟨z, h, h1, h2⟩ <;> rw [h]
    · exact Or.inl rfl
    · exact Or.inr ⟨z, rfl, h1, h2⟩
  · rw [adjust_upper_fin, native_up hb]
    rcases upSpec_cases hb q with h | ⟨z, h, h1, h2⟩ <;> rw [h]
    · exact Or.inl rfl
    · exact Or.inr ⟨z, rfl, h1, h2⟩

theorem natB_setBoundaryInfinity (t : BT) (o : Bool) : NatB ty t (setBoundaryInfinity p t o) := Or.inl rfl
theorem natB_setUnbounded (t : BT) : NatB ty t (setUnbounded p t) := Or.inl rfl
theorem natB_setZero (hb : 1 ≤ ty.bits) (t : BT) (s : Bool) : NatB ty t (setZero p (Rounding.native ty) t s) :=
  natB_adjust_fin hb t 0 s

/-- a native bound that is not the SPECIAL infinity has a finite value -/
theorem natB_fin_of_not_special (hp : p.storeSpecial = true) {t : BT} {b : Bound} (h : NatB ty t b)
    (hs : isBoundaryInfinity p t b = false) : ∃ z : Int, b.value = fin (z : Rat) := by
  rcases h with h | ⟨z, hz, _⟩
  · exfalso
    rw [isBoundaryInfinity_eq] at hs
    cases t <;> simp [normalIsBoundaryInfinity, h, infOf] at hs
  · exact ⟨z, hz⟩

theorem getSpecial_eq_isBoundaryInfinity (hp : p.storeSpecial = true) (t : BT) (b : Bound) :
    getSpecial p t b = isBoundaryInfinity p t b := by simp [isBoundaryInfinity, hp]

theorem natB_bAssign (hb : 1 ≤ ty.bits) (hp : p.storeSpecial = true) (tt t : BT) {x : Bound} (hx : NatB ty t x)
    (s : Bool) : NatB ty tt (bAssign p (Rounding.native ty) tt p t x s) := by
  unfold bAssign
  rw [getSpecial_eq_isBoundaryInfinity hp]
  cases hs : isBoundaryInfinity p t x
  · obtain ⟨z, hz⟩ := natB_fin_of_not_special hp hx hs
    simp only [Bool.false_eq_true, if_false, hz]
    exact natB_adjust_fin hb tt _ _
  · simp only [if_true]; exact natB_setBoundaryInfinity tt _

theorem natB_bNeg (hb : 1 ≤ ty.bits) (hp : p.storeSpecial = true) (tt t : BT) {x : Bound} (hx : NatB ty t x) :
    NatB ty tt (bNeg p (Rounding.native ty) tt p t x) := by
  unfold bNeg
  rw [getSpecial_eq_isBoundaryInfinity hp]
  cases hs : isBoundaryInfinity p t x
  · obtain ⟨z, hz⟩ := natB_fin_of_not_special hp hx hs
    simp only [Bool.false_eq_true, if_false, hz, ExtRat.neg]
    exact natB_adjust_fin hb tt _ _
  · simp only [if_true]; exact natB_setBoundaryInfinity tt _

theorem natB_bArith (hb : 1 ≤ ty.bits) (hp : p.storeSpecial = true) (f : ExtRat → ExtRat → ExtRat)
    (hf : ∀ a b : Rat, ∃ c, f (fin a) (fin b) = fin c) (tt t1 t2 : BT) {x1 x2 : Bound}
    (h1 : NatB ty t1 x1) (h2 : NatB ty t2 x2) :
    NatB ty tt (bArith f p (Rounding.native ty) tt p t1 x1 p t2 x2) := by
  unfold bArith
  cases hs1 : isBoundaryInfinity p t1 x1
  · cases hs2 : isBoundaryInfinity p t2 x2
    · obtain ⟨z1, hz1⟩ := natB_fin_of_not_special hp h1 hs1
      obtain ⟨z2, hz2⟩ := natB_fin_of_not_special hp h2 hs2
      obtain ⟨c, hc⟩ := hf z1 z2
      simp only [Bool.false_eq_true, if_false, hz1, hz2, hc]
      exact natB_adjust_fin hb tt _ _
    · simp only [Bool.false_eq_true, if_false, if_true]; exact natB_setBoundaryInfinity tt _
  · simp only [if_true]; exact natB_setBoundaryInfinity tt _

theorem natB_bAdd (hb : 1 ≤ ty.bits) (hp : p.storeSpecial = true) (tt t1 t2 : BT) {x1 x2 : Bound}
    (h1 : NatB ty t1 x1) (h2 : NatB ty t2 x2) : NatB ty tt (bAdd p (Rounding.native ty) tt p t1 x1 p t2 x2) :=
  natB_bArith hb hp _ (fun a b => ⟨a + b, rfl⟩) tt t1 t2 h1 h2
theorem natB_bSub (hb : 1 ≤ ty.bits) (hp : p.storeSpecial = true) (tt t1 t2 : BT) {x1 x2 : Bound}
    (h1 : NatB ty t1 x1) (h2 : NatB ty t2 x2) : NatB ty tt (bSub p (Rounding.native ty) tt p t1 x1 p t2 x2) :=
  natB_bArith hb hp _ (fun a b => ⟨a - b, rfl⟩) tt t1 t2 h1 h2
theorem natB_bMul (hb : 1 ≤ ty.bits) (hp : p.storeSpecial = true) (tt t1 t2 : BT) {x1 x2 : Bound}
    (h1 : NatB ty t1 x1) (h2 : NatB ty t2 x2) : NatB ty tt (bMul p (Rounding.native ty) tt p t1 x1 p t2 x2) :=
  natB_bArith hb hp _ (fun a b => ⟨a * b, rfl⟩) tt t1 t2 h1 h2

theorem natB_bMulZ (hb : 1 ≤ ty.bits) (hp : p.storeSpecial = true) (tt t1 t2 : BT) {x1 x2 : Bound}
    (h1 : NatB ty t1 x1) (h2 : NatB ty t2 x2) (s1 s2 : Int) :
    NatB ty tt (bMulZ p (Rounding.native ty) tt p t1 x1 s1 p t2 x2 s2) := by
  unfold bMulZ
  split
  · split
    · exact natB_bMul hb hp tt t1 t2 h1 h2
    · exact natB_setZero hb tt _
  · exact natB_setZero hb tt _

theorem natB_bDiv (hb : 1 ≤ ty.bits) (hp : p.storeSpecial = true) (tt t1 t2 : BT) {x1 x2 : Bound}
    (h1 : NatB ty t1 x1) (h2 : NatB ty t2 x2) : NatB ty tt (bDiv p (Rounding.native ty) tt p t1 x1 p t2 x2) := by
  unfold bDiv
  cases hs1 : isBoundaryInfinity p t1 x1
  · cases hs2 : isBoundaryInfinity p t2 x2
    · obtain ⟨z1, hz1⟩ := natB_fin_of_not_special hp h1 hs1
      obtain ⟨z2, hz2⟩ := natB_fin_of_not_special hp h2 hs2
      simp only [Bool.false_eq_true, if_false, hz1, hz2, ExtRat.div]
      exact natB_adjust_fin hb tt _ _
    · simp only [Bool.false_eq_true, if_false, if_true]; exact natB_setZero hb tt _
  · simp only [if_true]; exact natB_setBoundaryInfinity tt _

theorem natB_bDivZ (hb : 1 ≤ ty.bits) (hp : p.storeSpecial = true) (tt t1 t2 : BT) {x1 x2 : Bound}
    (h1 : NatB ty t1 x1) (h2 : NatB ty t2 x2) (s1 s2 : Int) :
    NatB ty tt (bDivZ p (Rounding.native ty) tt p t1 x1 s1 p t2 x2 s2) := by
  unfold bDivZ
  split
  · split
    · exact natB_bDiv hb hp tt t1 t2 h1 h2
    · exact natB_setBoundaryInfinity tt _
  · exact natB_setZero hb tt _

theorem natB_bMin1 (hb : 1 ≤ ty.bits) (hp : p.storeSpecial = true) (t : BT) {dst x : Bound}
    (h1 : NatB ty t dst) (h2 : NatB ty t x) : NatB ty t (bMin1 p (Rounding.native ty) t dst p t x) := by
  unfold bMin1; split
  · exact natB_bAssign hb hp t t h2 _
  · exact h1
theorem natB_bMax1 (hb : 1 ≤ ty.bits) (hp : p.storeSpecial = true) (t : BT) {dst x : Bound}
    (h1 : NatB ty t dst) (h2 : NatB ty t x) : NatB ty t (bMax1 p (Rounding.native ty) t dst p t x) := by
  unfold bMax1; split
  · exact natB_bAssign hb hp t t h2 _
  · exact h1

/-- `assign(EMPTY)` stores `lower = 1`, `upper = 0`: values of every type with `max ≥ 1` -/
theorem natIv_empty (hb : 1 ≤ ty.bits) (h1 : 1 ≤ ty.cmax) : NatIv ty Iv.empty := by
  obtain ⟨hmin, hmax⟩ := cmin_le_cmax hb
  exact ⟨Or.inr ⟨1, by simp [Iv.empty], by omega, h1⟩, Or.inr ⟨0, by simp [Iv.empty], hmin, hmax⟩⟩

theorem infinitySign_zero (hm : p.mayContainInfinity = false) (x : Iv) : infinitySign p x = 0 := by
  simp [infinitySign, isReverseInfinity, hm]

/-- hypotheses shared by the closure theorems -/
structure NatCfg (ty : IntTy) (p : Policy) : Prop where
  bits : 1 ≤ ty.bits
  max1 : 1 ≤ ty.cmax
  special : p.storeSpecial = true
  noInf : p.mayContainInfinity = false

theorem assign_native (c : NatCfg ty p) {x : Iv} (hx : NatIv ty x) : NatIv ty (assign p (Rounding.native ty) p x) := by
  unfold assign; split
  · exact natIv_empty c.bits c.max1
  · exact ⟨natB_bAssign c.bits c.special _ _ hx.1 _, natB_bAssign c.bits c.special _ _ hx.2 _⟩

theorem negAssign_native (c : NatCfg ty p) {x : Iv} (hx : NatIv ty x) : NatIv ty (negAssign p (Rounding.native ty) x) := by
  unfold negAssign; split
  · exact natIv_empty c.bits c.max1
  · exact ⟨natB_bNeg c.bits c.special _ _ hx.2, natB_bNeg c.bits c.special _ _ hx.1⟩

theorem addAssign_native (c : NatCfg ty p) {x y : Iv} (hx : NatIv ty x) (hy : NatIv ty y) :
    NatIv ty (addAssign p (Rounding.native ty) x y) := by
  unfold addAssign
  simp only [infinitySign_zero c.noInf]
  split
  · exact natIv_empty c.bits c.max1
  · simp
    exact ⟨natB_bAdd c.bits c.special _ _ _ hx.1 hy.1, natB_bAdd c.bits c.special _ _ _ hx.2 hy.2⟩

theorem subAssign_native (c : NatCfg ty p) {x y : Iv} (hx : NatIv ty x) (hy : NatIv ty y) :
    NatIv ty (subAssign p (Rounding.native ty) x y) := by
  unfold subAssign
  simp only [infinitySign_zero c.noInf]
  split
  · exact natIv_empty c.bits c.max1
  · simp
    exact ⟨natB_bSub c.bits c.special _ _ _ hx.1 hy.2, natB_bSub c.bits c.special _ _ _ hx.2 hy.1⟩

theorem mulAssign_native (c : NatCfg ty p) {x y : Iv} (hx : NatIv ty x) (hy : NatIv ty y) :
    NatIv ty (mulAssign false p (Rounding.native ty) x y) := by
  have hb := c.bits; have hp := c.special
  unfold mulAssign
  simp only [infinitySign_zero c.noInf]
  split
  · exact natIv_empty c.bits c.max1
  · simp only [bne_self_eq_false, Bool.false_eq_true, if_false]
    unfold mulTable mulStraddle replaceCandidate
    simp only [Bool.false_eq_true, if_false]
    split_ifs <;>
      exact ⟨by first | exact natB_bMulZ hb hp _ _ _ hx.1 hy.1 _ _ | exact natB_bMulZ hb hp _ _ _ hx.1 hy.2 _ _
                      | exact natB_bMulZ hb hp _ _ _ hx.2 hy.1 _ _ | exact natB_bMulZ hb hp _ _ _ hx.2 hy.2 _ _
                      | exact natB_bMul hb hp _ _ _ hx.1 hy.1 | exact natB_bMul hb hp _ _ _ hx.1 hy.2
                      | exact natB_bMul hb hp _ _ _ hx.2 hy.1 | exact natB_bMul hb hp _ _ _ hx.2 hy.2,
             by first | exact natB_bMulZ hb hp _ _ _ hx.1 hy.1 _ _ | exact natB_bMulZ hb hp _ _ _ hx.1 hy.2 _ _
                      | exact natB_bMulZ hb hp _ _ _ hx.2 hy.1 _ _ | exact natB_bMulZ hb hp _ _ _ hx.2 hy.2 _ _
                      | exact natB_bMul hb hp _ _ _ hx.1 hy.1 | exact natB_bMul hb hp _ _ _ hx.1 hy.2
                      | exact natB_bMul hb hp _ _ _ hx.2 hy.1 | exact natB_bMul hb hp _ _ _ hx.2 hy.2⟩

theorem divAssign_native (c : NatCfg ty p) {x y : Iv} (hx : NatIv ty x) (hy : NatIv ty y) :
    NatIv ty (divAssign p (Rounding.native ty) x y) := by
  have hb := c.bits; have hp := c.special
  unfold divAssign
  simp only [infinitySign_zero c.noInf]
  split
  · exact natIv_empty c.bits c.max1
  · simp only [bne_self_eq_false, Bool.false_eq_true, if_false]
    split_ifs <;>
      first
      | exact natIv_empty c.bits c.max1
      | exact ⟨natB_setUnbounded _, natB_setUnbounded _⟩
      | exact ⟨by first | exact natB_bDivZ hb hp _ _ _ hx.1 hy.1 _ _ | exact natB_bDivZ hb hp _ _ _ hx.1 hy.2 _ _
                        | exact natB_bDivZ hb hp _ _ _ hx.2 hy.1 _ _ | exact natB_bDivZ hb hp _ _ _ hx.2 hy.2 _ _,
               by first | exact natB_bDivZ hb hp _ _ _ hx.1 hy.1 _ _ | exact natB_bDivZ hb hp _ _ _ hx.1 hy.2 _ _
                        | exact natB_bDivZ hb hp _ _ _ hx.2 hy.1 _ _ | exact natB_bDivZ hb hp _ _ _ hx.2 hy.2 _ _⟩

theorem joinAssign_native (c : NatCfg ty p) {x y : Iv} (hx : NatIv ty x) (hy : NatIv ty y) :
    NatIv ty (joinAssign p (Rounding.native ty) x y) := by
  unfold joinAssign
  split
  · exact assign_native c hy
  · split
    · exact hx
    · exact ⟨natB_bMin1 c.bits c.special _ hx.1 hy.1, natB_bMax1 c.bits c.special _ hx.2 hy.2⟩

theorem intersectAssign_native (c : NatCfg ty p) {x y : Iv} (hx : NatIv ty x) (hy : NatIv ty y) :
    NatIv ty (intersectAssign p (Rounding.native ty) x y) :=
  ⟨natB_bMax1 c.bits c.special _ hx.1 hy.1, natB_bMin1 c.bits c.special _ hx.2 hy.2⟩

end PPLV.Interval.Native

namespace PPLV.Interval.Native
open PPLV.Interval PPLV.Interval.ExtRat PPLV.Checked

/-- a native bound of the model is the image of the native boundary `NB.ofBound b` -/
theorem ofBound_toBound {ty : IntTy} {t : BT} {b : Bound} (h : NatB ty t b) :
    (NB.ofBound b).toBound t = b ∧ (NB.ofBound b).WF ty := by
  obtain ⟨hmin, hmax⟩ : ty.cmin ≤ 0 ∧ 0 ≤ ty.cmax := by
    have := ty.half_pos
    unfold IntTy.cmin IntTy.cmax
    split <;> omega
  rcases b with ⟨v, o⟩
  rcases h with h | ⟨z, hz, h1, h2⟩
  · simp only at h; subst h
    cases t <;> simp [NB.ofBound, NB.toBound, infOf, NB.WF, hmin, hmax]
  · simp only at hz; subst hz
    simp [NB.ofBound, NB.toBound, NB.WF, h1, h2]

end PPLV.Interval.Native
