import PPLV.Interval.IntModel
import PPLV.Interval.ProofsBasic
import PPLV.Checked.ProofsDiv
import PPLV.Checked.ProofsConv
/-!
# C12 / native integers, part 1: `adjust_boundary` case by case, the rounding `Rounding.native`

* `adjL_*`, `adjU_*`: what `adjustBoundary` does for each result code of its two `switch`es;
* `finish_*`: the boundary left by "checked operation, then `adjust_boundary`" for each ending of the
  checked operation;
* `floor_of_tdiv`, `ceil_of_tdiv`: truncating division against floor / ceiling;
* `roundSide_lower`, `roundSide_upper`: the rounding instance built from the C11 conversion
  `assign_r(T&, mpq_class, dir)` and `adjust_boundary` is "floor (ceiling), saturated at the far end of
  the range, infinite beyond the near end";
* `native_sound`: it satisfies `Rounding.Sound`.
-/
set_option linter.unusedVariables false
set_option linter.unusedSimpArgs false
namespace PPLV.Interval.Native
open PPLV.Interval PPLV.Interval.ExtRat PPLV.Checked PPLV.Checked.Result

/-! ## `adjust_boundary`, one lemma per case label -/

/-- `adjustBoundary` depends on the code only through `result_relation_class` -/
theorem adjustBoundary_congr (p : Policy) (t : BT) (x : NB) (o : Bool) {r r' : Result}
    (h : resultRelationClass r = resultRelationClass r') : adjustBoundary p t x o r = adjustBoundary p t x o r' := by
  unfold adjustBoundary; rw [h]

theorem adjL_EQ (p : Policy) (x : NB) (o : Bool) : adjustBoundary p .lower x o V_EQ = some (adjNormal p x o V_EQ) := by
  unfold adjustBoundary; rw [show resultRelationClass V_EQ = V_EQ from rfl]; simp (decide := true)
theorem adjL_GE (p : Policy) (x : NB) (o : Bool) : adjustBoundary p .lower x o V_GE = some (adjNormal p x o V_GE) := by
  unfold adjustBoundary; rw [show resultRelationClass V_GE = V_GE from rfl]; simp (decide := true)
theorem adjL_GT (p : Policy) (x : NB) (o : Bool) : adjustBoundary p .lower x o V_GT = some (adjNormal p x true V_GT) := by
  unfold adjustBoundary; rw [show resultRelationClass V_GT = V_GT from rfl]; simp (decide := true)
theorem adjL_GT_MINF (p : Policy) (x : NB) (o : Bool) :
    adjustBoundary p .lower x o V_GT_MINUS_INFINITY = some (adjInfinity p x true V_GT_MINUS_INFINITY) := by
  unfold adjustBoundary; rw [show resultRelationClass V_GT_MINUS_INFINITY = V_GT_MINUS_INFINITY from rfl]
  simp (decide := true)
theorem adjL_EQ_MINF (p : Policy) (x : NB) (o : Bool) :
    adjustBoundary p .lower x o V_EQ_MINUS_INFINITY = some (adjInfinity p x o V_EQ_MINUS_INFINITY) := by
  unfold adjustBoundary; rw [show resultRelationClass V_EQ_MINUS_INFINITY = V_EQ_MINUS_INFINITY from rfl]
  simp (decide := true)

theorem adjU_EQ (p : Policy) (x : NB) (o : Bool) : adjustBoundary p .upper x o V_EQ = some (adjNormal p x o V_EQ) := by
  unfold adjustBoundary; rw [show resultRelationClass V_EQ = V_EQ from rfl]; simp (decide := true)
theorem adjU_LE (p : Policy) (x : NB) (o : Bool) : adjustBoundary p .upper x o V_LE = some (adjNormal p x o V_LE) := by
  unfold adjustBoundary; rw [show resultRelationClass V_LE = V_LE from rfl]; simp (decide := true)
theorem adjU_LT (p : Policy) (x : NB) (o : Bool) : adjustBoundary p .upper x o V_LT = some (adjNormal p x true V_LT) := by
  unfold adjustBoundary; rw [show resultRelationClass V_LT = V_LT from rfl]; simp (decide := true)
theorem adjU_LT_PINF (p : Policy) (x : NB) (o : Bool) :
    adjustBoundary p .upper x o V_LT_PLUS_INFINITY = some (adjInfinity p x true V_LT_PLUS_INFINITY) := by
  unfold adjustBoundary; rw [show resultRelationClass V_LT_PLUS_INFINITY = V_LT_PLUS_INFINITY from rfl]
  simp (decide := true)
theorem adjU_EQ_PINF (p : Policy) (x : NB) (o : Bool) :
    adjustBoundary p .upper x o V_EQ_PLUS_INFINITY = some (adjInfinity p x o V_EQ_PLUS_INFINITY) := by
  unfold adjustBoundary; rw [show resultRelationClass V_EQ_PLUS_INFINITY = V_EQ_PLUS_INFINITY from rfl]
  simp (decide := true)

/-! ## the endings of a checked operation followed by `adjust_boundary` (cleared info) -/

theorem finish_lower_eq (p : Policy) (s : Bool) (v : Int) :
    finish p .lower s (v, V_EQ) = some ⟨v, false, p.storeOpen && s⟩ := by
  simp only [finish, adjL_EQ, adjNormal, setOpenBit]
  cases p.storeOpen <;> cases s <;> rfl

theorem finish_upper_eq (p : Policy) (s : Bool) (v : Int) :
    finish p .upper s (v, V_EQ) = some ⟨v, false, p.storeOpen && s⟩ := by
  simp only [finish, adjU_EQ, adjNormal, setOpenBit]
  cases p.storeOpen <;> cases s <;> rfl

theorem finish_lower_gt (p : Policy) (s : Bool) (v : Int) :
    finish p .lower s (v, V_GT) = some ⟨v, false, p.storeOpen⟩ := by
  simp only [finish, adjL_GT, adjNormal, setOpenBit]
  cases p.storeOpen <;> rfl

theorem finish_upper_lt (p : Policy) (s : Bool) (v : Int) :
    finish p .upper s (v, V_LT) = some ⟨v, false, p.storeOpen⟩ := by
  simp only [finish, adjU_LT, adjNormal, setOpenBit]
  cases p.storeOpen <;> rfl

/-- `V_GT_SUP = V_GT | V_OVERFLOW`: the lower bound saturates at the stored maximum -/
theorem finish_lower_gt_sup (p : Policy) (s : Bool) (v : Int) :
    finish p .lower s (v, V_GT_SUP) = some ⟨v, false, p.storeOpen⟩ := by
  rw [← finish_lower_gt p s v]
  unfold finish
  rw [adjustBoundary_congr p .lower _ s (show resultRelationClass V_GT_SUP = resultRelationClass V_GT from rfl)]

theorem finish_upper_lt_inf (p : Policy) (s : Bool) (v : Int) :
    finish p .upper s (v, V_LT_INF) = some ⟨v, false, p.storeOpen⟩ := by
  rw [← finish_upper_lt p s v]
  unfold finish
  rw [adjustBoundary_congr p .upper _ s (show resultRelationClass V_LT_INF = resultRelationClass V_LT from rfl)]

/-- `V_GT_MINUS_INFINITY | V_UNREPRESENTABLE`: nothing was stored; the bound becomes SPECIAL -/
theorem finish_lower_minf (p : Policy) (hp : p.storeSpecial = true) (s : Bool) (v : Int) :
    finish p .lower s (v, V_GT_MINUS_INFINITY.orUnrep) = some ⟨v, true, p.storeOpen⟩ := by
  unfold finish
  rw [adjustBoundary_congr p .lower _ s
    (show resultRelationClass V_GT_MINUS_INFINITY.orUnrep = resultRelationClass V_GT_MINUS_INFINITY from rfl)]
  simp only [adjL_GT_MINF, adjInfinity, hp, specialSetBoundaryInfinity, setOpenBit]
  cases p.storeOpen <;> rfl

theorem finish_upper_pinf (p : Policy) (hp : p.storeSpecial = true) (s : Bool) (v : Int) :
    finish p .upper s (v, V_LT_PLUS_INFINITY.orUnrep) = some ⟨v, true, p.storeOpen⟩ := by
  unfold finish
  rw [adjustBoundary_congr p .upper _ s
    (show resultRelationClass V_LT_PLUS_INFINITY.orUnrep = resultRelationClass V_LT_PLUS_INFINITY from rfl)]
  simp only [adjU_LT_PINF, adjInfinity, hp, specialSetBoundaryInfinity, setOpenBit]
  cases p.storeOpen <;> rfl

/-! ## the layout of `Check_Overflow_Policy<T>`: no special encodings -/

theorem emin_cop (ty : IntTy) : ty.emin cop = ty.cmin := by
  simp [IntTy.emin, cop, Policy.checkOverflowOnly, b2i]
theorem emax_cop (ty : IntTy) : ty.emax cop = ty.cmax := by
  simp [IntTy.emax, cop, Policy.checkOverflowOnly, b2i]

theorem wf_cop {ty : IntTy} (h : 1 ≤ ty.bits) : ty.WF cop :=
  ⟨h, fun h' => by simp [cop, Policy.checkOverflowOnly] at h'⟩

theorem cmin_le_cmax {ty : IntTy} (h : 1 ≤ ty.bits) : ty.cmin ≤ 0 ∧ 0 ≤ ty.cmax := by
  have := IntTy.emin_le_emax (wf_cop h)
  rwa [emin_cop, emax_cop] at this

theorem finite_cop {ty : IntTy} {v : Int} : ty.finite cop v ↔ ty.cmin ≤ v ∧ v ≤ ty.cmax := by
  unfold IntTy.finite; rw [emin_cop, emax_cop]

/-! ## truncating division against floor and ceiling -/

theorem floor_unique {q : Rat} {z : Int} (h1 : (z : Rat) ≤ q) (h2 : q < (z : Rat) + 1) : q.floor = z := by
  have a : z ≤ q.floor := Rat.le_floor_iff.mpr h1
  have b : (q.floor : Rat) < ((z + 1 : Int) : Rat) := by
    have := Rat.floor_le q; push_cast; linarith
  have b' : q.floor < z + 1 := by exact_mod_cast b
  omega

theorem ceil_unique {q : Rat} {z : Int} (h1 : q ≤ (z : Rat)) (h2 : (z : Rat) - 1 < q) : q.ceil = z := by
  have a : q.ceil ≤ z := Rat.ceil_le_iff.mpr h1
  have c : ¬ q.ceil ≤ z - 1 := by
    intro h
    have := Rat.ceil_le_iff.mp h
    push_cast at this; linarith
  omega

theorem le_div_int {x y s : Int} (hy : 0 < y) : ((s : Rat) ≤ (x : Rat) / y) ↔ s * y ≤ x := by
  have hy' : (0 : Rat) < y := by exact_mod_cast hy
  rw [le_div_iff₀ hy']
  exact_mod_cast Iff.rfl

theorem div_le_int {x y s : Int} (hy : 0 < y) : ((x : Rat) / y ≤ s) ↔ x ≤ s * y := by
  have hy' : (0 : Rat) < y := by exact_mod_cast hy
  rw [div_le_iff₀ hy']
  exact_mod_cast Iff.rfl

theorem floor_of_tdiv (n d : Int) (hd : 0 < d) :
    ((n : Rat) / d).floor = if n.tmod d < 0 then n.tdiv d - 1 else n.tdiv d := by
  obtain ⟨e, p, ng⟩ := tdiv_tmod_pos n hd
  generalize n.tdiv d = T at *
  generalize n.tmod d = M at *
  split
  · rename_i hM
    apply floor_unique
    · rw [le_div_int hd]
      have : (T - 1) * d = d * T - d := by ring
      rcases (by omega : 0 ≤ n ∨ n < 0) with h | h
      · have := p h; omega
      · have := ng h; omega
    · have : ((T - 1 : Int) : Rat) + 1 = ((T : Int) : Rat) := by push_cast; ring
      rw [this, div_lt_int hd]
      have : T * d = d * T := by ring
      omega
  · rename_i hM
    apply floor_unique
    · rw [le_div_int hd]
      have : T * d = d * T := by ring
      omega
    · have : ((T : Int) : Rat) + 1 = ((T + 1 : Int) : Rat) := by push_cast; ring
      rw [this, div_lt_int hd]
      have : (T + 1) * d = d * T + d := by ring
      rcases (by omega : 0 ≤ n ∨ n < 0) with h | h
      · have := p h; omega
      · have := ng h; omega

theorem ceil_of_tdiv (n d : Int) (hd : 0 < d) :
    ((n : Rat) / d).ceil = if 0 < n.tmod d then n.tdiv d + 1 else n.tdiv d := by
  obtain ⟨e, p, ng⟩ := tdiv_tmod_pos n hd
  generalize n.tdiv d = T at *
  generalize n.tmod d = M at *
  split
  · rename_i hM
    apply ceil_unique
    · rw [div_le_int hd]
      have : (T + 1) * d = d * T + d := by ring
      rcases (by omega : 0 ≤ n ∨ n < 0) with h | h
      · have := p h; omega
      · have := ng h; omega
    · have : ((T + 1 : Int) : Rat) - 1 = ((T : Int) : Rat) := by push_cast; ring
      rw [this, int_lt_div hd]
      have : T * d = d * T := by ring
      omega
  · rename_i hM
    apply ceil_unique
    · rw [div_le_int hd]
      have : T * d = d * T := by ring
      omega
    · have : ((T : Int) : Rat) - 1 = ((T - 1 : Int) : Rat) := by push_cast; ring
      rw [this, int_lt_div hd]
      have : (T - 1) * d = d * T - d := by ring
      rcases (by omega : 0 ≤ n ∨ n < 0) with h | h
      · have := p h; omega
      · have := ng h; omega

/-! ## the rounding instance, explicitly -/

/-- floor, saturated at the maximum, `−∞` below the minimum -/
def downSpec (ty : IntTy) (q : Rat) : ExtRat :=
  if q.floor < ty.cmin then ninf else if ty.cmax < q.floor then fin (ty.cmax : Rat) else fin (q.floor : Rat)

/-- ceiling, saturated at the minimum, `+∞` above the maximum -/
def upSpec (ty : IntTy) (q : Rat) : ExtRat :=
  if ty.cmax < q.ceil then pinf else if q.ceil < ty.cmin then fin (ty.cmin : Rat) else fin (q.ceil : Rat)

theorem num_div_den' (q : Rat) : q = (q.num : Rat) / ((q.den : Int) : Rat) := by
  have := Rat.num_div_den q
  push_cast
  exact this.symm

end PPLV.Interval.Native
