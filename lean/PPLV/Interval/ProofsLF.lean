import PPLV.Interval.ProofsMul
/-!
# C12 — linear forms with interval coefficients: `+`, `−`, scalar `×` enclose coefficientwise,
hence on every store
-/
set_option linter.unnecessarySeqFocus false
set_option linter.unusedSimpArgs false
set_option linter.unusedVariables false
namespace PPLV.Interval
open ExtRat (ninf fin pinf)

/-- the concrete coefficient vector `c` is an instance of the interval linear form `F` -/
def lfMem (p : Policy) (F : List Iv) (c : List Rat) : Prop := List.Forall₂ (fun I a => I.mem p a) F c

theorem lfAdd_encloses {p : Policy} {R : Rounding} (hR : R.Sound) :
    ∀ {F G : List Iv} {c d : List Rat}, lfMem p F c → lfMem p G d → lfMem p (lfAdd p R F G) (vecAdd c d)
  | [], G, _, d, hF, hG => by cases hF; simpa [lfAdd, vecAdd] using hG
  | x :: F, [], _, _, hF, hG => by cases hG; cases hF; simp only [lfAdd, vecAdd]; constructor <;> assumption
  | x :: F, y :: G, _, _, hF, hG => by
    cases hF with
    | cons h1 t1 =>
      cases hG with
      | cons h2 t2 =>
        simp only [lfAdd, vecAdd]
        exact List.Forall₂.cons (addAssign_encloses hR h1 h2) (lfAdd_encloses hR t1 t2)

theorem lfNeg_encloses {p : Policy} {R : Rounding} (hR : R.Sound) :
    ∀ {G : List Iv} {d : List Rat}, lfMem p G d → lfMem p (G.map (negAssign p R)) (d.map (fun b => -b))
  | [], _, h => by cases h; exact List.Forall₂.nil
  | y :: G, _, h => by
    cases h with
    | cons h1 t1 => exact List.Forall₂.cons (negAssign_encloses hR h1) (lfNeg_encloses hR t1)

theorem lfSub_encloses {p : Policy} {R : Rounding} (hR : R.Sound) :
    ∀ {F G : List Iv} {c d : List Rat}, lfMem p F c → lfMem p G d → lfMem p (lfSub p R F G) (vecSub c d)
  | [], G, _, d, hF, hG => by cases hF; simpa [lfSub, vecSub] using lfNeg_encloses hR hG
  | x :: F, [], _, _, hF, hG => by cases hG; cases hF; simp only [lfSub, vecSub]; constructor <;> assumption
  | x :: F, y :: G, _, _, hF, hG => by
    cases hF with
    | cons h1 t1 =>
      cases hG with
      | cons h2 t2 =>
        simp only [lfSub, vecSub]
        exact List.Forall₂.cons (subAssign_encloses hR h1 h2) (lfSub_encloses hR t1 t2)

theorem lfScale_encloses {p : Policy} {R : Rounding} (hR : R.Sound) {N : Iv} {n : Rat} (hn : N.mem p n) :
    ∀ {F : List Iv} {c : List Rat}, lfMem p F c → lfMem p (lfScale false p R N F) (c.map (fun a => a * n))
  | [], _, h => by cases h; exact List.Forall₂.nil
  | x :: F, _, h => by
    cases h with
    | cons h1 t1 => exact List.Forall₂.cons (mulAssign_encloses hR h1 hn) (lfScale_encloses hR hn t1)

/-! evaluation is linear in the coefficient vector -/

theorem dotR_add : ∀ (c d rho : List Rat), c.length = d.length →
    vecEval.dotR (vecAdd c d) rho = vecEval.dotR c rho + vecEval.dotR d rho
  | [], [], rho, _ => by simp [vecAdd, vecEval.dotR]
  | a :: c, b :: d, [], _ => by simp [vecAdd, vecEval.dotR]
  | a :: c, b :: d, r :: rs, h => by
    simp only [vecAdd, vecEval.dotR]
    rw [dotR_add c d rs (by simpa using h)]
    ring

/-- forms of equal length: the value of the sum is the sum of the values, on every store -/
theorem vecEval_add (c d rho : List Rat) (h : c.length = d.length) :
    vecEval (vecAdd c d) rho = vecEval c rho + vecEval d rho := by
  cases c with
  | nil => cases d with
    | nil => simp [vecAdd, vecEval]
    | cons b d => simp at h
  | cons a c => cases d with
    | nil => simp at h
    | cons b d =>
      simp only [vecAdd, vecEval]
      rw [dotR_add c d rho (by simpa using h)]
      ring

end PPLV.Interval
