import PPLV.Interval.ProofsArith
/-!
# C12 — enclosure for `Interval::mul_assign`: every entry of the nine-case sign table
-/
set_option linter.unnecessarySeqFocus false
set_option linter.unusedSimpArgs false
set_option linter.unusedVariables false
namespace PPLV.Interval
open ExtRat (ninf fin pinf)

theorem sgnB_lower_of_mem {p : Policy} {x : Iv} {a : Rat} (h : x.mem p a) :
    sgnB p .lower x.lo = x.lo.value.sgn := sgnB_eq p .lower x.lo (a := a) h.1
theorem sgnB_upper_of_mem {p : Policy} {x : Iv} {a : Rat} (h : x.mem p a) :
    sgnB p .upper x.hi = x.hi.value.sgn := sgnB_eq p .upper x.hi (a := a) h.2

/-- the shortcut `xus = (xls > 0) ? 1 : sgn_b(UPPER, …)` is the sign of the upper bound -/
theorem xus_of_mem {p : Policy} {x : Iv} {a : Rat} (h : x.mem p a) :
    (if x.lo.value.sgn > 0 then 1 else x.hi.value.sgn) = x.hi.value.sgn := by
  obtain ⟨⟨v1, o1⟩, ⟨v2, o2⟩⟩ := x
  unfold Iv.mem lowerOk upperOk at h
  split_ifs with hs
  · cases v1 with
    | ninf => simp [ExtRat.sgn] at hs
    | pinf => simp at h
    | fin l =>
      have hl : 0 < l := ratSgn_pos.mp hs
      cases v2 with
      | ninf => simp at h
      | pinf => rfl
      | fin u =>
        have h1 := lowerOkV_fin_le h.1
        have h2 := upperOkV_fin_le h.2
        have : 0 < u := by linarith
        simp only [ExtRat.sgn, ExtRat.ratSgn]
        have h3 : ¬ u < 0 := by linarith
        have h4 : ¬ u = 0 := by linarith
        simp [h3, h4]
  · rfl

/-! sign facts read off the tests of the table -/

theorem lo_nonneg {p : Policy} {lo : Bound} {a : Rat} (h : lowerOk p lo a) (hs : lo.value.sgn ≥ 0) :
    ∃ l, lo.value = fin l ∧ 0 ≤ l ∧ 0 ≤ a ∧ cmp (getOpen p lo) l a := by
  unfold lowerOk at h
  cases hv : lo.value with
  | ninf => simp [hv, ExtRat.sgn] at hs
  | pinf => simp [hv] at h
  | fin l =>
    rw [hv] at h hs
    have hl : 0 ≤ l := ratSgn_nonneg.mp hs
    exact ⟨l, rfl, hl, le_trans hl (lowerOkV_fin_le h), (lowerOkV_fin_iff _ _ _).mp h⟩

theorem hi_nonpos {p : Policy} {hi : Bound} {a : Rat} (h : upperOk p hi a) (hs : hi.value.sgn ≤ 0) :
    ∃ u, hi.value = fin u ∧ u ≤ 0 ∧ a ≤ 0 ∧ cmp (getOpen p hi) a u := by
  unfold upperOk at h
  cases hv : hi.value with
  | pinf => simp [hv, ExtRat.sgn] at hs
  | ninf => simp [hv] at h
  | fin u =>
    rw [hv] at h hs
    have hu : u ≤ 0 := ratSgn_nonpos.mp hs
    exact ⟨u, rfl, hu, le_trans (upperOkV_fin_le h) hu, (upperOkV_fin_iff _ _ _).mp h⟩

/-- a finite lower bound whose sign test failed is negative -/
theorem lo_neg_fin {lo : Bound} {l : Rat} (hs : ¬ lo.value.sgn ≥ 0) (hv : lo.value = fin l) : l < 0 := by
  rw [hv] at hs
  exact ratSgn_neg.mp (by simpa [ExtRat.sgn] using hs)

theorem hi_pos_fin {hi : Bound} {u : Rat} (hs : ¬ hi.value.sgn ≤ 0) (hv : hi.value = fin u) : 0 < u := by
  rw [hv] at hs
  exact ratSgn_pos.mp (by simpa [ExtRat.sgn] using hs)

theorem lo_cmp {p : Policy} {lo : Bound} {a l : Rat} (h : lowerOk p lo a) (hv : lo.value = fin l) :
    cmp (getOpen p lo) l a := by
  unfold lowerOk at h; rw [hv] at h; exact (lowerOkV_fin_iff _ _ _).mp h
theorem hi_cmp {p : Policy} {hi : Bound} {a u : Rat} (h : upperOk p hi a) (hv : hi.value = fin u) :
    cmp (getOpen p hi) a u := by
  unfold upperOk at h; rw [hv] at h; exact (upperOkV_fin_iff _ _ _).mp h

theorem fin_inj {a b : Rat} (h : (fin a : ExtRat) = fin b) : a = b := by cases h; rfl

/-- a zero bound that squeezes its member to zero admits the product `0` on either side -/
theorem squeeze {t tt : BT} {o : Bool} {a c : Rat} (h : sideOkV t (fin 0) o a) (ha : a = 0) (hc : c = 0) :
    sideOkV tt (fin 0) o c := by
  subst ha; subst hc
  cases t <;> cases tt <;> cases o <;> simp_all [sideOkV]

theorem isFin_false_ne {v : ExtRat} {q : Rat} (h : v.isFin = false) (hv : v = fin q) : False := by
  subst hv; simp [ExtRat.isFin] at h

/-- the result of `Boundary_NS::mul_assign` on two non-zero finite bounds or with an infinite one -/
theorem bMul_sound {p p1 p2 : Policy} {R : Rounding} (hR : R.Sound) {tt t1 t2 : BT} {x1 x2 : Bound} {a b : Rat}
    (h1 : sideOk p1 t1 x1 a) (h2 : sideOk p2 t2 x2 b)
    (hf : ∀ u v, x1.value = fin u → x2.value = fin v →
      sideOkV tt (fin (u * v)) (getOpen p1 x1 || getOpen p2 x2) (a * b)) :
    sideOk p tt (bMul p R tt p1 t1 x1 p2 t2 x2) (a * b) :=
  bArith_sound hR h1 h2 (fun u v hu hv => by simpa [ExtRat.mul] using hf u v hu hv)

theorem zopen_ne {u v : Rat} (hu : u ≠ 0) (hv : v ≠ 0) (o1 o2 : Bool) : zopen u o1 v o2 = (o1 || o2) := by
  simp [zopen, hu, hv]

/-! ### the entries of the table (first bound belongs to `x`, second to `y`) -/
section entries
variable {p : Policy} {R : Rounding} {a b : Rat}

theorem sgn_fin_zero_ge : (fin (0 : Rat)).sgn ≥ 0 := by simp [ExtRat.sgn, ExtRat.ratSgn]
theorem sgn_fin_zero_le : (fin (0 : Rat)).sgn ≤ 0 := by simp [ExtRat.sgn, ExtRat.ratSgn]

/-- `xl*yl` as lower bound, `xl ≥ 0`, `yl ≥ 0` -/
theorem entry_PP_L (hR : R.Sound) {xl yl : Bound} (h1 : lowerOk p xl a) (h2 : lowerOk p yl b)
    (hx : xl.value.sgn ≥ 0) (hy : yl.value.sgn ≥ 0) :
    lowerOk p (bMulZ p R .lower p .lower xl xl.value.sgn p .lower yl yl.value.sgn) (a * b) := by
  obtain ⟨l1, hl1, hl10, _, _⟩ := lo_nonneg h1 hx
  obtain ⟨l2, hl2, hl20, _, _⟩ := lo_nonneg h2 hy
  apply bMulZ_sound (tt := .lower) (t1 := .lower) (t2 := .lower) hR h1 h2
  · intro u v hu hv
    have e1 := fin_inj (hl1.symm.trans hu); have e2 := fin_inj (hl2.symm.trans hv); subst e1; subst e2
    exact (lowerOkV_fin_iff _ _ _).mpr (mulV1 hl10 hl20 (lo_cmp h1 hu) (lo_cmp h2 hv))
  · intro _ hinf; exact (isFin_false_ne hinf hl2).elim
  · intro _ hinf; exact (isFin_false_ne hinf hl1).elim

/-- `xu*yu` as upper bound, members non-negative -/
theorem entry_PP_U (hR : R.Sound) {xu yu : Bound} (h1 : upperOk p xu a) (h2 : upperOk p yu b)
    (ha0 : 0 ≤ a) (hb0 : 0 ≤ b) :
    upperOk p (bMulZ p R .upper p .upper xu xu.value.sgn p .upper yu yu.value.sgn) (a * b) := by
  apply bMulZ_sound (tt := .upper) (t1 := .upper) (t2 := .upper) hR h1 h2
  · intro u v hu hv
    exact (upperOkV_fin_iff _ _ _).mpr (mulV2 ha0 hb0 (hi_cmp h1 hu) (hi_cmp h2 hv))
  · intro hz _
    have hc := hi_cmp h1 hz
    have : a = 0 := le_antisymm (cmp_le hc) ha0
    exact squeeze (t := .upper) (by unfold upperOk at h1; rwa [hz] at h1) this (by rw [this]; ring)
  · intro hz _
    have hc := hi_cmp h2 hz
    have : b = 0 := le_antisymm (cmp_le hc) hb0
    exact squeeze (t := .upper) (by unfold upperOk at h2; rwa [hz] at h2) this (by rw [this]; ring)

/-- `xu*yl` as lower bound, `x` non-negative, `yl < 0` -/
theorem entry_PN_L (hR : R.Sound) {xu yl : Bound} (h1 : upperOk p xu a) (h2 : lowerOk p yl b)
    (ha0 : 0 ≤ a) (hy : ¬ yl.value.sgn ≥ 0) :
    lowerOk p (bMulZ p R .lower p .upper xu xu.value.sgn p .lower yl yl.value.sgn) (a * b) := by
  apply bMulZ_sound (tt := .lower) (t1 := .upper) (t2 := .lower) hR h1 h2
  · intro u v hu hv
    exact (lowerOkV_fin_iff _ _ _).mpr (mulV3 ha0 (hi_cmp h1 hu) (lo_cmp h2 hv) (lo_neg_fin hy hv))
  · intro hz _
    have hc := hi_cmp h1 hz
    have : a = 0 := le_antisymm (cmp_le hc) ha0
    exact squeeze (t := .upper) (by unfold upperOk at h1; rwa [hz] at h1) this (by rw [this]; ring)
  · intro hz _; rw [hz] at hy; exact (hy sgn_fin_zero_ge).elim

/-- `xl*yu` as upper bound, `xl ≥ 0`, `yu ≤ 0` -/
theorem entry_PN_U (hR : R.Sound) {xl yu : Bound} (h1 : lowerOk p xl a) (h2 : upperOk p yu b)
    (hx : xl.value.sgn ≥ 0) (hy : yu.value.sgn ≤ 0) :
    upperOk p (bMulZ p R .upper p .lower xl xl.value.sgn p .upper yu yu.value.sgn) (a * b) := by
  obtain ⟨l1, hl1, hl10, _, _⟩ := lo_nonneg h1 hx
  obtain ⟨u2, hu2, hu20, _, _⟩ := hi_nonpos h2 hy
  apply bMulZ_sound (tt := .upper) (t1 := .lower) (t2 := .upper) hR h1 h2
  · intro u v hu hv
    have e1 := fin_inj (hl1.symm.trans hu); have e2 := fin_inj (hu2.symm.trans hv); subst e1; subst e2
    exact (upperOkV_fin_iff _ _ _).mpr (mulV4 (lo_cmp h1 hu) hl10 (hi_cmp h2 hv) hu20)
  · intro _ hinf; exact (isFin_false_ne hinf hu2).elim
  · intro _ hinf; exact (isFin_false_ne hinf hl1).elim

/-- `xu*yu` as upper bound, `x` non-negative, `yu > 0` -/
theorem entry_PS_U (hR : R.Sound) {xu yu : Bound} (h1 : upperOk p xu a) (h2 : upperOk p yu b)
    (ha0 : 0 ≤ a) (hy : ¬ yu.value.sgn ≤ 0) :
    upperOk p (bMulZ p R .upper p .upper xu xu.value.sgn p .upper yu yu.value.sgn) (a * b) := by
  apply bMulZ_sound (tt := .upper) (t1 := .upper) (t2 := .upper) hR h1 h2
  · intro u v hu hv
    exact (upperOkV_fin_iff _ _ _).mpr (mulV5 ha0 (hi_cmp h1 hu) (hi_cmp h2 hv) (hi_pos_fin hy hv))
  · intro hz _
    have hc := hi_cmp h1 hz
    have : a = 0 := le_antisymm (cmp_le hc) ha0
    exact squeeze (t := .upper) (by unfold upperOk at h1; rwa [hz] at h1) this (by rw [this]; ring)
  · intro hz _; rw [hz] at hy; exact (hy sgn_fin_zero_le).elim

/-- `xl*yu` as lower bound, `xl < 0`, `y` non-negative -/
theorem entry_NP_L (hR : R.Sound) {xl yu : Bound} (h1 : lowerOk p xl a) (h2 : upperOk p yu b)
    (hx : ¬ xl.value.sgn ≥ 0) (hb0 : 0 ≤ b) :
    lowerOk p (bMulZ p R .lower p .lower xl xl.value.sgn p .upper yu yu.value.sgn) (a * b) := by
  apply bMulZ_sound (tt := .lower) (t1 := .lower) (t2 := .upper) hR h1 h2
  · intro u v hu hv
    exact (lowerOkV_fin_iff _ _ _).mpr (mulV6 (lo_cmp h1 hu) (lo_neg_fin hx hu) hb0 (hi_cmp h2 hv))
  · intro hz _; rw [hz] at hx; exact (hx sgn_fin_zero_ge).elim
  · intro hz _
    have hc := hi_cmp h2 hz
    have : b = 0 := le_antisymm (cmp_le hc) hb0
    exact squeeze (t := .upper) (by unfold upperOk at h2; rwa [hz] at h2) this (by rw [this]; ring)

/-- `xu*yl` as upper bound, `xu ≤ 0`, `yl ≥ 0` -/
theorem entry_NP_U (hR : R.Sound) {xu yl : Bound} (h1 : upperOk p xu a) (h2 : lowerOk p yl b)
    (hx : xu.value.sgn ≤ 0) (hy : yl.value.sgn ≥ 0) :
    upperOk p (bMulZ p R .upper p .upper xu xu.value.sgn p .lower yl yl.value.sgn) (a * b) := by
  obtain ⟨u1, hu1, hu10, _, _⟩ := hi_nonpos h1 hx
  obtain ⟨l2, hl2, hl20, _, _⟩ := lo_nonneg h2 hy
  apply bMulZ_sound (tt := .upper) (t1 := .upper) (t2 := .lower) hR h1 h2
  · intro u v hu hv
    have e1 := fin_inj (hu1.symm.trans hu); have e2 := fin_inj (hl2.symm.trans hv); subst e1; subst e2
    exact (upperOkV_fin_iff _ _ _).mpr (mulV7 (hi_cmp h1 hu) hu10 (lo_cmp h2 hv) hl20)
  · intro _ hinf; exact (isFin_false_ne hinf hl2).elim
  · intro _ hinf; exact (isFin_false_ne hinf hu1).elim

/-- `xu*yu` as lower bound, `xu ≤ 0`, `yu ≤ 0` -/
theorem entry_NN_L (hR : R.Sound) {xu yu : Bound} (h1 : upperOk p xu a) (h2 : upperOk p yu b)
    (hx : xu.value.sgn ≤ 0) (hy : yu.value.sgn ≤ 0) :
    lowerOk p (bMulZ p R .lower p .upper xu xu.value.sgn p .upper yu yu.value.sgn) (a * b) := by
  obtain ⟨u1, hu1, hu10, _, _⟩ := hi_nonpos h1 hx
  obtain ⟨u2, hu2, hu20, _, _⟩ := hi_nonpos h2 hy
  apply bMulZ_sound (tt := .lower) (t1 := .upper) (t2 := .upper) hR h1 h2
  · intro u v hu hv
    have e1 := fin_inj (hu1.symm.trans hu); have e2 := fin_inj (hu2.symm.trans hv); subst e1; subst e2
    exact (lowerOkV_fin_iff _ _ _).mpr (mulV8 (hi_cmp h1 hu) hu10 (hi_cmp h2 hv) hu20)
  · intro _ hinf; exact (isFin_false_ne hinf hu2).elim
  · intro _ hinf; exact (isFin_false_ne hinf hu1).elim

/-- `xl*yl` as upper bound, `x` non-positive, `yl < 0` -/
theorem entry_NN_U (hR : R.Sound) {xl yl : Bound} (h1 : lowerOk p xl a) (h2 : lowerOk p yl b)
    (hx : ¬ xl.value.sgn ≥ 0) (ha0 : a ≤ 0) (hy : ¬ yl.value.sgn ≥ 0) :
    upperOk p (bMulZ p R .upper p .lower xl xl.value.sgn p .lower yl yl.value.sgn) (a * b) := by
  apply bMulZ_sound (tt := .upper) (t1 := .lower) (t2 := .lower) hR h1 h2
  · intro u v hu hv
    exact (upperOkV_fin_iff _ _ _).mpr (mulV11 (lo_cmp h1 hu) ha0 (lo_cmp h2 hv) (lo_neg_fin hy hv))
  · intro hz _; rw [hz] at hx; exact (hx sgn_fin_zero_ge).elim
  · intro hz _; rw [hz] at hy; exact (hy sgn_fin_zero_ge).elim

/-- `xl*yu` as lower bound, `x` non-positive, `yu > 0` -/
theorem entry_NS_L (hR : R.Sound) {xl yu : Bound} (h1 : lowerOk p xl a) (h2 : upperOk p yu b)
    (hx : ¬ xl.value.sgn ≥ 0) (ha0 : a ≤ 0) (hy : ¬ yu.value.sgn ≤ 0) :
    lowerOk p (bMulZ p R .lower p .lower xl xl.value.sgn p .upper yu yu.value.sgn) (a * b) := by
  apply bMulZ_sound (tt := .lower) (t1 := .lower) (t2 := .upper) hR h1 h2
  · intro u v hu hv
    exact (lowerOkV_fin_iff _ _ _).mpr (mulV10 (lo_cmp h1 hu) ha0 (hi_cmp h2 hv) (hi_pos_fin hy hv))
  · intro hz _; rw [hz] at hx; exact (hx sgn_fin_zero_ge).elim
  · intro hz _; rw [hz] at hy; exact (hy sgn_fin_zero_le).elim

/-- `xu*yu` as upper bound, `xu > 0`, `y` non-negative -/
theorem entry_SP_U (hR : R.Sound) {xu yu : Bound} (h1 : upperOk p xu a) (h2 : upperOk p yu b)
    (hx : ¬ xu.value.sgn ≤ 0) (hb0 : 0 ≤ b) :
    upperOk p (bMulZ p R .upper p .upper xu xu.value.sgn p .upper yu yu.value.sgn) (a * b) := by
  apply bMulZ_sound (tt := .upper) (t1 := .upper) (t2 := .upper) hR h1 h2
  · intro u v hu hv
    exact (upperOkV_fin_iff _ _ _).mpr (mulV14 (hi_cmp h1 hu) (hi_pos_fin hx hu) hb0 (hi_cmp h2 hv))
  · intro hz _; rw [hz] at hx; exact (hx sgn_fin_zero_le).elim
  · intro hz _
    have hc := hi_cmp h2 hz
    have : b = 0 := le_antisymm (cmp_le hc) hb0
    exact squeeze (t := .upper) (by unfold upperOk at h2; rwa [hz] at h2) this (by rw [this]; ring)

/-- `xu*yl` as lower bound, `xu > 0`, `y` non-positive with `yl < 0` -/
theorem entry_SN_L (hR : R.Sound) {xu yl : Bound} (h1 : upperOk p xu a) (h2 : lowerOk p yl b)
    (hx : ¬ xu.value.sgn ≤ 0) (hy : ¬ yl.value.sgn ≥ 0) (hb0 : b ≤ 0) :
    lowerOk p (bMulZ p R .lower p .upper xu xu.value.sgn p .lower yl yl.value.sgn) (a * b) := by
  apply bMulZ_sound (tt := .lower) (t1 := .upper) (t2 := .lower) hR h1 h2
  · intro u v hu hv
    exact (lowerOkV_fin_iff _ _ _).mpr (mulV12 (hi_cmp h1 hu) (hi_pos_fin hx hu) (lo_cmp h2 hv) hb0)
  · intro hz _; rw [hz] at hx; exact (hx sgn_fin_zero_le).elim
  · intro hz _; rw [hz] at hy; exact (hy sgn_fin_zero_ge).elim

/-- `xl*yl` as upper bound, `xl < 0`, `y` non-positive with `yl < 0` -/
theorem entry_SN_U (hR : R.Sound) {xl yl : Bound} (h1 : lowerOk p xl a) (h2 : lowerOk p yl b)
    (hx : ¬ xl.value.sgn ≥ 0) (hy : ¬ yl.value.sgn ≥ 0) (hb0 : b ≤ 0) :
    upperOk p (bMulZ p R .upper p .lower xl xl.value.sgn p .lower yl yl.value.sgn) (a * b) := by
  apply bMulZ_sound (tt := .upper) (t1 := .lower) (t2 := .lower) hR h1 h2
  · intro u v hu hv
    exact (upperOkV_fin_iff _ _ _).mpr (mulV13 (lo_cmp h1 hu) (lo_neg_fin hx hu) (lo_cmp h2 hv) hb0)
  · intro hz _; rw [hz] at hx; exact (hx sgn_fin_zero_ge).elim
  · intro hz _; rw [hz] at hy; exact (hy sgn_fin_zero_ge).elim

/-! the four candidates of the straddle/straddle case (all four bounds non-zero) -/

theorem cand_L1 (hR : R.Sound) {xu yl : Bound} (h1 : upperOk p xu a) (h2 : lowerOk p yl b)
    (hx : ¬ xu.value.sgn ≤ 0) (hy : ¬ yl.value.sgn ≥ 0) (ha0 : 0 ≤ a) :
    lowerOk p (bMul p R .lower p .upper xu p .lower yl) (a * b) := by
  apply bMul_sound (tt := .lower) (t1 := .upper) (t2 := .lower) hR h1 h2
  intro u v hu hv
  have hu0 := hi_pos_fin hx hu; have hv0 := lo_neg_fin hy hv
  rw [← zopen_ne hu0.ne' hv0.ne]
  exact (lowerOkV_fin_iff _ _ _).mpr (mulV3 ha0 (hi_cmp h1 hu) (lo_cmp h2 hv) hv0)

theorem cand_L2 (hR : R.Sound) {xl yu : Bound} (h1 : lowerOk p xl a) (h2 : upperOk p yu b)
    (hx : ¬ xl.value.sgn ≥ 0) (hy : ¬ yu.value.sgn ≤ 0) (ha0 : a ≤ 0) :
    lowerOk p (bMul p R .lower p .lower xl p .upper yu) (a * b) := by
  apply bMul_sound (tt := .lower) (t1 := .lower) (t2 := .upper) hR h1 h2
  intro u v hu hv
  have hu0 := lo_neg_fin hx hu; have hv0 := hi_pos_fin hy hv
  rw [← zopen_ne hu0.ne hv0.ne']
  exact (lowerOkV_fin_iff _ _ _).mpr (mulV10 (lo_cmp h1 hu) ha0 (hi_cmp h2 hv) hv0)

theorem cand_U1 (hR : R.Sound) {xu yu : Bound} (h1 : upperOk p xu a) (h2 : upperOk p yu b)
    (hx : ¬ xu.value.sgn ≤ 0) (hy : ¬ yu.value.sgn ≤ 0) (ha0 : 0 ≤ a) :
    upperOk p (bMul p R .upper p .upper xu p .upper yu) (a * b) := by
  apply bMul_sound (tt := .upper) (t1 := .upper) (t2 := .upper) hR h1 h2
  intro u v hu hv
  have hu0 := hi_pos_fin hx hu; have hv0 := hi_pos_fin hy hv
  rw [← zopen_ne hu0.ne' hv0.ne']
  exact (upperOkV_fin_iff _ _ _).mpr (mulV5 ha0 (hi_cmp h1 hu) (hi_cmp h2 hv) hv0)

theorem cand_U2 (hR : R.Sound) {xl yl : Bound} (h1 : lowerOk p xl a) (h2 : lowerOk p yl b)
    (hx : ¬ xl.value.sgn ≥ 0) (hy : ¬ yl.value.sgn ≥ 0) (ha0 : a ≤ 0) :
    upperOk p (bMul p R .upper p .lower xl p .lower yl) (a * b) := by
  apply bMul_sound (tt := .upper) (t1 := .lower) (t2 := .lower) hR h1 h2
  intro u v hu hv
  have hu0 := lo_neg_fin hx hu; have hv0 := lo_neg_fin hy hv
  rw [← zopen_ne hu0.ne hv0.ne]
  exact (upperOkV_fin_iff _ _ _).mpr (mulV11 (lo_cmp h1 hu) ha0 (lo_cmp h2 hv) hv0)

end entries

/-- `mul_assign` with the candidate's bits copied (`d3 = false`): enclosure in all nine cases -/
theorem mulAssign_encloses {p : Policy} {R : Rounding} (hR : R.Sound) {x y : Iv} {a b : Rat}
    (ha : x.mem p a) (hb : y.mem p b) : (mulAssign false p R x y).mem p (a * b) := by
  unfold mulAssign mulTable mulStraddle
  simp only [checkEmptyArg_of_mem ha, checkEmptyArg_of_mem hb, infinitySign_of_mem ha, infinitySign_of_mem hb,
    sgnB_lower_of_mem ha, sgnB_upper_of_mem ha, sgnB_lower_of_mem hb, sgnB_upper_of_mem hb,
    xus_of_mem ha, xus_of_mem hb, Bool.or_self, Bool.false_eq_true, ↓reduceIte, bne_self_eq_false,
    replaceCandidate]
  split_ifs with hxl hyl hyu hxu hyl' hyu' hyl'' hyu'' hg hl hl'
  · -- x ≥ 0, y ≥ 0
    obtain ⟨_, _, _, ha0, _⟩ := lo_nonneg ha.1 hxl
    obtain ⟨_, _, _, hb0, _⟩ := lo_nonneg hb.1 hyl
    exact ⟨entry_PP_L hR ha.1 hb.1 hxl hyl, entry_PP_U hR ha.2 hb.2 ha0 hb0⟩
  · -- x ≥ 0, y ≤ 0
    obtain ⟨_, _, _, ha0, _⟩ := lo_nonneg ha.1 hxl
    exact ⟨entry_PN_L hR ha.2 hb.1 ha0 hyl, entry_PN_U hR ha.1 hb.2 hxl hyu⟩
  · -- x ≥ 0, y straddles
    obtain ⟨_, _, _, ha0, _⟩ := lo_nonneg ha.1 hxl
    exact ⟨entry_PN_L hR ha.2 hb.1 ha0 hyl, entry_PS_U hR ha.2 hb.2 ha0 hyu⟩
  · -- x ≤ 0, y ≥ 0
    obtain ⟨_, _, _, hb0, _⟩ := lo_nonneg hb.1 hyl'
    exact ⟨entry_NP_L hR ha.1 hb.2 hxl hb0, entry_NP_U hR ha.2 hb.1 hxu hyl'⟩
  · -- x ≤ 0, y ≤ 0
    obtain ⟨_, _, _, ha0, _⟩ := hi_nonpos ha.2 hxu
    exact ⟨entry_NN_L hR ha.2 hb.2 hxu hyu', entry_NN_U hR ha.1 hb.1 hxl ha0 hyl'⟩
  · -- x ≤ 0, y straddles
    obtain ⟨_, _, _, ha0, _⟩ := hi_nonpos ha.2 hxu
    exact ⟨entry_NS_L hR ha.1 hb.2 hxl ha0 hyu', entry_NN_U hR ha.1 hb.1 hxl ha0 hyl'⟩
  · -- x straddles, y ≥ 0
    obtain ⟨_, _, _, hb0, _⟩ := lo_nonneg hb.1 hyl''
    exact ⟨entry_NP_L hR ha.1 hb.2 hxl hb0, entry_SP_U hR ha.2 hb.2 hxu hb0⟩
  · -- x straddles, y ≤ 0
    obtain ⟨_, _, _, hb0, _⟩ := hi_nonpos hb.2 hyu''
    exact ⟨entry_SN_L hR ha.2 hb.1 hxu hyl'' hb0, entry_SN_U hR ha.1 hb.1 hxl hyl'' hb0⟩
  all_goals
    -- both straddle: the weaker of the two candidates on each side
    have L1 := fun h => cand_L1 hR ha.2 hb.1 hxu hyl'' (a := a) (b := b) h
    have L2 := fun h => cand_L2 hR ha.1 hb.2 hxl hyu'' (a := a) (b := b) h
    have U1 := fun h => cand_U1 hR ha.2 hb.2 hxu hyu'' (a := a) (b := b) h
    have U2 := fun h => cand_U2 hR ha.1 hb.1 hxl hyl'' (a := a) (b := b) h
    skip
  · exact ⟨(le_total 0 a).elim L1 (fun h0 => lt_lower_lower_true hg (L2 h0)),
           (le_total 0 a).elim U1 (fun h0 => lt_upper_upper_true hl (U2 h0))⟩
  · exact ⟨(le_total 0 a).elim L1 (fun h0 => lt_lower_lower_true hg (L2 h0)),
           (le_total 0 a).elim (fun h0 => lt_upper_upper_false (by simpa using hl) (U1 h0)) U2⟩
  · exact ⟨(le_total 0 a).elim (fun h0 => lt_lower_lower_false (by simpa [gt] using hg) (L1 h0)) L2,
           (le_total 0 a).elim U1 (fun h0 => lt_upper_upper_true hl' (U2 h0))⟩
  · exact ⟨(le_total 0 a).elim (fun h0 => lt_lower_lower_false (by simpa [gt] using hg) (L1 h0)) L2,
           (le_total 0 a).elim (fun h0 => lt_upper_upper_false (by simpa using hl') (U1 h0)) U2⟩

/-! ### the code as written (`d3 = true`) -/

theorem replaceCandidate_eq {first second : Bound} (h : first.open = second.open) :
    replaceCandidate true first second = replaceCandidate false first second := by
  obtain ⟨v1, o1⟩ := first; obtain ⟨v2, o2⟩ := second
  simp only at h; subst h; rfl

theorem mulStraddle_eq {p : Policy} {R : Rounding} {x y : Iv} (h : straddleFlagsDiffer p R x y = false) :
    mulStraddle true p R x y = mulStraddle false p R x y := by
  unfold straddleFlagsDiffer at h
  simp only [Bool.or_eq_false_iff, Bool.and_eq_false_iff, bne_eq_false_iff_eq] at h
  unfold mulStraddle
  simp only []
  congr 1
  · split_ifs with hg
    · rcases h.1 with h' | h'
      · rw [hg] at h'; simp at h'
      · exact replaceCandidate_eq h'
    · rfl
  · split_ifs with hg
    · rcases h.2 with h' | h'
      · rw [hg] at h'; simp at h'
      · exact replaceCandidate_eq h'
    · rfl

theorem mulTable_congr {p : Policy} {R : Rounding} {x y : Iv} {xls xus yls yus : Int} {s s' : Iv}
    (h : ¬ xls ≥ 0 → ¬ xus ≤ 0 → ¬ yls ≥ 0 → ¬ yus ≤ 0 → s = s') :
    mulTable p R x y xls xus yls yus s = mulTable p R x y xls xus yls yus s' := by
  unfold mulTable
  split_ifs with h1 h2 h3 h4 h5 h6 h7 h8 <;> first | rfl | exact h h1 h4 h7 h8

/-- where defect 3 does not act, the code as written computes what the repaired code computes -/
theorem mulAssign_d3_eq {p : Policy} {R : Rounding} {x y : Iv} (h : d3Differs p R x y = false) :
    mulAssign true p R x y = mulAssign false p R x y := by
  unfold mulAssign
  unfold d3Differs at h
  simp only [] at h ⊢
  by_cases h1 : (checkEmptyArg p x || checkEmptyArg p y) = true
  · simp only [h1, ↓reduceIte]
  simp only [h1, Bool.false_eq_true, ↓reduceIte] at h ⊢
  by_cases h2 : (infinitySign p x != 0) = true
  · simp only [h2, ↓reduceIte]
  simp only [h2, Bool.false_eq_true, ↓reduceIte] at h ⊢
  by_cases h3 : (infinitySign p y != 0) = true
  · simp only [h3, ↓reduceIte]
  simp only [h3, Bool.false_eq_true, ↓reduceIte] at h ⊢
  apply mulTable_congr
  intro c1 c2 c3 c4
  apply mulStraddle_eq
  simpa only [c1, c2, c3, c4, ↓reduceIte] using h

theorem mulAssign_encloses_asWritten {p : Policy} {R : Rounding} (hR : R.Sound) {x y : Iv} {a b : Rat}
    (hd : d3Differs p R x y = false) (ha : x.mem p a) (hb : y.mem p b) :
    (mulAssign true p R x y).mem p (a * b) := by
  rw [mulAssign_d3_eq hd]; exact mulAssign_encloses hR ha hb

end PPLV.Interval
