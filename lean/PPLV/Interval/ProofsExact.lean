import PPLV.Interval.ProofsArith
/-!
# C12 — exactness of `neg_assign`, `add_assign`, `sub_assign` when the rounding is the identity:
the result *is* the image (a sum or difference of two intervals is an interval, so the least
interval containing the image is the image itself), openness of each bound included.
-/
set_option linter.unnecessarySeqFocus false
set_option linter.unusedSimpArgs false
set_option linter.unusedVariables false
namespace PPLV.Interval
open ExtRat (ninf fin pinf)

/-! a one-dimensional Helly lemma: two up-closed and two down-closed sets of rationals that meet
pairwise have a common point (up-closed sets are nested) -/

theorem upclosed_nested {L L' : Rat → Prop} (hL : ∀ a b, L a → a ≤ b → L b) (hL' : ∀ a b, L' a → a ≤ b → L' b) :
    (∀ a, L a → L' a) ∨ (∀ a, L' a → L a) := by
  by_cases h : ∀ a, L a → L' a
  · exact Or.inl h
  · right
    obtain ⟨l, hl'⟩ := not_forall.mp h
    obtain ⟨hl, hnl⟩ := Classical.not_imp.mp hl'
    intro a ha
    rcases le_total a l with h1 | h1
    · exact absurd (hL' a l ha h1) hnl
    · exact hL l a hl h1

theorem downclosed_nested {U U' : Rat → Prop} (hU : ∀ a b, U a → b ≤ a → U b) (hU' : ∀ a b, U' a → b ≤ a → U' b) :
    (∀ a, U a → U' a) ∨ (∀ a, U' a → U a) := by
  by_cases h : ∀ a, U a → U' a
  · exact Or.inl h
  · right
    obtain ⟨l, hl'⟩ := not_forall.mp h
    obtain ⟨hl, hnl⟩ := Classical.not_imp.mp hl'
    intro a ha
    rcases le_total l a with h1 | h1
    · exact absurd (hU' a l ha h1) hnl
    · exact hU l a hl h1

theorem helly1 {L L' U U' : Rat → Prop}
    (hL : ∀ a b, L a → a ≤ b → L b) (hL' : ∀ a b, L' a → a ≤ b → L' b)
    (hU : ∀ a b, U a → b ≤ a → U b) (hU' : ∀ a b, U' a → b ≤ a → U' b)
    (h11 : ∃ a, L a ∧ U a) (h12 : ∃ a, L a ∧ U' a) (h21 : ∃ a, L' a ∧ U a) (h22 : ∃ a, L' a ∧ U' a) :
    ∃ a, L a ∧ L' a ∧ U a ∧ U' a := by
  rcases upclosed_nested hL hL' with hl | hl <;> rcases downclosed_nested hU hU' with hu | hu
  · obtain ⟨a, h1, h2⟩ := h11; exact ⟨a, h1, hl a h1, h2, hu a h2⟩
  · obtain ⟨a, h1, h2⟩ := h12; exact ⟨a, h1, hl a h1, hu a h2, h2⟩
  · obtain ⟨a, h1, h2⟩ := h21; exact ⟨a, hl a h1, h1, h2, hu a h2⟩
  · obtain ⟨a, h1, h2⟩ := h22; exact ⟨a, hl a h1, h1, hu a h2, h2⟩

theorem lowerOk_up {p : Policy} {x : Bound} {a b : Rat} (h : lowerOk p x a) (hab : a ≤ b) : lowerOk p x b := by
  unfold lowerOk at *
  generalize x.value = v at *
  generalize getOpen p x = o at *
  cases v <;> cases o <;> simp_all <;> linarith
theorem upperOk_down {p : Policy} {x : Bound} {a b : Rat} (h : upperOk p x a) (hab : b ≤ a) : upperOk p x b := by
  unfold upperOk at *
  generalize x.value = v at *
  generalize getOpen p x = o at *
  cases v <;> cases o <;> simp_all <;> linarith

/-! ### negation -/

theorem bNeg_id_lower_iff {p : Policy} {x : Bound} {c : Rat} :
    lowerOk p (bNeg p Rounding.id .lower p .upper x) c ↔ upperOk p x (-c) := by
  obtain ⟨v, o⟩ := x
  obtain ⟨ss, so, mci, ci, mbe⟩ := p
  cases v <;> cases ss <;> cases so <;> cases mci <;> cases o <;>
    simp [bNeg, getSpecial, setBoundaryInfinity, adjust_id, normalIsOpen, normalIsBoundaryInfinity,
      specialIsOpen, lowerOk, upperOk, getOpen, infOf, ExtRat.neg] <;>
    constructor <;> intro h <;> linarith

theorem bNeg_id_upper_iff {p : Policy} {x : Bound} {c : Rat} :
    upperOk p (bNeg p Rounding.id .upper p .lower x) c ↔ lowerOk p x (-c) := by
  obtain ⟨v, o⟩ := x
  obtain ⟨ss, so, mci, ci, mbe⟩ := p
  cases v <;> cases ss <;> cases so <;> cases mci <;> cases o <;>
    simp [bNeg, getSpecial, setBoundaryInfinity, adjust_id, normalIsOpen, normalIsBoundaryInfinity,
      specialIsOpen, lowerOk, upperOk, getOpen, infOf, ExtRat.neg] <;>
    constructor <;> intro h <;> linarith

/-- `neg_assign` with exact rounding: `c ∈ −x ↔ −c ∈ x` -/
theorem negAssign_exact {p : Policy} {x : Iv} {c : Rat} :
    (negAssign p Rounding.id x).mem p c ↔ x.mem p (-c) := by
  unfold negAssign
  split_ifs with he
  · constructor
    · intro h; exact absurd h (not_mem_empty p c)
    · intro h; rw [checkEmptyArg_of_mem h] at he; simp at he
  · unfold Iv.mem
    rw [bNeg_id_lower_iff, bNeg_id_upper_iff]
    tauto

/-! ### sum -/

theorem bAdd_id_lower_split {p : Policy} {xl yl : Bound} {c : Rat}
    (h : lowerOk p (bAdd p Rounding.id .lower p .lower xl p .lower yl) c)
    (hx : xl.value ≠ pinf) (hy : yl.value ≠ pinf) :
    ∃ a, lowerOk p xl a ∧ lowerOk p yl (c - a) := by
  obtain ⟨v1, o1⟩ := xl
  obtain ⟨v2, o2⟩ := yl
  obtain ⟨ss, so, mci, ci, mbe⟩ := p
  cases v1 with
  | pinf => simp at hx
  | ninf =>
    cases v2 with
    | pinf => simp at hy
    | ninf => exact ⟨0, by simp [lowerOk]⟩
    | fin v => exact ⟨c - v - 1, by cases so <;> cases o2 <;> simp [lowerOk, getOpen] <;> linarith⟩
  | fin u =>
    cases v2 with
    | pinf => simp at hy
    | ninf => exact ⟨u + 1, by cases so <;> cases o1 <;> simp [lowerOk, getOpen] <;> linarith⟩
    | fin v =>
      refine ⟨u + (c - u - v) / 2, ?_⟩
      cases ss <;> cases so <;> cases mci <;> cases o1 <;> cases o2 <;>
        simp [bAdd, bArith, isBoundaryInfinity, getSpecial, normalIsBoundaryInfinity, adjust_id, normalIsOpen,
          lowerOk, getOpen, ExtRat.add] at h ⊢ <;>
        constructor <;> linarith

theorem bAdd_id_upper_split {p : Policy} {xu yu : Bound} {c : Rat}
    (h : upperOk p (bAdd p Rounding.id .upper p .upper xu p .upper yu) c)
    (hx : xu.value ≠ ninf) (hy : yu.value ≠ ninf) :
    ∃ a, upperOk p xu a ∧ upperOk p yu (c - a) := by
  obtain ⟨v1, o1⟩ := xu
  obtain ⟨v2, o2⟩ := yu
  obtain ⟨ss, so, mci, ci, mbe⟩ := p
  cases v1 with
  | ninf => simp at hx
  | pinf =>
    cases v2 with
    | ninf => simp at hy
    | pinf => exact ⟨0, by simp [upperOk]⟩
    | fin v => exact ⟨c - v + 1, by cases so <;> cases o2 <;> simp [upperOk, getOpen] <;> linarith⟩
  | fin u =>
    cases v2 with
    | ninf => simp at hy
    | pinf => exact ⟨u - 1, by cases so <;> cases o1 <;> simp [upperOk, getOpen] <;> linarith⟩
    | fin v =>
      refine ⟨u + (c - u - v) / 2, ?_⟩
      cases ss <;> cases so <;> cases mci <;> cases o1 <;> cases o2 <;>
        simp [bAdd, bArith, isBoundaryInfinity, getSpecial, normalIsBoundaryInfinity, adjust_id, normalIsOpen,
          upperOk, getOpen, ExtRat.add] at h ⊢ <;>
        constructor <;> linarith

theorem lo_ne_pinf_of_mem {p : Policy} {x : Iv} {a : Rat} (h : x.mem p a) : x.lo.value ≠ pinf := by
  intro hv; have := h.1; unfold lowerOk at this; rw [hv] at this; exact this
theorem hi_ne_ninf_of_mem {p : Policy} {x : Iv} {a : Rat} (h : x.mem p a) : x.hi.value ≠ ninf := by
  intro hv; have := h.2; unfold upperOk at this; rw [hv] at this; exact this

/-- `add_assign` with exact rounding is exactly the set of sums -/
theorem addAssign_exact {p : Policy} {x y : Iv} {c : Rat}
    (hx : ∃ a, x.mem p a) (hy : ∃ b, y.mem p b) :
    (addAssign p Rounding.id x y).mem p c ↔ ∃ a b, x.mem p a ∧ y.mem p b ∧ c = a + b := by
  constructor
  · intro h
    obtain ⟨a0, ha0⟩ := hx
    obtain ⟨b0, hb0⟩ := hy
    unfold addAssign at h
    rw [checkEmptyArg_of_mem ha0, checkEmptyArg_of_mem hb0, infinitySign_of_mem ha0, infinitySign_of_mem hb0] at h
    simp only [Bool.or_self, Bool.false_eq_true, ↓reduceIte, bne_self_eq_false, Bool.false_and,
      lt_self_iff_false, gt_iff_lt] at h
    obtain ⟨hl, hu⟩ := h
    have h12 := bAdd_id_lower_split hl (lo_ne_pinf_of_mem ha0) (lo_ne_pinf_of_mem hb0)
    have h21 := bAdd_id_upper_split hu (hi_ne_ninf_of_mem ha0) (hi_ne_ninf_of_mem hb0)
    obtain ⟨a, h1, h3, h2, h4⟩ := helly1
      (L := fun a => lowerOk p x.lo a) (L' := fun a => upperOk p y.hi (c - a))
      (U := fun a => upperOk p x.hi a) (U' := fun a => lowerOk p y.lo (c - a))
      (fun a b h hab => lowerOk_up h hab)
      (fun a b h hab => upperOk_down h (by linarith))
      (fun a b h hab => upperOk_down h hab)
      (fun a b h hab => lowerOk_up h (by linarith))
      ⟨a0, ha0.1, ha0.2⟩ h12
      (by obtain ⟨a, h1, h2⟩ := h21; exact ⟨a, h2, h1⟩)
      ⟨c - b0, by simpa using hb0.2, by simpa using hb0.1⟩
    exact ⟨a, c - a, ⟨h1, h2⟩, ⟨h4, h3⟩, by ring⟩
  · rintro ⟨a, b, ha, hb, rfl⟩
    exact addAssign_encloses Rounding.id_sound ha hb

/-! ### difference -/

theorem bSub_id_lower_split {p : Policy} {xl yu : Bound} {c : Rat}
    (h : lowerOk p (bSub p Rounding.id .lower p .lower xl p .upper yu) c)
    (hx : xl.value ≠ pinf) (hy : yu.value ≠ ninf) :
    ∃ a, lowerOk p xl a ∧ upperOk p yu (a - c) := by
  obtain ⟨v1, o1⟩ := xl
  obtain ⟨v2, o2⟩ := yu
  obtain ⟨ss, so, mci, ci, mbe⟩ := p
  cases v1 with
  | pinf => simp at hx
  | ninf =>
    cases v2 with
    | ninf => simp at hy
    | pinf => exact ⟨0, by simp [lowerOk, upperOk]⟩
    | fin v => exact ⟨c + v - 1, by cases so <;> cases o2 <;> simp [lowerOk, upperOk, getOpen] <;> linarith⟩
  | fin u =>
    cases v2 with
    | ninf => simp at hy
    | pinf => exact ⟨u + 1, by cases so <;> cases o1 <;> simp [lowerOk, upperOk, getOpen] <;> linarith⟩
    | fin v =>
      refine ⟨u + (c - (u - v)) / 2, ?_⟩
      cases ss <;> cases so <;> cases mci <;> cases o1 <;> cases o2 <;>
        simp [bSub, bArith, isBoundaryInfinity, getSpecial, normalIsBoundaryInfinity, adjust_id, normalIsOpen,
          lowerOk, upperOk, getOpen, ExtRat.sub] at h ⊢ <;>
        constructor <;> linarith

theorem bSub_id_upper_split {p : Policy} {xu yl : Bound} {c : Rat}
    (h : upperOk p (bSub p Rounding.id .upper p .upper xu p .lower yl) c)
    (hx : xu.value ≠ ninf) (hy : yl.value ≠ pinf) :
    ∃ a, upperOk p xu a ∧ lowerOk p yl (a - c) := by
  obtain ⟨v1, o1⟩ := xu
  obtain ⟨v2, o2⟩ := yl
  obtain ⟨ss, so, mci, ci, mbe⟩ := p
  cases v1 with
  | ninf => simp at hx
  | pinf =>
    cases v2 with
    | pinf => simp at hy
    | ninf => exact ⟨0, by simp [lowerOk, upperOk]⟩
    | fin v => exact ⟨c + v + 1, by cases so <;> cases o2 <;> simp [lowerOk, upperOk, getOpen] <;> linarith⟩
  | fin u =>
    cases v2 with
    | pinf => simp at hy
    | ninf => exact ⟨u - 1, by cases so <;> cases o1 <;> simp [lowerOk, upperOk, getOpen] <;> linarith⟩
    | fin v =>
      refine ⟨u + (c - (u - v)) / 2, ?_⟩
      cases ss <;> cases so <;> cases mci <;> cases o1 <;> cases o2 <;>
        simp [bSub, bArith, isBoundaryInfinity, getSpecial, normalIsBoundaryInfinity, adjust_id, normalIsOpen,
          lowerOk, upperOk, getOpen, ExtRat.sub] at h ⊢ <;>
        constructor <;> linarith

/-- `sub_assign` with exact rounding is exactly the set of differences -/
theorem subAssign_exact {p : Policy} {x y : Iv} {c : Rat}
    (hx : ∃ a, x.mem p a) (hy : ∃ b, y.mem p b) :
    (subAssign p Rounding.id x y).mem p c ↔ ∃ a b, x.mem p a ∧ y.mem p b ∧ c = a - b := by
  constructor
  · intro h
    obtain ⟨a0, ha0⟩ := hx
    obtain ⟨b0, hb0⟩ := hy
    unfold subAssign at h
    rw [checkEmptyArg_of_mem ha0, checkEmptyArg_of_mem hb0, infinitySign_of_mem ha0, infinitySign_of_mem hb0] at h
    simp only [Bool.or_self, Bool.false_eq_true, ↓reduceIte, bne_self_eq_false, Bool.false_and,
      lt_self_iff_false, gt_iff_lt, neg_zero] at h
    obtain ⟨hl, hu⟩ := h
    have h12 := bSub_id_lower_split hl (lo_ne_pinf_of_mem ha0) (hi_ne_ninf_of_mem hb0)
    have h21 := bSub_id_upper_split hu (hi_ne_ninf_of_mem ha0) (lo_ne_pinf_of_mem hb0)
    obtain ⟨a, h1, h3, h2, h4⟩ := helly1
      (L := fun a => lowerOk p x.lo a) (L' := fun a => lowerOk p y.lo (a - c))
      (U := fun a => upperOk p x.hi a) (U' := fun a => upperOk p y.hi (a - c))
      (fun a b h hab => lowerOk_up h hab)
      (fun a b h hab => lowerOk_up h (by linarith))
      (fun a b h hab => upperOk_down h hab)
      (fun a b h hab => upperOk_down h (by linarith))
      ⟨a0, ha0.1, ha0.2⟩ h12
      (by obtain ⟨a, h1, h2⟩ := h21; exact ⟨a, h2, h1⟩)
      ⟨b0 + c, by simpa using hb0.1, by simpa using hb0.2⟩
    exact ⟨a, a - c, ⟨h1, h2⟩, ⟨h3, h4⟩, by ring⟩
  · rintro ⟨a, b, ha, hb, rfl⟩
    exact subAssign_encloses Rounding.id_sound ha hb

end PPLV.Interval
