import PPLV.Interval.ProofsArith
/-!
# C12 — `assign`, `join_assign`, `intersect_assign`, `difference_assign`, `contains`,
`is_disjoint_from` read on sets of rationals
-/
set_option linter.unnecessarySeqFocus false
set_option linter.unusedSimpArgs false
set_option linter.unusedVariables false
namespace PPLV.Interval
open ExtRat (ninf fin pinf)

/-- `Boundary_NS::assign` to the same side only weakens -/
theorem bAssign_sound {p pf : Policy} {R : Rounding} (hR : R.Sound) {t : BT} {x : Bound} {a : Rat} {s : Bool}
    (h : sideOkV t x.value (s || getOpen pf x) a) : sideOk p t (bAssign p R t pf t x s) a := by
  unfold bAssign
  by_cases hs : getSpecial pf t x = true
  · simp only [hs, ↓reduceIte]; exact sideOk_setBoundaryInfinity p t _ _
  · simp only [hs, Bool.false_eq_true, ↓reduceIte]
    apply adjust_sound hR
    by_cases hi : normalIsBoundaryInfinity t x = true
    · have : x.value = infOf t := by
        unfold normalIsBoundaryInfinity at hi
        cases t <;> cases hv : x.value <;> simp_all [infOf]
      rw [this]; exact sideOkV_infOf _ _ _
    · rw [normalIsOpen_fin (by simpa using hi)]; exact h

theorem bAssign_sound' {p pf : Policy} {R : Rounding} (hR : R.Sound) {t : BT} {x : Bound} {a : Rat}
    (h : sideOk pf t x a) : sideOk p t (bAssign p R t pf t x) a :=
  bAssign_sound hR (by simpa [sideOk] using h)

/-- with exact rounding and the same policy, `assign` copies the bound (as a set constraint) -/
theorem bAssign_id_iff {p : Policy} {t : BT} {x : Bound} {a : Rat} :
    sideOk p t (bAssign p Rounding.id t p t x) a ↔ sideOk p t x a := by
  obtain ⟨v, o⟩ := x
  obtain ⟨ss, so, mci, ci, mbe⟩ := p
  cases t <;> cases v <;> cases ss <;> cases so <;> cases mci <;> cases o <;>
    simp [bAssign, getSpecial, setBoundaryInfinity, adjust_id, normalIsOpen, normalIsBoundaryInfinity,
      specialIsOpen, sideOk, sideOkV, getOpen, infOf]

theorem assign_encloses {p : Policy} {R : Rounding} (hR : R.Sound) {x : Iv} {a : Rat}
    (h : x.mem p a) : (assign p R p x).mem p a := by
  unfold assign
  rw [checkEmptyArg_of_mem h]
  exact ⟨bAssign_sound' (t := .lower) hR h.1, bAssign_sound' (t := .upper) hR h.2⟩

theorem not_mem_of_checkEmptyArg {p : Policy} {x : Iv} {a : Rat} (h : checkEmptyArg p x = true) : ¬ x.mem p a := by
  intro hm; rw [checkEmptyArg_of_mem hm] at h; simp at h

/-- `join_assign`: the result contains both operands -/
theorem joinAssign_encloses {p : Policy} {R : Rounding} (hR : R.Sound) {x y : Iv} {a : Rat}
    (h : x.mem p a ∨ y.mem p a) : (joinAssign p R x y).mem p a := by
  unfold joinAssign
  split_ifs with h1 h2
  · rcases h with h | h
    · exact absurd h (not_mem_of_checkEmptyArg h1)
    · exact assign_encloses hR h
  · rcases h with h | h
    · exact h
    · exact absurd h (not_mem_of_checkEmptyArg h2)
  · unfold bMin1 bMax1 gt
    refine ⟨?_, ?_⟩
    · show lowerOk p (if _ then _ else _) a
      split_ifs with hl
      · apply bAssign_sound' (t := .lower) hR
        rcases h with h | h
        · exact lt_lower_lower_true hl h.1
        · exact h.1
      · rcases h with h | h
        · exact h.1
        · exact lt_lower_lower_false (by simpa using hl) h.1
    · show upperOk p (if _ then _ else _) a
      split_ifs with hl
      · apply bAssign_sound' (t := .upper) hR
        rcases h with h | h
        · exact lt_upper_upper_true hl h.2
        · exact h.2
      · rcases h with h | h
        · exact h.2
        · exact lt_upper_upper_false (by simpa using hl) h.2

/-- `intersect_assign`: the result contains the intersection -/
theorem intersectAssign_encloses {p : Policy} {R : Rounding} (hR : R.Sound) {x y : Iv} {a : Rat}
    (hx : x.mem p a) (hy : y.mem p a) : (intersectAssign p R x y).mem p a := by
  unfold intersectAssign bMin1 bMax1
  refine ⟨?_, ?_⟩
  · show lowerOk p (if _ then _ else _) a
    split_ifs
    · exact bAssign_sound' (t := .lower) hR hy.1
    · exact hx.1
  · show upperOk p (if _ then _ else _) a
    split_ifs
    · exact bAssign_sound' (t := .upper) hR hy.2
    · exact hx.2

/-- with exact rounding `intersect_assign` is exactly the intersection -/
theorem intersectAssign_exact {p : Policy} {x y : Iv} {a : Rat} :
    (intersectAssign p Rounding.id x y).mem p a ↔ x.mem p a ∧ y.mem p a := by
  unfold intersectAssign bMin1 bMax1 gt Iv.mem
  have L : lowerOk p (if lt p .lower x.lo p .lower y.lo = true then bAssign p Rounding.id .lower p .lower y.lo else x.lo) a
      ↔ lowerOk p x.lo a ∧ lowerOk p y.lo a := by
    split_ifs with hl
    · rw [← sideOk_lower, bAssign_id_iff, sideOk_lower]
      exact ⟨fun h => ⟨lt_lower_lower_true hl h, h⟩, fun h => h.2⟩
    · exact ⟨fun h => ⟨h, lt_lower_lower_false (by simpa using hl) h⟩, fun h => h.1⟩
  have U : upperOk p (if lt p .upper y.hi p .upper x.hi = true then bAssign p Rounding.id .upper p .upper y.hi else x.hi) a
      ↔ upperOk p x.hi a ∧ upperOk p y.hi a := by
    split_ifs with hl
    · rw [← sideOk_upper, bAssign_id_iff, sideOk_upper]
      exact ⟨fun h => ⟨lt_upper_upper_true hl h, h⟩, fun h => h.2⟩
    · exact ⟨fun h => ⟨h, lt_upper_upper_false (by simpa using hl) h⟩, fun h => h.1⟩
  simp only [L, U]
  tauto

/-- with exact rounding the join adds nothing outside the hull: every member of the result lies
between members of the operands, or is a member -/
theorem joinAssign_exact_bounds {p : Policy} {x y : Iv} {a : Rat}
    (h : (joinAssign p Rounding.id x y).mem p a) :
    (lowerOk p x.lo a ∨ lowerOk p y.lo a) ∧ (upperOk p x.hi a ∨ upperOk p y.hi a) := by
  unfold joinAssign at h
  split_ifs at h with h1 h2
  · unfold assign at h
    split_ifs at h with h3
    · exact absurd h (not_mem_empty p a)
    · obtain ⟨hl, hu⟩ := h
      rw [← sideOk_lower, bAssign_id_iff] at hl
      rw [← sideOk_upper, bAssign_id_iff] at hu
      exact ⟨Or.inr hl, Or.inr hu⟩
  · exact ⟨Or.inl h.1, Or.inl h.2⟩
  · unfold bMin1 bMax1 gt at h
    obtain ⟨hl, hu⟩ := h
    refine ⟨?_, ?_⟩
    · change lowerOk p (if _ then _ else _) a at hl
      split_ifs at hl
      · rw [← sideOk_lower, bAssign_id_iff] at hl; exact Or.inr hl
      · exact Or.inl hl
    · change upperOk p (if _ then _ else _) a at hu
      split_ifs at hu
      · rw [← sideOk_upper, bAssign_id_iff] at hu; exact Or.inr hu
      · exact Or.inl hu

/-- complement of an upper bound, as a lower bound -/
theorem bComplement_lower_sound {p : Policy} {R : Rounding} (hR : R.Sound) {x : Bound} {a : Rat}
    (h : ¬ upperOk p x a) : lowerOk p (bComplement p R .lower p .upper x) a := by
  obtain ⟨v, o⟩ := x
  unfold bComplement
  cases v with
  | pinf => simp [upperOk] at h
  | ninf =>
    have : getSpecial p .upper ⟨ninf, o⟩ = false := by simp [getSpecial]
    simp only [this, Bool.false_eq_true, ↓reduceIte]
    exact adjust_lower_sound hR (by simp)
  | fin q =>
    have : getSpecial p .upper ⟨fin q, o⟩ = false := by simp [getSpecial]
    simp only [this, Bool.false_eq_true, ↓reduceIte]
    apply adjust_lower_sound hR
    rw [normalIsOpen_fin (by simp [normalIsBoundaryInfinity])]
    unfold upperOk at h
    revert h
    cases getOpen p ⟨fin q, o⟩ <;> simp <;> intro h <;> linarith

theorem bComplement_upper_sound {p : Policy} {R : Rounding} (hR : R.Sound) {x : Bound} {a : Rat}
    (h : ¬ lowerOk p x a) : upperOk p (bComplement p R .upper p .lower x) a := by
  obtain ⟨v, o⟩ := x
  unfold bComplement
  cases v with
  | ninf => simp [lowerOk] at h
  | pinf =>
    have : getSpecial p .lower ⟨pinf, o⟩ = false := by simp [getSpecial]
    simp only [this, Bool.false_eq_true, ↓reduceIte]
    exact adjust_upper_sound hR (by simp)
  | fin q =>
    have : getSpecial p .lower ⟨fin q, o⟩ = false := by simp [getSpecial]
    simp only [this, Bool.false_eq_true, ↓reduceIte]
    apply adjust_upper_sound hR
    rw [normalIsOpen_fin (by simp [normalIsBoundaryInfinity])]
    unfold lowerOk at h
    revert h
    cases getOpen p ⟨fin q, o⟩ <;> simp <;> intro h <;> linarith

/-- `difference_assign`: the result contains the set difference -/
theorem differenceAssign_encloses {p : Policy} {R : Rounding} (hR : R.Sound) {x y : Iv} {a : Rat}
    (hx : x.mem p a) (hy : ¬ y.mem p a) : (differenceAssign p R x y).mem p a := by
  unfold differenceAssign
  dsimp only
  split_ifs with h0 hnl hnu hnu'
  · exact hx
  · -- x ⊆ y: contradiction
    have h1 : lt p .lower x.lo p .lower y.lo = false := by simpa [ge] using hnl
    have h2 : lt p .upper y.hi p .upper x.hi = false := by simpa [le, gt] using hnu
    exact absurd ⟨lt_lower_lower_false h1 hx.1, lt_upper_upper_false h2 hx.2⟩ hy
  · have h1 : lt p .lower x.lo p .lower y.lo = false := by simpa [ge] using hnl
    have hyl : lowerOk p y.lo a := lt_lower_lower_false h1 hx.1
    have : ¬ upperOk p y.hi a := fun h => hy ⟨hyl, h⟩
    exact ⟨bComplement_lower_sound hR this, hx.2⟩
  · have h2 : lt p .upper y.hi p .upper x.hi = false := by simpa [le, gt] using hnu'
    have hyu : upperOk p y.hi a := lt_upper_upper_false h2 hx.2
    have : ¬ lowerOk p y.lo a := fun h => hy ⟨h, hyu⟩
    exact ⟨hx.1, bComplement_upper_sound hR this⟩
  · exact hx

/-- `contains`: a `true` answer is the set inclusion -/
theorem contains_sound {p : Policy} {x y : Iv} (h : contains p x y = true) {a : Rat} (hy : y.mem p a) : x.mem p a := by
  unfold contains at h
  rw [checkEmptyArg_of_mem hy] at h
  simp only [Bool.false_eq_true, ↓reduceIte] at h
  split_ifs at h with h1
  simp only [Bool.and_eq_true, le, ge, gt, Bool.not_eq_true'] at h
  exact ⟨lt_lower_lower_false h.1 hy.1, lt_upper_upper_false h.2 hy.2⟩

/-- `is_disjoint_from`: a `true` answer means no common member -/
theorem isDisjointFrom_sound {p : Policy} {x y : Iv} (h : isDisjointFrom p x y = true) {a : Rat} :
    ¬ (x.mem p a ∧ y.mem p a) := by
  rintro ⟨hx, hy⟩
  unfold isDisjointFrom at h
  rw [checkEmptyArg_of_mem hx, checkEmptyArg_of_mem hy] at h
  simp only [Bool.or_self, Bool.false_eq_true, ↓reduceIte, Bool.or_eq_true, gt] at h
  rcases h with h | h
  · exact lt_upper_lower_true h ⟨hx.1, hy.2⟩
  · exact lt_upper_lower_true h ⟨hy.1, hx.2⟩

end PPLV.Interval
