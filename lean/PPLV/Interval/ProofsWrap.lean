import PPLV.Interval.ProofsSet
import Mathlib.Data.Rat.Floor
import Mathlib.Algebra.Order.Floor.Ring
/-!
# C12 — `Interval::wrap_assign` with the width test repaired (`u ≥ lower`, `d12 = false`) and exact
rounding: every member's residue that lies in the refinement is in the result
-/
set_option linter.unnecessarySeqFocus false
set_option linter.unusedSimpArgs false
set_option linter.unusedVariables false
namespace PPLV.Interval
open ExtRat (ninf fin pinf)

/-- the period index `⌊x / 2^w⌋` -/
def kk (x : Rat) (w : Nat) : Int := ⌊x / (2 : Rat) ^ w⌋

theorem pow2w_pos (w : Nat) : (0 : Rat) < (2 : Rat) ^ w := by positivity

theorem umod_eq (x : Rat) (w : Nat) : umod2exp x w = x - (2 : Rat) ^ w * (kk x w : Rat) := by
  unfold umod2exp kk; rfl

theorem kk_le (x : Rat) (w : Nat) : (2 : Rat) ^ w * (kk x w : Rat) ≤ x := by
  have h := Int.floor_le (x / (2 : Rat) ^ w)
  have hm := pow2w_pos w
  unfold kk
  calc (2 : Rat) ^ w * (⌊x / (2 : Rat) ^ w⌋ : Rat) ≤ (2 : Rat) ^ w * (x / (2 : Rat) ^ w) :=
        mul_le_mul_of_nonneg_left h hm.le
    _ = x := mul_div_cancel₀ x hm.ne'

theorem lt_kk_succ (x : Rat) (w : Nat) : x < (2 : Rat) ^ w * ((kk x w : Rat) + 1) := by
  have h := Int.lt_floor_add_one (x / (2 : Rat) ^ w)
  have hm := pow2w_pos w
  unfold kk
  calc x = (2 : Rat) ^ w * (x / (2 : Rat) ^ w) := (mul_div_cancel₀ x hm.ne').symm
    _ < (2 : Rat) ^ w * ((⌊x / (2 : Rat) ^ w⌋ : Rat) + 1) := mul_lt_mul_of_pos_left h hm

theorem umod_nonneg (x : Rat) (w : Nat) : 0 ≤ umod2exp x w := by
  rw [umod_eq]; linarith [kk_le x w]

theorem umod_lt (x : Rat) (w : Nat) : umod2exp x w < (2 : Rat) ^ w := by
  rw [umod_eq]; have := lt_kk_succ x w; linarith

theorem kk_mono {x y : Rat} (w : Nat) (h : x ≤ y) : kk x w ≤ kk y w := by
  unfold kk
  exact Int.floor_mono (div_le_div_of_nonneg_right h (pow2w_pos w).le)

/-- the index is determined by the period the value lies in -/
theorem kk_unique {x : Rat} {w : Nat} {k : Int} (h1 : (2 : Rat) ^ w * (k : Rat) ≤ x)
    (h2 : x < (2 : Rat) ^ w * ((k : Rat) + 1)) : kk x w = k := by
  unfold kk
  rw [Int.floor_eq_iff]
  have hm := pow2w_pos w
  constructor
  · rw [le_div_iff₀ hm]; linarith
  · rw [div_lt_iff₀ hm]; linarith

theorem kk_le_succ {x y : Rat} (w : Nat) (hxy : x ≤ y) (h : y - x < (2 : Rat) ^ w) : kk y w ≤ kk x w + 1 := by
  by_contra hc
  have hc' : kk x w + 2 ≤ kk y w := by omega
  have h1 := kk_le y w
  have h2 := lt_kk_succ x w
  have hm := pow2w_pos w
  have : ((kk x w : Rat) + 2) ≤ (kk y w : Rat) := by exact_mod_cast hc'
  nlinarith

/-- no wrap-around inside `[l,h]`: residues stay ordered -/
theorem umod_caseA {l h a : Rat} {w : Nat} (hw : h - l < (2 : Rat) ^ w) (hla : l ≤ a) (hah : a ≤ h)
    (hmod : umod2exp l w ≤ umod2exp h w) :
    umod2exp l w ≤ umod2exp a w ∧ umod2exp a w ≤ umod2exp h w := by
  have hm := pow2w_pos w
  have k1 := kk_mono w hla
  have k2 := kk_mono w hah
  have k3 := kk_le_succ w (le_trans hla hah) hw
  have hk : kk h w = kk l w := by
    by_contra hne
    have : kk h w = kk l w + 1 := by omega
    rw [umod_eq, umod_eq, this] at hmod
    push_cast at hmod
    nlinarith
  have hka : kk a w = kk l w := by omega
  rw [umod_eq, umod_eq, umod_eq, hka, hk]
  constructor <;> linarith

/-- one wrap-around inside `[l,h]`: a residue is above that of `l` or below that of `h` -/
theorem umod_caseB {l h a : Rat} {w : Nat} (hw : h - l < (2 : Rat) ^ w) (hla : l ≤ a) (hah : a ≤ h) :
    umod2exp l w ≤ umod2exp a w ∨ umod2exp a w ≤ umod2exp h w := by
  have k1 := kk_mono w hla
  have k2 := kk_mono w hah
  have k3 := kk_le_succ w (le_trans hla hah) hw
  by_cases hka : kk a w = kk l w
  · left; rw [umod_eq, umod_eq, hka]; linarith
  · right
    have : kk a w = kk h w := by omega
    rw [umod_eq, umod_eq, this]; linarith

/-- the signed residue is the unsigned residue of the value shifted by half a period -/
theorem smod_eq (x : Rat) (w : Nat) :
    smod2exp x w = umod2exp (x + (2 : Rat) ^ w / 2) w - (2 : Rat) ^ w / 2 := by
  have hm := pow2w_pos w
  unfold smod2exp
  simp only []
  have e := umod_eq x w
  have h0 := umod_nonneg x w
  have h1 := umod_lt x w
  split_ifs with hh
  · have hk : kk (x + (2 : Rat) ^ w / 2) w = kk x w + 1 := by
      apply kk_unique
      · push_cast; rw [e] at hh; nlinarith
      · push_cast; rw [e] at h1; nlinarith
    rw [umod_eq (x + (2 : Rat) ^ w / 2) w, hk, e]; push_cast; ring
  · have hk : kk (x + (2 : Rat) ^ w / 2) w = kk x w := by
      apply kk_unique
      · rw [e] at h0; nlinarith
      · rw [e] at hh; push_cast; nlinarith
    rw [umod_eq (x + (2 : Rat) ^ w / 2) w, hk, e]; ring

/-- the residue of a value in a representation -/
def wrapVal (r : Repn) (w : Nat) (a : Rat) : Rat :=
  match r with
  | .unsigned => umod2exp a w
  | .signed2c => smod2exp a w

theorem wrap_caseA {r : Repn} {l h a : Rat} {w : Nat} (hw : h - l < (2 : Rat) ^ w) (hla : l ≤ a) (hah : a ≤ h)
    (hmod : wrapVal r w l ≤ wrapVal r w h) : wrapVal r w l ≤ wrapVal r w a ∧ wrapVal r w a ≤ wrapVal r w h := by
  cases r
  · exact umod_caseA hw hla hah hmod
  · simp only [wrapVal, smod_eq] at hmod ⊢
    have := umod_caseA (l := l + (2 : Rat) ^ w / 2) (h := h + (2 : Rat) ^ w / 2) (a := a + (2 : Rat) ^ w / 2) (w := w)
      (by linarith) (by linarith) (by linarith) (by linarith)
    constructor <;> linarith [this.1, this.2]

theorem wrap_caseB {r : Repn} {l h a : Rat} {w : Nat} (hw : h - l < (2 : Rat) ^ w) (hla : l ≤ a) (hah : a ≤ h) :
    wrapVal r w l ≤ wrapVal r w a ∨ wrapVal r w a ≤ wrapVal r w h := by
  cases r
  · exact umod_caseB hw hla hah
  · simp only [wrapVal, smod_eq]
    rcases umod_caseB (l := l + (2 : Rat) ^ w / 2) (h := h + (2 : Rat) ^ w / 2) (a := a + (2 : Rat) ^ w / 2) (w := w)
      (by linarith) (by linarith) (by linarith) with h1 | h1
    · left; linarith
    · right; linarith

/-! ### the model -/

theorem lowerOk_setUnbounded' (p : Policy) (a : Rat) : lowerOk p (setUnbounded p .lower) a := by
  simp [lowerOk, setUnbounded, infOf]
theorem upperOk_setUnbounded' (p : Policy) (a : Rat) : upperOk p (setUnbounded p .upper) a := by
  simp [upperOk, setUnbounded, infOf]


theorem le_closed (p : Policy) (x y : Rat) :
    le p .lower ⟨fin x, false⟩ p .upper ⟨fin y, false⟩ = decide (x ≤ y) := by
  obtain ⟨ss, so, mci, ci, mbe⟩ := p
  cases ss <;> cases so <;> cases mci <;>
    simp [le, gt, lt, isOpen, getOpen, isBoundaryInfinity, getSpecial, normalIsBoundaryInfinity, isMinusInfinity,
      isPlusInfinity, isReverseInfinity, ExtRat.le, ExtRat.lt] <;>
    (rcases le_or_gt x y with h | h <;> simp [h, not_lt.mpr, not_le.mpr])

theorem bMod2exp_closed (signed : Bool) (p : Policy) (t : BT) (q : Rat) (w : Nat) :
    bMod2exp signed p Rounding.id t ⟨fin q, false⟩ w
      = ⟨fin (if signed then smod2exp q w else umod2exp q w), false⟩ := by
  obtain ⟨ss, so, mci, ci, mbe⟩ := p
  cases t <;> cases ss <;> cases so <;> cases mci <;>
    simp [bMod2exp, isBoundaryInfinity, getSpecial, normalIsBoundaryInfinity, adjust_id, normalIsOpen, getOpen]

theorem wrapVal_signed (r : Repn) (w : Nat) (q : Rat) :
    (if (r == Repn.signed2c) = true then smod2exp q w else umod2exp q w) = wrapVal r w q := by
  cases r <;> simp [wrapVal]

theorem mem_closed_iff {p : Policy} {l h a : Rat} :
    Iv.mem p ⟨⟨fin l, false⟩, ⟨fin h, false⟩⟩ a ↔ l ≤ a ∧ a ≤ h := by
  simp [Iv.mem, lowerOk, upperOk, getOpen]

/-- `wrap_assign` with the repaired width test: the residue of every member, if it lies in the
refinement, is in the result -/
theorem wrapAssign_encloses {p : Policy} {tv ref : Iv} {w : Nat} {r : Repn} {a : Rat}
    (ha : tv.mem p a) (hr : ref.mem p (wrapVal r w a)) :
    (wrapAssign false p Rounding.id tv w r ref).mem p (wrapVal r w a) := by
  have hR := Rounding.id_sound
  unfold wrapAssign
  rw [isEmpty_of_mem ha]
  simp only [Bool.false_eq_true, ↓reduceIte]
  split_ifs with hinf
  · exact assign_encloses hR hr
  · -- both bounds finite
    simp only [isBoundaryInfinity_eq, Bool.or_eq_true, not_or, Bool.not_eq_true] at hinf
    rcases sideOk_cases (t := .lower) ha.1 with ⟨h1, _⟩ | ⟨_, l, hl⟩
    · rw [hinf.1] at h1; simp at h1
    rcases sideOk_cases (t := .upper) ha.2 with ⟨h2, _⟩ | ⟨_, h, hh⟩
    · rw [hinf.2] at h2; simp at h2
    have hla : l ≤ a := by have := ha.1; unfold lowerOk at this; rw [hl] at this; exact lowerOkV_fin_le this
    have hah : a ≤ h := by have := ha.2; unfold upperOk at this; rw [hh] at this; exact upperOkV_fin_le this
    rw [hl, hh]
    have hup : Rounding.id.up (h - (2 : Rat) ^ w) = fin (h - (2 : Rat) ^ w) := rfl
    dsimp only
    rw [hup]
    dsimp only
    split_ifs with hwide hle
    · exact assign_encloses hR hr
    · -- no wrap-around
      have hw : h - l < (2 : Rat) ^ w := by linarith [not_le.mp hwide]
      simp only [bMod2exp_closed, wrapVal_signed, le_closed, decide_eq_true_eq] at hle ⊢
      obtain ⟨c1, c2⟩ := wrap_caseA hw hla hah hle
      exact intersectAssign_encloses hR (mem_closed_iff.mpr ⟨c1, c2⟩) hr
    · -- one wrap-around: the join of the two pieces
      have hw : h - l < (2 : Rat) ^ w := by linarith [not_le.mp hwide]
      simp only [bMod2exp_closed, wrapVal_signed]
      apply joinAssign_encloses hR
      rcases wrap_caseB (r := r) hw hla hah with c | c
      · right
        apply intersectAssign_encloses hR _ hr
        refine ⟨bAssign_sound' (t := .lower) hR ?_, upperOk_setUnbounded' p _⟩
        simpa [sideOk, sideOkV, getOpen] using c
      · left
        apply intersectAssign_encloses hR _ hr
        refine ⟨lowerOk_setUnbounded' p _, ?_⟩
        simpa [lowerExtend, upperOk, getOpen] using c

/-- the code as written differs from the repaired code only on intervals of width exactly `2^w` -/
theorem wrapAssign_d12_eq {p : Policy} {tv ref : Iv} {w : Nat} {r : Repn}
    (hne : ∀ l h, tv.lo.value = fin l → tv.hi.value = fin h → h - l ≠ (2 : Rat) ^ w) :
    wrapAssign true p Rounding.id tv w r ref = wrapAssign false p Rounding.id tv w r ref := by
  unfold wrapAssign
  cases hl : tv.lo.value with
  | ninf => rfl
  | pinf => rfl
  | fin l =>
    cases hh : tv.hi.value with
    | ninf => rfl
    | pinf => rfl
    | fin h =>
      have hup : Rounding.id.up (h - (2 : Rat) ^ w) = fin (h - (2 : Rat) ^ w) := rfl
      have hn := hne l h hl hh
      have hiff : (l < h - (2 : Rat) ^ w) ↔ (l ≤ h - (2 : Rat) ^ w) := by
        constructor
        · exact le_of_lt
        · intro hle
          rcases lt_or_eq_of_le hle with h' | h'
          · exact h'
          · exact absurd (by linarith) hn
      dsimp only
      rw [hup]
      dsimp only
      simp only [Bool.true_eq_false, Bool.false_eq_true, ↓reduceIte, hiff]

theorem wrapAssign_encloses_asWritten {p : Policy} {tv ref : Iv} {w : Nat} {r : Repn} {a : Rat}
    (hne : ∀ l h, tv.lo.value = fin l → tv.hi.value = fin h → h - l ≠ (2 : Rat) ^ w)
    (ha : tv.mem p a) (hr : ref.mem p (wrapVal r w a)) :
    (wrapAssign true p Rounding.id tv w r ref).mem p (wrapVal r w a) := by
  rw [wrapAssign_d12_eq hne]; exact wrapAssign_encloses ha hr

end PPLV.Interval
