import PPLV.Interval.ProofsLt
/-!
# C12 — enclosure for `neg_assign`, `add_assign`, `sub_assign`; emptiness
-/
set_option linter.unnecessarySeqFocus false
set_option linter.unusedSimpArgs false
set_option linter.unusedVariables false
namespace PPLV.Interval
open ExtRat (ninf fin pinf)

/-- an interval with a member is not reported empty -/
theorem isEmpty_of_mem {p : Policy} {x : Iv} {a : Rat} (h : x.mem p a) : isEmpty p x = false := by
  unfold isEmpty
  cases hl : lt p .upper x.hi p .lower x.lo
  · rfl
  · exact absurd h (lt_upper_lower_true hl)

theorem checkEmptyArg_of_mem {p : Policy} {x : Iv} {a : Rat} (h : x.mem p a) : checkEmptyArg p x = false := by
  unfold checkEmptyArg; rw [isEmpty_of_mem h]; simp

/-- `is_empty()` is exact: it answers `true` iff the interval has no rational member
(bounds on their own sides: what every interval built by the library satisfies) -/
theorem isEmpty_iff {p : Policy} {x : Iv} (hlo : x.lo.value ≠ pinf) (hhi : x.hi.value ≠ ninf) :
    isEmpty p x = true ↔ ∀ a, ¬ x.mem p a := by
  constructor
  · intro h a ha; rw [isEmpty_of_mem ha] at h; simp at h
  · intro h
    cases he : isEmpty p x
    · obtain ⟨a, ha⟩ := lt_upper_lower_false hlo hhi he
      exact absurd ha (h a)
    · rfl

theorem not_mem_empty (p : Policy) (a : Rat) : ¬ Iv.empty.mem p a := by
  unfold Iv.mem Iv.empty lowerOk upperOk
  cases p.storeOpen <;> simp [getOpen] <;> intros <;> linarith

theorem infinitySign_of_mem {p : Policy} {x : Iv} {a : Rat} (h : x.mem p a) : infinitySign p x = 0 := by
  obtain ⟨⟨v1, o1⟩, ⟨v2, o2⟩⟩ := x
  unfold Iv.mem lowerOk upperOk at h
  cases v1 <;> cases v2 <;> simp_all [infinitySign, isReverseInfinity]

theorem negAssign_encloses {p : Policy} {R : Rounding} (hR : R.Sound) {x : Iv} {a : Rat}
    (h : x.mem p a) : (negAssign p R x).mem p (-a) := by
  unfold negAssign
  rw [checkEmptyArg_of_mem h]
  exact ⟨bNeg_lower_sound hR h.2, bNeg_upper_sound hR h.1⟩

theorem addAssign_encloses {p : Policy} {R : Rounding} (hR : R.Sound) {x y : Iv} {a b : Rat}
    (ha : x.mem p a) (hb : y.mem p b) : (addAssign p R x y).mem p (a + b) := by
  unfold addAssign
  rw [checkEmptyArg_of_mem ha, checkEmptyArg_of_mem hb, infinitySign_of_mem ha, infinitySign_of_mem hb]
  simp only [Bool.or_self, Bool.false_eq_true, ↓reduceIte, bne_self_eq_false, Bool.false_and, lt_self_iff_false,
    gt_iff_lt]
  exact ⟨bAdd_lower_sound hR ha.1 hb.1, bAdd_upper_sound hR ha.2 hb.2⟩

theorem subAssign_encloses {p : Policy} {R : Rounding} (hR : R.Sound) {x y : Iv} {a b : Rat}
    (ha : x.mem p a) (hb : y.mem p b) : (subAssign p R x y).mem p (a - b) := by
  unfold subAssign
  rw [checkEmptyArg_of_mem ha, checkEmptyArg_of_mem hb, infinitySign_of_mem ha, infinitySign_of_mem hb]
  simp only [Bool.or_self, Bool.false_eq_true, ↓reduceIte, bne_self_eq_false, Bool.false_and, lt_self_iff_false,
    gt_iff_lt, neg_zero]
  exact ⟨bSub_lower_sound hR ha.1 hb.2, bSub_upper_sound hR ha.2 hb.1⟩

end PPLV.Interval
