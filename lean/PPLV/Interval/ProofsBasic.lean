import PPLV.Interval.Model
import Mathlib.Tactic.Linarith
import Mathlib.Tactic.Ring
import Mathlib.Tactic.Positivity
import Mathlib.Algebra.Order.Field.Rat
/-!
# C12 — semantics of bounds and intervals, and the primitive lemmas about `Boundary_NS`

An interval denotes a set of rationals.  Membership reads the OPEN bit through the policy
(`getOpen`), exactly as the class does.
-/
set_option linter.unnecessarySeqFocus false
set_option linter.unusedSimpArgs false
set_option linter.unusedVariables false
namespace PPLV.Interval
open ExtRat (ninf fin pinf)

/-- `a` is admitted by a lower bound with value `v`, open iff `o` -/
def lowerOkV (v : ExtRat) (o : Bool) (a : Rat) : Prop :=
  match v with
  | ninf => True
  | fin q => if o then q < a else q ≤ a
  | pinf => False

def upperOkV (v : ExtRat) (o : Bool) (a : Rat) : Prop :=
  match v with
  | pinf => True
  | fin q => if o then a < q else a ≤ q
  | ninf => False

def sideOkV : BT → ExtRat → Bool → Rat → Prop
  | .lower => lowerOkV
  | .upper => upperOkV

def lowerOk (p : Policy) (b : Bound) (a : Rat) : Prop := lowerOkV b.value (getOpen p b) a
def upperOk (p : Policy) (b : Bound) (a : Rat) : Prop := upperOkV b.value (getOpen p b) a
def sideOk (p : Policy) (t : BT) (b : Bound) (a : Rat) : Prop := sideOkV t b.value (getOpen p b) a

/-- membership of a rational in an interval of policy `p` -/
def Iv.mem (p : Policy) (x : Iv) (a : Rat) : Prop := lowerOk p x.lo a ∧ upperOk p x.hi a

@[simp] theorem lowerOkV_ninf (o a) : lowerOkV ninf o a ↔ True := Iff.rfl
@[simp] theorem lowerOkV_pinf (o a) : lowerOkV pinf o a ↔ False := Iff.rfl
@[simp] theorem lowerOkV_fin_open (q a) : lowerOkV (fin q) true a ↔ q < a := by simp [lowerOkV]
@[simp] theorem lowerOkV_fin_closed (q a) : lowerOkV (fin q) false a ↔ q ≤ a := by simp [lowerOkV]
@[simp] theorem upperOkV_pinf (o a) : upperOkV pinf o a ↔ True := Iff.rfl
@[simp] theorem upperOkV_ninf (o a) : upperOkV ninf o a ↔ False := Iff.rfl
@[simp] theorem upperOkV_fin_open (q a) : upperOkV (fin q) true a ↔ a < q := by simp [upperOkV]
@[simp] theorem upperOkV_fin_closed (q a) : upperOkV (fin q) false a ↔ a ≤ q := by simp [upperOkV]

theorem lowerOkV_fin_le {q a : Rat} {o : Bool} (h : lowerOkV (fin q) o a) : q ≤ a := by
  cases o <;> simp at h <;> linarith
theorem upperOkV_fin_le {q a : Rat} {o : Bool} (h : upperOkV (fin q) o a) : a ≤ q := by
  cases o <;> simp at h <;> linarith

/-- negation swaps the sides -/
theorem lowerOkV_neg {v : ExtRat} {o : Bool} {a : Rat} (h : upperOkV v o a) : lowerOkV v.neg o (-a) := by
  cases v <;> cases o <;> simp_all [ExtRat.neg]
theorem upperOkV_neg {v : ExtRat} {o : Bool} {a : Rat} (h : lowerOkV v o a) : upperOkV v.neg o (-a) := by
  cases v <;> cases o <;> simp_all [ExtRat.neg]

/-- a closed bound is weaker than an open one at the same value -/
theorem lowerOkV_weaken {v : ExtRat} {o o' : Bool} {a : Rat} (ho : o' = true → o = true)
    (h : lowerOkV v o a) : lowerOkV v o' a := by
  cases v <;> cases o <;> cases o' <;> simp_all <;> linarith
theorem upperOkV_weaken {v : ExtRat} {o o' : Bool} {a : Rat} (ho : o' = true → o = true)
    (h : upperOkV v o a) : upperOkV v o' a := by
  cases v <;> cases o <;> cases o' <;> simp_all <;> linarith

/-- soundness of a directed rounding: `down q ≤ q ≤ up q` (overflow to the infinity of the direction) -/
structure Rounding.Sound (R : Rounding) : Prop where
  down_le : ∀ q, lowerOkV (R.down q) false q
  le_up : ∀ q, upperOkV (R.up q) false q

theorem Rounding.id_sound : Rounding.Sound Rounding.id :=
  ⟨fun q => by simp [Rounding.id], fun q => by simp [Rounding.id]⟩

theorem Rounding.int_sound : Rounding.Sound Rounding.int :=
  ⟨fun q => by simpa [Rounding.int] using Rat.floor_le q,
   fun q => by simpa [Rounding.int] using (Rat.le_ceil (x := q))⟩

theorem Rounding.pow2_pos (e : Int) : 0 < Rounding.pow2 e := by
  unfold Rounding.pow2; split <;> positivity

theorem Rounding.ulp_pos (prec : Nat) (emin : Int) (q : Rat) : 0 < Rounding.ulp prec emin q := by
  unfold Rounding.ulp; exact Rounding.pow2_pos _

theorem Rounding.float_sound (prec : Nat) (emin emax : Int) : Rounding.Sound (Rounding.float prec emin emax) := by
  constructor
  · intro q
    simp only [Rounding.float]
    split_ifs with h1 h2
    · simp
    · simp; linarith
    · have hu := Rounding.ulp_pos prec emin q
      simp only [lowerOkV_fin_closed]
      have := Rat.floor_le (q / Rounding.ulp prec emin q)
      calc ((q / Rounding.ulp prec emin q).floor : Rat) * Rounding.ulp prec emin q
          ≤ (q / Rounding.ulp prec emin q) * Rounding.ulp prec emin q := by
            exact mul_le_mul_of_nonneg_right this hu.le
        _ = q := div_mul_cancel₀ q hu.ne'
  · intro q
    simp only [Rounding.float]
    split_ifs with h1 h2
    · simp
    · simp; linarith
    · have hu := Rounding.ulp_pos prec emin q
      simp only [upperOkV_fin_closed]
      have := Rat.le_ceil (x := q / Rounding.ulp prec emin q)
      calc q = (q / Rounding.ulp prec emin q) * Rounding.ulp prec emin q := (div_mul_cancel₀ q hu.ne').symm
        _ ≤ ((q / Rounding.ulp prec emin q).ceil : Rat) * Rounding.ulp prec emin q := by
            exact mul_le_mul_of_nonneg_right this hu.le

theorem Rounding.double_sound : Rounding.Sound Rounding.double := Rounding.float_sound _ _ _

/-! ### primitives -/

@[simp] theorem getOpen_mk (p : Policy) (v : ExtRat) (o : Bool) : getOpen p ⟨v, o⟩ = (p.storeOpen && o) := rfl

theorem isBoundaryInfinity_eq (p : Policy) (t : BT) (b : Bound) :
    isBoundaryInfinity p t b = normalIsBoundaryInfinity t b := by
  unfold isBoundaryInfinity getSpecial normalIsBoundaryInfinity
  cases p.storeSpecial <;> simp

theorem normalIsBoundaryInfinity_lower (b : Bound) :
    normalIsBoundaryInfinity .lower b = decide (b.value = ninf) := by
  unfold normalIsBoundaryInfinity; cases b.value <;> simp
theorem normalIsBoundaryInfinity_upper (b : Bound) :
    normalIsBoundaryInfinity .upper b = decide (b.value = pinf) := by
  unfold normalIsBoundaryInfinity; cases b.value <;> simp

theorem sgnB_eq (p : Policy) (t : BT) (b : Bound) (h : sideOkV t b.value o a) : sgnB p t b = b.value.sgn := by
  unfold sgnB getSpecial
  cases t <;> cases hb : b.value <;> cases p.storeSpecial <;> simp_all [ExtRat.sgn, sideOkV]

theorem ratSgn_neg {q : Rat} : ExtRat.ratSgn q < 0 ↔ q < 0 := by
  unfold ExtRat.ratSgn; split_ifs with h1 h2 <;> simp_all
theorem ratSgn_zero {q : Rat} : ExtRat.ratSgn q = 0 ↔ q = 0 := by
  unfold ExtRat.ratSgn; split_ifs with h1 h2 <;> simp_all <;> linarith
theorem ratSgn_pos {q : Rat} : 0 < ExtRat.ratSgn q ↔ 0 < q := by
  unfold ExtRat.ratSgn; split_ifs with h1 h2 <;> simp_all
  · linarith
  · exact lt_of_le_of_ne h1 (Ne.symm h2)
theorem ratSgn_nonneg {q : Rat} : 0 ≤ ExtRat.ratSgn q ↔ 0 ≤ q := by
  unfold ExtRat.ratSgn; split_ifs with h1 h2 <;> simp_all
theorem ratSgn_nonpos {q : Rat} : ExtRat.ratSgn q ≤ 0 ↔ q ≤ 0 := by
  unfold ExtRat.ratSgn; split_ifs with h1 h2 <;> simp_all
  · linarith
  · exact lt_of_le_of_ne h1 (Ne.symm h2)

/-- `adjust` only weakens the exact bound `(e, shrink)` -/
theorem adjust_lower_sound {p : Policy} {R : Rounding} (hR : R.Sound) {e : ExtRat} {s : Bool} {a : Rat}
    (h : lowerOkV e s a) : lowerOk p (adjust p R .lower e s) a := by
  unfold lowerOk
  cases e with
  | ninf => simp [adjust]
  | pinf => simp at h
  | fin q =>
    have hd := hR.down_le q
    simp only [adjust]
    cases hq : R.down q with
    | ninf => simp
    | pinf => simp [hq] at hd
    | fin q' =>
      simp only [hq, lowerOkV_fin_closed] at hd
      simp only [getOpen_mk]
      cases hso : p.storeOpen <;> cases s <;> simp at h ⊢
      · linarith
      · linarith
      · by_cases hne : q' = q
        · subst hne; simp; exact h
        · have : q' < q := lt_of_le_of_ne hd hne
          have hb : (q' != q) = true := by simp [hne]
          rw [hb]; simp; linarith
      · linarith

theorem adjust_upper_sound {p : Policy} {R : Rounding} (hR : R.Sound) {e : ExtRat} {s : Bool} {a : Rat}
    (h : upperOkV e s a) : upperOk p (adjust p R .upper e s) a := by
  unfold upperOk
  cases e with
  | pinf => simp [adjust]
  | ninf => simp at h
  | fin q =>
    have hd := hR.le_up q
    simp only [adjust]
    cases hq : R.up q with
    | pinf => simp
    | ninf => simp [hq] at hd
    | fin q' =>
      simp only [hq, upperOkV_fin_closed] at hd
      simp only [getOpen_mk]
      cases hso : p.storeOpen <;> cases s <;> simp at h ⊢
      · linarith
      · linarith
      · by_cases hne : q' = q
        · subst hne; simp; exact h
        · have : q < q' := lt_of_le_of_ne hd (Ne.symm hne)
          have hb : (q' != q) = true := by simp [hne]
          rw [hb]; simp; linarith
      · linarith

theorem adjust_sound {p : Policy} {R : Rounding} (hR : R.Sound) {t : BT} {e : ExtRat} {s : Bool} {a : Rat}
    (h : sideOkV t e s a) : sideOk p t (adjust p R t e s) a := by
  cases t
  · exact adjust_lower_sound hR h
  · exact adjust_upper_sound hR h

/-- with exact rounding `adjust` stores the exact bound -/
theorem adjust_id (p : Policy) (t : BT) (e : ExtRat) (s : Bool) :
    adjust p Rounding.id t e s = ⟨e, p.storeOpen && s⟩ := by
  cases e <;> cases t <;> simp [adjust, Rounding.id]

end PPLV.Interval
