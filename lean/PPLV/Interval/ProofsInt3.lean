import PPLV.Interval.ProofsInt2
import PPLV.Checked.Proofs3
/-!
# C12 / native integers, part 3: the native boundary functions refine the C12 model

`finish_tri_*`: a checked operation with one of "the three endings of an exact integer operation"
(`PPLV.Checked.Tri`: stored exactly / `set_neg_overflow_int` / `set_pos_overflow_int`), followed by
`adjust_boundary`, leaves exactly the bound that the C12 model computes with `Rounding.native ty`
(`adjust`).  Hence `nbAssign`, `nbNeg`, `nbAdd`, `nbSub`, `nbMul`, `nbSetZero`, `nbMulZ`, `nbComplement`
(C11 operations + `adjust_boundary`) agree with `bAssign`, `bNeg`, `bAdd`, `bSub`, `bMul`, `setZero`,
`bMulZ`, `bComplement` of `Model.lean`.  Division is in `ProofsInt4.lean`.
-/
set_option linter.unusedVariables false
set_option linter.unusedSimpArgs false
namespace PPLV.Interval.Native
open PPLV.Interval PPLV.Interval.ExtRat PPLV.Checked PPLV.Checked.Result

/-- standing assumptions on the native type: at least one bit, `Larger<T>` at least twice as wide
when it is used (true of every C integer type: `C11.Cfg`) -/
structure TyOK (ty : IntTy) : Prop where
  bits : 1 ≤ ty.bits
  larger : ty.LargerOK

theorem tyOK_small (bits : Nat) (signed : Bool) (h1 : 1 ≤ bits) (h2 : bits ≤ 32) : TyOK (tyOfBits bits signed) := by
  refine ⟨?_, ⟨fun _ => ⟨?_, ?_⟩⟩⟩ <;> simp [tyOfBits, h2] <;> omega

theorem tyOK_wide (bits : Nat) (signed : Bool) (h2 : 32 < bits) : TyOK (tyOfBits bits signed) := by
  have h3 : ¬ bits ≤ 32 := by omega
  refine ⟨?_, ⟨fun h => ?_⟩⟩
  · simp [tyOfBits, h3]; omega
  · simp [tyOfBits, h3] at h

/-- the native types of `interfaced_boxes.hh` -/
theorem tyOK_of (bits : Nat) (signed : Bool) (h1 : 1 ≤ bits) : TyOK (tyOfBits bits signed) := by
  by_cases h : bits ≤ 32
  · exact tyOK_small bits signed h1 h
  · exact tyOK_wide bits signed (by omega)

theorem floor_intCast' (e : Int) : ((e : Int) : Rat).floor = e := Rat.floor_intCast e
theorem ceil_intCast' (e : Int) : ((e : Int) : Rat).ceil = e := by
  apply ceil_unique <;> simp

theorem adjust_lower_fin (p : Policy) (R : Rounding) (q : Rat) (s : Bool) :
    adjust p R .lower (fin q) s =
      match R.down q with
      | fin q' => ⟨fin q', p.storeOpen && (s || ((p.checkInexact || (!s && p.storeOpen)) && q' != q))⟩
      | v => ⟨v, p.storeOpen⟩ := by
  cases h : R.down q <;> simp [adjust, h]

theorem adjust_upper_fin (p : Policy) (R : Rounding) (q : Rat) (s : Bool) :
    adjust p R .upper (fin q) s =
      match R.up q with
      | fin q' => ⟨fin q', p.storeOpen && (s || ((p.checkInexact || (!s && p.storeOpen)) && q' != q))⟩
      | v => ⟨v, p.storeOpen⟩ := by
  cases h : R.up q <;> simp [adjust, h]

/-- the open bit of an inexactly rounded finite bound -/
theorem open_inexact (so ci s : Bool) : (so && (s || ((ci || (!s && so)) && true))) = so := by
  cases so <;> cases ci <;> cases s <;> rfl

theorem finish_tri_lower {ty : IntTy} (hb : 1 ≤ ty.bits) (p : Policy) (hp : p.storeSpecial = true) (s : Bool)
    {to0 e : Int} {out : Int × Result} (h : Tri ty cop .down to0 out e) :
    (finish p .lower s out).map (NB.toBound .lower) = some (adjust p (Rounding.native ty) .lower (fin (e : Rat)) s) := by
  rw [adjust_lower_fin, native_down hb]
  unfold downSpec
  rw [floor_intCast']
  rcases h with ⟨rfl, hf⟩ | ⟨he, rfl⟩ | ⟨he, rfl⟩
  · rw [finite_cop] at hf
    have a : ¬ e < ty.cmin := by omega
    have b : ¬ ty.cmax < e := by omega
    simp only [a, b, if_false, finish_lower_eq, Option.map_some, NB.toBound]
    simp
  · rw [emin_cop] at he
    have hinf : cop.hasInfinity = false := rfl
    simp only [he, if_true, setNegOverflow, Dir.roundUp, hinf]
    simp (decide := true) only [if_false, Bool.false_eq_true]
    rw [finish_lower_minf p hp]
    simp [NB.toBound, infOf]
  · rw [emax_cop] at he
    have a : ¬ e < ty.cmin := by have := cmin_le_cmax hb; omega
    simp only [a, he, if_true, if_false, setPosOverflow, Dir.roundDown, emax_cop]
    simp (decide := true) only [if_true]
    rw [finish_lower_gt_sup]
    have hne : (((ty.cmax : Int) : Rat) != ((e : Int) : Rat)) = true := by
      simp only [bne_iff_ne, ne_eq]
      intro hh
      have : ty.cmax = e := by exact_mod_cast hh
      omega
    simp only [Option.map_some, NB.toBound, hne, open_inexact]
    simp

theorem finish_tri_upper {ty : IntTy} (hb : 1 ≤ ty.bits) (p : Policy) (hp : p.storeSpecial = true) (s : Bool)
    {to0 e : Int} {out : Int × Result} (h : Tri ty cop .up to0 out e) :
    (finish p .upper s out).map (NB.toBound .upper) = some (adjust p (Rounding.native ty) .upper (fin (e : Rat)) s) := by
  rw [adjust_upper_fin, native_up hb]
  unfold upSpec
  rw [ceil_intCast']
  rcases h with ⟨rfl, hf⟩ | ⟨he, rfl⟩ | ⟨he, rfl⟩
  · rw [finite_cop] at hf
    have a : ¬ e < ty.cmin := by omega
    have b : ¬ ty.cmax < e := by omega
    simp only [a, b, if_false, finish_upper_eq, Option.map_some, NB.toBound]
    simp
  · rw [emin_cop] at he
    have a : ¬ ty.cmax < e := by have := cmin_le_cmax hb; omega
    simp only [a, he, if_true, if_false, setNegOverflow, Dir.roundUp, emin_cop]
    simp (decide := true) only [if_true]
    rw [finish_upper_lt_inf]
    have hne : (((ty.cmin : Int) : Rat) != ((e : Int) : Rat)) = true := by
      simp only [bne_iff_ne, ne_eq]
      intro hh
      have : ty.cmin = e := by exact_mod_cast hh
      omega
    simp only [Option.map_some, NB.toBound, hne, open_inexact]
    simp
  · rw [emax_cop] at he
    have hinf : cop.hasInfinity = false := rfl
    simp only [he, if_true, setPosOverflow, Dir.roundDown, hinf]
    simp (decide := true) only [if_false, Bool.false_eq_true]
    rw [finish_upper_pinf p hp]
    simp [NB.toBound, infOf]

/-- both sides at once -/
theorem finish_tri {ty : IntTy} (hb : 1 ≤ ty.bits) (p : Policy) (hp : p.storeSpecial = true) (tt : BT) (s : Bool)
    {to0 e : Int} {out : Int × Result} (h : Tri ty cop (dirOf tt) to0 out e) :
    (finish p tt s out).map (NB.toBound tt) = some (adjust p (Rounding.native ty) tt (fin (e : Rat)) s) := by
  cases tt
  · exact finish_tri_lower hb p hp s h
  · exact finish_tri_upper hb p hp s h

end PPLV.Interval.Native
