import PPLV.Interval.ProofsLinearize
import Mathlib.Algebra.Order.Floor.Ring
import Mathlib.Data.Rat.Floor
import Mathlib.Data.Nat.Log
/-!
# C12 — the stated float model holds for the exact directed roundings of a binary format

`Rounding.float prec emin emax` rounds an exact rational to the format with `prec` significand bits
(hidden bit included), least normal exponent `emin`, gradual underflow.  Whatever the rounding mode
(nearest, upwards, downwards, towards zero), the result of an operation is `down v` or `up v`; both
are within `2^-(prec-1)·|v| + 2^(emin-prec+1)` of `v` as long as `|v|` does not exceed the largest
finite number.  These two numbers are `eps` and `omega` of `FFormat`
(`prec - 1 = MANTISSA_BITS`, `emin = 1 - EXPONENT_BIAS`).
-/
set_option linter.unnecessarySeqFocus false
set_option linter.unusedSimpArgs false
set_option linter.unusedVariables false
namespace PPLV.Interval
open ExtRat (ninf fin pinf)
open Rounding

theorem pow2_eq_zpow (e : Int) : pow2 e = (2 : Rat) ^ e := by
  unfold pow2
  split_ifs with h
  · conv_rhs => rw [← Int.toNat_of_nonneg h]
    rw [zpow_natCast]
  · have h' : 0 ≤ -e := by omega
    have : e = -((-e).toNat : Int) := by rw [Int.toNat_of_nonneg h']; ring
    conv_rhs => rw [this]
    rw [zpow_neg, zpow_natCast, one_div]

theorem pow2_add (a b : Int) : pow2 (a + b) = pow2 a * pow2 b := by
  simp only [pow2_eq_zpow]; exact zpow_add₀ (by norm_num) a b

theorem pow2_mono {a b : Int} (h : a ≤ b) : pow2 a ≤ pow2 b := by
  simp only [pow2_eq_zpow]; exact zpow_le_zpow_right₀ (by norm_num) h

/-- `2^(ilog2 q) ≤ |q|` -/
theorem pow2_ilog2_le {q : Rat} (hq : q ≠ 0) : pow2 (ilog2 q) ≤ |q| := by
  unfold ilog2
  simp only []
  have habs : (if q < 0 then -q else q) = |q| := by
    split_ifs with h
    · exact (abs_of_neg h).symm
    · exact (abs_of_nonneg (not_lt.mp h)).symm
  rw [habs]
  split_ifs with h1 h2
  · -- |q| < 2^e0 : the answer is e0 - 1
    have hn : q.num.natAbs ≠ 0 := by simpa using hq
    have hd : q.den ≠ 0 := q.den_nz
    have h_n : (2 : Rat) ^ (Nat.log2 q.num.natAbs) ≤ (q.num.natAbs : Rat) := by
      exact_mod_cast Nat.log2_self_le hn
    have h_d : (q.den : Rat) < (2 : Rat) ^ (Nat.log2 q.den + 1) := by
      exact_mod_cast Nat.lt_log2_self
    have hq' : |q| = (q.num.natAbs : Rat) / (q.den : Rat) := by
      conv_lhs => rw [← Rat.num_div_den q]
      rw [abs_div, Nat.abs_cast]
      congr 1
      rw [Nat.cast_natAbs, Int.cast_abs]
    have hdpos : (0 : Rat) < q.den := by exact_mod_cast Nat.pos_of_ne_zero hd
    rw [hq', pow2_eq_zpow, le_div_iff₀ hdpos]
    have e : (2 : Rat) ^ ((Nat.log2 q.num.natAbs : Int) - (Nat.log2 q.den : Int) - 1)
        = (2 : Rat) ^ (Nat.log2 q.num.natAbs) / (2 : Rat) ^ (Nat.log2 q.den + 1) := by
      have hc : ((Nat.log2 q.den : Int) + 1) = ((Nat.log2 q.den + 1 : Nat) : Int) := by push_cast; ring
      rw [sub_sub, zpow_sub₀ (by norm_num), zpow_natCast, hc, zpow_natCast]
    rw [e]
    have hpos : (0 : Rat) < (2 : Rat) ^ (Nat.log2 q.den + 1) := by positivity
    rw [div_mul_eq_mul_div, div_le_iff₀ hpos]
    calc (2 : Rat) ^ (Nat.log2 q.num.natAbs) * (q.den : Rat)
        ≤ (q.num.natAbs : Rat) * (q.den : Rat) := mul_le_mul_of_nonneg_right h_n hdpos.le
      _ ≤ (q.num.natAbs : Rat) * (2 : Rat) ^ (Nat.log2 q.den + 1) :=
          mul_le_mul_of_nonneg_left h_d.le (by positivity)
  · exact h2
  · exact not_lt.mp h1

/-- the unit in the last place is covered by the relative plus the absolute error bound -/
theorem ulp_le (prec : Nat) (hprec : 1 ≤ prec) (emin : Int) (v : Rat) :
    ulp prec emin v ≤ pow2 (-((prec : Int) - 1)) * |v| + pow2 (emin - (prec : Int) + 1) := by
  have hpos1 : 0 ≤ pow2 (-((prec : Int) - 1)) * |v| := mul_nonneg (pow2_pos _).le (abs_nonneg _)
  unfold ulp
  simp only []
  by_cases hv : v = 0
  · subst hv
    simp
  · simp only [hv, ↓reduceIte]
    split_ifs with hlt
    · linarith
    · -- normal range: ulp = 2^(e - prec + 1) with 2^e <= |v|
      have he := pow2_ilog2_le hv
      have : pow2 (ilog2 v - (prec : Int) + 1) = pow2 (-((prec : Int) - 1)) * pow2 (ilog2 v) := by
        rw [← pow2_add]; congr 1; ring
      rw [this]
      have := mul_le_mul_of_nonneg_left he (pow2_pos (-((prec : Int) - 1))).le
      linarith [(pow2_pos (emin - (prec : Int) + 1)).le]

/-- **the float model for directed roundings**: a finite `down v` / `up v` of a value inside the
range of the format is within `eps·|v| + omega` of `v` -/
theorem float_model_directed (prec : Nat) (hprec : 1 ≤ prec) (emin emax : Int) (v d : Rat)
    (hrange : |v| ≤ maxFinite prec emax)
    (h : (Rounding.float prec emin emax).down v = fin d ∨ (Rounding.float prec emin emax).up v = fin d) :
    |d - v| ≤ pow2 (-((prec : Int) - 1)) * |v| + pow2 (emin - (prec : Int) + 1) := by
  have hr := abs_le.mp hrange
  have hu := ulp_pos prec emin v
  have hule := ulp_le prec hprec emin v
  have e1 : v = v / ulp prec emin v * ulp prec emin v := (div_mul_cancel₀ v hu.ne').symm
  rcases h with h | h
  · simp only [Rounding.float] at h
    have n1 : ¬ v < -maxFinite prec emax := by linarith
    have n2 : ¬ maxFinite prec emax < v := by linarith
    simp only [n1, n2, ↓reduceIte, ExtRat.fin.injEq] at h
    subst h
    have f1 := Int.floor_le (v / ulp prec emin v)
    have f2 := Int.lt_floor_add_one (v / ulp prec emin v)
    have hfl : (Rat.floor (v / ulp prec emin v) : Rat) = (⌊v / ulp prec emin v⌋ : Rat) := rfl
    rw [hfl]
    rw [abs_le]
    constructor
    · nlinarith
    · nlinarith
  · simp only [Rounding.float] at h
    have n1 : ¬ v < -maxFinite prec emax := by linarith
    have n2 : ¬ maxFinite prec emax < v := by linarith
    simp only [n1, n2, ↓reduceIte, ExtRat.fin.injEq] at h
    subst h
    have f1 := Rat.le_ceil (x := v / ulp prec emin v)
    have f2 := Rat.ceil_lt (x := v / ulp prec emin v)
    rw [abs_le]
    constructor
    · nlinarith
    · nlinarith

end PPLV.Interval
