import PPLV.Interval.ProofsSet
/-!
# C12 — `CC76_widening_assign` only moves bounds outwards
-/
set_option linter.unnecessarySeqFocus false
set_option linter.unusedSimpArgs false
set_option linter.unusedVariables false
namespace PPLV.Interval
open ExtRat (ninf fin pinf)

/-- every stop point before `std::lower_bound(first, last, v)` is `< v` -/
theorem takeWhile_get_lt (stops : List Rat) (v : Rat) (i : Nat) (s : Rat)
    (hi : i < (stops.takeWhile (fun s => s < v)).length) (hs : stops[i]? = some s) : s < v := by
  induction stops generalizing i with
  | nil => simp at hi
  | cons h t ih =>
    simp only [List.takeWhile] at hi
    split at hi
    · rename_i hh
      cases i with
      | zero => simp at hs; subst hs; simpa using hh
      | succ j =>
        simp only [List.length_cons, Nat.add_lt_add_iff_right] at hi
        exact ih j hi (by simpa using hs)
    · simp at hi

theorem lowerOk_setUnbounded (p : Policy) (a : Rat) : lowerOk p (setUnbounded p .lower) a := by
  simp [lowerOk, setUnbounded, infOf]
theorem upperOk_setUnbounded (p : Policy) (a : Rat) : upperOk p (setUnbounded p .upper) a := by
  simp [upperOk, setUnbounded, infOf]

/-- the widened interval contains the interval that is widened -/
theorem cc76Widening_encloses {p : Policy} {x y : Iv} {stops : List Rat} {a : Rat} (h : x.mem p a) :
    (cc76Widening p x y stops).mem p a := by
  unfold cc76Widening
  -- upper bound
  have hU : (if isBoundaryInfinity p .upper x.hi = true then x
      else match x.hi.value, y.hi.value with
        | fin xu, fin yu =>
          if yu < xu then
            match stops[lowerBoundIdx stops xu]? with
            | some s => if xu < s then ⟨x.lo, ⟨fin s, x.hi.open⟩⟩ else x
            | none => upperExtend p x
          else x
        | _, _ => x).mem p a := by
    split_ifs
    · exact h
    · split
      · rename_i xu yu hxu hyu
        split_ifs with hlt
        · split
          · rename_i s hs
            split_ifs with hxs
            · refine ⟨h.1, ?_⟩
              have := h.2
              unfold upperOk at this ⊢
              rw [hxu] at this
              simp only [getOpen] at this ⊢
              revert this
              cases (p.storeOpen && x.hi.open) <;> simp <;> intro h' <;> linarith
            · exact h
          · exact ⟨h.1, upperOk_setUnbounded p a⟩
        · exact h
      · exact h
  generalize (if isBoundaryInfinity p .upper x.hi = true then x
      else match x.hi.value, y.hi.value with
        | fin xu, fin yu =>
          if yu < xu then
            match stops[lowerBoundIdx stops xu]? with
            | some s => if xu < s then ⟨x.lo, ⟨fin s, x.hi.open⟩⟩ else x
            | none => upperExtend p x
          else x
        | _, _ => x) = x1 at hU ⊢
  -- lower bound
  simp only []
  split_ifs
  · exact hU
  · split
    · rename_i xl yl hxl hyl
      have hback : (if (lowerBoundIdx stops xl != 0) = true then
            match stops[lowerBoundIdx stops xl - 1]? with
            | some s => (⟨⟨fin s, x1.lo.open⟩, x1.hi⟩ : Iv)
            | none => x1
          else lowerExtend p x1).mem p a := by
        split_ifs with hk
        · split
          · rename_i s hs
            have hk' : lowerBoundIdx stops xl - 1 < (stops.takeWhile (fun s => s < xl)).length := by
              unfold lowerBoundIdx at hk ⊢
              have : (stops.takeWhile (fun s => s < xl)).length ≠ 0 := by simpa using hk
              omega
            have hlt := takeWhile_get_lt stops xl _ s hk' hs
            refine ⟨?_, hU.2⟩
            have := hU.1
            unfold lowerOk at this ⊢
            rw [hxl] at this
            simp only [getOpen] at this ⊢
            revert this
            cases (p.storeOpen && x1.lo.open) <;> simp <;> intro h' <;> linarith
          · exact hU
        · exact ⟨lowerOk_setUnbounded p a, hU.2⟩
      generalize (if (lowerBoundIdx stops xl != 0) = true then
            match stops[lowerBoundIdx stops xl - 1]? with
            | some s => (⟨⟨fin s, x1.lo.open⟩, x1.hi⟩ : Iv)
            | none => x1
          else lowerExtend p x1) = back at hback ⊢
      split_ifs with hlt
      · split
        · split_ifs
          · exact hback
          · exact hU
        · exact hback
      · exact hU
    · exact hU

end PPLV.Interval
