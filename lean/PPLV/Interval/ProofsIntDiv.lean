import PPLV.Interval.ProofsInt2
import PPLV.Checked.Proofs2
/-!
# C12 / native integers: checked division `PPLV.Checked.div` under `Check_Overflow_Policy<T>`

* `floor_tdiv_any`, `ceil_tdiv_any`: floor / ceiling of `x / y` from the truncated quotient and remainder, for any
  non-zero divisor (the fix-up condition is the one `div_signed_int` tests);
* `div_shape`: what `div` computes for `ROUND_DOWN` / `ROUND_UP` away from the delegated negation (signed and
  unsigned types alike: `round_gt_int` never reaches its overflow branch);
* `div_inRange`: the stored value is a value of the type (from `divSigned_okq` / `divUnsigned_okq`);
* `div_down`, `div_up`: the result is the delegated negation (signed, divisor −1) or the floor (ceiling) of the
  exact quotient with `V_EQ` exactly when the quotient is an integer.
-/
set_option linter.unusedVariables false
set_option linter.unusedSimpArgs false
namespace PPLV.Interval.Native
open PPLV.Interval PPLV.Checked PPLV.Checked.Result

/-! ## truncating division against floor / ceiling, any non-zero divisor -/

theorem cast_div_neg_neg (x y : Int) : ((x : Rat) / (y : Rat)) = (((-x : Int) : Rat) / ((-y : Int) : Rat)) := by
  push_cast; rw [neg_div_neg_eq]

/-- the condition `decide (m < 0) != decide (y < 0)` of `div_signed_int` -/
def truncAbove (m y : Int) : Bool := decide (m < 0) != decide (y < 0)

theorem floor_tdiv_any (x y : Int) (hy : y ≠ 0) :
    ((x : Rat) / (y : Rat)).floor =
      if x.tmod y = 0 then x.tdiv y else if truncAbove (x.tmod y) y = true then x.tdiv y - 1 else x.tdiv y := by
  unfold truncAbove
  rcases (by omega : 0 < y ∨ y < 0) with hp | hn
  · rw [floor_of_tdiv x y hp]
    have b : ¬ y < 0 := by omega
    by_cases h0 : x.tmod y = 0
    · simp [h0]
    · by_cases h1 : x.tmod y < 0 <;> simp [h0, h1, b]
  · rw [cast_div_neg_neg, floor_of_tdiv (-x) (-y) (by omega)]
    have e1 : (-x).tdiv (-y) = x.tdiv y := by rw [Int.neg_tdiv, Int.tdiv_neg]; omega
    have e2 : (-x).tmod (-y) = -(x.tmod y) := by rw [Int.neg_tmod, Int.tmod_neg]
    rw [e1, e2]
    by_cases h0 : x.tmod y = 0
    · simp [h0]
    · by_cases h1 : x.tmod y < 0
      · have : ¬ (-(x.tmod y) < 0) := by omega
        have t : (decide (x.tmod y < 0) != decide (y < 0)) = false := by simp [h1, hn]
        simp only [this, h0, t, if_false, Bool.false_eq_true]
      · have : -(x.tmod y) < 0 := by omega
        have t : (decide (x.tmod y < 0) != decide (y < 0)) = true := by simp [h1, hn]
        simp only [this, h0, t, if_false, if_true]

theorem ceil_tdiv_any (x y : Int) (hy : y ≠ 0) :
    ((x : Rat) / (y : Rat)).ceil =
      if x.tmod y = 0 then x.tdiv y else if truncAbove (x.tmod y) y = true then x.tdiv y else x.tdiv y + 1 := by
  unfold truncAbove
  rcases (by omega : 0 < y ∨ y < 0) with hp | hn
  · rw [ceil_of_tdiv x y hp]
    have b : ¬ y < 0 := by omega
    by_cases h0 : x.tmod y = 0
    · simp [h0]
    · by_cases h1 : x.tmod y < 0
      · have : ¬ 0 < x.tmod y := by omega
        simp [h0, h1, b, this]
      · have : 0 < x.tmod y := by omega
        simp [h0, h1, b, this]
  · rw [cast_div_neg_neg, ceil_of_tdiv (-x) (-y) (by omega)]
    have e1 : (-x).tdiv (-y) = x.tdiv y := by rw [Int.neg_tdiv, Int.tdiv_neg]; omega
    have e2 : (-x).tmod (-y) = -(x.tmod y) := by rw [Int.neg_tmod, Int.tmod_neg]
    rw [e1, e2]
    by_cases h0 : x.tmod y = 0
    · simp [h0]
    · by_cases h1 : x.tmod y < 0
      · have : 0 < -(x.tmod y) := by omega
        have t : (decide (x.tmod y < 0) != decide (y < 0)) = false := by simp [h1, hn]
        simp only [this, h0, t, if_false, if_true, Bool.false_eq_true]
      · have : ¬ 0 < -(x.tmod y) := by omega
        have t : (decide (x.tmod y < 0) != decide (y < 0)) = true := by simp [h1, hn]
        simp only [this, h0, t, if_false, if_true]

/-- the exact quotient is an integer exactly when the remainder is zero -/
theorem quot_int_iff (x y s : Int) (hy : y ≠ 0) : ((s : Rat) = (x : Rat) / (y : Rat)) → x.tmod y = 0 := by
  intro h
  have := (div_eq_int' (s := s) hy).mp h.symm
  rw [this]; exact Int.mul_tmod_left s y

theorem quot_of_tmod_zero (x y : Int) (hy : y ≠ 0) (h : x.tmod y = 0) : ((x.tdiv y : Int) : Rat) = (x : Rat) / (y : Rat) := by
  have e := Int.mul_tdiv_add_tmod x y
  rw [h] at e
  exact ((div_eq_int' hy).mpr (by rw [Int.mul_comm]; omega)).symm


/-! ## what `div` computes under a directed rounding, away from the delegated negation -/

theorem div_shape {ty : IntTy} (hb : 1 ≤ ty.bits) {to0 x y : Int}
    (hx : ty.inRange x) (hy : ty.inRange y) (hy0 : y ≠ 0) (hn : ¬ (ty.signed = true ∧ y = -1))
    {dir : Dir} (hd : dir = .down ∨ dir = .up) :
    div ty cop to0 x y dir =
      if x.tmod y = 0 then (x.tdiv y, V_EQ)
      else if truncAbove (x.tmod y) y = true then roundLtNoOverflow (x.tdiv y) dir
      else roundGtNoOverflow (x.tdiv y) dir := by
  have hco : cop.checkOverflow = true := rfl
  have hdz : cop.checkDivZero = false := rfl
  have hinf : cop.hasInfinity = false := rfl
  have hnr : dir.notRequested = false := by rcases hd with rfl | rfl <;> rfl
  unfold div truncAbove
  cases hs : ty.signed
  · -- unsigned
    simp only [Bool.false_eq_true, if_false]
    unfold divUnsigned
    simp only [hdz, Bool.false_and, Bool.false_eq_true, if_false, hnr]
    have hx' : ty.finite cop x := finite_cop.mpr hx
    have hy' : ty.finite cop y := finite_cop.mpr hy
    have c0 : ty.cmin = 0 := by simp [IntTy.cmin, hs]
    have hx0 : 0 ≤ x := by have := hx.1; omega
    have hyp : 0 < y := by have := hy.1; omega
    obtain ⟨e, p, _⟩ := tdiv_tmod_pos x hyp
    obtain ⟨m0, m1, q0⟩ := p hx0
    obtain ⟨hfq, hb2⟩ := tdiv_finite (wf_cop hb) hx' hy' hy0 (by omega)
    by_cases hm : x.tmod y = 0
    · simp only [hm, beq_self_eq_true, if_true]
    · have hmb : (x.tmod y == 0) = false := by simpa using hm
      have t : (decide (x.tmod y < 0) != decide (y < 0)) = false := by
        have a : ¬ x.tmod y < 0 := by omega
        have b : ¬ y < 0 := by omega
        simp [a, b]
      simp only [hmb, hm, t, Bool.false_eq_true, if_false]
      have hy2 : 2 ≤ y := by
        by_contra hc
        have : y = 1 := by omega
        rw [this] at hm; simp at hm
      have hb3 := (hb2 (Or.inl hy2)).1 hx0
      have hne : (x.tdiv y == ty.emax cop) = false := by
        have := hx.2; have := hy.2
        rw [emax_cop]
        have : x.tdiv y ≠ ty.cmax := by omega
        simpa using this
      unfold roundGt roundGtNoOverflow
      simp only [hne, Bool.false_eq_true, if_false]
  · -- signed
    have hm1 : y ≠ -1 := fun h => hn ⟨hs, h⟩
    have hb1 : (y == -1) = false := by simpa using hm1
    simp only [if_true]
    unfold divSigned
    simp only [hdz, hco, Bool.false_and, Bool.true_and, Bool.false_eq_true, if_false, hnr, hb1]
    by_cases hm : x.tmod y = 0
    · simp only [hm, beq_self_eq_true, if_true]
    · have hmb : (x.tmod y == 0) = false := by simpa using hm
      simp only [hmb, hm, Bool.false_eq_true, if_false]

/-- the stored value is a value of the type -/
theorem div_inRange {ty : IntTy} (hb : 1 ≤ ty.bits) (hl : ty.LargerOK) {to0 x y : Int}
    (h0 : ty.inRange to0) (hx : ty.inRange x) (hy : ty.inRange y) (hy0 : y ≠ 0) (dir : Dir) :
    ty.inRange (div ty cop to0 x y dir).1 := by
  have hco : cop.checkOverflow = true := rfl
  have hx' : ty.finite cop x := finite_cop.mpr hx
  have hy' : ty.finite cop y := finite_cop.mpr hy
  unfold div
  cases hs : ty.signed
  · simp only [Bool.false_eq_true, if_false]
    exact (divUnsigned_okq (wf_cop hb) hs dir h0 hx' hy' (Or.inr hy0)).no_wrap
  · simp only [if_true]
    exact (divSigned_okq (wf_cop hb) hs hl hco dir h0 hx' hy' (Or.inr hy0)).no_wrap

/-- checked division rounding down: either the delegated negation (signed, divisor −1), or the floor of the
exact quotient, which is a value of the type, with `V_EQ` exactly when the quotient is an integer -/
theorem div_down {ty : IntTy} (hb : 1 ≤ ty.bits) (hl : ty.LargerOK) {to0 x y : Int}
    (h0 : ty.inRange to0) (hx : ty.inRange x) (hy : ty.inRange y) (hy0 : y ≠ 0) :
    (ty.signed = true ∧ y = -1 ∧ Tri ty cop .down to0 (div ty cop to0 x y .down) (-x)) ∨
    (¬ (ty.signed = true ∧ y = -1) ∧ ∃ F : Int, ((x : Rat) / (y : Rat)).floor = F ∧ ty.cmin ≤ F ∧ F ≤ ty.cmax ∧
        div ty cop to0 x y .down = (F, if (F : Rat) = (x : Rat) / (y : Rat) then V_EQ else V_GT)) := by
  have hco : cop.checkOverflow = true := rfl
  have hdz : cop.checkDivZero = false := rfl
  by_cases hn : ty.signed = true ∧ y = -1
  · obtain ⟨hs, rfl⟩ := hn
    refine Or.inl ⟨hs, rfl, ?_⟩
    have e : div ty cop to0 x (-1) .down = negSigned ty cop to0 x .down := by
      unfold div divSigned
      simp only [hs, if_true, hdz, hco, Bool.false_and, Bool.true_and, Bool.false_eq_true, if_false,
        beq_self_eq_true]
    rw [e]
    exact negSigned_tri (wf_cop hb) hs hl hco .down h0 (finite_cop.mpr hx)
  · refine Or.inr ⟨hn, ?_⟩
    have hr := div_inRange hb hl h0 hx hy hy0 .down
    have hsh := div_shape (to0 := to0) hb hx hy hy0 hn (dir := .down) (Or.inl rfl)
    have hF := floor_tdiv_any x y hy0
    rw [hsh] at hr
    rw [hsh, hF]
    by_cases hm : x.tmod y = 0
    · simp only [hm, if_true] at hr ⊢
      refine ⟨_, rfl, hr.1, hr.2, ?_⟩
      simp only [quot_of_tmod_zero x y hy0 hm, if_true]
    · simp only [hm, if_false] at hr ⊢
      cases ht : truncAbove (x.tmod y) y
      · simp only [ht, Bool.false_eq_true, if_false, roundGtNoOverflow, Dir.roundUp] at hr ⊢
        refine ⟨_, rfl, hr.1, hr.2, ?_⟩
        have : ¬ ((x.tdiv y : Int) : Rat) = (x : Rat) / (y : Rat) := fun h => hm (quot_int_iff x y _ hy0 h)
        simp (decide := true) only [this, if_false, Bool.false_eq_true]
      · simp only [ht, if_true, roundLtNoOverflow, Dir.roundDown] at hr ⊢
        simp (decide := true) only [if_true] at hr ⊢
        refine ⟨_, rfl, hr.1, hr.2, ?_⟩
        have : ¬ ((x.tdiv y - 1 : Int) : Rat) = (x : Rat) / (y : Rat) := fun h => hm (quot_int_iff x y _ hy0 h)
        simp only [this, if_false]

theorem div_up {ty : IntTy} (hb : 1 ≤ ty.bits) (hl : ty.LargerOK) {to0 x y : Int}
    (h0 : ty.inRange to0) (hx : ty.inRange x) (hy : ty.inRange y) (hy0 : y ≠ 0) :
    (ty.signed = true ∧ y = -1 ∧ Tri ty cop .up to0 (div ty cop to0 x y .up) (-x)) ∨
    (¬ (ty.signed = true ∧ y = -1) ∧ ∃ C : Int, ((x : Rat) / (y : Rat)).ceil = C ∧ ty.cmin ≤ C ∧ C ≤ ty.cmax ∧
        div ty cop to0 x y .up = (C, if (C : Rat) = (x : Rat) / (y : Rat) then V_EQ else V_LT)) := by
  have hco : cop.checkOverflow = true := rfl
  have hdz : cop.checkDivZero = false := rfl
  by_cases hn : ty.signed = true ∧ y = -1
  · obtain ⟨hs, rfl⟩ := hn
    refine Or.inl ⟨hs, rfl, ?_⟩
    have e : div ty cop to0 x (-1) .up = negSigned ty cop to0 x .up := by
      unfold div divSigned
      simp only [hs, if_true, hdz, hco, Bool.false_and, Bool.true_and, Bool.false_eq_true, if_false,
        beq_self_eq_true]
    rw [e]
    exact negSigned_tri (wf_cop hb) hs hl hco .up h0 (finite_cop.mpr hx)
  · refine Or.inr ⟨hn, ?_⟩
    have hr := div_inRange hb hl h0 hx hy hy0 .up
    have hsh := div_shape (to0 := to0) hb hx hy hy0 hn (dir := .up) (Or.inr rfl)
    have hC := ceil_tdiv_any x y hy0
    rw [hsh] at hr
    rw [hsh, hC]
    by_cases hm : x.tmod y = 0
    · simp only [hm, if_true] at hr ⊢
      refine ⟨_, rfl, hr.1, hr.2, ?_⟩
      simp only [quot_of_tmod_zero x y hy0 hm, if_true]
    · simp only [hm, if_false] at hr ⊢
      cases ht : truncAbove (x.tmod y) y
      · simp only [ht, Bool.false_eq_true, if_false, roundGtNoOverflow, Dir.roundUp] at hr ⊢
        simp (decide := true) only [if_true] at hr ⊢
        refine ⟨_, rfl, hr.1, hr.2, ?_⟩
        have : ¬ ((x.tdiv y + 1 : Int) : Rat) = (x : Rat) / (y : Rat) := fun h => hm (quot_int_iff x y _ hy0 h)
        simp only [this, if_false]
      · simp only [ht, if_true, roundLtNoOverflow, Dir.roundDown] at hr ⊢
        refine ⟨_, rfl, hr.1, hr.2, ?_⟩
        have : ¬ ((x.tdiv y : Int) : Rat) = (x : Rat) / (y : Rat) := fun h => hm (quot_int_iff x y _ hy0 h)
        simp (decide := true) only [this, if_false, Bool.false_eq_true]

/-! ## non-vacuity -/

example : div (tyOfBits 8 true) cop 0 7 (-2) .down = (-4, V_GT) := by decide
example : div (tyOfBits 8 true) cop 0 7 (-2) .up = (-3, V_LT) := by decide
example : div (tyOfBits 8 true) cop 0 (-7) (-2) .down = (3, V_GT) := by decide
example : div (tyOfBits 8 true) cop 0 (-7) (-2) .up = (4, V_LT) := by decide
example : div (tyOfBits 8 true) cop 0 (-7) 2 .down = (-4, V_GT) := by decide
example : div (tyOfBits 8 true) cop 0 (-8) 2 .down = (-4, V_EQ) := by decide
example : div (tyOfBits 8 true) cop 0 (-128) (-1) .up = (0, V_LT_PLUS_INFINITY.orUnrep) := by decide
example : div (tyOfBits 8 true) cop 0 (-128) (-1) .down = (127, V_GT_SUP) := by decide
example : div (tyOfBits 8 true) cop 0 5 (-1) .down = (-5, V_EQ) := by decide
example : div (tyOfBits 8 false) cop 0 255 2 .up = (128, V_LT) := by decide
example : div (tyOfBits 8 false) cop 0 255 2 .down = (127, V_GT) := by decide
example : div (tyOfBits 8 false) cop 0 254 2 .up = (127, V_EQ) := by decide

/-- the hypotheses of `div_down` / `div_up` hold on a non-trivial instance and the second disjunct is the one
that applies -/
example : ∃ F : Int, (((7 : Int) : Rat) / ((-2 : Int) : Rat)).floor = F ∧
    div (tyOfBits 8 true) cop 0 7 (-2) .down = (F, if (F : Rat) = ((7 : Int) : Rat) / ((-2 : Int) : Rat) then V_EQ else V_GT) := by
  have hb : 1 ≤ (tyOfBits 8 true).bits := by decide
  have hl : (tyOfBits 8 true).LargerOK := ⟨fun _ => ⟨by decide, by decide⟩⟩
  have hr : ∀ v : Int, -128 ≤ v → v ≤ 127 → (tyOfBits 8 true).inRange v := fun v a b => by
    have e1 : (tyOfBits 8 true).cmin = -128 := by decide
    have e2 : (tyOfBits 8 true).cmax = 127 := by decide
    unfold IntTy.inRange; rw [e1, e2]; exact ⟨a, b⟩
  rcases div_down (to0 := 0) (x := 7) (y := -2) hb hl (hr 0 (by decide) (by decide)) (hr 7 (by decide) (by decide))
    (hr (-2) (by decide) (by decide)) (by decide) with ⟨_, h, _⟩ | ⟨_, F, a, _, _, b⟩
  · exact absurd h (by decide)
  · exact ⟨F, a, b⟩

end PPLV.Interval.Native
