import PPLV.Interval.ProofsLinForm
import Mathlib.Algebra.Order.AbsoluteValue.Basic
/-!
# C12 — `Linear_Form::intervalize` and `Linear_Form::relative_error` on a concrete store
-/
set_option linter.unnecessarySeqFocus false
set_option linter.unusedSimpArgs false
set_option linter.unusedVariables false
namespace PPLV.Interval
open ExtRat (ninf fin pinf)

section
variable {p : Policy} {R : Rounding} {rho : Nat → Rat}

/-! ### `intervalize` -/

theorem intervalize_go_sound (hR : R.Sound) {store : List Iv}
    (hstore : ∀ (k : Nat) (S : Iv), store[k]? = some S → S.mem p (rho k)) :
    ∀ (cs : List Iv) (cv : List Rat) (k : Nat) (r : Iv) (acc : Rat) (I : Iv),
      lfMem p cs cv → r.mem p acc → intervalize.go false p R store cs k r = some I →
      I.mem p (acc + lfEval.dotFrom rho cv k)
  | [], _, k, r, acc, I, hc, hr, h => by
    cases hc
    simp only [intervalize.go, Option.some.injEq] at h
    subst h; simpa [lfEval.dotFrom] using hr
  | c :: cs, _, k, r, acc, I, hc, hr, h => by
    cases hc with
    | cons h1 t1 =>
      rename_i a cv
      simp only [intervalize.go] at h
      cases hs : store[k]? with
      | none => rw [hs] at h; simp at h
      | some s =>
        rw [hs] at h
        simp only at h
        have hm := addAssign_encloses hR hr (mulAssign_encloses hR h1 (hstore k s hs))
        have := intervalize_go_sound hR hstore cs cv (k + 1) _ _ I t1 hm h
        simp only [lfEval.dotFrom]
        have e : acc + (a * rho k + lfEval.dotFrom rho cv (k + 1)) = acc + a * rho k + lfEval.dotFrom rho cv (k + 1) := by ring
        rw [e]; exact this

/-- the intervalization of a form contains every value of the form on every store inside the box -/
theorem intervalize_sound (hR : R.Sound) {store : List Iv}
    (hstore : ∀ (k : Nat) (S : Iv), store[k]? = some S → S.mem p (rho k))
    {F : List Iv} {v : Rat} {I : Iv} (hv : lfEvalMem p F rho v)
    (h : intervalize false p R store F = some I) : I.mem p v := by
  obtain ⟨c, hc, rfl⟩ := hv
  cases hc with
  | nil => simp [intervalize] at h
  | cons h1 t1 =>
    simp only [intervalize] at h
    simp only [lfEval]
    exact intervalize_go_sound hR hstore _ _ 0 _ _ I t1 h1 h

/-! ### magnitudes -/

theorem ratAbs_eq (q : Rat) : ratAbs q = |q| := by
  unfold ratAbs
  split_ifs with h
  · exact (abs_of_neg h).symm
  · exact (abs_of_nonneg (not_lt.mp h)).symm

theorem magnitude_nonneg (x : Iv) : 0 ≤ magnitude x := by
  unfold magnitude
  split
  · split_ifs <;> rw [ratAbs_eq] <;> exact abs_nonneg _
  · exact le_refl _

theorem abs_le_magnitude {x : Iv} {c : Rat} (hb : isBounded p x = true) (h : x.mem p c) : |c| ≤ magnitude x := by
  obtain ⟨⟨v1, o1⟩, ⟨v2, o2⟩⟩ := x
  unfold isBounded at hb
  simp only [isBoundaryInfinity_eq, Bool.and_eq_true, Bool.not_eq_true'] at hb
  unfold Iv.mem lowerOk upperOk at h
  cases v1 with
  | ninf => simp [normalIsBoundaryInfinity] at hb
  | pinf => simp at h
  | fin l =>
    cases v2 with
    | pinf => simp [normalIsBoundaryInfinity] at hb
    | ninf => simp at h
    | fin u =>
      have h1 := lowerOkV_fin_le h.1
      have h2 := upperOkV_fin_le h.2
      simp only [magnitude, ratAbs_eq]
      have hc : |c| ≤ max |l| |u| := abs_le_max_abs_abs h1 h2
      split_ifs with hlt
      · exact le_trans hc (max_le hlt.le (le_refl _))
      · exact le_trans hc (max_le (le_refl _) (not_lt.mp hlt))

/-- `Σ magnitude(cₖ)·|ρₖ|` over the variable coefficients -/
def magSum (rho : Nat → Rat) : List Iv → Nat → Rat
  | [], _ => 0
  | c :: cs, k => magnitude c * |rho k| + magSum rho cs (k + 1)

theorem magSum_nonneg (rho : Nat → Rat) : ∀ (cs : List Iv) (k : Nat), 0 ≤ magSum rho cs k
  | [], _ => le_refl _
  | c :: cs, k => add_nonneg (mul_nonneg (magnitude_nonneg c) (abs_nonneg _)) (magSum_nonneg rho cs (k + 1))

theorem abs_dotFrom_le : ∀ (cs : List Iv) (cv : List Rat) (k : Nat),
    lfMem p cs cv → lfOverflows p cs = false → |lfEval.dotFrom rho cv k| ≤ magSum rho cs k
  | [], _, k, hc, _ => by cases hc; simp [lfEval.dotFrom, magSum]
  | c :: cs, _, k, hc, hb => by
    cases hc with
    | cons h1 t1 =>
      rename_i a cv
      simp only [lfOverflows, List.any_cons, Bool.or_eq_false_iff, Bool.not_eq_false'] at hb
      have ih := abs_dotFrom_le cs cv (k + 1) t1 (by simpa [lfOverflows] using hb.2)
      simp only [lfEval.dotFrom, magSum]
      have h2 : |a * rho k| ≤ magnitude c * |rho k| := by
        rw [abs_mul]; exact mul_le_mul_of_nonneg_right (abs_le_magnitude hb.1 h1) (abs_nonneg _)
      exact le_trans (abs_add_le _ _) (add_le_add h2 ih)

/-! ### `relative_error` -/

theorem split2 {T A B : Rat} (hA : 0 ≤ A) (hB : 0 ≤ B) (h : |T| ≤ A + B) :
    ∃ T1 T2, T = T1 + T2 ∧ |T1| ≤ A ∧ |T2| ≤ B := by
  have hT := abs_le.mp h
  by_cases h1 : |T| ≤ A
  · exact ⟨T, 0, by ring, h1, by simpa using hB⟩
  · have h1' : A < |T| := not_le.mp h1
    rcases le_or_gt 0 T with h0 | h0
    · rw [abs_of_nonneg h0] at h1'
      refine ⟨A, T - A, by ring, by rw [abs_of_nonneg hA], ?_⟩
      rw [abs_of_nonneg (by linarith)]; linarith
    · rw [abs_of_neg h0] at h1'
      refine ⟨-A, T + A, by ring, by rw [abs_neg, abs_of_nonneg hA], ?_⟩
      rw [abs_of_nonpos (by linarith)]; linarith

/-- one variable's term of `relative_error` -/
theorem relErr_term (hR : R.Sound) {eps : Rat} (heps : 0 ≤ eps) (c : Iv) (k : Nat) {s : Rat}
    (hs : |s| ≤ eps * (magnitude c * |rho k|)) :
    lfEvalMem p (lfMulAssign false p R (lfMulAssign false p R (varForm k) (Iv.point (magnitude c))) (Iv.sym eps)) rho s := by
  have hm := magnitude_nonneg c
  by_cases hz : rho k * magnitude c = 0
  · have : s = 0 := by
      have h0 : magnitude c * |rho k| = 0 := by
        rcases mul_eq_zero.mp hz with h | h
        · rw [h]; simp
        · rw [h]; simp
      rw [h0, mul_zero] at hs
      exact abs_eq_zero.mp (le_antisymm hs (abs_nonneg _))
    subst this
    have := lfEvalMem_mul hR (lfEvalMem_mul hR (lfEvalMem_varForm (p := p) (rho := rho) k) (mem_point p (magnitude c)))
      (mem_sym (p := p) (b := eps) (t := 0) (by simpa using heps))
    simpa using this
  · have hpos : 0 < |rho k * magnitude c| := abs_pos.mpr hz
    have hθ : |s / (rho k * magnitude c)| ≤ eps := by
      rw [abs_div, div_le_iff₀ hpos, abs_mul, abs_of_nonneg hm]
      calc |s| ≤ eps * (magnitude c * |rho k|) := hs
        _ = eps * (|rho k| * magnitude c) := by ring
    have := lfEvalMem_mul hR (lfEvalMem_mul hR (lfEvalMem_varForm (p := p) (rho := rho) k) (mem_point p (magnitude c)))
      (mem_sym (p := p) hθ)
    have e : rho k * magnitude c * (s / (rho k * magnitude c)) = s := by rw [mul_comm, div_mul_cancel₀ s hz]
    rw [e] at this
    exact this

theorem relErr_go (hR : R.Sound) {eps : Rat} (heps : 0 ≤ eps) :
    ∀ (cs : List Iv) (k : Nat) (r : List Iv) (acc T : Rat),
      lfEvalMem p r rho acc → |T| ≤ eps * magSum rho cs k →
      lfEvalMem p (relativeError.go false p R (Iv.sym eps) cs k r) rho (acc + T)
  | [], k, r, acc, T, hr, hT => by
    simp only [magSum, mul_zero] at hT
    have : T = 0 := abs_eq_zero.mp (le_antisymm hT (abs_nonneg _))
    subst this
    simpa [relativeError.go] using hr
  | c :: cs, k, r, acc, T, hr, hT => by
    simp only [magSum, mul_add] at hT
    obtain ⟨T1, T2, rfl, h1, h2⟩ := split2
      (mul_nonneg heps (mul_nonneg (magnitude_nonneg c) (abs_nonneg _)))
      (mul_nonneg heps (magSum_nonneg rho cs (k + 1))) hT
    simp only [relativeError.go]
    have ht := relErr_term (p := p) (rho := rho) hR heps c k h1
    have := relErr_go hR heps cs (k + 1) _ (acc + T1) T2 (lfEvalMem_add hR hr ht) h2
    have e : acc + (T1 + T2) = acc + T1 + T2 := by ring
    rw [e]; exact this

/-- **`relative_error`**: for every instance value `a` of a bounded form on the store and every error
`t` with `|t| ≤ eps·|a|`, `t` is a value of the relative-error form on the store -/
theorem relativeError_encloses (hR : R.Sound) {eps : Rat} (heps : 0 ≤ eps) {F : List Iv} {a t : Rat}
    (hb : lfOverflows p F = false) (ha : lfEvalMem p F rho a) (ht : |t| ≤ eps * |a|) :
    lfEvalMem p (relativeError false p R eps F) rho t := by
  obtain ⟨c, hc, rfl⟩ := ha
  cases hc with
  | nil =>
    simp only [lfEval, abs_zero, mul_zero] at ht
    have : t = 0 := abs_eq_zero.mp (le_antisymm ht (abs_nonneg _))
    subst this
    exact ⟨[], List.Forall₂.nil, by simp [lfEval]⟩
  | cons h1 t1 =>
    rename_i i0 c0 cs cv
    simp only [lfOverflows, List.any_cons, Bool.or_eq_false_iff, Bool.not_eq_false'] at hb
    have hb2 : lfOverflows p cs = false := by simpa [lfOverflows] using hb.2
    have hsum : |lfEval (c0 :: cv) rho| ≤ magnitude i0 + magSum rho cs 0 := by
      simp only [lfEval]
      exact le_trans (abs_add_le _ _) (add_le_add (abs_le_magnitude hb.1 h1) (abs_dotFrom_le cs cv 0 t1 hb2))
    have ht' : |t| ≤ eps * magnitude i0 + eps * magSum rho cs 0 := by
      calc |t| ≤ eps * |lfEval (c0 :: cv) rho| := ht
        _ ≤ eps * (magnitude i0 + magSum rho cs 0) := mul_le_mul_of_nonneg_left hsum heps
        _ = _ := by ring
    obtain ⟨T1, T2, rfl, h1', h2'⟩ := split2 (mul_nonneg heps (magnitude_nonneg i0))
      (mul_nonneg heps (magSum_nonneg rho cs 0)) ht'
    simp only [relativeError]
    -- the inhomogeneous term: [magnitude i0] *= [-eps, eps]
    have hr0 : lfEvalMem p (lfMulAssign false p R [Iv.point (magnitude i0)] (Iv.sym eps)) rho T1 := by
      have hm := magnitude_nonneg i0
      by_cases hz : magnitude i0 = 0
      · rw [hz, mul_zero] at h1'
        have : T1 = 0 := abs_eq_zero.mp (le_antisymm h1' (abs_nonneg _))
        subst this
        have := lfEvalMem_mul (rho := rho) hR ⟨[magnitude i0], List.Forall₂.cons (mem_point p _) List.Forall₂.nil, rfl⟩
          (mem_sym (p := p) (b := eps) (t := 0) (by simpa using heps))
        simpa using this
      · have hpos : 0 < magnitude i0 := lt_of_le_of_ne hm (Ne.symm hz)
        have hθ : |T1 / magnitude i0| ≤ eps := by
          rw [abs_div, abs_of_pos hpos, div_le_iff₀ hpos]; exact h1'
        have := lfEvalMem_mul (rho := rho) hR ⟨[magnitude i0], List.Forall₂.cons (mem_point p _) List.Forall₂.nil, rfl⟩
          (mem_sym (p := p) hθ)
        have e : lfEval [magnitude i0] rho * (T1 / magnitude i0) = T1 := by
          simp only [lfEval, lfEval.dotFrom, add_zero]; rw [mul_comm, div_mul_cancel₀ T1 hz]
        rw [e] at this; exact this
    exact relErr_go hR heps cs 0 _ T1 T2 hr0 h2'

end

end PPLV.Interval
