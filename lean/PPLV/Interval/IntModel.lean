import PPLV.Interval.Model
import PPLV.Checked.Spec
/-!
# C12 — intervals over native bounded integers (`Interval<int8_t … uint64_t, Info>`), no Mathlib

The boundaries of `Int8_Box … Uint64_Box` (`/repo/interfaces/interfaced_boxes.hh`) are native
integers `T`; a boundary computation is a checked operation of `checked_int_inlines.hh` on raw
`T` values (destination policy `Check_Overflow_Policy<T>`: `check_overflow`, no NaN, no infinity —
`Native_Checked_To_Wrapper`, Checked_Number_defs.hh:124) with the rounding direction of the side
(`LOWER = ROUND_DOWN`, `UPPER = ROUND_UP`, Boundary_defs.hh:50), followed by
`Boundary_NS::adjust_boundary`, which turns the returned `Result` code into the Info bits
(`OPEN`, and `SPECIAL` = "this side is unbounded" when the checked layer reported an overflow
towards the infinity of the side without storing anything).

This file
* transliterates `adjust_boundary` (Boundary_defs.hh:450-513) case by case over the result codes,
  for both halves (`adjustBoundary`);
* defines the boundary functions `assign`, `complement`, `neg_assign`, `add_assign`, `sub_assign`,
  `mul_assign`, `div_assign`, `set_zero`, `mul_assign_z`, `div_assign_z` of `Boundary_NS` on native
  boundaries `NB` (raw value + the two Info bits) **literally** as "run the verified C11 model
  (`PPLV.Checked.IntOp.run` with `Check_Overflow_Policy`) with the direction of the side, then
  `adjustBoundary`";
* defines the directed rounding of the C12 interval model for a native integer type,
  `Rounding.native ty`, as the C11 model of `assign_r(to, mpq_class, dir)` followed by
  `adjustBoundary` — so that the whole C12 model (`Model.lean`) instantiated with
  `Rounding.native ty` is the model of `Interval<T, Info>`.

`ProofsInt*.lean` prove that the native boundary functions agree with the boundary functions of
the C12 model under `Rounding.native ty`, that this rounding is sound, and hence that every C12
enclosure theorem holds for native-integer intervals (`Props/C12Int.lean`).
-/
namespace PPLV.Interval
open ExtRat (ninf fin pinf)
open PPLV.Checked (IntTy Result Dir IntOp)
open PPLV.Checked.Result

namespace Native

/-- `Check_Overflow_Policy<T>` for a native integer `T` (Checked_Number_defs.hh:70) -/
def cop : PPLV.Checked.Policy := PPLV.Checked.Policy.checkOverflowOnly

/-- a boundary of `Interval<T, Info>`, `T` a native integer: the stored `T` and the Info bits -/
structure NB where
  raw : Int
  special : Bool := false
  «open» : Bool := false
deriving DecidableEq, Repr, Inhabited

/-- what the boundary denotes in the C12 model: `SPECIAL` is the infinity of the side -/
def NB.toBound (t : BT) (b : NB) : Bound :=
  ⟨if b.special then infOf t else fin (b.raw : Rat), b.open⟩

/-- `result_relation_class(r)` (Result_inlines.hh:68): `r & (VR_MASK | VC_MASK)` -/
def resultRelationClass (r : Result) : Result := { rel := r.rel, cls := r.cls }

/-- `info.set_boundary_property(type, OPEN)` (stored only when the policy has `store_open`) -/
def setOpenBit (p : Policy) (x : NB) : NB := if p.storeOpen then { x with «open» := true } else x

/-- `special_set_boundary_infinity` (Boundary_defs.hh:65): sets SPECIAL, leaves the value, returns `V_EQ` -/
def specialSetBoundaryInfinity (p : Policy) (x : NB) : NB × Result :=
  (if p.storeSpecial then { x with special := true } else x, V_EQ)

/-- the body shared by `case V_EQ_MINUS_INFINITY:` (LOWER) and `case V_EQ_PLUS_INFINITY:` (UPPER),
Boundary_defs.hh:461-468 / 490-497 -/
def adjInfinity (p : Policy) (x : NB) (opn : Bool) (r : Result) : NB × Result :=
  if !p.storeSpecial then (x, r)
  else
    let x := if opn then setOpenBit p x else x
    specialSetBoundaryInfinity p x

/-- the body shared by `case V_GE: case V_EQ:` (LOWER) and `case V_LE: case V_EQ:` (UPPER),
Boundary_defs.hh:473-478 / 502-507 -/
def adjNormal (p : Policy) (x : NB) (opn : Bool) (r : Result) : NB × Result :=
  (if opn then setOpenBit p x else x, r)

/-- `Boundary_NS::adjust_boundary(type, x, info, open, r)` (Boundary_defs.hh:450-513).
`none` is the `default: PPL_UNREACHABLE` label. -/
def adjustBoundary (p : Policy) (t : BT) (x : NB) (opn : Bool) (r : Result) : Option (NB × Result) :=
  let r := resultRelationClass r
  match t with
  | .lower =>
    if r = V_GT_MINUS_INFINITY then adjInfinity p x true r          -- open = true; fall through
    else if r = V_EQ_MINUS_INFINITY then adjInfinity p x opn r
    else if r = V_GT then adjNormal p x true r                      -- open = true; fall through
    else if r = V_GE ∨ r = V_EQ then adjNormal p x opn r
    else none
  | .upper =>
    if r = V_LT_PLUS_INFINITY then adjInfinity p x true r
    else if r = V_EQ_PLUS_INFINITY then adjInfinity p x opn r
    else if r = V_LT then adjNormal p x true r
    else if r = V_LE ∨ r = V_EQ then adjNormal p x opn r
    else none

/-- `static_cast<Rounding_Dir>(t)`: `LOWER = ROUND_DOWN`, `UPPER = ROUND_UP`.  The bit
`ROUND_STRICT_RELATION` that `round_dir_check` may add is ignored by the integer layer, which
always reports strict relations (`round_dir(dir)` masks it off). -/
def dirOf : BT → Dir
  | .lower => .down
  | .upper => .up

/-- `r = op_assign_r(to, …, round_dir_check(to_type, check)); return adjust_boundary(to_type, to,
to_info, should_shrink, r);` on cleared info, `out` the outcome `(to, r)` of the checked operation -/
def finish (p : Policy) (tt : BT) (shrink : Bool) (out : Int × Result) : Option NB :=
  (adjustBoundary p tt { raw := out.1 } shrink out.2).map (·.1)

/-- the checked operation on raw native values: the C11 model with `Check_Overflow_Policy<T>`
for every operand (no special encodings), direction of the side -/
def chk (ty : IntTy) (op : IntOp) (tt : BT) (to0 x y : Int) : Int × Result :=
  IntOp.run ty cop op (dirOf tt) { to0 := to0, x := x, y := y }

/-- `set_boundary_infinity(to_type, to, to_info, open)` with `store_special` (Boundary_defs.hh:176) -/
def nbSetBoundaryInfinity (p : Policy) (to0 : Int) (opn : Bool) : NB :=
  let x := (specialSetBoundaryInfinity p { raw := to0 }).1
  if opn then setOpenBit p x else x

/-- the type of `Constant<0>::value`: the smallest signed type that fits (`signed char`) -/
def constTy : IntTy := { bits := 8, signed := true }

/-- `set_zero` (Boundary_defs.hh:692) -/
def nbSetZero (ty : IntTy) (p : Policy) (tt : BT) (shrink : Bool) (to0 : Int := 0) : Option NB :=
  finish p tt shrink (chk ty (.assign constTy cop) tt to0 0 0)

/-- `Boundary_NS::assign` (Boundary_defs.hh:536) -/
def nbAssign (ty : IntTy) (p : Policy) (tt t : BT) (x : NB) (shrink : Bool := false) (to0 : Int := 0) :
    Option NB :=
  if getSpecial p t (x.toBound t) then some (nbSetBoundaryInfinity p to0 (shrink || specialIsOpen p))
  else finish p tt (shrink || normalIsOpen p t (x.toBound t)) (chk ty (.assign ty cop) tt to0 x.raw 0)

/-- `Boundary_NS::complement` (Boundary_defs.hh:515); with `store_special` the first branch calls
`set_minus_infinity` / `set_plus_infinity`, which assert `to_type == type` resp. are reached only
with `may_contain_infinity`: not reachable for the native-integer policies, modelled as written -/
def nbComplement (ty : IntTy) (p : Policy) (tt t : BT) (x : NB) (to0 : Int := 0) : Option NB :=
  if getSpecial p t (x.toBound t) then
    let y := (specialSetBoundaryInfinity p { raw := to0 }).1
    some (if !specialIsOpen p then setOpenBit p y else y)
  else finish p tt (!normalIsOpen p t (x.toBound t)) (chk ty (.assign ty cop) tt to0 x.raw 0)

/-- `Boundary_NS::neg_assign` (Boundary_defs.hh:601) -/
def nbNeg (ty : IntTy) (p : Policy) (tt t : BT) (x : NB) (to0 : Int := 0) : Option NB :=
  if getSpecial p t (x.toBound t) then some (nbSetBoundaryInfinity p to0 (specialIsOpen p))
  else finish p tt (normalIsOpen p t (x.toBound t)) (chk ty .neg tt to0 x.raw 0)

/-- the shape shared by `add_assign`, `sub_assign`, `mul_assign` (Boundary_defs.hh:617-690) -/
def nbArith (op : IntOp) (ty : IntTy) (p : Policy) (tt t1 : BT) (x1 : NB) (t2 : BT) (x2 : NB)
    (to0 : Int := 0) : Option NB :=
  let b1 := x1.toBound t1
  let b2 := x2.toBound t2
  if isBoundaryInfinity p t1 b1 then
    some (nbSetBoundaryInfinity p to0 (boundaryInfinityIsOpen p b1 && !isBoundaryInfinityClosed p t2 b2))
  else if isBoundaryInfinity p t2 b2 then
    some (nbSetBoundaryInfinity p to0 (boundaryInfinityIsOpen p b2 && !isBoundaryInfinityClosed p t1 b1))
  else finish p tt (normalIsOpen p t1 b1 || normalIsOpen p t2 b2) (chk ty op tt to0 x1.raw x2.raw)

def nbAdd (ty : IntTy) (p : Policy) (tt t1 : BT) (x1 : NB) (t2 : BT) (x2 : NB) (to0 : Int := 0) : Option NB :=
  nbArith .add ty p tt t1 x1 t2 x2 to0
def nbSub (ty : IntTy) (p : Policy) (tt t1 : BT) (x1 : NB) (t2 : BT) (x2 : NB) (to0 : Int := 0) : Option NB :=
  nbArith .sub ty p tt t1 x1 t2 x2 to0
def nbMul (ty : IntTy) (p : Policy) (tt t1 : BT) (x1 : NB) (t2 : BT) (x2 : NB) (to0 : Int := 0) : Option NB :=
  nbArith .mul ty p tt t1 x1 t2 x2 to0

/-- `mul_assign_z` (Boundary_defs.hh:700) -/
def nbMulZ (ty : IntTy) (p : Policy) (tt t1 : BT) (x1 : NB) (x1s : Int) (t2 : BT) (x2 : NB) (x2s : Int)
    (to0 : Int := 0) : Option NB :=
  if x1s != 0 then
    if x2s != 0 then nbMul ty p tt t1 x1 t2 x2 to0
    else nbSetZero ty p tt (getOpen p (x2.toBound t2)) to0
  else nbSetZero ty p tt (getOpen p (x1.toBound t1) && (x2s != 0 || getOpen p (x2.toBound t2))) to0

/-- `Boundary_NS::div_assign` (Boundary_defs.hh:723) -/
def nbDiv (ty : IntTy) (p : Policy) (tt t1 : BT) (x1 : NB) (t2 : BT) (x2 : NB) (to0 : Int := 0) : Option NB :=
  let b1 := x1.toBound t1
  let b2 := x2.toBound t2
  if isBoundaryInfinity p t1 b1 then some (nbSetBoundaryInfinity p to0 (boundaryInfinityIsOpen p b1))
  else if isBoundaryInfinity p t2 b2 then nbSetZero ty p tt (boundaryInfinityIsOpen p b2) to0
  else finish p tt (normalIsOpen p t1 b1 || normalIsOpen p t2 b2) (chk ty .div tt to0 x1.raw x2.raw)

/-- `div_assign_z` (Boundary_defs.hh:747) -/
def nbDivZ (ty : IntTy) (p : Policy) (tt t1 : BT) (x1 : NB) (x1s : Int) (t2 : BT) (x2 : NB) (x2s : Int)
    (to0 : Int := 0) : Option NB :=
  if x1s != 0 then
    if x2s != 0 then nbDiv ty p tt t1 x1 t2 x2 to0
    else some (nbSetBoundaryInfinity p to0 true)
  else nbSetZero ty p tt (getOpen p (x1.toBound t1) && !isBoundaryInfinityClosed p t2 (x2.toBound t2)) to0

/-- the value part of the boundary that `assign_r(to, q, dir)` + `adjust_boundary` produce for
the exact rational `q` on side `t` (`Native_Integer_Box_Interval_Info_Policy`; the value does not
depend on the OPEN handling).  `assign_r(T&, const mpq_class&, dir)` is `assign_int_mpq`
(checked_int_inlines.hh), C11 model `assignMpq`.  The `default: PPL_UNREACHABLE` label would give
the infinity of the *other* side — an impossible bound; `native_sound` shows it is never taken. -/
def roundSide (ty : IntTy) (t : BT) (q : Rat) : ExtRat :=
  match finish Policy.integer t false (PPLV.Checked.assignMpq ty cop 0 q.num q.den (dirOf t)) with
  | some nb => (nb.toBound t).value
  | none => match t with | .lower => pinf | .upper => ninf

end Native

/-- **the directed rounding of a native bounded integer type**: checked conversion of the exact
rational with the direction of the side (C11 model), then `adjust_boundary` -/
def Rounding.native (ty : IntTy) : Rounding :=
  ⟨Native.roundSide ty .lower, Native.roundSide ty .upper⟩

namespace Native

/-- the native integer types of `interfaced_boxes.hh` on this platform (`Larger<T>` routing as in
`checked_int_inlines.hh`; the driver reads the widths from the journal) -/
def tyOfBits (bits : Nat) (signed : Bool) : IntTy :=
  if bits ≤ 32 then { bits := bits, signed := signed, useNeg := true, useAdd := true, useSub := true, useMul := true, lbits := 64 }
  else { bits := bits, signed := signed, lbits := 64 }

/-- a boundary holds a value of the type -/
def NB.WF (ty : IntTy) (x : NB) : Prop := ty.cmin ≤ x.raw ∧ x.raw ≤ ty.cmax

/-- a bound of the C12 model that is a boundary of `Interval<T, Info>`: infinite on its own side, or
an integer of the type -/
def nativeBound (ty : IntTy) (t : BT) (b : Bound) : Bool :=
  match b.value with
  | fin q => q.den == 1 && decide (ty.cmin ≤ q.num) && decide (q.num ≤ ty.cmax)
  | v => v == infOf t

/-- an interval of the C12 model that is a value of `Interval<T, Info>` -/
def nativeIv (ty : IntTy) (x : Iv) : Bool := nativeBound ty .lower x.lo && nativeBound ty .upper x.hi

/-- the native boundary behind a native bound of the model -/
def NB.ofBound (b : Bound) : NB :=
  match b.value with
  | fin q => { raw := q.num, special := false, «open» := b.open }
  | _ => { raw := 0, special := true, «open» := b.open }

end Native
end PPLV.Interval
