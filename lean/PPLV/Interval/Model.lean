/-!
# C12 — `Boundary_NS` and `Interval` arithmetic: code-shaped executable model (no Mathlib)

Transliteration of `/repo/src/Boundary_defs.hh` and of the `Interval` operations of
`Interval_defs.hh`, `Interval_inlines.hh`, `Interval_templates.hh`.

Representation.  A C++ boundary is a value of the boundary type `T` plus two bits of the
`Info` bitset (`SPECIAL`, `OPEN`).  Here a `Bound` is `{value : ExtRat, open : Bool}`:

* `value = ninf / pinf` stands both for "the `SPECIAL` bit is set" (policies with
  `store_special`; the stored `T` is then meaningless) and for "the `T` value is ∓∞"
  (floating boundaries; `store_special` is then forbidden by a compile-time check), so the two
  never coexist;
* `open` is the stored `OPEN` bit; it is never set when the policy does not store it
  (`set_boundary_property` is then a no-op) and the accessor `isOpen` is what the class reports.

Every checked-number operation `op_assign_r(to, …, dir)` followed by `adjust_boundary` is the
function `adjust`: the exact rational result goes through the abstract rounding
`R.down` / `R.up` (`Rounding.id` for `mpq_class`, floor/ceil for integer boundaries, binary
floating point for `double`), and an inexact rounding makes the bound open when the policy
stores openness (`check` requests `ROUND_STRICT_RELATION`, the `V_GT`/`V_LT` result sets `OPEN`).

`Interval::mul_assign` is transliterated with the Boolean switch `d3`:
`d3 = true` is the code of the unchanged tree — in the case "both operands straddle zero" the
second candidate bound is copied by `to_lower = tmp` / `upper() = tmp`, which copies the value
only, so the `Info` bits (OPEN, and SPECIAL when stored) of the *discarded* candidate are kept;
`d3 = false` copies the candidate's bits too.  (With `store_special` and an infinite second
candidate the real code is left with the unspecified content of a dirty temporary as a finite
bound; the model returns the infinite value with the kept OPEN bit there, and the driver does
not compare the model with the library on that sub-case — the verdict on the real output is
still taken.)  `Interval::wrap_assign` has the switch `d12` (`u > lower` as written, `u ≥ lower`
when repaired).  `refine_universal` follows the repaired code (commits 2666657 and 17f6149);
`refineUniversalNeBeforeFix` keeps the former `NOT_EQUAL` case as a witness.

Contents: `ExtRat`, `Policy`, `Bound`, `Iv`, `Rounding` (exact / integer / binary floating point);
`Boundary_NS` (`lt le eq`, `assign`, `complement`, `min/max_assign`, `neg/add/sub/mul/div_assign`,
`mul/div_assign_z`, `set_zero`, `umod/smod_2exp_assign`, `adjust_boundary`); `Interval`
(`assign`, `contains`, `strictly_contains`, `is_disjoint_from`, `==`, `join/intersect/difference_assign`,
`refine_existential/universal`, `neg/add/sub/mul/div_assign`, `wrap_assign`, `CC76_widening_assign`);
`Linear_Form` `+`, `−`, scalar `×`.  Every definition here is executed against the real library at
every run of `checks/c12.py` (driver `Driver/C12.lean`).
-/
namespace PPLV.Interval

/-- ℚ ∪ {−∞, +∞} -/
inductive ExtRat where
  | ninf
  | fin (q : Rat)
  | pinf
deriving DecidableEq, Repr, Inhabited

namespace ExtRat

def isFin : ExtRat → Bool
  | fin _ => true
  | _ => false

/-- raw `less_than` of the boundary type (total order, −∞ < q < +∞) -/
def lt : ExtRat → ExtRat → Bool
  | ninf, ninf => false
  | ninf, _ => true
  | fin _, ninf => false
  | fin a, fin b => decide (a < b)
  | fin _, pinf => true
  | pinf, _ => false

/-- raw `less_or_equal` -/
def le (a b : ExtRat) : Bool := !(lt b a)

def neg : ExtRat → ExtRat
  | ninf => pinf
  | fin q => fin (-q)
  | pinf => ninf

def ratSgn (q : Rat) : Int := if q < 0 then -1 else if q = 0 then 0 else 1

def sgn : ExtRat → Int
  | ninf => -1
  | fin q => ratSgn q
  | pinf => 1

/-- The binary operations are only ever applied by the library to finite values (infinite
boundaries are intercepted by `is_boundary_infinity`); the other entries make them total. -/
def add : ExtRat → ExtRat → ExtRat
  | fin a, fin b => fin (a + b)
  | fin _, y => y
  | x, _ => x

def sub : ExtRat → ExtRat → ExtRat
  | fin a, fin b => fin (a - b)
  | fin _, y => neg y
  | x, _ => x

def mul : ExtRat → ExtRat → ExtRat
  | fin a, fin b => fin (a * b)
  | fin a, y => if a < 0 then neg y else y
  | x, y => if sgn y < 0 then neg x else x

def div : ExtRat → ExtRat → ExtRat
  | fin a, fin b => fin (a / b)
  | fin _, _ => fin 0
  | x, y => if sgn y < 0 then neg x else x

end ExtRat

open ExtRat (ninf fin pinf)

/-- `Boundary_NS::Boundary_Type` -/
inductive BT where
  | lower
  | upper
deriving DecidableEq, Repr, Inhabited

/-- the compile-time constants of an `Interval_Info` policy that the code consults -/
structure Policy where
  storeSpecial : Bool
  storeOpen : Bool
  mayContainInfinity : Bool
  checkInexact : Bool
  mayBeEmpty : Bool
deriving DecidableEq, Repr, Inhabited

namespace Policy
/-- `Rational_Interval_Info_Policy` (also `Rational_Real_Open_Interval_Info_Policy`) -/
def rational : Policy := ⟨true, true, false, false, true⟩
/-- `Z_Box_Interval_Info_Policy`, `Native_Integer_Box_Interval_Info_Policy` -/
def integer : Policy := ⟨true, false, false, false, true⟩
/-- `Floating_Point_Box_Interval_Info_Policy`, `Floating_Real_Open_Interval_Info_Policy` -/
def floating : Policy := ⟨false, true, false, false, true⟩
/-- `Floating_Real_Closed_Interval_Info_Policy` -/
def floatingClosed : Policy := ⟨false, false, false, false, false⟩
/-- `Interval_NS::Scalar_As_Interval_Policy` with `Interval_Info_Null` (`SCALAR_INFO`) -/
def scalar : Policy := ⟨false, false, true, false, true⟩
end Policy

structure Bound where
  value : ExtRat
  /-- the stored OPEN property -/
  «open» : Bool
deriving DecidableEq, Repr, Inhabited

structure Iv where
  lo : Bound
  hi : Bound
deriving DecidableEq, Repr, Inhabited

/-- the directed rounding of the boundary type: result of rounding an exact rational towards
−∞ (`down`) or +∞ (`up`); overflow gives the infinity of that direction -/
structure Rounding where
  down : Rat → ExtRat
  up : Rat → ExtRat

namespace Rounding

/-- exact boundary types (`mpq_class`) -/
protected def id : Rounding := ⟨fin, fin⟩

/-- integer boundary types (`mpz_class`): floor / ceiling -/
def int : Rounding := ⟨fun q => fin (q.floor : Rat), fun q => fin (q.ceil : Rat)⟩

def pow2 (e : Int) : Rat :=
  if e ≥ 0 then ((2 : Rat) ^ e.toNat) else 1 / ((2 : Rat) ^ (-e).toNat)

/-- ⌊log₂ |q|⌋ for `q ≠ 0` -/
def ilog2 (q : Rat) : Int :=
  let n := q.num.natAbs
  let d := q.den
  let e0 : Int := (Nat.log2 n : Int) - (Nat.log2 d : Int)
  let a : Rat := if q < 0 then -q else q
  if a < pow2 e0 then e0 - 1 else if pow2 (e0 + 1) ≤ a then e0 + 1 else e0

/-- unit in the last place used for `q` in a binary format with `prec` significant bits and
least normal exponent `emin` (gradual underflow below it) -/
def ulp (prec : Nat) (emin : Int) (q : Rat) : Rat :=
  let e := if q = 0 then emin else ilog2 q
  let e := if e < emin then emin else e
  pow2 (e - (prec : Int) + 1)

def maxFinite (prec : Nat) (emax : Int) : Rat :=
  (pow2 (prec : Int) - 1) * pow2 (emax - (prec : Int) + 1)

/-- binary floating point with correct directed rounding -/
def float (prec : Nat) (emin emax : Int) : Rounding where
  down q :=
    let m := maxFinite prec emax
    if q < -m then ninf
    else if m < q then fin m
    else let u := ulp prec emin q; fin (((q / u).floor : Rat) * u)
  up q :=
    let m := maxFinite prec emax
    if m < q then pinf
    else if q < -m then fin (-m)
    else let u := ulp prec emin q; fin (((q / u).ceil : Rat) * u)

/-- IEEE 754 binary64 -/
def double : Rounding := float 53 (-1022) 1023

end Rounding

/-! ## `Boundary_NS` -/
section Boundary

/-- `info.get_boundary_property(type, SPECIAL)` -/
def getSpecial (p : Policy) (t : BT) (b : Bound) : Bool :=
  p.storeSpecial &&
    (match t, b.value with
     | .lower, ninf => true
     | .upper, pinf => true
     | _, _ => false)

/-- `info.get_boundary_property(type, OPEN)` -/
def getOpen (p : Policy) (b : Bound) : Bool := p.storeOpen && b.open

/-- `normal_is_boundary_infinity` (the value of the boundary type is the infinity of its side) -/
def normalIsBoundaryInfinity (t : BT) (b : Bound) : Bool :=
  match t, b.value with
  | .lower, ninf => true
  | .upper, pinf => true
  | _, _ => false

/-- `is_boundary_infinity` -/
def isBoundaryInfinity (p : Policy) (t : BT) (b : Bound) : Bool :=
  if p.storeSpecial then getSpecial p t b else normalIsBoundaryInfinity t b

/-- `normal_is_reverse_infinity` / `is_reverse_infinity` -/
def isReverseInfinity (p : Policy) (t : BT) (b : Bound) : Bool :=
  if !p.mayContainInfinity then false
  else match t, b.value with
    | .lower, pinf => true
    | .upper, ninf => true
    | _, _ => false

def isMinusInfinity (p : Policy) (t : BT) (b : Bound) : Bool :=
  match t with
  | .lower => if p.storeSpecial then getSpecial p t b else normalIsBoundaryInfinity t b
  | .upper => !p.storeSpecial && isReverseInfinity p t b

def isPlusInfinity (p : Policy) (t : BT) (b : Bound) : Bool :=
  match t with
  | .upper => if p.storeSpecial then getSpecial p t b else normalIsBoundaryInfinity t b
  | .lower => !p.storeSpecial && isReverseInfinity p t b

def specialIsOpen (p : Policy) : Bool := !p.mayContainInfinity

def normalIsOpen (p : Policy) (t : BT) (b : Bound) : Bool :=
  if p.storeOpen then getOpen p b
  else !p.storeSpecial && !p.mayContainInfinity && normalIsBoundaryInfinity t b

/-- `is_open`: what `lower_is_open()` / `upper_is_open()` report -/
def isOpen (p : Policy) (t : BT) (b : Bound) : Bool :=
  if p.storeOpen then getOpen p b
  else !p.mayContainInfinity && isBoundaryInfinity p t b

def isBoundaryInfinityClosed (p : Policy) (t : BT) (b : Bound) : Bool :=
  p.mayContainInfinity && !getOpen p b && isBoundaryInfinity p t b

def boundaryInfinityIsOpen (p : Policy) (b : Bound) : Bool :=
  !p.mayContainInfinity || getOpen p b

/-- `sgn_b` -/
def sgnB (p : Policy) (t : BT) (b : Bound) : Int :=
  if getSpecial p t b then (match t with | .lower => -1 | .upper => 1)
  else b.value.sgn

/-- `Boundary_NS::lt` (the `goto le` is the first test) -/
def lt (p1 : Policy) (t1 : BT) (b1 : Bound) (p2 : Policy) (t2 : BT) (b2 : Bound) : Bool :=
  let leBranch :=
    if isOpen p1 t1 b1 then t1 == .upper && (t2 == .lower || !isOpen p2 t2 b2)
    else t2 == .lower && isOpen p2 t2 b2
  if leBranch then
    if isMinusInfinity p1 t1 b1 || isPlusInfinity p2 t2 b2 then true
    else if isPlusInfinity p1 t1 b1 || isMinusInfinity p2 t2 b2 then false
    else b1.value.le b2.value
  else
    if isPlusInfinity p1 t1 b1 || isMinusInfinity p2 t2 b2 then false
    else if isMinusInfinity p1 t1 b1 || isPlusInfinity p2 t2 b2 then true
    else b1.value.lt b2.value

def gt (p1 : Policy) (t1 : BT) (b1 : Bound) (p2 : Policy) (t2 : BT) (b2 : Bound) : Bool :=
  lt p2 t2 b2 p1 t1 b1

def le (p1 : Policy) (t1 : BT) (b1 : Bound) (p2 : Policy) (t2 : BT) (b2 : Bound) : Bool :=
  !gt p1 t1 b1 p2 t2 b2

def ge (p1 : Policy) (t1 : BT) (b1 : Bound) (p2 : Policy) (t2 : BT) (b2 : Bound) : Bool :=
  !lt p1 t1 b1 p2 t2 b2

/-- `Boundary_NS::eq` -/
def eq (p1 : Policy) (t1 : BT) (b1 : Bound) (p2 : Policy) (t2 : BT) (b2 : Bound) : Bool :=
  let flagsOk :=
    if t1 == t2 then isOpen p1 t1 b1 == isOpen p2 t2 b2
    else !(isOpen p1 t1 b1 || isOpen p2 t2 b2)
  if !flagsOk then false
  else if isMinusInfinity p1 t1 b1 then isMinusInfinity p2 t2 b2
  else if isPlusInfinity p1 t1 b1 then isPlusInfinity p2 t2 b2
  else if isMinusInfinity p2 t2 b2 || isPlusInfinity p2 t2 b2 then false
  else b1.value == b2.value

def infOf : BT → ExtRat
  | .lower => ninf
  | .upper => pinf

/-- `set_boundary_infinity(to_type, to, to_info, open)` on cleared info -/
def setBoundaryInfinity (p : Policy) (t : BT) (shrink : Bool) : Bound :=
  ⟨infOf t, p.storeOpen && shrink⟩

/-- `set_unbounded` on cleared info -/
def setUnbounded (p : Policy) (t : BT) : Bound :=
  ⟨infOf t, p.storeOpen && !p.mayContainInfinity⟩

/-- `r = op_assign_r(to, …, round_dir_check(to_type, check)); adjust_boundary(to_type, to, to_info,
should_shrink, r)` on cleared info, where `exact` is the exact result of the operation. -/
def adjust (p : Policy) (R : Rounding) (t : BT) (exact : ExtRat) (shrink : Bool) : Bound :=
  match exact with
  | fin q =>
    let check := p.checkInexact || (!shrink && p.storeOpen)
    match (match t with | .lower => R.down q | .upper => R.up q) with
    | fin q' =>
      -- V_GT / V_LT is reported only with ROUND_STRICT_RELATION; it forces `open`
      let strict := check && q' != q
      ⟨fin q', p.storeOpen && (shrink || strict)⟩
    | v => ⟨v, p.storeOpen⟩      -- overflow: V_GT(_MINUS_INFINITY) / V_LT(_PLUS_INFINITY)
  | v => ⟨v, p.storeOpen && shrink⟩   -- an infinite value of a floating boundary is copied, V_EQ

/-- `Boundary_NS::assign(to_type, to, to_info, type, x, info, should_shrink)` -/
def bAssign (p : Policy) (R : Rounding) (tt : BT) (pf : Policy) (t : BT) (x : Bound)
    (shrink : Bool := false) : Bound :=
  if getSpecial pf t x then setBoundaryInfinity p tt (shrink || specialIsOpen pf)
  else adjust p R tt x.value (shrink || normalIsOpen pf t x)

/-- `set_minus_infinity` / `set_plus_infinity` (used by `complement`, `assign(MINUS_INFINITY)`) -/
def setSignedInfinity (p : Policy) (v : ExtRat) (shrink : Bool) : Bound :=
  ⟨v, p.storeOpen && shrink⟩

/-- `Boundary_NS::complement` -/
def bComplement (p : Policy) (R : Rounding) (tt : BT) (pf : Policy) (t : BT) (x : Bound) : Bound :=
  if getSpecial pf t x then
    setSignedInfinity p (infOf t) (!specialIsOpen pf)
  else adjust p R tt x.value (!normalIsOpen pf t x)

/-- two-operand `min_assign` -/
def bMin2 (p : Policy) (R : Rounding) (tt : BT) (p1 : Policy) (t1 : BT) (x1 : Bound)
    (p2 : Policy) (t2 : BT) (x2 : Bound) : Bound :=
  if lt p1 t1 x1 p2 t2 x2 then bAssign p R tt p1 t1 x1 else bAssign p R tt p2 t2 x2

def bMax2 (p : Policy) (R : Rounding) (tt : BT) (p1 : Policy) (t1 : BT) (x1 : Bound)
    (p2 : Policy) (t2 : BT) (x2 : Bound) : Bound :=
  if gt p1 t1 x1 p2 t2 x2 then bAssign p R tt p1 t1 x1 else bAssign p R tt p2 t2 x2

/-- in-place `min_assign(to_type, to, to_info, type, x, info)` -/
def bMin1 (p : Policy) (R : Rounding) (tt : BT) (to : Bound) (pf : Policy) (t : BT) (x : Bound) : Bound :=
  if lt pf t x p tt to then bAssign p R tt pf t x else to

def bMax1 (p : Policy) (R : Rounding) (tt : BT) (to : Bound) (pf : Policy) (t : BT) (x : Bound) : Bound :=
  if gt pf t x p tt to then bAssign p R tt pf t x else to

/-- `Boundary_NS::neg_assign` -/
def bNeg (p : Policy) (R : Rounding) (tt : BT) (pf : Policy) (t : BT) (x : Bound) : Bound :=
  if getSpecial pf t x then setBoundaryInfinity p tt (specialIsOpen pf)
  else adjust p R tt x.value.neg (normalIsOpen pf t x)

/-- shared shape of `add_assign`, `sub_assign`, `mul_assign` on boundaries -/
def bArith (f : ExtRat → ExtRat → ExtRat) (p : Policy) (R : Rounding) (tt : BT)
    (p1 : Policy) (t1 : BT) (x1 : Bound) (p2 : Policy) (t2 : BT) (x2 : Bound) : Bound :=
  if isBoundaryInfinity p1 t1 x1 then
    setBoundaryInfinity p tt (boundaryInfinityIsOpen p1 x1 && !isBoundaryInfinityClosed p2 t2 x2)
  else if isBoundaryInfinity p2 t2 x2 then
    setBoundaryInfinity p tt (boundaryInfinityIsOpen p2 x2 && !isBoundaryInfinityClosed p1 t1 x1)
  else adjust p R tt (f x1.value x2.value) (normalIsOpen p1 t1 x1 || normalIsOpen p2 t2 x2)

def bAdd := bArith ExtRat.add
def bSub := bArith ExtRat.sub
def bMul := bArith ExtRat.mul

/-- `set_zero` -/
def setZero (p : Policy) (R : Rounding) (tt : BT) (shrink : Bool) : Bound :=
  adjust p R tt (fin 0) shrink

/-- `mul_assign_z` -/
def bMulZ (p : Policy) (R : Rounding) (tt : BT) (p1 : Policy) (t1 : BT) (x1 : Bound) (x1s : Int)
    (p2 : Policy) (t2 : BT) (x2 : Bound) (x2s : Int) : Bound :=
  if x1s != 0 then
    if x2s != 0 then bMul p R tt p1 t1 x1 p2 t2 x2
    else setZero p R tt (getOpen p2 x2)
  else setZero p R tt (getOpen p1 x1 && (x2s != 0 || getOpen p2 x2))

/-- `div_assign` on boundaries -/
def bDiv (p : Policy) (R : Rounding) (tt : BT) (p1 : Policy) (t1 : BT) (x1 : Bound)
    (p2 : Policy) (t2 : BT) (x2 : Bound) : Bound :=
  if isBoundaryInfinity p1 t1 x1 then setBoundaryInfinity p tt (boundaryInfinityIsOpen p1 x1)
  else if isBoundaryInfinity p2 t2 x2 then setZero p R tt (boundaryInfinityIsOpen p2 x2)
  else adjust p R tt (ExtRat.div x1.value x2.value) (normalIsOpen p1 t1 x1 || normalIsOpen p2 t2 x2)

/-- `div_assign_z` -/
def bDivZ (p : Policy) (R : Rounding) (tt : BT) (p1 : Policy) (t1 : BT) (x1 : Bound) (x1s : Int)
    (p2 : Policy) (t2 : BT) (x2 : Bound) (x2s : Int) : Bound :=
  if x1s != 0 then
    if x2s != 0 then bDiv p R tt p1 t1 x1 p2 t2 x2
    else setBoundaryInfinity p tt true
  else setZero p R tt (getOpen p1 x1 && !isBoundaryInfinityClosed p2 t2 x2)

def umod2exp (x : Rat) (w : Nat) : Rat :=
  let m : Rat := (2 : Rat) ^ w
  x - m * ((x / m).floor : Rat)

def smod2exp (x : Rat) (w : Nat) : Rat :=
  let m : Rat := (2 : Rat) ^ w
  let r := umod2exp x w
  if m / 2 ≤ r then r - m else r

/-- `umod_2exp_assign` / `smod_2exp_assign` on boundaries (same type on both sides) -/
def bMod2exp (signed : Bool) (p : Policy) (R : Rounding) (t : BT) (x : Bound) (w : Nat) : Bound :=
  if isBoundaryInfinity p t x then setBoundaryInfinity p t (boundaryInfinityIsOpen p x)
  else match x.value with
    | fin q => adjust p R t (fin (if signed then smod2exp q w else umod2exp q w)) (normalIsOpen p t x)
    | v => adjust p R t v (normalIsOpen p t x)

end Boundary

/-! ## `Interval` -/
section Interval

/-- `assign(EMPTY)`: `lower_ = 1; upper_ = 0` with cleared info -/
def Iv.empty : Iv := ⟨⟨fin 1, false⟩, ⟨fin 0, false⟩⟩

/-- `assign(UNIVERSE)` -/
def Iv.universe (p : Policy) : Iv := ⟨setUnbounded p .lower, setUnbounded p .upper⟩

/-- `is_empty()` -/
def isEmpty (p : Policy) (x : Iv) : Bool := lt p .upper x.hi p .lower x.lo

/-- `check_empty_arg` -/
def checkEmptyArg (p : Policy) (x : Iv) : Bool := if p.mayBeEmpty then isEmpty p x else false

/-- `is_singleton()` -/
def isSingleton (p : Policy) (x : Iv) : Bool := eq p .lower x.lo p .upper x.hi

/-- `infinity_sign()` -/
def infinitySign (p : Policy) (x : Iv) : Int :=
  if isReverseInfinity p .lower x.lo then 1
  else if isReverseInfinity p .upper x.hi then -1
  else 0

/-- `assign(MINUS_INFINITY)` / `assign(PLUS_INFINITY)` (reachable only with `may_contain_infinity`) -/
def Iv.infinity (p : Policy) (v : ExtRat) : Iv :=
  ⟨setSignedInfinity p v false, setSignedInfinity p v false⟩

/-- `set_infinities()` -/
def Iv.infinities (p : Policy) : Iv :=
  ⟨setSignedInfinity p ninf false, setSignedInfinity p pinf false⟩

/-- `Interval::assign(const From& x)` -/
def assign (p : Policy) (R : Rounding) (pf : Policy) (x : Iv) : Iv :=
  if checkEmptyArg pf x then Iv.empty
  else ⟨bAssign p R .lower pf .lower x.lo, bAssign p R .upper pf .upper x.hi⟩

/-- `contains` -/
def contains (p : Policy) (x y : Iv) : Bool :=
  if checkEmptyArg p y then true
  else if checkEmptyArg p x then false
  else le p .lower x.lo p .lower y.lo && ge p .upper x.hi p .upper y.hi

/-- `strictly_contains` -/
def strictlyContains (p : Policy) (x y : Iv) : Bool :=
  if checkEmptyArg p y then !checkEmptyArg p x
  else if checkEmptyArg p x then false
  else (lt p .lower x.lo p .lower y.lo && ge p .upper x.hi p .upper y.hi)
    || (le p .lower x.lo p .lower y.lo && gt p .upper x.hi p .upper y.hi)

/-- `is_disjoint_from` -/
def isDisjointFrom (p : Policy) (x y : Iv) : Bool :=
  if checkEmptyArg p x || checkEmptyArg p y then true
  else gt p .lower x.lo p .upper y.hi || lt p .upper x.hi p .lower y.lo

/-- `operator==` -/
def ivEq (p : Policy) (x y : Iv) : Bool :=
  if checkEmptyArg p x then checkEmptyArg p y
  else if checkEmptyArg p y then false
  else eq p .lower x.lo p .lower y.lo && eq p .upper x.hi p .upper y.hi

/-- one-argument `join_assign` (`to` is `*this`) -/
def joinAssign (p : Policy) (R : Rounding) (to x : Iv) : Iv :=
  if checkEmptyArg p to then assign p R p x
  else if checkEmptyArg p x then to
  else ⟨bMin1 p R .lower to.lo p .lower x.lo, bMax1 p R .upper to.hi p .upper x.hi⟩

/-- two-argument `join_assign` -/
def joinAssign2 (p : Policy) (R : Rounding) (x y : Iv) : Iv :=
  if checkEmptyArg p x then assign p R p y
  else if checkEmptyArg p y then assign p R p x
  else ⟨bMin2 p R .lower p .lower x.lo p .lower y.lo, bMax2 p R .upper p .upper x.hi p .upper y.hi⟩

/-- one-argument `intersect_assign` -/
def intersectAssign (p : Policy) (R : Rounding) (to x : Iv) : Iv :=
  ⟨bMax1 p R .lower to.lo p .lower x.lo, bMin1 p R .upper to.hi p .upper x.hi⟩

/-- two-argument `intersect_assign` -/
def intersectAssign2 (p : Policy) (R : Rounding) (x y : Iv) : Iv :=
  ⟨bMax2 p R .lower p .lower x.lo p .lower y.lo, bMin2 p R .upper p .upper x.hi p .upper y.hi⟩

/-- one-argument `difference_assign` -/
def differenceAssign (p : Policy) (R : Rounding) (to x : Iv) : Iv :=
  if lt p .upper to.hi p .lower x.lo || gt p .lower to.lo p .upper x.hi then to
  else
    let nl := ge p .lower to.lo p .lower x.lo
    let nu := le p .upper to.hi p .upper x.hi
    if nl then
      if nu then Iv.empty
      else ⟨bComplement p R .lower p .upper x.hi, to.hi⟩
    else if nu then ⟨to.lo, bComplement p R .upper p .lower x.lo⟩
    else to

/-- `Relation_Symbol` -/
inductive Rel where
  | eq | lt | le | gt | ge | ne
deriving DecidableEq, Repr, Inhabited

/-- `remove_inf` / `remove_sup` -/
def removeInf (p : Policy) (x : Iv) : Iv := if p.storeOpen then ⟨⟨x.lo.value, true⟩, x.hi⟩ else x
def removeSup (p : Policy) (x : Iv) : Iv := if p.storeOpen then ⟨x.lo, ⟨x.hi.value, true⟩⟩ else x

/-- `refine_existential(rel, x)` with an interval argument of the same type -/
def refineExistential (p : Policy) (R : Rounding) (to : Iv) (rel : Rel) (x : Iv) : Iv :=
  if checkEmptyArg p x then Iv.empty
  else match rel with
  | .lt =>
    if lt p .upper to.hi p .upper x.hi then to
    else ⟨to.lo, bAssign p R .upper p .upper x.hi true⟩
  | .le =>
    if le p .upper to.hi p .upper x.hi then to
    else ⟨to.lo, bAssign p R .upper p .upper x.hi⟩
  | .gt =>
    if gt p .lower to.lo p .lower x.lo then to
    else ⟨bAssign p R .lower p .lower x.lo true, to.hi⟩
  | .ge =>
    if ge p .lower to.lo p .lower x.lo then to
    else ⟨bAssign p R .lower p .lower x.lo, to.hi⟩
  | .eq => intersectAssign p R to x
  | .ne =>
    if !isSingleton p x then to
    else if checkEmptyArg p to then to
    else
      let to := if eq p .lower to.lo p .lower x.lo then removeInf p to else to
      if eq p .upper to.hi p .upper x.hi then removeSup p to else to

/-- the `NOT_EQUAL` case of `refine_universal` before commit 17f6149 (KF-C12-5): only end points that
coincide with those of `x` are opened -/
def refineUniversalNeBeforeFix (p : Policy) (to x : Iv) : Iv :=
  if checkEmptyArg p x then to
  else if checkEmptyArg p to then to
  else
    let to := if eq p .lower to.lo p .lower x.lo then removeInf p to else to
    if eq p .upper to.hi p .upper x.hi then removeSup p to else to

/-- `refine_universal(rel, x)` (as repaired: an argument bound that is a SPECIAL infinity gives the
empty interval in the four order cases; `NOT_EQUAL` is `difference_assign(x)`) -/
def refineUniversal (p : Policy) (R : Rounding) (to : Iv) (rel : Rel) (x : Iv) : Iv :=
  if checkEmptyArg p x then to
  else match rel with
  | .lt =>
    if lt p .upper to.hi p .lower x.lo then to
    else if getSpecial p .lower x.lo then Iv.empty
    else ⟨to.lo, bAssign p R .upper Policy.scalar .lower x.lo (!isOpen p .lower x.lo)⟩
  | .le =>
    if le p .upper to.hi p .lower x.lo then to
    else if getSpecial p .lower x.lo then Iv.empty
    else ⟨to.lo, bAssign p R .upper Policy.scalar .lower x.lo⟩
  | .gt =>
    if gt p .lower to.lo p .upper x.hi then to
    else if getSpecial p .upper x.hi then Iv.empty
    else ⟨bAssign p R .lower Policy.scalar .upper x.hi (!isOpen p .upper x.hi), to.hi⟩
  | .ge =>
    if ge p .lower to.lo p .upper x.hi then to
    else if getSpecial p .upper x.hi then Iv.empty
    else ⟨bAssign p R .lower Policy.scalar .upper x.hi, to.hi⟩
  | .eq => if !isSingleton p x then Iv.empty else intersectAssign p R to x
  | .ne =>
    if checkEmptyArg p to then to
    else differenceAssign p R to x

/-- `neg_assign` -/
def negAssign (p : Policy) (R : Rounding) (x : Iv) : Iv :=
  if checkEmptyArg p x then Iv.empty
  else ⟨bNeg p R .lower p .upper x.hi, bNeg p R .upper p .lower x.lo⟩

/-- `add_assign` -/
def addAssign (p : Policy) (R : Rounding) (x y : Iv) : Iv :=
  if checkEmptyArg p x || checkEmptyArg p y then Iv.empty
  else
    let sx := infinitySign p x
    let sy := infinitySign p y
    if sx != 0 && sy == -sx then Iv.empty
    else
      let s := if sx != 0 then sx else sy
      if s < 0 then Iv.infinity p ninf
      else if s > 0 then Iv.infinity p pinf
      else ⟨bAdd p R .lower p .lower x.lo p .lower y.lo, bAdd p R .upper p .upper x.hi p .upper y.hi⟩

/-- `sub_assign` -/
def subAssign (p : Policy) (R : Rounding) (x y : Iv) : Iv :=
  if checkEmptyArg p x || checkEmptyArg p y then Iv.empty
  else
    let sx := infinitySign p x
    let sy := infinitySign p y
    if sx != 0 && sy == sx then Iv.empty
    else
      let s := if sx != 0 then sx else -sy
      if s < 0 then Iv.infinity p ninf
      else if s > 0 then Iv.infinity p pinf
      else ⟨bSub p R .lower p .lower x.lo p .upper y.hi, bSub p R .upper p .upper x.hi p .lower y.lo⟩

/-- the `inf:` label of `mul_assign` -/
def mulInf (p : Policy) (infSign ls us : Int) : Iv :=
  if ls == 0 && us == 0 then Iv.empty
  else if ls == -us then Iv.infinities p
  else
    let s := if ls < 0 || us < 0 then -infSign else infSign
    if s < 0 then Iv.infinity p ninf else Iv.infinity p pinf

/-- the second candidate replaces the first in the straddle/straddle case of `mul_assign`:
as written (`d3`) only the value is copied and the info bits of `first` stay. -/
def replaceCandidate (d3 : Bool) (first second : Bound) : Bound :=
  if d3 then ⟨second.value, first.open⟩ else second

/-- the last case of the table of `mul_assign`: `xl < 0 < xu`, `yl < 0 < yu` -/
def mulStraddle (d3 : Bool) (p : Policy) (R : Rounding) (x y : Iv) : Iv :=
  let tmpL := bMul p R .lower p .upper x.hi p .lower y.lo
  let toL := bMul p R .lower p .lower x.lo p .upper y.hi
  let lo := if gt p .lower toL p .lower tmpL then replaceCandidate d3 toL tmpL else toL
  let tmpU := bMul p R .upper p .upper x.hi p .upper y.hi
  let toU := bMul p R .upper p .lower x.lo p .lower y.lo
  let hi := if lt p .upper toU p .upper tmpU then replaceCandidate d3 toU tmpU else toU
  ⟨lo, hi⟩

/-- the nine-case sign table of `mul_assign` as written (`straddle` is the value of its last case) -/
def mulTable (p : Policy) (R : Rounding) (x y : Iv) (xls xus yls yus : Int) (straddle : Iv) : Iv :=
  if xls ≥ 0 then
    if yls ≥ 0 then
      -- 0 <= xl <= xu, 0 <= yl <= yu
      ⟨bMulZ p R .lower p .lower x.lo xls p .lower y.lo yls,
       bMulZ p R .upper p .upper x.hi xus p .upper y.hi yus⟩
    else if yus ≤ 0 then
      -- 0 <= xl <= xu, yl <= yu <= 0
      ⟨bMulZ p R .lower p .upper x.hi xus p .lower y.lo yls,
       bMulZ p R .upper p .lower x.lo xls p .upper y.hi yus⟩
    else
      -- 0 <= xl <= xu, yl < 0 < yu
      ⟨bMulZ p R .lower p .upper x.hi xus p .lower y.lo yls,
       bMulZ p R .upper p .upper x.hi xus p .upper y.hi yus⟩
  else if xus ≤ 0 then
    if yls ≥ 0 then
      -- xl <= xu <= 0, 0 <= yl <= yu
      ⟨bMulZ p R .lower p .lower x.lo xls p .upper y.hi yus,
       bMulZ p R .upper p .upper x.hi xus p .lower y.lo yls⟩
    else if yus ≤ 0 then
      -- xl <= xu <= 0, yl <= yu <= 0
      ⟨bMulZ p R .lower p .upper x.hi xus p .upper y.hi yus,
       bMulZ p R .upper p .lower x.lo xls p .lower y.lo yls⟩
    else
      -- xl <= xu <= 0, yl < 0 < yu
      ⟨bMulZ p R .lower p .lower x.lo xls p .upper y.hi yus,
       bMulZ p R .upper p .lower x.lo xls p .lower y.lo yls⟩
  else if yls ≥ 0 then
    -- xl < 0 < xu, 0 <= yl <= yu
    ⟨bMulZ p R .lower p .lower x.lo xls p .upper y.hi yus,
     bMulZ p R .upper p .upper x.hi xus p .upper y.hi yus⟩
  else if yus ≤ 0 then
    -- xl < 0 < xu, yl <= yu <= 0
    ⟨bMulZ p R .lower p .upper x.hi xus p .lower y.lo yls,
     bMulZ p R .upper p .lower x.lo xls p .lower y.lo yls⟩
  else
    -- xl < 0 < xu, yl < 0 < yu
    straddle

/-- `mul_assign` -/
def mulAssign (d3 : Bool) (p : Policy) (R : Rounding) (x y : Iv) : Iv :=
  if checkEmptyArg p x || checkEmptyArg p y then Iv.empty
  else
    let xls := sgnB p .lower x.lo
    let xus := if xls > 0 then 1 else sgnB p .upper x.hi
    let yls := sgnB p .lower y.lo
    let yus := if yls > 0 then 1 else sgnB p .upper y.hi
    let sx := infinitySign p x
    if sx != 0 then mulInf p sx yls yus
    else
      let sy := infinitySign p y
      if sy != 0 then mulInf p sy xls xus
      else mulTable p R x y xls xus yls yus (mulStraddle d3 p R x y)

/-- `div_assign` -/
def divAssign (p : Policy) (R : Rounding) (x y : Iv) : Iv :=
  if checkEmptyArg p x || checkEmptyArg p y then Iv.empty
  else
    let yls := sgnB p .lower y.lo
    let yus := if yls > 0 then 1 else sgnB p .upper y.hi
    if yls == 0 && yus == 0 then Iv.empty
    else
      let sx := infinitySign p x
      if sx != 0 then
        if infinitySign p y != 0 then Iv.empty
        else if yls == -yus then Iv.infinities p
        else
          let s := if yls < 0 || yus < 0 then -sx else sx
          if s < 0 then Iv.infinity p ninf else Iv.infinity p pinf
      else
        let xls := sgnB p .lower x.lo
        let xus := if xls > 0 then 1 else sgnB p .upper x.hi
        if yls ≥ 0 then
          if xls ≥ 0 then
            ⟨bDivZ p R .lower p .lower x.lo xls p .upper y.hi yus,
             bDivZ p R .upper p .upper x.hi xus p .lower y.lo yls⟩
          else if xus ≤ 0 then
            ⟨bDivZ p R .lower p .lower x.lo xls p .lower y.lo yls,
             bDivZ p R .upper p .upper x.hi xus p .upper y.hi yus⟩
          else
            ⟨bDivZ p R .lower p .lower x.lo xls p .lower y.lo yls,
             bDivZ p R .upper p .upper x.hi xus p .lower y.lo yls⟩
        else if yus ≤ 0 then
          if xls ≥ 0 then
            ⟨bDivZ p R .lower p .upper x.hi xus p .upper y.hi yus,
             bDivZ p R .upper p .lower x.lo xls p .lower y.lo yls⟩
          else if xus ≤ 0 then
            ⟨bDivZ p R .lower p .upper x.hi xus p .lower y.lo yls,
             bDivZ p R .upper p .lower x.lo xls p .upper y.hi yus⟩
          else
            ⟨bDivZ p R .lower p .upper x.hi xus p .upper y.hi yus,
             bDivZ p R .upper p .lower x.lo xls p .upper y.hi yus⟩
        else Iv.universe p

/-- `Bounded_Integer_Type_Representation` -/
inductive Repn where
  | unsigned
  | signed2c
deriving DecidableEq, Repr, Inhabited

/-- `lower_extend()` -/
def lowerExtend (p : Policy) (x : Iv) : Iv := ⟨setUnbounded p .lower, x.hi⟩
def upperExtend (p : Policy) (x : Iv) : Iv := ⟨x.lo, setUnbounded p .upper⟩

/-- `wrap_assign(w, r, refinement)`; `d12 = true` is the test `u > lower()` as written -/
def wrapAssign (d12 : Bool) (p : Policy) (R : Rounding) (to : Iv) (w : Nat) (r : Repn) (ref : Iv) : Iv :=
  if isEmpty p to then to
  else if isBoundaryInfinity p .lower to.lo || isBoundaryInfinity p .upper to.hi then assign p R p ref
  else
    match to.lo.value, to.hi.value with
    | fin l, fin h =>
      -- sub_2exp_assign_r(u, upper(), w, ROUND_UP)
      match R.up (h - (2 : Rat) ^ w) with
      | fin u =>
        if (if d12 then l < u else l ≤ u) then assign p R p ref
        else
          -- info().clear(): the OPEN bits of both bounds are dropped before they are read
          let signed := r == .signed2c
          let lo := bMod2exp signed p R .lower ⟨fin l, false⟩ w
          let hi := bMod2exp signed p R .upper ⟨fin h, false⟩ w
          let cur : Iv := ⟨lo, hi⟩
          if le p .lower lo p .upper hi then intersectAssign p R cur ref
          else
            let tmp : Iv := ⟨bAssign p R .lower p .lower lo, setUnbounded p .upper⟩
            let tmp := intersectAssign p R tmp ref
            let cur := lowerExtend p cur
            let cur := intersectAssign p R cur ref
            joinAssign p R cur tmp
      | _ => assign p R p ref   -- unreachable for the modelled types (the subtraction cannot overflow upwards to a usable value)
    | _, _ => assign p R p ref

/-- `CC76_widening_assign(y, first, last)` on a sorted list of stop points -/
def lowerBoundIdx (stops : List Rat) (v : Rat) : Nat :=
  (stops.takeWhile (fun s => s < v)).length

def cc76Widening (p : Policy) (x y : Iv) (stops : List Rat) : Iv :=
  let x :=
    if isBoundaryInfinity p .upper x.hi then x
    else match x.hi.value, y.hi.value with
      | fin xu, fin yu =>
        if yu < xu then
          let k := lowerBoundIdx stops xu
          match stops[k]? with
          | some s => if xu < s then ⟨x.lo, ⟨fin s, x.hi.open⟩⟩ else x
          | none => upperExtend p x
        else x
      | _, _ => x
  if isBoundaryInfinity p .lower x.lo then x
  else match x.lo.value, y.lo.value with
    | fin xl, fin yl =>
      if xl < yl then
        let k := lowerBoundIdx stops xl
        let back : Iv :=
          if k != 0 then
            match stops[k - 1]? with
            | some s => ⟨⟨fin s, x.lo.open⟩, x.hi⟩
            | none => x
          else lowerExtend p x
        match stops[k]? with
        | some s => if xl < s then back else x
        | none => back
      else x
    | _, _ => x

/-- a candidate that is replaced in the straddle/straddle case carries an OPEN bit different from
the one that replaces it -/
def straddleFlagsDiffer (p : Policy) (R : Rounding) (x y : Iv) : Bool :=
  let tmpL := bMul p R .lower p .upper x.hi p .lower y.lo
  let toL := bMul p R .lower p .lower x.lo p .upper y.hi
  let tmpU := bMul p R .upper p .upper x.hi p .upper y.hi
  let toU := bMul p R .upper p .lower x.lo p .lower y.lo
  (gt p .lower toL p .lower tmpL && toL.open != tmpL.open)
    || (lt p .upper toU p .upper tmpU && toU.open != tmpU.open)

/-- defect 3 acts on this operand pair: the straddle/straddle case of `mul_assign` is reached and
`straddleFlagsDiffer` -/
def d3Differs (p : Policy) (R : Rounding) (x y : Iv) : Bool :=
  if checkEmptyArg p x || checkEmptyArg p y then false
  else
    let xls := sgnB p .lower x.lo
    let xus := if xls > 0 then 1 else sgnB p .upper x.hi
    let yls := sgnB p .lower y.lo
    let yus := if yls > 0 then 1 else sgnB p .upper y.hi
    if infinitySign p x != 0 then false
    else if infinitySign p y != 0 then false
    else if xls ≥ 0 then false
    else if xus ≤ 0 then false
    else if yls ≥ 0 then false
    else if yus ≤ 0 then false
    else straddleFlagsDiffer p R x y

/-- the arithmetic operations, for the uniform statement of the enclosure theorem -/
inductive IvOp where
  | neg | add | sub | mul | div
deriving DecidableEq, Repr, Inhabited

/-- run the model of an operation (`d3`: `mul_assign` as written / repaired; unary `neg` ignores `y`) -/
def IvOp.run (d3 : Bool) (p : Policy) (R : Rounding) : IvOp → Iv → Iv → Iv
  | .neg, x, _ => negAssign p R x
  | .add, x, y => addAssign p R x y
  | .sub, x, y => subAssign p R x y
  | .mul, x, y => mulAssign d3 p R x y
  | .div, x, y => divAssign p R x y

/-- the exact operation on members -/
def IvOp.exact : IvOp → Rat → Rat → Rat
  | .neg, a, _ => -a
  | .add, a, b => a + b
  | .sub, a, b => a - b
  | .mul, a, b => a * b
  | .div, a, b => a / b

end Interval

/-! ## `Linear_Form<Interval>`: `operator+`, `operator-`, `operator*(C, f)` (Linear_Form_templates.hh)

A linear form is the list of its interval coefficients, inhomogeneous term first. -/
section LinearForm

/-- `operator+(f1, f2)`: the tail of the longer form is copied, the common part is `r[i] = f1[i]; r[i] += f2[i]` -/
def lfAdd (p : Policy) (R : Rounding) : List Iv → List Iv → List Iv
  | [], g => g
  | f, [] => f
  | x :: f, y :: g => addAssign p R x y :: lfAdd p R f g

/-- `operator-(f1, f2)`: the tail of a longer `f1` is copied, the tail of a longer `f2` is negated -/
def lfSub (p : Policy) (R : Rounding) : List Iv → List Iv → List Iv
  | [], g => g.map (negAssign p R)
  | f, [] => f
  | x :: f, y :: g => subAssign p R x y :: lfSub p R f g

/-- `operator*(n, f)`: `r[i] *= n` -/
def lfScale (d3 : Bool) (p : Policy) (R : Rounding) (n : Iv) (f : List Iv) : List Iv :=
  f.map (fun x => mulAssign d3 p R x n)

/-- the corresponding operations on concrete coefficient vectors -/
def vecAdd : List Rat → List Rat → List Rat
  | [], d => d
  | c, [] => c
  | a :: c, b :: d => (a + b) :: vecAdd c d

def vecSub : List Rat → List Rat → List Rat
  | [], d => d.map (fun b => -b)
  | c, [] => c
  | a :: c, b :: d => (a - b) :: vecSub c d

/-- value of a concrete linear form `c₀ + Σ cᵢ·ρᵢ₋₁` on a store -/
def vecEval : List Rat → List Rat → Rat
  | [], _ => 0
  | c0 :: cs, rho => c0 + dotR cs rho
where
  dotR : List Rat → List Rat → Rat
    | [], _ => 0
    | _, [] => 0
    | c :: cs, r :: rs => c * r + dotR cs rs

end LinearForm

end PPLV.Interval
